--------------------------- MODULE MC_AnkoEnvConc ---------------------------
EXTENDS AnkoEnvConc
AlphaFull == {Op("Define", "x", 1), Op("Set", "x", 2), Op("Get", "x", 0), Op("Delete", "x", 0), Op("DeleteGlobal", "x", 0),
              Op("Copy", "", 0), Op("Symbols", "", 0), Op("Addr", "x", 0), Op("Get", "p", 0), Op("Get", "ext", 0)}
AlphaCore == {Op("Define", "x", 1), Op("Set", "x", 2), Op("Get", "x", 0), Op("Delete", "x", 0), Op("DeleteGlobal", "x", 0), Op("Copy", "", 0)}
AlphaWrites == {Op("Define", "x", 1), Op("Set", "x", 2), Op("Delete", "x", 0), Op("DeleteGlobal", "x", 0), Op("Copy", "", 0), Op("Define", "y", 3)}
Tabs == {[n \in {} |-> 0], [n \in {"x"} |-> 5]}
PTab == [n \in {"p"} |-> 9]
\* a writable parent that also binds x: OUTSIDE the quantifier of C13 (observation only, see DESIGN.md section 8)
PTabX == [n \in {"p", "x"} |-> 9]
=============================================================================
