------------------------------ MODULE MC_AnkoHost ------------------------------
(* Ill-typed and degenerate programs built systematically: every operation template (one and two operand holes) applied to      *)
(* every tuple of operand kinds from the value universe.  TLC builds the script text; the real interpreter must return.        *)
EXTENDS Integers, Sequences, TLC, Json
CONSTANTS Vars, Shard, NShards
T1 == ndJsonDeserialize("host_templates1.ndjson")      \* [id, pre, post]
T2 == ndJsonDeserialize("host_templates2.ndjson")      \* [id, pre, mid, post]
VARIABLES c, done
Cases == [k : {1}, t : {i \in 1..Len(T1) : i % NShards = Shard}, a : Vars, b : {""}]
         \cup [k : {2}, t : {i \in 1..Len(T2) : i % NShards = Shard}, a : Vars, b : Vars]
Init == c \in Cases /\ done = FALSE
Src(x) == IF x.k = 1 THEN T1[x.t].pre \o x.a \o T1[x.t].post ELSE T2[x.t].pre \o x.a \o T2[x.t].mid \o x.b \o T2[x.t].post
Id(x) == IF x.k = 1 THEN T1[x.t].id \o "(" \o x.a \o ")" ELSE T2[x.t].id \o "(" \o x.a \o "," \o x.b \o ")"
Step == ~done /\ done' = TRUE /\ c' = c /\ PrintT(ToJson([id |-> Id(c), src |-> Src(c)]))
Spec == Init /\ [][Step]_<<c, done>>
=============================================================================
