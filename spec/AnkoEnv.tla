------------------------------- MODULE AnkoEnv -------------------------------
(***************************************************************************)
(* The environment API of mattn/anko (package env) as a parent-linked      *)
(* chain of dictionaries -- property C12, sequential half of C13.          *)
(*                                                                         *)
(* A scope is a record [par, v, t, x]: parent handle (0 = none), value     *)
(* table, type table, "has external lookup".  Handles are indices into the *)
(* sequence `sc` (Go side: the i-th *env.Env the harness obtained).        *)
(* Value tokens: 1..99 plain values (3 is the addressable one, 90 is nil),  *)
(* 100+i = the scope with handle i (a module).  Type tokens: small ints;   *)
(* 50.. = built-in type names.  Every operation is a function              *)
(*        (sc, args) -> [sc |-> sc', res |-> R]                            *)
(* with uniformly typed results R(k, i, s).                                *)
(***************************************************************************)
EXTENDS Integers, Sequences, FiniteSets

CONSTANTS Names,      \* pool of value/type symbol strings
          Dotted,     \* the members of Names that contain a '.'
          ExtV,       \* external value table:  function  name -> value token
          ExtT,       \* external type table :  function  name -> type token
          BuiltinT    \* built-in type names :  function  name -> type token

Absent == -1
R(k, i, s) == [k |-> k, i |-> i, s |-> s]
OK      == R("ok", 0, {})
Err     == R("err", 0, {})
ValR(v) == R("val", v, {})
EnvR(h) == R("env", h, {})
EnvErrR(h) == R("enverr", h, {})      \* NewModule on a dotted name: scope returned together with an error
SymsR(S) == R("syms", 0, S)

EnvRef(h)  == 100 + h
IsRef(v)   == v >= 100
RefId(v)   == v - 100
\* 3 is a value the host hands over in addressable storage; 90 is nil, which the package keeps in ONE addressable cell of its own
\* (env.NilValue) -- Define(n, nil), DefineValue(n, reflect.ValueOf(nil)) and DefineValue(n, env.NilValue) all bind that cell
Addressable(v) == v \in {3, 90}

\* va / ta: the scope's value / type table has been allocated (tables are created lazily by the first define and stay allocated
\* when emptied again; a copy has a table exactly where its source has one).  Not observable through the API -- the projection
\* ignores them -- but part of the state, so that the exploration distinguishes "never written" from "written and emptied".
EmptyScope(p) == [par |-> p, v |-> [n \in {} |-> 0], t |-> [n \in {} |-> 0], x |-> FALSE, va |-> FALSE, ta |-> FALSE]
Has(f, n)  == n \in DOMAIN f
Put(f, n, v) == [m \in DOMAIN f \cup {n} |-> IF m = n THEN v ELSE f[m]]
Del(f, n)  == [m \in DOMAIN f \ {n} |-> f[m]]

RECURSIVE Root(_, _), ChainSet(_, _), LookupV(_, _, _), LookupT(_, _, _), NearestV(_, _, _)
Root(sc, s) == IF sc[s].par = 0 THEN s ELSE Root(sc, sc[s].par)
ChainSet(sc, s) == IF s = 0 THEN {} ELSE {s} \cup ChainSet(sc, sc[s].par)

\* nearest enclosing binding: own table, then this scope's external lookup, then the parent
LookupV(sc, s, n) ==
  IF Has(sc[s].v, n) THEN sc[s].v[n]
  ELSE IF sc[s].x /\ Has(ExtV, n) THEN ExtV[n]
  ELSE IF sc[s].par = 0 THEN Absent
  ELSE LookupV(sc, sc[s].par, n)

\* built-in type names are consulted last, at the root
LookupT(sc, s, n) ==
  IF Has(sc[s].t, n) THEN sc[s].t[n]
  ELSE IF sc[s].x /\ Has(ExtT, n) THEN ExtT[n]
  ELSE IF sc[s].par = 0 THEN (IF Has(BuiltinT, n) THEN BuiltinT[n] ELSE Absent)
  ELSE LookupT(sc, sc[s].par, n)

\* nearest scope whose OWN table binds n (0 if none): what set / delete-nearest address
NearestV(sc, s, n) ==
  IF Has(sc[s].v, n) THEN s
  ELSE IF sc[s].par = 0 THEN 0
  ELSE NearestV(sc, sc[s].par, n)

Same(sc, res) == [sc |-> sc, res |-> res]

Define(sc, s, n, v) ==
  IF n \in Dotted THEN Same(sc, Err)
  ELSE [sc |-> [sc EXCEPT ![s].v = Put(@, n, v), ![s].va = TRUE], res |-> OK]

DefineGlobal(sc, s, n, v) == Define(sc, Root(sc, s), n, v)

SetV(sc, s, n, v) ==
  LET w == NearestV(sc, s, n) IN
  IF w = 0 THEN Same(sc, Err)
  ELSE [sc |-> [sc EXCEPT ![w].v = Put(@, n, v)], res |-> OK]

GetV(sc, s, n) ==
  LET v == LookupV(sc, s, n) IN Same(sc, IF v = Absent THEN Err ELSE ValR(v))

Delete(sc, s, n) == [sc |-> [sc EXCEPT ![s].v = Del(@, n)], res |-> OK]

\* env.DeleteGlobal: "deletes the first matching symbol found in current or parent scope"
DeleteNearest(sc, s, n) ==
  LET w == NearestV(sc, s, n) IN
  IF w = 0 THEN Same(sc, OK) ELSE Delete(sc, w, n)

DefineType(sc, s, n, t) ==
  IF n \in Dotted THEN Same(sc, Err)
  ELSE [sc |-> [sc EXCEPT ![s].t = Put(@, n, t), ![s].ta = TRUE], res |-> OK]

DefineGlobalType(sc, s, n, t) == DefineType(sc, Root(sc, s), n, t)

TypeOf(sc, s, n) ==
  LET t == LookupT(sc, s, n) IN Same(sc, IF t = Absent THEN Err ELSE ValR(t))

\* Addr: the nearest binding, if it is addressable storage
Addr(sc, s, n) ==
  LET v == LookupV(sc, s, n) IN
  Same(sc, IF v # Absent /\ Addressable(v) THEN ValR(v) ELSE Err)

NewEnv(sc, s) == [sc |-> Append(sc, EmptyScope(s)), res |-> EnvR(Len(sc) + 1)]

NewModule(sc, s, n) ==
  LET h  == Len(sc) + 1
      s1 == Append(sc, EmptyScope(s)) IN
  IF n \in Dotted THEN [sc |-> s1, res |-> EnvErrR(h)]
  ELSE [sc |-> [s1 EXCEPT ![s].v = Put(@, n, EnvRef(h)), ![s].va = TRUE], res |-> EnvR(h)]

\* GetEnvFromPath: the first element is resolved to the nearest enclosing binding that IS a module
\* (bindings of that name that are not modules are passed over); the rest only in own tables.
RECURSIVE PathStart(_, _, _), PathRest(_, _, _, _)
PathStart(sc, s, n) ==
  IF Has(sc[s].v, n) /\ IsRef(sc[s].v[n]) THEN RefId(sc[s].v[n])
  ELSE IF sc[s].par = 0 THEN 0
  ELSE PathStart(sc, sc[s].par, n)
PathRest(sc, e, p, i) ==
  IF i > Len(p) THEN e
  ELSE IF Has(sc[e].v, p[i]) /\ IsRef(sc[e].v[p[i]]) THEN PathRest(sc, RefId(sc[e].v[p[i]]), p, i + 1)
  ELSE 0
EnvFromPath(sc, s, p) ==
  IF Len(p) = 0 THEN Same(sc, EnvR(s))
  ELSE LET e0 == PathStart(sc, s, p[1]) IN
       IF e0 = 0 THEN Same(sc, Err)
       ELSE LET e == PathRest(sc, e0, p, 2) IN Same(sc, IF e = 0 THEN Err ELSE EnvR(e))

\* Copy: a new scope with the same parent and external lookup and equal tables
Copy(sc, s) == [sc |-> Append(sc, sc[s]), res |-> EnvR(Len(sc) + 1)]

\* DeepCopy: the whole chain is copied; copy of s gets handle Len+1, copy of its parent Len+2, ...
RECURSIVE DeepCopyFrom(_, _)
DeepCopyFrom(sc, s) ==     \* appends copies of s, parent(s), ... and links them
  LET h == Len(sc) + 1 IN
  IF sc[s].par = 0 THEN Append(sc, sc[s])
  ELSE DeepCopyFrom(Append(sc, [sc[s] EXCEPT !.par = h + 1]), sc[s].par)
DeepCopy(sc, s) == [sc |-> DeepCopyFrom(sc, s), res |-> EnvR(Len(sc) + 1)]

Symbols(sc, s)     == Same(sc, SymsR(DOMAIN sc[s].v))
TypeSymbols(sc, s) == Same(sc, SymsR(DOMAIN sc[s].t))
SetExt(sc, s, b)   == [sc |-> [sc EXCEPT ![s].x = b], res |-> OK]

\* one call = one record  [op, h, n, v, p]
Call(op, h, n, v, p) == [op |-> op, h |-> h, n |-> n, v |-> v, p |-> p]

Apply(sc, c) ==
  CASE c.op = "Define"           -> Define(sc, c.h, c.n, c.v)
    [] c.op = "DefineGlobal"     -> DefineGlobal(sc, c.h, c.n, c.v)
    [] c.op = "Set"              -> SetV(sc, c.h, c.n, c.v)
    [] c.op = "Get"              -> GetV(sc, c.h, c.n)
    [] c.op = "Delete"           -> Delete(sc, c.h, c.n)
    [] c.op = "DeleteGlobal"     -> DeleteNearest(sc, c.h, c.n)
    [] c.op = "DefineType"       -> DefineType(sc, c.h, c.n, c.v)
    [] c.op = "DefineGlobalType" -> DefineGlobalType(sc, c.h, c.n, c.v)
    [] c.op = "Type"             -> TypeOf(sc, c.h, c.n)
    [] c.op = "Addr"             -> Addr(sc, c.h, c.n)
    [] c.op = "NewEnv"           -> NewEnv(sc, c.h)
    [] c.op = "NewModule"        -> NewModule(sc, c.h, c.n)
    [] c.op = "Path"             -> EnvFromPath(sc, c.h, c.p)
    [] c.op = "Copy"             -> Copy(sc, c.h)
    [] c.op = "DeepCopy"         -> DeepCopy(sc, c.h)
    [] c.op = "Symbols"          -> Symbols(sc, c.h)
    [] c.op = "TypeSymbols"      -> TypeSymbols(sc, c.h)
    [] c.op = "SetExt"           -> SetExt(sc, c.h, c.v = 1)

\* the observable projection of all scopes: own tables and what every name of the pool resolves to
Tab(f) == [n \in Names |-> IF Has(f, n) THEN f[n] ELSE Absent]
Proj(sc) == [i \in 1..Len(sc) |->
               [v  |-> Tab(sc[i].v), t |-> Tab(sc[i].t),
                lv |-> [n \in Names |-> LookupV(sc, i, n)],
                lt |-> [n \in Names |-> LookupT(sc, i, n)]]]

Init0 == <<EmptyScope(0)>>
=============================================================================
