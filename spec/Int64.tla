-------------------------------- MODULE Int64 --------------------------------
(***************************************************************************)
(* 64-bit two's-complement integer arithmetic that TLC can evaluate.       *)
(* TLC's own integers are 32-bit, so an int64 is a sequence of 8 bytes,    *)
(* little-endian (W = 8; the module is also checked at W = 1 and W = 2     *)
(* against TLC's native integers, see MC_Int64).                           *)
(* Semantics are Go's for int64: + - * wrap, shifts take an UNSIGNED count *)
(* (>= width gives 0 / sign fill), % truncates toward zero (sign of the    *)
(* dividend), comparisons are signed.                                      *)
(***************************************************************************)
EXTENDS Integers, Sequences

CONSTANT W                     \* number of bytes (8 for int64)
NB == W * 8

Zero == [i \in 1..W |-> 0]
One  == [i \in 1..W |-> IF i = 1 THEN 1 ELSE 0]
MinusOne == [i \in 1..W |-> 255]
MinInt == [i \in 1..W |-> IF i = W THEN 128 ELSE 0]

IsNeg(a) == a[W] >= 128
IsZero(a) == \A i \in 1..W : a[i] = 0

\* ---- addition with carry, byte by byte
RECURSIVE AddC(_, _, _, _, _)
AddC(a, b, i, c, acc) ==
  IF i > W THEN acc
  ELSE LET s == a[i] + b[i] + c IN AddC(a, b, i + 1, s \div 256, Append(acc, s % 256))
Add(a, b) == AddC(a, b, 1, 0, <<>>)
NotB(a) == [i \in 1..W |-> 255 - a[i]]
Neg(a) == Add(NotB(a), One)
Sub(a, b) == Add(a, Neg(b))

\* ---- multiplication modulo 2^(8W): column sums, then carries
Col(a, b, k) ==                       \* sum of a[i]*b[j] with (i-1)+(j-1) = k-1
  LET RECURSIVE S(_, _)
      S(i, acc) == IF i > k THEN acc ELSE S(i + 1, acc + a[i] * b[k - i + 1])
  IN S(1, 0)
RECURSIVE MulC(_, _, _, _, _)
MulC(a, b, k, c, acc) ==
  IF k > W THEN acc
  ELSE LET s == Col(a, b, k) + c IN MulC(a, b, k + 1, s \div 256, Append(acc, s % 256))
Mul(a, b) == MulC(a, b, 1, 0, <<>>)

\* ---- bitwise operators, byte by byte (each byte in 8 arithmetic steps)
P2 == <<1, 2, 4, 8, 16, 32, 64, 128, 256>>
BitOp(op, x, y) == CASE op = "and" -> x * y
                     [] op = "or"  -> IF x + y > 0 THEN 1 ELSE 0
                     [] op = "xor" -> (x + y) % 2
RECURSIVE ByteOp(_, _, _, _, _)
ByteOp(op, x, y, k, acc) ==          \* k = 1..8 from the least significant bit
  IF k > 8 THEN acc
  ELSE ByteOp(op, x \div 2, y \div 2, k + 1, acc + P2[k] * BitOp(op, x % 2, y % 2))
Bitwise(op, a, b) == [i \in 1..W |-> ByteOp(op, a[i], b[i], 1, 0)]
And(a, b) == Bitwise("and", a, b)
Or(a, b)  == Bitwise("or", a, b)
Xor(a, b) == Bitwise("xor", a, b)

\* ---- shifts: the count is taken as an UNSIGNED W-byte number; whole bytes first, then 0..7 bits
CountBig(c) == (\E i \in 2..W : c[i] # 0) \/ c[1] >= NB
ByteAt(a, i, fill) == IF i < 1 \/ i > W THEN fill ELSE a[i]
Shl(a, c) == IF CountBig(c) THEN Zero
             ELSE LET q == c[1] \div 8  r == c[1] % 8 IN
                  [i \in 1..W |-> ((ByteAt(a, i - q, 0) * P2[r + 1]) % 256) + (ByteAt(a, i - q - 1, 0) \div P2[9 - r])]
Shr(a, c) == LET fill == IF IsNeg(a) THEN 255 ELSE 0 IN      \* arithmetic shift
             IF CountBig(c) THEN [i \in 1..W |-> fill]
             ELSE LET q == c[1] \div 8  r == c[1] % 8 IN
                  [i \in 1..W |-> (ByteAt(a, i + q, fill) \div P2[r + 1]) + ((ByteAt(a, i + q + 1, fill) * P2[9 - r]) % 256)]

\* ---- comparisons
RECURSIVE ULtR(_, _, _)
ULtR(a, b, i) == IF i = 0 THEN FALSE ELSE IF a[i] # b[i] THEN a[i] < b[i] ELSE ULtR(a, b, i - 1)
ULt(a, b) == ULtR(a, b, W)                                      \* unsigned
Lt(a, b) == IF IsNeg(a) # IsNeg(b) THEN IsNeg(a) ELSE ULt(a, b)  \* signed
Le(a, b) == a = b \/ Lt(a, b)

\* ---- unsigned restoring division on magnitudes (one bit per step), then Go's truncated remainder
Abs(a) == IF IsNeg(a) THEN Neg(a) ELSE a                \* as an unsigned number (|MinInt| = 2^(NB-1) is representable)
BitOf(n, k) == (n[((k - 1) \div 8) + 1] \div P2[((k - 1) % 8) + 1]) % 2        \* bit k; 1 is the least significant
RECURSIVE Shl1C(_, _, _, _)
Shl1C(r, i, c, acc) == IF i > W THEN acc ELSE LET v == 2 * r[i] + c IN Shl1C(r, i + 1, v \div 256, Append(acc, v % 256))
Shl1In(r, bit) == Shl1C(r, 1, bit, <<>>)
RECURSIVE UDivR(_, _, _, _, _)
UDivR(n, d, i, r, q) ==        \* i from NB down to 1; returns [q, r]
  IF i = 0 THEN [q |-> q, r |-> r]
  ELSE LET r1 == Shl1In(r, BitOf(n, i))
           ge == ~ULt(r1, d) IN
       UDivR(n, d, i - 1, IF ge THEN Sub(r1, d) ELSE r1,
             IF ge THEN [q EXCEPT ![((i - 1) \div 8) + 1] = @ + P2[((i - 1) % 8) + 1]] ELSE q)
UDivMod(n, d) == UDivR(n, d, NB, Zero, Zero)
\* a % b  (b # 0): magnitude |a| mod |b|, sign of a
Rem(a, b) == LET m == UDivMod(Abs(a), Abs(b)).r IN IF IsNeg(a) THEN Neg(m) ELSE m
\* a / b truncated (b # 0), wrapping for MinInt / -1 as Go does
Quo(a, b) == LET q == UDivMod(Abs(a), Abs(b)).q IN IF IsNeg(a) # IsNeg(b) THEN Neg(q) ELSE q

\* ---- decimal text
Digit == <<"0", "1", "2", "3", "4", "5", "6", "7", "8", "9">>
RECURSIVE DivSmallR(_, _, _, _, _)
DivSmallR(a, d, i, rem, acc) ==       \* short division of the unsigned number a by a small d, from the top byte down
  IF i = 0 THEN [q |-> acc, r |-> rem]
  ELSE LET cur == rem * 256 + a[i] IN DivSmallR(a, d, i - 1, cur % d, [acc EXCEPT ![i] = cur \div d])
DivSmall(a, d) == DivSmallR(a, d, W, 0, Zero)
RECURSIVE UDec(_, _)
UDec(a, acc) == IF IsZero(a) THEN (IF acc = "" THEN "0" ELSE acc)
                ELSE LET x == DivSmall(a, 10) IN UDec(x.q, Digit[x.r + 1] \o acc)
ToDecimal(a) == IF IsNeg(a) THEN "-" \o UDec(Abs(a), "") ELSE UDec(a, "")

\* small native integer -> limbs (|n| < 2^31), for cross-checking and for small constants
RECURSIVE FromNatR(_, _, _)
FromNatR(n, i, acc) == IF i > W THEN acc ELSE FromNatR(n \div 256, i + 1, Append(acc, n % 256))
FromInt(n) == IF n >= 0 THEN FromNatR(n, 1, <<>>) ELSE Neg(FromNatR(0 - n, 1, <<>>))
=============================================================================
