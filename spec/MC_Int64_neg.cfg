SPECIFICATION Spec
CONSTANTS
  W = 1
  Pool <- PoolW1q
INVARIANTS WrongMul
CHECK_DEADLOCK FALSE
