SPECIFICATION Spec
CONSTANTS
  Wrappers <- Stacks
  Variant = "NoResumePoll"
INVARIANTS NoSwallow ResultIsInterrupt
PROPERTIES Interrupted
CHECK_DEADLOCK FALSE
