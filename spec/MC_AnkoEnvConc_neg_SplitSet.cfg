SPECIFICATION Spec
CONSTANTS
  Procs = {1, 2}
  NOps = 2
  Alphabet <- AlphaCore
  InitTabs <- Tabs
  ParentTab <- PTab
  Variant = "SplitSet"
INVARIANTS Linearizable LockDiscipline LocksFreeAtEnd
CHECK_DEADLOCK TRUE
