------------------------------ MODULE MC_AnkoCall ------------------------------
EXTENDS AnkoCall, Json
CONSTANTS Shard      \* which family of signatures this run enumerates
ArgKinds == Kinds
Sigs1 == {<<<<T>>, "">> : T \in Types}
SigsV == {<<<<>>, T>> : T \in {"int64", "iface", "string", "float64"}} \cup {<<<<U>>, T>> : U \in {"int64", "string"}, T \in {"int64", "iface"}}
Sigs2 == {<<<<T, U>>, "">> : T \in {"int64", "string", "iface", "[]int64", "float32", "bool"}, U \in {"int64", "string", "iface", "[]string", "uint8", "func(int64)string"}}
ArgSeqs(n) == [1..n -> ArgKinds]
Small == {"int5", "flt", "str", "nil", "list_i", "list_mixed", "fn", "bool"}
Cases ==
  CASE Shard = "one" -> {[fixed |-> s[1], vtype |-> s[2], args |-> a, spread |-> sp] : s \in Sigs1, a \in ArgSeqs(1) \cup ArgSeqs(0) \cup [1..2 -> {"int5", "str"}], sp \in BOOLEAN}
    [] Shard = "two" -> {[fixed |-> s[1], vtype |-> s[2], args |-> a, spread |-> sp] : s \in Sigs2, a \in [1..2 -> Small] \cup [1..1 -> Lists \cup {"int5"}] \cup [1..3 -> {"int5", "list_i"}], sp \in BOOLEAN}
    [] Shard = "var" -> {[fixed |-> s[1], vtype |-> s[2], args |-> a, spread |-> sp] : s \in SigsV, a \in ArgSeqs(0) \cup ArgSeqs(1) \cup [1..2 -> Small \cup {"list_s", "list_empty"}] \cup [1..3 -> {"int5", "str", "list_i"}], sp \in BOOLEAN}
    [] Shard = "results" -> {[results |-> rs] : rs \in {<<>>} \cup [1..1 -> RKinds] \cup [1..2 -> RKinds] \cup [1..3 -> {"int64", "nilslice", "nilptr", "nilerr", "err", "ifacenil"}]}
    [] Shard = "callbacks" -> {[gfix |-> gf, gvar |-> gv, gextra |-> ge, sfix |-> sf, svar |-> sv, gres |-> 1, sret |-> 1] :
                                 gf \in 0..2, gv \in BOOLEAN, ge \in 0..3, sf \in 0..3, sv \in BOOLEAN}
                              \cup {[gfix |-> 1, gvar |-> FALSE, gextra |-> 0, sfix |-> 1, svar |-> FALSE, gres |-> gr, sret |-> sr] : gr \in 0..2, sr \in 0..3}
    [] Shard = "methods" -> {[shape |-> sh, recv |-> rc, nargs |-> n] : sh \in RecvShapes, rc \in {"value", "pointer"}, n \in {0, 1, 2}}
VARIABLES c, done
Init == c \in Cases /\ done = FALSE
Step == ~done /\ done' = TRUE /\ c' = c
        /\ IF Shard = "results" THEN PrintT(ToJson([c |-> c, res |-> Results(c.results)]))
           ELSE IF Shard = "callbacks" THEN PrintT(ToJson([c |-> c, sees |-> CallbackSees(c.gfix, c.gvar, IF c.gvar THEN c.gextra ELSE 0, c.sfix, c.svar), returns |-> CallbackReturns(c.gres, c.sret)]))
           ELSE IF Shard = "methods" THEN PrintT(ToJson([c |-> c, reachable |-> MethodReachable(c.shape, c.recv), mutation |-> MutationVisible(c.shape, c.recv)]))
           ELSE /\ Assert(TableSane(c.fixed, c.vtype, c.args, c.spread), <<"call table not total", c>>)
                /\ LET o == Outcome(c.fixed, c.vtype, c.args, c.spread) IN
                   PrintT(ToJson([c |-> c, out |-> o, fails |-> Fails(o), open |-> IsOpen(o)]))
Spec == Init /\ [][Step]_<<c, done>>
=============================================================================
