--------------------------- MODULE MC_AnkoContainers ---------------------------
(* Bounded machine over AnkoContainers (property C10): every statement of a finite alphabet applied in every reachable       *)
(* abstract state, up to Depth statements after one of several preludes.  TLC checks the design-level statements of C10 as     *)
(* action properties / invariants and emits one history per (distinct state, enabled statement) -- the transition cover that   *)
(* checks/c10.py replays on the real interpreter (the run is then judged by Trace_AnkoContainers, i.e. by the same Step).       *)
(* Capacity of a growing append: Go's own rule for small slices (double), a constant of the model; the trace judge accepts     *)
(* whatever capacity the runtime really chose.                                                                                  *)
EXTENDS AnkoContainers, Json, SequencesExt

CONSTANTS Depth, Family, Emit, Mutant

Vars == {"a", "b", "c", "m", "n", "ta", "st", "s", "t", "tm", "sv", "su"}
VARIABLES st, hist, last
vars == <<st, hist, last>>

St0 == [arrs |-> <<>>, maps |-> <<>>, structs |-> <<>>, strs |-> <<>>, vars |-> [n \in Vars |-> NilV]]
O(op, x, y, i, j, k, v, s, cs) == [op |-> op, x |-> x, y |-> y, i |-> i, j |-> j, k |-> k, v |-> v, s |-> s, cap |-> 0, cs |-> cs]
O1(op, x) == O(op, x, "", NilV, NilV, NilV, NilV, "", <<>>)
Alias(x, y) == O("alias", x, y, NilV, NilV, NilV, NilV, "", <<>>)
Read(x, i) == O("read", x, "", i, NilV, NilV, NilV, "", <<>>)
Write(x, i, v) == O("write", x, "", i, NilV, NilV, v, "", <<>>)
AppendO(x, v) == O("append", x, "", NilV, NilV, NilV, v, "", <<>>)
Slice2(x, y, i, j) == O("slice2", x, y, IntV(i), IntV(j), NilV, NilV, "", <<>>)
Slice3(x, y, i, j, k) == O("slice3", x, y, IntV(i), IntV(j), IntV(k), NilV, "", <<>>)
InO(x, v) == O("in", x, "", NilV, NilV, NilV, v, "", <<>>)
MapSet(x, k, v) == O("mapset", x, "", k, NilV, NilV, v, "", <<>>)
MapGet_(x, k) == O("mapget", x, "", k, NilV, NilV, NilV, "", <<>>)
MapDel_(x, k) == O("mapdel", x, "", k, NilV, NilV, NilV, "", <<>>)
FieldSet(f, v) == O("fieldset", "st", "", NilV, NilV, NilV, v, f, <<>>)
FieldGet(f) == O("fieldget", "st", "", NilV, NilV, NilV, NilV, f, <<>>)
Flt19 == V("flt", 1, "1.9", 0, 0, 0, 0)
ListKey == V("listlit", 0, "", 0, 0, 0, 0)

SliceOps ==
  {O1("lit3", "a"), O1("lit3", "b"), O("make", "a", "", IntV(1), IntV(3), NilV, NilV, "", <<>>), O("make", "b", "", IntV(0), IntV(0), NilV, NilV, "", <<>>),
   Alias("b", "a"), Alias("a", "b"), Alias("c", "b")}
  \cup {Read(x, IntV(i)) : x \in {"a", "b"}, i \in {-1, 0, 2, 3}} \cup {Read("a", StrV("x")), Read("b", NilV)}
  \cup {Write(x, IntV(i), IntV(7)) : x \in {"a", "b"}, i \in {-1, 0, 1, 2, 3, 4}} \cup {Write("a", StrV("x"), IntV(7)), Write("c", IntV(0), StrV("s"))}
  \cup {AppendO(x, IntV(7)) : x \in {"a", "b", "c"}}
  \cup {Slice2(x, y, ij[1], ij[2]) : x \in {"b"}, y \in {"a", "b"}, ij \in {<<0, 2>>, <<1, 2>>, <<1, 3>>, <<0, 0>>, <<2, 1>>, <<0, 4>>, <<-1, 1>>, <<3, 3>>}}
  \cup {Slice2("a", "a", 1, 2), Slice2("c", "b", 0, 1)}
  \cup {Slice3("b", "a", 0, 1, 2), Slice3("b", "a", 0, 1, 5), Slice3("b", "a", 1, 2, 2), Slice3("c", "b", 0, 1, 1), Slice3("b", "a", 1, 1, 0)}
  \cup {O("bindelem", "a", "sv", IntV(0), NilV, NilV, NilV, "", <<>>), O1("getvar", "sv")}
  \cup {O("concat", "c", "b", NilV, NilV, StrV("ta"), NilV, "", <<>>), O("concat", "c", "b", NilV, NilV, StrV("a"), NilV, "", <<>>), O("tmake", "ta", "", IntV(1), NilV, NilV, NilV, "", <<>>)}
  \cup {O1("len", x) : x \in {"a", "b"}} \cup {InO(x, IntV(7)) : x \in {"a", "b"}} \cup {O1("callwrite", x) : x \in {"a", "b"}}
MapOps ==
  {O1("mapnew", "m"), O1("mapnew", "n"), Alias("n", "m")}
  \cup {MapSet(x, k, v) : x \in {"m", "n"}, k \in {StrV("k"), IntV(1), NilV}, v \in {IntV(7), NilV}}
  \cup {MapSet("m", ListKey, IntV(7))}
  \cup {MapGet_(x, k) : x \in {"m", "n"}, k \in {StrV("k"), IntV(1), NilV, ListKey}}
  \cup {MapDel_(x, k) : x \in {"m", "n"}, k \in {StrV("k"), IntV(1), ListKey}}
  \cup {O1("len", "m"), InO("m", IntV(7))}
StrOps ==
  {O("strlit", "s", "", NilV, NilV, NilV, NilV, "", <<"a", "b", "c">>), O("strlit", "s", "", NilV, NilV, NilV, NilV, "", <<>>), Alias("t", "s"),
   O("strlit", "s", "", NilV, NilV, NilV, NilV, "", <<"a", "xc3", "xa9">>)}          \* "aé": a string is its BYTES (len, index, slice bounds), "xHH" names a byte of a multi-byte character
  \cup {Read(x, IntV(i)) : x \in {"s", "t"}, i \in {-1, 0, 2, 3}} \cup {Read("s", StrV("x"))}
  \cup {Write(x, IntV(i), StrV("x")) : x \in {"s", "t"}, i \in {-1, 0, 1, 3, 4}} \cup {Write("s", NilV, StrV("x"))}
  \cup {AppendO("s", StrV("z")), AppendO("t", IntV(7))}
  \cup {Slice2(x, "s", ij[1], ij[2]) : x \in {"s", "t"}, ij \in {<<1, 2>>, <<0, 0>>, <<2, 1>>, <<0, 4>>, <<-1, 1>>, <<0, 3>>}}
  \cup {Slice3("t", "s", 0, 1, 2), O1("len", "s"), O1("len", "t"), InO("s", StrV("x")), O1("callwrite", "s")}
TypedOps ==
  {O("tmake", "ta", "", IntV(2), NilV, NilV, NilV, "", <<>>), Alias("b", "ta"), O1("litmix", "a"), O1("lit3", "a"), Slice2("b", "ta", 0, 1), Read("ta", IntV(1))}
  \cup {O("concat", "c", y, NilV, NilV, StrV("a"), NilV, "", <<>>) : y \in {"ta", "b"}}
  \cup {Write("ta", IntV(1), IntV(5))} \cup {Write("b", IntV(1), v) : v \in {StrV("s"), IntV(5)}}      \* a store at index len of a view whose storage has room: lands in the shared array, or fails and leaves it alone
  \cup {Write("ta", IntV(i), v) : i \in {0, 2, 3}, v \in {IntV(5), StrV("s"), Flt19}}
  \cup {AppendO("ta", v) : v \in {IntV(5), StrV("s"), Flt19}} \cup {Read("ta", IntV(0)), Read("ta", IntV(2)), Read("b", IntV(0)), O1("len", "ta")}
  \cup {InO("ta", Flt19), InO("ta", IntV(5)), InO("ta", IntV(1)), InO("ta", StrV("s")), InO("ta", NilV)}
  \cup {O1("tmapnew", "tm")} \cup {MapSet("tm", StrV("k"), v) : v \in {IntV(5), StrV("s"), Flt19}} \cup {MapSet("tm", ListKey, IntV(5))}
  \cup {MapGet_("tm", StrV("k")), MapGet_("tm", StrV("x")), MapGet_("tm", ListKey), MapDel_("tm", StrV("k")), MapDel_("tm", ListKey), O1("len", "tm")}
  \cup {FieldSet("M", V("maplit0", 0, "", 0, 0, 0, 0)), FieldSet("M", V("maplit1", 0, "", 0, 0, 0, 0)), FieldSet("M", IntV(5)),
        O("aliasfield", "st", "tm", NilV, NilV, NilV, NilV, "", <<>>),
        O("fieldmapget", "st", "", StrV("k"), NilV, NilV, NilV, "", <<>>), O("fieldmapset", "st", "", StrV("k"), NilV, NilV, IntV(5), "", <<>>),
        O("fieldmapset", "st", "", StrV("x"), NilV, NilV, StrV("s"), "", <<>>)}
  \cup {O("bindelem", "ta", "sv", IntV(0), NilV, NilV, NilV, "", <<>>), O("bindfield", "st", "sv", NilV, NilV, NilV, NilV, "A", <<>>), O("bindfield", "st", "sv", NilV, NilV, NilV, NilV, "B", <<>>), O1("getvar", "sv")}
  \cup {O1("structnew2", "su"), O1("callget", "st"), O1("callget", "su"), O("fieldset", "su", "", NilV, NilV, NilV, IntV(5), "A", <<>>), O("fieldset", "su", "", NilV, NilV, NilV, StrV("z"), "B", <<>>)}
  \cup {O1("structnew", "st")} \cup {FieldSet(f, v) : f \in {"A", "B", "Z"}, v \in {IntV(5), StrV("z"), Flt19}} \cup {FieldGet(f) : f \in {"A", "B", "Z"}}
Ops == CASE Family = "slice" -> SliceOps [] Family = "map" -> MapOps [] Family = "str" -> StrOps [] Family = "typed" -> TypedOps
         [] OTHER -> SliceOps \cup MapOps \cup StrOps \cup TypedOps

OpSeq == SetToSeq(Ops)          \* a fixed enumeration of the alphabet: histories are emitted as sequences of indices into it

\* Go's growth for the small slices of the model
GoCap(n) == IF n = 0 THEN 1 ELSE 2 * n
WithCap(o, s) == IF o.op \in {"append", "write"} /\ IsSlice(s.vars[o.x]) THEN [o EXCEPT !.cap = GoCap(s.vars[o.x].len)]
                 ELSE IF o.op = "concat" /\ IsSlice(s.vars[o.y]) /\ IsSlice(s.vars[o.k.s]) THEN [o EXCEPT !.cap = 2 * (s.vars[o.y].len + s.vars[o.k.s].len)]
                 ELSE o

\* negative controls: wrong designs the properties below must refute
StepM(s, o) ==
  IF Mutant = "SliceCopies" /\ o.op = "slice2" /\ IsSlice(s.vars[o.y]) /\ o.i.i >= 0 /\ o.i.i <= o.j.i /\ o.j.i <= s.vars[o.y].len
  THEN LET y == s.vars[o.y]
           s1 == [s EXCEPT !.arrs = Append(@, [q \in 1..(o.j.i - o.i.i) |-> Elem(s, y, o.i.i + q - 1)])] IN
       Same(SetVar(s1, o.x, V(y.t, 0, "", Len(s1.arrs), 0, o.j.i - o.i.i, o.j.i - o.i.i)), OKR)
  ELSE IF Mutant = "ErrWrites" /\ o.op = "write" /\ s.vars[o.x].t = "tslice" /\ o.v.t = "str" /\ o.i.t = "int" /\ o.i.i >= 0 /\ o.i.i < s.vars[o.x].len
  THEN {[st |-> [s EXCEPT !.arrs[s.vars[o.x].r][s.vars[o.x].off + o.i.i + 1] = IntV(0)], res |-> ErrR]}
  ELSE Step(s, o)

Init == st = St0 /\ hist = <<>> /\ last = [o |-> O1("init", "a"), res |-> OKR]
        /\ (Emit => PrintT(ToJson([ops |-> OpSeq])))
Do(k) == LET o == WithCap(OpSeq[k], st) IN
         \E c \in StepM(st, o) :
           /\ c.res.k # "open"
           /\ st' = c.st /\ last' = [o |-> o, res |-> c.res] /\ hist' = Append(hist, k)
           /\ (Emit => PrintT(<<"H", hist'>>))
Next == Len(hist) < Depth /\ \E k \in 1..Len(OpSeq) : Do(k)
Spec == Init /\ [][Next]_vars

\* what a script can observe: projections, storage sharing, which map variables are one map, map contents, fields
MapVars == {"m", "n", "tm"}
View == <<[n \in Vars |-> ProjVar(st, n)], st.vars["sv"],
          [p \in {"a", "b", "c", "ta"} \X {"a", "b", "c", "ta"} |-> Share(st, p[1], p[2])],
          [n \in MapVars |-> IF st.vars[n].t \in {"map", "tmap"} THEN st.maps[st.vars[n].r] ELSE <<>>],
          st.vars["m"].t = "map" /\ st.vars["n"].t = "map" /\ st.vars["m"].r = st.vars["n"].r,
          IF st.vars["st"].t = "struct" THEN st.structs[st.vars["st"].r] ELSE [A |-> NilV, B |-> NilV, M |-> NilV],
          IF st.vars["st"].t = "struct" /\ st.structs[st.vars["st"].r].M.t = "tmap" THEN st.maps[st.structs[st.vars["st"].r].M.r] ELSE <<>>,
          st.vars["st"].t = "struct" /\ st.vars["tm"].t = "tmap" /\ st.structs[st.vars["st"].r].M = st.vars["tm"]>>

----------------------------------------------------------------------------
(* the statements of C10 on the design *)
SliceNames == {"a", "b", "c", "ta"}
\* every slice header addresses cells inside its allocation
WindowOK == \A n \in SliceNames : LET v == st.vars[n] IN IsSlice(v) => (0 <= v.len /\ v.len <= v.cap /\ v.off + v.cap <= Len(st.arrs[v.r]))
\* typed containers only ever hold values of their declared type
TypedHolds == /\ \A n \in SliceNames : st.vars[n].t = "tslice" => \A q \in 1..st.vars[n].len : Elem(st, st.vars[n], q - 1).t = "int"
              /\ st.vars["tm"].t = "tmap" => \A q \in 1..Len(st.maps[st.vars["tm"].r]) : st.maps[st.vars["tm"].r][q][1].t = "str" /\ st.maps[st.vars["tm"].r][q][2].t = "int"
              /\ st.vars["st"].t = "struct" => st.structs[st.vars["st"].r].A.t = "int" /\ st.structs[st.vars["st"].r].B.t = "str" /\ st.structs[st.vars["st"].r].M.t \in {"nil", "tmap"}
Obs(s) == <<[n \in Vars |-> ProjVar(s, n)], [n \in MapVars |-> IF s.vars[n].t \in {"map", "tmap"} THEN s.maps[s.vars[n].r] ELSE <<>>],
            IF s.vars["st"].t = "struct" THEN [f \in {"A", "B"} |-> s.structs[s.vars["st"].r][f]] ELSE [A |-> NilV, B |-> NilV],
            IF s.vars["st"].t = "struct" /\ s.structs[s.vars["st"].r].M.t = "tmap" THEN s.maps[s.structs[s.vars["st"].r].M.r] ELSE <<>>>>
\* an erroneous statement and a pure read leave everything unchanged
ErrUnchanged == [][last'.res.k = "err" => Obs(st') = Obs(st)]_vars
ReadsPure == [][last'.o.op \in {"read", "len", "in", "mapget", "fieldget", "fieldmapget", "getvar", "callget"} => Obs(st') = Obs(st)]_vars
\* an in-range store changes exactly the addressed element -- in every variable whose window covers that cell, and in no other
StoreExact == [][(last'.o.op = "write" /\ last'.res.k = "ok" /\ IsSlice(st.vars[last'.o.x]) /\ last'.o.i.i < st.vars[last'.o.x].len) =>
                   LET x == st.vars[last'.o.x]  cell == x.off + last'.o.i.i + 1 IN
                   \A n \in SliceNames : LET v == st.vars[n] IN IsSlice(v) =>
                      /\ st'.vars[n] = v
                      /\ \A q \in 1..v.len : (v.r = x.r /\ v.off + q = cell) \/ st'.arrs[v.r][v.off + q] = st.arrs[v.r][v.off + q]
                      /\ \A q \in 1..v.len : (v.r = x.r /\ v.off + q = cell) => IF x.t = "tslice" THEN st'.arrs[v.r][v.off + q].t = "int" ELSE st'.arrs[v.r][v.off + q] = last'.o.v]_vars
\* slicing shares storage with its source
SliceShares == [][(last'.o.op = "slice2" /\ last'.res.k = "ok" /\ IsSlice(st.vars[last'.o.y]) /\ st'.vars[last'.o.x].cap > 0) =>
                    LET sh == Share(st', last'.o.y, last'.o.x) IN (last'.o.x = last'.o.y) \/ (sh.same /\ sh.d = last'.o.i.i)]_vars
\* assignment gives a second name for the same container (slices and maps are references; strings are values)
AliasIsReference == [][(last'.o.op = "alias" /\ last'.res.k = "ok") => st'.vars[last'.o.x] = st.vars[last'.o.y]]_vars
\* a growing append moves only the appended-to variable to new storage: every other variable keeps contents, length and capacity
GrowthLocal == [][(last'.o.op = "append" /\ last'.res.k = "ok" /\ IsSlice(st.vars[last'.o.x]) /\ st.vars[last'.o.x].len = st.vars[last'.o.x].cap) =>
                    \A n \in Vars \ {last'.o.x} : ProjVar(st', n) = ProjVar(st, n)]_vars
\* a value read into a variable is a value: no later statement other than an assignment to that variable changes it
BoundValuesStay == [][(last'.o.op \notin {"bindelem", "bindfield"}) => st'.vars["sv"] = st.vars["sv"]]_vars
\* strings are values: a store through one variable is never seen through another
StringsAreValues == [][\A n \in {"s", "t"} : (n # last'.o.x /\ st.vars[n].t = "cstr") => ProjVar(st', n) = ProjVar(st, n)]_vars
\* map statements through one name are seen through every name of the same map and through no other map
MapAliasing == [][(last'.o.op \in {"mapset", "mapdel"} /\ last'.res.k = "ok") =>
                    \A n \in MapVars : st.vars[n].t \in {"map", "tmap"} =>
                       IF st.vars[n].r = st.vars[last'.o.x].r THEN st'.maps[st'.vars[n].r] = st'.maps[st'.vars[last'.o.x].r]
                       ELSE st'.maps[st'.vars[n].r] = st.maps[st.vars[n].r]]_vars
=============================================================================
