SPECIFICATION Spec
CONSTANTS
  W = 3
  Cap = 2
  Items <- Items3
  Variant = "code"
INVARIANTS ExactlyOnce NeverMore NoSendOnClosed
PROPERTIES Terminates
