-------------------------------- MODULE AnkoCli --------------------------------
(***************************************************************************)
(* The anko command in non-interactive use (property C18) as a state       *)
(* machine: flags -> setup -> (read file | -e text) -> execute -> exit.    *)
(* Inputs: mode in {"file","e"}, readable, and the LIBRARY's verdict for   *)
(* the same source in an equally prepared environment ("ok" | "parse" |    *)
(* "run").  Outputs: exit status and standard output, where standard       *)
(* output is abstracted to (starts with what the script printed, number of *)
(* further lines).                                                         *)
(***************************************************************************)
EXTENDS Integers, Sequences

VARIABLES phase, mode, readable, verdict, exit, extra
vars == <<phase, mode, readable, verdict, exit, extra>>

Init == /\ phase = "flags" /\ mode \in {"file", "e"} /\ readable \in BOOLEAN /\ verdict \in {"ok", "parse", "run"}
        /\ exit = -1 /\ extra = 0
Setup   == phase = "flags" /\ phase' = "setup" /\ UNCHANGED <<mode, readable, verdict, exit, extra>>
Read    == /\ phase = "setup"
           /\ IF mode = "file" /\ ~readable
              THEN phase' = "exit" /\ exit' = 2 /\ extra' = 1            \* one diagnostic line, nothing executed
              ELSE phase' = "execute" /\ UNCHANGED <<exit, extra>>
           /\ UNCHANGED <<mode, readable, verdict>>
Execute == /\ phase = "execute" /\ phase' = "exit"
           /\ IF verdict = "ok" THEN exit' = 0 /\ extra' = 0 ELSE exit' = 4 /\ extra' = 1
           /\ UNCHANGED <<mode, readable, verdict>>
Next == Setup \/ Read \/ Execute \/ (phase = "exit" /\ UNCHANGED vars)
Spec == Init /\ [][Next]_vars

\* the statement
ExitZeroIffOK == phase = "exit" => (exit = 0 <=> ((mode = "e" \/ readable) /\ verdict = "ok"))
ExitCodes == phase = "exit" => exit \in {0, 2, 4}
Unreadable == (phase = "exit" /\ mode = "file" /\ ~readable) => exit = 2
OneDiagnostic == phase = "exit" => extra = (IF exit = 0 THEN 0 ELSE 1)

\* what the machine demands for given inputs (used to validate observations of the real command)
Demand(m, r, v) == IF m = "file" /\ ~r THEN [exit |-> 2, extra |-> 1, ran |-> FALSE]
                   ELSE IF v = "ok" THEN [exit |-> 0, extra |-> 0, ran |-> TRUE]
                   ELSE [exit |-> 4, extra |-> 1, ran |-> TRUE]
Accept(o) == LET d == Demand(o.mode, o.readable, o.lib) IN
             /\ ~o.timed_out
             /\ (d.ran => o.lib \in {"ok", "parse", "run"})
             /\ o.exit = d.exit
             /\ o.prefix_ok /\ o.extra_lines = d.extra
=============================================================================
