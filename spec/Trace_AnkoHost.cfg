SPECIFICATION TSpec
CONSTRAINT HighWater
POSTCONDITION Accepted
CHECK_DEADLOCK FALSE
