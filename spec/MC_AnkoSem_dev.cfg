SPECIFICATION Spec
CONSTANTS
  Fuel = 40
  Dev = {"TrySwallowsReturn"}
CHECK_DEADLOCK FALSE
