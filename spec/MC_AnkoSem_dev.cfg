SPECIFICATION Spec
CONSTANTS
  Fuel = 400
  Dev = {"TrySwallowsReturn"}
CHECK_DEADLOCK FALSE
