SPECIFICATION Spec
CONSTANTS
  Alphabet = {"=", "s", "<", "-", "a", "n", "."}
  MinLen = 4
  MaxLen = 7
CHECK_DEADLOCK FALSE
