SPECIFICATION Spec
CONSTANT N = 5
INVARIANTS ParentFirst DoneMeansAll FailStops
CHECK_DEADLOCK FALSE
