---------------------------- MODULE MC_AnkoArith ----------------------------
(* Enumerates operator x operand pairs (and integer trees of depth 2) over the edge pools of C05, checks the     *)
(* dispatch laws, and emits one case per combination with the result AnkoArith demands.                          *)
EXTENDS AnkoArith, Json

CONSTANTS Ops,        \* the binary operators of this shard
          TreeOps,    \* operators for depth-2 integer trees ({} = none)
          Unaries     \* unary operators of this shard

Pool == ndJsonDeserialize("arith_pool.ndjson")
TreePool == ndJsonDeserialize("arith_treepool.ndjson")
N == Len(Pool)

VARIABLES c, done
vars == <<c, done>>

Cases == [k : {"bin"}, op : Ops, i : 1..N, j : 1..N, op2 : {""}, h : {0}]
         \cup [k : {"un"}, op : Unaries, i : 1..N, j : {0}, op2 : {""}, h : {0}]
         \cup [k : {"tree"}, op : TreeOps, i : 1..Len(TreePool), j : 1..Len(TreePool), op2 : TreeOps, h : 1..Len(TreePool)]

Init == c \in Cases /\ done = FALSE

Result(x) ==
  CASE x.k = "bin"  -> Binary(x.op, Pool[x.i], Pool[x.j])
    [] x.k = "un"   -> Unary(x.op, Pool[x.i])
    [] x.k = "tree" -> LET m == Binary(x.op, TreePool[x.i], TreePool[x.j]) IN
                       IF m.t = "int" THEN Binary(x.op2, m, TreePool[x.h]) ELSE m

Laws(x) ==
  CASE x.k = "bin" -> /\ ResultKindOK(x.op, Pool[x.i], Pool[x.j])
                      /\ (IsInt(Pool[x.i]) /\ IsInt(Pool[x.j]) /\ x.op = "+") => IntLaws(Pool[x.i].l, Pool[x.j].l)
    [] OTHER -> TRUE

Next == /\ ~done /\ done' = TRUE /\ c' = c
        /\ Assert(Laws(c), <<"dispatch law violated", c>>)
        /\ PrintT(ToJson([c |-> c, exp |-> Result(c)]))
Spec == Init /\ [][Next]_vars
=============================================================================
