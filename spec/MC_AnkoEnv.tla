----------------------------- MODULE MC_AnkoEnv -----------------------------
(* Bounded state machine over AnkoEnv: every API call on every handle, with the properties of C12 as        *)
(* invariants / action properties, and transition-cover emission (one JSON line per (state, call) pair).    *)
EXTENDS AnkoEnv, TLC, Json

CONSTANTS Depth, MaxScopes, VNames, TNames, DefVals, SetVals, TypeVals, PathNames, Emit,
          Mutant     \* "none", or the name of a deliberately wrong design used as a negative control

VARIABLES sc, hist, last
vars == <<sc, hist, last>>
View == sc

ExtVDef == [a |-> 8]
ExtTDef == [int64 |-> 10]
BuiltinTDef == [int64 |-> 50, string |-> 51]
Handles == 1..Len(sc)
Paths == {<<>>} \cup {<<a>> : a \in PathNames} \cup {<<a, b>> : a \in PathNames, b \in PathNames}
NoP == <<>>
RECURSIVE ChainLen(_, _)
ChainLen(s, h) == IF h = 0 THEN 0 ELSE 1 + ChainLen(s, s[h].par)

Calls ==
  UNION { {Call(op, h, n, v, NoP) : op \in {"Define", "DefineGlobal"}, n \in VNames, v \in DefVals \cup {EnvRef(i) : i \in Handles}}
          \cup {Call("Set", h, n, v, NoP) : n \in VNames, v \in SetVals}
          \cup {Call(op, h, n, 0, NoP) : op \in {"Delete", "DeleteGlobal", "Addr", "Get"}, n \in VNames}
          \cup {Call(op, h, n, t, NoP) : op \in {"DefineType", "DefineGlobalType"}, n \in TNames, t \in TypeVals}
          \cup {Call("Type", h, n, 0, NoP) : n \in TNames}
          \cup {Call("Path", h, "", 0, p) : p \in Paths}
          \cup {Call(op, h, "", 0, NoP) : op \in {"Symbols", "TypeSymbols"}}
          \cup {Call("SetExt", h, "", b, NoP) : b \in {0, 1}}
          \cup (IF Len(sc) < MaxScopes
                THEN {Call(op, h, "", 0, NoP) : op \in {"NewEnv", "Copy"}} \cup {Call("NewModule", h, n, 0, NoP) : n \in VNames}
                ELSE {})
          \cup (IF Len(sc) + ChainLen(sc, h) <= MaxScopes THEN {Call("DeepCopy", h, "", 0, NoP)} ELSE {})
        : h \in Handles }

Init == /\ sc = Init0 /\ hist = <<>> /\ last = [c |-> Call("init", 0, "", 0, NoP), res |-> OK]
        /\ (Emit => PrintT(ToJson([names |-> Names, dotted |-> Dotted, extv |-> ExtV, extt |-> ExtT, builtin |-> BuiltinT])))

\* negative controls: designs that must be caught by the properties below
ApplyM(s, c) ==
  IF Mutant = "SetCreates" /\ c.op = "Set" /\ NearestV(s, c.h, c.n) = 0 /\ c.n \notin Dotted THEN Define(s, c.h, c.n, c.v)
  ELSE IF Mutant = "CopySharesParentWrite" /\ c.op = "DeepCopy" THEN Copy(s, c.h)
  ELSE IF Mutant = "ErrDefines" /\ c.op = "Define" /\ c.n \in Dotted THEN [sc |-> [s EXCEPT ![c.h].v = Put(@, "a", c.v)], res |-> Err]
  ELSE Apply(s, c)

Do(c) == LET r == ApplyM(sc, c) IN
         /\ sc' = r.sc
         /\ last' = [c |-> c, res |-> r.res]
         /\ hist' = Append(hist, [c |-> c, res |-> r.res])
         /\ (Emit => PrintT(ToJson([h |-> hist', post |-> Proj(r.sc)])))

Next == Len(hist) < Depth /\ \E c \in Calls : Do(c)
Spec == Init /\ [][Next]_vars

----------------------------------------------------------------------------
(* properties of the design *)
Scope == [par : Nat, v : [SUBSET Names -> Int], t : [SUBSET Names -> Int], x : BOOLEAN]
TypeOK == \A i \in Handles : /\ sc[i].par \in 0..Len(sc) /\ sc[i].par # i
                             /\ DOMAIN sc[i].v \subseteq Names \ Dotted
                             /\ DOMAIN sc[i].t \subseteq Names \ Dotted
\* the parent relation is a forest: following it from any scope ends
Acyclic == \A i \in Handles : ChainLen(sc, i) <= Len(sc)
\* a lookup is the nearest enclosing binding: if own table has it, that wins; otherwise what the parent sees (modulo external)
LookupNearest == \A i \in Handles, n \in Names :
   /\ Has(sc[i].v, n) => LookupV(sc, i, n) = sc[i].v[n]
   /\ (~Has(sc[i].v, n) /\ ~(sc[i].x /\ Has(ExtV, n)) /\ sc[i].par # 0) => LookupV(sc, i, n) = LookupV(sc, sc[i].par, n)
   /\ (~Has(sc[i].v, n) /\ sc[i].x /\ Has(ExtV, n)) => LookupV(sc, i, n) = ExtV[n]

Changed == {i \in Handles : sc'[i] # sc[i]}
Op == last'.c.op
H  == last'.c.h
\* an existing scope is never removed or renumbered; only scope-creating calls add scopes
Growth == [][Len(sc') >= Len(sc) /\ (Len(sc') > Len(sc) => Op \in {"NewEnv", "NewModule", "Copy", "DeepCopy"})]_vars
\* a call only ever changes scopes on the chain of the handle it is made on (copies are independent)
Frame == [][Changed \subseteq ChainSet(sc, H)]_vars
\* define / delete / define-type / set-external touch only the addressed scope; the global forms only the root
Local == [][/\ Op \in {"Define", "Delete", "DefineType", "SetExt", "NewModule"} => Changed \subseteq {H}
            /\ Op \in {"DefineGlobal", "DefineGlobalType"} => Changed \subseteq {Root(sc, H)}
            /\ Op \in {"Get", "Type", "Addr", "Path", "Symbols", "TypeSymbols", "NewEnv", "Copy", "DeepCopy"} => Changed = {}]_vars
\* set never creates a binding, and changes at most the nearest binding
SetNoCreate == [][Op = "Set" => /\ \A i \in Handles : DOMAIN sc'[i].v = DOMAIN sc[i].v
                                /\ Changed \subseteq {NearestV(sc, H, last'.c.n)}]_vars
\* an invalid request leaves every scope unchanged
ErrUnchanged == [][last'.res.k = "err" => sc' = sc]_vars
\* dotted names are always rejected by the define family
DotRejected == [][(Op \in {"Define", "DefineGlobal", "DefineType", "DefineGlobalType"} /\ last'.c.n \in Dotted) => last'.res.k = "err"]_vars
\* a fresh copy is equal to, and disjoint from, its source
CopyFresh == [][/\ Op = "Copy" => /\ sc'[Len(sc) + 1] = sc[H]
                /\ Op = "DeepCopy" => /\ ChainSet(sc', Len(sc) + 1) \cap ChainSet(sc', H) = {}
                                      /\ Proj(sc')[Len(sc) + 1] = Proj(sc')[H]]_vars
=============================================================================
