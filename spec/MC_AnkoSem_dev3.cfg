SPECIFICATION Spec
CONSTANTS
  Fuel = 400
  Dev = {"SpreadSurplusDropped"}
CHECK_DEADLOCK FALSE
