---------------------------- MODULE Trace_AnkoParse ----------------------------
(* Observations of parser.ParseSrc validated against the C15 statement: termination without panic, nil error or   *)
(* the parser's error type with a position inside the input, identical results on repetition and under            *)
(* concurrency, and composition with newline.  (Stateless predicate; the scanner itself is AnkoLexer.)            *)
EXTENDS Integers, Sequences, TLC, Json
Obs == ndJsonDeserialize("parse_obs.ndjson")
PosInside(o) == /\ 1 <= o.line /\ o.line <= o.nlines
                /\ 1 <= o.col /\ o.col <= o.linelens[o.line] + 1
ParseResultOK(o) ==
  IF o.kind = "compose" THEN o.comp_ok
  ELSE /\ o.outcome \in {"ok", "err"}
       /\ (o.outcome = "err" => o.errtype_ok /\ PosInside(o))
       /\ o.repeat_same /\ o.conc_same
VARIABLE l
Init == l = 1 /\ TLCSet(1, 1)
Step == l <= Len(Obs) /\ (IF ParseResultOK(Obs[l]) THEN TRUE ELSE PrintT(<<"REJECT", l>>)) /\ l' = l + 1
Spec == Init /\ [][Step]_l
HighWater == TLCSet(1, IF l > TLCGet(1) THEN l ELSE TLCGet(1))
Accepted == PrintT(<<"REACHED", TLCGet(1), Len(Obs)>>) /\ TLCGet(1) = Len(Obs) + 1
=============================================================================
