SPECIFICATION Spec
CONSTANTS
  Alphabet = {"1", "0", "x", "e", ".", "-", "a", "+"}
  MinLen = 4
  MaxLen = 6
CHECK_DEADLOCK FALSE
