SPECIFICATION Spec
CONSTANTS
  Procs = {1, 2, 3}
  NOps = 1
  Alphabet <- AlphaWrites
  InitTabs <- Tabs
  ParentTab <- PTab
  Variant = "code"
INVARIANTS Linearizable LockDiscipline LocksFreeAtEnd
CHECK_DEADLOCK TRUE
