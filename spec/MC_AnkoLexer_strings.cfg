SPECIFICATION Spec
CONSTANTS
  Alphabet = {"q", "t", "k", "n", "a", "s"}
  MinLen = 4
  MaxLen = 7
CHECK_DEADLOCK FALSE
