--------------------------- MODULE Trace_AnkoPackages ---------------------------
EXTENDS AnkoBuiltins, Json
Entries == ndJsonDeserialize("package_entries.ndjson")
VARIABLE l
Init == l = 1 /\ TLCSet(1, 1)
Step == l <= Len(Entries) /\ (IF EntryOK(Entries[l]) THEN TRUE ELSE PrintT(<<"REJECT", l>>)) /\ l' = l + 1
Spec == Init /\ [][Step]_l
HighWater == TLCSet(1, IF l > TLCGet(1) THEN l ELSE TLCGet(1))
Accepted == PrintT(<<"REACHED", TLCGet(1), Len(Entries)>>) /\ TLCGet(1) = Len(Entries) + 1
=============================================================================
