SPECIFICATION Spec
VIEW View
CONSTANTS
  Names = {"a", "m", "a.b", "int64"}
  Dotted = {"a.b"}
  ExtV <- ExtVDef
  ExtT <- ExtTDef
  BuiltinT <- BuiltinTDef
  Depth = 3
  MaxScopes = 3
  VNames = {"a", "m", "a.b"}
  TNames = {"int64", "a.b"}
  DefVals = {1, 3}
  SetVals = {2}
  TypeVals = {1}
  PathNames = {"a", "m"}
  Emit = FALSE
  Mutant = "SetCreates"
INVARIANTS TypeOK Acyclic LookupNearest
PROPERTIES Growth Frame Local SetNoCreate ErrUnchanged DotRejected CopyFresh
CHECK_DEADLOCK FALSE
