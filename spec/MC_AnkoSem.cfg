SPECIFICATION Spec
CONSTANTS
  Fuel = 400
  Dev = {}
CHECK_DEADLOCK FALSE
