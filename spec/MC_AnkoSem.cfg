SPECIFICATION Spec
CONSTANTS
  Fuel = 40
  Dev = {}
CHECK_DEADLOCK FALSE
