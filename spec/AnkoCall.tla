-------------------------------- MODULE AnkoCall --------------------------------
(***************************************************************************)
(* Values and calls crossing the Go boundary (property C11): the decision  *)
(* tables.  Conv(v, T) says how a script value of kind v reaches a Go      *)
(* parameter of type T:                                                    *)
(*   id       unchanged (same value, same dynamic type)                    *)
(*   goconv   Go's own conversion to T (a primitive: reflect's Convert)    *)
(*   zero     T's zero value (nil argument)                                *)
(*   elems    element by element (slices), es = the element conversions    *)
(*   mapconv  entry by entry (maps)          callback  script func adapter *)
(*   err      no conversion exists: the CALL fails      open  not stated   *)
(* Outcome(sig, args, spread) applies the call-shape table: arity rules    *)
(* for fixed / variadic functions x plain / spread calls, then converts    *)
(* each argument; the function is called with exactly those values.        *)
(***************************************************************************)
EXTENDS Integers, Sequences, TLC

NumT == {"int64", "int", "int32", "uint8", "float64", "float32"}
SliceT == {"[]int64", "[]string", "[]iface", "[]float64"}
ElemOf(T) == CASE T = "[]int64" -> "int64" [] T = "[]string" -> "string" [] T = "[]iface" -> "iface" [] T = "[]float64" -> "float64"
Types == NumT \cup SliceT \cup {"string", "bool", "iface", "map[string]int64", "func(int64)string"}

\* script value kinds and, for lists, their element kinds
ListElems == [list_i |-> <<"int5", "int300">>, list_s |-> <<"str", "str">>, list_mixed |-> <<"int5", "str">>, list_empty |-> <<>>, list_nil |-> <<"int5", "nil">>]
Lists == DOMAIN ListElems
Scalars == {"int5", "int300", "intneg", "flt", "str", "str1", "bool", "nil"}
Kinds == Scalars \cup Lists \cup {"map_si", "fn"}

C(c, es) == [c |-> c, es |-> es]
RECURSIVE Conv(_, _)
Conv(v, T) ==
  IF T = "iface" THEN C("id", <<>>)
  ELSE IF v = "nil" THEN C("zero", <<>>)
  ELSE CASE v \in {"int5", "int300", "intneg"} -> IF T = "int64" THEN C("id", <<>>) ELSE IF T \in NumT \/ T = "string" THEN C("goconv", <<>>) ELSE C("err", <<>>)
         [] v = "flt" -> IF T = "float64" THEN C("id", <<>>) ELSE IF T \in NumT THEN C("goconv", <<>>) ELSE C("err", <<>>)
         [] v \in {"str", "str1"} -> IF T = "string" THEN C("id", <<>>) ELSE IF T \in {"uint8", "int32"} THEN C("open", <<>>) ELSE C("err", <<>>)     \* string to byte / rune: C19's business
         [] v = "bool" -> IF T = "bool" THEN C("id", <<>>) ELSE C("err", <<>>)
         [] v \in Lists ->
              IF T \notin SliceT THEN C("err", <<>>)
              ELSE IF T = "[]iface" THEN C("id", <<>>)
              ELSE LET es == [i \in 1..Len(ListElems[v]) |-> Conv(ListElems[v][i], ElemOf(T))] IN
                   IF \E i \in 1..Len(es) : es[i].c = "err" THEN C("err", <<>>)
                   ELSE IF \E i \in 1..Len(es) : es[i].c = "open" THEN C("open", <<>>)
                   ELSE C("elems", es)
         [] v = "map_si" -> IF T = "map[string]int64" THEN C("mapconv", <<>>) ELSE C("err", <<>>)
         [] v = "fn" -> IF T = "func(int64)string" THEN C("callback", <<>>) ELSE C("err", <<>>)

\* a signature: fixed parameter types and an optional variadic element type ("" = not variadic)
\* a call: argument kinds and whether the last one is spread
Outcome(fixed, vtype, args, spread) ==
  LET nf == Len(fixed)  na == Len(args)  isVar == vtype # "" IN
  IF ~isVar /\ ~spread THEN
       (IF na # nf THEN [o |-> "arity", cs |-> <<>>, tail |-> <<>>]
        ELSE [o |-> "call", cs |-> [i \in 1..nf |-> Conv(args[i], fixed[i])], tail |-> <<>>])
  ELSE IF isVar /\ ~spread THEN
       (IF na < nf THEN [o |-> "arity", cs |-> <<>>, tail |-> <<>>]
        ELSE [o |-> "call", cs |-> [i \in 1..nf |-> Conv(args[i], fixed[i])], tail |-> [i \in 1..(na - nf) |-> Conv(args[nf + i], vtype)]])
  ELSE IF isVar /\ spread THEN
       (IF na = nf + 1 THEN
             (IF args[na] \notin Lists THEN [o |-> "open", cs |-> <<>>, tail |-> <<>>]
              ELSE [o |-> "callslice", cs |-> [i \in 1..nf |-> Conv(args[i], fixed[i])], tail |-> [i \in 1..Len(ListElems[args[na]]) |-> Conv(ListElems[args[na]][i], vtype)]])
        ELSE IF na = nf THEN [o |-> "open", cs |-> <<>>, tail |-> <<>>]
        ELSE [o |-> "arity", cs |-> <<>>, tail |-> <<>>])
  ELSE \* fixed function, spread call: the list is spread over the remaining parameters
       (IF na = 0 \/ na > nf THEN [o |-> "arity", cs |-> <<>>, tail |-> <<>>]
        ELSE IF args[na] \notin Lists THEN [o |-> "error", cs |-> <<>>, tail |-> <<>>]
        ELSE LET total == (na - 1) + Len(ListElems[args[na]]) IN
             IF total < nf THEN [o |-> "arity", cs |-> <<>>, tail |-> <<>>]
             ELSE IF total > nf THEN [o |-> "open", cs |-> <<>>, tail |-> <<>>]
             ELSE [o |-> "call", tail |-> <<>>,
                   cs |-> [i \in 1..nf |-> IF i < na THEN Conv(args[i], fixed[i]) ELSE Conv(ListElems[args[na]][i - na + 1], fixed[i])]])

\* overall verdict: the call happens iff no argument conversion fails
Fails(out) == out.o \in {"arity", "error"} \/ (\E i \in 1..Len(out.cs) : out.cs[i].c = "err") \/ (\E i \in 1..Len(out.tail) : out.tail[i].c = "err")
IsOpen(out) == out.o = "open" \/ (\E i \in 1..Len(out.cs) : out.cs[i].c = "open") \/ (\E i \in 1..Len(out.tail) : out.tail[i].c = "open")

\* ---- results: all of them come back, several as a list, each the value the Go function returned with its dynamic type
\* (a typed nil slice / map / pointer stays a value of that type; only a nil interface or nil error is the script's nil)
RKinds == {"int64", "string", "float64", "slice", "nilslice", "nilmap", "nilptr", "ptr", "nilerr", "err", "ifacenil", "ifaceint"}
RDyn(k) == CASE k \in {"nilerr", "ifacenil"} -> "nil"        \* what arrives: "nil" or the kind itself (same dynamic type, same value)
             [] k = "ifaceint" -> "int64"
             [] OTHER -> k
Results(rs) == IF Len(rs) = 0 THEN [shape |-> "nil", es |-> <<>>]
               ELSE IF Len(rs) = 1 THEN [shape |-> "single", es |-> <<RDyn(rs[1])>>]
               ELSE [shape |-> "list", es |-> [i \in 1..Len(rs) |-> RDyn(rs[i])]]

\* ---- methods reached with member syntax: on every shape of receiver value, value-receiver and pointer-receiver methods alike
RecvShapes == {"struct", "ptrstruct", "namedint", "ptrnamedint", "namedmap", "ptrnamedmap", "namedslice", "ptrnamedslice"}
\* "yes" | "open": pointer-receiver methods are included wherever Go itself has them in reach (through a pointer) and on struct values (called
\* on a copy); on a plain non-struct value (a named int / map / slice held by value) Go has no such method in the method set: not asserted
MethodReachable(shape, recv) == IF recv = "pointer" /\ shape \in {"namedint", "namedmap", "namedslice"} THEN "open" ELSE "yes"
\* a pointer-receiver method called through a pointer acts on the pointed-to value; through a plain value it may act on a copy (not asserted)
MutationVisible(shape, recv) == IF recv = "pointer" /\ shape \in {"ptrstruct", "ptrnamedint", "ptrnamedmap", "ptrnamedslice"} THEN "yes" ELSE "open"

\* ---- callbacks: a script function handed to a Go parameter of a func type is invoked with the arguments Go passes, and its
\* result is converted to the declared return types.
\* Go's side:  gfix fixed int64 parameters (Go passes 11, 12, ...), optionally a variadic ...int64 to which Go passes gextra
\*             values (21, 22, ...); gres declared int64 results.
\* Script's side: sfix named parameters, optionally one variadic parameter after them; the body returns sret values (101, 102, ...).
\* What the script function sees, parameter by parameter: [k |-> "val", vs |-> <<v>>] a plain value, [k |-> "list", vs |-> ...] the
\* values collected by its own variadic parameter, [k |-> "slice", vs |-> ...] Go's variadic parameter arriving as Go itself sees it
\* (one slice value).  o = "call" | "error" | "open".
FixedVals(n) == [i \in 1..n |-> 10 + i]
ExtraVals(n) == [i \in 1..n |-> 20 + i]
Sub(sq, a, b) == [i \in 1..(b - a + 1) |-> sq[a + i - 1]]
CallbackSees(gfix, gvar, gextra, sfix, svar) ==
  LET fv == FixedVals(gfix)  ev == ExtraVals(gextra)  all == fv \o ev IN
  IF ~gvar THEN
     IF ~svar THEN (IF sfix = gfix THEN [o |-> "call", ps |-> [i \in 1..sfix |-> [k |-> "val", vs |-> <<fv[i]>>]]]
                    ELSE [o |-> "error", ps |-> <<>>])                                    \* the arguments Go passes cannot be bound
     ELSE (IF sfix <= gfix THEN [o |-> "call", ps |-> [i \in 1..sfix |-> [k |-> "val", vs |-> <<fv[i]>>]] \o <<[k |-> "list", vs |-> Sub(fv, sfix + 1, gfix)]>>]
           ELSE [o |-> "error", ps |-> <<>>])
  ELSE
     IF ~svar THEN (IF sfix = gfix + 1 THEN [o |-> "call", ps |-> [i \in 1..gfix |-> [k |-> "val", vs |-> <<fv[i]>>]] \o <<[k |-> "slice", vs |-> ev]>>]
                    ELSE [o |-> "open", ps |-> <<>>])
     ELSE (IF sfix <= gfix + gextra
           THEN [o |-> "call", ps |-> [i \in 1..sfix |-> [k |-> "val", vs |-> <<all[i]>>]] \o <<[k |-> "list", vs |-> Sub(all, sfix + 1, gfix + gextra)]>>]
           ELSE [o |-> "error", ps |-> <<>>])
\* what Go gets back: "call" with the converted values, "error" (surfacing as an error of the enclosing call), or "open"
CallbackReturns(gres, sret) ==
  IF gres = 0 THEN [o |-> "call", rs |-> <<>>]                                            \* nothing is wanted: whatever the body returns is dropped
  ELSE IF gres = 1 THEN (IF sret = 1 THEN [o |-> "call", rs |-> <<101>>] ELSE IF sret = 0 THEN [o |-> "open", rs |-> <<>>] ELSE [o |-> "error", rs |-> <<>>])
  ELSE IF sret = gres THEN [o |-> "call", rs |-> [i \in 1..gres |-> 100 + i]]
  ELSE [o |-> "error", rs |-> <<>>]

\* the tables are total and an error never coexists with a delivered call
TableSane(fixed, vtype, args, spread) == LET o == Outcome(fixed, vtype, args, spread) IN o.o \in {"call", "callslice", "arity", "error", "open"}
=============================================================================
