------------------------------- MODULE AnkoFrames -------------------------------
(***************************************************************************)
(* The interpreter's statement/invocation discipline as a state machine    *)
(* over the events the verif hooks emit (used for trace validation of ANY  *)
(* run: generated families, the raw corpus, and the repository's own test  *)
(* scripts).  Per invocation frame f (one per RunContext and per script    *)
(* function call) the machine keeps the stack of open statements.          *)
(*   StmtEnter(f, kind)      push                                          *)
(*   StmtExit(f, kind, same, sig, nd)  pop; demanded:                      *)
(*      - it closes the innermost open statement of that frame (LIFO)      *)
(*      - same = TRUE: the scope current at exit is the one at entry, on    *)
(*        every exit path                                    (C04)         *)
(*      - loops consume break/continue: a loop never exits with them (C08) *)
(*      - if / switch / module / block pass control signals of their last  *)
(*        child through unchanged: a child that exited with Break, Continue*)
(*        or Return makes a pass-through parent exit with the same signal  *)
(*      - the invocation's defer list never shrinks while it runs  (C09)   *)
(*   FuncEnter(f) / FuncExit(f, same)   a fresh frame; all its statements  *)
(*        are closed at exit; scope restored                               *)
(*   DeferRun(f, index)  deferred calls run after the body, each index     *)
(*        once, in decreasing order starting at nd - 1            (C09)    *)
(*   RunBegin(f) / RunEnd(f)                                               *)
(* Signals: none | Break | Continue | Return | Interrupt | Err.            *)
(***************************************************************************)
EXTENDS Integers, Sequences, FiniteSets, TLC

Loops == {"LoopStmt", "ForStmt", "CForStmt"}
PassThrough == {"IfStmt", "SwitchStmt", "ModuleStmt", "StmtsStmt"}
Ctl == {"Break", "Continue", "Return"}

\* frame state: [open: Seq([kind, nd, childsig]), nd: last known defer count, nextDefer: expected index of the next DeferRun (-1 = none yet), lastsig]
NewFrame == [open |-> <<>>, nd |-> 0, nextDefer |-> -2, done |-> FALSE]

Enter(fr, kind, nd) == [fr EXCEPT !.open = Append(@, [kind |-> kind, nd |-> nd, childsig |-> "none"]), !.nd = nd]

\* what an exit must satisfy; returns "ok" or the name of the broken rule
ExitVerdict(fr, e) ==
  IF Len(fr.open) = 0 THEN "exit-without-enter"
  ELSE LET top == fr.open[Len(fr.open)] IN
       IF top.kind # e.kind THEN "not-innermost"
       ELSE IF ~e.same THEN "scope-not-restored"
       ELSE IF e.kind \in Loops /\ e.sig \in {"Break", "Continue"} THEN "loop-leaks-break-continue"
       ELSE IF e.kind \in PassThrough /\ top.childsig \in Ctl /\ e.sig # top.childsig THEN "control-signal-not-passed-through"
       ELSE IF e.nd < top.nd THEN "defer-list-shrank"
       ELSE "ok"
Exit(fr, e) ==
  LET n == Len(fr.open)
      popped == [fr EXCEPT !.open = SubSeq(@, 1, n - 1), !.nd = e.nd] IN
  IF n > 1 THEN [popped EXCEPT !.open[n - 1].childsig = e.sig] ELSE popped

\* deferred calls: first index nd-1, then decreasing by one
DeferVerdict(fr, e) ==
  IF Len(fr.open) # 0 THEN "defer-runs-before-body-ended"
  ELSE IF fr.nextDefer = -2 THEN (IF e.index = fr.nd - 1 THEN "ok" ELSE "defer-order")
  ELSE IF e.index = fr.nextDefer THEN "ok" ELSE "defer-order"
Defer(fr, e) == [fr EXCEPT !.nextDefer = e.index - 1]

\* end of the invocation: everything closed, scope restored, all registered defers have run
EndVerdict(fr, e) ==
  IF Len(fr.open) # 0 THEN "invocation-ends-with-open-statements"
  ELSE IF ~e.same THEN "scope-not-restored-at-invocation-end"
  ELSE IF fr.nd > 0 /\ fr.nextDefer # -1 THEN "defers-not-all-run"
  ELSE "ok"
=============================================================================
