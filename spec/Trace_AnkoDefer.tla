---------------------------- MODULE Trace_AnkoDefer ----------------------------
(* Runs of the real interpreter (uncancelled, or cancelled at a gate / from a host call / from outside) validated against      *)
(* AnkoDefer: the observable events of a run are reg(id, depth) -- a defer statement registered a host call -- and              *)
(* rel(id, depth) -- that call ran.  Function entry, the reason an invocation ends, the poll that sees the cancellation and     *)
(* the cancellation itself are not logged: TLC infers them (silent steps, guarded by the next event so that the search stays    *)
(* finite).  One initial state per run; a run is accepted when some behaviour of AnkoDefer consumes all its events and ends     *)
(* with every invocation left (done): then the line {"accept": run} is printed.  A run without that line is rejected.                  *)
EXTENDS AnkoDefer, Json
Runs == ndJsonDeserialize("defer_runs.ndjson")
VARIABLES run, j
tvars == <<vars, run, j>>
E == Runs[run].evs
More == j <= Len(E)
TInit == run \in 1..Len(Runs) /\ j = 1 /\ Init
TReg == /\ More /\ E[j].ev = "reg" /\ Depth = E[j].depth /\ RegisterId(E[j].id) /\ j' = j + 1 /\ UNCHANGED run
TRel == /\ More /\ E[j].ev = "rel" /\ Depth = E[j].depth /\ Release
        /\ hist' # hist /\ hist'[Len(hist')] = <<"rel", E[j].id, E[j].depth>>
        /\ j' = j + 1 /\ UNCHANGED run
TEnter == More /\ E[j].ev = "reg" /\ E[j].depth > Depth /\ Enter /\ UNCHANGED <<run, j>>
\* an invocation is left when the next event needs it: a release, a registration further out, or the end of the run
MustLeave == IF ~More THEN TRUE ELSE (E[j].ev = "rel" \/ (E[j].ev = "reg" /\ E[j].depth < Depth))     \* (IF: TLC splits a disjunction of an action into sub-actions and would evaluate E[j] beyond the end)
TLeave == MustLeave /\ (\E r \in {"normal", "return", "error"} : Leave(r)) /\ UNCHANGED <<run, j>>
TCancel == MustLeave /\ Runs[run].cancelled /\ Cancel /\ UNCHANGED <<run, j>>
TPoll == Poll /\ UNCHANGED <<run, j>>
TPop == Pop /\ (Top = <<>>) /\ UNCHANGED <<run, j>>
TEnd == ~More /\ done /\ j = Len(E) + 1 /\ PrintT(ToJson([accept |-> run])) /\ j' = j + 1 /\ UNCHANGED <<vars, run>>
TNext == TReg \/ TRel \/ TEnter \/ TLeave \/ TCancel \/ TPoll \/ TPop \/ TEnd
TSpec == TInit /\ [][TNext]_tvars
\* every state of an accepted or partly matched run satisfies the design properties (they hold by construction of the actions: a cross-check of the trace specification)
TInv == AtMostOnce /\ LIFO /\ InnerFirst
=============================================================================
