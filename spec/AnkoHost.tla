-------------------------------- MODULE AnkoHost --------------------------------
(***************************************************************************)
(* The host's view of the interpreter (property C01): a call of ParseSrc / *)
(* Execute / RunContext either returns -- with a value or with an error -- *)
(* or something forbidden happens: a Go panic escapes into the caller, the *)
(* process dies (fatal error, panic on a goroutine started by the script), *)
(* or the call never returns although the script was cancelled.            *)
(*   phase: "idle" -> "running" -> "returned"                              *)
(*          "running" -> "panicked" | "dead"        (forbidden)            *)
(* A recorded run is accepted iff it is a behaviour of the machine with    *)
(* the forbidden transitions removed.                                      *)
(***************************************************************************)
EXTENDS Integers, Sequences, TLC

VARIABLES phase, result
vars == <<phase, result>>
Init == phase = "idle" /\ result = "none"
Call == phase = "idle" /\ phase' = "running" /\ UNCHANGED result
Return == phase = "running" /\ phase' = "returned" /\ result' \in {"value", "error"}
Panic == phase = "running" /\ phase' = "panicked" /\ UNCHANGED result              \* forbidden
Die == phase = "running" /\ phase' = "dead" /\ UNCHANGED result                    \* forbidden
Next == Call \/ Return \/ (phase = "returned" /\ UNCHANGED vars)
Spec == Init /\ [][Next]_vars
NeverCrashes == phase \notin {"panicked", "dead"}
ReturnsSomething == phase = "returned" => result \in {"value", "error"}
\* an observation of the real code: accepted iff the run ended by Return
Accept(o) == o.outcome \in {"value", "error"}
=============================================================================
