----------------------------- MODULE MC_AnkoSem -----------------------------
(* Evaluates the reference semantics on every program of a family file (one JSON program per line) and    *)
(* emits the outcome it demands.  One initial state per program; the evaluation happens in the Next step    *)
(* so that TLC's workers share the work.                                                                    *)
EXTENDS AnkoSem, Json

CONSTANT Fuel
Progs == ndJsonDeserialize("progs.ndjson")

Ext(p) == IF "ext" \in DOMAIN p THEN {p.ext[j] : j \in 1..Len(p.ext)} ELSE {}
VARIABLES i, done
vars == <<i, done>>

Init == i \in 1..Len(Progs) /\ done = FALSE
Next == /\ ~done
        /\ done' = TRUE
        /\ i' = i
        /\ PrintT(ToJson([id |-> Progs[i].id, exp |-> RunXI(Progs[i].prog, Fuel, Ext(Progs[i]), "extinner" \in DOMAIN Progs[i] /\ Progs[i].extinner)]))
Spec == Init /\ [][Next]_vars
=============================================================================
