SPECIFICATION Spec
CONSTANTS
  MaxStages = 1
  Caps = {0, 1}
  ItemSeqs <- Seqs
  Variant = "DropOdd"
INVARIANTS FIFO CollectedPrefix DeliversAll NoSendAfterClose
PROPERTIES Terminates
CHECK_DEADLOCK TRUE
