SPECIFICATION Spec
CONSTANTS
  W = 1
  Pool <- PoolW1
INVARIANTS Checked
CHECK_DEADLOCK FALSE
