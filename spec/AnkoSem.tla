------------------------------- MODULE AnkoSem -------------------------------
(***************************************************************************)
(* Reference semantics of the anko language core ("what the syntax says"): *)
(* a store-passing, fuel-bounded big-step evaluator over programs given as *)
(* data (records with a kind field k; the same JSON the Go harness renders *)
(* to source and re-derives from the real parser's tree).                  *)
(*                                                                         *)
(* Decides C04 (lexical scope, closures), C07 (evaluation order: the probe *)
(* log), C08 (branches, loops, break/continue/return), C09 (try/throw,     *)
(* defers), and is the solo-run oracle for C14.                            *)
(*                                                                         *)
(* Values are uniformly shaped records V(t, i, s, l).  Outcomes:           *)
(*   norm(v) | brk | cnt | ret(v) | thr(err) | fuel                        *)
(* A state st = [sc, log, fuel, fns, ds, open]:                            *)
(*   sc   heap of scopes [par, vars]      log  probe effects, in order     *)
(*   fns  closures [fn, sc]               ds   stack of defer lists        *)
(*   ext  names the host's external lookup resolves (outermost scope)      *)
(*   open set when the run passed a point the property statements leave    *)
(*        open (then only the laws, not the values, are asserted)          *)
(* Dev = names of recorded deviations of the code from the intended design *)
(* (KNOWN_FINDINGS.json); {} = the intended design.                        *)
(***************************************************************************)
EXTENDS Integers, Sequences, FiniteSets, TLC

CONSTANT Dev

V(t, i, s, l) == [t |-> t, i |-> i, s |-> s, l |-> l]
IntV(n)  == V("int", n, "", <<>>)
StrV(s)  == V("str", 0, s, <<>>)
BoolV(b) == V("bool", IF b THEN 1 ELSE 0, "", <<>>)
NilV     == V("nil", 0, "", <<>>)
FltV(s)  == V("flt", 0, s, <<>>)           \* a float by its spelling (no float arithmetic in this module)
ListV(l) == V("list", 0, "", l)
MapV(l)  == V("map", 0, "", l)             \* l = <<ListV(<<key, value>>), ...>>
FuncV(i) == V("func", i, "", <<>>)
HostV(n) == V("host", 0, n, <<>>)
ModV(s)  == V("mod", s, "", <<>>)
ThrownV(m) == V("err", 0, m, <<>>)         \* error raised by throw: the message is the thrown value's text
RtErrV(c)  == V("err", 1, c, <<>>)         \* runtime error (class c; the message text is not asserted)
OpenV    == V("open", 0, "", <<>>)         \* a value the statements leave open
NoneV    == V("none", 0, "", <<>>)         \* lookup failure marker (never a script value)

R(st, o, v) == [st |-> st, o |-> o, v |-> v]
Norm(st, v) == R(st, "norm", v)
Thr(st, e)  == R(st, "thr", e)

FalsyStr == {"", "0", "false", "0.0", "f", "F", "FALSE", "False",
             "-0", "+0", "00", "0.00", ".0", "0.", "-0.0", "+0.0", "0e0", "0E5", "-.0"}      \* a string that is a numeral denoting zero is falsy like the number zero, however the zero is written
ZeroFlt  == {"0", "-0"}                    \* canonical (%g) spellings of zero
Truthy(v) ==
  CASE v.t = "nil"  -> FALSE
    [] v.t = "bool" -> v.i = 1
    [] v.t = "int"  -> v.i # 0
    [] v.t = "flt"  -> v.s \notin ZeroFlt
    [] v.t = "str"  -> v.s \notin FalsyStr
    [] v.t \in {"list", "map"} -> Len(v.l) > 0
    [] OTHER -> FALSE

ToStr(v) ==
  CASE v.t = "str"  -> v.s
    [] v.t = "int"  -> ToString(v.i)
    [] v.t = "bool" -> IF v.i = 1 THEN "true" ELSE "false"
    [] v.t = "nil"  -> "<nil>"
    [] v.t = "flt"  -> v.s
    [] v.t = "err"  -> v.s
    [] OTHER -> "?"

RECURSIVE EqV(_, _)
EqV(a, b) ==
  IF a.t # b.t THEN FALSE
  ELSE CASE a.t \in {"int", "bool", "func", "mod"} -> a.i = b.i
         [] a.t \in {"str", "flt", "host"} -> a.s = b.s
         [] a.t = "nil" -> TRUE
         [] a.t \in {"list", "map"} -> Len(a.l) = Len(b.l) /\ \A i \in 1..Len(a.l) : EqV(a.l[i], b.l[i])
         [] OTHER -> FALSE

----------------------------------------------------------------------------
(* scopes *)
EmptyVars == [n \in {} |-> NoneV]
NewScope(st, par) == [st EXCEPT !.sc = Append(@, [par |-> par, vars |-> EmptyVars])]
Top(st) == Len(st.sc)
Put(f, n, v) == [m \in DOMAIN f \cup {n} |-> IF m = n THEN v ELSE f[m]]
DefineIn(st, s, n, v) == [st EXCEPT !.sc[s].vars = Put(@, n, v)]

RECURSIVE Lookup(_, _, _), Nearest(_, _, _)
Lookup(st, s, n) == IF s = 0 THEN NoneV
                    ELSE IF n \in DOMAIN st.sc[s].vars THEN st.sc[s].vars[n]
                    ELSE IF s = st.extsc /\ n \in st.ext THEN IntV(99)          \* the host's external lookup: asked after the table of the scope it sits on, before that scope's parent
                    ELSE Lookup(st, st.sc[s].par, n)
Nearest(st, s, n) == IF s = 0 THEN 0
                     ELSE IF n \in DOMAIN st.sc[s].vars THEN s
                     ELSE Nearest(st, st.sc[s].par, n)
\* plain assignment: nearest existing binding, else a new one in the current block
Assign(st, s, n, v) == LET w == Nearest(st, s, n) IN DefineIn(st, IF w = 0 THEN s ELSE w, n, v)

Log(st, v) == [st EXCEPT !.log = Append(@, v)]
Burn(st) == [st EXCEPT !.fuel = @ - 1]
MarkOpen(st) == [st EXCEPT !.open = TRUE]

----------------------------------------------------------------------------
(* operators on the small value universe of the control-flow families *)
\* membership: the relation of == over the elements (cross-kind equality is property C06's business: open here)
InList(st, a, b) ==
  IF b.t = "list" THEN
       IF a.t \in {"func", "host", "mod", "ptr", "chan", "open"} THEN Norm(MarkOpen(st), OpenV)
       ELSE IF \A j \in 1..Len(b.l) : b.l[j].t = a.t \/ b.l[j].t = "nil" \/ a.t = "nil"
            THEN Norm(st, BoolV(\E j \in 1..Len(b.l) : EqV(a, b.l[j])))
            ELSE Norm(MarkOpen(st), OpenV)
  ELSE IF b.t \in {"nil", "int", "bool", "flt", "str", "func", "map"} THEN Thr(st, RtErrV("in"))     \* the right operand has no elements to search
  ELSE Norm(MarkOpen(st), OpenV)

Arith(st, op, a, b) ==
  IF op = "in" THEN InList(st, a, b)
  ELSE IF a.t = "int" /\ b.t = "int" THEN
    CASE op = "+"  -> Norm(st, IntV(a.i + b.i))
      [] op = "-"  -> Norm(st, IntV(a.i - b.i))
      [] op = "*"  -> Norm(st, IntV(a.i * b.i))
      [] op = "%"  -> IF b.i = 0 THEN Thr(st, RtErrV("divzero")) ELSE Norm(st, IntV(a.i - b.i * (a.i \div b.i)))   \* operands >= 0 in the families
      [] op = "<"  -> Norm(st, BoolV(a.i < b.i))
      [] op = "<=" -> Norm(st, BoolV(a.i <= b.i))
      [] op = ">"  -> Norm(st, BoolV(a.i > b.i))
      [] op = ">=" -> Norm(st, BoolV(a.i >= b.i))
      [] op = "==" -> Norm(st, BoolV(a.i = b.i))
      [] op = "!=" -> Norm(st, BoolV(a.i # b.i))
      [] OTHER -> Norm(MarkOpen(st), OpenV)
  ELSE IF op = "==" /\ (a.t = b.t \/ a.t = "nil" \/ b.t = "nil") THEN Norm(st, BoolV(EqV(a, b)))
  ELSE IF op = "!=" /\ (a.t = b.t \/ a.t = "nil" \/ b.t = "nil") THEN Norm(st, BoolV(~EqV(a, b)))
  ELSE IF op = "+" /\ a.t = "str" /\ b.t \in {"str", "int"} THEN Norm(st, StrV(a.s \o ToStr(b)))
  ELSE IF op = "+" /\ a.t = "int" /\ b.t = "str" THEN Norm(st, StrV(ToStr(a) \o b.s))
  ELSE IF op = "+" /\ a.t = "list" /\ b.t = "list" THEN Norm(st, ListV(a.l \o b.l))
  ELSE IF op = "+" /\ a.t = "list" /\ b.t # "list" THEN Norm(st, ListV(Append(a.l, b)))
  ELSE IF op = "+" /\ a.t \in {"int", "str", "bool", "flt"} /\ b.t = "list" THEN Thr(st, RtErrV("addlist"))     \* a list cannot be added to a scalar: an error of the operation (both operands have been evaluated)
  ELSE Norm(MarkOpen(st), OpenV)          \* kind combinations the control-flow properties do not speak about

RECURSIVE MapGet(_, _, _)
MapGet(l, k, i) == IF i > Len(l) THEN NilV ELSE IF EqV(l[i].l[1], k) THEN l[i].l[2] ELSE MapGet(l, k, i + 1)

Index(st, b, ix) ==
  CASE b.t = "list" -> IF ix.t # "int" THEN Norm(MarkOpen(st), OpenV)
                       ELSE IF ix.i < 0 \/ ix.i >= Len(b.l) THEN Thr(st, RtErrV("range"))
                       ELSE Norm(st, b.l[ix.i + 1])
    [] b.t = "map"  -> Norm(st, MapGet(b.l, ix, 1))
    [] b.t \in {"nil", "int", "bool", "flt", "func"} -> Thr(st, RtErrV("index"))     \* no elements: an error of the operation (both operands have been evaluated)
    [] OTHER -> Norm(MarkOpen(st), OpenV)

----------------------------------------------------------------------------
RECURSIVE EvalSeqPT(_, _, _, _, _)
RECURSIVE EvalE(_, _, _), EvalSeq(_, _, _, _, _), EvalSeqT(_, _, _, _, _, _), EvalMap(_, _, _, _, _), CallV(_, _, _, _, _), Invoke(_, _, _),
          Apply(_, _, _), BindParams(_, _, _, _, _), RunDefers(_, _, _, _, _),
          Exec(_, _, _), ExecList(_, _, _, _), While(_, _, _, _), CFor(_, _, _, _), ForIn(_, _, _, _, _, _),
          ElseIfs(_, _, _, _), Cases(_, _, _, _, _), CaseExprs(_, _, _, _, _, _), AssignAll(_, _, _, _, _, _), DefineAll(_, _, _, _, _, _),
          JumpThroughFinally(_, _, _), SliceE(_, _, _)

\* evaluate es[i..] left to right; stop at the first operand that does not complete normally
EvalSeq(es, i, s, st, acc) ==
  IF i > Len(es) THEN Norm(st, ListV(acc))
  ELSE LET r == EvalE(es[i], s, st) IN
       IF r.o # "norm" THEN r ELSE EvalSeq(es, i + 1, s, r.st, Append(acc, r.v))

\* arguments of the Go probe pt(a int64, b interface{}, c int64): each operand is converted for its parameter as soon as it has been evaluated,
\* and a value that cannot be converted ends the evaluation of the operands after it (integers convert, strings and containers do not; the rest is open)
EvalSeqPT(es, i, s, st, acc) ==
  IF i > Len(es) THEN Norm(st, ListV(acc))
  ELSE LET r == EvalE(es[i], s, st) IN
       IF r.o # "norm" THEN r
       ELSE IF i \in {1, 3} /\ r.v.t \in {"str", "list", "map", "func"} THEN Thr(r.st, RtErrV("convert"))
       ELSE IF i \in {1, 3} /\ r.v.t # "int" THEN Norm(MarkOpen(r.st), OpenV)
       ELSE EvalSeqPT(es, i + 1, s, r.st, Append(acc, r.v))

\* typed literals ([]int64{...}, map[string]int64{...}, element type interface likewise): the same left-to-right order; each operand is
\* converted to the declared type as soon as it has been evaluated, and a value that cannot be converted fails there -- before any later
\* operand is evaluated.  (Families use string keys and int / string values: int64 accepts ints only, interface anything.)
TyOf(e) == IF "ty" \in DOMAIN e THEN e.ty ELSE ""
ElemOK(ty, v) == ty \in {"", "[]interface", "map[string]interface"} \/ v.t = "int"
KeyOK(ty, k) == ty = "" \/ k.t = "str"
EvalSeqT(es, i, s, st, acc, ty) ==
  IF i > Len(es) THEN Norm(st, ListV(acc))
  ELSE LET r == EvalE(es[i], s, st) IN
       IF r.o # "norm" THEN r
       ELSE IF ~ElemOK(ty, r.v) THEN Thr(r.st, RtErrV("convert"))
       ELSE EvalSeqT(es, i + 1, s, r.st, Append(acc, r.v), ty)

\* map literal: key1, value1, key2, value2, ... ; later equal keys replace earlier ones
MapPut(l, k, v) == IF \E j \in 1..Len(l) : EqV(l[j].l[1], k)
                   THEN [j \in 1..Len(l) |-> IF EqV(l[j].l[1], k) THEN ListV(<<k, v>>) ELSE l[j]]
                   ELSE Append(l, ListV(<<k, v>>))
EvalMap(e, i, s, st, acc) ==
  IF i > Len(e.ks) THEN Norm(st, MapV(acc))
  ELSE LET rk == EvalE(e.ks[i], s, st) IN
       IF rk.o # "norm" THEN rk
       ELSE IF ~KeyOK(TyOf(e), rk.v) THEN Thr(rk.st, RtErrV("convert"))
       ELSE LET rv == EvalE(e.vs[i], s, rk.st) IN
            IF rv.o # "norm" THEN rv
            ELSE IF ~ElemOK(TyOf(e), rv.v) THEN Thr(rv.st, RtErrV("convert"))
            ELSE EvalMap(e, i + 1, s, rv.st, MapPut(acc, rk.v, rv.v))

\* a[lo:hi] and a[lo:hi:cap] (every bound optional): the sliced operand, then the bounds that are written, each once, left to right.
\* A bound that is not acceptable (0 <= lo <= hi <= len, hi <= cap) is an error of the operation; whether the bounds AFTER it were
\* evaluated is left open when they could be observed.  Strings (property C10) and capacities beyond the length (the spare capacity of
\* a list is not state of this module) are open.
Const(e) == e.k \in {"int", "str", "bool", "nil", "flt"}
AllConst(es) == \A j \in 1..Len(es) : Const(es[j])
SliceFail(st, later, c) == Thr(IF AllConst(later) THEN st ELSE MarkOpen(st), RtErrV(c))
SliceE(e, s, st) ==
  LET b == EvalE(e.e, s, st) IN
  IF b.o # "norm" THEN b
  ELSE IF b.v.t \in {"nil", "int", "bool", "flt", "func", "map"} THEN SliceFail(b.st, e.lo \o e.hi \o e.cap, "slice")
  ELSE IF b.v.t # "list" THEN Norm(MarkOpen(b.st), OpenV)
  ELSE LET n == Len(b.v.l)
           lo == IF Len(e.lo) = 1 THEN EvalE(e.lo[1], s, b.st) ELSE Norm(b.st, IntV(0)) IN
       IF lo.o # "norm" THEN lo
       ELSE IF lo.v.t # "int" THEN Norm(MarkOpen(lo.st), OpenV)
       ELSE IF lo.v.i < 0 THEN SliceFail(lo.st, e.hi \o e.cap, "range")
       ELSE LET hi == IF Len(e.hi) = 1 THEN EvalE(e.hi[1], s, lo.st) ELSE Norm(lo.st, IntV(n)) IN
            IF hi.o # "norm" THEN hi
            ELSE IF hi.v.t # "int" THEN Norm(MarkOpen(hi.st), OpenV)
            ELSE IF hi.v.i > n THEN SliceFail(hi.st, e.cap, "range")
            ELSE IF lo.v.i > hi.v.i THEN SliceFail(hi.st, e.cap, "range")
            ELSE LET res == ListV(SubSeq(b.v.l, lo.v.i + 1, hi.v.i)) IN
                 IF Len(e.cap) = 0 THEN Norm(hi.st, res)
                 ELSE LET c == EvalE(e.cap[1], s, hi.st) IN
                      IF c.o # "norm" THEN c
                      ELSE IF c.v.t # "int" THEN Norm(MarkOpen(c.st), OpenV)
                      ELSE IF c.v.i < hi.v.i THEN Thr(c.st, RtErrV("range"))
                      ELSE IF c.v.i > n THEN Norm(MarkOpen(c.st), OpenV)
                      ELSE Norm(c.st, res)

EvalE(e, s, st) ==
  CASE e.k = "int"  -> Norm(st, IntV(e.i))
    [] e.k = "str"  -> Norm(st, StrV(e.s))
    [] e.k = "bool" -> Norm(st, BoolV(e.i = 1))
    [] e.k = "nil"  -> Norm(st, NilV)
    [] e.k = "flt"  -> Norm(st, FltV(e.s))
    [] e.k = "paren" -> EvalE(e.e, s, st)
    [] e.k = "addr" -> LET r == EvalE(e.e, s, st) IN IF r.o # "norm" THEN r ELSE Norm(r.st, V("ptr", 0, "", <<>>))   \* &operand: its sub-operands are evaluated once, like the operand's
    [] e.k = "id"   -> LET v == Lookup(st, s, e.n) IN IF v.t = "none" THEN Thr(st, RtErrV("undefined")) ELSE Norm(st, v)
    [] e.k = "bin"  ->
         LET l == EvalE(e.l, s, st) IN
         IF l.o # "norm" THEN l
         ELSE IF e.op = "||" THEN (IF Truthy(l.v) THEN Norm(l.st, BoolV(TRUE))
                                   ELSE LET r == EvalE(e.r, s, l.st) IN IF r.o # "norm" THEN r ELSE Norm(r.st, BoolV(Truthy(r.v))))
         ELSE IF e.op = "&&" THEN (IF ~Truthy(l.v) THEN Norm(l.st, BoolV(FALSE))
                                   ELSE LET r == EvalE(e.r, s, l.st) IN IF r.o # "norm" THEN r ELSE Norm(r.st, BoolV(Truthy(r.v))))
         ELSE LET r == EvalE(e.r, s, l.st) IN IF r.o # "norm" THEN r ELSE Arith(r.st, e.op, l.v, r.v)
    [] e.k = "un"   ->
         LET r == EvalE(e.e, s, st) IN
         IF r.o # "norm" THEN r
         ELSE IF e.op = "!" THEN Norm(r.st, BoolV(~Truthy(r.v)))
         ELSE IF e.op = "-" /\ r.v.t = "int" THEN Norm(r.st, IntV(0 - r.v.i))
         ELSE Norm(MarkOpen(r.st), OpenV)
    [] e.k = "tern" ->
         LET c == EvalE(e.c, s, st) IN
         IF c.o # "norm" THEN c ELSE IF Truthy(c.v) THEN EvalE(e.a, s, c.st) ELSE EvalE(e.b, s, c.st)
    [] e.k = "nilco" ->      \* right side only when the left is nil or fails
         LET l == EvalE(e.l, s, st) IN
         IF l.o = "norm" /\ l.v.t # "nil" THEN l
         ELSE IF l.o \in {"norm", "thr"} THEN EvalE(e.r, s, l.st)
         ELSE l
    [] e.k = "list" -> IF TyOf(e) = "" THEN EvalSeq(e.es, 1, s, st, <<>>) ELSE EvalSeqT(e.es, 1, s, st, <<>>, TyOf(e))
    [] e.k = "map"  -> EvalMap(e, 1, s, st, <<>>)
    [] e.k = "idx"  ->
         LET b == EvalE(e.e, s, st) IN
         IF b.o # "norm" THEN b
         ELSE LET ix == EvalE(e.i, s, b.st) IN IF ix.o # "norm" THEN ix ELSE Index(ix.st, b.v, ix.v)
    [] e.k = "len"  ->
         LET r == EvalE(e.e, s, st) IN
         IF r.o # "norm" THEN r
         ELSE IF r.v.t \in {"list", "map"} THEN Norm(r.st, IntV(Len(r.v.l)))
         ELSE IF r.v.t \in {"int", "bool", "nil", "flt", "func"} THEN Thr(r.st, RtErrV("len")) ELSE Norm(MarkOpen(r.st), OpenV)
    [] e.k = "member" ->
         LET r == EvalE(e.e, s, st) IN
         IF r.o # "norm" THEN r
         ELSE IF r.v.t = "mod"
              THEN IF e.n \in DOMAIN r.st.sc[r.v.i].vars THEN Norm(r.st, r.st.sc[r.v.i].vars[e.n])
                   ELSE LET v == Lookup(r.st, r.v.i, e.n) IN          \* a name the module itself does not bind:
                        IF v.t = "none" THEN Thr(r.st, RtErrV("undefined")) ELSE Norm(MarkOpen(r.st), OpenV)   \* open (outer name through a module)
              ELSE IF r.v.t = "map" THEN Norm(r.st, MapGet(r.v.l, StrV(e.n), 1))
              ELSE Norm(MarkOpen(r.st), OpenV)
    [] e.k = "fn"   ->
         LET st1 == [st EXCEPT !.fns = Append(@, [fn |-> e, sc |-> s])]
             fv  == FuncV(Len(st1.fns)) IN
         Norm(IF e.n # "" THEN DefineIn(st1, s, e.n, fv) ELSE st1, fv)
    [] e.k = "call" ->
         LET f == Lookup(st, s, e.n) IN
         IF f.t = "none" THEN Thr(st, RtErrV("undefined")) ELSE CallV(f, e, s, st, FALSE)
    [] e.k = "acall" ->
         LET f == EvalE(e.f, s, st) IN
         IF f.o # "norm" THEN f ELSE CallV(f.v, e, s, f.st, FALSE)
    [] e.k = "slice" -> SliceE(e, s, st)
    [] e.k = "opasg" ->     \* t op= e stands for t = t op e (the documented shorthand: the operands inside t are evaluated twice,
                            \* once for the read -- before e -- and once for the store -- after it)
         LET r == EvalE([k |-> "bin", op |-> e.op, l |-> e.t, r |-> e.e], s, st) IN
         IF r.o # "norm" \/ r.v.t = "open" THEN r
         ELSE LET a == AssignAll(<<e.t>>, <<r.v>>, 1, 1, s, r.st) IN
              IF a.o # "norm" THEN a ELSE Norm(a.st, r.v)
    [] e.k = "hpanic" -> Thr(st, RtErrV("hostpanic"))     \* an operation on a host value that makes the Go runtime panic inside the interpreter
    [] e.k = "inc" ->       \* x++ stands for x = x + 1
         LET v == Lookup(st, s, e.n) IN
         IF v.t = "none" THEN Thr(st, RtErrV("undefined"))
         ELSE IF v.t = "int" THEN Norm(Assign(st, s, e.n, IntV(v.i + 1)), IntV(v.i + 1))
         ELSE Norm(MarkOpen(st), OpenV)

\* Parameters: fixed ones positionally; a variadic tail collects the rest as a list
BindParams(st, ns, ps, va, vals) ==
  LET nfix == IF va THEN Len(ps) - 1 ELSE Len(ps)
      st1 == [st EXCEPT !.sc[ns].vars = [n \in {ps[j] : j \in 1..nfix} |-> vals[CHOOSE j \in 1..nfix : ps[j] = n /\ \A q \in (j+1)..nfix : ps[q] # n]]] IN
  IF va THEN DefineIn(st1, ns, ps[Len(ps)], ListV(SubSeq(vals, nfix + 1, Len(vals)))) ELSE st1

\* deferred calls of the invocation being left: LIFO, each exactly once; result kept; the first error (in LIFO order)
\* surfaces only if the body ended normally or by return
RunDefers(st, dl, i, out, derr) ==
  IF i = 0 THEN
     IF derr.t # "none" /\ out.o \in {"norm", "ret"} THEN Thr(st, derr) ELSE R(st, out.o, out.v)
  ELSE LET r == Apply(dl[i].f, dl[i].args, st) IN
       IF r.o = "fuel" THEN r
       ELSE RunDefers(r.st, dl, i - 1, out, IF derr.t = "none" /\ r.o = "thr" THEN r.v ELSE derr)

\* one invocation of closure c on argument values: fresh scope under the captured one, own defer list
Invoke(c, vals, st) ==
  IF st.fuel <= 0 THEN R(st, "fuel", NilV)
  ELSE LET st1 == NewScope(Burn(st), c.sc)
           ns  == Top(st1)
           st2 == BindParams(st1, ns, c.fn.ps, c.fn.va, vals)
           st3 == [st2 EXCEPT !.ds = Append(@, <<>>)]
           b   == ExecList(c.fn.b, 1, ns, st3) IN
       IF b.o = "fuel" THEN b
       ELSE LET dl  == b.st.ds[Len(b.st.ds)]
                st4 == [b.st EXCEPT !.ds = SubSeq(@, 1, Len(@) - 1)]
                d   == RunDefers(st4, dl, Len(dl), b, NoneV) IN
            CASE d.o = "ret"  -> Norm(d.st, d.v)
              [] d.o = "norm" -> Norm(MarkOpen(d.st), OpenV)      \* value of a body that ends without return: open
              [] d.o = "thr"  -> d
              [] d.o = "fuel" -> d
              [] d.o \in {"brk", "cnt"} -> Thr(d.st, RtErrV("strayloopctl"))

\* call a function value on already evaluated arguments
Apply(f, vals, st) ==
  CASE f.t = "func" -> LET c == st.fns[f.i] IN
                       IF (~c.fn.va /\ Len(vals) # Len(c.fn.ps)) \/ (c.fn.va /\ Len(vals) < Len(c.fn.ps) - 1)
                       THEN Thr(st, RtErrV("arity")) ELSE Invoke(c, vals, st)
    [] f.t = "host" ->
         CASE f.s = "p"  -> IF Len(vals) # 1 THEN Thr(st, RtErrV("arity")) ELSE Norm(Log(st, vals[1]), vals[1])
           [] f.s = "pv" -> IF Len(vals) # 2 THEN Thr(st, RtErrV("arity")) ELSE Norm(Log(st, vals[1]), vals[2])
           [] f.s = "pn" -> Norm(Log(st, ListV(vals)), NilV)                \* variadic host probe
           [] f.s = "pp" -> IF Len(vals) # 1 THEN Thr(st, RtErrV("arity")) ELSE Thr(Log(st, vals[1]), RtErrV("hostpanic"))   \* a Go function that panics: an ordinary error of the call
           [] f.s = "ch" -> IF Len(vals) # 1 THEN Thr(st, RtErrV("arity"))       \* a closed, buffered channel holding the elements of a list
                            ELSE IF vals[1].t = "list" THEN Norm(st, V("chan", 0, "", vals[1].l)) ELSE Norm(MarkOpen(st), OpenV)
           [] f.s = "pe" -> IF Len(vals) # 1 THEN Thr(st, RtErrV("arity"))       \* a Go function taking a callback of type func(int64) (no results): calls it with 1, then 2;
                            ELSE IF vals[1].t # "func" THEN Norm(MarkOpen(st), OpenV)     \* an error inside the callback is an error of this call (and ends it)
                            ELSE LET r1 == Apply(vals[1], <<IntV(1)>>, st) IN
                                 IF r1.o = "thr" THEN Thr(r1.st, RtErrV("callback")) ELSE IF r1.o # "norm" THEN r1
                                 ELSE LET r2 == Apply(vals[1], <<IntV(2)>>, [r1.st EXCEPT !.open = st.open]) IN       \* (what the callback returns is dropped: not an open point)
                                      IF r2.o = "thr" THEN Thr(r2.st, RtErrV("callback")) ELSE IF r2.o # "norm" THEN r2 ELSE Norm([r2.st EXCEPT !.open = st.open], NilV)
           [] f.s = "pt" -> IF Len(vals) # 3 THEN Thr(st, RtErrV("arity")) ELSE Norm(Log(st, ListV(vals)), NilV)    \* func(a int64, b interface{}, c int64): see EvalSeqPT
           [] f.s = "pa" -> IF Len(vals) # 1 THEN Thr(st, RtErrV("arity")) ELSE Norm(Log(st, IntV(77)), NilV)   \* takes a pointer (&x, &a[i], &m.k), touches nothing
           [] OTHER -> Norm(MarkOpen(st), OpenV)
    [] OTHER -> Thr(st, RtErrV("notfunc"))

\* a call expression: callee value f, argument expressions e.args, e.spread; deferred = only evaluate (for defer).
\* Arity rules (as Go's): a non-spread call needs exactly the fixed parameters (at least them for a variadic callee);
\* a spread call f(a, b, xs...) hands xs to the variadic parameter of a variadic callee (the fixed ones supplied exactly),
\* or spreads xs over the remaining parameters of a fixed-arity callee.
CallV(f, e, s, st, deferred) ==
  IF f.t \notin {"func", "host"} THEN Thr(st, RtErrV("notfunc"))          \* decided before any argument is evaluated
  ELSE LET n == Len(e.args)
           np == IF f.t = "func" THEN Len(st.fns[f.i].fn.ps) ELSE CASE f.s = "p" -> 1 [] f.s = "pv" -> 2 [] f.s = "pt" -> 3 [] OTHER -> 1     \* (pn pa pp ch: 1)
           va == IF f.t = "func" THEN st.fns[f.i].fn.va ELSE f.s = "pn"
           preMismatch == IF ~e.spread THEN (~va /\ n # np) \/ (va /\ n < np - 1)
                          ELSE IF va THEN n # np /\ n # np - 1
                          ELSE n > np \/ n = 0 IN
       IF "SpreadSurplusDropped" \in Dev /\ e.spread /\ ~va /\ np = 0 /\ n >= 1     \* recorded deviation: a spread call of a function without parameters succeeds, its operands never run
       THEN (IF deferred THEN Norm([st EXCEPT !.ds[Len(st.ds)] = Append(@, [f |-> f, args |-> <<>>])], NilV) ELSE Apply(f, <<>>, st))
       ELSE IF preMismatch THEN Thr(IF \A j \in 1..n : e.args[j].k \in {"int", "str", "bool", "nil", "flt"} THEN st ELSE MarkOpen(st), RtErrV("arity"))
                                                                 \* rejected for arity: decided; whether operands that can be observed ran is left open
       ELSE IF e.spread /\ va /\ n = np - 1 THEN Thr(MarkOpen(st), RtErrV("open"))   \* spread list covering a fixed parameter too: open
       ELSE LET a == IF f.t = "host" /\ f.s = "pt" /\ ~e.spread THEN EvalSeqPT(e.args, 1, s, st, <<>>) ELSE EvalSeq(e.args, 1, s, st, <<>>) IN
            IF a.o # "norm" THEN a
            ELSE LET vals0 == a.v.l IN
                 IF ~e.spread THEN
                      (IF deferred THEN Norm([a.st EXCEPT !.ds[Len(a.st.ds)] = Append(@, [f |-> f, args |-> vals0])], NilV) ELSE Apply(f, vals0, a.st))
                 ELSE IF vals0[n].t # "list" THEN Thr(a.st, RtErrV("spread"))
                 ELSE LET vals == SubSeq(vals0, 1, n - 1) \o vals0[n].l IN
                      IF ~va /\ Len(vals) < np THEN Thr(a.st, RtErrV("arity"))
                      ELSE IF ~va /\ Len(vals) > np THEN          \* more spread elements than parameters: a wrong argument count (recorded deviation: the surplus is dropped)
                           (IF "SpreadSurplusDropped" \notin Dev THEN Thr(a.st, RtErrV("arity"))
                            ELSE IF deferred THEN Norm([a.st EXCEPT !.ds[Len(a.st.ds)] = Append(@, [f |-> f, args |-> SubSeq(vals, 1, np)])], NilV)
                            ELSE Apply(f, SubSeq(vals, 1, np), a.st))
                      ELSE IF deferred THEN Norm([a.st EXCEPT !.ds[Len(a.st.ds)] = Append(@, [f |-> f, args |-> vals])], NilV)
                      ELSE Apply(f, vals, a.st)

----------------------------------------------------------------------------
(* statements *)
IsSignal(o) == o \in {"brk", "cnt", "ret"}

\* index targets  root[k1][k2]...[kn] = v  (root an identifier): the path is followed through lists and maps and the value is stored at its end;
\* a list grows by one when the last index is its length.  Result [r |-> "ok" | "err" | "open", v |-> the updated container, grew].
\* (Containers are values in this module; the families never alias the container they store into.)
RECURSIVE PathRoot(_), PathIdx(_), StoreAt(_, _, _, _)
PathRoot(e) == IF e.k = "idx" THEN PathRoot(e.e) ELSE e
PathIdx(e) == IF e.k = "idx" THEN Append(PathIdx(e.e), e.i) ELSE <<>>
SR(r, v, g) == [r |-> r, v |-> v, grew |-> g]
StoreAt(v, ks, i, nv) ==
  LET k == ks[i] IN
  IF v.t = "list" THEN
     IF k.t # "int" THEN SR("open", v, FALSE)
     ELSE IF i = Len(ks) THEN
          (IF k.i >= 0 /\ k.i < Len(v.l) THEN SR("ok", ListV([j \in 1..Len(v.l) |-> IF j = k.i + 1 THEN nv ELSE v.l[j]]), FALSE)
           ELSE IF k.i = Len(v.l) THEN SR("ok", ListV(Append(v.l, nv)), TRUE)
           ELSE SR("err", v, FALSE))
     ELSE IF k.i < 0 \/ k.i >= Len(v.l) THEN SR("err", v, FALSE)
     ELSE LET sub == StoreAt(v.l[k.i + 1], ks, i + 1, nv) IN
          IF sub.r # "ok" THEN sub ELSE SR("ok", ListV([j \in 1..Len(v.l) |-> IF j = k.i + 1 THEN sub.v ELSE v.l[j]]), sub.grew)
  ELSE IF v.t = "map" THEN
     IF i = Len(ks) THEN SR("ok", MapV(MapPut(v.l, k, nv)), FALSE)
     ELSE LET cur == MapGet(v.l, k, 1) IN
          IF cur.t = "nil" THEN SR("err", v, FALSE)
          ELSE LET sub == StoreAt(cur, ks, i + 1, nv) IN
               IF sub.r # "ok" THEN sub ELSE SR("ok", MapV(MapPut(v.l, k, sub.v)), sub.grew)
  ELSE IF v.t = "nil" THEN SR("err", v, FALSE)
  ELSE SR("open", v, FALSE)

\* following a path: the index expression of a step is evaluated, then (for every step but the last) the element is read -- an index
\* that is out of range there is that operand's error, and the index expressions after it are not evaluated
RECURSIVE Walk(_, _, _, _, _, _)
Walk(cur, ixs, i, s, st, keys) ==
  LET r == EvalE(ixs[i], s, st) IN
  IF r.o # "norm" THEN [o |-> "stop", res |-> r, keys |-> keys]
  ELSE IF i = Len(ixs) THEN [o |-> "done", res |-> r, keys |-> Append(keys, r.v)]
  ELSE LET sub == Index(r.st, cur, r.v) IN
       IF sub.o # "norm" THEN [o |-> "stop", res |-> sub, keys |-> keys]
       ELSE Walk(sub.v, ixs, i + 1, s, sub.st, Append(keys, r.v))

\* assignment targets: identifiers (nearest-or-here), module members (existing binding only), index paths rooted at an identifier
\* (the root is read, then every index expression is evaluated exactly once, left to right, then the store happens)
AssignAll(lhs, vals, i, n, s, st) ==
  IF i > n THEN Norm(st, NilV)
  ELSE LET t == lhs[i] IN
       IF t.k = "id" THEN AssignAll(lhs, vals, i + 1, n, s, Assign(st, s, t.n, vals[i]))
       ELSE IF t.k = "member" THEN
            LET m == EvalE(t.e, s, st) IN
            IF m.o # "norm" THEN m
            ELSE IF m.v.t = "mod" THEN
                 LET w == Nearest(m.st, m.v.i, t.n) IN
                 IF w = 0 THEN Thr(m.st, RtErrV("undefined"))
                 ELSE IF w = m.v.i THEN AssignAll(lhs, vals, i + 1, n, s, DefineIn(m.st, w, t.n, vals[i]))
                 ELSE Norm(MarkOpen(m.st), OpenV)
            ELSE IF m.v.t = "map" /\ t.e.k = "id"          \* m.k = v on a map held by a name: the entry "k"
                 THEN AssignAll(lhs, vals, i + 1, n, s, Assign(m.st, s, t.e.n, MapV(MapPut(m.v.l, StrV(t.n), vals[i]))))
            ELSE Norm(MarkOpen(m.st), OpenV)
       ELSE IF t.k = "idx" THEN
            LET root == PathRoot(t) IN
            IF root.k # "id" THEN Norm(MarkOpen(st), OpenV)
            ELSE LET cur == Lookup(st, s, root.n) IN
                 IF cur.t = "none" THEN Thr(st, RtErrV("undefined"))
                 ELSE LET ixs == PathIdx(t)
                          w == Walk(cur, ixs, 1, s, st, <<>>)
                          ix == [o |-> w.res.o, st |-> w.res.st, v |-> ListV(w.keys)] IN
                      IF w.o # "done" THEN w.res
                      ELSE LET r == StoreAt(cur, ix.v.l, 1, vals[i]) IN
                           IF r.r = "open" THEN Norm(MarkOpen(ix.st), OpenV)
                           ELSE IF r.r = "err" THEN Thr(ix.st, RtErrV("store"))
                           ELSE \* recorded deviation: a store that GROWS a list reached through a longer path is written back by evaluating the path's prefix again
                                LET again == IF "LhsIndexReevaluated" \in Dev /\ r.grew /\ Len(ixs) >= 2
                                             THEN EvalSeq(SubSeq(ixs, 1, Len(ixs) - 1), 1, s, ix.st, <<>>) ELSE ix IN
                                IF again.o # "norm" THEN again
                                ELSE AssignAll(lhs, vals, i + 1, n, s, Assign(again.st, s, root.n, r.v))
       ELSE Norm(MarkOpen(st), OpenV)

DefineAll(names, vals, i, n, s, st) ==
  IF i > n THEN st ELSE DefineAll(names, vals, i + 1, n, s, DefineIn(st, s, names[i], vals[i]))

Min(a, b) == IF a < b THEN a ELSE b

ExecList(ss, i, s, st) ==
  IF i > Len(ss) THEN Norm(st, OpenV)
  ELSE LET r == Exec(ss[i], s, st) IN
       IF r.o # "norm" THEN r ELSE ExecList(ss, i + 1, s, r.st)

\* while-style loops (for { } and for cond { }): body while the condition holds; break/continue bind here
While(n, ls, s0, st) ==
  IF st.fuel <= 0 THEN R(st, "fuel", NilV)
  ELSE LET c == IF n.k = "while" THEN EvalE(n.c, ls, Burn(st)) ELSE Norm(Burn(st), BoolV(TRUE)) IN
       IF c.o # "norm" THEN c
       ELSE IF ~Truthy(c.v) THEN Norm(c.st, NilV)
       ELSE LET b == ExecList(n.b, 1, ls, c.st) IN
            CASE b.o \in {"norm", "cnt"} -> While(n, ls, s0, b.st)
              [] b.o = "brk" -> Norm(b.st, NilV)
              [] OTHER -> b

\* C-style loop: the post expression also runs after continue
CFor(n, ls, s0, st) ==
  IF st.fuel <= 0 THEN R(st, "fuel", NilV)
  ELSE LET c == IF Len(n.c) = 1 THEN EvalE(n.c[1], ls, Burn(st)) ELSE Norm(Burn(st), BoolV(TRUE)) IN
       IF c.o # "norm" THEN c
       ELSE IF ~Truthy(c.v) THEN Norm(c.st, NilV)
       ELSE LET b == ExecList(n.b, 1, ls, c.st) IN
            CASE b.o \in {"norm", "cnt"} ->
                   (IF Len(n.post) = 1 THEN LET p == EvalE(n.post[1], ls, b.st) IN IF p.o # "norm" THEN p ELSE CFor(n, ls, s0, p.st)
                    ELSE CFor(n, ls, s0, b.st))
              [] b.o = "brk" -> Norm(b.st, NilV)
              [] OTHER -> b

\* for v in list: elements in index order; for k[, v] in map: every entry once (order as listed)
ForIn(n, items, i, ls, s0, st) ==
  IF i > Len(items) THEN Norm(st, NilV)
  ELSE IF st.fuel <= 0 THEN R(st, "fuel", NilV)
  ELSE LET st1 == IF Len(n.vs) = 2 THEN DefineIn(DefineIn(Burn(st), ls, n.vs[1], items[i].l[1]), ls, n.vs[2], items[i].l[2])
                  ELSE DefineIn(Burn(st), ls, n.vs[1], items[i])
           b == ExecList(n.b, 1, ls, st1) IN
       CASE b.o \in {"norm", "cnt"} -> ForIn(n, items, i + 1, ls, s0, b.st)
         [] b.o = "brk" -> Norm(b.st, NilV)
         [] OTHER -> b

ElseIfs(n, i, s, st) ==
  IF i > Len(n.elifs) THEN
     (IF Len(n.els) = 1 THEN LET st1 == NewScope(st, s) IN ExecList(n.els[1], 1, Top(st1), st1) ELSE Norm(st, OpenV))
  ELSE LET st1 == NewScope(st, s)
           c == EvalE(n.elifs[i].c, Top(st1), st1) IN
       IF c.o # "norm" THEN c
       ELSE IF Truthy(c.v) THEN LET st2 == NewScope(c.st, s) IN ExecList(n.elifs[i].b, 1, Top(st2), st2)
       ELSE ElseIfs(n, i + 1, s, c.st)

\* switch: cases top to bottom, the expressions of a case left to right, first equal one wins, else default
CaseExprs(n, subj, ci, ei, ns, st) ==
  IF ei > Len(n.cases[ci].es) THEN Cases(n, subj, ci + 1, ns, st)
  ELSE LET r == EvalE(n.cases[ci].es[ei], ns, st) IN
       IF r.o # "norm" THEN r
       ELSE IF r.v.t # subj.t /\ r.v.t # "nil" /\ subj.t # "nil" THEN Norm(MarkOpen(r.st), OpenV)   \* cross-kind equality: property C06, not here
       ELSE IF EqV(r.v, subj) THEN ExecList(n.cases[ci].b, 1, ns, r.st)
       ELSE CaseExprs(n, subj, ci, ei + 1, ns, r.st)
Cases(n, subj, ci, ns, st) ==
  IF ci > Len(n.cases) THEN (IF Len(n.d) = 1 THEN ExecList(n.d[1], 1, ns, st) ELSE Norm(st, NilV))
  ELSE CaseExprs(n, subj, ci, 1, ns, st)

\* a try or catch block left by break / continue while a finally clause exists: the loop is left / continued in any case; under the reading
\* "FinallyOnJump" the finally block runs first (an error or jump of its own replaces the pending one), otherwise it does not run
JumpThroughFinally(n, ns, b) ==
  IF "FinallyOnJump" \in Dev
  THEN LET f == ExecList(n.f[1], 1, ns, b.st) IN IF f.o = "norm" THEN R(f.st, b.o, b.v) ELSE f
  ELSE b

Exec(n, s, st) ==
  CASE n.k = "expr" -> LET r == EvalE(n.e, s, st) IN IF r.o = "norm" THEN Norm(r.st, r.v) ELSE r
    [] n.k = "break" -> R(st, "brk", NilV)
    [] n.k = "continue" -> R(st, "cnt", NilV)
    [] n.k = "return" ->
         IF Len(n.es) = 0 THEN R(st, "ret", NilV)
         ELSE IF Len(n.es) = 1 THEN LET r == EvalE(n.es[1], s, st) IN IF r.o # "norm" THEN r ELSE R(r.st, "ret", r.v)
         ELSE LET r == EvalSeq(n.es, 1, s, st, <<>>) IN IF r.o # "norm" THEN r ELSE R(r.st, "ret", r.v)
    [] n.k = "throw" -> LET r == EvalE(n.e, s, st) IN IF r.o # "norm" THEN r ELSE Thr(r.st, ThrownV(ToStr(r.v)))
    [] n.k = "let" ->      \* all right-hand sides first, left to right, then the targets
         LET r == EvalSeq(n.rhs, 1, s, st, <<>>) IN
         IF r.o # "norm" THEN r
         ELSE LET vals == r.v.l IN
              IF Len(vals) = 1 /\ Len(n.lhs) > 1 /\ vals[1].t = "list" /\ Len(vals[1].l) > 0
              THEN AssignAll(n.lhs, vals[1].l, 1, Min(Len(n.lhs), Len(vals[1].l)), s, r.st)
              ELSE IF Len(vals) > Len(n.lhs) THEN AssignAll(n.lhs, vals, 1, Len(n.lhs), s, r.st)      \* surplus right-hand values: all evaluated (above), the first ones assigned
              ELSE IF Len(vals) # Len(n.lhs) THEN Norm(MarkOpen(r.st), OpenV)
              ELSE AssignAll(n.lhs, vals, 1, Len(vals), s, r.st)
    [] n.k = "letmi" ->    \* v, ok = m[k] : the index expression is evaluated ONCE; (value, true), or (nil, false) when it yields nil
         LET r == EvalE(n.rhs, s, st) IN
         IF r.o # "norm" THEN r
         ELSE LET vals == IF r.v.t = "nil" THEN <<NilV, BoolV(FALSE)>> ELSE <<r.v, BoolV(TRUE)>> IN
              AssignAll(n.lhs, vals, 1, 2, s, r.st)
    [] n.k = "var" ->
         LET r == EvalSeq(n.rhs, 1, s, st, <<>>) IN
         IF r.o # "norm" THEN r
         ELSE LET vals == r.v.l IN
              IF Len(vals) = 1 /\ Len(n.names) > 1 /\ vals[1].t = "list" /\ Len(vals[1].l) > 0
              THEN Norm(DefineAll(n.names, vals[1].l, 1, Min(Len(n.names), Len(vals[1].l)), s, r.st), NilV)
              ELSE IF Len(vals) > Len(n.names) THEN Norm(DefineAll(n.names, vals, 1, Len(n.names), s, r.st), OpenV)
              ELSE IF Len(vals) # Len(n.names) THEN Norm(MarkOpen(r.st), OpenV)
              ELSE Norm(DefineAll(n.names, vals, 1, Len(vals), s, r.st), NilV)
    [] n.k = "if" ->
         LET c == EvalE(n.c, s, st) IN
         IF c.o # "norm" THEN c
         ELSE IF Truthy(c.v) THEN LET st1 == NewScope(c.st, s) IN ExecList(n.then, 1, Top(st1), st1)
         ELSE ElseIfs(n, 1, s, c.st)
    [] n.k \in {"loop", "while"} -> LET st1 == NewScope(st, s) IN While(n, Top(st1), s, st1)
    [] n.k = "cfor" ->
         LET st1 == NewScope(st, s)
             ls == Top(st1)
             i == IF Len(n.init) = 1 THEN Exec(n.init[1], ls, st1) ELSE Norm(st1, NilV) IN
         IF i.o # "norm" THEN i ELSE CFor(n, ls, s, i.st)
    [] n.k = "forin" ->
         LET r == EvalE(n.e, s, st) IN
         IF r.o # "norm" THEN r
         ELSE IF r.v.t = "chan" /\ Len(n.vs) # 1 THEN Norm(MarkOpen(r.st), OpenV)
         ELSE IF r.v.t \in {"list", "map", "chan"} THEN      \* a channel: every value received once, in order, until it is closed and drained
              LET st1 == NewScope(r.st, s)
                  items == IF r.v.t = "map" /\ Len(n.vs) = 1 THEN [j \in 1..Len(r.v.l) |-> r.v.l[j].l[1]] ELSE r.v.l IN   \* one variable over a map: the keys
              ForIn(n, items, 1, Top(st1), s, st1)
         ELSE IF r.v.t \in {"int", "nil", "bool", "str", "flt", "func"} THEN Thr(r.st, RtErrV("forin"))
         ELSE Norm(MarkOpen(r.st), OpenV)
    [] n.k = "switch" ->
         LET st1 == NewScope(st, s)
             ns == Top(st1)
             r == EvalE(n.e, ns, st1) IN
         IF r.o # "norm" THEN r ELSE Cases(n, r.v, 1, ns, r.st)
    [] n.k = "try" ->
         LET st1 == NewScope(st, s)
             ns == Top(st1)
             b == ExecList(n.b, 1, ns, st1)
             caught == b.o = "thr" \/ ("TrySwallowsReturn" \in Dev /\ b.o = "ret") IN
         IF b.o = "fuel" THEN b
         ELSE IF IsSignal(b.o) /\ ~caught THEN
              (IF Len(n.f) = 0 THEN b
               ELSE IF b.o = "ret" THEN R(MarkOpen(b.st), b.o, b.v)             \* finally on a return: open
               ELSE JumpThroughFinally(n, ns, b))                              \* break / continue: the jump itself is decided (C08); whether finally runs first is a reading (Dev)
         ELSE IF caught THEN
              LET ev == IF b.o = "thr" THEN b.v ELSE RtErrV("signal")
                  st2 == IF n.cv # "" THEN DefineIn(b.st, ns, n.cv, ev) ELSE b.st
                  c == ExecList(n.c, 1, ns, st2) IN
              IF c.o # "norm" THEN (IF Len(n.f) = 1 /\ c.o \in {"brk", "cnt"} THEN JumpThroughFinally(n, ns, c)
                                    ELSE IF Len(n.f) = 1 /\ c.o # "thr" THEN R(MarkOpen(c.st), c.o, c.v) ELSE c)   \* an error raised by the catch block is uncaught: nothing after the
                                                                                                   \* failing point runs, so finally does not; finally after a catch left by return/break/continue: open
              ELSE IF Len(n.f) = 1 THEN ExecList(n.f[1], 1, ns, c.st) ELSE Norm(c.st, OpenV)
         ELSE IF Len(n.f) = 1 THEN ExecList(n.f[1], 1, ns, b.st) ELSE Norm(b.st, OpenV)
    [] n.k = "delete" ->   \* delete(m, k): the map, then the key, each once; delete("name") unbinds the name in the CURRENT block only,
                           \* delete("name", true) the nearest binding.  (Containers are values here: the map must be held by a name.)
         LET it == EvalE(n.e, s, st) IN
         IF it.o # "norm" THEN it
         ELSE LET kr == IF Len(n.key) = 1 THEN EvalE(n.key[1], s, it.st) ELSE Norm(it.st, NoneV) IN
              IF kr.o # "norm" THEN kr
              ELSE CASE it.v.t = "str" ->
                          LET w == IF kr.v.t = "bool" /\ kr.v.i = 1 THEN Nearest(kr.st, s, it.v.s) ELSE s IN
                          IF kr.v.t \notin {"bool", "none"} THEN Norm(MarkOpen(kr.st), OpenV)
                          ELSE IF w = 0 \/ it.v.s \notin DOMAIN kr.st.sc[w].vars THEN Norm(kr.st, NilV)
                          ELSE Norm([kr.st EXCEPT !.sc[w].vars = [m \in DOMAIN @ \ {it.v.s} |-> @[m]]], NilV)
                     [] it.v.t = "map" ->
                          IF Len(n.key) = 0 THEN Thr(kr.st, RtErrV("delete"))
                          ELSE IF n.e.k # "id" THEN Norm(MarkOpen(kr.st), OpenV)
                          ELSE IF kr.v.t \in {"list", "map"} THEN Thr(kr.st, RtErrV("unhashable"))
                          ELSE IF kr.v.t \notin {"int", "str", "bool", "nil"} THEN Norm(MarkOpen(kr.st), OpenV)
                          ELSE Norm(Assign(kr.st, s, n.e.n, MapV(SelectSeq(it.v.l, LAMBDA en : ~EqV(en.l[1], kr.v)))), NilV)
                     [] it.v.t \in {"nil", "int", "bool", "flt", "func", "list"} -> Thr(kr.st, RtErrV("delete"))
                     [] OTHER -> Norm(MarkOpen(kr.st), OpenV)
    [] n.k = "module" ->
         LET st1 == NewScope(st, s)
             ns == Top(st1)
             st2 == DefineIn(st1, s, n.n, ModV(ns))
             b == ExecList(n.b, 1, ns, st2) IN
         IF b.o = "norm" THEN Norm(b.st, NilV) ELSE b
    [] n.k = "defer" ->
         IF n.e.k = "call" THEN
              LET f == Lookup(st, s, n.e.n) IN
              IF f.t = "none" THEN Thr(st, RtErrV("undefined")) ELSE CallV(f, n.e, s, st, TRUE)
         ELSE LET f == EvalE(n.e.f, s, st) IN
              IF f.o # "norm" THEN f ELSE CallV(f.v, n.e, s, f.st, TRUE)

----------------------------------------------------------------------------
(* a whole run: top-level scope with the host probes, top-level defer list *)
\* what the host binds in the outermost scope: the probe functions, and two nil containers of concrete Go types (hnm: map[string]int64(nil),
\* hnl: []int64(nil)) -- to a script an empty map and an empty list, which grow by being stored back into the binding that holds them
HostNames == {"p", "pv", "pn", "pa", "pp", "ch", "pe", "pt", "hnm", "hnl"}
InitStateX(fuel, ext) ==
  [ext |-> ext, extsc |-> 1, sc |-> <<[par |-> 0, vars |-> [n \in HostNames |-> IF n = "hnm" THEN MapV(<<>>) ELSE IF n = "hnl" THEN ListV(<<>>) ELSE HostV(n)]]>>,
   log |-> <<>>, fuel |-> fuel, fns |-> <<>>, ds |-> <<<<>>>>, open |-> FALSE]
InitState(fuel) == InitStateX(fuel, {})

\* result projection: class of the outcome, value, probe log, top-level bindings
RECURSIVE ProjV(_)
ProjV(v) == IF v.t \in {"list", "map"} THEN [t |-> v.t, i |-> 0, s |-> "", l |-> [j \in 1..Len(v.l) |-> ProjV(v.l[j])]]
            ELSE IF v.t \in {"func", "mod", "host"} THEN [t |-> v.t, i |-> 0, s |-> "", l |-> <<>>]
            ELSE v

\* ext: the names an external lookup installed by the host on the outermost scope resolves (each to the integer 99).  A name the script
\* binds anywhere on the way out wins; only a name no enclosing scope binds reaches the lookup.
\* inner: the lookup sits on a scope nested in the host's outermost one -- where the host has also bound the names it resolves, to 50 -- and
\* the script runs in that nested scope (its bindings are the top-level bindings of the run)
RunXI(prog, fuel, ext, inner) ==
  LET base == InitStateX(fuel, ext)
      st0 == IF ~inner THEN base
             ELSE [base EXCEPT !.extsc = 2,
                               !.sc = <<[par |-> 0, vars |-> [n \in HostNames \cup ext |-> IF n \in ext THEN IntV(50) ELSE @[1].vars[n]]], [par |-> 1, vars |-> EmptyVars]>>]
      ts == IF inner THEN 2 ELSE 1
      b == ExecList(prog, 1, ts, st0) IN
  IF b.o = "fuel" THEN [cls |-> "fuel", v |-> NilV, log |-> <<>>, top |-> <<>>, open |-> TRUE]
  ELSE LET dl == b.st.ds[1]
           d == RunDefers([b.st EXCEPT !.ds = <<>>], dl, Len(dl), b, NoneV) IN
       IF d.o = "fuel" THEN [cls |-> "fuel", v |-> NilV, log |-> <<>>, top |-> <<>>, open |-> TRUE]
       ELSE LET names == DOMAIN d.st.sc[ts].vars \ HostNames IN
            [cls |-> CASE d.o \in {"norm", "ret"} -> "ok" [] d.o = "thr" -> "err" [] OTHER -> "strayloopctl",
             v |-> IF d.o = "ret" THEN ProjV(d.v) ELSE IF d.o = "thr" THEN d.v ELSE OpenV,
             log |-> [j \in 1..Len(d.st.log) |-> ProjV(d.st.log[j])],
             top |-> [n \in names |-> ProjV(d.st.sc[ts].vars[n])],
             open |-> d.st.open]
RunX(prog, fuel, ext) == RunXI(prog, fuel, ext, FALSE)
Run(prog, fuel) == RunX(prog, fuel, {})
=============================================================================
