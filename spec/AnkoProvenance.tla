---------------------------- MODULE AnkoProvenance ----------------------------
(***************************************************************************)
(* A value behaves the same wherever it came from (property C20).          *)
(*                                                                         *)
(* An operand expression is a variable (bound to the value) passed through *)
(* a chain of provenance hops, each of which is semantically the identity: *)
(*   elem    [x][0]                 mapent  {"k": x}["k"]                  *)
(*   scall   (func() { return x })()      gocall  id(x)   -- a Go function *)
(*   gocall2 id2(x)[0]  -- a Go function with two results                  *)
(*   paren   (x)     tern  (true ? x : nil)     nilco  (x ?? nil)          *)
(*                                       declared to return interface{}   *)
(* A template is a script with one hole for the operand.  The law: for     *)
(* every template T, value v and chain c,  Outcome(T[c(v)]) = Outcome(T[v])*)
(* (same value, same dynamic type, same error-or-success).  TLC enumerates *)
(* templates x values x chains, builds the script text, and validates the  *)
(* outcomes observed on the real interpreter against the law.              *)
(***************************************************************************)
EXTENDS Integers, Sequences, TLC

Provs == {"elem", "mapent", "scall", "gocall", "gocall2", "paren", "tern", "nilco"}
\* the value read out of a NAMED container that stays reachable (hl_<v> = [<v>], hm_<v> = {"k": <v>}); only directly on the variable
NamedProvs == {"nelem", "nmapent", "ntelem"}         \* ntelem: ht_<v> = a TYPED list []T{<v>} (T the Go type of the value)

Hop(p, s) == CASE p = "elem"   -> "[" \o s \o "][0]"
               [] p = "mapent" -> "{\"k\": " \o s \o "}[\"k\"]"
               [] p = "scall"  -> "(func() { return " \o s \o " })()"
               [] p = "gocall" -> "id(" \o s \o ")"
               [] p = "gocall2" -> "id2(" \o s \o ")[0]"      \* the first of the two results of a Go function (interface{}, error)
               [] p = "paren"  -> "(" \o s \o ")"
               [] p = "tern"   -> "(true ? " \o s \o " : nil)"
               [] p = "nilco"  -> "(" \o s \o " ?? nil)"
               [] p = "nelem"  -> "hl_" \o s \o "[0]"
               [] p = "nmapent" -> "hm_" \o s \o ".k"
               [] p = "ntelem" -> "ht_" \o s \o "[0]"

RECURSIVE Apply(_, _, _)
Apply(chain, i, s) == IF i > Len(chain) THEN s ELSE Apply(chain, i + 1, Hop(chain[i], s))
Operand(var, chain) == Apply(chain, 1, var)

ChainsUpTo(n) == UNION {[1..k -> Provs] : k \in 0..n}
                 \cup {<<q>> \o ch : q \in NamedProvs, ch \in UNION {[1..k -> Provs] : k \in 0..(n - 1)}}

\* the law, on one observation: the outcome with the chain equals the outcome with the bare variable
Law(o) == o.got = o.base
=============================================================================
