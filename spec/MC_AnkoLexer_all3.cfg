SPECIFICATION Spec
CONSTANTS
  Alphabet = {"a", "e", "x", "1", "0", "q", "t", "k", "n", "s", "h", "/", "*", "=", "<", "-", ".", "+", "(", "$"}
  MinLen = 0
  MaxLen = 3
CHECK_DEADLOCK FALSE
