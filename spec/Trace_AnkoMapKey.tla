---------------------------- MODULE Trace_AnkoMapKey ----------------------------
(* AnkoContainers' map operations MapSet / MapGet_ / MapDel_ take the SAME key value: which entry a key expression addresses does not depend on the         *)
(* operation.  The implementation converts the key operand to the map's key type in three places (store, read, delete); this trace specification judges,   *)
(* for every key type of a typed map x kind of key operand x statement form, that the three agree: after a store that succeeded, the same key expression  *)
(* reads the stored value, the map holds one entry, and delete with that key expression removes it (then it reads nil).  Whether a key operand can be     *)
(* converted at all (stored = FALSE) is not this law's business.                                                                                         *)
EXTENDS Integers, Sequences, TLC, Json
Obs == ndJsonDeserialize("keylaw_obs.ndjson")
OK(o) == /\ ~o.panicked
         /\ o.stored => (o.read_ok /\ o.len1 /\ o.deleted_ok)
VARIABLE l
Init == l = 1 /\ TLCSet(1, 1)
Step == l <= Len(Obs) /\ (IF OK(Obs[l]) THEN TRUE ELSE PrintT(<<"REJECT", l>>)) /\ l' = l + 1
Spec == Init /\ [][Step]_l
HighWater == TLCSet(1, IF l > TLCGet(1) THEN l ELSE TLCGet(1))
Accepted == PrintT(<<"REACHED", TLCGet(1), Len(Obs)>>) /\ TLCGet(1) = Len(Obs) + 1
=============================================================================
