SPECIFICATION Spec
CONSTANTS
  MaxStages = 3
  Caps = {0, 1, 2, 3}
  ItemSeqs <- SeqsT
  Variant = "code"
INVARIANTS FIFO CollectedPrefix DeliversAll NoSendAfterClose
PROPERTIES Terminates
CHECK_DEADLOCK TRUE
