SPECIFICATION Spec
CONSTANTS
  Depth = 2
  RootKinds = {}
CHECK_DEADLOCK FALSE
