SPECIFICATION Spec
CONSTANTS
  Shard = "one"
CHECK_DEADLOCK FALSE
