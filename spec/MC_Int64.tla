------------------------------ MODULE MC_Int64 ------------------------------
(* The limb arithmetic of Int64 model-checked at reduced width against TLC's native integers:              *)
(* W = 1: all 65 536 operand pairs, every operator.  W = 2: all pairs from an edge pool.                   *)
EXTENDS Int64, TLC

CONSTANT Pool         \* operand values as native integers (signed, within the width)

PoolW1 == (0-128)..127
PoolW1q == {0-128, 0-127, 0-100, 0-65, 0-64, 0-63, 0-17, 0-16, 0-10, 0-9, 0-8, 0-7, 0-3, 0-2, 0-1, 0, 1, 2, 3, 5, 7, 8, 9, 10, 15, 16, 17, 31, 32, 63, 64, 65, 99, 100, 126, 127}
PoolW2 == {0-32768, 0-32767, 0-16385, 0-16384, 0-4097, 0-257, 0-256, 0-255, 0-129, 0-128, 0-17, 0-16, 0-15, 0-3, 0-2, 0-1, 0, 1, 2, 3, 7, 8, 9, 10, 15, 16, 17, 99, 100, 127, 128, 129, 255, 256, 257, 1000, 4095, 4096, 4097, 9999, 10000, 16383, 16384, 32766, 32767}
PoolW2q == {0-32768, 0-32767, 0-257, 0-256, 0-129, 0-128, 0-16, 0-3, 0-1, 0, 1, 2, 7, 10, 16, 17, 127, 128, 255, 256, 257, 4095, 4096, 10000, 32766, 32767}
VARIABLES a, b, ok
Mod == IF W = 1 THEN 256 ELSE 65536
Half == Mod \div 2
Wrap(x) == ((x + Half) % Mod) - Half
Signed(l) == LET u == IF W = 1 THEN l[1] ELSE l[1] + 256 * l[2] IN IF u >= Half THEN u - Mod ELSE u
Unsigned(l) == IF W = 1 THEN l[1] ELSE l[1] + 256 * l[2]
AbsN(x) == IF x < 0 THEN 0 - x ELSE x
SignN(x) == IF x < 0 THEN 0 - 1 ELSE 1
TruncDiv(x, y) == SignN(x) * SignN(y) * (AbsN(x) \div AbsN(y))
RECURSIVE Pow2(_)
Pow2(n) == IF n = 0 THEN 1 ELSE 2 * Pow2(n - 1)

Init == a \in Pool /\ b \in Pool /\ ok = "todo"

A == FromInt(a)
B == FromInt(b)
ShiftCount == Unsigned(B)        \* the count is the UNSIGNED reading of b

RoundTrip == Signed(A) = a
AddOK == Signed(Add(A, B)) = Wrap(a + b)
SubOK == Signed(Sub(A, B)) = Wrap(a - b)
NegOK == Signed(Neg(A)) = Wrap(0 - a)
MulOK == Signed(Mul(A, B)) = Wrap(a * b)
NotOK == Signed(NotB(A)) = (0 - a) - 1
BitsOK == \A i \in 1..NB : BitOf(A, i) \in {0, 1}
\* bitwise laws that determine and/or/xor:  a + b = (a xor b) + 2 (a and b);  a or b = (a xor b) + (a and b);  and is idempotent, zero-absorbing
BitwiseOK == /\ Wrap(a + b) = Wrap(Signed(Xor(A, B)) + 2 * Signed(And(A, B)))
             /\ Signed(Or(A, B)) = Wrap(Signed(Xor(A, B)) + Signed(And(A, B)))
             /\ And(A, A) = A /\ And(A, Zero) = Zero /\ And(A, NotB(A)) = Zero /\ Or(A, NotB(A)) = MinusOne
             /\ And(A, B) = And(B, A) /\ Xor(A, A) = Zero
             /\ NotB(And(A, B)) = Or(NotB(A), NotB(B))
ShlOK == Signed(Shl(A, B)) = IF ShiftCount >= NB THEN 0 ELSE Wrap(a * Pow2(ShiftCount))
ShrOK == Signed(Shr(A, B)) = IF ShiftCount >= NB THEN (IF a < 0 THEN 0 - 1 ELSE 0) ELSE a \div Pow2(ShiftCount)
LtOK == Lt(A, B) = (a < b) /\ Le(A, B) = (a <= b)
RemOK == b # 0 => /\ Signed(Rem(A, B)) = a - b * TruncDiv(a, b)
                  /\ Signed(Quo(A, B)) = Wrap(TruncDiv(a, b))
DecOK == ToDecimal(A) = ToString(a)
AllOK == RoundTrip /\ AddOK /\ SubOK /\ NegOK /\ MulOK /\ NotOK /\ BitsOK /\ BitwiseOK /\ ShlOK /\ ShrOK /\ LtOK /\ RemOK /\ DecOK
\* the checks run in the Next step so that TLC's workers share them
Next == ok = "todo" /\ ok' = (IF AllOK THEN "ok" ELSE "bad") /\ UNCHANGED <<a, b>>
Spec == Init /\ [][Next]_<<a, b, ok>>
Checked == ok # "bad"
\* negative control: a deliberately wrong law must be refuted
WrongMul == ok = "todo" \/ Signed(Mul(A, B)) = Wrap(a * b + (IF a = 3 /\ b = 5 THEN 1 ELSE 0))
=============================================================================
