----------------------------- MODULE MC_AnkoChan -----------------------------
EXTENDS AnkoChan, Json
Seqs == {<<>>, <<1>>, <<1, 2>>, <<1, 2, 3>>, <<2, 1, 2>>}
SeqsT == Seqs \cup {<<1, 2, 3, 4>>, <<3, 3, 1, 2>>}
\* emission of the expected outcome per configuration (once, at termination)
EmitDone == AllDone => PrintT(ToJson([ns |-> NStages, cap |-> Cap, items |-> Items, expected |-> Expected]))
=============================================================================
