SPECIFICATION Spec
INVARIANTS NeverCrashes ReturnsSomething
CHECK_DEADLOCK FALSE
