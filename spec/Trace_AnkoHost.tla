----------------------------- MODULE Trace_AnkoHost -----------------------------
EXTENDS AnkoHost, Json
Obs == ndJsonDeserialize("host_obs.ndjson")
VARIABLE l
TInit == l = 1 /\ TLCSet(1, 1) /\ phase = "idle" /\ result = "none"
TStep == l <= Len(Obs) /\ (IF Accept(Obs[l]) THEN TRUE ELSE PrintT(<<"REJECT", l>>)) /\ l' = l + 1 /\ UNCHANGED vars
TSpec == TInit /\ [][TStep]_<<l, vars>>
HighWater == TLCSet(1, IF l > TLCGet(1) THEN l ELSE TLCGet(1))
Accepted == PrintT(<<"REACHED", TLCGet(1), Len(Obs)>>) /\ TLCGet(1) = Len(Obs) + 1
=============================================================================
