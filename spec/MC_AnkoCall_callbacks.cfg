SPECIFICATION Spec
CONSTANTS
  Shard = "callbacks"
CHECK_DEADLOCK FALSE
