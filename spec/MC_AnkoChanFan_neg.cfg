SPECIFICATION Spec
CONSTANTS
  W = 2
  Cap = 1
  Items <- Items3
  Variant = "RecvAfterCloseYieldsZero"
INVARIANTS ExactlyOnce NeverMore NoSendOnClosed
PROPERTIES Terminates
