SPECIFICATION Spec
CONSTANTS
  MaxStages = 2
  Caps = {0, 1, 2}
  ItemSeqs <- Seqs
  Variant = "code"
INVARIANTS FIFO CollectedPrefix DeliversAll NoSendAfterClose
PROPERTIES Terminates
CHECK_DEADLOCK TRUE
