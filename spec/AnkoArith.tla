------------------------------ MODULE AnkoArith ------------------------------
(***************************************************************************)
(* The arithmetic tower of anko (property C05): which operation is carried *)
(* out on which converted operands, for every operator and operand kind.   *)
(* Integer results are computed here, bit-exactly, by Int64 (W = 8).       *)
(* float64 arithmetic, float formatting and int->float rounding cannot be  *)
(* expressed in TLA+; they appear as PRIMITIVE TERMS                       *)
(*     [t |-> "prim", op |-> "FAdd", x |-> term, y |-> term]               *)
(* whose leaves are the operands (an int leaf means float64(int64)); the   *)
(* conformance harness interprets the primitive with Go's own float64.     *)
(* What the C05 statement does not mention yields "open".                  *)
(* Operands: [t |-> "int", l |-> 8 bytes] | [t |-> "flt", l |-> 8 IEEE     *)
(* bytes (opaque here)] | [t |-> "str", s |-> text].                       *)
(***************************************************************************)
EXTENDS Integers, Sequences, TLC

I == INSTANCE Int64 WITH W <- 8

Val(t, l, s) == [t |-> t, l |-> l, s |-> s]
IntV(l) == Val("int", l, "")
StrV(s) == Val("str", <<>>, s)
BoolV(b) == Val("bool", <<IF b THEN 1 ELSE 0>>, "")
ErrV == Val("err", <<>>, "")
OpenV == Val("open", <<>>, "")
Prim(op, x, y) == [t |-> "prim", op |-> op, x |-> x, y |-> y, l |-> <<>>, s |-> ""]
None == Val("none", <<>>, "")

IsInt(v) == v.t = "int"
IsFlt(v) == v.t = "flt"
IsStr(v) == v.t = "str"
IsNum(v) == IsInt(v) \/ IsFlt(v)
IsNumeralStr(v) == v.t = "str" /\ v.s \in {"7", "12", "3"}        \* the decimal numerals of the string pool

\* small repeat counts only (astronomically large allocations are outside the guarantee)
SmallNat(l) == IF \A i \in 3..8 : l[i] = 0 THEN l[1] + 256 * l[2] ELSE 70000
RECURSIVE Repeat(_, _)
Repeat(s, n) == IF n = 0 THEN "" ELSE s \o Repeat(s, n - 1)

FloatOp == [add |-> "FAdd", sub |-> "FSub", mul |-> "FMul"]

Binary(op, a, b) ==
  CASE IsInt(a) /\ IsInt(b) ->
         (CASE op = "+"  -> IntV(I!Add(a.l, b.l))
            [] op = "-"  -> IntV(I!Sub(a.l, b.l))
            [] op = "*"  -> IntV(I!Mul(a.l, b.l))
            [] op = "/"  -> Prim("FDiv", a, b)                          \* always the float64 quotient
            [] op = "%"  -> IF I!IsZero(b.l) THEN ErrV ELSE IntV(I!Rem(a.l, b.l))
            [] op = "&"  -> IntV(I!And(a.l, b.l))
            [] op = "|"  -> IntV(I!Or(a.l, b.l))
            [] op = "<<" -> IntV(I!Shl(a.l, b.l))                       \* count taken as unsigned
            [] op = ">>" -> IntV(I!Shr(a.l, b.l))
            [] op = "<"  -> BoolV(I!Lt(a.l, b.l))
            [] op = "<=" -> BoolV(I!Le(a.l, b.l))
            [] op = ">"  -> BoolV(I!Lt(b.l, a.l))
            [] op = ">=" -> BoolV(I!Le(b.l, a.l))
            [] op = "==" -> BoolV(a.l = b.l)
            [] op = "!=" -> BoolV(a.l # b.l)
            [] OTHER -> OpenV)
    [] IsNum(a) /\ IsNum(b) ->                                          \* at least one float: carried out in float64
         (CASE op = "+"  -> Prim("FAdd", a, b)
            [] op = "-"  -> Prim("FSub", a, b)
            [] op = "*"  -> Prim("FMul", a, b)
            [] op = "/"  -> Prim("FDiv", a, b)
            [] op = "<"  -> Prim("FLt", a, b)
            [] op = "<=" -> Prim("FLe", a, b)
            [] op = ">"  -> Prim("FLt", b, a)
            [] op = ">=" -> Prim("FLe", b, a)
            [] OTHER -> OpenV)                                          \* % & | << >> on floats, == (C06): not stated here
    \* "as soon as one operand is a float": also when the other one is a string that is a decimal numeral (it is read as that number)
    [] IsNumeralStr(a) /\ IsFlt(b) /\ op = "-" -> Prim("FSub", a, b)
    [] IsFlt(a) /\ IsNumeralStr(b) /\ op = "-" -> Prim("FSub", a, b)
    [] IsStr(a) /\ IsStr(b) /\ op = "+" -> StrV(a.s \o b.s)
    [] IsStr(a) /\ IsInt(b) /\ op = "+" -> StrV(a.s \o I!ToDecimal(b.l))
    [] IsInt(a) /\ IsStr(b) /\ op = "+" -> StrV(I!ToDecimal(a.l) \o b.s)
    [] IsStr(a) /\ IsFlt(b) /\ op = "+" -> Prim("ConcatSF", a, b)       \* s ++ Go's default formatting of the float
    [] IsFlt(a) /\ IsStr(b) /\ op = "+" -> Prim("ConcatFS", a, b)
    [] IsStr(a) /\ IsInt(b) /\ op = "*" ->
         IF I!IsNeg(b.l) THEN ErrV
         ELSE IF SmallNat(b.l) <= 6 THEN StrV(Repeat(a.s, SmallNat(b.l))) ELSE OpenV
    [] OTHER -> OpenV

Unary(op, a) ==
  CASE op = "-" /\ IsInt(a) -> IntV(I!Neg(a.l))
    [] op = "-" /\ IsFlt(a) -> Prim("FNeg", a, None)
    [] op = "^" /\ IsInt(a) -> IntV(I!NotB(a.l))
    [] OTHER -> OpenV

\* algebraic sanity of the dispatch itself (checked by TLC over the pools)
ResultKindOK(op, a, b) ==
  LET r == Binary(op, a, b) IN
  /\ (IsInt(a) /\ IsInt(b) /\ op \in {"+", "-", "*", "&", "|", "<<", ">>"}) => r.t = "int"
  /\ (IsInt(a) /\ IsInt(b) /\ op = "%") => r.t \in {"int", "err"}
  /\ (IsNum(a) /\ IsNum(b) /\ op = "/") => (r.t = "prim" /\ r.op = "FDiv")
  /\ (IsNum(a) /\ IsNum(b) /\ (IsFlt(a) \/ IsFlt(b)) /\ op \in {"+", "-", "*"}) => r.t = "prim"
  /\ (IsInt(a) /\ IsInt(b) /\ op \in {"<", "<=", ">", ">=", "==", "!="}) => r.t = "bool"
\* integer laws tying the operators together (wrap-around ring, order, shifts)
IntLaws(a, b) ==
  /\ I!Sub(I!Add(a, b), b) = a
  /\ I!Add(a, b) = I!Add(b, a)
  /\ I!Mul(a, b) = I!Mul(b, a)
  /\ I!Lt(a, b) => ~I!Lt(b, a)
  /\ (a # b) => (I!Lt(a, b) \/ I!Lt(b, a))
  /\ (~I!IsZero(b)) => I!Add(I!Mul(I!Quo(a, b), b), I!Rem(a, b)) = a
  /\ I!Add(I!And(a, b), I!Or(a, b)) = I!Add(a, b)
=============================================================================
