------------------------------ MODULE AnkoCancel ------------------------------
(***************************************************************************)
(* Cancellation of a running script (property C02), as an abstract thread  *)
(* of the interpreter inside a stack of wrapping constructs.               *)
(*                                                                         *)
(* wrappers (outermost first) from                                         *)
(*   "fn"      script function boundary: an interrupt leaving it becomes   *)
(*             an ordinary error carrying the interrupt message            *)
(*   "try"     try body: catches ordinary errors, lets the interrupt pass  *)
(*   "nilco"   left operand of ??: clears a failure -- unless the run has  *)
(*             been cancelled, which it checks itself (so that the         *)
(*             interruption is reported even when nothing follows the ??)  *)
(*   "defer"   the core runs in a deferred call of an invocation that ended*)
(*             by return (the deferred call's error becomes the result)    *)
(*   "block"   catch / finally / module / loop / branch body: passes        *)
(* The core spins (or blocks): each iteration or wait is a poll of the     *)
(* context.  After a wrapper swallowed a failure, execution resumes at the *)
(* next statement entry or loop head -- again a poll.  Cancel may happen   *)
(* at any moment.                                                          *)
(* Properties: NoSwallow (once a poll has seen the cancellation no further *)
(* script effect happens), Interrupted (cancelled ~> finished with the     *)
(* interrupt error) under weak fairness of the thread, ResultIsInterrupt.  *)
(* Variants are wrong designs used as negative controls:                   *)
(*   "NoResumePoll"  nothing polls after a swallowed failure               *)
(*   "DeferDrops"    the error of a deferred call is dropped after return  *)
(***************************************************************************)
EXTENDS Integers, Sequences, TLC

CONSTANTS Wrappers,     \* set of wrapper stacks (sequences) to explore
          Variant

VARIABLES ws,         \* this behaviour's wrapper stack
          level,      \* index of the innermost wrapper still on the stack (0 = top level)
          phase,      \* "spin" | "unwind" | "resume" | "done"
          err,        \* "none" | "sentinel" | "wrapped"
          cancelled, observed,
          effects, effectsAtObserve
vars == <<ws, level, phase, err, cancelled, observed, effects, effectsAtObserve>>

Init == /\ ws \in Wrappers /\ level = Len(ws) /\ phase = "spin" /\ err = "none"
        /\ cancelled = FALSE /\ observed = FALSE /\ effects = 0 /\ effectsAtObserve = 0

Cancel == ~cancelled /\ cancelled' = TRUE /\ UNCHANGED <<ws, level, phase, err, observed, effects, effectsAtObserve>>

Observe == /\ observed' = TRUE /\ effectsAtObserve' = (IF observed THEN effectsAtObserve ELSE effects)

\* one iteration / one wait of the core: a poll, then (if not cancelled) one script effect
Spin == /\ phase = "spin"
        /\ IF cancelled
           THEN err' = "sentinel" /\ phase' = "unwind" /\ Observe /\ UNCHANGED effects
           ELSE effects' = (IF effects < 2 THEN effects + 1 ELSE effects) /\ UNCHANGED <<err, phase, observed, effectsAtObserve>>
        /\ UNCHANGED <<ws, level, cancelled>>

\* the failure reaches the next enclosing wrapper
Unwind == /\ phase = "unwind"
          /\ IF level = 0 THEN phase' = "done" /\ UNCHANGED <<level, err>>
             ELSE LET w == ws[level] IN
                  CASE w = "fn"    -> err' = "wrapped" /\ level' = level - 1 /\ phase' = "unwind"
                    [] w = "try"   -> IF err = "wrapped" THEN err' = "none" /\ level' = level - 1 /\ phase' = "resume"
                                      ELSE level' = level - 1 /\ UNCHANGED <<err, phase>>
                    [] w = "nilco" -> IF cancelled /\ Variant # "NilcoSwallows"                 \* ?? looks at the context before it falls back: a cancelled left operand is not a failure to recover from
                                      THEN err' = "sentinel" /\ level' = level - 1 /\ phase' = "unwind"
                                      ELSE err' = "none" /\ level' = level - 1 /\ phase' = "resume"
                    [] w = "defer" -> \* deferred calls are the last thing an invocation does: at the outermost level the run ends here
                                      IF Variant = "DeferDrops" THEN err' = "none" /\ level' = level - 1 /\ phase' = (IF level = 1 THEN "done" ELSE "resume")
                                      ELSE err' = "wrapped" /\ level' = level - 1 /\ phase' = "unwind"
                    [] OTHER       -> level' = level - 1 /\ UNCHANGED <<err, phase>>
          /\ UNCHANGED <<ws, cancelled, observed, effects, effectsAtObserve>>

\* execution continues after a swallowed failure: the next statement entry / loop head polls
Resume == /\ phase = "resume"
          /\ IF Variant = "NoResumePoll"
             THEN /\ effects' = (IF effects < 2 THEN effects + 1 ELSE effects)
                  /\ (IF level = 0 THEN phase' = "done" ELSE phase' = "spin") /\ UNCHANGED <<err, observed, effectsAtObserve>>
             ELSE IF cancelled THEN err' = "sentinel" /\ phase' = "unwind" /\ Observe /\ UNCHANGED effects
             ELSE phase' = "done" /\ UNCHANGED <<err, observed, effects, effectsAtObserve>>       \* (unreachable: a failure only arises after cancel)
          /\ UNCHANGED <<ws, level, cancelled>>

Thread == Spin \/ Unwind \/ Resume
Next == Thread \/ Cancel \/ (phase = "done" /\ UNCHANGED vars)
Spec == Init /\ [][Next]_vars /\ WF_vars(Thread)

NoSwallow == observed => effects = effectsAtObserve
ResultIsInterrupt == phase = "done" => err \in {"sentinel", "wrapped"}
Interrupted == cancelled ~> (phase = "done" /\ err \in {"sentinel", "wrapped"})
=============================================================================
