--------------------------- MODULE Trace_AnkoArith ---------------------------
(* code -> spec: (operator, int64 a, int64 b, result) tuples recorded from the real VM on random operands   *)
(* are accepted iff AnkoArith/Int64 computes the same result.                                               *)
EXTENDS AnkoArith, Json

Trace == ndJsonDeserialize("arith_trace.ndjson")
VARIABLE l
Init == l = 1 /\ TLCSet(1, 1)
LineOK(e) == LET r == Binary(e.op, IntV(e.a.l), IntV(e.b.l)) IN
             /\ r.t = e.got.t
             /\ (r.t \in {"int", "bool"} => r.l = e.got.l)
Step == l <= Len(Trace) /\ LineOK(Trace[l]) /\ l' = l + 1
Spec == Init /\ [][Step]_l
HighWater == TLCSet(1, IF l > TLCGet(1) THEN l ELSE TLCGet(1))
Accepted == PrintT(<<"REACHED", TLCGet(1), Len(Trace)>>) /\ TLCGet(1) = Len(Trace) + 1
=============================================================================
