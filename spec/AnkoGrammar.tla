----------------------------- MODULE AnkoGrammar -----------------------------
(***************************************************************************)
(* The expression grammar of anko as its operator table (property C03):    *)
(* loosest to tightest                                                     *)
(*   1  ?: and ??            right-associative                             *)
(*   2  ||      3  &&      4  == != < <= > >=      5  + - |                *)
(*   6  * / % << >> &        7  in                 (binary: left-assoc.)   *)
(*   8  unary - ! ^ & *      9  postfix call / index / slice / member      *)
(* Trees:  [k |-> "leaf", n] | [k |-> "bin", op, l, r] | [k |-> "un", op,  *)
(* e] | [k |-> "tern", c, a, b] | [k |-> "nilco", l, r] | [k |-> "idx", e, *)
(* i] | [k |-> "member", e, n] | [k |-> "call", e, a] | [k |-> "slice", e, *)
(* lo, hi] | [k |-> "slice3", e, lo, hi, c] (e[lo:hi:c]) | [k |->          *)
(* "slicelo", e, lo] (e[lo:]) | [k |-> "slicehi", e, hi] (e[:hi]).         *)
(* UnparseMin writes a tree with parentheses only where the table needs    *)
(* them, UnparseFull with every implied parenthesis explicit; ParseRef is  *)
(* an independent declarative parser (precedence climbing by level).  TLC  *)
(* checks ParseRef(UnparseMin(t)) = t = ParseRef(UnparseFull(t)) before    *)
(* the token strings are used as the oracle for the real parser.           *)
(***************************************************************************)
EXTENDS Integers, Sequences, TLC

BinLevel == [x \in {"||"} |-> 2] @@ [x \in {"&&"} |-> 3] @@ [x \in {"==", "!=", "<", "<=", ">", ">="} |-> 4]
            @@ [x \in {"+", "-", "|"} |-> 5] @@ [x \in {"*", "/", "%", "<<", ">>", "&"} |-> 6] @@ [x \in {"in"} |-> 7]
BinOps == DOMAIN BinLevel
UnOps == {"-", "!", "^", "&", "*"}

Leaf(n) == [k |-> "leaf", n |-> n]
Bin(op, l, r) == [k |-> "bin", op |-> op, l |-> l, r |-> r]
Un(op, e) == [k |-> "un", op |-> op, e |-> e]
Tern(c, a, b) == [k |-> "tern", c |-> c, a |-> a, b |-> b]
Nilco(l, r) == [k |-> "nilco", l |-> l, r |-> r]
Idx(e, i) == [k |-> "idx", e |-> e, i |-> i]
Member(e, n) == [k |-> "member", e |-> e, n |-> n]
CallE(e, a) == [k |-> "call", e |-> e, a |-> a]
Call0(e) == [k |-> "call0", e |-> e]                 \* e()   : a call without arguments
EList == [k |-> "elist"]                              \* []    : the empty list literal
Slice(e, lo, hi) == [k |-> "slice", e |-> e, lo |-> lo, hi |-> hi]
Slice3(e, lo, hi, c) == [k |-> "slice3", e |-> e, lo |-> lo, hi |-> hi, c |-> c]
SliceLo(e, lo) == [k |-> "slicelo", e |-> e, lo |-> lo]
SliceHi(e, hi) == [k |-> "slicehi", e |-> e, hi |-> hi]

Level(t) == CASE t.k = "bin" -> BinLevel[t.op]
              [] t.k \in {"tern", "nilco"} -> 1
              [] t.k = "un" -> 8
              [] OTHER -> 9

----------------------------------------------------------------------------
(* unparsing to token sequences *)
RECURSIVE Min(_), Full(_)
P(ts) == <<"(">> \o ts \o <<")">>
MinIf(t, need) == IF need THEN P(Min(t)) ELSE Min(t)
Min(t) ==
  CASE t.k = "leaf" -> <<t.n>>
    [] t.k = "bin" -> LET k == BinLevel[t.op] IN
         MinIf(t.l, Level(t.l) < k) \o <<t.op>> \o MinIf(t.r, Level(t.r) <= k)          \* left-associative
    [] t.k = "un" -> <<t.op>> \o MinIf(t.e, Level(t.e) < 8)
    [] t.k = "tern" -> MinIf(t.c, Level(t.c) <= 1) \o <<"?">> \o Min(t.a) \o <<":">> \o Min(t.b)     \* right-associative
    [] t.k = "nilco" -> MinIf(t.l, Level(t.l) <= 1) \o <<"??">> \o Min(t.r)
    [] t.k = "idx" -> MinIf(t.e, Level(t.e) < 9) \o <<"[">> \o Min(t.i) \o <<"]">>
    [] t.k = "member" -> MinIf(t.e, Level(t.e) < 9) \o <<".", t.n>>
    [] t.k = "call" -> MinIf(t.e, Level(t.e) < 9) \o <<"(">> \o Min(t.a) \o <<")">>
    [] t.k = "call0" -> MinIf(t.e, Level(t.e) < 9) \o <<"(", ")">>
    [] t.k = "elist" -> <<"[", "]">>
    [] t.k = "slice" -> MinIf(t.e, Level(t.e) < 9) \o <<"[">> \o Min(t.lo) \o <<":">> \o Min(t.hi) \o <<"]">>
    [] t.k = "slice3" -> MinIf(t.e, Level(t.e) < 9) \o <<"[">> \o Min(t.lo) \o <<":">> \o Min(t.hi) \o <<":">> \o Min(t.c) \o <<"]">>
    [] t.k = "slicelo" -> MinIf(t.e, Level(t.e) < 9) \o <<"[">> \o Min(t.lo) \o <<":", "]">>
    [] t.k = "slicehi" -> MinIf(t.e, Level(t.e) < 9) \o <<"[", ":">> \o Min(t.hi) \o <<"]">>
FullSub(t) == IF t.k \in {"leaf", "elist"} THEN Full(t) ELSE P(Full(t))
Full(t) ==
  CASE t.k = "leaf" -> <<t.n>>
    [] t.k = "bin" -> FullSub(t.l) \o <<t.op>> \o FullSub(t.r)
    [] t.k = "un" -> <<t.op>> \o FullSub(t.e)
    [] t.k = "tern" -> FullSub(t.c) \o <<"?">> \o FullSub(t.a) \o <<":">> \o FullSub(t.b)
    [] t.k = "nilco" -> FullSub(t.l) \o <<"??">> \o FullSub(t.r)
    [] t.k = "idx" -> FullSub(t.e) \o <<"[">> \o FullSub(t.i) \o <<"]">>
    [] t.k = "member" -> FullSub(t.e) \o <<".", t.n>>
    [] t.k = "call" -> FullSub(t.e) \o <<"(">> \o FullSub(t.a) \o <<")">>
    [] t.k = "call0" -> FullSub(t.e) \o <<"(", ")">>
    [] t.k = "elist" -> <<"[", "]">>
    [] t.k = "slice" -> FullSub(t.e) \o <<"[">> \o FullSub(t.lo) \o <<":">> \o FullSub(t.hi) \o <<"]">>
    [] t.k = "slice3" -> FullSub(t.e) \o <<"[">> \o FullSub(t.lo) \o <<":">> \o FullSub(t.hi) \o <<":">> \o FullSub(t.c) \o <<"]">>
    [] t.k = "slicelo" -> FullSub(t.e) \o <<"[">> \o FullSub(t.lo) \o <<":", "]">>
    [] t.k = "slicehi" -> FullSub(t.e) \o <<"[", ":">> \o FullSub(t.hi) \o <<"]">>

----------------------------------------------------------------------------
(* reference parser: recursive descent by level over token sequences; result [t, rest] (t.k = "fail" on error) *)
Fail == [k |-> "fail"]
Res(t, rest) == [t |-> t, rest |-> rest]
Hd(ts) == IF ts = <<>> THEN "EOF" ELSE Head(ts)
Names == {"a", "b", "c", "m"}
LitToks == {"1", "7", "true", "false", "nil", "\"s\""}      \* atoms of the other lexical classes: numbers, the three word literals, strings

RECURSIVE PExpr(_), PLevel(_, _), PLoop(_, _, _), PUnary(_), PPostfix(_), PPostLoop(_, _), PAtom(_)
PExpr(ts) ==                              \* level 1
  LET x == PLevel(2, ts) IN
  IF x.t.k = "fail" THEN x
  ELSE IF Hd(x.rest) = "??" THEN (LET y == PExpr(Tail(x.rest)) IN IF y.t.k = "fail" THEN y ELSE Res(Nilco(x.t, y.t), y.rest))
  ELSE IF Hd(x.rest) = "?" THEN
       (LET a == PExpr(Tail(x.rest)) IN
        IF a.t.k = "fail" \/ Hd(a.rest) # ":" THEN Res(Fail, <<>>)
        ELSE LET b == PExpr(Tail(a.rest)) IN IF b.t.k = "fail" THEN b ELSE Res(Tern(x.t, a.t, b.t), b.rest))
  ELSE x
PLevel(k, ts) ==                          \* binary levels 2..7, left-associative
  IF k = 8 THEN PUnary(ts)
  ELSE LET x == PLevel(k + 1, ts) IN IF x.t.k = "fail" THEN x ELSE PLoop(k, x.t, x.rest)
PLoop(k, acc, ts) ==
  IF Hd(ts) \in BinOps /\ BinLevel[Hd(ts)] = k
  THEN LET y == PLevel(k + 1, Tail(ts)) IN IF y.t.k = "fail" THEN y ELSE PLoop(k, Bin(Hd(ts), acc, y.t), y.rest)
  ELSE Res(acc, ts)
PUnary(ts) ==
  IF Hd(ts) \in UnOps THEN (LET x == PUnary(Tail(ts)) IN IF x.t.k = "fail" THEN x ELSE Res(Un(Hd(ts), x.t), x.rest))
  ELSE PPostfix(ts)
PPostfix(ts) == LET x == PAtom(ts) IN IF x.t.k = "fail" THEN x ELSE PPostLoop(x.t, x.rest)
PPostLoop(acc, ts) ==
  CASE Hd(ts) = "." -> IF Len(ts) >= 2 /\ ts[2] \in Names THEN PPostLoop(Member(acc, ts[2]), SubSeq(ts, 3, Len(ts))) ELSE Res(Fail, <<>>)
    [] Hd(ts) = "(" /\ Hd(Tail(ts)) = ")" -> PPostLoop(Call0(acc), Tail(Tail(ts)))
    [] Hd(ts) = "(" -> (LET a == PExpr(Tail(ts)) IN
                        IF a.t.k = "fail" \/ Hd(a.rest) # ")" THEN Res(Fail, <<>>) ELSE PPostLoop(CallE(acc, a.t), Tail(a.rest)))
    [] Hd(ts) = "[" ->
         IF Hd(Tail(ts)) = ":" THEN            \* e[:hi]
              (LET h == PExpr(Tail(Tail(ts))) IN
               IF h.t.k = "fail" \/ Hd(h.rest) # "]" THEN Res(Fail, <<>>) ELSE PPostLoop(SliceHi(acc, h.t), Tail(h.rest)))
         ELSE (LET i == PExpr(Tail(ts)) IN
               IF i.t.k = "fail" THEN i
               ELSE IF Hd(i.rest) = "]" THEN PPostLoop(Idx(acc, i.t), Tail(i.rest))
               ELSE IF Hd(i.rest) = ":" THEN
                    (IF Hd(Tail(i.rest)) = "]" THEN PPostLoop(SliceLo(acc, i.t), Tail(Tail(i.rest)))      \* e[lo:]
                     ELSE LET h == PExpr(Tail(i.rest)) IN
                          IF h.t.k = "fail" THEN h
                          ELSE IF Hd(h.rest) = "]" THEN PPostLoop(Slice(acc, i.t, h.t), Tail(h.rest))
                          ELSE IF Hd(h.rest) = ":" THEN (LET c == PExpr(Tail(h.rest)) IN
                               IF c.t.k = "fail" \/ Hd(c.rest) # "]" THEN Res(Fail, <<>>) ELSE PPostLoop(Slice3(acc, i.t, h.t, c.t), Tail(c.rest)))
                          ELSE Res(Fail, <<>>))
               ELSE Res(Fail, <<>>))
    [] OTHER -> Res(acc, ts)
PAtom(ts) ==
  IF Hd(ts) \in Names \cup LitToks THEN Res(Leaf(Hd(ts)), Tail(ts))
  ELSE IF Hd(ts) = "[" /\ Hd(Tail(ts)) = "]" THEN Res(EList, Tail(Tail(ts)))
  ELSE IF Hd(ts) = "(" THEN (LET x == PExpr(Tail(ts)) IN IF x.t.k = "fail" \/ Hd(x.rest) # ")" THEN Res(Fail, <<>>) ELSE Res(x.t, Tail(x.rest)))
  ELSE Res(Fail, <<>>)

ParseRef(ts) == LET x == PExpr(ts) IN IF x.t.k # "fail" /\ x.rest = <<>> THEN x.t ELSE Fail

TableConsistent(t) == ParseRef(Min(t)) = t /\ ParseRef(Full(t)) = t
=============================================================================
