------------------------------ MODULE AnkoWalker ------------------------------
(***************************************************************************)
(* astutil.Walk as a state machine (property C17).                         *)
(* A tree is a function  par : Node -> Node \cup {0}  (0 = no parent).     *)
(* State: visited (set of nodes presented), n (number of callback calls),  *)
(* status in "walking" | "done" | "failed", err in "nil" | "cb" | "other". *)
(*   Visit(x)   presents a node whose parent has been presented            *)
(*   Extra      presents something that is not a node of the tree (the     *)
(*              walker's synthetic call node): allowed, ignored            *)
(*   Fail       the callback returns an error on this call: the walk ends  *)
(*              at once with that error                                    *)
(*   Finish     enabled only when every node has been presented            *)
(* A recorded walk is accepted iff it is a behaviour of this machine.      *)
(***************************************************************************)
EXTENDS Integers, Sequences, FiniteSets

S0 == [visited |-> {}, n |-> 0, status |-> "walking", err |-> "nil"]

CanVisit(par, st, x) == st.status = "walking" /\ (par[x] = 0 \/ par[x] \in st.visited)
Visit(st, x) == [st EXCEPT !.visited = @ \cup {x}, !.n = @ + 1]
Extra(st) == [st EXCEPT !.n = @ + 1]
Fail(st) == [st EXCEPT !.status = "failed", !.err = "cb"]
CanFinish(par, st) == st.status = "walking" /\ DOMAIN par \subseteq st.visited
Finish(st) == [st EXCEPT !.status = "done"]

\* run a recorded walk: visits (node ids, 0 = synthetic), failat (0 = never; k = the k-th callback call returns an error),
\* returned error class.  "rejected" at the first step the machine does not allow.
RECURSIVE Run(_, _, _, _, _)
Run(par, visits, failat, i, st) ==
  IF i > Len(visits) THEN st
  ELSE LET x == visits[i]
           st1 == IF x = 0 THEN Extra(st)
                  ELSE IF x \in DOMAIN par /\ CanVisit(par, st, x) THEN Visit(st, x)
                  ELSE [st EXCEPT !.status = "rejected"] IN
       IF st.status # "walking" THEN [st EXCEPT !.status = "rejected"]        \* a callback call after the walk ended
       ELSE IF st1.status = "rejected" THEN st1
       ELSE IF failat = i THEN Run(par, visits, failat, i + 1, Fail(st1))
       ELSE Run(par, visits, failat, i + 1, st1)

Accept(rec) ==
  LET par == [x \in 1..Len(rec.par) |-> rec.par[x]]
      st == Run(par, rec.visits, rec.failat, 1, S0) IN
  IF rec.failat = 0
  THEN st.status = "walking" /\ CanFinish(par, st) /\ rec.err = "nil"          \* complete, and no error unless the callback's
  ELSE st.status = "failed" /\ rec.err = "cb" /\ Len(rec.visits) = rec.failat   \* stopped at once with the callback's error
=============================================================================
