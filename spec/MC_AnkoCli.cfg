SPECIFICATION Spec
INVARIANTS ExitZeroIffOK ExitCodes Unreadable OneDiagnostic
CHECK_DEADLOCK FALSE
