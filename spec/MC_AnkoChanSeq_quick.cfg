SPECIFICATION Spec
CONSTANTS
  MaxLen = 5
  Caps = {1, 2}
CHECK_DEADLOCK FALSE
