SPECIFICATION Spec
CONSTANTS
  MaxDepth = 3
  MaxDefers = 4
  MaxCalls = 3
  Variant = "FIFO"
INVARIANTS AtMostOnce ExactlyOnce LIFO InnerFirst
PROPERTIES Finishes
CHECK_DEADLOCK FALSE
