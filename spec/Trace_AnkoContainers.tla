-------------------------- MODULE Trace_AnkoContainers --------------------------
(* code -> spec: histories of container statements executed on the real interpreter (one persistent environment per trace)   *)
(* are accepted iff every statement's result and the projection after it (contents, len, cap, sharing of storage, map        *)
(* contents, struct fields) are what AnkoContainers allows; the capacity chosen by a growing append is taken from the log.    *)
EXTENDS AnkoContainers, Json

Trace == ndJsonDeserialize("cont_trace.ndjson")
Vars == {"a", "b", "c", "m", "n", "ta", "st", "s", "t", "tm", "sv", "su"}
SliceVars == {"a", "b", "c", "ta"}

VARIABLES st, l, skip
vars == <<st, l, skip>>
St0 == [arrs |-> <<>>, maps |-> <<>>, structs |-> <<>>, strs |-> <<>>, vars |-> [n \in Vars |-> NilV]]
Init == st = St0 /\ l = 1 /\ skip = FALSE /\ TLCSet(1, 1)

SameVal(x, y) == x.t = y.t /\ x.i = y.i /\ x.s = y.s
ToSet(q) == {q[i] : i \in 1..Len(q)}
PostOK(s, e) ==
  /\ \A n \in Vars : LET p == ProjVar(s, n)  g == e.post[n] IN
        /\ p.t = g.t /\ p.len = g.len /\ p.cap = g.cap
        /\ Len(p.elems) = Len(g.elems) /\ \A i \in 1..Len(p.elems) : SameVal(p.elems[i], g.elems[i])
  /\ \A i \in 1..Len(e.share) : LET h == e.share[i]  sp == Share(s, h.n, h.m) IN sp.same = h.same /\ (h.same => sp.d = h.d)
  /\ \A n \in {"m", "n", "tm"} : s.vars[n].t \in {"map", "tmap"} =>
        LET mm == s.maps[s.vars[n].r] IN
        /\ Len(mm) = Len(e.maps[n])
        /\ \A i \in 1..Len(mm) : \E j \in 1..Len(e.maps[n]) : SameVal(mm[i][1], e.maps[n][j][1]) /\ SameVal(mm[i][2], e.maps[n][j][2])
  /\ s.vars["st"].t = "struct" =>
        LET f == s.structs[s.vars["st"].r] IN
        /\ SameVal(f.A, e.fields.A) /\ SameVal(f.B, e.fields.B)
        /\ (f.M.t = "tmap") = (e.fields.M.t = "tmap")                       \* the map field holds a map / is nil
        /\ f.M.t = "tmap" => LET mm == s.maps[f.M.r] IN                       \* ... with exactly these entries
              /\ Len(mm) = Len(e.maps["stM"])
              /\ \A i \in 1..Len(mm) : \E j \in 1..Len(e.maps["stM"]) : SameVal(mm[i][1], e.maps["stM"][j][1]) /\ SameVal(mm[i][2], e.maps["stM"][j][2])

TStep ==
  /\ l <= Len(Trace)
  /\ LET e == Trace[l] IN
     IF e.ev = "reset" THEN st' = St0 /\ skip' = FALSE
     ELSE IF skip THEN UNCHANGED <<st, skip>> /\ PrintT(<<"SKIPPED", l>>)                  \* after a step the statement leaves open the rest of the trace is not judged
     ELSE LET cands == Step(st, e.o) IN
          IF \E c \in cands : c.res.k = "open" THEN skip' = TRUE /\ UNCHANGED st
          ELSE \E c \in cands :
                 /\ c.res.k = e.res.k
                 /\ (c.res.k = "val" => SameVal(c.res.v, e.res.v))
                 /\ (IF "nopost" \in DOMAIN e THEN TRUE ELSE PostOK(c.st, e))      \* IF, not \/: TLC explores both disjuncts of an action
                 /\ st' = c.st /\ skip' = FALSE
  /\ l' = l + 1
Spec == Init /\ [][TStep]_vars
HighWater == TLCSet(1, IF l > TLCGet(1) THEN l ELSE TLCGet(1))
Accepted == PrintT(<<"REACHED", TLCGet(1), Len(Trace)>>) /\ TLCGet(1) = Len(Trace) + 1
=============================================================================
