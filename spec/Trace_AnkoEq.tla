----------------------------- MODULE Trace_AnkoEq -----------------------------
(* code -> spec: for every ordered pair of the value pool the six uses of equality evaluated by the real VM are   *)
(* validated against AnkoEq (verdict where the statement decides, laws everywhere).                              *)
EXTENDS AnkoEq, Json
Pool == ndJsonDeserialize("eq_pool.ndjson")
Obs == ndJsonDeserialize("eq_obs.ndjson")
VARIABLE l
Init == l = 1 /\ TLCSet(1, 1)
Step == l <= Len(Obs) /\ (IF Accept(Pool[Obs[l].i], Pool[Obs[l].j], Obs[l]) THEN TRUE ELSE PrintT(<<"REJECT", l>>)) /\ l' = l + 1      \* lines are independent: all are judged
Spec == Init /\ [][Step]_l
HighWater == TLCSet(1, IF l > TLCGet(1) THEN l ELSE TLCGet(1))
Accepted == PrintT(<<"REACHED", TLCGet(1), Len(Obs)>>) /\ TLCGet(1) = Len(Obs) + 1

\* model-level sanity of the relation itself over the pool (symmetry of the verdict, reflexivity except NaN)
VerdictSymmetric == l > 1 \/ \A i \in 1..Len(Pool), j \in 1..Len(Pool) : \A f \in BOOLEAN : Verdict(Pool[i], Pool[j], f) = Verdict(Pool[j], Pool[i], f)
Reflexive == l > 1 \/ \A i \in 1..Len(Pool) : (Pool[i].t # "flt" \/ ~Pool[i].nan) => Verdict(Pool[i], Pool[i], TRUE) \in {"yes", "open"}
=============================================================================
