---------------------------- MODULE MC_AnkoGrammar ----------------------------
(* All expression trees of depth <= 2 over the full operator set (children drawn from one representative per level): the     *)
(* operator table is checked for self-consistency (ParseRef o UnparseMin = id = ParseRef o UnparseFull) and both spellings     *)
(* are emitted with the tree for the real parser.  Depth 3: a root representative over depth-2 children (sharded by Root).    *)
EXTENDS AnkoGrammar, Json

CONSTANTS Depth, RootKinds

A == Leaf("a")  Bv == Leaf("b")  Cv == Leaf("c")
Leaves == {A, Bv, Cv}
Reps == {Bin("||", A, Bv), Bin("&&", A, Bv), Bin("==", A, Bv), Bin("+", A, Bv), Bin("*", A, Bv), Bin("in", A, Cv), Un("-", A), Un("!", A), Un("^", A), Un("&", A), Un("*", A),
         Tern(A, Bv, Cv), Nilco(A, Bv), Idx(Cv, A), Member(A, "m"), CallE(A, Bv), Slice(Cv, A, Bv), Slice3(Cv, A, Bv, A), Call0(A), EList}
Kids == Leaves \cup Reps
\* ([] directly followed by [ or { is the beginning of a typed literal in this language: the empty list is never the base of a postfix form)
Over(K0) == LET K == K0 IN LET KB == K0 \ {EList} IN   {Bin(op, l, r) : op \in BinOps, l \in K, r \in K}
        \cup {Un(op, e) : op \in UnOps, e \in K}
        \cup {Tern(c, x, y) : c \in K, x \in K, y \in K}
        \cup {Nilco(l, r) : l \in K, r \in K}
        \cup {Idx(e, i) : e \in KB, i \in K}
        \cup {Member(e, "m") : e \in KB}
        \cup {CallE(e, x) : e \in KB, x \in K}
        \cup {Slice(e, lo, hi) : e \in KB, lo \in {A} \cup Reps, hi \in {Bv}}
        \cup {Slice3(e, A, Bv, c) : e \in KB, c \in {Cv} \cup Reps} \cup {Slice3(e, lo, hi, Cv) : e \in {Cv, Member(A, "m"), Idx(Cv, A)}, lo \in Reps, hi \in Reps}
        \cup {Call0(e) : e \in KB} \cup {CallE(Call0(A), x) : x \in K} \cup {Bin("+", EList, x) : x \in K} \cup {Idx(e, Call0(A)) : e \in KB}
        \cup {SliceLo(e, lo) : e \in KB, lo \in K} \cup {SliceHi(e, hi) : e \in KB, hi \in K}
\* every binary operator under / over every binary and unary operator (precedence and associativity pairwise)
Pairs ==   {Bin(o1, Bin(o2, A, Bv), Cv) : o1 \in BinOps, o2 \in BinOps} \cup {Bin(o1, A, Bin(o2, Bv, Cv)) : o1 \in BinOps, o2 \in BinOps}
      \cup {Un(u, Bin(o, A, Bv)) : u \in UnOps, o \in BinOps} \cup {Bin(o, Un(u, A), Bv) : u \in UnOps, o \in BinOps} \cup {Bin(o, A, Un(u, Bv)) : u \in UnOps, o \in BinOps}
      \cup {Un(u, Un(v, A)) : u \in UnOps, v \in UnOps}
      \cup {Tern(Bin(o, A, Bv), Cv, A) : o \in BinOps} \cup {Tern(A, Bv, Bin(o, Cv, A)) : o \in BinOps} \cup {Nilco(Bin(o, A, Bv), Cv) : o \in BinOps} \cup {Nilco(A, Bin(o, Bv, Cv)) : o \in BinOps}
      \cup {Idx(Un(u, Cv), A) : u \in UnOps} \cup {Un(u, Idx(Cv, A)) : u \in UnOps} \cup {Un(u, CallE(A, Bv)) : u \in UnOps} \cup {Un(u, Member(A, "m")) : u \in UnOps}
\* atoms that are literals (number, true / false / nil, string) on either side of every binary operator, under every unary operator, and next to a unary operand --
\* the token BEFORE an operator decides nothing: `true - 1`, `nil - 1`, `"s" - 1` are subtractions like `a - 1` (no postfix forms on literals here)
Lits == {Leaf(x) : x \in LitToks}
LitTrees ==   {Bin(o, l, r) : o \in BinOps, l \in Lits \cup {A}, r \in Lits \cup {Bv}}
         \cup {Un(u, l) : u \in UnOps \ {"&"}, l \in Lits}
         \cup {Bin(o, l, Un(u, r)) : o \in BinOps, u \in {"-", "!", "^"}, l \in Lits \cup {A}, r \in {Leaf("1"), Leaf("true"), Bv}}
         \cup {Bin(o, Un(u, l), r) : o \in BinOps, u \in {"-", "!", "^"}, l \in {Leaf("7"), Leaf("nil"), A}, r \in Lits}
         \cup {Tern(c, x, y) : c \in Lits, x \in {Leaf("1"), Un("-", Leaf("1"))}, y \in {Un("-", Leaf("7")), Leaf("nil")}}
         \cup {Nilco(l, r) : l \in Lits, r \in {Un("-", Leaf("1")), Leaf("true")}}
         \cup {Idx(Cv, Bin(o, l, Leaf("1"))) : o \in {"-", "+", "*"}, l \in Lits \cup {A}}
         \cup {CallE(A, Bin("-", l, Leaf("1"))) : l \in Lits}
D2 == Over(Kids) \cup Pairs \cup LitTrees
\* depth 3: binary / unary / ternary / ?? / index roots whose children are depth-2 trees over the level representatives (no leaves-only subtrees)
SmallReps == {Bin("||", A, Bv), Bin("==", A, Bv), Bin("+", A, Bv), Bin("in", A, Cv), Un("-", A), Tern(A, Bv, Cv), Nilco(A, Bv), Idx(Cv, A)}
D2s == {Bin(op, l, r) : op \in {"&&", "<", "-", "%", "in"}, l \in SmallReps \cup {A}, r \in SmallReps \cup {Bv}}
       \cup {Un(op, e) : op \in {"!", "-"}, e \in SmallReps} \cup {Tern(c, x, y) : c \in SmallReps, x \in {A}, y \in SmallReps} \cup {Nilco(l, r) : l \in SmallReps, r \in SmallReps}
D3 == {Bin(op, l, r) : op \in RootKinds \cap BinOps, l \in D2s, r \in SmallReps \cup {Cv}}
      \cup {Bin(op, l, r) : op \in RootKinds \cap BinOps, l \in SmallReps \cup {Cv}, r \in D2s}
      \cup {Un(op, e) : op \in RootKinds \cap UnOps, e \in D2s}
      \cup (IF "tern" \in RootKinds THEN {Tern(c, x, y) : c \in D2s, x \in {A}, y \in SmallReps} \cup {Tern(c, x, y) : c \in SmallReps, x \in {A}, y \in D2s} ELSE {})
      \cup (IF "nilco" \in RootKinds THEN {Nilco(l, r) : l \in D2s, r \in {Bv}} \cup {Nilco(l, r) : l \in {A}, r \in D2s} ELSE {})
Trees == IF Depth = 2 THEN D2 ELSE D3

VARIABLES t, done
Init == t \in Trees /\ done = FALSE
Step == /\ ~done /\ done' = TRUE /\ t' = t
        /\ Assert(TableConsistent(t), <<"operator table inconsistent on", t>>)
        /\ PrintT(ToJson([t |-> t, min |-> Min(t), full |-> Full(t)]))
Spec == Init /\ [][Step]_<<t, done>>
=============================================================================
