SPECIFICATION Spec
VIEW View
CONSTANTS
  Names = {"a", ".", ".a", "a.", "a.b", "..", "int64"}
  Dotted = {".", ".a", "a.", "a.b", ".."}
  ExtV <- ExtVDef
  ExtT <- ExtTDef
  BuiltinT <- BuiltinTDef
  Depth = 2
  MaxScopes = 2
  VNames = {"a", ".", ".a", "a.", "a.b", ".."}
  TNames = {"int64", ".a", "a.", "."}
  DefVals = {1, 3, 90}
  SetVals = {2}
  TypeVals = {1}
  PathNames = {"a", ".a"}
  Emit = TRUE
  Mutant = "none"
INVARIANTS TypeOK Acyclic LookupNearest
PROPERTIES Growth Frame Local SetNoCreate ErrUnchanged DotRejected CopyFresh
CHECK_DEADLOCK FALSE
