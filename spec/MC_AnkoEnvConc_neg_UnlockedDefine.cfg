SPECIFICATION Spec
CONSTANTS
  Procs = {1, 2}
  NOps = 1
  Alphabet <- AlphaCore
  InitTabs <- Tabs
  ParentTab <- PTab
  Variant = "UnlockedDefine"
INVARIANTS Linearizable LockDiscipline LocksFreeAtEnd
CHECK_DEADLOCK TRUE
