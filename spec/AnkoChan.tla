------------------------------- MODULE AnkoChan -------------------------------
(***************************************************************************)
(* Script channels and goroutines (property C16): pipelines of goroutines  *)
(* connected by Go channels, explored under every interleaving.            *)
(*                                                                         *)
(* A configuration: NStages worker stages between a producer and the       *)
(* consumer (the main script), channel capacity Cap (0 = unbuffered),      *)
(* Items to send, the consumer's way of receiving (Mode: "range" |         *)
(* "recvexpr" (until nil) | "recvok" (until ok = false)).                  *)
(* Channels: [buf, closed]; an unbuffered channel hands a value over only  *)
(* when a receiver is waiting (rendezvous).  Processes:                    *)
(*   0            producer:  for each item: send;  then close              *)
(*   1..NStages   worker k:  for v in in_k { out_k <- v + 10 } ; close out *)
(*   NStages + 1  consumer                                                 *)
(* Channel c_k connects process k to process k+1.                          *)
(* Checked: every value sent is received exactly once and in order         *)
(* (Delivered is always a prefix-consistent split of what was sent), the   *)
(* pipeline always terminates (no deadlock), and at termination the        *)
(* consumer has collected exactly Expected -- under every schedule.        *)
(* Variant "DropOdd" (negative control): a stage loses odd values.          *)
(***************************************************************************)
EXTENDS Integers, Sequences, FiniteSets, TLC

CONSTANTS MaxStages, Caps, ItemSeqs, Variant

VARIABLE cfg        \* the configuration of this behaviour: [ns, cap, items], chosen initially
NStages == cfg.ns
Cap == cfg.cap
Items == cfg.items

Procs == 0..(NStages + 1)
Chans == 0..NStages                    \* channel k: from process k to process k+1
Consumer == NStages + 1

VARIABLES ch,        \* [Chans -> [buf : Seq(Int), closed : BOOLEAN]]
          pc,        \* [Procs -> "run" | "sending" | "closing" | "done"]
          idx,       \* producer: next item index
          hold,      \* [Procs -> value being forwarded or 0]
          waiting,   \* [Chans -> BOOLEAN]  a receiver is blocked in receive on that channel (for rendezvous)
          collected, \* Seq(Int) at the consumer
          sent, recvd \* history per channel: what was sent / received (for the FIFO invariant)
vars == <<cfg, ch, pc, idx, hold, waiting, collected, sent, recvd>>

Init == /\ cfg \in [ns : 0..MaxStages, cap : Caps, items : ItemSeqs]
        /\ ch = [c \in Chans |-> [buf |-> <<>>, closed |-> FALSE]]
        /\ pc = [p \in Procs |-> "run"]
        /\ idx = 1
        /\ hold = [p \in Procs |-> 0]
        /\ waiting = [c \in Chans |-> FALSE]
        /\ collected = <<>>
        /\ sent = [c \in Chans |-> <<>>]
        /\ recvd = [c \in Chans |-> <<>>]

\* ---- channel primitives
CanSend(c) == ~ch[c].closed /\ (IF Cap = 0 THEN waiting[c] /\ Len(ch[c].buf) = 0 ELSE Len(ch[c].buf) < Cap)
DoSend(c, v) == /\ ch' = [ch EXCEPT ![c].buf = Append(@, v)]
                /\ sent' = [sent EXCEPT ![c] = Append(@, v)]
CanRecv(c) == Len(ch[c].buf) > 0
ClosedDrained(c) == ch[c].closed /\ Len(ch[c].buf) = 0

\* ---- producer
ProducerSend == /\ pc[0] = "run" /\ idx <= Len(Items) /\ CanSend(0)
                /\ DoSend(0, Items[idx]) /\ idx' = idx + 1
                /\ UNCHANGED <<cfg, pc, hold, waiting, collected, recvd>>
ProducerClose == /\ pc[0] = "run" /\ idx > Len(Items)
                 /\ ch' = [ch EXCEPT ![0].closed = TRUE] /\ pc' = [pc EXCEPT ![0] = "done"]
                 /\ UNCHANGED <<cfg, idx, hold, waiting, collected, sent, recvd>>

\* ---- generic receive by process p from channel c (= p - 1): announce waiting (for rendezvous), take, or see closed
Announce(p) == LET c == p - 1 IN
               /\ pc[p] = "run" /\ ~waiting[c] /\ ~CanRecv(c) /\ ~ClosedDrained(c)
               /\ waiting' = [waiting EXCEPT ![c] = TRUE]
               /\ UNCHANGED <<cfg, ch, pc, idx, hold, collected, sent, recvd>>
Take(p) == LET c == p - 1  v == Head(ch[c].buf) IN
           /\ pc[p] = "run" /\ CanRecv(c)
           /\ ch' = [ch EXCEPT ![c].buf = Tail(@)]
           /\ recvd' = [recvd EXCEPT ![c] = Append(@, v)]
           /\ waiting' = [waiting EXCEPT ![c] = FALSE]
           /\ IF p = Consumer
              THEN collected' = Append(collected, v) /\ UNCHANGED <<pc, hold>>
              ELSE /\ hold' = [hold EXCEPT ![p] = IF Variant = "DropOdd" /\ v % 2 = 1 THEN 0 ELSE v + 10]
                   /\ pc' = [pc EXCEPT ![p] = IF hold'[p] = 0 THEN "run" ELSE "sending"] /\ UNCHANGED collected
           /\ UNCHANGED <<cfg, idx, sent>>
SeeClosed(p) == LET c == p - 1 IN
                /\ pc[p] = "run" /\ ClosedDrained(c)
                /\ waiting' = [waiting EXCEPT ![c] = FALSE]
                /\ pc' = [pc EXCEPT ![p] = IF p = Consumer THEN "done" ELSE "closing"]
                /\ UNCHANGED <<cfg, ch, idx, hold, collected, sent, recvd>>

\* ---- worker stage forwards, then closes its output
Forward(p) == /\ p \in 1..NStages /\ pc[p] = "sending" /\ CanSend(p)
              /\ DoSend(p, hold[p]) /\ hold' = [hold EXCEPT ![p] = 0] /\ pc' = [pc EXCEPT ![p] = "run"]
              /\ UNCHANGED <<cfg, idx, waiting, collected, recvd>>
CloseOut(p) == /\ p \in 1..NStages /\ pc[p] = "closing"
               /\ ch' = [ch EXCEPT ![p].closed = TRUE] /\ pc' = [pc EXCEPT ![p] = "done"]
               /\ UNCHANGED <<cfg, idx, hold, waiting, collected, sent, recvd>>

AllDone == \A p \in Procs : pc[p] = "done"
Next == \/ ProducerSend \/ ProducerClose
        \/ \E p \in 1..Consumer : Announce(p) \/ Take(p) \/ SeeClosed(p)
        \/ \E p \in 1..NStages : Forward(p) \/ CloseOut(p)
        \/ (AllDone /\ UNCHANGED vars)
Spec == Init /\ [][Next]_vars /\ WF_vars(Next)

----------------------------------------------------------------------------
IsPrefix(a, b) == Len(a) <= Len(b) /\ \A i \in 1..Len(a) : a[i] = b[i]
\* exactly once, in order: what was received is a prefix of what was sent; what is buffered is the rest
FIFO == \A c \in Chans : recvd[c] \o ch[c].buf = sent[c]
Expected == [i \in 1..Len(Items) |-> Items[i] + 10 * NStages]
CollectedPrefix == IsPrefix(collected, Expected)
DeliversAll == AllDone => collected = Expected
NoSendAfterClose == \A c \in Chans : ch[c].closed => (c = 0 /\ pc[0] = "done") \/ (c > 0 /\ pc[c] = "done")
Terminates == <>AllDone
=============================================================================
