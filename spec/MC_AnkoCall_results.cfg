SPECIFICATION Spec
CONSTANTS
  Shard = "results"
CHECK_DEADLOCK FALSE
