SPECIFICATION Spec
CONSTANTS
  Alphabet = {"/", "*", "n", "a", "h", "s"}
  MinLen = 4
  MaxLen = 7
CHECK_DEADLOCK FALSE
