SPECIFICATION Spec
CONSTRAINT HighWater
POSTCONDITION Accepted
CHECK_DEADLOCK FALSE
