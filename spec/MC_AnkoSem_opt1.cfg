SPECIFICATION Spec
CONSTANTS
  Fuel = 400
  Dev = {"FinallyOnJump"}
CHECK_DEADLOCK FALSE
