---------------------------- MODULE MC_AnkoLexer ----------------------------
(* Every source string up to MaxLen over Alphabet: the scanner model is checked against the declarative bookkeeping        *)
(* (StreamOK) and its token stream is emitted for replay through the real Scanner.Scan.                                  *)
EXTENDS AnkoLexer, Json
CONSTANTS Alphabet, MinLen, MaxLen
VARIABLES src, done
Init == src \in UNION {[1..n -> Alphabet] : n \in MinLen..MaxLen} /\ done = FALSE
Proj(ts) == [i \in 1..Len(ts) |-> [tok |-> ts[i].tok, line |-> ts[i].pos.line, col |-> ts[i].pos.col, o |-> ts[i].st.o, lh |-> ts[i].st.lh, ln |-> ts[i].st.ln, err |-> ts[i].err]]
Step == /\ ~done /\ done' = TRUE /\ src' = src
        /\ Assert(StreamOK(src), <<"scanner model violates the declarative bookkeeping on", src>>)
        /\ PrintT(ToJson([src |-> src, ts |-> Proj(TokenStream(src))]))
Spec == Init /\ [][Step]_<<src, done>>
=============================================================================
