SPECIFICATION Spec
CONSTANTS
  Shard = "two"
CHECK_DEADLOCK FALSE
