------------------------------ MODULE AnkoLexer ------------------------------
(***************************************************************************)
(* The hand-written scanner of anko (parser/lexer.go) over an alphabet of  *)
(* character classes, with its position bookkeeping (property C15).        *)
(*                                                                         *)
(* Source = sequence of class codes:                                       *)
(*   a letter   e letter 'e'   x letter 'x'   1 digit 1-9   0 digit 0      *)
(*   q "   t `   k \   n newline   s blank   h #   / * = < - . +           *)
(*   ( single-character token     $ a character no token starts with       *)
(* Scanner state st = [o, lh, ln]: runes consumed, offset of the current   *)
(* line's first rune, number of newlines passed.  Next/Back/Peek are the   *)
(* scanner's own primitives; Scan mirrors Scanner.Scan token by token      *)
(* (two-character lookahead by next/peek/back, numbers, strings, raw       *)
(* strings, the three comment forms).                                      *)
(*                                                                         *)
(* Declarative characterisation checked against it (for every source):     *)
(*   ln = number of newlines before o;  lh = 1 + position of the last      *)
(*   newline before o (0 if none);  0 <= lh <= o <= Len(src);  every Scan  *)
(*   consumes at least one rune or reports EOF;  a reported position lies  *)
(*   inside the input (line <= lines, column <= line length + 1).          *)
(***************************************************************************)
EXTENDS Integers, Sequences, TLC

Letters == {"a", "e", "x"}
Digits == {"1", "0"}

St(o, lh, ln) == [o |-> o, lh |-> lh, ln |-> ln]
Peek(src, st) == IF st.o >= Len(src) THEN "EOF" ELSE src[st.o + 1]
PeekPlus(src, st, i) == IF Len(src) <= st.o + i THEN "EOF" ELSE src[st.o + i + 1]
Next(src, st) == IF st.o >= Len(src) THEN st
                 ELSE IF src[st.o + 1] = "n" THEN St(st.o + 1, st.o + 1, st.ln + 1)
                 ELSE St(st.o + 1, st.lh, st.ln)
Back(st) == St(st.o - 1, st.lh, st.ln)
Pos(st) == [line |-> st.ln + 1, col |-> st.o - st.lh + 1]
IsEOL(c) == c = "n" \/ c = "EOF"

RECURSIVE SkipBlank(_, _), SkipLine(_, _), Ident(_, _), RawString(_, _, _), QString(_, _), NumTail(_, _, _), HexTail(_, _)
SkipBlank(src, st) == IF Peek(src, st) = "s" THEN SkipBlank(src, Next(src, st)) ELSE st
SkipLine(src, st) == IF IsEOL(Peek(src, st)) THEN st ELSE SkipLine(src, Next(src, st))
Ident(src, st) == IF Peek(src, st) \in Letters \cup Digits THEN Ident(src, Next(src, st)) ELSE st

R(tok, st, err) == [tok |-> tok, st |-> st, err |-> err]

\* scanRawString(l): next; EOF -> error; l -> next, done
RawString(src, st, l) ==
  LET s1 == Next(src, st) IN
  IF Peek(src, s1) = "EOF" THEN R("STRING", s1, TRUE)
  ELSE IF Peek(src, s1) = l THEN R("STRING", Next(src, s1), FALSE)
  ELSE RawString(src, s1, l)

\* scanString('"'): next; newline/EOF -> error; quote -> next, done; backslash -> next (escaped rune), continue
QString(src, st) ==
  LET s1 == Next(src, st)  c == Peek(src, s1) IN
  IF c = "n" \/ c = "EOF" THEN R("STRING", s1, TRUE)
  ELSE IF c = "q" THEN R("STRING", Next(src, s1), FALSE)
  ELSE IF c = "k" THEN QString(src, Next(src, s1))
  ELSE QString(src, s1)

HexTail(src, st) == IF Peek(src, st) \in Digits \cup {"a", "e"} THEN HexTail(src, Next(src, st)) ELSE st   \* a, e stand for hex letters

\* decimal / float tail; found = an exponent marker was already seen
NumTail(src, st, found) ==
  LET c == Peek(src, st) IN
  IF c \in Digits \/ c = "." THEN NumTail(src, Next(src, st), found)
  ELSE IF c = "e" THEN
       (IF found THEN R("NUMBER", st, TRUE)
        ELSE LET s1 == Next(src, st) IN
             IF Peek(src, s1) \in {"+", "-"} THEN NumTail(src, Next(src, s1), TRUE) ELSE NumTail(src, s1, TRUE))
  ELSE R("NUMBER", st, FALSE)

Number(src, st) ==
  LET first == Peek(src, st)
      s1 == Next(src, st)
      r == IF first = "0" /\ Peek(src, s1) = "x" THEN R("NUMBER", HexTail(src, Next(src, s1)), FALSE)
           ELSE NumTail(src, s1, FALSE) IN
  IF r.err THEN r
  ELSE IF Peek(src, r.st) \in Letters THEN R("NUMBER", r.st, TRUE)     \* identifier starts immediately after numeric literal
  ELSE r

\* block comment after "/" "*": loop { scanRawString('*'); if peek = '/' then next, done else back }
RECURSIVE Block(_, _)
Block(src, st) ==
  LET r == RawString(src, st, "*") IN
  IF r.err THEN r
  ELSE IF Peek(src, r.st) = "/" THEN R("COMMENT", Next(src, r.st), FALSE)
  ELSE Block(src, Back(r.st))

\* one Scan: [tok, pos, st, err]; comments restart the scan
RECURSIVE Scan(_, _)
Scan(src, st0) ==
  LET st == SkipBlank(src, st0)
      pos == Pos(st)
      c == Peek(src, st)
      T(tok, s, err) == [tok |-> tok, pos |-> pos, st |-> s, err |-> err]
      n1 == Next(src, st)
      c1 == Peek(src, n1) IN
  CASE c \in Letters -> T("IDENT", Ident(src, st), FALSE)
    [] c \in Digits  -> LET r == Number(src, st) IN T("NUMBER", r.st, r.err)
    [] c = "q" -> LET r == QString(src, st) IN T("STRING", r.st, r.err)
    [] c = "t" -> LET r == RawString(src, st, "t") IN T("STRING", r.st, r.err)
    [] c = "EOF" -> T("EOF", st, FALSE)
    [] c = "h" -> Scan(src, SkipLine(src, st))
    [] c = "/" -> (CASE c1 = "=" -> T("DIVEQ", Next(src, n1), FALSE)
                     [] c1 = "/" -> Scan(src, SkipLine(src, n1))
                     [] c1 = "*" -> LET r == Block(src, n1) IN IF r.err THEN T("COMMENT", r.st, TRUE) ELSE Scan(src, r.st)
                     [] OTHER -> T("/", Next(src, Back(n1)), FALSE))
    [] c = "=" -> (CASE c1 = "=" -> T("EQEQ", Next(src, n1), FALSE)
                     [] c1 = "s" -> IF PeekPlus(src, n1, 1) = "<" /\ PeekPlus(src, n1, 2) = "-"
                                    THEN T("EQOPCHAN", Next(src, Next(src, Next(src, n1))), FALSE)
                                    ELSE T("=", Next(src, Back(n1)), FALSE)
                     [] OTHER -> T("=", Next(src, Back(n1)), FALSE))
    [] c = "<" -> (CASE c1 = "-" -> T("OPCHAN", Next(src, n1), FALSE)
                     [] c1 = "=" -> T("LE", Next(src, n1), FALSE)
                     [] c1 = "<" -> T("SHIFTLEFT", Next(src, n1), FALSE)
                     [] OTHER -> T("<", Next(src, Back(n1)), FALSE))
    [] c = "-" -> (CASE c1 = "-" -> T("MINUSMINUS", Next(src, n1), FALSE)
                     [] c1 = "=" -> T("MINUSEQ", Next(src, n1), FALSE)
                     [] OTHER -> T("-", Next(src, Back(n1)), FALSE))
    [] c = "+" -> (CASE c1 = "+" -> T("PLUSPLUS", Next(src, n1), FALSE)
                     [] c1 = "=" -> T("PLUSEQ", Next(src, n1), FALSE)
                     [] OTHER -> T("+", Next(src, Back(n1)), FALSE))
    [] c = "*" -> (CASE c1 = "=" -> T("MULEQ", Next(src, n1), FALSE)
                     [] OTHER -> T("*", Next(src, Back(n1)), FALSE))
    [] c = "." -> IF c1 = "." THEN (LET n2 == Next(src, n1) IN IF Peek(src, n2) = "." THEN T("VARARG", Next(src, n2), FALSE) ELSE T(".", n2, TRUE))
                  ELSE T(".", Next(src, Back(n1)), FALSE)
    [] c \in {"n", "("} -> T(c, n1, FALSE)
    [] OTHER -> T(c, n1, TRUE)               \* no token starts with this character: error, one rune consumed

\* the whole token stream (stops after EOF or the first error, as the parser does)
RECURSIVE Tokens(_, _, _, _)
Tokens(src, st, acc, fuel) ==
  IF fuel = 0 THEN Append(acc, [tok |-> "NONTERMINATION", pos |-> Pos(st), st |-> st, err |-> TRUE])
  ELSE LET t == Scan(src, st) IN
       IF t.tok = "EOF" \/ t.err THEN Append(acc, t) ELSE Tokens(src, t.st, Append(acc, t), fuel - 1)
TokenStream(src) == Tokens(src, St(0, 0, 0), <<>>, Len(src) + 2)

----------------------------------------------------------------------------
(* declarative bookkeeping *)
RECURSIVE CountNL(_, _), LastNL(_, _)
CountNL(src, k) == IF k = 0 THEN 0 ELSE CountNL(src, k - 1) + (IF src[k] = "n" THEN 1 ELSE 0)
LastNL(src, k) == IF k = 0 THEN 0 ELSE IF src[k] = "n" THEN k ELSE LastNL(src, k - 1)
StateOK(src, st) == /\ 0 <= st.lh /\ st.lh <= st.o /\ st.o <= Len(src)
                    /\ st.ln = CountNL(src, st.o)
                    /\ st.lh = LastNL(src, st.o)
Lines(src) == CountNL(src, Len(src)) + 1
LineLen(src, line) ==      \* runes on that line (without its newline)
  LET RECURSIVE Start(_, _)
      Start(k, l) == IF l = 1 THEN k ELSE IF src[k] = "n" THEN Start(k + 1, l - 1) ELSE Start(k + 1, l)
      s == Start(1, line)
      RECURSIVE EndOf(_)
      EndOf(k) == IF k > Len(src) \/ src[k] = "n" THEN k ELSE EndOf(k + 1) IN
  EndOf(s) - s
PosOK(src, p) == /\ 1 <= p.line /\ p.line <= Lines(src)
                 /\ 1 <= p.col /\ p.col <= LineLen(src, p.line) + 1

StreamOK(src) ==
  LET ts == TokenStream(src) IN
  /\ ts[Len(ts)].tok # "NONTERMINATION"
  /\ \A i \in 1..Len(ts) : /\ StateOK(src, ts[i].st)
                           /\ PosOK(src, ts[i].pos)
                           /\ (i > 1 => ts[i].st.o > ts[i - 1].st.o \/ ts[i].tok = "EOF")      \* progress
=============================================================================
