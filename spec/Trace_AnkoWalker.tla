--------------------------- MODULE Trace_AnkoWalker ---------------------------
EXTENDS AnkoWalker, Json, TLC
Walks == ndJsonDeserialize("walks.ndjson")
VARIABLE l
Init == l = 1 /\ TLCSet(1, 1)
Step == l <= Len(Walks) /\ (IF Accept(Walks[l]) THEN TRUE ELSE PrintT(<<"REJECT", l>>)) /\ l' = l + 1      \* lines are independent: all are judged
Spec == Init /\ [][Step]_l
HighWater == TLCSet(1, IF l > TLCGet(1) THEN l ELSE TLCGet(1))
Accepted == PrintT(<<"REACHED", TLCGet(1), Len(Walks)>>) /\ TLCGet(1) = Len(Walks) + 1
=============================================================================
