---------------------------- MODULE AnkoContainers ----------------------------
(***************************************************************************)
(* Slices, maps, strings and struct fields as their Go models (C10).       *)
(*                                                                         *)
(* Heap: arrs = sequence of backing arrays (each a sequence of values, its *)
(* length is the capacity of the allocation); maps = sequence of maps      *)
(* (sequences of <<key, value>> pairs); structs = sequence of field        *)
(* records.  Variables hold values V(t, i, s, r, off, len, cap):           *)
(*   int / str / nil / flt(by text)   scalar values                        *)
(*   slice  r = array, off, len, cap  (a Go slice header)                  *)
(*   tslice the same for a []int64 made with make                          *)
(*   map    r = map id        struct  r = struct id                        *)
(*   tmap   r = map id of a map[string]int64 made with make                *)
(*   cstr   r = index into strs: a string held in a variable, as its       *)
(*          sequence of one-character strings (strings are VALUES: every   *)
(*          store builds a new entry, entries are never changed)           *)
(* One operation = one script statement; Step(st, op) is the set of        *)
(* possible [st, res] (capacity after a growing append is the only         *)
(* nondeterminism: any capacity >= the needed length).                     *)
(* Rules are Go's: in-range reads/writes address exactly one element,      *)
(* slicing shares storage, append within capacity writes in place, an      *)
(* out-of-range or non-numeric index is an error that changes nothing, a   *)
(* missing key reads as nil, an unhashable key is an error on write/delete *)
(* and nil on read, typed stores convert as Go would or fail unchanged,    *)
(* unknown fields are errors.                                              *)
(***************************************************************************)
EXTENDS Integers, Sequences, FiniteSets, TLC

V(t, i, s, r, off, len, cap) == [t |-> t, i |-> i, s |-> s, r |-> r, off |-> off, len |-> len, cap |-> cap]
IntV(n) == V("int", n, "", 0, 0, 0, 0)
StrV(s) == V("str", 0, s, 0, 0, 0, 0)
FltV(s) == V("flt", 0, s, 0, 0, 0, 0)
NilV == V("nil", 0, "", 0, 0, 0, 0)
BoolV(b) == V("bool", IF b THEN 1 ELSE 0, "", 0, 0, 0, 0)
SliceV(r, off, len, cap) == V("slice", 0, "", r, off, len, cap)
TSliceV(r, off, len, cap) == V("tslice", 0, "", r, off, len, cap)
MapV(r) == V("map", 0, "", r, 0, 0, 0)
StructV(r) == V("struct", 0, "", r, 0, 0, 0)
TMapV(r) == V("tmap", 0, "", r, 0, 0, 0)
CStrV(r) == V("cstr", 0, "", r, 0, 0, 0)
OneChar == {"x", "s", "z", "k", "a", "b", "c"}            \* one-character payloads the string rules are judged on
Digit == [n \in 0..9 |-> CASE n = 0 -> "0" [] n = 1 -> "1" [] n = 2 -> "2" [] n = 3 -> "3" [] n = 4 -> "4" [] n = 5 -> "5" [] n = 6 -> "6" [] n = 7 -> "7" [] n = 8 -> "8" [] OTHER -> "9"]
NewStr(st, n, cs) == LET st1 == [st EXCEPT !.strs = Append(@, cs)] IN [st1 EXCEPT !.vars[n] = CStrV(Len(st1.strs))]
ListLitV(l) == V("listlit", 0, "", l, 0, 0, 0)       \* unhashable key values: a list literal ("listlit"), a list / a map read from a container ("listelem", "mapelem")

Res(k, v) == [k |-> k, v |-> v]         \* k: "ok" (statement), "val" (value read), "err"
OKR == Res("ok", NilV)
ErrR == Res("err", NilV)
OpenR == Res("open", NilV)              \* a case the statement leaves open: not compared, and the run is not continued

IsSlice(v) == v.t \in {"slice", "tslice"}
Elem(st, v, k) == st.arrs[v.r][v.off + k + 1]            \* k-th element (0-based) of slice value v
Elems(st, v) == [k \in 1..v.len |-> st.arrs[v.r][v.off + k]]

\* index interpretation: ints are indices; nil and non-numeric strings are errors; floats, bools and numeral strings are left open
IdxKind(ix) == CASE ix.t = "int" -> "int" [] ix.t = "nil" -> "bad" [] ix.t = "str" /\ ix.s \in {"x", "s", ""} -> "bad" [] OTHER -> "open"

\* typed store conversion to int64: ints as is; a float by truncation (Go's conversion); anything else fails; nil gives the zero value
ToInt64(v) == CASE v.t = "int" -> [ok |-> TRUE, v |-> v]
                [] v.t = "flt" -> [ok |-> TRUE, v |-> IntV(v.i)]       \* i carries the truncated value of the float
                [] v.t = "nil" -> [ok |-> TRUE, v |-> IntV(0)]
                [] OTHER -> [ok |-> FALSE, v |-> v]
ToStr(v) == CASE v.t = "str" -> [ok |-> TRUE, v |-> v] [] v.t = "nil" -> [ok |-> TRUE, v |-> StrV("")] [] OTHER -> [ok |-> FALSE, v |-> v]
Hashable(k) == k.t \in {"int", "str", "nil", "bool", "flt"}
EqKey(a, b) == a.t = b.t /\ a.i = b.i /\ a.s = b.s

Same(st, r) == {[st |-> st, res |-> r]}
SetVar(st, n, v) == [st EXCEPT !.vars[n] = v]

RECURSIVE MapGet(_, _, _), MapDel(_, _, _, _), MapPut(_, _, _, _, _)
MapGet(m, k, i) == IF i > Len(m) THEN NilV ELSE IF EqKey(m[i][1], k) THEN m[i][2] ELSE MapGet(m, k, i + 1)
MapDel(m, k, i, acc) == IF i > Len(m) THEN acc ELSE MapDel(m, k, i + 1, IF EqKey(m[i][1], k) THEN acc ELSE Append(acc, m[i]))
MapPut(m, k, v, i, acc) == IF i > Len(m) THEN Append(acc, <<k, v>>)
                           ELSE IF EqKey(m[i][1], k) THEN acc \o <<<<k, v>>>> \o SubSeq(m, i + 1, Len(m))
                           ELSE MapPut(m, k, v, i + 1, Append(acc, m[i]))

\* ---- operations.  op = [op, x (target variable), y (source variable), i, j, k (index / bound values), v (value), cap (logged capacity)]
Step(st, o) ==
  LET x == st.vars[o.x] IN
  CASE o.op = "lit3" ->      \* x = [0, 1, 2]
         LET st1 == [st EXCEPT !.arrs = Append(@, <<IntV(0), IntV(1), IntV(2)>>)] IN
         Same(SetVar(st1, o.x, SliceV(Len(st1.arrs), 0, 3, 3)), OKR)
    [] o.op = "litmix" ->    \* x = [7, "s"]
         LET st1 == [st EXCEPT !.arrs = Append(@, <<IntV(7), StrV("s")>>)] IN
         Same(SetVar(st1, o.x, SliceV(Len(st1.arrs), 0, 2, 2)), OKR)
    [] o.op = "make" ->      \* x = make([]interface, i, j)
         LET st1 == [st EXCEPT !.arrs = Append(@, [q \in 1..o.j.i |-> NilV])] IN
         Same(SetVar(st1, o.x, SliceV(Len(st1.arrs), 0, o.i.i, o.j.i)), OKR)
    [] o.op = "tmake" ->     \* x = make([]int64, i)
         LET st1 == [st EXCEPT !.arrs = Append(@, [q \in 1..o.i.i |-> IntV(0)])] IN
         Same(SetVar(st1, o.x, TSliceV(Len(st1.arrs), 0, o.i.i, o.i.i)), OKR)
    [] o.op = "alias" -> Same(SetVar(st, o.x, st.vars[o.y]), OKR)          \* x = y : reference semantics
    [] o.op = "read" /\ x.t = "cstr" ->      \* s[i] : the addressed character as a string
         LET kd == IdxKind(o.i)  cs == st.strs[x.r] IN
         IF kd = "open" THEN Same(st, OpenR)
         ELSE IF kd = "bad" \/ o.i.i < 0 \/ o.i.i >= Len(cs) THEN Same(st, ErrR)
         ELSE Same(st, Res("val", StrV(cs[o.i.i + 1])))
    [] o.op = "read" ->      \* x[i]
         IF ~IsSlice(x) THEN Same(st, OpenR)
         ELSE LET kd == IdxKind(o.i) IN
              IF kd = "open" THEN Same(st, OpenR)
              ELSE IF kd = "bad" \/ o.i.i < 0 \/ o.i.i >= x.len THEN Same(st, ErrR)
              ELSE Same(st, Res("val", Elem(st, x, o.i.i)))
    [] o.op = "write" /\ x.t = "cstr" ->     \* s[i] = "c" : the variable gets a rebuilt string (i = len appends); nothing else changes
         LET kd == IdxKind(o.i)  cs == st.strs[x.r] IN
         IF kd = "open" THEN Same(st, OpenR)
         ELSE IF kd = "bad" THEN Same(st, ErrR)
         ELSE IF ~(o.v.t = "str" /\ o.v.s \in OneChar) THEN Same(st, OpenR)      \* non-string values (rune conversion) and longer payloads: not asserted
         ELSE IF o.i.i < 0 \/ o.i.i > Len(cs) THEN Same(st, ErrR)
         ELSE IF o.i.i = Len(cs) THEN {[st |-> NewStr(st, o.x, Append(cs, o.v.s)), res |-> OKR]}
         ELSE {[st |-> NewStr(st, o.x, [q \in 1..Len(cs) |-> IF q = o.i.i + 1 THEN o.v.s ELSE cs[q]]), res |-> OKR]}
    [] o.op = "write" ->     \* x[i] = v   (i = len appends)
         IF ~IsSlice(x) THEN Same(st, OpenR)
         ELSE LET kd == IdxKind(o.i)
                  cv == IF x.t = "tslice" THEN ToInt64(o.v) ELSE [ok |-> TRUE, v |-> o.v] IN
              IF kd = "open" THEN Same(st, OpenR)
              ELSE IF kd = "bad" \/ o.i.i < 0 \/ o.i.i > x.len \/ ~cv.ok THEN Same(st, ErrR)
              ELSE IF o.i.i < x.len THEN Same([st EXCEPT !.arrs[x.r][x.off + o.i.i + 1] = cv.v], OKR)
              ELSE \* append through assignment at index len: the variable gets the grown header
                   IF x.len < x.cap THEN Same(SetVar([st EXCEPT !.arrs[x.r][x.off + x.len + 1] = cv.v], o.x, V(x.t, 0, "", x.r, x.off, x.len + 1, x.cap)), OKR)
                   ELSE IF o.cap <= x.len THEN {}
                   ELSE LET st1 == [st EXCEPT !.arrs = Append(@, [q \in 1..o.cap |-> IF q <= x.len THEN Elem(st, x, q - 1) ELSE IF q = x.len + 1 THEN cv.v ELSE (IF x.t = "tslice" THEN IntV(0) ELSE NilV)])] IN
                        Same(SetVar(st1, o.x, V(x.t, 0, "", Len(st1.arrs), 0, x.len + 1, o.cap)), OKR)
    [] o.op = "append" /\ x.t = "cstr" ->    \* s += v : concatenation (a number is written in decimal)
         LET cs == st.strs[x.r] IN
         IF o.v.t = "str" /\ o.v.s \in OneChar THEN {[st |-> NewStr(st, o.x, Append(cs, o.v.s)), res |-> OKR]}
         ELSE IF o.v.t = "int" /\ o.v.i \in 0..9 THEN {[st |-> NewStr(st, o.x, Append(cs, Digit[o.v.i])), res |-> OKR]}
         ELSE Same(st, OpenR)
    [] o.op = "append" ->    \* x += v
         IF ~IsSlice(x) THEN Same(st, OpenR)
         ELSE LET cv == IF x.t = "tslice" THEN ToInt64(o.v) ELSE [ok |-> TRUE, v |-> o.v] IN
              IF ~cv.ok THEN Same(st, ErrR)
              ELSE IF x.len < x.cap THEN Same(SetVar([st EXCEPT !.arrs[x.r][x.off + x.len + 1] = cv.v], o.x, V(x.t, 0, "", x.r, x.off, x.len + 1, x.cap)), OKR)
              ELSE IF o.cap <= x.len THEN {}
              ELSE LET st1 == [st EXCEPT !.arrs = Append(@, [q \in 1..o.cap |-> IF q <= x.len THEN Elem(st, x, q - 1) ELSE IF q = x.len + 1 THEN cv.v ELSE (IF x.t = "tslice" THEN IntV(0) ELSE NilV)])] IN
                   Same(SetVar(st1, o.x, V(x.t, 0, "", Len(st1.arrs), 0, x.len + 1, o.cap)), OKR)
    [] o.op = "slice2" ->    \* x = y[i:j]
         LET y == st.vars[o.y] IN
         IF y.t = "cstr" THEN      \* substring: 0 <= i <= j <= len
              (LET cs == st.strs[y.r] IN
               IF IdxKind(o.i) # "int" \/ IdxKind(o.j) # "int" THEN Same(st, IF IdxKind(o.i) = "bad" \/ IdxKind(o.j) = "bad" THEN ErrR ELSE OpenR)
               ELSE IF o.i.i < 0 \/ o.i.i > o.j.i \/ o.j.i > Len(cs) THEN Same(st, ErrR)
               ELSE {[st |-> NewStr(st, o.x, SubSeq(cs, o.i.i + 1, o.j.i)), res |-> OKR]})
         ELSE IF ~IsSlice(y) THEN Same(st, OpenR)
         ELSE IF IdxKind(o.i) # "int" \/ IdxKind(o.j) # "int" THEN Same(st, IF IdxKind(o.i) = "bad" \/ IdxKind(o.j) = "bad" THEN ErrR ELSE OpenR)
         ELSE IF o.i.i < 0 \/ o.i.i > o.j.i \/ o.j.i > y.cap THEN Same(st, ErrR)
         ELSE IF o.j.i > y.len THEN Same(st, OpenR)                         \* re-slicing between len and cap: left open
         ELSE Same(SetVar(st, o.x, V(y.t, 0, "", y.r, y.off + o.i.i, o.j.i - o.i.i, y.cap - o.i.i)), OKR)
    [] o.op = "slice3" ->    \* x = y[i:j:k]
         LET y == st.vars[o.y] IN
         IF y.t = "cstr" THEN Same(st, ErrR)                                  \* a string has no capacity
         ELSE IF ~IsSlice(y) THEN Same(st, OpenR)
         ELSE IF IdxKind(o.i) # "int" \/ IdxKind(o.j) # "int" \/ IdxKind(o.k) # "int" THEN Same(st, OpenR)
         ELSE IF o.i.i < 0 \/ o.i.i > o.j.i \/ o.j.i > o.k.i \/ o.k.i > y.cap THEN Same(st, ErrR)
         ELSE IF o.j.i > y.len THEN Same(st, OpenR)
         ELSE Same(SetVar(st, o.x, V(y.t, 0, "", y.r, y.off + o.i.i, o.j.i - o.i.i, o.k.i - o.i.i)), OKR)
    [] o.op = "len" -> IF IsSlice(x) THEN Same(st, Res("val", IntV(x.len)))
                       ELSE IF x.t \in {"map", "tmap"} THEN Same(st, Res("val", IntV(Len(st.maps[x.r]))))
                       ELSE IF x.t = "cstr" THEN Same(st, Res("val", IntV(Len(st.strs[x.r])))) ELSE Same(st, OpenR)
    [] o.op = "in" ->        \* v in x
         IF x.t \in {"cstr", "map", "tmap"} THEN Same(st, ErrR)              \* membership is defined on slices only: ill-typed operand
         ELSE IF ~IsSlice(x) THEN Same(st, OpenR)
         ELSE Same(st, Res("val", BoolV(\E q \in 0..(x.len - 1) : EqKey(Elem(st, x, q), o.v) /\ Elem(st, x, q).t = o.v.t)))
    [] o.op = "callwrite" -> \* wr(x)  with  wr = func(s) { s[0] = 7 } : slices are passed by reference
         IF x.t = "cstr" THEN Same(st, OKR)                                   \* a string is passed by value: the callee's store is its own
         ELSE IF ~IsSlice(x) THEN Same(st, OpenR)
         ELSE IF x.len = 0 /\ x.cap = 0 THEN Same(st, OKR)       \* index len appends: to the callee's own header only
         ELSE Same([st EXCEPT !.arrs[x.r][x.off + 1] = IntV(7)], OKR)   \* (with spare capacity the append lands in the shared array, beyond the caller's len)
    [] o.op = "bindelem" ->      \* y = x[i] : the variable gets the VALUE read; later stores into the container do not change it
         IF ~IsSlice(x) \/ IdxKind(o.i) # "int" THEN Same(st, OpenR)
         ELSE IF o.i.i < 0 \/ o.i.i >= x.len THEN Same(st, ErrR)
         ELSE Same(SetVar(st, o.y, Elem(st, x, o.i.i)), OKR)
    [] o.op = "bindfield" ->     \* y = x.A
         IF x.t # "struct" \/ o.s \notin {"A", "B"} THEN Same(st, OpenR)
         ELSE Same(SetVar(st, o.y, st.structs[x.r][o.s]), OKR)
    [] o.op = "getvar" ->        \* x  (a variable holding a scalar)
         IF x.t \in {"int", "str", "nil", "flt", "bool"} THEN Same(st, Res("val", x)) ELSE Same(st, OpenR)
    [] o.op = "callget" ->       \* rdA(x) with rdA = func(v) { return v.A } : ONE member-expression site used on structs of different types
         IF x.t # "struct" THEN Same(st, OpenR) ELSE Same(st, Res("val", st.structs[x.r].A))
    [] o.op = "structnew2" ->    \* x = make(U): a second struct type with the same field names in another order
         LET st0 == [st EXCEPT !.maps = Append(@, <<>>)]
             st1 == [st0 EXCEPT !.structs = Append(@, [A |-> IntV(0), B |-> StrV(""), M |-> TMapV(Len(st0.maps))])] IN
         Same(SetVar(st1, o.x, StructV(Len(st1.structs))), OKR)
    [] o.op = "concat" ->        \* x = y + z : Go's append(y, z...) -- within y's capacity the elements land in y's storage, else in a new array;
                                 \* into a typed y every element of z is converted first: one that cannot be is an error and NOTHING is written
         LET y == st.vars[o.y]  z == st.vars[o.k.s] IN
         IF ~IsSlice(y) \/ ~IsSlice(z) THEN Same(st, OpenR)
         ELSE LET zs0 == Elems(st, z)
                  cz == [q \in 1..Len(zs0) |-> IF y.t = "tslice" THEN ToInt64(zs0[q]) ELSE [ok |-> TRUE, v |-> zs0[q]]]
                  fill == IF y.t = "tslice" THEN IntV(0) ELSE NilV
                  n == y.len + z.len IN
              IF \E q \in 1..Len(zs0) : ~cz[q].ok THEN Same(st, ErrR)
              ELSE LET zs == [q \in 1..Len(zs0) |-> cz[q].v] IN
              IF n <= y.cap THEN Same(SetVar([st EXCEPT !.arrs[y.r] = [q \in 1..Len(@) |-> IF q > y.off + y.len /\ q <= y.off + n THEN zs[q - y.off - y.len] ELSE @[q]]],
                                             o.x, V(y.t, 0, "", y.r, y.off, n, y.cap)), OKR)
              ELSE IF o.cap < n THEN {}
              ELSE LET st1 == [st EXCEPT !.arrs = Append(@, [q \in 1..o.cap |-> IF q <= y.len THEN Elem(st, y, q - 1) ELSE IF q <= n THEN zs[q - y.len] ELSE fill])] IN
                   Same(SetVar(st1, o.x, V(y.t, 0, "", Len(st1.arrs), 0, n, o.cap)), OKR)
    [] o.op = "strlit" -> {[st |-> NewStr(st, o.x, o.cs), res |-> OKR]}       \* x = "abc"  (cs = its characters)
    [] o.op = "tmapnew" -> LET st1 == [st EXCEPT !.maps = Append(@, <<>>)] IN Same(SetVar(st1, o.x, TMapV(Len(st1.maps))), OKR)    \* x = make(map[string]int64)
    [] o.op = "mapset" /\ x.t = "tmap" ->     \* typed map: key and value are converted as Go would, or the store fails unchanged
         LET cv == ToInt64(o.v) IN
         IF ~Hashable(o.i) THEN Same(st, ErrR)
         ELSE IF o.i.t # "str" THEN Same(st, OpenR)                           \* non-string keys (rune conversion, nil): not asserted
         ELSE IF ~cv.ok THEN Same(st, ErrR)
         ELSE Same([st EXCEPT !.maps[x.r] = MapPut(@, o.i, cv.v, 1, <<>>)], OKR)
    [] o.op = "mapget" /\ x.t = "tmap" ->
         IF ~Hashable(o.i) THEN Same(st, Res("val", NilV))
         ELSE IF o.i.t # "str" THEN Same(st, OpenR)
         ELSE Same(st, Res("val", MapGet(st.maps[x.r], o.i, 1)))
    [] o.op = "mapdel" /\ x.t = "tmap" ->
         IF ~Hashable(o.i) THEN Same(st, ErrR)
         ELSE IF o.i.t # "str" THEN Same(st, OpenR)
         ELSE Same([st EXCEPT !.maps[x.r] = MapDel(@, o.i, 1, <<>>)], OKR)
    [] o.op = "mapnew" -> LET st1 == [st EXCEPT !.maps = Append(@, <<>>)] IN Same(SetVar(st1, o.x, MapV(Len(st1.maps))), OKR)
    [] o.op = "mapset" ->    \* x[i] = v
         IF x.t # "map" THEN Same(st, OpenR)
         ELSE IF ~Hashable(o.i) THEN Same(st, ErrR)
         ELSE Same([st EXCEPT !.maps[x.r] = MapPut(@, o.i, o.v, 1, <<>>)], OKR)
    [] o.op = "mapget" ->    \* x[i]   (missing key or unhashable key: nil)
         IF x.t # "map" THEN Same(st, OpenR)
         ELSE IF ~Hashable(o.i) THEN Same(st, Res("val", NilV))
         ELSE Same(st, Res("val", MapGet(st.maps[x.r], o.i, 1)))
    [] o.op = "mapdel" ->    \* delete(x, i)
         IF x.t # "map" THEN Same(st, OpenR)
         ELSE IF ~Hashable(o.i) THEN Same(st, ErrR)
         ELSE Same([st EXCEPT !.maps[x.r] = MapDel(@, o.i, 1, <<>>)], OKR)
    [] o.op = "fieldset" /\ o.s = "M" ->     \* x.M = {} / {"k": 7} / 5 : a field of type map[string]int64 holds a typed map -- a fresh one, converted from the literal
         IF x.t # "struct" THEN Same(st, OpenR)
         ELSE IF o.v.t = "maplit0" THEN LET st1 == [st EXCEPT !.maps = Append(@, <<>>)] IN Same([st1 EXCEPT !.structs[x.r].M = TMapV(Len(st1.maps))], OKR)
         ELSE IF o.v.t = "maplit1" THEN LET st1 == [st EXCEPT !.maps = Append(@, <<<<StrV("k"), IntV(7)>>>>)] IN Same([st1 EXCEPT !.structs[x.r].M = TMapV(Len(st1.maps))], OKR)
         ELSE IF o.v.t \in {"int", "str", "flt"} THEN Same(st, ErrR)
         ELSE Same(st, OpenR)
    [] o.op = "aliasfield" ->                 \* y = x.M : a second name for the field's map (maps are references)
         IF x.t # "struct" THEN Same(st, OpenR)
         ELSE IF st.structs[x.r].M.t # "tmap" THEN Same(st, OpenR)             \* a nil map: what writes through its alias do is not asserted
         ELSE Same(SetVar(st, o.y, st.structs[x.r].M), OKR)
    [] o.op = "fieldmapget" ->                \* x.M[i]
         IF x.t # "struct" THEN Same(st, OpenR)
         ELSE IF o.i.t # "str" THEN Same(st, OpenR)
         ELSE IF st.structs[x.r].M.t # "tmap" THEN Same(st, Res("val", NilV))   \* reading a nil map: nil
         ELSE Same(st, Res("val", MapGet(st.maps[st.structs[x.r].M.r], o.i, 1)))
    [] o.op = "fieldmapset" ->                \* x.M[i] = v
         IF x.t # "struct" THEN Same(st, OpenR)
         ELSE IF st.structs[x.r].M.t # "tmap" \/ o.i.t # "str" THEN Same(st, OpenR)
         ELSE LET cv == ToInt64(o.v) IN
              IF ~cv.ok THEN Same(st, ErrR) ELSE Same([st EXCEPT !.maps[st.structs[x.r].M.r] = MapPut(@, o.i, cv.v, 1, <<>>)], OKR)
    [] o.op = "fieldset" ->  \* x.A = v (int64 field) / x.B = v (string field) / x.Z = v (no such field)
         IF x.t # "struct" THEN Same(st, OpenR)
         ELSE IF o.s = "Z" THEN Same(st, ErrR)
         ELSE LET cv == IF o.s = "A" THEN ToInt64(o.v) ELSE ToStr(o.v) IN
              IF o.v.t = "nil" \/ (o.s = "B" /\ o.v.t = "int") THEN Same(st, OpenR)   \* nil into a typed field, and Go's integer-to-string (rune) conversion: not asserted
              ELSE IF ~cv.ok THEN Same(st, ErrR)
              ELSE Same([st EXCEPT !.structs[x.r][o.s] = cv.v], OKR)
    [] o.op = "fieldget" ->
         IF x.t # "struct" THEN Same(st, OpenR)
         ELSE IF o.s = "Z" THEN Same(st, ErrR)
         ELSE Same(st, Res("val", st.structs[x.r][o.s]))
    [] o.op = "structnew" ->     \* make(T): zero fields; a map-typed field is made ready for use (an empty map, not a nil one)
         LET st0 == [st EXCEPT !.maps = Append(@, <<>>)]
             st1 == [st0 EXCEPT !.structs = Append(@, [A |-> IntV(0), B |-> StrV(""), M |-> TMapV(Len(st0.maps))])] IN
         Same(SetVar(st1, o.x, StructV(Len(st1.structs))), OKR)

\* ---- observable projection: per variable its contents, length, capacity and with which other variables it shares storage
Share(st, n, m) ==      \* element offset of m's window relative to n's when both are slices of one array, else "no"
  LET a == st.vars[n]  b == st.vars[m] IN
  IF IsSlice(a) /\ IsSlice(b) /\ a.r = b.r /\ a.cap > 0 /\ b.cap > 0 /\ a.off < b.off + b.cap /\ b.off < a.off + a.cap   \* the capacity windows overlap
  THEN [same |-> TRUE, d |-> b.off - a.off] ELSE [same |-> FALSE, d |-> 0]
ProjVar(st, n) ==
  LET v == st.vars[n] IN
  CASE IsSlice(v) -> [t |-> v.t, len |-> v.len, cap |-> v.cap, elems |-> Elems(st, v)]
    [] v.t \in {"map", "tmap"} -> [t |-> v.t, len |-> Len(st.maps[v.r]), cap |-> 0, elems |-> <<>>]
    [] v.t = "cstr" -> [t |-> "str", len |-> Len(st.strs[v.r]), cap |-> 0, elems |-> [q \in 1..Len(st.strs[v.r]) |-> StrV(st.strs[v.r][q])]]
    [] OTHER -> [t |-> v.t, len |-> 0, cap |-> 0, elems |-> <<>>]
=============================================================================
