SPECIFICATION Spec
CONSTANTS
  Wrappers <- Stacks
  Variant = "DeferDrops"
INVARIANTS NoSwallow ResultIsInterrupt
PROPERTIES Interrupted
CHECK_DEADLOCK FALSE
