------------------------------ MODULE AnkoDefer ------------------------------
(***************************************************************************)
(* Deferred calls on EVERY way an invocation can end (property C09), the   *)
(* interruption of the run included.                                       *)
(*                                                                         *)
(* The interpreter thread runs inside a stack of invocations (frame 1 =    *)
(* top level of the script).  Each frame holds the calls deferred so far   *)
(* in it, in order of registration.  The thread may                        *)
(*   Enter     call a script function (push a frame)                       *)
(*   Register  run a `defer` statement (its arguments are values from now  *)
(*             on: the registration is the observable event reg(id))       *)
(*   Leave(r)  end the innermost invocation: r = "normal" | "return" |     *)
(*             "error" | "interrupt" -- for "error" and "interrupt" every  *)
(*             enclosing invocation is left for the same reason (no try in *)
(*             this model: try is AnkoSem's business)                      *)
(*   Release   while an invocation is being left: call the LAST registered *)
(*             deferred call that has not run (observable event rel(id))   *)
(*   Pop       all deferred calls of the invocation being left have run    *)
(* Cancel (the host) may happen at any moment; the next poll of the thread *)
(* turns it into Leave("interrupt").  A deferred call is a call of a HOST  *)
(* function here (unlock, close, release): it runs whatever the state of   *)
(* the context.                                                            *)
(*                                                                         *)
(* Properties: ExactlyOnce (when the run is over every registered call has *)
(* run once, none twice), LIFO (the calls of one invocation run in reverse *)
(* order of registration, and only while that invocation is being left),   *)
(* NothingAfterLeave (no registration in a frame that is being left).      *)
(* Variants are wrong designs used as negative controls:                   *)
(*   "PollBeforeDeferred"  a deferred call is not started once the run is  *)
(*                         cancelled (seeded change C09-m)                 *)
(*   "FIFO"                deferred calls run in order of registration     *)
(***************************************************************************)
EXTENDS Integers, Sequences, FiniteSets, TLC

CONSTANTS MaxDepth, MaxDefers, MaxCalls, Variant

VARIABLES frames,     \* sequence of frames, each a sequence of ids registered and not yet run
          leaving,    \* "no" | "normal" | "return" | "error" | "interrupt": why the innermost frame is being left
          cancelled,
          nextId, calls,
          hist,       \* observable history: <<"reg", id, depth>> / <<"rel", id, depth>>
          done
vars == <<frames, leaving, cancelled, nextId, calls, hist, done>>

Init == /\ frames = << <<>> >> /\ leaving = "no" /\ cancelled = FALSE /\ nextId = 1 /\ calls = 0 /\ hist = <<>> /\ done = FALSE

Depth == Len(frames)
Top == frames[Depth]

Cancel == ~cancelled /\ ~done /\ cancelled' = TRUE /\ UNCHANGED <<frames, leaving, nextId, calls, hist, done>>

\* every statement entry polls the context
Running == leaving = "no" /\ ~done
Poll == Running /\ cancelled /\ leaving' = "interrupt" /\ UNCHANGED <<frames, cancelled, nextId, calls, hist, done>>

Enter == /\ Running /\ ~cancelled /\ Depth < MaxDepth /\ calls < MaxCalls
         /\ frames' = Append(frames, <<>>) /\ calls' = calls + 1
         /\ UNCHANGED <<leaving, cancelled, nextId, hist, done>>

RegisterId(id) == /\ Running /\ ~cancelled /\ nextId <= MaxDefers
                  /\ frames' = [frames EXCEPT ![Depth] = Append(@, id)]
                  /\ hist' = Append(hist, <<"reg", id, Depth>>)
                  /\ nextId' = nextId + 1
                  /\ UNCHANGED <<leaving, cancelled, calls, done>>
Register == RegisterId(nextId)

Leave(r) == /\ Running /\ ~cancelled /\ r \in {"normal", "return", "error"}
            /\ leaving' = r
            /\ UNCHANGED <<frames, cancelled, nextId, calls, hist, done>>

Release == /\ leaving # "no" /\ Top # <<>>
           /\ IF Variant = "PollBeforeDeferred" /\ cancelled
              THEN frames' = [frames EXCEPT ![Depth] = <<>>] /\ UNCHANGED hist             \* the remaining deferred calls are skipped
              ELSE LET k == IF Variant = "FIFO" THEN 1 ELSE Len(Top) IN
                   /\ hist' = Append(hist, <<"rel", Top[k], Depth>>)
                   /\ frames' = [frames EXCEPT ![Depth] = [i \in 1..(Len(Top) - 1) |-> IF i < k THEN Top[i] ELSE Top[i + 1]]]
           /\ UNCHANGED <<leaving, cancelled, nextId, calls, done>>

Pop == /\ leaving # "no" /\ Top = <<>>
       /\ IF Depth = 1 THEN done' = TRUE /\ UNCHANGED <<frames, leaving>>
          ELSE /\ frames' = SubSeq(frames, 1, Depth - 1) /\ done' = FALSE
               /\ leaving' = IF leaving \in {"error", "interrupt"} THEN leaving ELSE "no"
       /\ UNCHANGED <<cancelled, nextId, calls, hist>>

Thread == Poll \/ Enter \/ Register \/ (\E r \in {"normal", "return", "error"} : Leave(r)) \/ Release \/ Pop
Next == Thread \/ Cancel \/ (done /\ UNCHANGED vars)
Spec == Init /\ [][Next]_vars /\ WF_vars(Thread)

----------------------------------------------------------------------------
Regs == {hist[i][2] : i \in {j \in 1..Len(hist) : hist[j][1] = "reg"}}
RelIdx(id) == {i \in 1..Len(hist) : hist[i][1] = "rel" /\ hist[i][2] = id}
RegIdx(id) == CHOOSE i \in 1..Len(hist) : hist[i][1] = "reg" /\ hist[i][2] = id

AtMostOnce == \A id \in Regs : Cardinality(RelIdx(id)) <= 1
ExactlyOnce == done => \A id \in Regs : Cardinality(RelIdx(id)) = 1
\* two calls deferred in the same invocation (same depth, no release of the first in between = same frame) run in reverse order
SameFrame(a, b) == /\ hist[RegIdx(a)][3] = hist[RegIdx(b)][3] /\ RegIdx(a) < RegIdx(b)
                   /\ \A i \in RegIdx(a)..RegIdx(b) : hist[i][3] >= hist[RegIdx(a)][3] /\ ~(hist[i][1] = "rel" /\ hist[i][3] = hist[RegIdx(a)][3])
LIFO == \A a \in Regs, b \in Regs :
          (a # b /\ SameFrame(a, b) /\ RelIdx(a) # {} /\ RelIdx(b) # {}) => (CHOOSE i \in RelIdx(b) : TRUE) < (CHOOSE i \in RelIdx(a) : TRUE)
\* a deferred call of an outer invocation never runs while an inner invocation still has calls to run
InnerFirst == \A i \in 1..Len(hist) : hist[i][1] = "rel" =>
                \A id \in Regs : (RegIdx(id) < i /\ hist[RegIdx(id)][3] > hist[i][3] /\ \A j \in RegIdx(id)..i : hist[j][3] >= hist[i][3]) => \E j \in RelIdx(id) : j < i
Finishes == <>done
=============================================================================
