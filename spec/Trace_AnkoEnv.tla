---------------------------- MODULE Trace_AnkoEnv ----------------------------
(* code -> spec: histories recorded from the real package env (random driver, many traces concatenated   *)
(* with "reset" lines) are accepted iff every call's result and the full projection after it are what     *)
(* AnkoEnv computes.  Deterministic, so the search is linear in the trace length.                         *)
EXTENDS Integers, Sequences, FiniteSets, TLC, Json

Trace == ndJsonDeserialize("env_trace.ndjson")
Hdr == Trace[1]
ToSet(q) == {q[i] : i \in 1..Len(q)}

E == INSTANCE AnkoEnv WITH Names <- ToSet(Hdr.names), Dotted <- ToSet(Hdr.dotted),
                           ExtV <- Hdr.extv, ExtT <- Hdr.extt, BuiltinT <- Hdr.builtin

VARIABLES sc, l
vars == <<sc, l>>

Init == sc = E!Init0 /\ l = 2 /\ TLCSet(1, 2)

Step == /\ l <= Len(Trace)
        /\ LET e == Trace[l] IN
           IF e.ev = "reset" THEN sc' = E!Init0
           ELSE LET r == E!Apply(sc, e.c) IN
                /\ r.res.k = e.res.k
                /\ r.res.i = e.res.i
                /\ r.res.s = ToSet(e.res.s)
                /\ Cardinality(r.res.s) = Len(e.res.s)       \* a listing names every symbol exactly once
                /\ E!Proj(r.sc) = e.post
                /\ sc' = r.sc
        /\ l' = l + 1
Spec == Init /\ [][Step]_vars

HighWater == TLCSet(1, IF l > TLCGet(1) THEN l ELSE TLCGet(1))
Accepted == /\ PrintT(<<"REACHED", TLCGet(1), Len(Trace)>>)
            /\ TLCGet(1) = Len(Trace) + 1
=============================================================================
