SPECIFICATION Spec
CONSTANTS
  W = 2
  Cap = 0
  Items <- Items2
  Variant = "code"
INVARIANTS ExactlyOnce NeverMore NoSendOnClosed
PROPERTIES Terminates
