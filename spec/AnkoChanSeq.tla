------------------------------ MODULE AnkoChanSeq ------------------------------
(***************************************************************************)
(* Channel operations as one goroutine sees them (error forms of C16):     *)
(* a program is a sequence of operations on one channel of capacity Cap    *)
(*   "s1" "s2"  send 1 / 2        "r"  x = <-c (receive expression)        *)
(*   "rk"       v, ok = <-c       "c"  close(c)                            *)
(* The run yields one observation per operation:                           *)
(*   send:  "ok" | "err" (closed channel)        close: "ok" | "err" (twice)*)
(*   r:     the value, or "nil" when closed and drained                    *)
(*   rk:    <<v, ok>> -- on a closed and drained channel ok = false and    *)
(*          v keeps the value it had before                                *)
(* A program that would block (send on a full open channel, receive on an  *)
(* empty open one) is marked "blocks" and not replayed.                    *)
(***************************************************************************)
EXTENDS Integers, Sequences, TLC

Obs(k, a, b) == [k |-> k, a |-> a, b |-> b]       \* uniformly typed observation
RECURSIVE Run(_, _, _, _, _, _, _)
\* buf, closed, v (the value variable of rk, initially 77), accumulated observations
Run(cap, ops, i, buf, closed, v, acc) ==
  IF i > Len(ops) THEN [blocks |-> FALSE, obs |-> acc]
  ELSE LET o == ops[i] IN
       CASE o \in {"s1", "s2"} ->
              IF closed THEN Run(cap, ops, i + 1, buf, closed, v, Append(acc, Obs("send", 0, 0)))          \* error, never a crash
              ELSE IF Len(buf) >= cap THEN [blocks |-> TRUE, obs |-> acc]
              ELSE Run(cap, ops, i + 1, Append(buf, IF o = "s1" THEN 1 ELSE 2), closed, v, Append(acc, Obs("send", 1, 0)))
         [] o = "c" ->
              IF closed THEN Run(cap, ops, i + 1, buf, closed, v, Append(acc, Obs("close", 0, 0)))
              ELSE Run(cap, ops, i + 1, buf, TRUE, v, Append(acc, Obs("close", 1, 0)))
         [] o = "r" ->
              IF Len(buf) > 0 THEN Run(cap, ops, i + 1, Tail(buf), closed, v, Append(acc, Obs("recv", Head(buf), 1)))
              ELSE IF closed THEN Run(cap, ops, i + 1, buf, closed, v, Append(acc, Obs("recv", 0, 0)))      \* nil
              ELSE [blocks |-> TRUE, obs |-> acc]
         [] o = "rk" ->
              IF Len(buf) > 0 THEN Run(cap, ops, i + 1, Tail(buf), closed, Head(buf), Append(acc, Obs("recvok", Head(buf), 1)))
              ELSE IF closed THEN Run(cap, ops, i + 1, buf, closed, v, Append(acc, Obs("recvok", v, 0)))     \* ok = false, v untouched
              ELSE [blocks |-> TRUE, obs |-> acc]
SeqRun(cap, ops) == Run(cap, ops, 1, <<>>, FALSE, 77, <<>>)
=============================================================================
