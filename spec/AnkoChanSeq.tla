------------------------------ MODULE AnkoChanSeq ------------------------------
(***************************************************************************)
(* Channel operations as one goroutine sees them (error forms of C16):     *)
(* a program is a sequence of operations on one channel of capacity Cap    *)
(*   "s1" "s2"  send 1 / 2        "r"  x = <-c (receive expression)        *)
(*   "rk"       v, ok = <-c       "c"  close(c)                            *)
(*   "sw"       switch <-c { case 5: .. case 2: .. case 1: .. case nil: .. } *)
(*   "rl"       d <- c  (relay: one item received from c is sent on to a   *)
(*              second, roomy channel d; from a closed and drained c       *)
(*              nothing is sent)          "dl"  len(d)                     *)
(* The run yields one observation per operation:                           *)
(*   send:  "ok" | "err" (closed channel)        close: "ok" | "err" (twice)*)
(*   r:     the value, or "nil" when closed and drained                    *)
(*   rk:    <<v, ok>> -- on a closed and drained channel ok = false and    *)
(*          v keeps the value it had before                                *)
(* A program that would block (send on a full open channel, receive on an  *)
(* empty open one) is marked "blocks" and not replayed.                    *)
(***************************************************************************)
EXTENDS Integers, Sequences, TLC

Obs(k, a, b) == [k |-> k, a |-> a, b |-> b]       \* uniformly typed observation
RECURSIVE Run(_, _, _, _, _, _, _), RunD(_, _, _, _, _, _, _, _)
\* buf, closed, v (the value variable of rk, initially 77), accumulated observations
Run(cap, ops, i, buf, closed, v, acc) ==
  IF i > Len(ops) THEN [blocks |-> FALSE, obs |-> acc]
  ELSE LET o == ops[i] IN
       CASE o \in {"s1", "s2"} ->
              IF closed THEN Run(cap, ops, i + 1, buf, closed, v, Append(acc, Obs("send", 0, 0)))          \* error, never a crash
              ELSE IF Len(buf) >= cap THEN [blocks |-> TRUE, obs |-> acc]
              ELSE Run(cap, ops, i + 1, Append(buf, IF o = "s1" THEN 1 ELSE 2), closed, v, Append(acc, Obs("send", 1, 0)))
         [] o = "c" ->
              IF closed THEN Run(cap, ops, i + 1, buf, closed, v, Append(acc, Obs("close", 0, 0)))
              ELSE Run(cap, ops, i + 1, buf, TRUE, v, Append(acc, Obs("close", 1, 0)))
         [] o = "r" ->
              IF Len(buf) > 0 THEN Run(cap, ops, i + 1, Tail(buf), closed, v, Append(acc, Obs("recv", Head(buf), 1)))
              ELSE IF closed THEN Run(cap, ops, i + 1, buf, closed, v, Append(acc, Obs("recv", 0, 0)))      \* nil
              ELSE [blocks |-> TRUE, obs |-> acc]
         [] o = "sw" ->          \* switch <-c { case ... }: the subject is ONE receive, whatever the number of cases tried
              IF Len(buf) > 0 THEN Run(cap, ops, i + 1, Tail(buf), closed, v, Append(acc, Obs("switch", Head(buf), 1)))
              ELSE IF closed THEN Run(cap, ops, i + 1, buf, closed, v, Append(acc, Obs("switch", 0, 0)))    \* nil
              ELSE [blocks |-> TRUE, obs |-> acc]
         [] o = "rk" ->
              IF Len(buf) > 0 THEN Run(cap, ops, i + 1, Tail(buf), closed, Head(buf), Append(acc, Obs("recvok", Head(buf), 1)))
              ELSE IF closed THEN Run(cap, ops, i + 1, buf, closed, v, Append(acc, Obs("recvok", v, 0)))     \* ok = false, v untouched
              ELSE [blocks |-> TRUE, obs |-> acc]
\* the same with the relay target d (never closed, never full): its content is the extra state
RunD(cap, ops, i, buf, closed, v, acc, dbuf) ==
  IF i > Len(ops) THEN [blocks |-> FALSE, obs |-> acc]
  ELSE LET o == ops[i] IN
       CASE o = "rl" ->
              IF Len(buf) > 0 THEN RunD(cap, ops, i + 1, Tail(buf), closed, v, Append(acc, Obs("relay", Head(buf), 1)), Append(dbuf, Head(buf)))
              ELSE IF closed THEN RunD(cap, ops, i + 1, buf, closed, v, Append(acc, Obs("relay", 0, 0)), dbuf)     \* nothing to pass on
              ELSE [blocks |-> TRUE, obs |-> acc]
         [] o = "dl" -> RunD(cap, ops, i + 1, buf, closed, v, Append(acc, Obs("dlen", Len(dbuf), 0)), dbuf)
         [] OTHER ->    \* an operation on c alone: one step of Run
              LET r == Run(cap, <<o>>, 1, buf, closed, v, <<>>) IN
              IF r.blocks THEN [blocks |-> TRUE, obs |-> acc]
              ELSE LET ob == r.obs[1]
                       buf2 == CASE o \in {"s1", "s2"} /\ ob.a = 1 -> Append(buf, IF o = "s1" THEN 1 ELSE 2)
                                 [] o \in {"r", "rk", "sw"} /\ ob.b = 1 -> Tail(buf)
                                 [] OTHER -> buf
                       v2 == IF o = "rk" /\ ob.b = 1 THEN ob.a ELSE v IN
                   RunD(cap, ops, i + 1, buf2, closed \/ (o = "c"), v2, Append(acc, ob), dbuf)
\* capacity law (checked for the bounded capacities; replayed at scale): a channel made with capacity n takes exactly n sends without a receiver,
\* and then hands them out in order
Sends(n) == [j \in 1..n |-> IF j % 2 = 1 THEN "s1" ELSE "s2"]
CapacityLaw(cap) == /\ ~Run(cap, Sends(cap), 1, <<>>, FALSE, 77, <<>>).blocks
                    /\ Run(cap, Sends(cap + 1), 1, <<>>, FALSE, 77, <<>>).blocks
                    /\ LET r == Run(cap, Sends(cap) \o <<"c">> \o [j \in 1..(cap + 1) |-> "r"], 1, <<>>, FALSE, 77, <<>>) IN
                       /\ ~r.blocks
                       /\ \A j \in 1..cap : r.obs[cap + 1 + j] = Obs("recv", IF j % 2 = 1 THEN 1 ELSE 2, 1)
                       /\ r.obs[2 * cap + 2] = Obs("recv", 0, 0)
SeqRun(cap, ops) == IF \E j \in 1..Len(ops) : ops[j] \in {"rl", "dl"} THEN RunD(cap, ops, 1, <<>>, FALSE, 77, <<>>, <<>>)
                    ELSE Run(cap, ops, 1, <<>>, FALSE, 77, <<>>)
=============================================================================
