---------------------------- MODULE MC_AnkoLiteral ----------------------------
EXTENDS AnkoLiteral, Json
Cases == ndJsonDeserialize("literal_cases.ndjson")
VARIABLES i, done
Init == i \in 1..Len(Cases) /\ done = FALSE
Step == ~done /\ done' = TRUE /\ i' = i /\ PrintT(ToJson([src |-> Cases[i].src, exp |-> Denotation(Cases[i])]))
Spec == Init /\ [][Step]_<<i, done>>
=============================================================================
