------------------------------ MODULE AnkoLiteral ------------------------------
(***************************************************************************)
(* What a literal denotes (second half of property C03).                   *)
(* Integer literals: a sign, a base (10, 16, 2) and the digit values; the  *)
(* denotation is the exact number if it is representable in int64, else    *)
(* "reject" (computed with the limb arithmetic of Int64, W = 8).           *)
(* Float literals: a primitive -- the IEEE bytes of the correctly rounded  *)
(* value are supplied by the case generator (reject when out of range).    *)
(* String literals: the characters between the quotes go through the       *)
(* escape transducer (\b \f \r \n \t, any other escaped character stands   *)
(* for itself); a newline inside a quoted string, or a missing terminator, *)
(* rejects; raw strings are verbatim.                                      *)
(***************************************************************************)
EXTENDS Integers, Sequences, TLC
I == INSTANCE Int64 WITH W <- 8

MaxU == [i \in 1..8 |-> 255]
Small(n) == I!FromInt(n)

\* unsigned accumulate acc*base + d with overflow detection
RECURSIVE Accum(_, _, _, _)
Accum(ds, i, base, acc) ==
  IF i > Len(ds) THEN [ok |-> TRUE, v |-> acc]
  ELSE LET lim == I!UDivMod(MaxU, Small(base)).q IN
       IF I!ULt(lim, acc) THEN [ok |-> FALSE, v |-> acc]
       ELSE LET m == I!Mul(acc, Small(base))
                s == I!Add(m, Small(ds[i])) IN
            IF I!ULt(s, m) THEN [ok |-> FALSE, v |-> acc] ELSE Accum(ds, i + 1, base, s)

IntDenotation(neg, base, ds) ==
  IF Len(ds) = 0 THEN [t |-> "reject", l |-> <<>>, cs |-> <<>>]
  ELSE LET a == Accum(ds, 1, base, I!Zero) IN
       IF ~a.ok THEN [t |-> "reject", l |-> <<>>, cs |-> <<>>]
       ELSE IF neg THEN (IF I!ULt(I!MinInt, a.v) THEN [t |-> "reject", l |-> <<>>, cs |-> <<>>] ELSE [t |-> "int", l |-> I!Neg(a.v), cs |-> <<>>])
       ELSE IF I!ULt(a.v, I!MinInt) THEN [t |-> "int", l |-> a.v, cs |-> <<>>] ELSE [t |-> "reject", l |-> <<>>, cs |-> <<>>]

\* escape transducer over code points; 92 = backslash, 10 = newline
RECURSIVE Unescape(_, _, _)
Esc(c) == CASE c = 98 -> 8 [] c = 102 -> 12 [] c = 114 -> 13 [] c = 110 -> 10 [] c = 116 -> 9 [] OTHER -> c
Unescape(cs, i, acc) ==
  IF i > Len(cs) THEN [ok |-> TRUE, v |-> acc]
  ELSE IF cs[i] = 10 THEN [ok |-> FALSE, v |-> acc]                    \* newline inside a quoted string
  ELSE IF cs[i] = 92 THEN (IF i = Len(cs) THEN [ok |-> FALSE, v |-> acc] ELSE Unescape(cs, i + 2, Append(acc, Esc(cs[i + 1]))))
  ELSE Unescape(cs, i + 1, Append(acc, cs[i]))

Denotation(c) ==
  CASE c.kind \in {"dec", "hex", "bin"} -> IntDenotation(c.neg, CASE c.kind = "dec" -> 10 [] c.kind = "hex" -> 16 [] OTHER -> 2, c.digits)
    [] c.kind = "flt" -> IF c.frange THEN [t |-> "flt", l |-> c.fbits, cs |-> <<>>] ELSE [t |-> "reject", l |-> <<>>, cs |-> <<>>]
    [] c.kind = "quoted" -> IF ~c.terminated THEN [t |-> "reject", l |-> <<>>, cs |-> <<>>]
                            ELSE LET u == Unescape(c.cs, 1, <<>>) IN IF u.ok THEN [t |-> "str", l |-> <<>>, cs |-> u.v] ELSE [t |-> "reject", l |-> <<>>, cs |-> <<>>]
    [] c.kind = "raw" -> IF c.terminated THEN [t |-> "str", l |-> <<>>, cs |-> c.cs] ELSE [t |-> "reject", l |-> <<>>, cs |-> <<>>]
=============================================================================
