-------------------------- MODULE AnkoCancelProofs --------------------------
(***************************************************************************)
(* Unbounded safety of the cancellation design (property C02): for EVERY   *)
(* set of wrapper stacks -- any depth, any wrapper names -- the design     *)
(* "code" of AnkoCancel never lets a script effect happen after a poll has *)
(* seen the cancellation (NoSwallow) and never finishes a cancelled run    *)
(* with anything but the interrupt (ResultIsInterrupt).  TLC checks the    *)
(* same for stacks of up to three wrappers (and the liveness property);    *)
(* this module is checked by the TLA+ proof system (tlapm).                *)
(***************************************************************************)
EXTENDS AnkoCancel, TLAPS

ASSUME VariantIsCode == Variant = "code"

IndInv ==
  /\ phase \in {"spin", "unwind", "resume", "done"}
  /\ err \in {"none", "sentinel", "wrapped"}
  /\ effects \in Nat /\ effectsAtObserve \in Nat
  /\ cancelled \in BOOLEAN /\ observed \in BOOLEAN
  /\ observed => cancelled
  /\ observed => effects = effectsAtObserve
  /\ phase = "unwind" => (err # "none" /\ observed)
  /\ phase = "resume" => (err = "none" /\ cancelled)
  /\ phase = "done" => err # "none"

LEMMA InitInv == Init => IndInv
  BY DEF Init, IndInv

LEMMA CancelInv == IndInv /\ Cancel => IndInv'
  BY DEF IndInv, Cancel

LEMMA SpinInv == IndInv /\ Spin => IndInv'
  BY DEF IndInv, Spin, Observe

LEMMA ResumeInv == IndInv /\ Resume => IndInv'
  BY VariantIsCode DEF IndInv, Resume, Observe

LEMMA UnwindInv == IndInv /\ Unwind => IndInv'
<1> SUFFICES ASSUME IndInv, Unwind PROVE IndInv'
  OBVIOUS
<1>1. CASE level = 0
  BY <1>1 DEF IndInv, Unwind
<1>2. CASE level # 0
  <2> DEFINE w == ws[level]
  <2>1. CASE w = "fn"
    BY <1>2, <2>1 DEF IndInv, Unwind
  <2>2. CASE w = "try"
    BY <1>2, <2>2 DEF IndInv, Unwind
  <2>3. CASE w = "nilco"
    BY <1>2, <2>3, VariantIsCode DEF IndInv, Unwind
  <2>4. CASE w = "defer"
    BY <1>2, <2>4, VariantIsCode DEF IndInv, Unwind
  <2>5. CASE w \notin {"fn", "try", "nilco", "defer"}
    BY <1>2, <2>5 DEF IndInv, Unwind
  <2> QED BY <2>1, <2>2, <2>3, <2>4, <2>5
<1> QED BY <1>1, <1>2

LEMMA StutterInv == IndInv /\ UNCHANGED vars => IndInv'
  BY DEF IndInv, vars

THEOREM Safety == Init /\ [][Next]_vars => [](NoSwallow /\ ResultIsInterrupt)
<1>1. Init => IndInv
  BY InitInv
<1>2. IndInv /\ [Next]_vars => IndInv'
  BY CancelInv, SpinInv, ResumeInv, UnwindInv, StutterInv DEF Next, Thread
<1>3. IndInv => NoSwallow /\ ResultIsInterrupt
  BY DEF IndInv, NoSwallow, ResultIsInterrupt
<1> QED BY <1>1, <1>2, <1>3, PTL
=============================================================================
