SPECIFICATION Spec
CONSTANTS
  Depth = 4
  Family = "slice"
  Emit = FALSE
  Mutant = "none"
VIEW View
INVARIANTS WindowOK TypedHolds
PROPERTIES ErrUnchanged ReadsPure StoreExact SliceShares AliasIsReference GrowthLocal StringsAreValues MapAliasing BoundValuesStay
CHECK_DEADLOCK FALSE
