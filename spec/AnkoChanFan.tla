------------------------------ MODULE AnkoChanFan ------------------------------
(***************************************************************************)
(* Fan-out: W worker goroutines range over ONE shared input channel and    *)
(* forward each item (+10) to one shared output channel; a closer closes   *)
(* the output when every worker has finished; the main script collects.    *)
(*   producer:  for each item: in <- item;  close(in)                      *)
(*   worker w:  for v in in { out <- v + 10 };  done <- 1                  *)
(*   closer:    receive W times from done;  close(out)                     *)
(*   consumer:  for v in out { res += v }                                  *)
(* Checked under every interleaving: every item is delivered exactly once  *)
(* (the collected values are a permutation of items + 10: nothing lost,    *)
(* nothing invented -- in particular no zero value from a closed channel), *)
(* nobody sends on a closed channel, and the whole thing terminates.       *)
(* Variant "RecvAfterCloseYieldsZero" (negative control): a worker that    *)
(* finds the input closed and drained forwards a zero once.                *)
(***************************************************************************)
EXTENDS Integers, Sequences, FiniteSets, TLC

CONSTANTS W, Cap, Items, Variant

Workers == 1..W
VARIABLES inb, inclosed, outb, outclosed, ndone, pidx, wpc, whold, cpc, collected, zeroed
vars == <<inb, inclosed, outb, outclosed, ndone, pidx, wpc, whold, cpc, collected, zeroed>>

Init == /\ inb = <<>> /\ inclosed = FALSE /\ outb = <<>> /\ outclosed = FALSE /\ ndone = 0 /\ pidx = 1
        /\ wpc = [w \in Workers |-> "recv"] /\ whold = [w \in Workers |-> 0] /\ cpc = "wait" /\ collected = <<>> /\ zeroed = [w \in Workers |-> FALSE]

Room(b) == IF Cap = 0 THEN Len(b) = 0 ELSE Len(b) < Cap         \* (an unbuffered channel is modelled as a one-slot hand-over)

ProdSend == /\ pidx <= Len(Items) /\ ~inclosed /\ Room(inb) /\ inb' = Append(inb, Items[pidx]) /\ pidx' = pidx + 1
            /\ UNCHANGED <<inclosed, outb, outclosed, ndone, wpc, whold, cpc, collected, zeroed>>
ProdClose == /\ pidx > Len(Items) /\ ~inclosed /\ inclosed' = TRUE
             /\ UNCHANGED <<inb, outb, outclosed, ndone, pidx, wpc, whold, cpc, collected, zeroed>>

WRecv(w) == /\ wpc[w] = "recv" /\ Len(inb) > 0
            /\ whold' = [whold EXCEPT ![w] = Head(inb) + 10] /\ inb' = Tail(inb) /\ wpc' = [wpc EXCEPT ![w] = "send"]
            /\ UNCHANGED <<inclosed, outb, outclosed, ndone, pidx, cpc, collected, zeroed>>
WSeeClosed(w) == /\ wpc[w] = "recv" /\ Len(inb) = 0 /\ inclosed
                 /\ IF Variant = "RecvAfterCloseYieldsZero" /\ ~zeroed[w]
                    THEN whold' = [whold EXCEPT ![w] = 10] /\ wpc' = [wpc EXCEPT ![w] = "send"] /\ zeroed' = [zeroed EXCEPT ![w] = TRUE]
                    ELSE wpc' = [wpc EXCEPT ![w] = "signal"] /\ UNCHANGED <<whold, zeroed>>
                 /\ UNCHANGED <<inb, inclosed, outb, outclosed, ndone, pidx, cpc, collected>>
WSend(w) == /\ wpc[w] = "send" /\ Room(outb) /\ outb' = Append(outb, whold[w]) /\ wpc' = [wpc EXCEPT ![w] = "recv"]
            /\ UNCHANGED <<inb, inclosed, outclosed, ndone, pidx, whold, cpc, collected, zeroed>>
WSignal(w) == /\ wpc[w] = "signal" /\ ndone' = ndone + 1 /\ wpc' = [wpc EXCEPT ![w] = "done"]
              /\ UNCHANGED <<inb, inclosed, outb, outclosed, pidx, whold, cpc, collected, zeroed>>
Closer == /\ ndone = W /\ ~outclosed /\ outclosed' = TRUE
          /\ UNCHANGED <<inb, inclosed, outb, ndone, pidx, wpc, whold, cpc, collected, zeroed>>
Collect == /\ cpc = "wait" /\ Len(outb) > 0 /\ collected' = Append(collected, Head(outb)) /\ outb' = Tail(outb)
           /\ UNCHANGED <<inb, inclosed, outclosed, ndone, pidx, wpc, whold, cpc, zeroed>>
Finish == /\ cpc = "wait" /\ Len(outb) = 0 /\ outclosed /\ cpc' = "done"
          /\ UNCHANGED <<inb, inclosed, outb, outclosed, ndone, pidx, wpc, whold, collected, zeroed>>

Done == cpc = "done"
Next == ProdSend \/ ProdClose \/ (\E w \in Workers : WRecv(w) \/ WSeeClosed(w) \/ WSend(w) \/ WSignal(w)) \/ Closer \/ Collect \/ Finish \/ (Done /\ UNCHANGED vars)
Spec == Init /\ [][Next]_vars /\ WF_vars(Next)

SeqBag(s) == [v \in {s[i] : i \in 1..Len(s)} |-> Cardinality({i \in 1..Len(s) : s[i] = v})]      \* the multiset of a sequence
Expected == [i \in 1..Len(Items) |-> Items[i] + 10]
ExactlyOnce == Done => SeqBag(collected) = SeqBag(Expected)
NeverMore == Len(collected) <= Len(Items)
NoSendOnClosed == \A w \in Workers : wpc[w] = "send" => ~outclosed
Terminates == <>Done
=============================================================================
