SPECIFICATION Spec
CONSTANTS
  W = 2
  Pool <- PoolW2
INVARIANTS Checked
CHECK_DEADLOCK FALSE
