SPECIFICATION Spec
CONSTANTS
  Shard = "var"
CHECK_DEADLOCK FALSE
