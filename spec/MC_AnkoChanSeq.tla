---------------------------- MODULE MC_AnkoChanSeq ----------------------------
EXTENDS AnkoChanSeq, Json
CONSTANTS MaxLen, Caps
OpsA == {"s1", "s2", "r", "rk", "c"}
OpsS == {"s1", "s2", "sw", "c", "r"}          \* programs with a receive as a switch subject
OpsR == {"s1", "c", "rl", "dl", "r"}          \* programs with the relay form (a shorter bound: the alphabet is as large)
VARIABLES prog, cap, done
Init == prog \in UNION {[1..n -> OpsA] : n \in 1..MaxLen} \cup UNION {[1..n -> OpsR] : n \in 1..(MaxLen - 1)} \cup UNION {[1..n -> OpsS] : n \in 1..(MaxLen - 1)} /\ cap \in Caps /\ done = FALSE
Step == ~done /\ done' = TRUE /\ UNCHANGED <<prog, cap>>
        /\ LET r == SeqRun(cap, prog) IN PrintT(ToJson([cap |-> cap, ops |-> prog, blocks |-> r.blocks, obs |-> r.obs]))
ASSUME \A c \in 1..4 : CapacityLaw(c)
Spec == Init /\ [][Step]_<<prog, cap, done>>
=============================================================================
