-------------------------- MODULE Trace_AnkoProvenance --------------------------
EXTENDS AnkoProvenance, Json
Obs == ndJsonDeserialize("prov_obs.ndjson")
VARIABLE l
Init == l = 1 /\ TLCSet(1, 1)
Step == l <= Len(Obs) /\ (IF Law(Obs[l]) THEN TRUE ELSE PrintT(<<"REJECT", l>>)) /\ l' = l + 1
Spec == Init /\ [][Step]_l
HighWater == TLCSet(1, IF l > TLCGet(1) THEN l ELSE TLCGet(1))
Accepted == PrintT(<<"REACHED", TLCGet(1), Len(Obs)>>) /\ TLCGet(1) = Len(Obs) + 1
=============================================================================
