---------------------------- MODULE MC_AnkoBuiltins ----------------------------
EXTENDS AnkoBuiltins, Json
Cases == ndJsonDeserialize("builtin_cases.ndjson")      \* [id, fn, args (limb lists) | v (annotated value)]
VARIABLES i, done
Init == i \in 1..Len(Cases) /\ done = FALSE
Exp(c) == CASE c.fn = "range" -> LET r == Range(c.args) IN [k |-> IF r.ok THEN (IF r.long THEN "long" ELSE "list") ELSE "err", l |-> <<>>, x |-> "", seq |-> r.v]
            [] c.fn = "toInt" -> LET r == ToInt(c.v) IN [k |-> r.k, l |-> r.l, x |-> r.x, seq |-> <<>>]
            [] c.fn = "toFloat" -> LET r == ToFloat(c.v) IN [k |-> r.k, l |-> r.l, x |-> r.x, seq |-> <<>>]
Step == ~done /\ done' = TRUE /\ i' = i /\ PrintT(ToJson([id |-> Cases[i].id, exp |-> Exp(Cases[i])]))
Spec == Init /\ [][Step]_<<i, done>>
=============================================================================
