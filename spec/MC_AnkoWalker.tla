---------------------------- MODULE MC_AnkoWalker ----------------------------
(* The walker machine explored exhaustively on all trees with up to N nodes: every behaviour presents parents first,     *)
(* can only finish when everything was presented, and a callback failure ends it at once.                             *)
EXTENDS AnkoWalker, TLC
CONSTANT N
VARIABLES par, st, failat
vars == <<par, st, failat>>
Trees == UNION {[1..k -> 0..k] : k \in 1..N}
IsTree(p) == \A x \in DOMAIN p : p[x] < x             \* parents numbered before children (every tree has such a numbering)
Init == par \in {p \in Trees : IsTree(p)} /\ st = S0 /\ failat \in 0..N
Next == \/ \E x \in DOMAIN par \ st.visited : CanVisit(par, st, x) /\ st' = (IF failat = st.n + 1 THEN Fail(Visit(st, x)) ELSE Visit(st, x)) /\ UNCHANGED <<par, failat>>
        \/ CanFinish(par, st) /\ st' = Finish(st) /\ UNCHANGED <<par, failat>>
Spec == Init /\ [][Next]_vars
ParentFirst == \A x \in st.visited : par[x] = 0 \/ par[x] \in st.visited
DoneMeansAll == st.status = "done" => st.visited = DOMAIN par /\ st.err = "nil"
FailStops == st.status = "failed" => st.n = failat /\ st.err = "cb"
=============================================================================
