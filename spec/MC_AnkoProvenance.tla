--------------------------- MODULE MC_AnkoProvenance ---------------------------
EXTENDS AnkoProvenance, Json
CONSTANTS MaxChain, Vars
Templates == ndJsonDeserialize("prov_templates.ndjson")      \* [id, pre, post]
VARIABLES c, done
Cases == [t : 1..Len(Templates), v : Vars, ch : ChainsUpTo(MaxChain) \ {<<>>}]
Init == c \in Cases /\ done = FALSE
Step == ~done /\ done' = TRUE /\ c' = c
        /\ PrintT(ToJson([t |-> Templates[c.t].id, v |-> c.v, chain |-> c.ch,
                          src |-> Templates[c.t].pre \o Operand(c.v, c.ch) \o Templates[c.t].post,
                          basesrc |-> Templates[c.t].pre \o c.v \o Templates[c.t].post]))
Spec == Init /\ [][Step]_<<c, done>>
=============================================================================
