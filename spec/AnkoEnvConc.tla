---------------------------- MODULE AnkoEnvConc ----------------------------
(***************************************************************************)
(* package env shared between goroutines, at lock-acquisition granularity  *)
(* (property C13).  One shared child scope "c" above a parent "p"; every   *)
(* API call is a micro-program of lock operations and table accesses that  *)
(* mirrors where env/*.go takes and releases each scope's sync.RWMutex:    *)
(*   rl/ru = RLock/RUnlock, lq = Lock() called (writer now pending: Go     *)
(*   blocks NEW readers from here on), la = Lock() returns, ul = Unlock,   *)
(*   act = table access inside the section.                                *)
(* Properties: Linearizable (results and final tables are those of some    *)
(* one-at-a-time order respecting each goroutine's own order, computed     *)
(* from the sequential specification AnkoEnv), LockDiscipline (no table    *)
(* access outside a section of the right mode), absence of deadlock.       *)
(* Variant names deliberately wrong designs used as negative controls.     *)
(***************************************************************************)
EXTENDS Integers, Sequences, FiniteSets, TLC

CONSTANTS Procs, NOps, Alphabet, InitTabs, ParentTab, Variant

Names == {"x", "y", "p"}
\* the shared scope has an external lookup that knows the name "ext" (consulted after the scope's own table, outside its lock)
E == INSTANCE AnkoEnv WITH Names <- Names \cup {"ext"}, Dotted <- {}, ExtV <- [n \in {"ext"} |-> 77], ExtT <- [n \in {} |-> 0], BuiltinT <- [n \in {} |-> 0]

VARIABLES tab,    \* [{"c","p"} -> value table]
          rd,     \* [{"c","p"} -> [Procs -> Nat]]   read holds
          wr,     \* [{"c","p"} -> Procs \cup {0}]    write holder
          pend,   \* [{"c","p"} -> SUBSET Procs]      Lock() called, not yet returned
          prog,   \* [Procs -> Seq(op)]
          idx,    \* [Procs -> 1..NOps+1]
          code,   \* [Procs -> Seq(instr)]  rest of the current call's micro-program (<<>> = between calls)
          res,    \* [Procs -> Seq(R)]
          tab0,   \* initial child table (for the sequential reference)
          bad     \* set by a table access made without the right lock
vars == <<tab, rd, wr, pend, prog, idx, code, res, tab0, bad>>

I(i, m, a) == [i |-> i, m |-> m, a |-> a]
RL(m) == I("rl", m, "")   RU(m) == I("ru", m, "")
LQ(m) == I("lq", m, "")   LA(m) == I("la", m, "")   UL(m) == I("ul", m, "")
Act(a) == I("act", "", a)

Op(o, n, v) == [op |-> o, n |-> n, v |-> v]

\* the micro-program a call starts with (the continuation after a test is chosen by the act itself)
Start(o) ==
  CASE o.op = "Define"       -> IF Variant = "UnlockedDefine" THEN <<Act("put")>> ELSE <<LQ("c"), LA("c"), Act("put"), UL("c")>>
    [] o.op = "Set"          -> IF Variant = "SplitSet" THEN <<RL("c"), Act("set_test")>> ELSE <<LQ("c"), LA("c"), Act("set_c")>>
    [] o.op = "Get"          -> <<RL("c"), Act("get_c")>>
    [] o.op = "Delete"       -> <<LQ("c"), LA("c"), Act("del_c"), UL("c")>>
    [] o.op = "DeleteGlobal" -> <<RL("c"), Act("dg_test")>>
    [] o.op = "Copy"         -> IF Variant = "NestedCopy" THEN <<RL("c"), RL("c"), Act("snap"), RU("c"), RU("c")>> ELSE <<RL("c"), Act("snap"), RU("c")>>
    [] o.op = "Symbols"      -> <<RL("c"), Act("syms"), RU("c")>>
    [] o.op = "Addr"         -> <<RL("c"), Act("addr_c")>>

Enc(f) == {n \o "=" \o ToString(f[n]) : n \in DOMAIN f}
ReadersOf(m) == {q \in Procs : rd[m][q] > 0}
HoldsR(p, m) == rd[m][p] > 0 \/ wr[m] = p
HoldsW(p, m) == wr[m] = p

Cur(p) == prog[p][idx[p]]
Rest(p) == Tail(code[p])
Append1(p, r) == [res EXCEPT ![p] = Append(@, r)]

\* table accesses: each yields new tab, result list, continuation, and whether the lock held was sufficient
DoAct(p, a) ==
  LET o == Cur(p)  c == tab["c"]  par == tab["p"] IN
  CASE a = "put"      -> /\ tab' = [tab EXCEPT !["c"] = E!Put(@, o.n, o.v)] /\ res' = Append1(p, E!OK) /\ code' = [code EXCEPT ![p] = Rest(p)]
                         /\ bad' = (bad \/ ~HoldsW(p, "c"))
    [] a = "set_c"    -> IF E!Has(c, o.n)
                         THEN /\ tab' = [tab EXCEPT !["c"] = E!Put(@, o.n, o.v)] /\ res' = Append1(p, E!OK) /\ code' = [code EXCEPT ![p] = <<UL("c")>>]
                              /\ bad' = (bad \/ ~HoldsW(p, "c"))
                         ELSE /\ UNCHANGED <<tab, res>> /\ code' = [code EXCEPT ![p] = <<UL("c"), LQ("p"), LA("p"), Act("set_p")>>]
                              /\ bad' = (bad \/ ~HoldsR(p, "c"))
    [] a = "set_p"    -> /\ IF E!Has(par, o.n) THEN tab' = [tab EXCEPT !["p"] = E!Put(@, o.n, o.v)] /\ res' = Append1(p, E!OK)
                                               ELSE UNCHANGED tab /\ res' = Append1(p, E!Err)
                         /\ code' = [code EXCEPT ![p] = <<UL("p")>>] /\ bad' = (bad \/ ~HoldsW(p, "p"))
    [] a = "set_test" -> /\ UNCHANGED <<tab, res>> /\ bad' = (bad \/ ~HoldsR(p, "c"))          \* (negative control only)
                         /\ code' = [code EXCEPT ![p] = IF E!Has(c, o.n) THEN <<RU("c"), LQ("c"), LA("c"), Act("put"), UL("c")>>
                                                                         ELSE <<RU("c"), LQ("p"), LA("p"), Act("set_p")>>]
    [] a = "get_c"    -> /\ UNCHANGED tab /\ bad' = (bad \/ ~HoldsR(p, "c"))
                         /\ IF E!Has(c, o.n) THEN res' = Append1(p, E!ValR(c[o.n])) /\ code' = [code EXCEPT ![p] = <<RU("c")>>]
                                             ELSE IF o.n = "ext" THEN res' = Append1(p, E!ValR(77)) /\ code' = [code EXCEPT ![p] = <<RU("c")>>]     \* (answered by the external lookup once the lock is released; it touches no table)
                                             ELSE UNCHANGED res /\ code' = [code EXCEPT ![p] = <<RU("c"), RL("p"), Act("get_p"), RU("p")>>]
    [] a = "get_p"    -> /\ UNCHANGED tab /\ bad' = (bad \/ ~HoldsR(p, "p")) /\ code' = [code EXCEPT ![p] = Rest(p)]
                         /\ res' = Append1(p, IF E!Has(par, o.n) THEN E!ValR(par[o.n]) ELSE E!Err)
    [] a = "del_c"    -> /\ tab' = [tab EXCEPT !["c"] = E!Del(@, o.n)] /\ res' = Append1(p, E!OK) /\ code' = [code EXCEPT ![p] = Rest(p)]
                         /\ bad' = (bad \/ ~HoldsW(p, "c"))
    [] a = "del_p"    -> /\ tab' = [tab EXCEPT !["p"] = E!Del(@, o.n)] /\ res' = Append1(p, E!OK) /\ code' = [code EXCEPT ![p] = Rest(p)]
                         /\ bad' = (bad \/ ~HoldsW(p, "p"))
    [] a = "dg_test"  -> /\ UNCHANGED <<tab, res>> /\ bad' = (bad \/ ~HoldsR(p, "c"))
                         /\ code' = [code EXCEPT ![p] = IF E!Has(c, o.n) THEN <<RU("c"), LQ("c"), LA("c"), Act("del_c"), UL("c")>>
                                                                         ELSE <<RU("c"), LQ("p"), LA("p"), Act("del_p"), UL("p")>>]
    [] a = "snap"     -> /\ UNCHANGED tab /\ res' = Append1(p, E!SymsR(Enc(c))) /\ code' = [code EXCEPT ![p] = Rest(p)] /\ bad' = (bad \/ ~HoldsR(p, "c"))
    [] a = "syms"     -> /\ UNCHANGED tab /\ res' = Append1(p, E!SymsR(DOMAIN c)) /\ code' = [code EXCEPT ![p] = Rest(p)] /\ bad' = (bad \/ ~HoldsR(p, "c"))
    [] a = "addr_c"   -> /\ UNCHANGED tab /\ bad' = (bad \/ ~HoldsR(p, "c"))
                         /\ IF E!Has(c, o.n) THEN /\ res' = Append1(p, IF E!Addressable(c[o.n]) THEN E!ValR(c[o.n]) ELSE E!Err)
                                                  /\ code' = [code EXCEPT ![p] = <<RU("c")>>]
                                             ELSE UNCHANGED res /\ code' = [code EXCEPT ![p] = <<RL("p"), Act("addr_p"), RU("p"), RU("c")>>]
    [] a = "addr_p"   -> /\ UNCHANGED tab /\ bad' = (bad \/ ~HoldsR(p, "p")) /\ code' = [code EXCEPT ![p] = Rest(p)]
                         /\ res' = Append1(p, IF E!Has(par, o.n) /\ E!Addressable(par[o.n]) THEN E!ValR(par[o.n]) ELSE E!Err)

Begin(p) == /\ code[p] = <<>> /\ idx[p] <= NOps
            /\ code' = [code EXCEPT ![p] = Start(Cur(p))]
            /\ UNCHANGED <<tab, rd, wr, pend, prog, idx, res, tab0, bad>>

Micro(p) ==
  /\ code[p] # <<>>
  /\ LET ins == Head(code[p])  m == ins.m IN
     CASE ins.i = "rl"  -> /\ wr[m] = 0 /\ pend[m] = {}            \* a pending writer blocks new readers
                           /\ rd' = [rd EXCEPT ![m][p] = @ + 1] /\ code' = [code EXCEPT ![p] = Rest(p)]
                           /\ UNCHANGED <<tab, wr, pend, res, bad>>
       [] ins.i = "ru"  -> /\ rd' = [rd EXCEPT ![m][p] = @ - 1] /\ code' = [code EXCEPT ![p] = Rest(p)]
                           /\ UNCHANGED <<tab, wr, pend, res, bad>>
       [] ins.i = "lq"  -> /\ pend' = [pend EXCEPT ![m] = @ \cup {p}] /\ code' = [code EXCEPT ![p] = Rest(p)]
                           /\ UNCHANGED <<tab, rd, wr, res, bad>>
       [] ins.i = "la"  -> /\ wr[m] = 0 /\ ReadersOf(m) = {}
                           /\ wr' = [wr EXCEPT ![m] = p] /\ pend' = [pend EXCEPT ![m] = @ \ {p}] /\ code' = [code EXCEPT ![p] = Rest(p)]
                           /\ UNCHANGED <<tab, rd, res, bad>>
       [] ins.i = "ul"  -> /\ wr' = [wr EXCEPT ![m] = 0] /\ code' = [code EXCEPT ![p] = Rest(p)]
                           /\ UNCHANGED <<tab, rd, pend, res, bad>>
       [] ins.i = "act" -> DoAct(p, ins.a) /\ UNCHANGED <<rd, wr, pend>>
  /\ idx' = IF code'[p] = <<>> THEN [idx EXCEPT ![p] = @ + 1] ELSE idx
  /\ UNCHANGED <<prog, tab0>>

Done == \A p \in Procs : idx[p] = NOps + 1 /\ code[p] = <<>>

Progs == [Procs -> [1..NOps -> Alphabet]]
Init == /\ prog \in Progs
        /\ tab0 \in InitTabs
        /\ tab = [m \in {"c", "p"} |-> IF m = "c" THEN tab0 ELSE ParentTab]
        /\ rd = [m \in {"c", "p"} |-> [p \in Procs |-> 0]]
        /\ wr = [m \in {"c", "p"} |-> 0]
        /\ pend = [m \in {"c", "p"} |-> {}]
        /\ idx = [p \in Procs |-> 1]
        /\ code = [p \in Procs |-> <<>>]
        /\ res = [p \in Procs |-> <<>>]
        /\ bad = FALSE

Next == (\E p \in Procs : Begin(p) \/ Micro(p)) \/ (Done /\ UNCHANGED vars)
Spec == Init /\ [][Next]_vars

----------------------------------------------------------------------------
(* sequential reference: AnkoEnv with handle 1 = parent, handle 2 = child; a Copy is reported as its table *)
SeqInit(t0) == <<[E!EmptyScope(0) EXCEPT !.v = ParentTab], [E!EmptyScope(1) EXCEPT !.v = t0, !.x = TRUE]>>
SeqApply(sc, o) ==
  LET c == E!Call(o.op, 2, o.n, o.v, <<>>)  r == E!Apply(sc, c) IN
  IF o.op = "Copy" THEN [sc |-> r.sc, res |-> E!SymsR(Enc(r.sc[r.res.i].v))]
  ELSE IF o.op \in {"Delete", "DeleteGlobal"} THEN [sc |-> r.sc, res |-> E!OK]
  ELSE r

RECURSIVE Outcomes(_, _, _, _)
Outcomes(pr, ix, sc, rs) ==
  LET ready == {p \in DOMAIN pr : ix[p] <= Len(pr[p])} IN
  IF ready = {} THEN {[c |-> sc[2].v, p |-> sc[1].v, res |-> rs]}
  ELSE UNION { LET r == SeqApply(sc, pr[p][ix[p]]) IN
               Outcomes(pr, [ix EXCEPT ![p] = @ + 1], r.sc, [rs EXCEPT ![p] = Append(@, r.res)]) : p \in ready }
SeqOutcomes(pr, t0) == Outcomes(pr, [p \in DOMAIN pr |-> 1], SeqInit(t0), [p \in DOMAIN pr |-> <<>>])

Linearizable == Done => [c |-> tab["c"], p |-> tab["p"], res |-> res] \in SeqOutcomes(prog, tab0)
LockDiscipline == ~bad
LocksFreeAtEnd == Done => \A m \in {"c", "p"} : wr[m] = 0 /\ pend[m] = {} /\ ReadersOf(m) = {}
=============================================================================
