---------------------------- MODULE Trace_AnkoFrames ----------------------------
(* code -> spec: hook traces of real runs (many concatenated; frames are identified by small integers unique in the file).   *)
(* Lines are judged independently per frame; a rejected event is reported and the frame is dropped from further judging.       *)
EXTENDS AnkoFrames, Json
Trace == ndJsonDeserialize("frames_trace.ndjson")
VARIABLES fs, l        \* fs: function frame id -> frame state (only live frames)
vars == <<fs, l>>
Init == fs = [x \in {} |-> NewFrame] /\ l = 1 /\ TLCSet(1, 1)
Has(f) == f \in DOMAIN fs
Put(f, v) == [x \in DOMAIN fs \cup {f} |-> IF x = f THEN v ELSE fs[x]]
Drop(f) == [x \in DOMAIN fs \ {f} |-> fs[x]]
Reject(why) == PrintT(<<"REJECT", l, why>>)
Step ==
  /\ l <= Len(Trace)
  /\ LET e == Trace[l] IN
     CASE e.ev \in {"RunBegin", "FuncEnter"} -> fs' = Put(e.f, NewFrame)
       [] e.ev = "StmtEnter" -> fs' = IF Has(e.f) THEN Put(e.f, Enter(fs[e.f], e.kind, e.nd)) ELSE fs
       [] e.ev = "StmtExit" ->
            IF ~Has(e.f) THEN fs' = fs
            ELSE LET v == ExitVerdict(fs[e.f], e) IN
                 IF v = "ok" THEN fs' = Put(e.f, Exit(fs[e.f], e)) ELSE Reject(v) /\ fs' = Drop(e.f)
       [] e.ev = "DeferRun" ->
            IF ~Has(e.f) THEN fs' = fs
            ELSE LET v == DeferVerdict(fs[e.f], e) IN
                 IF v = "ok" THEN fs' = Put(e.f, Defer(fs[e.f], e)) ELSE Reject(v) /\ fs' = Drop(e.f)
       [] e.ev \in {"RunEnd", "FuncExit"} ->
            IF ~Has(e.f) THEN fs' = fs
            ELSE LET v == EndVerdict(fs[e.f], e) IN
                 (IF v = "ok" THEN TRUE ELSE Reject(v)) /\ fs' = Drop(e.f)
       [] OTHER -> fs' = fs
  /\ l' = l + 1
Spec == Init /\ [][Step]_vars
HighWater == TLCSet(1, IF l > TLCGet(1) THEN l ELSE TLCGet(1))
Accepted == PrintT(<<"REACHED", TLCGet(1), Len(Trace)>>) /\ TLCGet(1) = Len(Trace) + 1
=============================================================================
