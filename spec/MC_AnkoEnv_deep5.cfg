SPECIFICATION Spec
VIEW View
CONSTANTS
  Names = {"a", "m", "a.b", "int64"}
  Dotted = {"a.b"}
  ExtV <- ExtVDef
  ExtT <- ExtTDef
  BuiltinT <- BuiltinTDef
  Depth = 5
  MaxScopes = 3
  VNames = {"a"}
  TNames = {"int64"}
  DefVals = {1}
  SetVals = {2, 90}
  TypeVals = {1}
  PathNames = {"a"}
  Emit = TRUE
  Mutant = "none"
INVARIANTS TypeOK Acyclic LookupNearest
PROPERTIES Growth Frame Local SetNoCreate ErrUnchanged DotRejected CopyFresh
CHECK_DEADLOCK FALSE
