SPECIFICATION Spec
CONSTANTS
  Shard = "methods"
CHECK_DEADLOCK FALSE
