SPECIFICATION Spec
CONSTANTS
  Fuel = 400
  Dev = {"LhsIndexReevaluated"}
CHECK_DEADLOCK FALSE
