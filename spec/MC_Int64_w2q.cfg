SPECIFICATION Spec
CONSTANTS
  W = 2
  Pool <- PoolW2q
INVARIANTS Checked
CHECK_DEADLOCK FALSE
