SPECIFICATION Spec
CONSTANTS
  W = 1
  Pool <- PoolW1q
INVARIANTS Checked
CHECK_DEADLOCK FALSE
