SPECIFICATION TSpec
CONSTANTS
  MaxDepth = 8
  MaxDefers = 1000000
  MaxCalls = 1000000
  Variant = "code"
INVARIANT TInv
CHECK_DEADLOCK FALSE
