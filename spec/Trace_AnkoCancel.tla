---------------------------- MODULE Trace_AnkoCancel ----------------------------
(* Observations of cancelled runs of the real interpreter validated against the C02 statement: the call returns within   *)
(* the bound with the interrupt error, and no script effect follows the instant at which a poll could see the            *)
(* cancellation (beyond one effect in flight per other script goroutine).                                               *)
EXTENDS Integers, Sequences, TLC, Json
Obs == ndJsonDeserialize("cancel_obs.ndjson")
LimitMs == 5000
OK(o) == \/ ~o.delivered /\ o.returned                       \* the program ended before reaching that gate (nothing to check)
         \/ /\ o.delivered /\ o.returned
            /\ o.latency_whole_ms <= LimitMs
            /\ o.err_ok
            /\ o.late_effects <= o.allowed_late
VARIABLE l
Init == l = 1 /\ TLCSet(1, 1)
Step == l <= Len(Obs) /\ (IF OK(Obs[l]) THEN TRUE ELSE PrintT(<<"REJECT", l>>)) /\ l' = l + 1
Spec == Init /\ [][Step]_l
HighWater == TLCSet(1, IF l > TLCGet(1) THEN l ELSE TLCGet(1))
Accepted == PrintT(<<"REACHED", TLCGet(1), Len(Obs)>>) /\ TLCGet(1) = Len(Obs) + 1
=============================================================================
