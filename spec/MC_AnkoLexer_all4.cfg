SPECIFICATION Spec
CONSTANTS
  Alphabet = {"a", "e", "x", "1", "0", "q", "t", "k", "n", "s", "h", "/", "*", "=", "<", "-", ".", "+", "(", "$"}
  MinLen = 4
  MaxLen = 4
CHECK_DEADLOCK FALSE
