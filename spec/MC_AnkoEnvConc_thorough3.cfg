SPECIFICATION Spec
CONSTANTS
  Procs = {1, 2}
  NOps = 3
  Alphabet <- AlphaCore
  InitTabs <- Tabs
  ParentTab <- PTab
  Variant = "code"
INVARIANTS Linearizable LockDiscipline LocksFreeAtEnd
CHECK_DEADLOCK TRUE
