SPECIFICATION Spec
CONSTRAINT HighWater
POSTCONDITION Accepted
INVARIANTS VerdictSymmetric Reflexive
CHECK_DEADLOCK FALSE
