SPECIFICATION Spec
CONSTANTS
  Wrappers <- Stacks
  Variant = "code"
INVARIANTS NoSwallow ResultIsInterrupt
PROPERTIES Interrupted
CHECK_DEADLOCK FALSE
