SPECIFICATION Spec
CONSTANTS
  MaxLen = 6
  Caps = {1, 2, 3}
CHECK_DEADLOCK FALSE
