-------------------------------- MODULE AnkoEq --------------------------------
(***************************************************************************)
(* Equality as one coherent relation (property C06).                       *)
(* Values: [t, l, s, num, es] with t in nil | bool | int | flt | str |     *)
(* list | map; int carries its 8 bytes, flt its IEEE bytes (opaque), a     *)
(* string its text and, in num, the number it denotes when it is a plain   *)
(* decimal numeral ([k |-> "int"/"flt"/"big"/"none", l |-> bytes]; "big" is *)
(* an integer numeral outside int64, l its float64 rounding); containers   *)
(* their elements (maps as key-sorted lists of <<key, value>> pairs).      *)
(* float64 comparison itself is a primitive: the recorded observation      *)
(* carries feq = (float64(a) == float64(b)) computed natively, and nan.    *)
(* Verdict(a, b, feq) is TRUE / FALSE where the statement decides, "open"  *)
(* where it does not; the LAWS bind every pair, open or not.               *)
(***************************************************************************)
EXTENDS Integers, Sequences, TLC

IsNumeric(v) == v.t \in {"int", "flt"} \/ (v.t = "str" /\ v.num.k # "none")
\* numeric denotation: kind and bytes
Den(v) == IF v.t = "str" THEN v.num ELSE [k |-> v.t, l |-> v.l]

\* strict same-kind equality, used inside containers: "yes" | "no" | "open"
RECURSIVE Strict(_, _), StrictSeq(_, _, _)
StrictSeq(x, y, i) ==
  IF i > Len(x) THEN "yes"
  ELSE LET r == Strict(x[i], y[i]) IN IF r = "yes" THEN StrictSeq(x, y, i + 1) ELSE r
Strict(a, b) ==
  IF a.t # b.t THEN (IF a.t \in {"int", "flt"} /\ b.t \in {"int", "flt"} THEN "open" ELSE "no")
  ELSE CASE a.t = "nil" -> "yes"
         [] a.t \in {"bool", "int"} -> IF a.l = b.l THEN "yes" ELSE "no"
         [] a.t = "flt" -> IF a.nan \/ b.nan THEN "no" ELSE IF a.l = b.l THEN "yes" ELSE IF a.zero /\ b.zero THEN "yes" ELSE "no"
         [] a.t = "str" -> IF a.s = b.s THEN "yes" ELSE "no"
         [] a.t \in {"list", "map"} -> IF Len(a.es) # Len(b.es) THEN "no" ELSE StrictSeq(a.es, b.es, 1)

Verdict(a, b, feq) ==
  CASE (a.t = "nil" /\ a.s # "" /\ b.t \in {"list", "map"}) \/ (b.t = "nil" /\ b.s # "" /\ a.t \in {"list", "map"}) -> "open"   \* a nil slice / map of a concrete type against a container: not stated
    [] a.t = "nil" \/ b.t = "nil" -> IF a.t = b.t THEN "yes" ELSE "no"          \* nil equals only nil (a nil channel, function, slice, map or pointer is nil)
    [] a.t = "cplx" /\ b.t = "cplx" -> IF a.l = b.l THEN "yes" ELSE "no"          \* complex numbers (host values): same primitive type, Go's ==
    [] a.t = "cplx" \/ b.t = "cplx" -> "open"
    [] a.t = "bool" /\ b.t = "bool" -> IF a.l = b.l THEN "yes" ELSE "no"
    [] a.t = "bool" \/ b.t = "bool" -> "open"                                     \* bool vs non-bool: not stated
    [] a.t = "str" /\ b.t = "str" -> IF a.s = b.s THEN "yes" ELSE "no"            \* same primitive type: Go's ==
    [] a.t \in {"list", "map"} \/ b.t \in {"list", "map"} ->
         IF a.t = b.t THEN Strict(a, b) ELSE "open"
    [] a.t = "str" /\ ~IsNumeric(a) /\ b.t \in {"int", "flt"} -> IF a.openstr THEN "open" ELSE "no"   \* not a decimal numeral
    [] b.t = "str" /\ ~IsNumeric(b) /\ a.t \in {"int", "flt"} -> IF b.openstr THEN "open" ELSE "no"
    [] IsNumeric(a) /\ IsNumeric(b) ->
         LET x == Den(a)  y == Den(b) IN
         IF x.k = "int" /\ y.k = "int" THEN (IF x.l = y.l THEN "yes" ELSE "no")
         ELSE IF {x.k, y.k} = {"int", "big"} THEN "no"                             \* an integer numeral outside int64 denotes no int64
         ELSE IF feq THEN "yes" ELSE "no"                                         \* carried out in float64
    [] OTHER -> "open"

B(x) == IF x THEN "yes" ELSE "no"
\* one observation: the six syntactic uses evaluated by the real VM for the ordered pair (a, b), and for (b, a)
\*   eq: a == b   ne: a != b   inn: a in [b]   sw: switch a { case b: }   lege: a <= b && a >= b   (and the same with the roles swapped: r*)
Laws(a, b, o) ==
  /\ o.eq = o.req                                       \* symmetry
  /\ o.ne = ~o.eq /\ o.rne = ~o.req                     \* != is the exact negation
  /\ o.inn = o.eq /\ o.rinn = o.req                     \* membership uses the same relation
  /\ o.sw = o.eq /\ o.rsw = o.req                       \* so does switch
  /\ ((a.t \in {"int", "flt"} /\ b.t \in {"int", "flt"} /\ a.t # b.t) => (o.eq = o.lege))   \* int vs float: equal iff both <= and >=

Accept(a, b, o) == /\ Laws(a, b, o)
                   /\ LET v == Verdict(a, b, o.feq) IN v = "open" \/ v = B(o.eq)
=============================================================================
