SPECIFICATION Spec
CONSTANTS
  Ops = {"+", "-", "*", "/", "%", "&", "|", "<<", ">>", "<", "<=", ">", ">=", "==", "!="}
  TreeOps = {}
  Unaries = {"-", "^"}
CHECK_DEADLOCK FALSE
