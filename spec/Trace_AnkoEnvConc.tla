-------------------------- MODULE Trace_AnkoEnvConc --------------------------
(* code -> spec: outcomes (per-call results + final tables) observed from the REAL package env under the  *)
(* gate scheduler (every schedule) or the Go scheduler (-race stress) must be outcomes of some sequential   *)
(* order of the same calls computed from AnkoEnv (SeqOutcomes of AnkoEnvConc).                              *)
EXTENDS Integers, Sequences, FiniteSets, TLC, Json

Lines == ndJsonDeserialize("envconc_outcomes.ndjson")
ToSet(q) == {q[i] : i \in 1..Len(q)}
ToTab(t) == [n \in ToSet(t.k) |-> t.v[CHOOSE i \in 1..Len(t.k) : t.k[i] = n]]
Hdr == Lines[1]

C == INSTANCE AnkoEnvConc WITH Procs <- {}, NOps <- 0, Alphabet <- {}, InitTabs <- {}, ParentTab <- ToTab(Hdr.parent_tab), Variant <- "code",
       tab <- 0, rd <- 0, wr <- 0, pend <- 0, prog <- 0, idx <- 0, code <- 0, res <- 0, tab0 <- 0, bad <- 0

VARIABLE l
NormRes(r) == [k |-> r.k, i |-> r.i, s |-> ToSet(r.s)]
Progs(e) == [p \in 1..Len(e.progs) |-> e.progs[p]]
Obs(o) == [c |-> ToTab(o.c), p |-> ToTab(o.p),
           res |-> [p \in 1..Len(o.res) |-> [j \in 1..Len(o.res[p]) |-> NormRes(o.res[p][j])]]]
LineOK(e) == LET ref == C!SeqOutcomes(Progs(e), ToTab(e.tab0)) IN
             \A i \in 1..Len(e.outcomes) : Obs(e.outcomes[i]) \in ref

Init == l = 2 /\ TLCSet(1, 2)
Step == l <= Len(Lines) /\ LineOK(Lines[l]) /\ l' = l + 1
Spec == Init /\ [][Step]_l
HighWater == TLCSet(1, IF l > TLCGet(1) THEN l ELSE TLCGet(1))
Accepted == PrintT(<<"REACHED", TLCGet(1), Len(Lines)>>) /\ TLCGet(1) = Len(Lines) + 1
=============================================================================
