------------------------------ MODULE AnkoBuiltins ------------------------------
(***************************************************************************)
(* Core builtins and package tables (property C19).                        *)
(*                                                                         *)
(* Range(start, stop, step): the arithmetic progression start, start+step, *)
(* ... strictly before stop, over int64 (limbs, Int64 with W = 8): empty   *)
(* when the step points away from stop, and the progression ENDS when the  *)
(* next term would leave int64 (it can never reach stop by wrapping).      *)
(* Conversion builtins as dispatch to primitives on annotated values       *)
(* [t, l, s, num] (as in AnkoEq): toInt / toFloat of numbers and decimal   *)
(* numeral strings follow Go's conversion / strconv, and give 0 for nil,   *)
(* containers and non-numeric strings.                                     *)
(* EntryOK: a package-table entry listed under pkg.name must BE pkg.name.  *)
(***************************************************************************)
EXTENDS Integers, Sequences, TLC
I == INSTANCE Int64 WITH W <- 8

MaxLen == 70
\* adding step to cur stays inside int64 ?
AddOK(cur, step) == LET s == I!Add(cur, step) IN
                    IF I!IsNeg(step) THEN I!Lt(s, cur) ELSE I!Lt(cur, s) \/ I!IsZero(step)
RECURSIVE RangeR(_, _, _, _)
RangeR(cur, stop, step, acc) ==
  IF Len(acc) >= MaxLen THEN [ok |-> TRUE, long |-> TRUE, v |-> acc]
  ELSE IF (~I!IsNeg(step) /\ I!Lt(cur, stop)) \/ (I!IsNeg(step) /\ I!Lt(stop, cur))
       THEN (IF AddOK(cur, step) THEN RangeR(I!Add(cur, step), stop, step, Append(acc, cur))
             ELSE [ok |-> TRUE, long |-> FALSE, v |-> Append(acc, cur)])
       ELSE [ok |-> TRUE, long |-> FALSE, v |-> acc]
Range(args) ==
  CASE Len(args) = 1 -> RangeR(I!Zero, args[1], I!One, <<>>)
    [] Len(args) = 2 -> RangeR(args[1], args[2], I!One, <<>>)
    [] Len(args) = 3 -> IF I!IsZero(args[3]) THEN [ok |-> FALSE, long |-> FALSE, v |-> <<>>] ELSE RangeR(args[1], args[2], args[3], <<>>)
    [] OTHER -> [ok |-> FALSE, long |-> FALSE, v |-> <<>>]           \* wrong argument count: an error

\* conversions: result record [k, l, x]:  k = "int" with limbs l | "zero" | "prim" with operation name in x (applied to the operand) | "open"
ToInt(v) == CASE v.t = "int" -> [k |-> "int", l |-> v.l, x |-> ""]
              [] v.t = "flt" -> [k |-> "prim", l |-> <<>>, x |-> "TruncFloat"]
              [] v.t = "str" -> (IF v.num.k = "int" THEN [k |-> "int", l |-> v.num.l, x |-> ""]
                                 ELSE IF v.num.k = "flt" THEN [k |-> "prim", l |-> <<>>, x |-> "TruncParsedFloat"]
                                 ELSE IF v.openstr THEN [k |-> "open", l |-> <<>>, x |-> ""] ELSE [k |-> "zero", l |-> <<>>, x |-> ""])
              [] v.t \in {"nil", "list", "map"} -> [k |-> "zero", l |-> <<>>, x |-> ""]
              [] OTHER -> [k |-> "open", l |-> <<>>, x |-> ""]
ToFloat(v) == CASE v.t = "int" -> [k |-> "prim", l |-> <<>>, x |-> "FloatOfInt"]
                [] v.t = "flt" -> [k |-> "prim", l |-> <<>>, x |-> "Same"]
                [] v.t = "str" -> (IF v.num.k \in {"int", "flt"} THEN [k |-> "prim", l |-> <<>>, x |-> "ParseFloat"]
                                   ELSE IF v.openstr THEN [k |-> "open", l |-> <<>>, x |-> ""] ELSE [k |-> "zero", l |-> <<>>, x |-> ""])
                [] v.t \in {"nil", "list", "map"} -> [k |-> "zero", l |-> <<>>, x |-> ""]
                [] OTHER -> [k |-> "open", l |-> <<>>, x |-> ""]

\* package tables: the runtime symbol of a function entry / the type of a type entry is exactly what it is listed under
EntryOK(e) == CASE e.kind = "func" -> e.sym = e.pkg \o "." \o e.name
                [] e.kind = "type" -> e.sym = e.pkg \o "." \o e.name
                [] OTHER -> TRUE                     \* variables and constants: identity is not observable, only listed
=============================================================================
