---------------------------- MODULE MC_AnkoCancel ----------------------------
EXTENDS AnkoCancel
W1 == {"fn", "try", "nilco", "defer", "block"}
Stacks == {<<>>} \cup {<<a>> : a \in W1} \cup {<<a, b>> : a \in W1, b \in W1} \cup {<<a, b, c>> : a \in W1, b \in W1, c \in W1}
=============================================================================
