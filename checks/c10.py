"""C10 -- slices, maps, strings and struct fields behave like their Go models (spec/AnkoContainers.tla)."""
import json, os, re, random, concurrent.futures
import vlib
from vlib import Broken

LEVEL = "model_checking"
RULE = ("AnkoContainers gives Go's rules for slice headers over backing arrays (index, 2-/3-index slicing, append within and beyond capacity, index-len append, aliasing, "
        "pass-by-reference), maps (missing key nil, unhashable key error on write/delete and nil on read, aliasing), typed []int64 stores (conversion or failure unchanged) "
        "and struct fields. Seeded random histories of container statements (persistent environment, 7 variables) are executed on the real interpreter; after every "
        "statement the result and the full projection (contents, len, cap, storage sharing with offsets via data pointers, map contents, fields) are recorded and TLC "
        "(Trace_AnkoContainers) accepts the history iff every step is allowed by the specification, the capacity of a growing append being taken from the log. "
        "distinct_nontrivial = judged statements (steps after a point the statement leaves open are skipped, not judged). "
        "spec->code: MC_AnkoContainers explores, per family (slices, maps, strings, typed containers and struct fields), every statement of a finite alphabet in every "
        "reachable abstract state up to a depth bound (VIEW = what a script can observe), checks the design statements of C10 as invariants / action properties "
        "(WindowOK, TypedHolds, ErrUnchanged, ReadsPure, StoreExact, SliceShares, AliasIsReference, GrowthLocal, StringsAreValues, MapAliasing; two wrong designs must be "
        "refuted) and emits one history per transition; every emitted history is replayed on the real interpreter and its last step judged by the same trace specification.")

FAMILIES = ["slice", "map", "str", "typed"]
DEPTH = {"quick": {"slice": 4, "map": 5, "str": 5, "typed": 5}, "thorough": {"slice": 5, "map": 7, "str": 6, "typed": 6}}
DEEPER = {"slice": 6, "typed": 7}      # thorough tier: design properties only (no replay) one level deeper


def cover(ctx, binp, validate_in):
    """spec -> code: transition cover of the bounded container machine, replayed on the real interpreter."""
    depth = DEPTH["quick" if ctx.quick() else "thorough"]
    def mc(fam):
        cfg = os.path.join(ctx.work, "mcc_%s.cfg" % fam)
        base = open(os.path.join(vlib.VERIF, "spec", "MC_AnkoContainers_%s.cfg" % fam)).read()
        open(cfg, "w").write(base.replace("Depth = 4", "Depth = %d" % depth[fam]).replace("Emit = FALSE", "Emit = TRUE"))
        ops, hists = [], []
        r = vlib.run_tlc(ctx, "MC_AnkoContainers", os.path.basename(cfg), workers=2, timeout=3000, line_cb=lambda v: ops.extend(v.get("ops", [])), cfg_dir=ctx.work)
        with open(os.path.join(r.dir, "tlc.out"), errors="replace") as fi:
            for line in fi:
                if line.startswith('<<"H", <<'):
                    hists.append([int(x) for x in line[9:line.index(">>")].split(",")])
        vlib.tlc_ok(ctx, r, "MC_AnkoContainers[%s]" % fam)
        if len(hists) != r.generated - 1:
            raise Broken("MC_AnkoContainers[%s]: emitted histories (%d) != TLC transitions (%d)" % (fam, len(hists), r.generated - 1))
        return fam, ops, hists, r
    with concurrent.futures.ThreadPoolExecutor(max_workers=4) as ex:
        res = list(ex.map(mc, FAMILIES))
    if not ctx.quick():
        for fam, d in DEEPER.items():
            cfg = os.path.join(ctx.work, "mcc_deep_%s.cfg" % fam)
            base = open(os.path.join(vlib.VERIF, "spec", "MC_AnkoContainers_%s.cfg" % fam)).read()
            open(cfg, "w").write(base.replace("Depth = 4", "Depth = %d" % d))
            r = vlib.run_tlc(ctx, "MC_AnkoContainers", os.path.basename(cfg), workers=4, timeout=3000, cfg_dir=ctx.work, want_lines=False)
            vlib.tlc_ok(ctx, r, "MC_AnkoContainers[%s, depth %d, properties only]" % (fam, d))
            ctx.cov["states"] += r.distinct
            ctx.cov["transitions"] += r.generated
    shards = 8
    files = [open(os.path.join(ctx.work, "cov_ops_%d.ndjson" % k), "w") for k in range(shards)]
    n = 0
    byop = {}
    for fam, ops, hists, r in res:
        ctx.cov["states"] += r.distinct
        ctx.cov["transitions"] += r.generated
        # pure reads never lead to a new abstract state, so the cover never puts one BEFORE another statement; every history is
        # therefore followed by the family's reads (judged by their results), in an order that revisits one site with different operands
        isread = lambda o: o["op"] in ("callget", "getvar", "fieldget", "fieldmapget", "read", "len", "mapget", "in")
        tail = sorted([o for o in ops if isread(o)], key=lambda o: (o["op"], o["x"], json.dumps(o["i"], sort_keys=True)))[:14]
        tail = tail + tail[:1]
        for h in hists:
            seq = [ops[i - 1] for i in h]
            seq[-1] = dict(seq[-1], p=True)         # the statement the history was emitted for is judged by the full projection, whatever the reads after it do
            seq = seq + tail
            # the capacity is the runtime's business: the harness logs the real one
            files[n % shards].write(json.dumps(seq) + "\n")
            n += 1
            byop[ops[h[-1] - 1]["op"]] = byop.get(ops[h[-1] - 1]["op"], 0) + 1
    for f in files:
        f.close()
    ctx.cov["transition_cover"] = {"histories": n, "by_last_statement": byop, "depth": depth}
    def one(k):
        ops = os.path.join(ctx.work, "cov_ops_%d.ndjson" % k)
        rec = os.path.join(ctx.work, "cov_%d.ndjson" % k)
        vlib.run_cmd(ctx, [binp, "opslast", ops, rec])
        all_lines = open(rec).read().splitlines()
        # validated in pieces of at most ~150 k lines (cut where a history starts): the trace is held in memory by TLC
        pieces, cur = [], []
        for ln in all_lines:
            if ln.startswith('{"ev":"reset"') and len(cur) >= 150000:
                pieces.append(cur)
                cur = []
            cur.append(ln)
        if cur:
            pieces.append(cur)
        rejected = []
        for lines in pieces:
            start = 0
            while start < len(lines) and len(rejected) < 5:
                tmp = rec + ".part"
                open(tmp, "w").write("\n".join(lines[start:]) + "\n")
                reached, total, skipped, r = validate_in(ctx, tmp)
                if reached == total + 1:
                    break
                bad = start + reached - 1
                tstart = max(i for i in range(bad + 1) if lines[i].startswith('{"ev":"reset"'))
                rejected.append(lines[tstart:bad + 1])
                nxt = [i for i in range(bad + 1, len(lines)) if lines[i].startswith('{"ev":"reset"')]
                if not nxt:
                    break
                start = nxt[0]
        return rejected, len(all_lines)
    with concurrent.futures.ThreadPoolExecutor(max_workers=shards) as ex:
        out = list(ex.map(one, range(shards)))
    for rejected, nlines in out:
        ctx.cov["evaluations"] += nlines
        for tr in rejected:
            last = json.loads(tr[-1])
            hist = [json.loads(x).get("src") for x in tr[1:]]
            vlib.violation(ctx, "transition-cover history rejected by AnkoContainers at its last statement: %s -> %s\n%s" % (last["src"], json.dumps(last["res"]), "\n".join(hist[-12:])),
                           {"kind": "cont", "ops": [json.loads(x)["o"] for x in tr[1:]], "history": hist, "rejected": last})
    ctx.cov["traces_validated_against_impl"] += n
    ctx.cov["distinct_nontrivial"] += n
    # negative controls: wrong designs must be refuted by the properties
    for mut, fam, expect in (("SliceCopies", "slice", "SliceShares"), ("ErrWrites", "typed", "ErrUnchanged")):
        cfg = os.path.join(ctx.work, "mcc_neg_%s.cfg" % mut)
        base = open(os.path.join(vlib.VERIF, "spec", "MC_AnkoContainers_%s.cfg" % fam)).read()
        open(cfg, "w").write(base.replace('Mutant = "none"', 'Mutant = "%s"' % mut))
        r = vlib.run_tlc(ctx, "MC_AnkoContainers", os.path.basename(cfg), workers=2, timeout=600, cfg_dir=ctx.work, want_lines=False)
        vlib.tlc_must_fail(ctx, r, "MC_AnkoContainers[%s]" % mut, expect)


def validate(ctx, path, timeout=3000):
    dst = os.path.join(ctx.work, "cont_trace.ndjson")
    if os.path.abspath(path) != dst:
        import shutil
        shutil.copy(path, dst)
    r = vlib.run_tlc(ctx, "Trace_AnkoContainers", "Trace_AnkoContainers.cfg", workers=1, timeout=timeout, copy=[dst], want_lines=False, xss="256m")
    if r.error:
        raise Broken("Trace_AnkoContainers: " + r.error + r.out[-1500:])
    full = open(os.path.join(r.dir, "tlc.out"), errors="replace").read()
    m = re.findall(r'<<"REACHED", (\d+), (\d+)>>', full)
    if not m:
        raise Broken("Trace_AnkoContainers: no REACHED line\n" + r.out[-1500:])
    skipped = len(re.findall(r'<<"SKIPPED", \d+>>', full))
    return int(m[-1][0]), int(m[-1][1]), skipped, r


def run(ctx):
    binp = vlib.build_harness(ctx, "contharness")
    ctx.assumptions += ["capacity growth is Go's business: any capacity >= the needed length is accepted (taken from the log)",
                        "re-slicing between len and cap, float/bool/numeral-string indices, integer-to-string field stores and nil into typed fields are left open (the rest of such a history is not judged)",
                        "string indexing uses ASCII payloads only"]
    # ErrUnchanged (a design property of MC_AnkoContainers) for statements the bounded machine does not enumerate: targets reached through slice
    # expressions, call results, parentheses and index paths x operator x value, judged on the real interpreter
    lawp = os.path.join(ctx.work, "law.json")
    vlib.run_cmd(ctx, [binp, "law", lawp], timeout=900)
    lw = json.load(open(lawp))
    ctx.cov["evaluations"] += lw["cases"]
    ctx.cov["traces_validated_against_impl"] += lw["failing_statements"]
    ctx.cov["err_unchanged_law"] = {"statements": lw["cases"], "failing_statements_judged": lw["failing_statements"], "mismatches": lw["n_mismatch"]}
    seen = set()
    for m in (lw.get("mismatches") or []):
        if m["target"] in seen or len(seen) >= 8:
            continue
        seen.add(m["target"])
        vlib.violation(ctx, "a statement that fails changed a container: `%s` -> %s; before %s, after %s" % (m["stmt"], m["error"], m["before"][:200], m["after"][:200]), {"kind": "law", "stmt": m["stmt"], "mismatch": m})
    # "slices and maps are reference values when assigned or passed": every way a container can travel x kind of container, a store through the far end
    refp = os.path.join(ctx.work, "refs.json")
    vlib.run_cmd(ctx, [binp, "refs", refp], timeout=900)
    rf = json.load(open(refp))
    ctx.cov["evaluations"] += rf["cases"]
    ctx.cov["traces_validated_against_impl"] += rf["cases"]
    ctx.cov["reference_travel"] = {"programs": rf["cases"], "mismatches": rf["n_mismatch"]}
    for m in (rf.get("mismatches") or [])[:8]:
        vlib.violation(ctx, "a container handed over by %s (%s) is not the container itself: expected %s, got %s\n%s" % (m["travel"], m["kind"], m["want"], m["got"], m["src"]), {"kind": "refs", "travel": m["travel"], "ckind": m["kind"], "mismatch": m})
    ntr, length = (400, 30) if ctx.quick() else (6000, 40)
    shards = 8
    def gen(k):
        p = os.path.join(ctx.work, "cont_%d.ndjson" % k)
        vlib.run_cmd(ctx, [binp, "random", str(ctx.seed * 1000 + k), str(ntr // shards), str(length), p])
        return p
    files = [gen(k) for k in range(shards)]
    def val(p):
        # each shard validated by its own TLC process; traces after a rejection are re-validated from the next reset
        lines = open(p).read().splitlines()
        out = []
        start = 0
        judged = 0
        states = 0
        while start < len(lines):
            part = lines[start:]
            tmp = p + ".part"
            open(tmp, "w").write("\n".join(part) + "\n")
            d = os.path.join(ctx.work, "v_%s" % os.path.basename(p))
            reached, total, skipped, r = validate_in(ctx, tmp)
            states += r.distinct
            judged += (reached - 1) - skipped
            if reached == total + 1:
                break
            bad = start + reached - 1            # 0-based index of the rejected line
            tstart = max(i for i in range(bad + 1) if lines[i].startswith('{"ev":"reset"'))
            out.append((lines[tstart:bad + 1]))
            nxt = [i for i in range(bad + 1, len(lines)) if lines[i].startswith('{"ev":"reset"')]
            if not nxt or len(out) >= 5:
                break
            start = nxt[0]
        return out, judged, states, len(lines)
    import threading
    lock = threading.Lock()
    def validate_in(ctx, tmp):
        # validate() copies to a fixed name inside its own TLC dir, so concurrent calls are fine
        r = vlib.run_tlc(ctx, "Trace_AnkoContainers", "Trace_AnkoContainers.cfg", workers=1, timeout=3000, copy=[tmp], want_lines=False, xss="256m", heap="5g", rename={os.path.basename(tmp): "cont_trace.ndjson"})
        if r.error:
            raise Broken("Trace_AnkoContainers: " + r.error + r.out[-1500:])
        full = open(os.path.join(r.dir, "tlc.out"), errors="replace").read()
        m = re.findall(r'<<"REACHED", (\d+), (\d+)>>', full)
        if not m:
            raise Broken("Trace_AnkoContainers: no REACHED line\n" + r.out[-1500:])
        return int(m[-1][0]), int(m[-1][1]), len(re.findall(r'<<"SKIPPED", \d+>>', full)), r
    with concurrent.futures.ThreadPoolExecutor(max_workers=shards) as ex:
        results = list(ex.map(val, files))
    total_lines = 0
    for rejected, judged, states, nlines in results:
        ctx.cov["states"] += states
        ctx.cov["transitions"] += states
        ctx.cov["evaluations"] += nlines
        ctx.cov["distinct_nontrivial"] += judged
        ctx.cov["traces_validated_against_impl"] += judged
        total_lines += nlines
        for tr in rejected:
            last = json.loads(tr[-1])
            hist = [json.loads(x).get("src") for x in tr[1:]]
            vlib.violation(ctx, "container history rejected by AnkoContainers at its last statement: %s -> %s\n%s" % (last["src"], json.dumps(last["res"]), "\n".join(hist[-12:])),
                           {"kind": "cont", "ops": [json.loads(x)["o"] for x in tr[1:]], "history": hist, "rejected": last})
    ctx.cov["recorded_statements"] = total_lines
    cover(ctx, binp, validate_in)
    lines = open(files[0]).read().splitlines()
    tr = [json.loads(x) for x in lines[1:9]]
    ctx.sample({"history": [t.get("src") for t in tr if t["ev"] == "op"], "last_projection": {k: v for k, v in tr[-1]["post"].items() if v["t"] != "nil"}})
    if not ctx.violations:
        # corruption control on a fixed history: a = [0,1,2]; b = a[0:2]; b += 7  (the append lands in a's storage)
        V = lambda t, i=0, s="": {"t": t, "i": i, "s": s, "r": 0, "off": 0, "len": 0, "cap": 0}
        O = lambda op, x="", y="", i=None, j=None, v=None: {"op": op, "x": x, "y": y, "i": i or V("nil"), "j": j or V("nil"), "k": V("nil"), "v": v or V("nil"), "s": "", "cap": 0}
        ops = os.path.join(ctx.work, "ctl_ops.ndjson")
        open(ops, "w").write(json.dumps([O("lit3", "a"), O("slice2", "b", "a", V("int", 0), V("int", 2)), O("append", "b", v=V("int", 7)), O("read", "a", i=V("int", 2))]) + "\n")
        rec = os.path.join(ctx.work, "ctl.ndjson")
        vlib.run_cmd(ctx, [binp, "ops", ops, rec])
        lines = open(rec).read().splitlines()
        reached, total, skipped, r = validate_in(ctx, rec)
        if reached != total + 1:
            raise Broken("control history itself rejected")
        e = json.loads(lines[3])
        e["post"]["a"]["elems"][2] = V("int", 2)            # pretend the append did NOT write through to a
        tmp = os.path.join(ctx.work, "corrupt.ndjson")
        open(tmp, "w").write("\n".join(lines[:3] + [json.dumps(e)] + lines[4:]) + "\n")
        reached, total, skipped, r = validate_in(ctx, tmp)
        ok = reached == 4
        ctx.cov["controls"].append({"control": "append through a shared slice: recorded projection altered so that the source looks unchanged; must be rejected at that line", "detected": bool(ok)})
        if not ok:
            raise Broken("corruption control failed (reached %d of %d)" % (reached, total))
    key_law(ctx, binp)
    return vlib.finish(ctx, RULE, exhaustive=False)


def key_law(ctx, binp):
    """store / read / delete agree on which entry a key expression addresses (7 key types x 23 key operands x 4 statement forms), judged by Trace_AnkoMapKey"""
    op = os.path.join(ctx.work, "keylaw_obs.ndjson")
    vlib.run_cmd(ctx, [binp, "keylaw", op])
    obs = vlib.read_ndjson(op)
    rej, total, r = vlib.validate_lines(ctx, "Trace_AnkoMapKey", "Trace_AnkoMapKey.cfg", [op])
    ctx.cov["evaluations"] += total
    ctx.cov["traces_validated_against_impl"] += total - len(rej)
    ctx.cov["distinct_nontrivial"] += sum(1 for o in obs if o["stored"])
    ctx.cov["key_law"] = {"combinations": total, "stored": sum(1 for o in obs if o["stored"]), "rejected": len(rej)}
    seen = set()
    for ln in rej:
        o = obs[ln - 1]
        if (o["kt"], o["key"]) in seen or len(seen) >= 12:
            continue
        seen.add((o["kt"], o["key"]))
        vlib.violation(ctx, "map[%s]int64 with k = %s (%s): after the store succeeded, read of the same key gives the value: %s, one entry: %s, delete with that key removes it: %s%s -- the three operations do not agree on the entry a key addresses"
                       % (o["kt"], o["key"], o["form"], o["read_ok"], o["len1"], o["deleted_ok"], ", PANIC" if o["panicked"] else ""), {"kind": "keylaw", "obs": o})
    if not rej and obs:
        bad = dict(next(o for o in obs if o["stored"])); bad["read_ok"] = False
        vlib.write_ndjson(op, [bad])
        rej2, _, _ = vlib.validate_lines(ctx, "Trace_AnkoMapKey", "Trace_AnkoMapKey.cfg", [op])
        ctx.cov["controls"].append({"control": "a key-law observation whose read misses the stored entry must be rejected", "detected": rej2 == [1]})
        if rej2 != [1]:
            raise Broken("key-law corruption control failed")


def replay(ctx, path):
    binp = vlib.build_harness(ctx, "contharness")
    p = json.load(open(path))
    if p.get("kind") == "refs":
        refp = os.path.join(ctx.work, "refs.json")
        vlib.run_cmd(ctx, [binp, "refs", refp], timeout=900)
        bad = any(m["travel"] == p["travel"] and m["kind"] == p["ckind"] for m in (json.load(open(refp)).get("mismatches") or []))
        if bad:
            print("VIOLATION property=%s replay=%s" % (ctx.id, path))
        return 1 if bad else 0
    if p.get("kind") == "keylaw":
        op = os.path.join(ctx.work, "keylaw_obs.ndjson")
        vlib.run_cmd(ctx, [binp, "keylaw", op])
        w = p["obs"]
        bad = any(o["kt"] == w["kt"] and o["key"] == w["key"] and o["form"] == w["form"] and (o["panicked"] or (o["stored"] and not (o["read_ok"] and o["len1"] and o["deleted_ok"]))) for o in vlib.read_ndjson(op))
        if bad:
            print("VIOLATION property=%s replay=%s" % (ctx.id, path))
        return 1 if bad else 0
    if p.get("kind") == "law":
        lawp = os.path.join(ctx.work, "law.json")
        vlib.run_cmd(ctx, [binp, "law", lawp], timeout=900)
        bad = any(m["stmt"] == p["stmt"] for m in (json.load(open(lawp)).get("mismatches") or []))
        if bad:
            print("VIOLATION property=%s replay=%s" % (ctx.id, path))
        return 1 if bad else 0
    ops = os.path.join(ctx.work, "ops.ndjson")
    open(ops, "w").write(json.dumps(p["ops"]) + "\n")
    out = os.path.join(ctx.work, "cont_trace.ndjson")
    vlib.run_cmd(ctx, [binp, "ops", ops, out])
    reached, total, skipped, r = validate(ctx, out)
    bad = reached != total + 1
    if bad:
        print("VIOLATION property=%s replay=%s" % (ctx.id, path))
    return 1 if bad else 0
