"""C18 -- the command-line tool reports exactly what the library computes (spec/AnkoCli.tla)."""
import json, os, re
import vlib, progs, rawcorpus
from vlib import Broken

LEVEL = "model_checking"
RULE = ("AnkoCli (flags -> setup -> read | -e -> execute -> exit) is model-checked exhaustively (exit 0 iff parsed and ran, 4 on parse/run error, 2 unreadable file, one "
        "diagnostic line on failure). The built ./anko is run on every scenario (script x {file argument with trailing script arguments, -e}, unreadable file) and next "
        "to it vm.Execute in a child process with an equally prepared environment; TLC accepts each observation iff exit status and stdout are what the machine demands "
        "for the library's verdict. distinct_nontrivial = scenarios whose script prints something or fails.")

PRELUDE = "func p(x) { println(x); return x }\nfunc pv(i, v) { println(i); return v }\nfunc pn(a...) { println(a) }\n"


def scenarios(ctx, rend):
    fam = progs.fam_c09() + progs.fam_closures() + progs.fam_truth() + progs.rand_programs(ctx.seed + 5, 60 if ctx.quick() else 1500)
    pj = os.path.join(ctx.work, "fam.ndjson")
    vlib.write_ndjson(pj, [{"id": p["id"], "prog": p["prog"]} for p in fam])
    sj = os.path.join(ctx.work, "fam_src.ndjson")
    vlib.run_cmd(ctx, [rend, pj, sj])
    scripts = [(s["id"], PRELUDE + s["src"]) for s in vlib.read_ndjson(sj)]
    scripts += [(c["id"], PRELUDE + c["src"]) for c in rawcorpus.cases() if "harr" not in c["src"]]
    special = [
        ("args-print", "println(args)"), ("args-len", "println(len(args))"), ("args-loop", "for a in args { println(a) }"), ("args-first", "println(args[0])"),
        ("args-typeof", "println(typeOf(args))"), ("empty-args", "println(len(args) == 0)"),
        ("top-break", "println(1)\nbreak\nprintln(2)"), ("top-continue", "println(1)\ncontinue"), ("top-return", "println(1)\nreturn 5\nprintln(2)"),
        ("throw", "println(1)\nthrow \"bad\""), ("undefined", "println(1)\nzz"), ("parse-error", "println(1)\nfoo("), ("parse-error2", "a = = 1"), ("unterminated", "println(\"abc"),
        ("only-comment", "# nothing"), ("print-no-newline", "print(\"x\")"), ("print-no-newline-fail", "print(\"x\")\nzz"), ("printf", "printf(\"%d-%s\\n\", 3, \"a\")"),
        ("core-keys", "println(len(keys({\"a\": 1})))"), ("core-range", "println(range(3))"), ("import", "s = import(\"strings\")\nprintln(s.ToUpper(\"ok\"))"),
        ("import-missing", "import(\"nosuchpackage\")"), ("defer-top", "defer println(2)\nprintln(1)"), ("go-noop", "println(1)"),
        # a Go function that panics inside a native call is an ordinary run error for the library (default options), so also for the command
        ("native-panic-keys", "println(1)\nkeys(1)\nprintln(2)"), ("native-panic-range", "println(1)\nrange()"), ("send-closed", "c = make(chan int64, 1)\nclose(c)\nprintln(1)\nc <- 1"),
        ("close-closed", "c = make(chan int64)\nclose(c)\nclose(c)"), ("native-panic-in-func", "func f() { return keys(1) }\ntry { f() } catch e { println(\"caught\") }\nf()"),
        ("native-panic-caught", "try { keys(1) } catch e { println(\"caught\") }\nprintln(3)"),
        # the source is handed to the library byte for byte: long lines, CR LF inside raw strings, no final newline, NUL-free binary-ish text
        ("long-line-fail", "x = \"" + "a" * 70000 + "\"\nprintln(len(x))\nzz"), ("long-line-ok", "x = \"" + "b" * 140000 + "\"\nprintln(len(x))"),
        ("crlf-raw-string", "a = `x\r\ny`\nprintln(len(a))\nif len(a) != 4 { throw \"raw string changed\" }"), ("crlf-lines", "println(1)\r\nprintln(2)\r\nzz\r\n"),
        ("cr-only", "println(1)\rprintln(2)"), ("no-final-newline", "println(7)"), ("tabs-ff", "println(1)\t\n\x0cprintln(2)"), ("utf8", "println(\"héllo wörld ✓\")\nthrow \"ü\""),
        # output of the builtins and of the bundled fmt package interleaves in program order, also when the script fails afterwards
        ("mixed-print", "fmt = import(\"fmt\")\nprintln(\"one\")\nfmt.Println(\"two\")\nprintln(\"three\")\nfmt.Printf(\"%d\\n\", 4)\nprint(\"five\\n\")"),
        ("mixed-print-fail", "fmt = import(\"fmt\")\nprintln(\"one\")\nfmt.Println(\"two\")\nprintln(\"three\")\nzz"),
        ("os-stdout-write", "os = import(\"os\")\nprintln(\"a\")\nos.Stdout.WriteString(\"b\\n\")\nprintln(\"c\")"),
        # the error text is data, not a format: per cent signs in it change nothing about "one diagnostic line"
        ("throw-percent-end", "println(1)\nthrow \"done 100%\""), ("throw-percent-verbs", "throw \"%s %d %v %\""), ("throw-percent-mid", "println(1)\nthrow \"50% done\""),
        ("parse-error-percent", "x = \"%d\" +"), ("undefined-percent", "println(1)\nm = {\"%d%\": 1}\nm[\"%d%\"].zz.y()"),
        # the builtins that look at the script's own scope see the script's globals, as in the library run
        ("defined-own-global", "x = 1\nprintln(defined(\"x\"))\nif !defined(\"x\") { throw \"own global not seen by defined()\" }"),
        ("defined-in-func", "func f() { return defined(\"y\") }\ny = 2\nprintln(f())\nprintln(defined(\"nosuch\"))"),
        ("defined-args", "println(defined(\"args\"))"),
        # a script that handles the interrupt signal itself runs its own shutdown path, as it does under vm.Execute
        ("sigint-self", "os = import(\"os\")\nsignal = import(\"os/signal\")\ntime = import(\"time\")\nc = make(chan os.Signal, 1)\nsignal.Notify(c, os.Interrupt)\nprintln(\"serving\")\n"
                        "p, err = os.FindProcess(os.Getpid())\np.Signal(os.Interrupt)\ns = <-c\nprintln(\"got\", s)\ntime.Sleep(200000000)\nprintln(\"clean shutdown\")"),
        # a run that succeeds is a success whatever VALUE its last statement leaves behind (an error value, a list with a nil, false)
        ("last-value-caught-error", "println(1)\ntry { throw \"x\" } catch e { e }"), ("last-value-errors-new", "errors = import(\"errors\")\nprintln(1)\nerrors.New(\"boom\")"),
        ("last-value-go-error", "os = import(\"os\")\nos.Remove(\"/nonexistent-dir-zz/file\")"), ("last-value-pair", "os = import(\"os\")\nos.Open(\"/nonexistent-dir-zz/file\")"),
        ("last-value-false", "println(1)\nfalse"), ("last-value-nil", "nil"), ("last-value-func", "func f() { throw \"never called\" }\nf"),
        # what the command decides BEFORE or AROUND the run is nothing: a name that is only a problem when reached is only reported when reached (unknown package in a branch
        # not taken, in a function never called, under try), and what was printed before a failure stays printed
        ("import-missing-untaken", "println(1)\nif false {\n import(\"nosuchpackage\")\n}\nprintln(2)"), ("import-missing-uncalled", "func f() {\n return import(\"nosuchpackage\")\n}\nprintln(1)"),
        ("import-missing-caught", "try {\n import(\"nosuchpackage\")\n} catch e {\n println(\"caught\")\n}\nprintln(2)"), ("import-missing-after-output", "println(\"before\")\nimport(\"nosuchpackage\")\nprintln(\"after\")"),
        ("import-missing-nilco", "x = import(\"nosuchpackage\") ?? 5\nprintln(x)"), ("import-computed", "n = \"str\" + \"ings\"\ns = import(n)\nprintln(s.ToUpper(\"ok\"))"),
        ("undefined-untaken", "println(1)\nif false {\n zz()\n}\nprintln(2)"), ("undefined-type-untaken", "println(1)\nif false {\n make(nosuchtype)\n}\nprintln(2)"), ("load-missing-caught", "try {\n load(\"/nonexistent-zz.ank\")\n} catch e {\n println(\"caught\")\n}"),
        # the command runs the script with the resources the library gives it: recursion as deep as vm.Execute manages in a process of its own
        ("recursion-20k", "func d(n) {\n if n == 0 {\n  return 0\n }\n return d(n - 1) + 1\n}\nprintln(d(20000))"), ("recursion-60k", "func d(n) {\n if n == 0 {\n  return 0\n }\n return d(n - 1) + 1\n}\nprintln(d(60000))"),
        ("recursion-150k-throw", "func d(n) {\n if n == 0 {\n  return 0\n }\n return d(n - 1) + 1\n}\nprintln(d(150000))\nthrow \"after\""), ("big-list", "a = []\nfor i = 0; i < 300000; i++ {\n a += i\n}\nprintln(len(a))"),
        ("many-goroutines", "c = make(chan int64, 100)\nfor i = 0; i < 5000; i++ {\n go func(k) {\n  c <- k\n }(i)\n}\nn = 0\nfor i = 0; i < 5000; i++ {\n n += <-c\n}\nprintln(n)"),
        # -e with an empty source executes the empty program
        ("empty-source", ""), ("blank-source", " \n"),
        # what the script file holds is the source, byte for byte: a byte order mark is not dropped for the command only
        ("bom-file", "\ufeffprintln(\"hi\")"), ("bom-only", "\ufeff"), ("bom-comment", "\ufeff# c\nprintln(1)"), ("bom-mid", "println(1)\n\ufeffprintln(2)"), ("bom-twice", "\ufeff\ufeffprintln(1)"),
        ("latin1-bytes", "println(\"caf\u00e9\")"),
        # a run error is a run error whatever its Go type (a builtin failing on a file, a package function's error thrown on)
        ("load-missing-top", "println(1)\nload(\"nope-does-not-exist.ank\")\nprintln(2)"), ("load-dir-top", "println(1)\nload(\"/\")"), ("load-missing-in-func", "func f() { load(\"nope-does-not-exist.ank\") }\nprintln(1)\nf()"),
        ("load-missing-caught", "try { load(\"nope-does-not-exist.ank\") } catch e { println(\"caught\") }"),
        ("throw-go-error", "os = import(\"os\")\nr = os.Open(\"/nonexistent-dir-zz/f\")\nprintln(1)\nthrow r[1]"), ("throw-nested-error", "errors = import(\"errors\")\nthrow errors.New(\"plain\")"),
        ("div-zero", "println(1 % 0)"), ("deep-error", "func f() { return g() }\nfunc g() { throw \"deep\" }\nprintln(0)\nf()"),
    ]
    scripts += [("sp-" + n, s) for n, s in special]
    out = []
    for sid, src in scripts:
        for mode in ("file", "e"):
            if mode == "e" and len(src) > 100000:      # one argv string is limited to 128 KiB by the kernel: not a property of the command
                continue
            out.append({"id": "%s-%s" % (sid, mode), "mode": mode, "src": src, "args": ["x1", "y2"], "readable": True})
    for sid, src in scripts[-len(special):]:
        out.append({"id": "%s-noargs" % sid, "mode": "file", "src": src, "args": [], "readable": True})
        if len(src) <= 100000:
            out.append({"id": "%s-e-noargs" % sid, "mode": "e", "src": src, "args": [], "readable": True})
    # the file named by a relative path (with a directory part; with ./), the command started elsewhere than next to it
    for sid, src in scripts[-len(special):][:12] + [("sp-load-rel", "println(1)")]:
        for rel in ("sub", "dot"):
            out.append({"id": "%s-rel-%s" % (sid, rel), "mode": "file", "src": src, "args": ["x1"], "readable": True, "rel": rel})
    for k in range(3):
        for how in ("missing", "dir", "perm", "empty"):
            out.append({"id": "unreadable-%s-%d" % (how, k), "mode": "file", "src": "println(1)", "args": ["a"] * k, "readable": False, "unread": how})
    return out


def run(ctx):
    ctx.assumptions += ["interactive mode and the text of the diagnostic line are not asserted", "stdout is compared as: starts with the library run's output, then exactly 0 or 1 further line"]
    r = vlib.run_tlc(ctx, "AnkoCli", "MC_AnkoCli.cfg", workers=1, timeout=300, want_lines=False)
    vlib.tlc_ok(ctx, r, "AnkoCli")
    binp = vlib.build_harness(ctx, "cliharness")
    rend = vlib.build_harness(ctx, "render")
    anko = os.path.join(ctx.work, "bin", "anko")
    p = vlib.run_cmd(ctx, ["go", "build", "-o", anko, "."], cwd=vlib.REPO, ok_codes=None)
    if p.returncode != 0:
        raise Broken("building ./anko failed: " + p.stderr[-1500:])
    sc = scenarios(ctx, rend)
    sp = os.path.join(ctx.work, "scenarios.ndjson")
    vlib.write_ndjson(sp, sc)
    op = os.path.join(ctx.work, "cli_obs.ndjson")
    # shard the process launches
    n = 8
    import concurrent.futures
    def shard(k):
        part = [s for i, s in enumerate(sc) if i % n == k]
        spk, opk = sp + ".%d" % k, op + ".%d" % k
        vlib.write_ndjson(spk, part)
        vlib.run_cmd(ctx, [binp, "run", anko, spk, opk], timeout=1800)
        return vlib.read_ndjson(opk)
    with concurrent.futures.ThreadPoolExecutor(max_workers=n) as ex:
        obs = [o for part in ex.map(shard, range(n)) for o in part]
    byid = {s["id"]: s for s in sc}
    crashed = [o for o in obs if o["lib"] in ("crash", "timeout") or o["timed_out"]]
    if crashed:
        ctx.notes.append("%d scenarios where the library child crashed or timed out were skipped: %s" % (len(crashed), [o["id"] for o in crashed][:5]))
        ctx.cov["skipped_out_of_subset"] += len(crashed)
    obs = [o for o in obs if o not in crashed]
    vlib.write_ndjson(op, [{k: o[k] for k in ("id", "mode", "readable", "exit", "lib", "prefix_ok", "extra_lines", "timed_out")} for o in obs])
    rej, total, r = vlib.validate_lines(ctx, "Trace_AnkoCli", "Trace_AnkoCli.cfg", [op])
    ctx.cov["traces_validated_against_impl"] += total - len(rej)
    ctx.cov["evaluations"] += total
    ctx.cov["distinct_nontrivial"] += len({o["id"] for o in obs if o["stdout"] or o["exit"] != 0})
    ctx.cov["verdict_mix"] = {v: sum(1 for o in obs if o["lib"] == v) for v in ("ok", "parse", "run", "none")}
    o = [x for x in obs if x["lib"] == "run"][0]
    ctx.sample({"scenario": byid[o["id"]], "observed": {k: o[k] for k in ("exit", "stdout", "lib", "lib_stdout")}})
    for ln in rej[:20]:
        o = obs[ln - 1]
        vlib.violation(ctx, "./anko %s disagrees with the library: exit=%d lib=%s prefix_ok=%s extra_lines=%d stdout=%r lib_stdout=%r on:\n%s"
                       % (o["mode"], o["exit"], o["lib"], o["prefix_ok"], o["extra_lines"], o["stdout"][-200:], o["lib_stdout"][-200:], byid[o["id"]]["src"][-400:]),
                       {"kind": "cli", "scenario": byid[o["id"]], "obs": o})
    if not ctx.violations:
        bad = dict(obs[0]); bad["exit"] = 4 if bad["exit"] == 0 else 0
        vlib.write_ndjson(op, [{k: bad[k] for k in ("id", "mode", "readable", "exit", "lib", "prefix_ok", "extra_lines", "timed_out")}])
        rej, total, r = vlib.validate_lines(ctx, "Trace_AnkoCli", "Trace_AnkoCli.cfg", [op])
        ok = rej == [1]
        ctx.cov["controls"].append({"control": "observation with altered exit status must be rejected", "detected": ok})
        if not ok:
            raise Broken("corruption control failed")
    return vlib.finish(ctx, RULE, exhaustive=False)


def replay(ctx, path):
    p = json.load(open(path))
    binp = vlib.build_harness(ctx, "cliharness")
    anko = os.path.join(ctx.work, "bin", "anko")
    vlib.run_cmd(ctx, ["go", "build", "-o", anko, "."], cwd=vlib.REPO)
    sp = os.path.join(ctx.work, "scenarios.ndjson")
    vlib.write_ndjson(sp, [p["scenario"]])
    op = os.path.join(ctx.work, "cli_obs.ndjson")
    vlib.run_cmd(ctx, [binp, "run", anko, sp, op])
    obs = vlib.read_ndjson(op)
    print(json.dumps(obs))
    vlib.write_ndjson(op, [{k: o[k] for k in ("id", "mode", "readable", "exit", "lib", "prefix_ok", "extra_lines", "timed_out")} for o in obs])
    rej, total, r = vlib.validate_lines(ctx, "Trace_AnkoCli", "Trace_AnkoCli.cfg", [op])
    if rej:
        print("VIOLATION property=%s replay=%s" % (ctx.id, path))
    return 1 if rej else 0
