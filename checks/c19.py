"""C19 -- core builtins and bundled package tables agree with their Go counterparts (spec/AnkoBuiltins.tla)."""
import json, os, struct, itertools
import vlib
from vlib import Broken
import c06

LEVEL = "model_checking"
RULE = ("AnkoBuiltins defines range as the int64 progression strictly before stop (computed by TLC with the Int64 limb arithmetic, ending where the next term would "
        "leave int64) for all triples in -4..4, the one- and two-argument forms, zero steps and wrong counts, and for shifted/scaled extreme triples near the int64 "
        "edges; toInt / toFloat as dispatch on annotated values to exact results or named primitives. Every case is evaluated by the real builtin in a memory-limited, "
        "watchdogged worker (a runaway loop is attributed to its case). keys/len/typeOf/kindOf/toString/toRune/toChar/byte-rune-typed-slice forms and misuse are "
        "compared with the same computation done natively in Go; every package-table entry is dumped by reflection (runtime symbol of functions, package path and "
        "name of types) and validated by TLC against EntryOK. distinct_nontrivial = builtin cases + table entries.")

ALLOW = {("flag", "Usage"): "a package-level VARIABLE of function type (its value is an anonymous function of package flag)",
         ("sort", "SortFuncsStruct"): "anko's own documented helper type for sort.Sort, not a Go type"}


def limbs(n): return list((n & 0xFFFFFFFFFFFFFFFF).to_bytes(8, "little"))


def builtin_cases(ctx):
    out = []
    def rng(*a): out.append({"id": "range(%s)" % ",".join(map(str, a)), "fn": "range", "args": [limbs(x) for x in a], "v": c06.NIL})
    r = range(-4, 5)
    for a, b, c in itertools.product(r, r, r):
        rng(a, b, c)
    for a, b in itertools.product(r, r):
        rng(a, b)
    for a in r:
        rng(a)
    out.append({"id": "range()", "fn": "range", "args": [], "v": c06.NIL})
    rng(1, 2, 3, 4)
    MAX, MIN = 2**63 - 1, -2**63
    ext = [(MAX - 1, MAX, 2), (MAX - 3, MAX, 1), (MAX - 5, MAX, 2), (MAX - 5, MAX, 3), (MAX - 10, MAX, 7), (MIN + 1, MIN, -2), (MIN + 5, MIN, -3), (MIN + 3, MIN, -1), (MAX - 2, MAX, MAX),
           (MIN, MIN + 3, 1), (MAX, MIN, -MAX), (MIN, MAX, MAX), (0, MAX, 2**62), (0, MIN, -2**62), (MAX, MAX, 1), (MIN, MIN, -1), (MAX, MAX - 1, -1), (5, 1, MIN), (-5, 1, MAX),
           (MAX - 64, MAX, 1), (MIN + 64, MIN, -1), (10**18, MAX, 10**18), (-10**18, MIN, -10**18), (1, MAX, 2**62 + 1), (MAX - 1, MAX, 1), (MIN, MIN + 1, 1)]
    for t in ext:
        rng(*t)
    if not ctx.quick():
        for a in (MAX - 7, MIN + 7, 0, 2**62):
            for s in (1, 2, 3, 5, -1, -2, -3, 2**61, -2**61, MAX, MIN):
                for d in (1, 2, 3, 6):
                    rng(a, max(MIN, min(MAX, a + s * d)), s)
    # conversions over the annotated value pool of C06 plus a few more
    vals = c06.pool(ctx) + [c06.S(x) for x in ("3.99", "-2.5", "1e3", "abc", "12abc", "  7", "0x1f", "+5", "1_000",
                                                  "-0", "-00", "-0.0", "-0e0", "0", "00", "-1", "-12", "0.0", "9007199254740993", "-9007199254740993", "9223372036854775807", "-9223372036854775808", "9223372036854775806", "4611686018427387905", "123456789012345678", "1000000000000000001")] + [c06.F(x) for x in (3.99, -2.5, 1e15, -0.0, 123456.789)]
    for v in vals:
        # C19's own reading of "decimal numeral string": what strconv parses beyond plain digits (exponent, sign, blanks, underscores, Inf / NaN, hexadecimal
        # floats) is left open here; an integer numeral outside int64 is parsed as a float
        if v["t"] == "str" and v["num"]["k"] == "none":
            try:
                float(v["s"]); looks = True
            except ValueError:
                looks = v["s"].strip() != v["s"] or v["s"].startswith("+") or v["s"].lower() in ("true", "false", "t", "f") or "p" in v["s"].lower()
            v["openstr"] = v["openstr"] or looks
        if v["t"] == "str" and v["num"]["k"] == "big":
            v["num"] = dict(v["num"], k="flt")
    for i, v in enumerate(vals):
        if v["t"] == "flt" and (v["nan"] or abs(struct.unpack("<d", bytes(v["l"]))[0]) > 9e18):
            continue         # NaN / out-of-range float to int: implementation-defined in Go
        out.append({"id": "toInt#%d" % i, "fn": "toInt", "args": [], "v": v})
        out.append({"id": "toFloat#%d" % i, "fn": "toFloat", "args": [], "v": v})
    return out


def run(ctx):
    binp = vlib.build_harness(ctx, "builtinharness")
    ctx.assumptions += ["strconv.ParseFloat / float64->int64 truncation / fmt.Sprint are Go primitives", "toBool, load, print*, bool arguments to toInt/toFloat and numeral strings with exponent/sign/space are not asserted",
                        "variables and constants in package tables are only listed (identity not observable); two documented entries are allow-listed: %s" % json.dumps({"%s.%s" % k: v for k, v in ALLOW.items()}),
                        "progressions longer than 70 elements are not generated"]
    cases = builtin_cases(ctx)
    cp = os.path.join(ctx.work, "builtin_cases.ndjson")
    vlib.write_ndjson(cp, cases)
    r = vlib.run_tlc(ctx, "MC_AnkoBuiltins", "MC_AnkoBuiltins.cfg", workers=4, timeout=3000, want_lines=False, copy=[cp], xss="256m")
    vlib.tlc_ok(ctx, r, "MC_AnkoBuiltins")
    res = os.path.join(ctx.work, "builtin.json")
    vlib.run_cmd(ctx, [binp, "cases", cp, os.path.join(r.dir, "tlc.out"), res], timeout=3000)
    s = json.load(open(res))
    ctx.cov["evaluations"] += s["cases"]
    ctx.cov["distinct_nontrivial"] += s["cases"] - s["open"]
    ctx.cov["traces_validated_against_impl"] += s["cases"] - s["open"]
    ctx.cov["builtin_cases"] = {"cases": s["cases"], "open": s["open"], "worker_deaths": s["worker_deaths"]}
    for smp in (s.get("samples") or [])[:2]:
        ctx.sample(smp)
    for m in (s.get("mismatches") or [])[:15]:
        vlib.violation(ctx, "%s: %s expected %s got %s" % (m["id"], m["what"], m.get("expected"), m.get("got")), {"kind": "builtin", "case": m["case"], "what": m["what"], "finding_key": "builtin:" + m["id"]})
    res = os.path.join(ctx.work, "native.json")
    vlib.run_cmd(ctx, [binp, "native", res], timeout=1200)
    s = json.load(open(res))
    ctx.cov["evaluations"] += s["cases"]
    ctx.cov["distinct_nontrivial"] += s["cases"]
    ctx.cov["native_oracle_cases"] = s["cases"]
    for m in (s.get("mismatches") or [])[:15]:
        vlib.violation(ctx, "%s: %s expected %s got %s" % (m["id"], m["what"], m.get("expected"), m.get("got")), {"kind": "native", "id": m["id"], "what": m["what"]})
    # package tables
    pe = os.path.join(ctx.work, "package_entries_all.ndjson")
    vlib.run_cmd(ctx, [binp, "packages", pe])
    entries = vlib.read_ndjson(pe)
    judged = [e for e in entries if (e["pkg"], e["name"]) not in ALLOW]
    pj = os.path.join(ctx.work, "package_entries.ndjson")
    vlib.write_ndjson(pj, [{k: e[k] for k in ("pkg", "name", "kind", "sym")} for e in judged])
    rej, total, r = vlib.validate_lines(ctx, "Trace_AnkoPackages", "Trace_AnkoPackages.cfg", [pj])
    ctx.cov["evaluations"] += total
    ctx.cov["distinct_nontrivial"] += sum(1 for e in judged if e["kind"] in ("func", "type"))
    ctx.cov["traces_validated_against_impl"] += total - len(rej)
    ctx.cov["package_entries"] = {"total": len(entries), "functions": sum(1 for e in entries if e["kind"] == "func"), "types": sum(1 for e in entries if e["kind"] == "type"),
                                  "values_only_listed": sum(1 for e in entries if e["kind"] == "value"), "allow_listed": len(entries) - len(judged)}
    if len(entries) < 300:
        raise Broken("package tables look empty (%d entries)" % len(entries))
    ctx.sample({"package_entry": judged[len(judged) // 2]})
    for ln in rej[:15]:
        e = judged[ln - 1]
        vlib.violation(ctx, "package table entry %s.%s (%s) is %s" % (e["pkg"], e["name"], e["kind"], e["sym"]), {"kind": "package", "entry": e})
    if not ctx.violations:
        bad = dict(judged[0]); bad["sym"] = bad["sym"] + "X"
        if bad["kind"] == "value":
            bad["kind"] = "func"
        vlib.write_ndjson(pj, [{k: bad[k] for k in ("pkg", "name", "kind", "sym")}])
        rej, total, r = vlib.validate_lines(ctx, "Trace_AnkoPackages", "Trace_AnkoPackages.cfg", [pj])
        ok = rej == [1]
        ctx.cov["controls"].append({"control": "table entry pointing at another symbol must be rejected", "detected": ok})
        if not ok:
            raise Broken("corruption control failed")
    return vlib.finish(ctx, RULE, exhaustive=True)


def replay(ctx, path):
    binp = vlib.build_harness(ctx, "builtinharness")
    p = json.load(open(path))
    if p["kind"] != "builtin":
        print("re-run bin/check C19")
        return 2
    cp = os.path.join(ctx.work, "builtin_cases.ndjson")
    vlib.write_ndjson(cp, [p["case"]])
    r = vlib.run_tlc(ctx, "MC_AnkoBuiltins", "MC_AnkoBuiltins.cfg", workers=1, timeout=600, want_lines=False, copy=[cp], xss="256m")
    res = os.path.join(ctx.work, "one.json")
    vlib.run_cmd(ctx, [binp, "cases", cp, os.path.join(r.dir, "tlc.out"), res])
    bad = json.load(open(res))["n_mismatch"] > 0
    if bad:
        print("VIOLATION property=%s replay=%s" % (ctx.id, path))
    return 1 if bad else 0
