"""C01 -- a script can never crash the embedding Go program (spec/AnkoHost.tla)."""
import base64, json, os, random, itertools, concurrent.futures
import vlib, grammarcorpus, rawcorpus, progs
import c20
from vlib import Broken

LEVEL = "exploration"
RULE = ("The host machine (call -> return(value | error); panic and process death forbidden) is model-checked; inputs are generated from the specifications: TLC builds every "
        "operation template (one and two operand holes: all operators, index/slice/call/spread/member/deref, assignment targets, channel ops, make, delete, loops, switch, "
        "go/defer) applied to every tuple of operand kinds of the value universe (ill-typed combinations included), plus degenerate forms, the grammar corpus, the raw corpus, "
        "every truncation/deletion of a sample of valid programs, random token soups and random bytes. Each is parsed and run (Debug off) in a memory-limited worker process; "
        "a panic reaching the caller, a dead worker (fatal error, panic on a script goroutine) or a hang is attributed to its case, and TLC accepts a run only if it ended by "
        "Return. distinct_nontrivial = distinct source texts executed.")

# (no astronomically large integer among the operand kinds: sizes of that magnitude are outside the guarantee)
VARS = ["vi", "vz", "vneg", "vf", "vs", "ve", "vb", "vn", "vl", "vel", "vll", "vm", "vc", "vg", "vfn", "vfv", "vmo", "vp", "vnp", "vst", "vtl", "vtm", "vcc", "vsi", "vsf", "vtmi", "vtmf", "vtls", "vnilm", "vnill", "vps", "vnilp", "vtlp", "vnl", "vtfp", "vcp", "vu", "vby", "vf32", "vi8", "vmf", "vnf", "vmfv", "vsu", "vsb", "vnmod", "vnerr"]

T2 = []
def t2(i, pre, mid, post): T2.append({"id": i, "pre": pre, "mid": mid, "post": post})
for op in ("+", "-", "*", "/", "%", "&", "|", "<<", ">>", "==", "!=", "<", "<=", ">", ">=", "&&", "||", "??", "in"):
    t2("bin" + op, "", " %s " % op, "")
t2("index", "", "[", "]"); t2("index-assign", "", "[", "] = 1\n1"); t2("index-assign-v", "x = [1, 2]\nx[", "] = ", ""); t2("slice", "", "[", ":]"); t2("slice-hi", "", "[:", "]")
t2("slice3", "", "[0:", ":2]"); t2("call", "", "(", ")"); t2("call-spread", "", "(", "...)"); t2("call2", "", "(1, ", ")"); t2("send", "", " <- ", ""); t2("delete", "delete(", ", ", ")")
t2("make-slice", "make([]int64, ", ", ", ")"); t2("make-chan", "make(chan int64, ", ")\n", ""); t2("forin-body", "for k, v in ", " {\n x = ", "\n}"); t2("switch", "switch ", " {\ncase ", ":\n 1\n}")
t2("member-assign", "", ".x = ", ""); t2("deref-assign", "*", " = ", ""); t2("opassign", "x = ", "\nx += ", "\nx"); t2("opassign-minus", "x = ", "\nx -= ", ""); t2("opassign-mul", "x = ", "\nx *= ", "")
t2("go", "go ", "(", ")"); t2("go-spread", "go ", "(", "...)"); t2("defer", "func() {\n defer ", "(", ")\n}()"); t2("tern", "", " ? ", " : 1"); t2("list", "[", ", ", "]"); t2("map", "{", ": ", "}")
t2("typed-list", "[]int64{", ", ", "}"); t2("typed-map", "map[string]int64{", ": ", "}"); t2("let-map-item", "a, b = ", "[", "]"); t2("chan-stmt", "a, b = <-", "\n", ""); t2("multi-assign", "a, b = ", ", ", "")
t2("var-unpack", "var a, b, c = ", ", ", ""); t2("str-mul", "", " * ", ""); t2("member-call", "", ".", "()"); t2("new-call", "", "(", ")()"); t2("len-plus", "len(", ") + ", "")
t2("throw-in-try", "try {\n throw ", "\n} catch e {\n ", "\n}"); t2("cfor", "for i = ", "; i < ", "; i++ {\n break\n}"); t2("while", "for ", " {\n ", "\n break\n}")
# containers changed while they are being iterated
t2("forin-map-del", 'm = {"a": 1, "b": 2, "c": 3}\nfor k, v in m {\n delete(m, "a")\n delete(m, "b")\n delete(m, "c")\n x = [v, ', ']\n y = ', '\n}')
t2("forin-map-del-use", 'm = {"a": 1, "b": 2, "c": 3}\nr = ', '\nfor k, v in m {\n delete(m, "a")\n delete(m, "b")\n delete(m, "c")\n r += v\n r = r ', ' v\n}')
t2("forin-slice-shrink", 'l = [1, 2, 3]\nfor v in l {\n l = l[0:1]\n x = [v, ', ', ', ']\n}')
t2("forin-over-del", 'for k, v in ', ' {\n delete(', ', k)\n x = [k, v]\n}')
t2("member-assign-A", "", ".A = ", ""); t2("elem-member-assign", "[", "][0].A = ", ""); t2("map-member-assign", "{\"k\": ", "}.k.A = ", ""); t2("call-member-assign", "id(", ").A = ", "")
t2("list-var-member-assign", "q = [", "]\nq[0].A = ", "\nq"); t2("map-var-member-assign", "q = {\"k\": ", "}\nq.k.A = ", "\nq"); t2("elem-member-assign-B", "[", "][0].B = ", ""); t2("elem-elem-assign", "[", "][0][0] = ", "")
t2("elem0-assign", "", "[0] = ", ""); t2("forin-single", "for v in ", " {\n x = [v, ", "]\n break\n}")
# defers / goroutines registered at the top level of the script (they run from RunContext, below no call expression)
t2("defer-top", "defer ", "(", ")\n1"); t2("defer-top-spread", "defer ", "(", "...)\n1"); t2("defer-top-throw", "defer ", "(", ")\nthrow \"t\"")
t2("make-type", "make(type X, ", ")\nmake(X)\n", ""); t2("spread-fv", "vfv(", ", ", "...)"); t2("fn-arg-go", "vg(", ") + vg(", ")"); t2("addr-deref", "*(&", ") + ", "")

DEGENERATE = ["ga3([1, 2, 3, 4])", "ga3([1])", "ga3([])", "ga3(vl)", "ga3(vll)", "ga3([1, 2, 3, 4, 5, 6, 7, 8, 9])", "vtfp[0] = vtlp[0]", "vtfp[0] = vnilp", "gpf(vnilp)", "gpf(vtlp[0])", "vtfp += vtlp",
              "for v in vcp {\n x = [v]\n break\n}", "c = make(chan *int64, 1)\nc <- nil\nclose(c)\nr = []\nfor v in c {\n r += v\n}\nr", 'm = {"a": 1, "b": 2, "c": 3}\nfor k, v in m {\n delete(m, "a")\n delete(m, "b")\n delete(m, "c")\n x = [v]\n}', 'm = {"a": 1, "b": 2}\nfor k, v in m {\n m = {}\n x = {"z": v}\n}',
              'm = {"a": 1, "b": 2, "c": 3}\nf = func(x) { return x }\nfor k, v in m {\n delete(m, "a")\n delete(m, "b")\n delete(m, "c")\n f(v)\n}', "vtmi.x = \"a\"", "vtmi.x", "vtmf.x = true", "vnilm.k = 1", "vnilm[\"k\"] = 1", "vnill[0] = 1", "vnill += 1",
              "var a =", "var a, b =", "a, b =", "= 1", "return", "return ,", "f(...)", "f(", "vfn(...)", "vfv(...)", "vg(...)", "go vfn(...)", "defer vfn(...)", "{1:}", "{:1}", "[,]", "[1,]", "a[]", "a[:]", "vl[:]", "vl[::]",
              "for { }", "for ;; { break }", "for in x { }", "for a, b, c in x { }", "switch { }", "switch 1 { case: }", "switch 1 { default: default: }", "if { }", "else { }", "try { } catch", "try { }", "throw", "module { }",
              "func() { }()", "func(a, a) { return a }(1, 2)", "func(a...) { return a }()", "func f(f) { return f(f) }\nf(f)", "make()", "make(int64, 1, 2, 3)", "new()", "new(nosuchtype)", "make(nosuch.type)", "a = 1\nmake(a.b)",
              "make([]nosuch)", "make(chan nosuch, 1)", "make(map[nosuch]int64)", "make(struct { A nosuch })", "make(type T)", "len()", "delete()", "delete(vm)", "close()", "close(vm)", "import()", "import(1)", "import(\"nosuch\")",
              "x = 1\n*x = 2", "*nil", "&nil", "*vn = 1", "vnp[0][0]", "for v in vnp { v }", "for v in [nil] { v }", "for v in [vp, nil] { *v }", "\"x\" * -1", 
              "[1] * 3", "vl[9223372036854775807]", "vl[-9223372036854775808]", "vl[1:0]", "vl[0:9]", "vl[0:1:9]", "\"abc\"[0:1:2]", "vs[5]", "vs[1:9]", "1 / 0", "1 % 0", "vf % 0", "1 << -1", "1 << 64", "-9223372036854775808 / -1",
              "-9223372036854775808 % -1", "vc <- \"notanint\"", "vcc <- vcc", "<-vm", "close(vc)\nclose(vc)", "close(vc)\nvc <- 1", "close(vcc)\nvcc <- 1", "go vg(\"x\")", "go keys(1)", "go range()", "go vfn()", "go vl()", "go nil()",
              "go (func() { zz })()", "go (func() { throw \"x\" })()", "go (func() { vl[9] })()", "go (func() { keys(1) })()", "go (func() { panic_does_not_exist() })()", "defer vg(\"x\")", "defer keys(1)", "defer zz()",
              "func() { defer keys(1) }()", "func() { defer vl() }()", "func() { defer (func() { throw \"d\" })()\n throw \"b\" }()", "keys(1)", "keys()", "range()", "range(1, 2, 3, 4)", "range(\"a\")", "toInt()", "typeOf()", "toRune(1, 2)",
              "vmo.nosuch", "vmo.x.y", "vst.Nope", "vst.A = \"s\"", "vst.A.B", "vtl[0] = \"s\"", "vtl += \"s\"", "vtm[1] = 2", "vtm.k = \"v\"", "vm[vl] = 1", "vm[vm] = 1", "delete(vm, vl)", "{vl: 1}", "{vm: 1}", "vm[vl]",
              "x = {}\nx.a.b = 1", "x = nil\nx.a = 1", "x = nil\nx[0] = 1", "x = nil\nx += 1", "vn()", "vn.x", "vn[0]", "vi()", "vi.x", "vi[0]", "vs()", "vf.x", "vb[0]", "vfn.x", "vfn[0]", "vg.x", "vc.x", "vc[0]",
              "break", "continue", "func() { break }()", "func() { continue }()", "for { func() { break }() }", "x = func() { return x }\nx()()()", "a = [1]\na[0] = a\na", "m = {}\nm.m = m\nm", "a = [1]\na += a\na",
              "1 = 2", "1++", "\"a\"++", "nil = 1", "[1, 2] = [3, 4]", "vl[0], vl[9] = 1, 2", "a.b.c = 1", "f().x = 1", "(1) = 2", "true = false", "len = 1", "func = 1", "x = func",
              "switch vl { case vl: 1 }", "switch vm { case vm: 1 }", "switch vfn { case vfn: 1 }", "vl == vl", "vm == vm", "vfn == vfn", "vc == vc", "vl in vl", "vm in [vm]", "vfn in [vfn]",
              "make([]int64, -1)", "make([]int64, 1, 0)", "make(chan int64, -1)", "make([]int64, \"x\")", "make([]int64, nil)", "make([]int64, vl)",
              "toString(vfn)", "toString(vc)", "toInt(vl)", "toFloat(vm)", "typeOf(vcc)", "kindOf(nil)", "println", "x = println\nx = print", "load(\"/nonexistent/file\")", "load(1)", "defined(1)", "defined()"]


# storage that an operand was read from is replaced (shrunk, retyped) by a LATER operand or by the loop body, before the operation uses it
_TC = "c = make([][]int64, 1)\nc[0] = [1, 2, 3]\n"
_ST = "st = make(struct { S []int64 })\nst.S = [1, 2, 3]\n"
_PT = "pt = new([]int64)\n*pt = [1, 2, 3]\n"
_SH = "func() { %s; return %s }()"
DEGENERATE += ["a = [1]\nm = {a[0]: " + _SH % ("a[0] = [1, 2]", "1") + "}", "a = [1]\nm = map[interface]interface{a[0]: " + _SH % ("a[0] = {}", "1") + "}",
               "a = [1, 2, 3]\na[" + _SH % ("a = []", "1") + "]", "a = [1, 2, 3]\na[0:" + _SH % ("a = []", "2") + "]", "a = [1, 2, 3]\na[" + _SH % ("a = [1]", "2") + "] = 5",
               'm = {"k": [1, 2]}\nm.k[' + _SH % ("m.k = []", "1") + "]", 'm = {"k": [1, 2]}\nm.k[' + _SH % ("m = {}", "1") + "] = 3", 'm = {"k": [1, 2]}\nfor x in m.k {\n m.k = []\n}',
               "try { make(struct { a int64 }) } catch e { e.s }", "try { throw 1 } catch e { e.s }", "try { vl[9] } catch e { [e.Message, e.Pos, e.message, e.pos] }", "try { zz } catch e { e.Error() + e.String() }"]
for _pre, _place in ((_TC, "c[0]"), (_ST, "st.S"), (_PT, "*pt")):
    for _new in ("[]", "nil", "[1]"):
        DEGENERATE += [_pre + "for x in %s {\n %s = %s\n}" % (_place, _place, _new), _pre + "for i, x in %s {\n %s = %s\n}" % (_place, _place, _new) if False else _pre + "for x in %s {\n %s = %s\n y = [x]\n}" % (_place, _place, _new),
                       _pre + "%s[%s]" % (_place, _SH % (_place + " = " + _new, "2")), _pre + "%s[%s:]" % (_place, _SH % (_place + " = " + _new, "1")), _pre + "%s[0:%s]" % (_place, _SH % (_place + " = " + _new, "3")),
                       _pre + "%s[0:2:%s]" % (_place, _SH % (_place + " = " + _new, "3")), _pre + "%s[2] = %s" % (_place, _SH % (_place + " = " + _new, "7")), _pre + "%s[%s] = 7" % (_place, _SH % (_place + " = " + _new, "2")),
                       _pre + "%s += %s" % (_place, _SH % (_place + " = " + _new, "[9]")), _pre + "len(%s) + %s" % (_place, _SH % (_place + " = " + _new, "1")), _pre + "1 in (%s + %s)" % (_place, _SH % (_place + " = " + _new, "[1]")),
                       _pre + "switch %s[0] {\ncase %s:\n 1\n}" % (_place, _SH % (_place + " = " + _new, "1")), _pre + "x, y = %s[1], %s" % (_place, _SH % (_place + " = " + _new, "1")),
                       _pre + "vg(%s[1]) + vg(%s)" % (_place, _SH % (_place + " = " + _new, "1")), _pre + "{%s[1]: %s}" % (_place, _SH % (_place + " = " + _new, "1")), _pre + "[%s[1], %s, %s[0]]" % (_place, _SH % (_place + " = " + _new, "1"), _place)]

# the zero value of a named module type (a nil module), NaN as a map key, typed slices of the wrong length for an array parameter
_NM = "module m { x = 1 }\nmake(type M, m)\nms = make([]M, 1)\n"
DEGENERATE += [_NM + t for t in ("ms[0].x", "ms[0].x = 1", "y = ms[0]\ny", "var y = ms[0]\ny", "for q in ms {\n q.x\n}", "ms[0].f()", "z = make(M)\nz.x", "z = make(M)\nz.x = 2", "z = make(M)\nw = z\nw", "make(ms[0].T)",
                                "for q in ms {\n make(q.T)\n}", "for q in ms {\n []q.T{1}\n}", "for q in ms {\n make(chan q.T)\n}", "p = new(M)\n(*p).x", "delete(\"m\")\nm.x", "f = func(a) { return a.x }\nf(ms[0])", "[ms[0]][0].x", "ms[0] == nil")]
_NAN = "nan = 0.0 / 0.0\n"
DEGENERATE += [_NAN + t for t in ("a = make([]map[float64]int64, 1)\na[0][nan] += 1", "a = make([]map[float64]int64, 1)\na[0][nan] = 1\na[0][nan]", "m = {}\nm[nan] = 1\n[m[nan], len(m)]", "m = make(map[float64]int64)\nm[nan] += 1\nm",
                                 "m = {}\nm[nan] = 1\ndelete(m, nan)\nlen(m)", "m = {}\nm[nan] = 1\nfor k, v in m {\n x = [k, v]\n}", "m = {}\nm[nan] = 1\nv, ok = m[nan]\n[v, ok]", "m = {nan: 1, nan: 2}\nlen(m)", "nan in [nan]",
                                 "switch nan {\ncase nan:\n 1\n}", "m = map[float64]string{nan: \"a\"}\nm[nan]", "m = {}\nm[nan] = {}\nm[nan].k = 1", "m = {}\nm[[nan]] = 1")]
DEGENERATE += ["defer vmf()", "defer vnf()", "defer vmfv()", "defer vmf(1)\n1", "defer vnf(1)\n1", "defer vmfv(1, 2)\n1", "vmf()", "vnf()", "vmf(1)", "vnf(1)", "go vmf(1)", "go vnf(1)", "func() { defer vmf(1) }()", "func() { defer vnf(1) }()",
               "defer vmf(1)\nthrow \"x\"", "f = make(VF)\ndefer f(2)\nf = nil", "defer make(VF)(1)", "defer make([]VF, 1)[0](1)", "try {\n defer vmf(1)\n} catch e {\n 1\n}", "defer vfn()\n1", "defer vfn(1, 2)\n1", "defer vfn(\"s\")\n1"]
DEGENERATE += ["ga3(make([]int64, 1))", "ga3(make([]int64, 3))", "ga3(make([]int64, 9))", "ga3(vtl)", "ga3(make([]float64, 2))", "ga3(make([]string, 1))", "ga3(vtl[0:1])", "ga3(vnill)", "x = make([]int64, 1)\nga3(x)", "go ga3(make([]int64, 1))",
               "defer ga3(make([]int64, 1))\n1", "func() { defer ga3(make([]int64, 1)) }()", "try { ga3(make([]int64, 1)) } catch e { 1 }", "ga3(make([]int64, 1)...)"]

# limits of the reflect package reached by plain source text: many parameters, wide struct types as element / key / channel types
def _wide(n): return "struct { " + ", ".join("F%d string" % i for i in range(n)) + " }"
DEGENERATE += ["f = func(" + ", ".join("a%d" % i for i in range(n)) + ") { return 1 }\n1" for n in (5, 64, 126, 127, 128, 130, 300)]
DEGENERATE += ["func f(" + ", ".join("a%d" % i for i in range(n)) + ", r...) { return 1 }\n1" for n in (126, 127, 130)]
DEGENERATE += [t % _wide(n) for n in (100, 4095, 4096, 4100) for t in ("make(chan %s)", "make(chan %s, 1)", "make([]%s, 1)", "make(map[string]%s)", "make(map[%s]string)", "make(%s)", "x = new(%s)\n1", "make(chan []%s)", "make(chan *%s)")]

# script goroutines that share VARIABLES, modules and functions (never a container): the interpreter's own tables are the only shared state
CONC = [
    'z = 0\nmodule m {\n a = 1\n}\ndone = make(chan int64)\ngo func() {\n for i = 0; i < 30000; i++ {\n  z = i\n }\n done <- 1\n}()\nfor j = 0; j < 3000; j++ {\n x = m\n}\n<-done',
    'z = 0\nmodule m {\n a = 1\n func inc() {\n  a = a + 1\n }\n}\ndone = make(chan int64)\ngo func() {\n for i = 0; i < 20000; i++ {\n  m.inc()\n  z = i\n }\n done <- 1\n}()\nfor j = 0; j < 3000; j++ {\n x = m\n x.inc()\n}\n<-done',
    'c = 0\nf = func() {\n c = c + 1\n var t = c\n return t\n}\ndone = make(chan int64)\ngo func() {\n for i = 0; i < 20000; i++ {\n  f()\n }\n done <- 1\n}()\nfor j = 0; j < 20000; j++ {\n f()\n}\n<-done',
    'z = 0\ndone = make(chan int64)\ngo func() {\n for i = 0; i < 20000; i++ {\n  z = i\n }\n done <- 1\n}()\nfor j = 0; j < 20000; j++ {\n y = z\n func g() {\n  return y\n }\n g()\n}\n<-done',
    'z = 0\ndone = make(chan int64)\nfor k = 0; k < 4; k++ {\n go func() {\n  for i = 0; i < 5000; i++ {\n   z = z + 1\n   module q {\n    b = i\n   }\n   w = q\n  }\n  done <- 1\n }()\n}\nfor k = 0; k < 4; k++ {\n <-done\n}',
    'z = 0\ndone = make(chan int64)\ngo func() {\n for i = 0; i < 20000; i++ {\n  z = i\n }\n done <- 1\n}()\nfor j = 0; j < 5000; j++ {\n try {\n  throw z\n } catch e {\n  y = e\n }\n if j % 2 == 0 {\n  var u = j\n }\n}\n<-done',
    'z = 0\nmodule m {\n a = 1\n module n {\n  b = 2\n }\n}\ndone = make(chan int64)\ngo func() {\n for i = 0; i < 20000; i++ {\n  z = i\n  m.a = i\n }\n done <- 1\n}()\nfor j = 0; j < 3000; j++ {\n x = m.n\n y = m\n}\n<-done',
]


# script goroutines that evaluate function literals of many shapes at the same time (the interpreter builds their Go types on first use)
def _shapes(lo, hi):
    lits = []
    for n in range(lo, hi):
        ps = ", ".join("a%d" % j for j in range(n))
        lits.append("  f = func(%s%s) { return %d }" % (ps, ", r..." if n % 2 else "", n))
    body = "\n".join(lits)
    return "done = make(chan int64)\nfor k = 0; k < 8; k++ {\n go func() {\n%s\n  done <- 1\n }()\n}\nfor k = 0; k < 8; k++ {\n <-done\n}\n1" % body
CONC += [_shapes(5 + 12 * k, 17 + 12 * k) for k in range(8)]


def cases(ctx, rend):
    rng = random.Random(ctx.seed)
    out = [{"id": "deg|%d" % i, "src": s} for i, s in enumerate(DEGENERATE)]
    out += [{"id": "conc|%d.%d" % (i, k), "src": s + "\n" * k} for i, s in enumerate(CONC) for k in range(3 if ctx.quick() else 12)]
    out += [{"id": "gram|" + s["id"], "src": s["src"]} for s in grammarcorpus.sources()]
    out += [{"id": "raw|" + s["id"], "src": s["src"]} for s in rawcorpus.cases()]
    fam = progs.fam_closures() + progs.fam_c09()[:60] + progs.fam_c07()[:80] + progs.rand_programs(ctx.seed + 11, 40 if ctx.quick() else 600)
    pj = os.path.join(ctx.work, "fam.ndjson")
    vlib.write_ndjson(pj, [{"id": p["id"], "prog": p["prog"]} for p in fam])
    sj = os.path.join(ctx.work, "fam_src.ndjson")
    vlib.run_cmd(ctx, [rend, pj, sj])
    valid = vlib.read_ndjson(sj) + rawcorpus.cases()
    for v in valid:
        out.append({"id": "fam|" + v["id"], "src": v["src"]})
    rng.shuffle(valid)
    for v in valid[:(40 if ctx.quick() else 400)]:
        s = v["src"]
        cut = sorted(set(rng.sample(range(1, len(s)), min(len(s) - 1, 25 if ctx.quick() else 80))))
        for k in cut:
            out.append({"id": "%s|trunc%d" % (v["id"], k), "src": s[:k]})
            out.append({"id": "%s|del%d" % (v["id"], k), "src": s[:k] + s[k + 1:]})
            out.append({"id": "%s|swap%d" % (v["id"], k), "src": s[:k - 1] + s[k] + s[k - 1] + s[k + 1:]})
    toks = ["x", "1", "\"s\"", "nil", "(", ")", "[", "]", "{", "}", ",", ":", ";", "\n", ".", "...", "=", "+", "-", "*", "/", "%", "<", ">", "!", "?", "??", "&", "|", "^", "<-", "++", "+=", "==", "in", "func", "return", "if", "else",
            "for", "break", "continue", "var", "throw", "try", "catch", "finally", "switch", "case", "default", "go", "defer", "module", "make", "new", "len", "delete", "close", "map", "chan", "struct", "type", "import", "true", "vl", "vm", "vfn", "vc"]
    for i in range(4000 if ctx.quick() else 60000):
        out.append({"id": "soup|%d" % i, "src": " ".join(rng.choice(toks) for _ in range(rng.randrange(1, 9)))})
    for i in range(300 if ctx.quick() else 5000):
        raw = bytes(rng.randrange(256) for _ in range(rng.randrange(1, 30)))
        out.append({"id": "bytes|%d" % i, "src": "", "b64": base64.b64encode(raw).decode()})
    return out


def run(ctx):
    binp = vlib.build_harness(ctx, "hostharness")
    rend = vlib.build_harness(ctx, "render")
    ctx.assumptions += ["memory/stack exhaustion is outside the guarantee: generators bound recursion depth, literal and make sizes; a worker killed by its memory limit on such a case would be classified, not alarmed",
                        "Debug = false; environment = values a script can construct, core builtins and bundled packages",
                        "which value or error is returned is the business of the other properties; this check only judges that the call returns",
                        "exploration: no proof of absence of panics in the reflection code; the inputs are specification-derived and bounded"]
    r = vlib.run_tlc(ctx, "AnkoHost", "MC_AnkoHostMachine.cfg", workers=1, timeout=300, want_lines=False)
    vlib.tlc_ok(ctx, r, "AnkoHost machine")
    t1p = os.path.join(ctx.work, "host_templates1.ndjson")
    t2p = os.path.join(ctx.work, "host_templates2.ndjson")
    vlib.write_ndjson(t1p, c20.T)
    vlib.write_ndjson(t2p, T2)
    d = os.path.join(ctx.work, "cfg")
    os.makedirs(d, exist_ok=True)
    ns = 4
    srcs = []
    def one(k):
        fn = "MC_AnkoHost_%d.cfg" % k
        open(os.path.join(d, fn), "w").write("SPECIFICATION Spec\nCONSTANTS\n  Vars = {%s}\n  Shard = %d\n  NShards = %d\nCHECK_DEADLOCK FALSE\n" % (", ".join('"%s"' % v for v in VARS), k, ns))
        got = []
        r = vlib.run_tlc(ctx, "MC_AnkoHost", fn, workers=2, timeout=3000, copy=[t1p, t2p], xss="256m", cfg_dir=d, line_cb=got.append)
        return r, got
    with concurrent.futures.ThreadPoolExecutor(max_workers=ns) as ex:
        for r, got in ex.map(one, range(ns)):
            vlib.tlc_ok(ctx, r, "MC_AnkoHost")
            srcs += [{"id": "tmpl|" + g["id"], "src": g["src"]} for g in got]
    allc = srcs + cases(ctx, rend)
    seen, uniq = set(), []
    for c in allc:
        key = c.get("src") or c.get("b64")
        if key in seen:
            continue
        seen.add(key)
        uniq.append(c)
    n = 14
    def shard(k):
        part = [c for i, c in enumerate(uniq) if i % n == k]
        cp = os.path.join(ctx.work, "host_cases_%d.ndjson" % k)
        op = os.path.join(ctx.work, "host_out_%d.ndjson" % k)
        vlib.write_ndjson(cp, part)
        vlib.run_cmd(ctx, [binp, "run", cp, op], timeout=3000)
        return vlib.read_ndjson(op)
    with concurrent.futures.ThreadPoolExecutor(max_workers=n) as ex:
        obs = [o for part in ex.map(shard, range(n)) for o in part]
    byid = {c["id"]: c for c in uniq}
    op = os.path.join(ctx.work, "host_obs.ndjson")
    vlib.write_ndjson(op, [{"id": o["id"], "outcome": o["outcome"]} for o in obs])
    rej, total, r = vlib.validate_lines(ctx, "Trace_AnkoHost", "Trace_AnkoHost.cfg", [op], timeout=3000)
    ctx.cov["evaluations"] += total
    ctx.cov["distinct_nontrivial"] += len(uniq)
    ctx.cov["traces_validated_against_impl"] += total - len(rej)
    ctx.cov["outcomes"] = {k: sum(1 for o in obs if o["outcome"] == k) for k in ("value", "error", "panic", "dead", "timeout")}
    ctx.cov["inputs_by_source"] = {k: sum(1 for c in uniq if c["id"].startswith(k)) for k in ("tmpl|", "deg|", "conc|", "gram|", "raw|", "fam|", "soup|", "bytes|")}
    ctx.sample({"input": uniq[len(srcs) // 2]["src"], "outcome": next((o["outcome"] for o in obs if o["id"] == uniq[len(srcs) // 2]["id"]), None)})
    ctx.sample({"input": DEGENERATE[0], "outcome": next((o["outcome"] for o in obs if o["id"] == "deg|0"), None)})
    seen = set()
    for ln in rej:
        o = obs[ln - 1]
        c = byid.get(o["id"], {"src": "?"})
        key = o["outcome"] + ":" + (o.get("detail") or "")[:70]
        if key in seen or len(seen) >= 30:
            continue
        seen.add(key)
        vlib.violation(ctx, "%s while the host ran %r: %s" % ({"panic": "a Go panic reached the caller", "dead": "the host process died", "timeout": "the call did not return"}.get(o["outcome"], o["outcome"]),
                                                                  (c.get("src") or c.get("b64"))[:300], (o.get("detail") or "")[:300]), {"kind": "host", "case": c, "obs": o, "finding_key": "host:" + key})
    if not ctx.violations:
        vlib.write_ndjson(op, [{"id": "x", "outcome": "panic"}])
        rej, total, r = vlib.validate_lines(ctx, "Trace_AnkoHost", "Trace_AnkoHost.cfg", [op])
        ok = rej == [1]
        ctx.cov["controls"].append({"control": "an observation 'panic' must be rejected", "detected": ok})
        if not ok:
            raise Broken("corruption control failed")
    return vlib.finish(ctx, RULE, exhaustive=False)


def replay(ctx, path):
    binp = vlib.build_harness(ctx, "hostharness")
    p = json.load(open(path))
    cp = os.path.join(ctx.work, "one.ndjson")
    op = os.path.join(ctx.work, "one_out.ndjson")
    vlib.write_ndjson(cp, [p["case"]])
    vlib.run_cmd(ctx, [binp, "run", cp, op])
    obs = vlib.read_ndjson(op)
    print(json.dumps(obs))
    bad = any(o["outcome"] not in ("value", "error") for o in obs)
    if bad:
        print("VIOLATION property=%s replay=%s" % (ctx.id, path))
    return 1 if bad else 0
