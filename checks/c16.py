"""C16 -- script channels and goroutines deliver every message once, in order (spec/AnkoChan.tla, AnkoChanSeq.tla)."""
import json, os, itertools
import vlib
from vlib import Broken

LEVEL = "model_checking"
RULE = ("AnkoChan (producer -> 0..k worker goroutines -> consumer over Go channels, buffered and unbuffered with rendezvous) is model-checked by TLC under every "
        "interleaving: FIFO / exactly-once per channel, the collected sequence is always a prefix of and finally equal to the expected one, no send after close, "
        "termination (liveness under weak fairness), no deadlock; a spec mutant that loses values must be caught. AnkoChanSeq gives the one-goroutine semantics of "
        "send/receive/two-value receive/close (error forms) for every operation sequence up to length 5-6. Conformance: every sequential program replayed; every "
        "pipeline configuration (stages x capacity x items x consumer mode x element type, go-call arguments as probes, stage function with 3 / 5 / variadic parameters; plus pipelines of 5-70 stages beyond the model-checked sizes) run 30-300 times on the real VM with "
        "hook-injected Gosched/sleep perturbation and GOMAXPROCS in {1,2,4,16}; the collected sequence, its element type and the probe log must equal the "
        "specification's, and every run must terminate. distinct_nontrivial = pipeline configurations + non-blocking sequential programs.")


def pipe_configs(ctx, emitted):
    out = []
    modes = ["range", "recvexpr", "recvok", "recvokout"]
    elems = ["int64", "interface", "float64"]
    for e in emitted:
        for mode in modes:
            for elem in elems:
                if ctx.quick() and elem == "float64" and (e["ns"] > 1 or mode != "range"):
                    continue
                for goargs in (False, True):
                    if goargs and (e["ns"] == 0 or mode != "range" or elem != "int64"):
                        continue
                    out.append({"ns": e["ns"], "cap": e["cap"], "items": e["items"], "expected": e["expected"], "mode": mode, "elem": elem, "goargs": goargs, "shape": ""})
                if elem == "int64" and mode == "range" and e["ns"] >= 1:
                    # the stages share one function value that takes its arguments the other ways a script function can (5 parameters, variadic)
                    for shape in ("fn5", "fnvar", "fnvarspread", "fn4elem", "fn4spread", "goanon"):
                        out.append({"ns": e["ns"], "cap": e["cap"], "items": e["items"], "expected": e["expected"], "mode": mode, "elem": elem, "goargs": False, "shape": shape})
                    for shape in ("fn5", "fnvar"):
                        out.append({"ns": e["ns"], "cap": e["cap"], "items": e["items"], "expected": e["expected"], "mode": mode, "elem": elem, "goargs": True, "shape": shape})
    # long pipelines: the same specification with more stages than the model checker explores (many goroutines alive at once, all
    # blocked on the main script until it starts consuming) -- more than 4 x GOMAXPROCS of them for every GOMAXPROCS used
    for ns in (5, 6, 9, 70):
        for cap_ in (0, 1):
            for shape in ("", "fn5", "fnvar", "fnvarspread", "fn4elem", "fn4spread", "goanon"):
                items = [1, 2, 3]
                out.append({"ns": ns, "cap": cap_, "items": items, "expected": [v + 10 * ns for v in items], "mode": "range", "elem": "int64", "goargs": False, "shape": shape})
    # fan-out (spec/AnkoChanFan.tla): several workers range over ONE channel; every item exactly once, in any order
    for w in (2, 3, 5):
        for cap_ in (1, 2, 4):
            for items in ([1, 2, 3], list(range(1, 41)), []):
                out.append({"ns": w, "cap": cap_, "items": items, "expected": [v + 10 for v in items], "mode": "range", "elem": "int64", "goargs": False, "shape": "fan"})
    return out


def run(ctx):
    binp = vlib.build_harness(ctx, "chanharness")
    ctx.assumptions += ["Go's channel implementation is modelled from its documented semantics, not verified", "real schedules are sampled (perturbed), the model explores all of them",
                        "the single-variable statement form `x = <-c` on a closed channel is not asserted (the receive EXPRESSION and the two-value statement are)"]
    tier = "quick" if ctx.quick() else "thorough"
    emitted = {}
    def cb(v):
        emitted[json.dumps(v, sort_keys=True)] = v
    # the invariant EmitDone prints the expected outcome at every terminal state
    cfgname = "MC_AnkoChan_%s_emit.cfg" % tier
    d = os.path.join(ctx.work, "cfg")
    os.makedirs(d, exist_ok=True)
    base = open(os.path.join(vlib.SPEC, "MC_AnkoChan_%s.cfg" % tier)).read().replace("INVARIANTS FIFO", "INVARIANTS EmitDone FIFO")
    open(os.path.join(d, cfgname), "w").write(base)
    r = vlib.run_tlc(ctx, "MC_AnkoChan", cfgname, timeout=3000, line_cb=cb, cfg_dir=d)
    vlib.tlc_ok(ctx, r, "MC_AnkoChan " + tier)
    rn = vlib.run_tlc(ctx, "MC_AnkoChan", "MC_AnkoChan_neg.cfg", timeout=600, want_lines=False)
    vlib.tlc_must_fail(ctx, rn, "spec mutant DropOdd (a stage loses values) must violate DeliversAll", expect=("DeliversAll", "CollectedPrefix"))
    # sequential channel programs
    rs = vlib.run_tlc(ctx, "MC_AnkoChanSeq", "MC_AnkoChanSeq_%s.cfg" % tier, workers=4, timeout=1800, want_lines=False)
    vlib.tlc_ok(ctx, rs, "MC_AnkoChanSeq")
    res = os.path.join(ctx.work, "seq.json")
    vlib.run_cmd(ctx, [binp, "seq", os.path.join(rs.dir, "tlc.out"), res], timeout=1800)
    s = json.load(open(res))
    ctx.cov["evaluations"] += s["runs"]
    ctx.cov["distinct_nontrivial"] += s["runs"]
    ctx.cov["traces_validated_against_impl"] += s["runs"]
    ctx.cov["sequential_programs"] = {"total": s["cases"], "replayed": s["runs"], "would_block": s["skipped_blocking"]}
    for smp in (s.get("samples") or [])[:1]:
        ctx.sample(smp)
    for m in (s.get("mismatches") or [])[:10]:
        vlib.violation(ctx, "%s: expected %s, got %s\n%s" % (m["what"], m["expected"], m["got"], m["src"]), {"kind": "seq", "case": m["case"], "src": m["src"], "expected": m["expected"], "got": m["got"]})
    # fan-out design: model-checked (safety + liveness) with a wrong design as negative control
    for cfgname, exp in (("MC_AnkoChanFan.cfg", None), ("MC_AnkoChanFan_w3.cfg", None), ("MC_AnkoChanFan_unbuf.cfg", None), ("MC_AnkoChanFan_neg.cfg", ("NeverMore", "ExactlyOnce"))):
        r = vlib.run_tlc(ctx, "MC_AnkoChanFan", cfgname, workers=4, timeout=900, want_lines=False)
        if exp is None:
            vlib.tlc_ok(ctx, r, "MC_AnkoChanFan " + cfgname)
            ctx.cov["states"] += r.distinct
            ctx.cov["transitions"] += r.generated
        else:
            vlib.tlc_must_fail(ctx, r, "fan-out worker that forwards a zero after the input is closed must be refuted", expect=exp)
    # pipelines
    cfgs = pipe_configs(ctx, list(emitted.values()))
    if not cfgs:
        raise Broken("AnkoChan emitted no configurations")
    cp = os.path.join(ctx.work, "pipes.ndjson")
    vlib.write_ndjson(cp, cfgs)
    reps = 30 if ctx.quick() else 300
    # shards
    n = 8
    import concurrent.futures
    def shard(k):
        part = [c for i, c in enumerate(cfgs) if i % n == k]
        pk = cp + ".%d" % k
        vlib.write_ndjson(pk, part)
        rk = os.path.join(ctx.work, "pipe_%d.json" % k)
        vlib.run_cmd(ctx, [binp, "pipe", pk, rk, str(reps), str(ctx.seed * 100 + k)], timeout=3000)
        return json.load(open(rk))
    with concurrent.futures.ThreadPoolExecutor(max_workers=n) as ex:
        parts = list(ex.map(shard, range(n)))
    runs = sum(p["runs"] for p in parts)
    ctx.cov["evaluations"] += runs
    ctx.cov["distinct_nontrivial"] += len(cfgs)
    ctx.cov["traces_validated_against_impl"] += runs
    ctx.cov["pipelines"] = {"configurations": len(cfgs), "runs": runs, "repetitions_each": reps}
    for p in parts:
        for smp in (p.get("samples") or [])[:1]:
            ctx.sample(smp, limit=3)
        for m in (p.get("mismatches") or [])[:5]:
            vlib.violation(ctx, "pipeline %s: %s; expected %s, got %s" % (json.dumps(m["case"]), m["what"], m["expected"], m["got"]),
                           {"kind": "pipe", "case": m["case"], "src": m["src"], "expected": m["expected"], "got": m["got"], "what": m["what"]})
    return vlib.finish(ctx, RULE, exhaustive=True)


def replay(ctx, path):
    binp = vlib.build_harness(ctx, "chanharness")
    p = json.load(open(path))
    if p["kind"] == "pipe":
        cp = os.path.join(ctx.work, "one.ndjson")
        vlib.write_ndjson(cp, [p["case"]])
        rk = os.path.join(ctx.work, "one.json")
        vlib.run_cmd(ctx, [binp, "pipe", cp, rk, "300", "7"])
        bad = json.load(open(rk))["n_mismatch"] > 0
    else:
        d = os.path.join(ctx.work, "one.out")
        open(d, "w").write(json.dumps(json.dumps(p["case"])) + "\n")
        rk = os.path.join(ctx.work, "one.json")
        vlib.run_cmd(ctx, [binp, "seq", d, rk])
        bad = json.load(open(rk))["n_mismatch"] > 0
    if bad:
        print("VIOLATION property=%s replay=%s" % (ctx.id, path))
    return 1 if bad else 0
