"""C12 -- the environment API behaves as a chain of dictionaries (spec/AnkoEnv.tla)."""
import json, os, random, shutil
import vlib
from vlib import Broken

LEVEL = "model_checking"
RULE = ("spec->code: TLC explores the bounded AnkoEnv machine (every API call on every handle) and emits one history per "
        "(abstract state, call) transition; each is re-driven through the public env API and every call result plus the "
        "projection of every scope (own tables, lookup of every pool name) is compared. code->spec: seeded random histories "
        "(8 scopes, 8 names, length 60) recorded from the real package are validated line by line by Trace_AnkoEnv. "
        "distinct = distinct emitted histories of length >= 2 (each ends in a different transition).")


def tlc_line(obj):
    return json.dumps(json.dumps(obj, separators=(",", ":"))) + "\n"


def model_check_and_replay(ctx, binp):
    """breadth (full alphabet, shallow), names with a dot in every position, and depth (one value name, one type name, deeper: define / delete / copy / define again ...)"""
    s = None
    for cfg in (("MC_AnkoEnv_quick.cfg", "MC_AnkoEnv_deep.cfg", "MC_AnkoEnv_dots.cfg") if ctx.quick() else ("MC_AnkoEnv_thorough.cfg", "MC_AnkoEnv_deep5.cfg", "MC_AnkoEnv_dots.cfg")):
        s1 = model_check_and_replay_cfg(ctx, binp, cfg)
        s = s or s1
    return s


def model_check_and_replay_cfg(ctx, binp, cfg):
    r = vlib.run_tlc(ctx, "MC_AnkoEnv", cfg, workers=(vlib.NCPU if "deep" not in cfg else 4), timeout=1500, want_lines=False)
    vlib.tlc_ok(ctx, r, "MC_AnkoEnv " + cfg)
    res = os.path.join(ctx.work, "replay.json")
    vlib.run_cmd(ctx, [binp, "replay", os.path.join(r.dir, "tlc.out"), res], timeout=1500)
    s = json.load(open(res))
    if s["cases"] != r.generated - 1:
        raise Broken("emitted histories (%d) != TLC transitions (%d)" % (s["cases"], r.generated - 1))
    ctx.cov["evaluations"] += s["cases"]
    ctx.cov["distinct_nontrivial"] += s["distinct_nontrivial"]
    ctx.cov["traces_validated_against_impl"] += s["cases"]
    ctx.cov["replayed_api_calls"] = ctx.cov.get("replayed_api_calls", 0) + s["steps"]
    ctx.cov.setdefault("transition_cover_by_op", {})[cfg] = s["op_count"]
    ctx.cov["states"] += r.distinct
    ctx.cov["transitions"] += r.generated
    for c in (s.get("samples") or [])[:2]:
        ctx.sample({"kind": "spec->code history (calls, expected results)", "history": c["h"]})
    # pool line for replay files
    pool = None
    with open(os.path.join(r.dir, "tlc.out")) as f:
        for line in f:
            if line.startswith('"{'):
                pool = json.loads(json.loads(line))
                break
    for m in (s.get("mismatches") or []):
        # reproduce in a fresh process before calling it a violation
        payload = {"kind": "history", "pool": pool, "history": m["history"], "step": m["step"], "expected": m["expected"],
                   "got": m["got"], "what_differs": m["what"]}
        if reproduce_history(ctx, binp, payload):
            vlib.violation(ctx, "env API disagrees with AnkoEnv: %s after %s" % (m["what"], json.dumps([x["c"] for x in m["history"]])[:400]), payload)
        else:
            raise Broken("mismatch not reproduced in a fresh process: %s" % json.dumps(m)[:500])
    os.remove(os.path.join(r.dir, "tlc.out"))
    return s


def reproduce_history(ctx, binp, payload):
    """Re-drive one history in a fresh process; True iff it still disagrees with the expectation in the payload."""
    d = os.path.join(ctx.work, "repro")
    os.makedirs(d, exist_ok=True)
    p = os.path.join(d, "one.out")
    hist = payload["history"]
    case = {"h": hist, "post": payload["expected"] if payload["what_differs"].startswith("state") else None}
    if case["post"] is None:
        case["post"] = []
    with open(p, "w") as f:
        f.write(tlc_line(payload["pool"]))
        f.write(tlc_line(case))
    res = os.path.join(d, "one.json")
    vlib.run_cmd(ctx, [binp, "replay", p, res])
    s = json.load(open(res))
    if payload["what_differs"].startswith("state"):
        return s["n_mismatch"] > 0
    # result mismatch: the mismatch must be at the same step with a result mismatch
    return any(m["what"].startswith("result") for m in (s.get("mismatches") or []))


def negative_controls(ctx):
    for m, prop in (("SetCreates", "SetNoCreate"), ("CopySharesParentWrite", "CopyFresh"), ("ErrDefines", "ErrUnchanged")):
        r = vlib.run_tlc(ctx, "MC_AnkoEnv", "MC_AnkoEnv_neg_%s.cfg" % m, workers=4, timeout=600, want_lines=False)
        vlib.tlc_must_fail(ctx, r, "spec mutant %s must violate %s" % (m, prop), expect=prop)


def split_traces(lines):
    """-> list of (start_index, end_index) (0-based, in lines) per trace (reset .. before next reset)."""
    idx = [i for i, l in enumerate(lines) if l.startswith('{"ev":"reset"')]
    return [(a, (idx[k + 1] if k + 1 < len(idx) else len(lines))) for k, a in enumerate(idx)]


def validate_trace_file(ctx, path, timeout=900):
    dst = os.path.join(ctx.work, "env_trace.ndjson")
    if os.path.abspath(path) != dst:
        shutil.copy(path, dst)
    r = vlib.run_tlc(ctx, "Trace_AnkoEnv", "Trace_AnkoEnv.cfg", workers=1, timeout=timeout, copy=[dst], want_lines=False)
    if r.error:
        raise Broken("Trace_AnkoEnv error: " + r.error + r.out[-1500:])
    import re
    m = re.findall(r'<<"REACHED", (\d+), (\d+)>>', r.out)
    if not m:
        raise Broken("Trace_AnkoEnv: no REACHED line\n" + r.out[-2000:])
    reached, total = int(m[-1][0]), int(m[-1][1])
    return reached, total, r


def random_traces(ctx, binp):
    ntr, length = (120, 60) if ctx.quick() else (2500, 80)
    path = os.path.join(ctx.work, "env_trace.ndjson")
    vlib.run_cmd(ctx, [binp, "random", str(ctx.seed), str(ntr), str(length), path])
    reached, total, r = validate_trace_file(ctx, path)
    lines = open(path).read().splitlines()
    ctx.cov["states"] += r.distinct
    ctx.cov["transitions"] += r.generated
    ctx.cov["random_trace_events"] = total - 1
    if reached == total + 1:
        ctx.cov["traces_validated_against_impl"] += ntr
        ctx.cov["evaluations"] += ntr
        ctx.cov["distinct_nontrivial"] += ntr
        tr = split_traces(lines)
        a, b = tr[0]
        ctx.sample({"kind": "code->spec recorded trace (first 6 calls)", "calls": [json.loads(x).get("c") for x in lines[a + 1:a + 7]]})
    else:
        # line `reached` (1-based) is the first one the specification cannot match
        bad = reached - 1
        tr = [t for t in split_traces(lines) if t[0] <= bad < t[1]][0]
        prefix = [lines[0]] + lines[tr[0]:bad + 1]
        # reproduce: regenerate with the same seed (fresh process) and validate only this trace's prefix
        path2 = os.path.join(ctx.work, "again.ndjson")
        vlib.run_cmd(ctx, [binp, "random", str(ctx.seed), str(ntr), str(length), path2])
        lines2 = open(path2).read().splitlines()
        prefix2 = [lines2[0]] + lines2[tr[0]:bad + 1]
        one = os.path.join(ctx.work, "one_trace.ndjson")
        open(one, "w").write("\n".join(prefix2) + "\n")
        reached2, total2, _ = validate_trace_file(ctx, one)
        if reached2 == total2 + 1:
            raise Broken("trace rejection not reproduced on regeneration (line %d)" % reached)
        e = json.loads(prefix[-1])
        payload = {"kind": "trace", "trace": prefix2, "rejected_line": e,
                   "note": "Trace_AnkoEnv accepts every line before the last one; the last call's recorded result/projection is not what AnkoEnv computes"}
        vlib.violation(ctx, "recorded env history rejected by Trace_AnkoEnv at call %s -> %s" % (json.dumps(e.get("c")), json.dumps(e.get("res"))), payload)
    return lines


def corruption_control(ctx, lines):
    """A recorded trace with one field altered must be rejected (the binding is real)."""
    rng = random.Random(ctx.seed)
    tr = split_traces(lines)[:3]
    sub = [lines[0]]
    for a, b in tr:
        sub += lines[a:b]
    calls = [i for i, l in enumerate(sub) if '"ev":"call"' in l]
    for kind in ("result", "state"):
        cand = list(calls)
        rng.shuffle(cand)
        done = False
        for i in cand:
            e = json.loads(sub[i])
            if kind == "result":
                if e["res"]["k"] == "val":
                    e["res"]["i"] += 1
                elif e["res"]["k"] == "ok":
                    e["res"]["k"] = "err"
                else:
                    continue
            else:
                sp = e["post"][rng.randrange(len(e["post"]))]
                n = rng.choice(sorted(sp["lv"].keys()))
                sp["lv"][n] = 1 if sp["lv"][n] != 1 else 2
            mod = list(sub)
            mod[i] = json.dumps(e, separators=(",", ":"))
            p = os.path.join(ctx.work, "corrupt_%s.ndjson" % kind)
            open(p, "w").write("\n".join(mod) + "\n")
            reached, total, _ = validate_trace_file(ctx, p)
            ok = reached == i + 1          # stops exactly at the altered line (1-based index i+1)
            ctx.cov["controls"].append({"control": "corrupted %s field in recorded trace line %d" % (kind, i + 1), "detected": ok})
            if not ok:
                raise Broken("corruption control failed: altered line %d, TLC reached %d of %d" % (i + 1, reached, total))
            done = True
            break
        if not done:
            raise Broken("no line to corrupt")


def run(ctx):
    binp = vlib.build_harness(ctx, "envharness")
    ctx.assumptions += ["TLC/SANY and the Json module are trusted", "the harness maps value/type tokens to Go values (int64, *env.Env, struct types)",
                        "error message texts and String() format are not compared (open in the statement)",
                        "the spec'd bounded machine uses <= %d scopes, 4 names; random traces use 8 scopes, 8 names" % (3 if ctx.quick() else 4)]
    model_check_and_replay(ctx, binp)
    negative_controls(ctx)
    lines = random_traces(ctx, binp)
    if not ctx.violations:
        corruption_control(ctx, lines)
    return vlib.finish(ctx, RULE, exhaustive=True)


def replay(ctx, path):
    binp = vlib.build_harness(ctx, "envharness")
    p = json.load(open(path))
    if p.get("kind") == "history":
        bad = reproduce_history(ctx, binp, p)
    else:
        one = os.path.join(ctx.work, "one_trace.ndjson")
        open(one, "w").write("\n".join(p["trace"]) + "\n")
        reached, total, _ = validate_trace_file(ctx, one)
        bad = reached != total + 1
    print("reproduced" if bad else "not reproduced")
    if bad:
        print("VIOLATION property=%s replay=%s" % (ctx.id, path))
    return 1 if bad else 0
