"""C11 -- values and calls cross the Go boundary faithfully (spec/AnkoCall.tla)."""
import json, os, concurrent.futures
import vlib
from vlib import Broken

LEVEL = "model_checking"
RULE = ("AnkoCall holds the conversion table Conv(value kind, parameter type) and the call-shape table (fixed/variadic function x plain/spread call: arity rules, which "
        "argument feeds which parameter); TLC enumerates signatures (one and two parameters over 15 types, variadic tails) x argument tuples x shapes, checks the tables "
        "total, and emits the demanded outcome. For each case a host function of that signature is built with reflect.MakeFunc, called from a script with script-made "
        "arguments, and the values it RECEIVES (and their dynamic types), the number of calls and the returned result are compared; scenario checks cover identity "
        "round trips of 20 Go values, exported fields through values and pointers, value/pointer-receiver and variadic methods, multiple results and callbacks "
        "(arguments, result conversion, error surfacing). Three more tables of AnkoCall are enumerated by TLC and replayed: Results (0..3 results over 12 kinds incl. typed nil slice/map/pointer, nil and non-nil error, nil and non-nil interface: each arrives with its own dynamic type, several as a list) MethodReachable (value- and pointer-receiver methods with 0..2 arguments on struct / named int / named map / named slice receivers and pointers to them) and the callback table CallbackSees / CallbackReturns (Go func types with 0..2 fixed and an optional variadic parameter receiving 0..3 values, script functions with 0..3 named and an optional variadic parameter, 0..2 declared results against 0..3 returned values: what the script function sees, what Go gets back, or an error of the enclosing call). distinct_nontrivial = non-open table cases + scenarios.")


def run(ctx):
    binp = vlib.build_harness(ctx, "callharness")
    ctx.assumptions += ["Go's own conversion (reflect's Convert) is the primitive for 'goconv' cells", "string to byte/rune parameters, write-back of &ident arguments and unexported fields are not asserted",
                        "surplus elements of a list spread over a fixed-arity function are left open"]
    def one(s):
        r = vlib.run_tlc(ctx, "MC_AnkoCall", "MC_AnkoCall_%s.cfg" % s, workers=3, timeout=1800, want_lines=False, xss="256m")
        return s, r
    with concurrent.futures.ThreadPoolExecutor(max_workers=3) as ex:
        results = list(ex.map(one, ["one", "two", "var"]))
    for s, r in results:
        vlib.tlc_ok(ctx, r, "MC_AnkoCall " + s)
        res = os.path.join(r.dir, "call.json")
        vlib.run_cmd(ctx, [binp, "table", os.path.join(r.dir, "tlc.out"), res], timeout=1800)
        x = json.load(open(res))
        ctx.cov["evaluations"] += x["cases"]
        ctx.cov["distinct_nontrivial"] += x["cases"] - x["open"]
        ctx.cov["traces_validated_against_impl"] += x["cases"] - x["open"]
        ctx.cov.setdefault("table_families", {})[s] = {"cases": x["cases"], "open": x["open"], "calls_delivered": x["calls_delivered"], "mismatches": x["n_mismatch"]}
        for smp in (x.get("samples") or [])[:1]:
            ctx.sample(smp)
        seen = set()
        for m in (x.get("mismatches") or []):
            key = (m["what"][:40], tuple(m["case"]["c"]["fixed"]), m["case"]["c"]["vtype"], m["case"]["c"]["spread"])
            if key in seen or len(seen) > 15:
                continue
            seen.add(key)
            vlib.violation(ctx, "%s: signature %s%s called as %r: expected %s, got %s" % (m["what"], m["case"]["c"]["fixed"], (" ..." + m["case"]["c"]["vtype"]) if m["case"]["c"]["vtype"] else "",
                                                                                           m["src"], m.get("expected"), m.get("got")), {"kind": "table", "case": m["case"], "src": m["src"], "what": m["what"]})
    # the results table and the method-reach table
    for shard in ("results", "methods", "callbacks"):
        r = vlib.run_tlc(ctx, "MC_AnkoCall", "MC_AnkoCall_%s.cfg" % shard, workers=2, timeout=900, want_lines=False, xss="256m")
        vlib.tlc_ok(ctx, r, "MC_AnkoCall " + shard)
        res = os.path.join(r.dir, shard + ".json")
        vlib.run_cmd(ctx, [binp, shard, os.path.join(r.dir, "tlc.out"), res], timeout=900)
        x = json.load(open(res))
        if x["cases"] != r.generated // 2:
            raise Broken("%s table: %d cases replayed, TLC emitted %d" % (shard, x["cases"], r.generated // 2))
        ctx.cov["evaluations"] += x["cases"]
        ctx.cov["distinct_nontrivial"] += x["cases"]
        ctx.cov["traces_validated_against_impl"] += x["cases"]
        ctx.cov.setdefault("table_families", {})[shard] = {"cases": x["cases"], "mismatches": x["n_mismatch"]}
        seen = set()
        for m in (x.get("mismatches") or []):
            key = m["what"][:90]
            if key in seen or len(seen) > 12:
                continue
            seen.add(key)
            vlib.violation(ctx, "%s: %r gives %s, the table demands %s" % (m["what"], m["src"], m.get("got"), m.get("expected")), {"kind": "scenario", "src": m["src"], "what": shard + ": " + m["what"], "table": shard})
    res = os.path.join(ctx.work, "scen.json")
    vlib.run_cmd(ctx, [binp, "scenarios", res])
    x = json.load(open(res))
    ctx.cov["evaluations"] += x["cases"]
    ctx.cov["distinct_nontrivial"] += x["cases"]
    ctx.cov["scenarios"] = x["cases"]
    for m in (x.get("mismatches") or []):
        vlib.violation(ctx, "boundary scenario %s\n%s" % (m["what"], m["src"]), {"kind": "scenario", "src": m["src"], "what": m["what"]})
    return vlib.finish(ctx, RULE, exhaustive=True)


def replay(ctx, path):
    binp = vlib.build_harness(ctx, "callharness")
    p = json.load(open(path))
    if p["kind"] == "scenario" and p.get("table"):
        print("re-run bin/check C11 (table cases are regenerated by TLC)")
        return run(ctx)
    if p["kind"] == "scenario":
        res = os.path.join(ctx.work, "scen.json")
        vlib.run_cmd(ctx, [binp, "scenarios", res])
        bad = any(m["what"].split(":")[0] == p["what"].split(":")[0] for m in (json.load(open(res)).get("mismatches") or []))
    else:
        d = os.path.join(ctx.work, "one.out")
        open(d, "w").write(json.dumps(json.dumps(p["case"])) + "\n")
        res = os.path.join(ctx.work, "one.json")
        vlib.run_cmd(ctx, [binp, "table", d, res])
        bad = json.load(open(res))["n_mismatch"] > 0
    if bad:
        print("VIOLATION property=%s replay=%s" % (ctx.id, path))
    return 1 if bad else 0
