"""C05 -- arithmetic follows the int64 / float64 / string tower exactly (spec/AnkoArith.tla, spec/Int64.tla)."""
import json, os, re, struct, concurrent.futures
import vlib
from vlib import Broken

LEVEL = "model_checking"
RULE = ("Int64 (8-byte-limb two's complement arithmetic) is model-checked at reduced width against TLC's native integers; AnkoArith then computes, for every "
        "operator x ordered operand pair of the edge pools (int64 edges, floats incl. +-0/Inf/NaN/beyond 2^53, strings) and integer trees of depth 2, the exact "
        "int64 result, or the float64 primitive to apply to which converted operands. Each case is evaluated by vm.Execute with the operands supplied as "
        "variable / computed / list element / literal; value and dynamic Go type compared. Random int64 tuples recorded from the VM are validated by TLC. "
        "distinct_nontrivial = cases with a definite (non-open) expected result.")

INTS_Q = [0, 1, -1, 2, -2, 3, 7, 63, 64, 65, 4095, 4096, 4097, 2**31 - 1, 2**31, -2**31 - 1, 2**53, 2**53 + 1, -(2**53 + 1), 2**63 - 1, -2**63, -2**63 + 1, 10**18, 1234567890123456789]
INTS_T = INTS_Q + [-3, 4, 10, 62, 66, 127, 128, 255, 256, 4094, -4095, -4096, 2**31 + 1, -2**31, -2**31 + 1, 2**32, 2**32 - 1, 2**52, 2**53 - 1, -2**53, -(2**53 - 1),
                   2**62, -2**62, 2**63 - 2, -2**63 + 2, -10**18, 999999999999999999, 1000000, 123456789, -987654321, 2**40 + 12345]
FLOATS_Q = [0.0, -0.0, 0.5, 1.0, -1.5, 2.0**53, 9007199254740994.0, 1e21, 1e308, 5e-324, float("inf"), float("-inf"), float("nan")]
FLOATS_T = FLOATS_Q + [2.0, 3.0, 0.1, 100000.0, 1e6, 1e20, -1e21, 9.223372036854775807e18, 2.0**63, -2.0**63, 1.7976931348623157e308, 2.2250738585072014e-308, 4096.0, -1.0]
STRS = ["", "a", "ab", "7", "12", "3"]
OPS = ["+", "-", "*", "/", "%", "&", "|", "<<", ">>", "<", "<=", ">", ">=", "==", "!="]
TREE_OPS = ["+", "-", "*", "%", "&", "|", "<<", ">>"]


def limbs(n):
    return list((n & 0xFFFFFFFFFFFFFFFF).to_bytes(8, "little"))


def write_pools(ctx):
    ints = INTS_Q if ctx.quick() else INTS_T
    floats = FLOATS_Q if ctx.quick() else FLOATS_T
    pool = os.path.join(ctx.work, "arith_pool.ndjson")
    vlib.write_ndjson(pool, [{"t": "int", "l": limbs(n), "s": ""} for n in ints] + [{"t": "flt", "l": list(struct.pack("<d", x)), "s": ""} for x in floats]
                      + [{"t": "str", "l": [], "s": s} for s in STRS])
    tree = os.path.join(ctx.work, "arith_treepool.ndjson")
    tp = [0, -1, 3, 4096, 2**63 - 1, -2**63] if ctx.quick() else [0, -1, 3, 64, 4096, 2**31, 2**53 + 1, 2**63 - 1, -2**63]
    vlib.write_ndjson(tree, [{"t": "int", "l": limbs(n), "s": ""} for n in tp])
    return pool, tree


def shard_cfg(ctx, name, ops, treeops, unaries):
    q = lambda xs: "{" + ", ".join('"%s"' % x for x in xs) + "}"
    p = os.path.join(vlib.SPEC, name)
    return "SPECIFICATION Spec\nCONSTANTS\n  Ops = %s\n  TreeOps = %s\n  Unaries = %s\nCHECK_DEADLOCK FALSE\n" % (q(ops), q(treeops), q(unaries))


def run(ctx):
    binp = vlib.build_harness(ctx, "arithharness")
    ctx.assumptions += ["IEEE-754 float64 arithmetic, float formatting (fmt.Sprint) and float64(int64) rounding are Go's own (primitive terms interpreted by the harness)",
                        "operators on kinds the statement does not mention (bool, nil, containers, non-numeric strings as numbers, bit operators on floats) are open",
                        "string repetition only for counts <= 6 (large allocations are outside the guarantee)"]
    # 1. the limb arithmetic itself, against TLC's native integers
    for cfg in (["MC_Int64_w1q.cfg", "MC_Int64_w2q.cfg"] if ctx.quick() else ["MC_Int64_w1.cfg", "MC_Int64_w2.cfg"]):
        r = vlib.run_tlc(ctx, "MC_Int64", cfg, workers=2, timeout=3000, want_lines=False, xss="256m")
        vlib.tlc_ok(ctx, r, "MC_Int64 " + cfg)
    r = vlib.run_tlc(ctx, "MC_Int64", "MC_Int64_neg.cfg", workers=1, timeout=600, want_lines=False, xss="256m")
    vlib.tlc_must_fail(ctx, r, "a wrong multiplication law must be refuted by MC_Int64", expect="WrongMul")
    # 2. the tower: TLC enumerates operator x pool^2 (sharded by operator over parallel TLC processes)
    pool, tree = write_pools(ctx)
    shards = [(["+", "-", "=="], [], ["-", "^"]), (["*", "/", "!="], [], []), (["%"], [], []), (["&", "|"], [], []), (["<<", ">>"], [], []), (["<", "<=", ">", ">="], [], []),
              ([], TREE_OPS[:4], []), ([], TREE_OPS[4:], [])]
    os.makedirs(os.path.join(ctx.work, "cfg"), exist_ok=True)
    def one(k):
        ops, tops, un = shards[k]
        name = "MC_AnkoArith_shard%d.cfg" % k
        open(os.path.join(ctx.work, "cfg", name), "w").write(shard_cfg(ctx, name, ops, tops, un))
        return vlib.run_tlc(ctx, "MC_AnkoArith", name, workers=2, timeout=3000, want_lines=False, copy=[pool, tree], xss="256m", cfg_dir=os.path.join(ctx.work, "cfg"))
    with concurrent.futures.ThreadPoolExecutor(max_workers=8) as ex:
        results = list(ex.map(one, range(len(shards))))
    total = {"cases": 0, "open": 0, "evaluations": 0, "n_mismatch": 0, "mismatches": [], "samples": [], "by_op": {}}
    for r in results:
        vlib.tlc_ok(ctx, r, "MC_AnkoArith shard")
        res = os.path.join(r.dir, "replay.json")
        vlib.run_cmd(ctx, [binp, "replay", pool, tree, os.path.join(r.dir, "tlc.out"), res], timeout=1800)
        s = json.load(open(res))
        for k in ("cases", "open", "evaluations", "n_mismatch"):
            total[k] += s[k]
        total["mismatches"] += s.get("mismatches") or []
        total["samples"] += s.get("samples") or []
        total["by_op"].update(s.get("by_op") or {})
        os.remove(os.path.join(r.dir, "tlc.out"))
    ctx.cov["evaluations"] += total["evaluations"]
    ctx.cov["distinct_nontrivial"] += total["cases"] - total["open"]
    ctx.cov["traces_validated_against_impl"] += total["cases"] - total["open"]
    ctx.cov["open_by_statement"] = total["open"]
    ctx.cov["cases_by_operator"] = total["by_op"]
    for smp in total["samples"][:3]:
        ctx.sample(smp)
    for m in total["mismatches"][:25]:
        payload = {"kind": "arith", "src": m["src"], "operands": m["operands"], "case": m["case"], "variant": m["variant"], "expected": m["expected"], "got": m["got"]}
        if reproduce(ctx, binp, m, pool, tree):
            vlib.violation(ctx, "%s with operands %s (supplied as %s): expected %s, got %s" % (m["src"], m["operands"], m["variant"], m["expected"], m["got"]), payload)
        else:
            raise Broken("arith mismatch not reproduced: %s" % json.dumps(m)[:400])
    # 3. code -> spec: random tuples validated by TLC
    n = 1500 if ctx.quick() else 20000
    tr = os.path.join(ctx.work, "arith_trace.ndjson")
    vlib.run_cmd(ctx, [binp, "random", str(ctx.seed), str(n), tr])
    r = vlib.run_tlc(ctx, "Trace_AnkoArith", "Trace_AnkoArith.cfg", workers=1, timeout=3000, copy=[tr], want_lines=False, xss="256m")
    if r.error:
        raise Broken("Trace_AnkoArith: " + r.error + r.out[-1500:])
    m = re.findall(r'<<"REACHED", (\d+), (\d+)>>', r.out)
    if not m:
        raise Broken("Trace_AnkoArith: no REACHED line\n" + r.out[-1500:])
    reached, tot = int(m[-1][0]), int(m[-1][1])
    ctx.cov["states"] += r.distinct
    ctx.cov["transitions"] += r.generated
    lines = vlib.read_ndjson(tr)
    if reached == tot + 1:
        ctx.cov["traces_validated_against_impl"] += tot
        ctx.cov["evaluations"] += tot
        ctx.cov["random_tuples_validated"] = tot
    else:
        bad = lines[reached - 1]
        vlib.violation(ctx, "recorded result rejected by Trace_AnkoArith: %s with a=%s b=%s gave %s" % (bad["src"], bad["a"]["l"], bad["b"]["l"], bad["got"]),
                       {"kind": "arith-trace", "line": bad, "seed": ctx.seed})
    # corruption control: one recorded result altered must be rejected
    if not ctx.violations:
        i = next(k for k, e in enumerate(lines) if e["got"]["t"] == "int")
        lines[i]["got"]["l"][0] = (lines[i]["got"]["l"][0] + 1) % 256
        vlib.write_ndjson(tr, lines[:i + 3])
        r = vlib.run_tlc(ctx, "Trace_AnkoArith", "Trace_AnkoArith.cfg", workers=1, timeout=600, copy=[tr], want_lines=False, xss="256m")
        ok = r.postcondition_false and not r.error
        ctx.cov["controls"].append({"control": "altered recorded integer result must be rejected", "detected": bool(ok)})
        if not ok:
            raise Broken("corruption control failed")
    return vlib.finish(ctx, RULE, exhaustive=True)


def reproduce(ctx, binp, m, pool, tree):
    d = os.path.join(ctx.work, "repro")
    os.makedirs(d, exist_ok=True)
    p = os.path.join(d, "one.out")
    open(p, "w").write(json.dumps(json.dumps(m["case"])) + "\n")
    res = os.path.join(d, "one.json")
    vlib.run_cmd(ctx, [binp, "replay", pool, tree, p, res])
    return json.load(open(res))["n_mismatch"] > 0


def replay(ctx, path):
    binp = vlib.build_harness(ctx, "arithharness")
    p = json.load(open(path))
    if p.get("kind") != "arith":
        print("re-run bin/check C05 with VERIF_SEED=%s" % p.get("seed"))
        return 2
    pool, tree = write_pools(ctx)
    bad = reproduce(ctx, binp, {"case": p["case"]}, pool, tree)
    if bad:
        print("VIOLATION property=%s replay=%s" % (ctx.id, path))
    return 1 if bad else 0
