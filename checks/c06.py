"""C06 -- equality is one coherent relation (spec/AnkoEq.tla)."""
import json, os, re, struct
import vlib
from vlib import Broken

LEVEL = "model_checking"
RULE = ("For every ordered pair of the value pool (nil, booleans, int64 edges, floats incl. +-0/NaN/Inf/beyond 2^53, decimal-numeral and other strings, nested "
        "slices and maps) the real VM evaluates a==b, a!=b, a in [b], switch a {case b:}, a<=b && a>=b in both operand orders, once with the operands in variables and once read out of slices (interface-typed elements); TLC (Trace_AnkoEq) accepts each "
        "observation iff the laws hold (symmetry, != negation, in/switch coherence, int-float equality iff <= and >=) and the verdict equals AnkoEq's where the "
        "statement decides. distinct_nontrivial = pairs with a definite verdict.")


def limbs(n): return list((n & 0xFFFFFFFFFFFFFFFF).to_bytes(8, "little"))
def fbytes(x): return list(struct.pack("<d", x))

def V(t, l=None, s="", num=None, es=None, nan=False, zero=False, openstr=False):
    return {"t": t, "l": l or [], "s": s, "num": num or {"k": "none", "l": []}, "es": es or [], "nan": nan, "zero": zero, "openstr": openstr}
def I(n): return V("int", limbs(n))
def F(x): return V("flt", fbytes(x), nan=(x != x), zero=(x == 0))
def B(b): return V("bool", [1 if b else 0])
NIL = V("nil")
def S(s):
    if re.match(r"^-?\d+$", s):
        n = int(s)
        if -2**63 <= n < 2**63:
            return V("str", s=s, num={"k": "int", "l": limbs(n)})
        # an integer numeral outside int64: it denotes a number no int64 is (never equal to an integer); against a float the comparison is carried out in float64
        return V("str", s=s, num={"k": "big", "l": fbytes(float(s))})
    if re.match(r"^-?\d+\.\d+$", s):
        return V("str", s=s, num={"k": "flt", "l": fbytes(float(s))})
    # other spellings: a decimal numeral in a wider sense (explicit + sign, exponent, leading / trailing dot), surrounding blanks and the words the VM reads as
    # booleans are left open; everything else -- 0x / 0b prefixes, hexadecimal floats, digit-separating underscores, "Inf", "NaN" -- is NOT a decimal numeral:
    # decided, never equal to a number
    looks = bool(re.match(r"^[+-]?(\d+\.?\d*|\.\d+)([eE][+-]?\d+)?$", s)) or s.strip() != s or s.lower() in ("true", "false", "t", "f")
    return V("str", s=s, openstr=looks)
def L(*es): return V("list", es=list(es))
def M(*kv): return V("map", es=sorted([L(k, v) for k, v in kv], key=lambda p: json.dumps(p["es"][0], sort_keys=True)))


def pool(ctx):
    ints = [0, 1, -1, 2, 5, 7, 10, 12, 16, 31, 100000, 1000000, 2**53, 2**53 + 1, 2**63 - 2, 2**63 - 1, -2**63]
    floats = [0.0, -0.0, 0.5, 1.0, 1.5, 7.0, 12.0, 100000.0, 1000000.0, 1e21, 2.0**53, 9007199254740994.0, 9.223372036854775807e18, float("inf"), float("-inf"), float("nan")]
    strs = ["", "a", "abc", "0", "1", "12", "1000000", "-7", "1.5", "0.5", "007", "12.0", "9223372036854775808", "1e5", "0x10", "0X1F", "0b101", "-0x10", "010", " 1", "true", "9223372036854775806", "9223372036854775807", "9007199254740993", "-9223372036854775808", "-9223372036854775809", "1_0", "1_000000", "Inf", "-Inf", "+Inf", "inf", "Infinity", "NaN", "0x1p4", "0x1p-1", "0x.8p1", "1e1", "+10", ".5", "5."]
    vals = [NIL, B(True), B(False)] + [V("nil", s=k) for k in ("chan", "func", "slice", "map", "ptr")] + [V("cplx", l=[0, 0]), V("cplx", l=[1, 0]), V("cplx", l=[1, 2]), V("cplx", l=[0, 2])] + [I(n) for n in ints] + [F(x) for x in floats] + [S(s) for s in strs]
    vals += [L(), L(I(1)), L(I(1), I(2)), L(I(2), I(1)), L(F(1.0)), L(S("a")), L(S("1")), L(L(I(1)), L(I(2))), L(L(I(1)), L(I(3))), L(NIL), L(L()),
             M(), M((S("a"), I(1))), M((S("a"), I(2))), M((S("b"), I(1))), M((S("a"), I(1)), (S("b"), L(I(1)))), M((S("a"), F(1.0))), M((I(1), S("x"))),
             # maps whose key sets differ only at keys that hold nil (a missing key reads as nil too), lists / maps that hold them
             M((S("a"), NIL)), M((S("b"), NIL)), M((S("a"), NIL), (S("c"), I(1))), M((S("b"), NIL), (S("c"), I(1))), M((S("a"), I(1)), (S("b"), NIL)), L(M((S("a"), NIL))), L(M((S("b"), NIL))),
             M((S("k"), M((S("a"), NIL)))), M((S("k"), M((S("b"), NIL)))), M((I(1), NIL)), M((I(2), NIL)), L(NIL, NIL), M((S("a"), L())), M((S("a"), M()))]
    if not ctx.quick():
        vals += [I(n) for n in (3, -2, 4095, 4096, 2**31, 2**53 - 1, -(2**53 + 1), 10**18)] + [F(x) for x in (2.0, -1.0, 3.0, 4096.0, 1e20, 5e-324, 1e308, -1e21)] + \
                [S(s) for s in ("2", "-1", "4096", "1.0", "100000", "2.50", "x1", "1x")] + [L(I(1), L(I(2), L(I(3)))), L(I(1), L(I(2), L(I(4)))), M((S("a"), M((S("b"), I(1))))), M((S("a"), M((S("b"), I(2)))))]
    return vals


def validate(ctx, poolp, obsp):
    r = vlib.run_tlc(ctx, "Trace_AnkoEq", "Trace_AnkoEq.cfg", workers=1, timeout=3000, copy=[poolp, obsp], want_lines=False, xss="256m")
    if r.error or r.violation:
        raise Broken("Trace_AnkoEq: %s %s" % (r.error or r.violation, r.out[-2000:]))
    m = re.findall(r'<<"REACHED", (\d+), (\d+)>>', r.out)
    if not m:
        raise Broken("Trace_AnkoEq: no REACHED line\n" + r.out[-1500:])
    return int(m[-1][0]), int(m[-1][1]), r


def describe(v):
    if v["t"] == "int": return "int64(%d)" % int.from_bytes(bytes(v["l"]), "little", signed=True)
    if v["t"] == "flt": return "float64(%r)" % struct.unpack("<d", bytes(v["l"]))[0]
    if v["t"] == "str": return "string(%r)" % v["s"]
    if v["t"] == "bool": return "bool(%s)" % (v["l"][0] == 1)
    if v["t"] == "cplx": return "complex(%d, %d)" % tuple(v["l"])
    if v["t"] == "nil": return "nil" if not v["s"] else "nil %s" % v["s"]
    if v["t"] == "list": return "[" + ", ".join(describe(e) for e in v["es"]) + "]"
    return "{" + ", ".join(describe(p["es"][0]) + ": " + describe(p["es"][1]) for p in v["es"]) + "}"


def run(ctx):
    binp = vlib.build_harness(ctx, "eqharness")
    ctx.assumptions += ["float64 == itself is Go's (recorded natively as feq)", "bool vs non-bool, containers vs other kinds, numeral strings with exponent/hex/sign/space, and int-vs-float ELEMENTS inside containers are open (laws still apply)",
                        "NaN is excepted from reflexivity", "the numeric denotation of decimal numeral strings is computed by the pool generator"]
    vals = pool(ctx)
    poolp = os.path.join(ctx.work, "eq_pool.ndjson")
    vlib.write_ndjson(poolp, vals)
    obsp = os.path.join(ctx.work, "eq_obs.ndjson")
    vlib.run_cmd(ctx, [binp, poolp, obsp], timeout=1800)
    obs = vlib.read_ndjson(obsp)
    for o in obs:
        if o.get("problems"):
            a, b = vals[o["i"] - 1], vals[o["j"] - 1]
            vlib.violation(ctx, "equality use did not yield a boolean for %s , %s: %s" % (describe(a), describe(b), o["problems"][:2]), {"kind": "eq-problem", "a": a, "b": b, "obs": o})
    todo = [o for o in obs if not o.get("problems")]
    vlib.write_ndjson(obsp, todo)
    rej, total, r = vlib.validate_lines(ctx, "Trace_AnkoEq", "Trace_AnkoEq.cfg", [poolp, obsp])
    ctx.cov["traces_validated_against_impl"] += total - len(rej)
    o = todo[min(len(todo) - 1, 200)]
    ctx.sample({"a": describe(vals[o["i"] - 1]), "b": describe(vals[o["j"] - 1]), "observed": {k: o[k] for k in ("eq", "req", "ne", "inn", "sw", "lege", "feq")}})
    for ln in rej[:25]:
        bad = todo[ln - 1]
        a, b = vals[bad["i"] - 1], vals[bad["j"] - 1]
        vlib.violation(ctx, "equality observation rejected by AnkoEq for a=%s b=%s (operands %s): %s" % (describe(a), describe(b), {"elem": "read from slices: la[0], lb[0]", "shared": "a is b[:len(a)], the same backing array", "ret": "results of Go functions returning interface{}", "range": "value variable of a map range / channel receive", "litb": "b written as a literal", "lita": "a written as a literal", "uintptr": "handed over as uintptr", "mixedint": "handed over as int32 and uint16", "uint64": "handed over as uint64"}.get(bad.get("prov"), "in variables"), {k: bad[k] for k in ("eq", "req", "ne", "rne", "inn", "rinn", "sw", "rsw", "lege", "feq")}),
                       {"kind": "eq", "a": a, "b": b, "obs": bad, "finding_key": finding_key(a, b, bad)})
    ctx.cov["evaluations"] += len(obs) * 10
    ctx.cov["distinct_nontrivial"] += len(obs)
    ctx.cov["pool_size"] = len(vals)
    # corruption control
    if not ctx.violations:
        o = dict(obs[5]); o["ne"] = not o["ne"]
        vlib.write_ndjson(obsp, obs[:5] + [o])
        rej, total, r = vlib.validate_lines(ctx, "Trace_AnkoEq", "Trace_AnkoEq.cfg", [poolp, obsp])
        ok = rej == [6]
        ctx.cov["controls"].append({"control": "observation with a != b altered must be rejected", "detected": ok})
        if not ok:
            raise Broken("corruption control failed")
    return vlib.finish(ctx, RULE, exhaustive=True)


def finding_key(a, b, o):
    return "eq:%s:%s" % (a["t"], b["t"])


def replay(ctx, path):
    binp = vlib.build_harness(ctx, "eqharness")
    p = json.load(open(path))
    poolp = os.path.join(ctx.work, "eq_pool.ndjson")
    vlib.write_ndjson(poolp, [p["a"], p["b"]])
    obsp = os.path.join(ctx.work, "eq_obs.ndjson")
    vlib.run_cmd(ctx, [binp, poolp, obsp])
    obs = [o for o in vlib.read_ndjson(obsp) if o["i"] == 1 and o["j"] == 2 and o.get("prov", "plain") == p["obs"].get("prov", "plain")]
    print(json.dumps(obs))
    vlib.write_ndjson(obsp, obs)
    rej, total, r = vlib.validate_lines(ctx, "Trace_AnkoEq", "Trace_AnkoEq.cfg", [poolp, obsp])
    bad = bool(rej) or bool(obs[0].get("problems"))
    if bad:
        print("VIOLATION property=%s replay=%s" % (ctx.id, path))
    return 1 if bad else 0
