"""C03 -- the parser builds the tree the source spells out (spec/AnkoGrammar.tla, spec/AnkoLiteral.tla)."""
import json, os, struct, concurrent.futures
import vlib
from vlib import Broken

LEVEL = "model_checking"
RULE = ("AnkoGrammar holds the operator table as data with UnparseMin / UnparseFull and an independent declarative parser ParseRef; TLC checks "
        "ParseRef(UnparseMin(t)) = t = ParseRef(UnparseFull(t)) for every expression tree of depth <= 2 (thorough: depth 3 over level representatives) over all 19 binary, "
        "5 unary, ternary, ??, call/index/slice/member forms and emits both spellings. The real parser must build the TLC tree from both spellings (parentheses dropped), both "
        "must evaluate equally, and both must build the same tree inside 18 statement positions. Literal denotations (decimal/hex/binary int64 edges via Int64, floats as "
        "primitives, string escapes) are computed by TLC from AnkoLiteral and compared with the parsed value or rejection. distinct_nontrivial = trees + literal cases.")


def limbs(n): return list((n & 0xFFFFFFFFFFFFFFFF).to_bytes(8, "little"))


def literal_cases():
    out = []
    def integer(src, kind, neg, digits):
        out.append({"src": src, "kind": kind, "neg": neg, "digits": digits, "fbits": [], "frange": True, "cs": [], "terminated": True})
    decs = ["0", "7", "10", "007", "010", "0100", "017", "08", "009", "00", "0777", "4095", "4096", "2147483647", "2147483648", "9007199254740993", "9223372036854775806", "9223372036854775807", "9223372036854775808",
            "9223372036854775809", "18446744073709551615", "18446744073709551616", "99999999999999999999", "123456789012345678901234567890"]
    for d in decs:
        integer(d, "dec", False, [int(c) for c in d])
        integer("-" + d, "dec", True, [int(c) for c in d])
    hexs = ["0", "f", "ff", "7fffffffffffffff", "8000000000000000", "8000000000000001", "ffffffffffffffff", "10000000000000000", "1234abcd", "00ff"]
    for h in hexs:
        integer("0x" + h, "hex", False, [int(c, 16) for c in h])
        integer("-0x" + h, "hex", True, [int(c, 16) for c in h])
        integer("0x" + h.upper(), "hex", False, [int(c, 16) for c in h])
    bins = ["0", "1", "101", "1" * 63, "1" + "0" * 63, "1" * 64, "1" + "0" * 64, "0010"]
    for b in bins:
        integer("0b" + b, "bin", False, [int(c) for c in b])
        integer("-0b" + b, "bin", True, [int(c) for c in b])
    for f in ["1.5", "0.5", "1.0", "3.14159", "1e3", "1E3", "1e+3", "1e-3", "1.5e10", "2.5E-2", "9007199254740993.0", "1e308", "1.7976931348623157e308", "1e309", "1.8e308",
              "5e-324", "1e-400", "0.1", "123456789.123456789", "1.2.3", "1e5.5"]:
        try:
            x = float(f)
            ok = x not in (float("inf"), float("-inf"))
            if f in ("1e-400",):          # strconv.ParseFloat reports underflow to zero without error: value 0
                ok = True
        except ValueError:
            x, ok = 0.0, False
        out.append({"src": f, "kind": "flt", "neg": False, "digits": [], "fbits": list(struct.pack("<d", x)) if ok else [0] * 8, "frange": ok, "cs": [], "terminated": True})
    def string(src, kind, content, terminated=True):
        out.append({"src": src, "kind": kind, "neg": False, "digits": [], "fbits": [], "frange": True, "cs": [ord(c) for c in content], "terminated": terminated})
    contents = ["", "a", "abc", "a b", "\\n", "\\t", "\\b\\f\\r", "a\\nb", "\\\\", "\\\"", "\\'", "\\x", "\\q\\z", "λ", "é", "ü©°ÿ", "a\u0080b", "ñandú ß ×", "日本", "tab\\there", "#nocomment", "//no", "/*no*/", "`", "'", "a\nb", "a\r\nb", "\r", "x\r\n\r\ny"]
    for c in contents:
        if '"' not in c.replace('\\"', ""):
            string('"' + c + '"', "quoted", c)
        if "'" not in c.replace("\\'", ""):
            string("'" + c + "'", "quoted", c)
        if "`" not in c:
            string("`" + c + "`", "raw", c)
    string('"abc', "quoted", "abc", terminated=False)
    string("`abc", "raw", "abc", terminated=False)
    string('"abc\\', "quoted", "abc\\", terminated=False)
    return out


def grammar_cfgs(ctx):
    cfgs = [("d2", 2, [])]
    if not ctx.quick():
        roots = ["||", "&&", "==", "<", "+", "-", "|", "*", "%", "<<", "&", "in", "!", "^", "tern", "nilco"]
        for i in range(0, len(roots), 2):
            cfgs.append(("d3_%d" % i, 3, roots[i:i + 2]))
    return cfgs


def run(ctx):
    binp = vlib.build_harness(ctx, "gramharness")
    ctx.assumptions += ["yacc conflict resolution is observed, not derived", "for-in's `for x in e` makes the statement position `for <expr>` ambiguous for expressions starting with `ident in`: that position is skipped for them",
                        "float literal values come from the case generator's correctly rounded conversion (a primitive)", "forms outside the table (channel arrows, assignment forms inside expressions) are not asserted"]
    d = os.path.join(ctx.work, "cfg")
    os.makedirs(d, exist_ok=True)
    def one(c):
        name, depth, roots = c
        fn = "MC_AnkoGrammar_%s.cfg" % name
        open(os.path.join(d, fn), "w").write("SPECIFICATION Spec\nCONSTANTS\n  Depth = %d\n  RootKinds = {%s}\nCHECK_DEADLOCK FALSE\n" % (depth, ", ".join('"%s"' % r for r in roots)))
        return name, vlib.run_tlc(ctx, "MC_AnkoGrammar", fn, workers=3, timeout=3000, want_lines=False, xss="256m", cfg_dir=d)
    with concurrent.futures.ThreadPoolExecutor(max_workers=5) as ex:
        results = list(ex.map(one, grammar_cfgs(ctx)))
    known = 0
    for name, r in results:
        vlib.tlc_ok(ctx, r, "MC_AnkoGrammar " + name)
        res = os.path.join(r.dir, "gram.json")
        vlib.run_cmd(ctx, [binp, "trees", os.path.join(r.dir, "tlc.out"), res], timeout=2400)
        s = json.load(open(res))
        os.remove(os.path.join(r.dir, "tlc.out"))
        ctx.cov["evaluations"] += s["parses"]
        ctx.cov["distinct_nontrivial"] += s["cases"]
        ctx.cov["traces_validated_against_impl"] += s["cases"]
        ctx.cov.setdefault("tree_families", {})[name] = {"trees": s["cases"], "parses": s["parses"], "mismatches": s["n_mismatch"]}
        for smp in (s.get("samples") or [])[:1]:
            ctx.sample(smp)
        if s["n_mismatch"] > len(s.get("mismatches") or []):
            ctx.notes.append("%s: %d mismatching trees, first %d examined" % (name, s["n_mismatch"], len(s["mismatches"])))
        for m in (s.get("mismatches") or []):
            payload = {"kind": "tree", "min": m["min"], "full": m["full"], "expected": m["expected"], "got": m["got"], "what": m["what"]}
            if is_in_right_assoc(m):
                payload["finding_key"] = "gram:in-right-assoc"
            vlib.violation(ctx, "%s: min spelling %r, full spelling %r" % (m["what"], m["min"], m["full"]), payload)
    # literals
    cases = literal_cases()
    cp = os.path.join(ctx.work, "literal_cases.ndjson")
    vlib.write_ndjson(cp, cases)
    r = vlib.run_tlc(ctx, "MC_AnkoLiteral", "MC_AnkoLiteral.cfg", workers=2, timeout=1800, want_lines=False, copy=[cp], xss="256m")
    vlib.tlc_ok(ctx, r, "MC_AnkoLiteral")
    res = os.path.join(r.dir, "lit.json")
    vlib.run_cmd(ctx, [binp, "literals", os.path.join(r.dir, "tlc.out"), res])
    s = json.load(open(res))
    if s["cases"] != len({c["src"] for c in cases}) and s["cases"] != len(cases):
        raise Broken("literal cases emitted %d of %d" % (s["cases"], len(cases)))
    ctx.cov["evaluations"] += s["cases"]
    ctx.cov["distinct_nontrivial"] += s["cases"]
    ctx.cov["traces_validated_against_impl"] += s["cases"]
    ctx.cov["literal_cases"] = s["cases"]
    for smp in (s.get("samples") or [])[:1]:
        ctx.sample(smp)
    for m in (s.get("mismatches") or []):
        vlib.violation(ctx, "literal %r: expected %s, got %s" % (m["min"], json.dumps(m["expected"])[:120], m["got"]), {"kind": "literal", "src": m["min"], "expected": m["expected"], "got": m["got"]})
    return vlib.finish(ctx, RULE, exhaustive=True)


def is_in_right_assoc(m):
    """the recorded deviation, at any depth of the tree: the real tree is exactly the expected tree with every chain
    `(x in y) in z` (which the minimal spelling writes without parentheses) regrouped as `x in (y in z)`"""
    e, g = m.get("expected"), m.get("got")
    if not (isinstance(e, dict) and isinstance(g, dict)) or m["what"] != "tree of the min spelling":
        return False
    def regroup(t):
        if not isinstance(t, dict):
            return t
        t = {k: regroup(v) for k, v in t.items()}
        while t.get("k") == "bin" and t.get("op") == "in" and isinstance(t.get("l"), dict) and t["l"].get("k") == "bin" and t["l"].get("op") == "in":
            inner = regroup({"k": "bin", "op": "in", "l": t["l"]["r"], "r": t["r"]})
            t = {"k": "bin", "op": "in", "l": t["l"]["l"], "r": inner}
        return t
    return json.dumps(regroup(e), sort_keys=True) == json.dumps(g, sort_keys=True) and json.dumps(e, sort_keys=True) != json.dumps(g, sort_keys=True)


def replay(ctx, path):
    binp = vlib.build_harness(ctx, "gramharness")
    p = json.load(open(path))
    d = os.path.join(ctx.work, "one.out")
    if p["kind"] == "tree":
        open(d, "w").write(json.dumps(json.dumps({"t": p["expected"], "min": p["min"].split(" "), "full": p["full"].split(" ")})) + "\n")
        mode = "trees"
    else:
        open(d, "w").write(json.dumps(json.dumps({"src": p["src"], "exp": p["expected"]})) + "\n")
        mode = "literals"
    res = os.path.join(ctx.work, "one.json")
    vlib.run_cmd(ctx, [binp, mode, d, res])
    bad = json.load(open(res))["n_mismatch"] > 0
    if bad:
        print("VIOLATION property=%s replay=%s" % (ctx.id, path))
    return 1 if bad else 0
