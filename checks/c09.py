"""C09 -- errors reach the nearest try; deferred calls run once, LIFO, on every exit (spec/AnkoSem.tla)."""
import os, json, concurrent.futures
import vlib, corecheck, progs, frames

LEVEL = "model_checking"
RULE = ("Functions and top level with 0..3 defers and a terminator (normal end, return, throw, undefined name, bad index) at every position, called under "
        "try/catch/finally; defer argument timing, defers in loops/branches, failing deferred callees, nested try, rethrow, finally, uncaught errors; "
        "seeded random programs with defers and throws. Probe log, result and error (message of thrown values) expected from AnkoSem via TLC, compared "
        "with the real VM. distinct_nontrivial = distinct programs with a definite expected outcome and >= 2 probe effects.")


# ---- deferred host calls on every way an invocation ends, the interruption of the run included (spec/AnkoDefer.tla)
def ind(s): return "\n".join(" " + l for l in s.split("\n"))

DCORES = {
    "spin": "for {\n p(1)\n}", "recv": "cq = make(chan int64)\nxq = <-cq", "end": "p(1)", "ret": "return 7", "throw": "throw \"x\"", "rterr": "zz9()",
    "cancelnow": "cancelnow()\np(1)", "recurse": None,
}

def defer_programs(ctx):
    """depth 1..3 invocations (top level = depth 1), 0..2 deferred host calls before and 0..1 after the inner call in every frame, a core at the innermost
    level; the tag of a registration is depth*10 + position, so the trace knows which invocation registered it."""
    out = []
    def D(tag): return "defer rel(reg(%d))" % tag
    def body(depth, maxd, before, after, core, midcancel):
        pre = [D(depth * 10 + i + 1) for i in range(before)]
        if midcancel and depth == maxd:
            pre.insert(1 if before else 0, "defer cancelnow()")       # the cancellation arrives BETWEEN two deferred calls of the invocation being left
        post = [D(depth * 10 + 5 + i) for i in range(after)]
        inner = core if depth == maxd else "f%d()" % (depth + 1)
        return "\n".join(pre + [inner] + post)
    for maxd in (1, 2, 3):
        for before in (0, 1, 2):
            for after in (0, 1):
                for cn, core in DCORES.items():
                    for midcancel in (False, True):
                        if cn == "recurse":
                            continue
                        fns = []
                        for d in range(maxd, 1, -1):
                            fns.append("func f%d() {\n%s\n}" % (d, ind(body(d, maxd, before, after, core, midcancel))))
                        src = "\n".join(fns + [body(1, maxd, before, after, core, midcancel), "p(99)"])
                        out.append({"id": "defer|d%d-b%d-a%d-%s%s" % (maxd, before, after, cn, "-midcancel" if midcancel else ""), "src": src, "pre": "", "threads": 0})
    # the same function invoked repeatedly (loop, recursion): every invocation has its own deferred calls
    out.append({"id": "defer|loop-calls-spin", "src": "func g(n) {\n defer rel(reg(21))\n defer rel(reg(22))\n if n == 3 {\n  for {\n   p(1)\n  }\n }\n}\ndefer rel(reg(11))\nfor i in [1, 2, 3] {\n g(i)\n}", "pre": "", "threads": 0})
    out.append({"id": "defer|recursion-spin", "src": "func r2(n) {\n defer rel(reg(31))\n for {\n  p(1)\n }\n}\nfunc r1(n) {\n defer rel(reg(21))\n r2(n)\n}\ndefer rel(reg(11))\nr1(1)", "pre": "", "threads": 0})
    out.append({"id": "defer|in-try-spin", "src": "func g() {\n defer rel(reg(21))\n try {\n  defer rel(reg(22))\n  for {\n   p(1)\n  }\n } catch e {\n  p(50)\n }\n}\ndefer rel(reg(11))\ng()", "pre": "", "threads": 0})
    out.append({"id": "defer|in-loop-body-spin", "src": "func g() {\n for i in [1, 2] {\n  defer rel(reg(21))\n }\n for {\n  p(1)\n }\n}\ng()", "pre": "", "threads": 0})
    out.append({"id": "defer|spread-variadic-spin", "src": "func g() {\n defer rel([reg(21)]...)\n for {\n  p(1)\n }\n}\ng()", "pre": "", "threads": 0})
    return out


def defer_discipline(ctx):
    binp = vlib.build_harness(ctx, "cancelharness")
    for c, exp in (("code", None), ("neg_PollBeforeDeferred", ("ExactlyOnce",)), ("neg_FIFO", ("LIFO",))):
        r = vlib.run_tlc(ctx, "MC_AnkoDefer", "MC_AnkoDefer_%s.cfg" % c, workers=4, timeout=900, want_lines=False)
        if exp is None:
            vlib.tlc_ok(ctx, r, "MC_AnkoDefer")
        else:
            vlib.tlc_must_fail(ctx, r, "wrong design %s must be refuted" % c[4:], expect=exp)
    progs = defer_programs(ctx)
    maxgate = 22 if ctx.quick() else 40
    n = 12
    def shard(k):
        part = [p for i, p in enumerate(progs) if i % n == k]
        pp = os.path.join(ctx.work, "dprogs_%d.ndjson" % k)
        op = os.path.join(ctx.work, "dobs_%d.ndjson" % k)
        vlib.write_ndjson(pp, part)
        p = vlib.run_cmd(ctx, [binp, pp, op, str(maxgate)], timeout=3000, ok_codes=None)
        obs = vlib.read_ndjson(op) if os.path.exists(op) else []
        if p.returncode != 0:
            raise vlib.Broken("cancelharness died (rc=%d) on the defer programs: %s" % (p.returncode, p.stderr[-500:]))
        return obs
    with concurrent.futures.ThreadPoolExecutor(max_workers=n) as ex:
        obs = [o for part in ex.map(shard, range(n)) for o in part]
    byid = {p["id"]: p for p in progs}
    hung = [o for o in obs if not o["returned"]]
    obs = [o for o in obs if o["returned"]]            # (a run that does not return is C02's business; its events are incomplete)
    rej = defer_validate(ctx, obs)
    ctx.cov["evaluations"] += len(obs)
    ctx.cov["traces_validated_against_impl"] += len(obs) - len(rej)
    ctx.cov["distinct_nontrivial"] += len({(o["id"], json.dumps(o["evs"])) for o in obs if o["evs"]})
    ctx.cov["defer_runs"] = {"programs": len(progs), "runs": len(obs), "cancelled": sum(1 for o in obs if o["delivered"]), "with_events": sum(1 for o in obs if o["evs"]), "not_returned": len(hung)}
    seen = set()
    for i in rej:
        o = obs[i]
        if o["id"] in seen or len(seen) >= 20:
            continue
        seen.add(o["id"])
        vlib.violation(ctx, "deferred calls of %s (cancellation %s at gate %d %s): registered / ran %s is no behaviour of AnkoDefer (every deferred call runs exactly once, last registered first, when its invocation ends -- by error and by interruption too)\n%s"
                       % (o["id"], "delivered" if o["delivered"] else "not delivered", o["gate"], o.get("gate_kind", ""), [(e["ev"], e["id"]) for e in o["evs"]], byid[o["id"]]["src"]),
                       {"kind": "defer-run", "program": byid[o["id"]], "obs": o})
    if not ctx.violations and obs:
        # control: a recorded run with its last release removed must be rejected
        donor = next((o for o in obs if len(o["evs"]) >= 4 and o["evs"][-1]["ev"] == "rel"), None)
        if donor:
            bad = dict(donor); bad["evs"] = donor["evs"][:-1]
            bad2 = dict(donor); bad2["evs"] = donor["evs"][:-2] + [donor["evs"][-1], donor["evs"][-2]]
            r2 = defer_validate(ctx, [bad, bad2, donor])
            ok = r2 == [0, 1] or (r2 == [0] and donor["evs"][-2]["ev"] != "rel")
            ctx.cov["controls"].append({"control": "a recorded run with its last deferred call dropped / its last two swapped must be rejected by Trace_AnkoDefer", "detected": ok})
            if not ok:
                raise vlib.Broken("defer corruption control failed: %r" % r2)


def defer_validate(ctx, obs):
    """-> indexes of the runs that are NOT behaviours of AnkoDefer"""
    op = os.path.join(ctx.work, "defer_runs.ndjson")
    vlib.write_ndjson(op, [{"id": o["id"], "cancelled": bool(o["delivered"]), "evs": o["evs"] or []} for o in obs])
    acc = set()
    r = vlib.run_tlc(ctx, "Trace_AnkoDefer", "Trace_AnkoDefer.cfg", workers=4, timeout=1800, copy=[op], line_cb=lambda v: acc.add(v["accept"]))
    if r.error or r.violation or r.deadlock:
        raise vlib.Broken("Trace_AnkoDefer: %s" % (r.error or r.violation or "deadlock"))
    return [i for i in range(len(obs)) if (i + 1) not in acc]


def run(ctx):
    defer_discipline(ctx)
    binp = vlib.build_harness(ctx, "vmharness")
    trace = os.path.join(ctx.work, "hook_trace.ndjson")
    ctx.assumptions += ["which deferred call's error wins when several fail, finally after a failing catch and finally on a control transfer are left open by the statement",
                        "runtime error messages are compared by class only; messages of thrown values are compared exactly"]
    fams = [("c09-templates", progs.fam_c09()), ("c09-nest", progs.fam_c08(2, wraps=[progs.w_try, progs.w_catch, progs.w_func, progs.w_func_arg, progs.w_forin, progs.w_forchan, progs.w_cfor, progs.w_switch_case, progs.w_if_then])),
            ("c09-rand", progs.rand_programs(ctx.seed + 13, 500 if ctx.quick() else 8000, maxdepth=4 if ctx.quick() else 5)),
            ("c09-rand2", progs.rand2_programs(ctx.seed + 113, 400 if ctx.quick() else 6000))]
    for tag, fam in fams:
        corecheck.run_family(ctx, binp, fam, tag, env={"VERIF_TRACE": trace})
    # code -> spec: the hook traces of all those runs, and of the repository's own vm tests, against the frame machine
    rt, _ = frames.repo_test_trace(ctx)
    frames.check(ctx, "C09", [("families", trace), ("repo-vm-tests", rt)], 60000 if ctx.quick() else 600000)
    return vlib.finish(ctx, RULE, exhaustive=True)


def replay(ctx, path):
    return corecheck.replay_one(ctx, vlib.build_harness(ctx, "vmharness"), path)
