"""C09 -- errors reach the nearest try; deferred calls run once, LIFO, on every exit (spec/AnkoSem.tla)."""
import os
import vlib, corecheck, progs, frames

LEVEL = "model_checking"
RULE = ("Functions and top level with 0..3 defers and a terminator (normal end, return, throw, undefined name, bad index) at every position, called under "
        "try/catch/finally; defer argument timing, defers in loops/branches, failing deferred callees, nested try, rethrow, finally, uncaught errors; "
        "seeded random programs with defers and throws. Probe log, result and error (message of thrown values) expected from AnkoSem via TLC, compared "
        "with the real VM. distinct_nontrivial = distinct programs with a definite expected outcome and >= 2 probe effects.")


def run(ctx):
    binp = vlib.build_harness(ctx, "vmharness")
    trace = os.path.join(ctx.work, "hook_trace.ndjson")
    ctx.assumptions += ["which deferred call's error wins when several fail, finally after a failing catch and finally on a control transfer are left open by the statement",
                        "runtime error messages are compared by class only; messages of thrown values are compared exactly"]
    fams = [("c09-templates", progs.fam_c09()), ("c09-nest", progs.fam_c08(2, wraps=[progs.w_try, progs.w_catch, progs.w_func, progs.w_func_arg, progs.w_forin, progs.w_forchan, progs.w_cfor, progs.w_switch_case, progs.w_if_then])),
            ("c09-rand", progs.rand_programs(ctx.seed + 13, 500 if ctx.quick() else 8000, maxdepth=4 if ctx.quick() else 5)),
            ("c09-rand2", progs.rand2_programs(ctx.seed + 113, 400 if ctx.quick() else 6000))]
    for tag, fam in fams:
        corecheck.run_family(ctx, binp, fam, tag, env={"VERIF_TRACE": trace})
    # code -> spec: the hook traces of all those runs, and of the repository's own vm tests, against the frame machine
    rt, _ = frames.repo_test_trace(ctx)
    frames.check(ctx, "C09", [("families", trace), ("repo-vm-tests", rt)], 60000 if ctx.quick() else 600000)
    return vlib.finish(ctx, RULE, exhaustive=True)


def replay(ctx, path):
    return corecheck.replay_one(ctx, vlib.build_harness(ctx, "vmharness"), path)
