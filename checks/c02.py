"""C02 -- cancelling the context always stops a running script (spec/AnkoCancel.tla)."""
import json, os, itertools, random, concurrent.futures
import vlib
from vlib import Broken

LEVEL = "model_checking"
RULE = ("AnkoCancel (interpreter thread inside stacks of up to 3 wrappers: function boundary, try, ??, deferred call, plain block; cancel at any moment) is "
        "model-checked: NoSwallow, the result is the interrupt, and liveness cancelled ~> finished under weak fairness, with two wrong designs as negative controls. "
        "Conformance: every non-terminating / blocked core under every wrapper (and sampled pairs of wrappers) is run on the real VM and the context is cancelled "
        "inside the verif hook at the k-th gate (statement entry, loop poll, channel wait, function entry) for every k = 0..K, plus once from outside while it spins "
        "or blocks; TLC validates each observation (returned within 5 s, error text 'execution interrupted', no script effect after the delivering gate). "
        "distinct_nontrivial = (program, instant) pairs at which the cancellation was delivered.")

CORES = {
    "loop": ("for {\n p(1)\n}", 0),
    "while": ("for true {\n p(1)\n}", 0),
    "cfor": ("for i = 0; true; i++ {\n p(1)\n}", 0),
    "forin-slice": ("for x in big {\n p(1)\n}", 0),
    "forin-map": ("for k, v in bigmap {\n p(1)\n}", 0),
    "nested": ("for {\n for j in [1, 2, 3] {\n  p(1)\n }\n}", 0),
    "recursion": ("func rec(n) {\n p(1)\n return rec(n + 1) + 1\n}\nrec(0)", 0),
    "fib": ("func fib(n) {\n return n < 2 ? n : fib(n - 1) + fib(n - 2)\n}\nfib(60)", 0),
    "cond-call": ("func cnd() {\n return true\n}\nfor cnd() {\n p(1)\n}", 0),
    "switch-loop": ("for {\n switch 1 {\n case 1:\n  p(1)\n }\n}", 0),
    "recv": ("cq = make(chan int64)\np(1)\nxq = <-cq", 0),
    "recv-stmt": ("cq = make(chan int64)\np(1)\nvq, okq = <-cq", 0),
    "send": ("cq = make(chan int64)\np(1)\ncq <- 1", 0),
    "send-full": ("cq = make(chan int64, 1)\ncq <- 1\np(1)\ncq <- 2", 0),
    "range-chan": ("cq = make(chan int64)\np(1)\nfor vq in cq {\n p(2)\n}", 0),
    # two script threads contend for one buffered channel while a third drains / fills it for a while and then stops: both end up blocked
    "send-race": ("cq = make(chan int64, 1)\ngo func() {\n for iq = 0; iq < 200; iq++ {\n  <-cq\n }\n}()\ngo func() {\n for {\n  cq <- 1\n }\n}()\nfor {\n cq <- 2\n}", 2),
    "recv-race": ("cq = make(chan int64, 1)\ngo func() {\n for iq = 0; iq < 200; iq++ {\n  cq <- iq\n }\n}()\ngo func() {\n for {\n  <-cq\n }\n}()\nfor {\n xq = <-cq\n}", 2),
    "ping-pong": ("aq = make(chan int64)\nbq = make(chan int64)\ngo func() {\n for {\n  bq <- (<-aq) + 1\n }\n}()\nfor {\n aq <- 1\n p(<-bq)\n}", 1),
}

def ind(s): return "\n".join(" " + l for l in s.split("\n"))

WRAPS = {
    "fn0": lambda c: "func w0() {\n%s\n}\nw0()" % ind(c),
    "fn1": lambda c: "func w1(a) {\n%s\n}\nw1(1)" % ind(c),
    "fn4": lambda c: "func w4(a, b, c, d) {\n%s\n}\nw4(1, 2, 3, 4)" % ind(c),
    "fn5": lambda c: "func w5(a, b, c, d, e) {\n%s\n}\nw5(1, 2, 3, 4, 5)" % ind(c),
    "fnvar": lambda c: "func wv(a...) {\n%s\n}\nwv(1, 2)" % ind(c),
    "fnret": lambda c: "func wr() {\n%s\n return 1\n}\nyq = wr() + 1" % ind(c),
    "try": lambda c: "try {\n%s\n} catch e {\n p(50)\n}" % ind(c),
    "catch": lambda c: "try {\n throw \"x\"\n} catch e {\n%s\n}" % ind(c),
    "finally": lambda c: "try {\n p(51)\n} catch e {\n p(52)\n} finally {\n%s\n}" % ind(c),
    "try-fn": lambda c: "func wt() {\n%s\n}\ntry {\n wt()\n} catch e {\n p(50)\n}" % ind(c),
    "loop-try-fn": lambda c: "func wl() {\n%s\n}\nfor {\n try {\n  wl()\n } catch e {\n  p(50)\n }\n}" % ind(c),
    "nilco": lambda c: "zq = (func() {\n%s\n return 1\n})() ?? 5\np(53)" % ind(c),
    "defer": lambda c: "func wd() {\n defer (func() {\n%s\n })()\n return 1\n}\nzq = wd()\np(54)" % ind(ind(c)),
    "defer-top": lambda c: "defer (func() {\n%s\n})()\np(55)\nreturn 1" % ind(c),
    "arg": lambda c: "p2(1, (func() {\n%s\n return 2\n})())" % ind(c),
    "module": lambda c: "module mw {\n%s\n}" % ind(c),
    "forin": lambda c: "for iw in [1, 2] {\n%s\n}" % ind(c),
    "if": lambda c: "if true {\n%s\n}" % ind(c),
    "else": lambda c: "if false {\n p(56)\n} else {\n%s\n}" % ind(c),
    "switch": lambda c: "switch 1 {\ncase 1:\n%s\n}" % ind(c),
    # the function is defined by an EARLIER run (plain Execute, background context) and only called by the cancellable run
    "xfn0": lambda c: ("func x0() {\n%s\n}" % ind(c), "x0()"),
    "xfn2": lambda c: ("func x2(a, b) {\n%s\n}" % ind(c), "x2(1, 2)"),
    "xfn5": lambda c: ("func x5(a, b, c, d, e) {\n%s\n}" % ind(c), "x5(1, 2, 3, 4, 5)"),
    "xfnvar": lambda c: ("func xv(a...) {\n%s\n}" % ind(c), "xv(1, 2)"),
    "xfnval": lambda c: ("xf = func(a, b, c, d, e, f) {\n%s\n}" % ind(c), "xf(1, 2, 3, 4, 5, 6)"),
    "go": lambda c: "dq = make(chan int64)\ngo func() {\n%s\n dq <- 1\n}()\n<-dq" % ind(c),
}
THREADS = {"go": 1}


def wrap(wn, core):
    """-> (prelude run first by a plain Execute, source of the cancellable run)"""
    w = WRAPS[wn](core)
    return w if isinstance(w, tuple) else ("", w)


def programs(ctx):
    rng = random.Random(ctx.seed)
    out = []
    for cn, (core, th) in CORES.items():
        out.append({"id": "%s|bare" % cn, "src": core + "\np(99)", "pre": "", "threads": th})
        for wn in WRAPS:
            pre, src = wrap(wn, core)
            out.append({"id": "%s|%s" % (cn, wn), "src": src + "\np(99)", "pre": pre, "threads": th + THREADS.get(wn, 0)})
    # the wrapped core as the LAST thing the program does: nothing after it polls, the call itself must still report the interruption
    for cn in ("recv", "loop", "fib", "send"):
        core, th = CORES[cn]
        for wn in WRAPS:
            pre, src = wrap(wn, core)
            out.append({"id": "%s|%s|last" % (cn, wn), "src": src, "pre": pre, "threads": th + THREADS.get(wn, 0)})
    for nm, src in (("recv-nilco", "cq = make(chan int64)\nxq = (<-cq) ?? 1"), ("spin-fn-nilco", "func wq() {\n for {\n }\n}\nzq = wq() ?? 5"),
                    ("recv-fn-try", "func wq() {\n cq = make(chan int64)\n return <-cq\n}\ntry {\n wq()\n} catch e {\n}"), ("spin-fn-try-finally", "func wq() {\n for {\n }\n}\ntry {\n wq()\n} catch e {\n} finally {\n}"),
                    ("recv-nilco-in-fn", "func wq() {\n cq = make(chan int64)\n return (<-cq) ?? 1\n}\nwq()"), ("send-fn-nilco", "func wq() {\n cq = make(chan int64)\n cq <- 1\n}\nzq = wq() ?? 5")):
        out.append({"id": "%s|last" % nm, "src": src, "pre": "", "threads": 0})
    # a statement with several targets whose LATER target spins: the interruption of that target is the statement's outcome (nothing after it polls)
    spin = "func sq() {\n for {\n }\n return 0\n}\nmq = {}\nlq = [1, 2]\n"
    for nm, src in (("recvok-target", "cq = make(chan int64, 1)\ncq <- 1\nnv, mq[sq()] = <-cq"), ("recvok-target-closed", "cq = make(chan int64, 1)\nclose(cq)\nnv, mq[sq()] = <-cq"),
                    ("recvok-first-target", "cq = make(chan int64, 1)\ncq <- 1\nmq[sq()], okq = <-cq"), ("multi-target", "nv, mq[sq()] = 1, 2"), ("multi-target-first", "mq[sq()], nv = 1, 2"),
                    ("mapok-target", "nv, mq[sq()] = mq[\"k\"]"), ("elem-target", "lq[sq()] = 5"), ("member-target-fn", "mq.k = sq()"), ("opassign-target", "lq[sq()] += 1"),
                    ("delete-key", "delete(mq, sq())"), ("close-arg", "close(sq())"), ("send-value", "cq = make(chan int64, 1)\ncq <- sq()"), ("var-target", "var av, bv = 1, sq()"),
                    ("throw-value", "throw sq()"), ("return-value", "return 1, sq()"), ("make-size", "make([]int64, sq())"), ("len-arg", "len(sq())"), ("in-right", "1 in sq()"), ("slice-bound", "lq[0:sq()]"),
                    ("tern-cond", "sq() ? 1 : 2"), ("switch-case", "switch 1 {\ncase sq():\n 1\n}"), ("if-cond", "if sq() {\n}"), ("forin-iterable", "for xq in sq() {\n}"), ("map-literal", "{\"a\": sq()}"),
                    ("list-literal", "[1, sq()]"), ("typed-literal", "[]int64{1, sq()}"), ("spread-arg", "p(sq()...)"), ("go-arg", "go p(sq())"), ("defer-arg", "defer p(sq())"), ("addr", "&sq()"), ("unary", "-sq()"), ("deref", "*sq()"),
                    ("module-body", "module zq {\n sq()\n}"), ("nilco-right", "nil ?? sq()"), ("incr-elem", "lq[sq()]++")):
        out.append({"id": "target-%s|last" % nm, "src": spin + src, "pre": "", "threads": 0})
        out.append({"id": "target-%s|try-last" % nm, "src": spin + "try {\n%s\n} catch e {\n p(50)\n}" % ind(src), "pre": "", "threads": 0})
    # constructs that an EARLIER run (plain Execute, background context) has already evaluated once without waiting -- whatever the interpreter
    # remembers per tree node from that run -- and in which the cancellable run then spins or blocks
    rerun = [("recv", "func xr(ch) {\n return <-ch\n}\nc0 = make(chan int64, 1)\nc0 <- 1\nxr(c0)", "cq = make(chan int64)\np(1)\nxq = xr(cq)"),
             ("recv-stmt", "func xs(ch) {\n v, ok = <-ch\n return v\n}\nc0 = make(chan int64, 1)\nc0 <- 1\nxs(c0)", "cq = make(chan int64)\np(1)\nxq = xs(cq)"),
             ("recv-in-expr", "func xe(ch) {\n return (<-ch) + 1\n}\nc0 = make(chan int64, 1)\nc0 <- 1\nxe(c0)", "cq = make(chan int64)\np(1)\nxq = xe(cq) ?? 3"),
             ("send", "func xd(ch) {\n ch <- 1\n}\nc0 = make(chan int64, 1)\nxd(c0)", "cq = make(chan int64)\np(1)\nxd(cq)"),
             ("range", "func xg(ch) {\n for v in ch {\n  p(2)\n }\n}\nc0 = make(chan int64, 1)\nc0 <- 1\nclose(c0)\nxg(c0)", "cq = make(chan int64)\np(1)\nxg(cq)"),
             ("relay", "func xy(a, b) {\n a <- b\n}\nc0 = make(chan int64, 1)\nc1 = make(chan int64, 1)\nc1 <- 1\nxy(c0, c1)", "cq = make(chan int64)\ndq = make(chan int64)\np(1)\nxy(cq, dq)"),
             ("cfor", "func xl(n) {\n for i = 0; i < n || n < 0; i++ {\n  p(1)\n }\n}\nxl(2)", "xl(-1)"),
             ("while", "func xw(n) {\n k = 0\n for n < 0 || k < n {\n  k++\n  p(1)\n }\n}\nxw(2)", "xw(-1)"),
             ("recursion", "func xc(n) {\n p(1)\n if n == 0 {\n  return 0\n }\n return xc(n - 1) + 1\n}\nxc(3)", "xc(-1)"),
             ("fib-return-only", "func xf(n) {\n return n < 2 ? n : xf(n - 1) + xf(n - 2)\n}\nxf(5)", "xf(60)")]
    for nm, pre, src in rerun:
        out.append({"id": "rerun-%s|bare" % nm, "src": src + "\np(99)", "pre": pre, "threads": 0})
        out.append({"id": "rerun-%s|last" % nm, "src": src, "pre": pre, "threads": 0})
        for wn in ("try", "fn5", "nilco", "defer", "go"):
            _, wsrc = wrap(wn, src)
            out.append({"id": "rerun-%s|%s" % (nm, wn), "src": wsrc + "\np(99)", "pre": pre, "threads": THREADS.get(wn, 0)})
    # the process is crowded: ANOTHER run, never cancelled, keeps thousands of script goroutines alive while the cancelled run starts goroutines of its own
    for nm, src in (("go-then-spin", "go func() {\n}()\nfor {\n p(1)\n}"), ("go-loop", "for {\n go func() {\n }()\n p(1)\n}"), ("go-in-fn", "func sg() {\n go func() {\n }()\n}\nfor {\n sg()\n p(1)\n}"),
                    ("go-spread", "func tg(a, b) {\n}\nfor {\n go tg([1, 2]...)\n p(1)\n}"), ("chan-make-loop", "for {\n cq = make(chan int64, 1)\n cq <- 1\n p(<-cq)\n}")):
        out.append({"id": "crowded-%s|bare" % nm, "src": src, "pre": "", "threads": 1, "crowd": 6000 if ctx.quick() else 20000})
    # the cancellation arrives when the recursion is very deep: unwinding is part of the bounded time
    for nm, src, ms in (("deep-recursion", "func dr(n) {\n return dr(n + 1) + 1\n}\ndr(0)", 550), ("deep-recursion-try", "func dt(n) {\n try {\n  return dt(n + 1) + 1\n } catch e {\n  throw e\n }\n}\ndt(0)", 200),
                        ("deep-mutual", "func da(n) {\n return db(n + 1)\n}\nfunc db(n) {\n return da(n + 1)\n}\nda(0)", 550)):
        out.append({"id": "%s|late" % nm, "src": src, "pre": "", "threads": 0, "delay_ms": ms})
    pairs = [(a, b) for a in WRAPS for b in WRAPS if not b.startswith("xfn")]
    rng.shuffle(pairs)
    npairs = 40 if ctx.quick() else 160
    cores = list(CORES.items())
    for i, (a, b) in enumerate(pairs[:npairs]):
        for cn, (core, th) in (cores if not ctx.quick() else [cores[i % len(cores)], cores[(i * 7 + 3) % len(cores)]]):
            def ren(s, tag):      # helper names must differ when a wrapper is used twice
                for nm in ("w0", "w1", "w4", "w5", "wv", "wr", "wt", "wl", "wd", "mw", "iw", "dq", "zq", "yq"):
                    s = s.replace(nm, nm + tag)
                return s
            inner = ren(WRAPS[b](core), "i")
            pre, src = wrap(a, inner)
            out.append({"id": "%s|%s|%s" % (cn, a, b), "src": src + "\np(99)", "pre": pre, "threads": th + THREADS.get(a, 0) + THREADS.get(b, 0)})
    # several calls under ONE context contend for one buffered channel of the host, which serves them for a moment and then stops:
    # every call ends up blocked in its send / receive, and every call must return once the context is cancelled
    out.append({"id": "shared-send|x16", "src": "for {\n cq <- 1\n}", "pre": "", "threads": 0, "copies": 16, "feed": "drain"})
    out.append({"id": "shared-recv|x16", "src": "for {\n xq = <-cq\n}", "pre": "", "threads": 0, "copies": 16, "feed": "fill"})
    out.append({"id": "shared-send-fn|x16", "src": "func snd(v) {\n cq <- v\n}\nfor {\n snd(1)\n}", "pre": "", "threads": 0, "copies": 16, "feed": "drain"})
    out.append({"id": "shared-range|x16", "src": "for vq in cq {\n xq = vq\n}", "pre": "", "threads": 0, "copies": 16, "feed": "fill"})
    return out


def run(ctx):
    binp = vlib.build_harness(ctx, "cancelharness")
    ctx.assumptions += ["time inside one single host Go call (incl. script callbacks made by it, e.g. sort.Slice comparators) is outside the bound, as the statement says",
                        "instants are exact at gate granularity (the hooks); one externally timed cancellation per program samples the rest",
                        "a script goroutine other than the one that observes may complete one effect that was in flight"]
    for c, exp in (("code", None), ("neg_NoResumePoll", ("NoSwallow", "Interrupted", "temporal")), ("neg_DeferDrops", ("ResultIsInterrupt",))):
        r = vlib.run_tlc(ctx, "MC_AnkoCancel", "MC_AnkoCancel_%s.cfg" % c, workers=4, timeout=900, want_lines=False)
        if exp is None:
            vlib.tlc_ok(ctx, r, "MC_AnkoCancel")
        else:
            vlib.tlc_must_fail(ctx, r, "wrong design %s must be refuted" % c[4:], expect=exp)
    # the same two safety properties for EVERY set of wrapper stacks (any depth): an inductive invariant checked by the TLA+ proof system
    ok, nobl, nfail, tail = vlib.run_tlapm(ctx, "AnkoCancelProofs")
    ctx.cov["tlaps"] = {"module": "AnkoCancelProofs", "obligations": nobl, "failed": nfail}
    if not ok:
        raise Broken("the proof of NoSwallow / ResultIsInterrupt for stacks of any depth no longer checks:\n" + tail)
    if not ctx.quick():
        ok2, _, nfail2, _ = vlib.run_tlapm(ctx, "AnkoCancelProofs", subst=('Variant = "code"', 'Variant = "DeferDrops"'))
        ctx.cov["controls"].append({"control": "the proof must fail for the wrong design DeferDrops", "detected": not ok2})
        if ok2:
            raise Broken("the proof also goes through for the wrong design DeferDrops: it proves nothing")
    progs = programs(ctx)
    maxgate = 14 if ctx.quick() else 30
    n = 12
    def shard(k):
        part = [p for i, p in enumerate(progs) if i % n == k]
        pp = os.path.join(ctx.work, "cprogs_%d.ndjson" % k)
        op = os.path.join(ctx.work, "cobs_%d.ndjson" % k)
        vlib.write_ndjson(pp, part)
        p = vlib.run_cmd(ctx, [binp, pp, op, str(maxgate)], timeout=900, ok_codes=None)
        obs = vlib.read_ndjson(op) if os.path.exists(op) else []
        return obs, p.returncode, p.stderr[-2000:]
    with concurrent.futures.ThreadPoolExecutor(max_workers=n) as ex:
        parts = list(ex.map(shard, range(n)))
    obs = []
    for o, rc, err in parts:
        obs += o
        if rc != 0:
            last = o[-1]["id"] if o else "?"
            vlib.violation(ctx, "the process running cancelled scripts died (rc=%d) after %s: %s" % (rc, last, err[:300]), {"kind": "cancel-death", "after": last, "stderr": err})
    byid = {p["id"]: p for p in progs}
    pre = [o for o in obs if (o.get("err") or "").startswith("PRELUDE:")]
    if pre:
        raise Broken("prelude of %s failed: %s" % (pre[0]["id"], pre[0]["err"]))
    for o in obs:
        o["latency_whole_ms"] = int(o["latency_ms"]) if o["returned"] else 10**6
    op = os.path.join(ctx.work, "cancel_obs.ndjson")
    keys = ("id", "gate", "delivered", "returned", "latency_whole_ms", "err_ok", "late_effects", "allowed_late")
    vlib.write_ndjson(op, [{k: o[k] for k in keys} for o in obs])
    rej, total, r = vlib.validate_lines(ctx, "Trace_AnkoCancel", "Trace_AnkoCancel.cfg", [op])
    delivered = [o for o in obs if o["delivered"]]
    ctx.cov["evaluations"] += total
    ctx.cov["distinct_nontrivial"] += len(delivered)
    ctx.cov["traces_validated_against_impl"] += total - len(rej)
    ctx.cov["programs"] = len(progs)
    ctx.cov["cancellations_delivered"] = len(delivered)
    ctx.cov["gate_kinds"] = {k: sum(1 for o in delivered if o["gate_kind"].startswith(k)) for k in ("StmtEnter", "Poll:loop", "Poll:chan", "FuncEnter", "external")}
    lat = sorted(o["latency_ms"] for o in delivered if o["returned"])
    if lat:
        ctx.cov["latency_ms"] = {"median": lat[len(lat) // 2], "max": lat[-1]}
    d = [o for o in delivered if o["gate"] == 5][:1]
    if d:
        ctx.sample({"program": byid[d[0]["id"]]["src"], "observation": d[0]})
    seen = set()
    for ln in rej:
        o = obs[ln - 1]
        key = (o["id"], "hang" if not o["returned"] else ("err" if not o["err_ok"] else "late"))
        if key in seen or len(seen) > 25:
            continue
        seen.add(key)
        what = "did not return within 5 s" if not o["returned"] else ("returned %r instead of the interrupt error" % o["err"] if not o["err_ok"] else "%d script effects after the cancellation was observable (allowed %d)" % (o["late_effects"], o["allowed_late"]))
        vlib.violation(ctx, "cancellation at gate %d (%s) of %s: %s\n%s" % (o["gate"], o["gate_kind"], o["id"], what, byid[o["id"]]["src"]),
                       {"kind": "cancel", "program": byid[o["id"]], "obs": o, "what": what})
    if not ctx.violations:
        bad = dict(delivered[0]); bad["err_ok"] = False
        vlib.write_ndjson(op, [{k: bad[k] for k in keys}])
        rej, total, r = vlib.validate_lines(ctx, "Trace_AnkoCancel", "Trace_AnkoCancel.cfg", [op])
        ok = rej == [1]
        ctx.cov["controls"].append({"control": "observation with a non-interrupt error must be rejected", "detected": ok})
        if not ok:
            raise Broken("corruption control failed")
    return vlib.finish(ctx, RULE, exhaustive=True)


def replay(ctx, path):
    binp = vlib.build_harness(ctx, "cancelharness")
    p = json.load(open(path))
    if p["kind"] != "cancel":
        print("re-run bin/check C02")
        return 2
    pp = os.path.join(ctx.work, "one.ndjson")
    op = os.path.join(ctx.work, "one_obs.ndjson")
    vlib.write_ndjson(pp, [p["program"]])
    vlib.run_cmd(ctx, [binp, pp, op, str(max(p["obs"]["gate"], 0))], ok_codes=None)
    obs = [o for o in vlib.read_ndjson(op) if o["gate"] == p["obs"]["gate"]]
    print(json.dumps(obs))
    bad = any(o["delivered"] and (not o["returned"] or not o["err_ok"] or o["late_effects"] > o["allowed_late"]) for o in obs)
    if bad:
        print("VIOLATION property=%s replay=%s" % (ctx.id, path))
    return 1 if bad else 0
