"""C04 -- names follow lexical block scope; closures capture their defining scope (spec/AnkoSem.tla)."""
import os
import vlib, corecheck, progs, frames

LEVEL = "model_checking"
RULE = ("All nestings to depth D of 14 block kinds (if/else/else-if, for-in, C-for, while, switch case/default, try/catch/finally, function, anonymous "
        "call, module) x pre/inner/outer action on a name (none, plain assignment, var) x exit path (normal, break, continue, return, thrown-and-caught), "
        "with reads of the names after every block; closure/recursion/module templates; seeded random programs. Expected values of every read and the "
        "final top-level bindings come from AnkoSem evaluated by TLC; the real parser/VM must agree. distinct_nontrivial = distinct programs with a "
        "definite expected outcome and >= 2 probe effects.")


def run(ctx):
    binp = vlib.build_harness(ctx, "vmharness")
    trace = os.path.join(ctx.work, "hook_trace.ndjson")
    ctx.assumptions += ["per-loop (not per-iteration) scope and the try/catch/finally shared scope follow the code where the statement leaves them open",
                        "a module reading an outer name through member syntax is left open"]
    fams = [("c04-nest", progs.fam_c04(2)), ("c04-closures", progs.fam_closures()), ("c04-delete", progs.fam_c04_delete()), ("c04-ext", progs.fam_c04_ext()),
            ("c04-rand", progs.rand_programs(ctx.seed + 7, 400 if ctx.quick() else 6000, maxdepth=4 if ctx.quick() else 5)),
            ("c04-rand2", progs.rand2_programs(ctx.seed + 107, 400 if ctx.quick() else 6000))]
    if not ctx.quick():
        fams.append(("c04-nest3", progs.fam_c04_deep(ctx.seed, 20000)))
    for tag, fam in fams:
        corecheck.run_family(ctx, binp, fam, tag, env=({"VERIF_TRACE": trace} if tag != "c04-nest" or not ctx.quick() else None))
    # code -> spec: the hook traces of all those runs, and of the repository's own vm tests, against the frame machine
    rt, _ = frames.repo_test_trace(ctx)
    frames.check(ctx, "C04", [("families", trace), ("repo-vm-tests", rt)], 60000 if ctx.quick() else 600000)
    return vlib.finish(ctx, RULE, exhaustive=True)


def replay(ctx, path):
    return corecheck.replay_one(ctx, vlib.build_harness(ctx, "vmharness"), path)
