"""C04 -- names follow lexical block scope; closures capture their defining scope (spec/AnkoSem.tla)."""
import vlib, corecheck, progs

LEVEL = "model_checking"
RULE = ("All nestings to depth D of 14 block kinds (if/else/else-if, for-in, C-for, while, switch case/default, try/catch/finally, function, anonymous "
        "call, module) x pre/inner/outer action on a name (none, plain assignment, var) x exit path (normal, break, continue, return, thrown-and-caught), "
        "with reads of the names after every block; closure/recursion/module templates; seeded random programs. Expected values of every read and the "
        "final top-level bindings come from AnkoSem evaluated by TLC; the real parser/VM must agree. distinct_nontrivial = distinct programs with a "
        "definite expected outcome and >= 2 probe effects.")


def run(ctx):
    binp = vlib.build_harness(ctx, "vmharness")
    ctx.assumptions += ["per-loop (not per-iteration) scope and the try/catch/finally shared scope follow the code where the statement leaves them open",
                        "a module reading an outer name through member syntax is left open"]
    fams = [("c04-nest", progs.fam_c04(2)), ("c04-closures", progs.fam_closures()),
            ("c04-rand", progs.rand_programs(ctx.seed + 7, 400 if ctx.quick() else 6000, maxdepth=4 if ctx.quick() else 5))]
    if not ctx.quick():
        fams.append(("c04-nest3", progs.fam_c04_deep(ctx.seed, 20000)))
    for tag, fam in fams:
        corecheck.run_family(ctx, binp, fam, tag)
    return vlib.finish(ctx, RULE, exhaustive=True)


def replay(ctx, path):
    return corecheck.replay_one(ctx, vlib.build_harness(ctx, "vmharness"), path)
