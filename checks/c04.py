"""C04 -- names follow lexical block scope; closures capture their defining scope (spec/AnkoSem.tla)."""
import os
import vlib, corecheck, progs, frames

LEVEL = "model_checking"
RULE = ("All nestings to depth D of 14 block kinds (if/else/else-if, for-in, C-for, while, switch case/default, try/catch/finally, function, anonymous "
        "call, module) x pre/inner/outer action on a name (none, plain assignment, var) x exit path (normal, break, continue, return, thrown-and-caught), "
        "with reads of the names after every block; closure/recursion/module templates; seeded random programs. Expected values of every read and the "
        "final top-level bindings come from AnkoSem evaluated by TLC; the real parser/VM must agree. distinct_nontrivial = distinct programs with a "
        "definite expected outcome and >= 2 probe effects.")


def run(ctx):
    binp = vlib.build_harness(ctx, "vmharness")
    trace = os.path.join(ctx.work, "hook_trace.ndjson")
    ctx.assumptions += ["per-loop (not per-iteration) scope and the try/catch/finally shared scope follow the code where the statement leaves them open",
                        "a module reading an outer name through member syntax is left open"]
    fams = [("c04-nest", progs.fam_c04(2)), ("c04-closures", progs.fam_closures()), ("c04-delete", progs.fam_c04_delete(3 if ctx.quick() else 1)), ("c04-ext", progs.fam_c04_ext(29 if ctx.quick() else 5)), ("c04-hostnil", progs.fam_c04_hostnil()),
            ("c04-rand", progs.rand_programs(ctx.seed + 7, 400 if ctx.quick() else 6000, maxdepth=4 if ctx.quick() else 5)),
            ("c04-rand2", progs.rand2_programs(ctx.seed + 107, 400 if ctx.quick() else 6000))]
    if not ctx.quick():
        fams.append(("c04-nest3", progs.fam_c04_deep(ctx.seed, 20000)))
    for tag, fam in fams:
        corecheck.run_family(ctx, binp, fam, tag, env=({"VERIF_TRACE": trace} if tag != "c04-nest" or not ctx.quick() else None))
    reentrant(ctx)
    # code -> spec: the hook traces of all those runs, and of the repository's own vm tests, against the frame machine
    rt, _ = frames.repo_test_trace(ctx)
    frames.check(ctx, "C04", [("families", trace), ("repo-vm-tests", rt)], 60000 if ctx.quick() else 600000)
    return vlib.finish(ctx, RULE, exhaustive=True)


def reentrant(ctx):
    """Every invocation runs in a fresh scope also when invocations of ONE function value overlap in time: the stages of C16's pipelines
    (spec/AnkoChan.tla) are goroutines running the same script function -- taking its arguments on the direct path, with five parameters, or
    variadic -- each with its own channels and increment as parameters; a stage that saw another stage's parameters delivers wrong items or none."""
    import json
    binc = vlib.build_harness(ctx, "chanharness")
    cfgs = [{"ns": ns, "cap": cap, "items": [1, 2, 3], "expected": [v + 10 * ns for v in (1, 2, 3)], "mode": "range", "elem": "int64", "goargs": False, "shape": sh}
            for ns in (2, 3, 6) for cap in (0, 1) for sh in ("", "fn5", "fnvar", "fnvarspread", "fn4spread")]
    cfgs += [{"ns": w, "cap": 2, "items": list(range(1, 41)), "expected": [v + 10 for v in range(1, 41)], "mode": "range", "elem": "int64", "goargs": False, "shape": "fan"} for w in (3, 5)]
    cp = os.path.join(ctx.work, "reentrant.ndjson")
    vlib.write_ndjson(cp, cfgs)
    rk = os.path.join(ctx.work, "reentrant.json")
    vlib.run_cmd(ctx, [binc, "pipe", cp, rk, "20" if ctx.quick() else "200", str(ctx.seed)], timeout=1800)
    r = json.load(open(rk))
    ctx.cov["evaluations"] += r["runs"]
    ctx.cov["traces_validated_against_impl"] += r["runs"]
    ctx.cov["reentrant_invocations"] = {"configurations": len(cfgs), "runs": r["runs"]}
    for m in (r.get("mismatches") or [])[:6]:
        vlib.violation(ctx, "overlapping invocations of one function value %s: %s; expected %s, got %s" % (json.dumps(m["case"]), m["what"], m["expected"], m["got"]),
                       {"kind": "pipe", "case": m["case"], "src": m["src"], "expected": m["expected"], "got": m["got"], "what": m["what"]})


def replay(ctx, path):
    import json
    if json.load(open(path)).get("kind") == "pipe":
        import c16
        return c16.replay(ctx, path)
    return corecheck.replay_one(ctx, vlib.build_harness(ctx, "vmharness"), path)
