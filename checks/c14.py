"""C14 -- runs are isolated and repeatable; executing a tree never changes it."""
import json, os
import vlib, corecheck, progs, rawcorpus

LEVEL = "model_checking"
RULE = ("Every program of the language-core families (C04/C07/C08/C09 corpora evaluated by TLC on AnkoSem) and a raw-source corpus (++/--, pointers, "
        "typed makes, import, deferred/anonymous calls) is parsed ONCE; a structural digest of the tree (all fields incl. the reflect.Value slots of call and "
        "literal nodes) is taken; the tree is run 2x sequentially and 4-8x concurrently on fresh environments; after each phase the digest must be unchanged, "
        "every run must equal run 1 (value, error, probe log, top-level bindings) and run 1 must equal the solo outcome AnkoSem demands; the package tables must "
        "be unchanged. The same under the race detector. distinct_nontrivial = distinct programs with >= 2 probe effects.")


def raw_cases(ctx, binp, tag, nconc, env=None):
    cases = os.path.join(ctx.work, "raw_cases.ndjson")
    vlib.write_ndjson(cases, rawcorpus.cases())
    res = os.path.join(ctx.work, "raw_%s.json" % tag)
    s, info = corecheck.run_cases(ctx, binp, cases, res, nconc, env=env)
    if info:
        corecheck.died(ctx, binp, cases, res, nconc, info, env=env)
        return
    ctx.cov["evaluations"] += s["cases"]
    ctx.cov["distinct_nontrivial"] += s["cases"]
    ctx.cov.setdefault("real_runs", 0)
    ctx.cov["real_runs"] += s["runs"]
    ctx.cov.setdefault("families", {})["raw-" + tag] = {"programs": s["cases"], "mismatches": s["n_mismatch"]}
    byid = {c["id"]: c for c in rawcorpus.cases()}
    for m in s["mismatches"]:
        if m["kind"] == "machinery":
            raise vlib.Broken("raw corpus script does not parse: %s %s" % (m["id"], m["what"]))
        if m["kind"] != "isolation":
            continue
        payload = {"kind": "isolation", "id": m["id"], "source": m["src"], "src": byid.get(m["id"], {}).get("src", ""), "what_differs": m["what"], "expected": m.get("exp"), "observed": m.get("got")}
        vlib.violation(ctx, "isolation: %s on %s:\n%s" % (m["what"], m["id"], m["src"][:400]), payload)


def run(ctx):
    binp = vlib.build_harness(ctx, "vmharness")
    binr = vlib.build_harness(ctx, "vmharness", race=True)
    ctx.assumptions += ["map iteration order excepted", "the race detector only sees the interleavings that occur", "digest = generic reflection over every field of every node"]
    q = ctx.quick()
    fams = [("c14-c08", progs.fam_c08(2)), ("c14-c09", progs.fam_c09()), ("c14-c07", progs.fam_c07()), ("c14-clo", progs.fam_closures()),
            ("c14-rand", progs.rand_programs(ctx.seed + 31, 400 if q else 5000)), ("c14-rand2", progs.rand2_programs(ctx.seed + 131, 300 if q else 4000))]
    if not q:
        fams.append(("c14-c04", progs.fam_c04(2)))
    for tag, fam in fams:
        corecheck.run_family(ctx, binp, fam, tag, kinds=("isolation", "semantic", "panic"), nconc=4 if q else 8, env={"VERIF_TREECHECK": "off"})
    raw_cases(ctx, binp, "plain", 8)
    # race detector: subset of the families + raw corpus
    renv = {"GORACE": "exitcode=66 halt_on_error=1"}
    rfam = progs.fam_c09() + progs.fam_closures() + progs.rand_programs(ctx.seed + 37, 150 if q else 2000)
    exps = corecheck.evaluate(ctx, rfam)
    cases = os.path.join(ctx.work, "race_cases.ndjson")
    with open(cases, "w") as f:
        for p in rfam:
            if exps[p["id"]]["cls"] != "fuel":
                f.write(json.dumps({"id": p["id"], "prog": p["prog"], "unordered": bool(p.get("unordered"))}) + "\n")
        for c in rawcorpus.cases():
            f.write(json.dumps(c) + "\n")
    res = os.path.join(ctx.work, "race_res.json")
    p = vlib.run_cmd(ctx, [binr, "run", cases, res, "8"], env=renv, ok_codes=None, timeout=1800)
    if p.returncode == 66 or "WARNING: DATA RACE" in p.stderr:
        vlib.violation(ctx, "data race between concurrent runs of one shared tree on separate environments", {"kind": "race", "report": p.stderr[:6000]})
    elif p.returncode != 0:
        raise vlib.Broken("race build of vmharness failed rc=%d %s" % (p.returncode, p.stderr[-2000:]))
    else:
        s = json.load(open(res))
        ctx.cov["race_detector_runs"] = s["runs"]
        for m in (s.get("mismatches") or []):
            if m["kind"] == "isolation":
                vlib.violation(ctx, "isolation (race build): %s on %s" % (m["what"], m["id"]), {"kind": "isolation", "id": m["id"], "source": m["src"], "what_differs": m["what"]})
    return vlib.finish(ctx, RULE, exhaustive=True)


def replay(ctx, path):
    binp = vlib.build_harness(ctx, "vmharness")
    p = json.load(open(path))
    if p.get("prog"):
        return corecheck.replay_one(ctx, binp, path, nconc=8)
    if p.get("kind") == "process-death":
        cases = os.path.join(ctx.work, "pd.ndjson")
        vlib.write_ndjson(cases, p["cases"])
        s, info = corecheck.run_cases(ctx, binp, cases, os.path.join(ctx.work, "pd.json"), p.get("nconc", 8))
        if info:
            print("process died again during", info["id"])
            print("VIOLATION property=%s replay=%s" % (ctx.id, path))
            return 1
        return 0
    if p.get("kind") == "race":
        print("race reports are re-obtained by re-running bin/check C14")
        return 2
    cases = os.path.join(ctx.work, "one.ndjson")
    one = {"id": p["id"], "src": p.get("src") or p["source"]}
    for c in rawcorpus.cases():
        if c["id"] == p["id"]:
            for k in ("variants", "pair"):
                if c.get(k):
                    one[k] = c[k]
            one["src"] = c["src"]
    vlib.write_ndjson(cases, [one])
    res = os.path.join(ctx.work, "one.json")
    vlib.run_cmd(ctx, [binp, "run", cases, res, "8"])
    s = json.load(open(res))
    bad = any(m["kind"] == "isolation" for m in (s.get("mismatches") or []))
    if bad:
        print("VIOLATION property=%s replay=%s" % (ctx.id, path))
    return 1 if bad else 0
