"""C08 -- branches, loops, break/continue/return do what their syntax says (spec/AnkoSem.tla)."""
import os
import vlib, corecheck, progs, frames

LEVEL = "model_checking"
RULE = ("Every program of the bounded family (all nestings to depth D of 13 control wrappers x 8 control leaves, truthiness pool, switch and for-in "
        "families) is evaluated by TLC on the reference semantics AnkoSem; the rendered source is parsed by the real parser (tree re-encoded and "
        "compared), run on the real VM, and result / probe log / top-level bindings compared. Seeded random programs (wider nesting) go the same way. "
        "distinct_nontrivial = distinct programs with a definite (not open) expected outcome and >= 2 probe effects.")


def families(ctx):
    d = 2 if ctx.quick() else 3
    fams = [("c08-nest", progs.fam_c08(d)), ("c08-truth", progs.fam_truth()), ("c08-switch", progs.fam_switch()), ("c08-forin", progs.fam_forin()),
            ("c08-rand", progs.rand_programs(ctx.seed, 400 if ctx.quick() else 6000)), ("c08-rand2", progs.rand2_programs(ctx.seed + 100, 400 if ctx.quick() else 6000))]
    return fams


def run(ctx):
    binp = vlib.build_harness(ctx, "vmharness")
    trace = os.path.join(ctx.work, "hook_trace.ndjson")
    ctx.assumptions += ["float conditions by spelling only (no float arithmetic in AnkoSem)", "value of a statement list without explicit return is not asserted",
                        "map iteration order not asserted (logs compared as multisets)", "finally on a control transfer is left open by the statement"]
    for tag, fam in families(ctx):
        corecheck.run_family(ctx, binp, fam, tag, env={"VERIF_TRACE": trace})
    # code -> spec: the hook traces of all those runs, and of the repository's own vm tests, against the frame machine
    rt, _ = frames.repo_test_trace(ctx)
    frames.check(ctx, "C08", [("families", trace), ("repo-vm-tests", rt)], 60000 if ctx.quick() else 600000)
    return vlib.finish(ctx, RULE, exhaustive=True)


def replay(ctx, path):
    return corecheck.replay_one(ctx, vlib.build_harness(ctx, "vmharness"), path)
