"""C17 -- the AST walker reaches every node of every parsed program (spec/AnkoWalker.tla)."""
import json, os, re, sys
import vlib, grammarcorpus, progs, rawcorpus
from vlib import Broken

LEVEL = "model_checking"
RULE = ("The walker machine (visit only after the parent, finish only when every node was presented, a callback error ends the walk at once) is model-checked on all "
        "trees up to 5 nodes. Conformance: every expression kind in every expression slot and every statement kind in every statement slot of the grammar (depth 2), "
        "plus the language-core corpora, are parsed by the real parser; all nodes are enumerated by generic reflection (with parents); astutil.Walk is recorded once "
        "without failure and with the callback failing at the first / middle / last call; TLC accepts each recorded walk iff it is a behaviour of the machine. "
        "distinct_nontrivial = recorded walks over trees with >= 3 nodes.")


def render_progs(ctx, fam):
    """render JSON programs with the Go renderer (via vmharness? no: a tiny dedicated mode) -- here: use the raw corpus and family sources from the harness"""
    return []


def run(ctx):
    binp = vlib.build_harness(ctx, "walkharness")
    ctx.assumptions += ["nodes = values implementing ast.Stmt/Expr/Operator reachable through exported fields (type descriptors *ast.TypeStruct are not nodes)",
                        "sibling order and extra synthetic nodes are not constrained"]
    r = vlib.run_tlc(ctx, "MC_AnkoWalker", "MC_AnkoWalker.cfg", workers=4, timeout=900, want_lines=False)
    vlib.tlc_ok(ctx, r, "MC_AnkoWalker")
    srcs = grammarcorpus.sources() + rawcorpus.cases()
    # programs whose trees are very deep or very long (chains of operators, calls, members, parentheses, blocks; long lists and statement lists): size decides nothing
    for n in (() if os.environ.get("C17_NODEEP") else ((600,) if ctx.quick() else (600, 1100))):
        srcs += [{"id": "deep|plus-%d" % n, "src": "x = a" + " + a" * n}, {"id": "deep|calls-%d" % n, "src": "b" + ".add(1)" * n}, {"id": "deep|parens-%d" % n, "src": "z = " + "(" * (2 * n) + "a" + ")" * (2 * n)},
                 {"id": "deep|ifs-%d" % n, "src": "if a {\n" * n + "f()\n" + "}\n" * n}]
        if not ctx.quick():
            srcs += [{"id": "deep|elseifs-%d" % n, "src": "if a {\n f()\n}" + " else if b {\n g()\n}" * n}, {"id": "deep|members-%d" % n, "src": "y = b" + ".m" * n}, {"id": "deep|index-%d" % n, "src": "w = a" + "[0]" * n}, {"id": "deep|unary-%d" % n, "src": "u = " + "!" * n + "a"},
                     {"id": "deep|funcs-%d" % n, "src": "func() {\n" * min(n, 700) + "f()\n" + "}()\n" * min(n, 700)}, {"id": "deep|list-%d" % n, "src": "l = [" + ", ".join(["a"] * n) + "]"},
                     {"id": "deep|stmts-%d" % n, "src": "f(a)\n" * n}, {"id": "deep|tern-%d" % n, "src": "t = " + "a ? b : " * n + "c"}, {"id": "deep|nested-list-%d" % n, "src": "n = " + "[" * n + "a" + "]" * n}]
    # language-core corpora rendered to source by the vm harness' renderer
    rend = vlib.build_harness(ctx, "render")
    fam = progs.fam_c09() + progs.fam_closures() + progs.fam_c07() + progs.rand_programs(ctx.seed, 150 if ctx.quick() else 3000)
    if ctx.quick():
        fam = fam[ctx.seed % 3::3]          # (the families are large and repetitive in node kinds: a third of them per quick run, chosen by the seed)
    pj = os.path.join(ctx.work, "fam.ndjson")
    vlib.write_ndjson(pj, [{"id": p["id"], "prog": p["prog"]} for p in fam])
    sj = os.path.join(ctx.work, "fam_src.ndjson")
    vlib.run_cmd(ctx, [rend, pj, sj])
    srcs += vlib.read_ndjson(sj)
    sp = os.path.join(ctx.work, "sources.ndjson")
    vlib.write_ndjson(sp, srcs)
    wp = os.path.join(ctx.work, "walks.ndjson")
    vlib.run_cmd(ctx, [binp, sp, wp], timeout=1800)
    walks = vlib.read_ndjson(wp)
    bysrc = {s["id"]: s["src"] for s in srcs}
    unparsed = [w for w in walks if w["err"] == "parse"]
    ctx.cov["skipped_out_of_subset"] += len(unparsed)
    if len(unparsed) > len(srcs) // 10:
        raise Broken("too many corpus sources do not parse: %s" % [(w["id"], w["errmsg"]) for w in unparsed[:5]])
    ctx.cov["unparsed_sources"] = [w["id"] for w in unparsed][:20]
    todo = [w for w in walks if w["err"] != "parse"]
    ctx.cov["evaluations"] += len(todo)
    ctx.cov["distinct_nontrivial"] += len({(w["id"], w["failat"]) for w in todo if len(w["par"]) >= 3})
    kinds = set()
    for w in todo:
        kinds.update(w["kinds"])
    ctx.cov["node_kinds_covered"] = sorted(kinds)
    w0 = [w for w in todo if w["failat"] == 0 and len(w["par"]) > 6][:1]
    if w0:
        ctx.sample({"id": w0[0]["id"], "source": bysrc.get(w0[0]["id"]), "node_kinds": w0[0]["kinds"], "parents": w0[0]["par"], "visits": w0[0]["visits"]})
    reported = set()
    clean = [{k: w[k] for k in ("id", "par", "visits", "failat", "err")} for w in todo]
    vlib.write_ndjson(wp, clean)
    rej, total, r = vlib.validate_lines(ctx, "Trace_AnkoWalker", "Trace_AnkoWalker.cfg", [wp])
    ctx.cov["traces_validated_against_impl"] += total - len(rej)
    for ln in rej:
        bad = todo[ln - 1]
        missing = sorted({bad["kinds"][i] for i in range(len(bad["par"])) if (i + 1) not in bad["visits"]}) if bad["failat"] == 0 else []
        key = "walk:%s:%s:%s" % (bad["err"], bad["errmsg"][:40], ",".join(missing))
        if key not in reported and len(reported) < 30:
            reported.add(key)
            vlib.violation(ctx, "recorded walk of %r rejected by AnkoWalker: failat=%d err=%s %s; nodes never presented: %s" % (bysrc.get(bad["id"].split("|nested")[0].split("|conc")[0], "")[:200] + (" (%s)" % bad["id"].rsplit("|", 1)[1] if "|nested" in bad["id"] or "|conc" in bad["id"] else ""), bad["failat"], bad["err"], bad["errmsg"], missing),
                           {"kind": "walk", "id": bad["id"], "src": bysrc.get(bad["id"]), "walk": bad, "finding_key": key})
    if not ctx.violations:
        # corruption control: drop one visit from a complete walk
        w = dict([x for x in walks if x["failat"] == 0 and len(x["visits"]) > 3][0])
        w["visits"] = w["visits"][:1] + w["visits"][2:]
        vlib.write_ndjson(wp, [{k: w[k] for k in ("id", "par", "visits", "failat", "err")}])
        rej, total, r = vlib.validate_lines(ctx, "Trace_AnkoWalker", "Trace_AnkoWalker.cfg", [wp])
        ok = rej == [1]
        ctx.cov["controls"].append({"control": "walk with one visit removed must be rejected", "detected": bool(ok)})
        if not ok:
            raise Broken("corruption control failed")
    return vlib.finish(ctx, RULE, exhaustive=True)


def replay(ctx, path):
    binp = vlib.build_harness(ctx, "walkharness")
    p = json.load(open(path))
    sp = os.path.join(ctx.work, "sources.ndjson")
    vlib.write_ndjson(sp, [{"id": p["id"], "src": p["src"]}])
    wp = os.path.join(ctx.work, "walks.ndjson")
    vlib.run_cmd(ctx, [binp, sp, wp])
    walks = [w for w in vlib.read_ndjson(wp)]
    vlib.write_ndjson(wp, [{k: w[k] for k in ("id", "par", "visits", "failat", "err")} for w in walks])
    rej, total, r = vlib.validate_lines(ctx, "Trace_AnkoWalker", "Trace_AnkoWalker.cfg", [wp])
    bad = bool(rej)
    if bad:
        print("VIOLATION property=%s replay=%s" % (ctx.id, path))
    return 1 if bad else 0
