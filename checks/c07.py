"""C07 -- operands are evaluated exactly once, left to right; skipped operands never run (spec/AnkoSem.tla)."""
import vlib, corecheck, progs

LEVEL = "model_checking"
RULE = ("Every operand-bearing form (script functions with 0..6 parameters through the named, anonymous and deferred call paths, variadic and spread calls, "
        "fixed and variadic Go functions, list/map literals, binary operators, index, return lists, multi-assignment, &&, ||, ?:, ??) with probe calls as "
        "operands and, for each operand position, a variant in which that operand fails. The expected ordered probe log comes from AnkoSem via TLC. "
        "distinct_nontrivial = distinct programs with a definite expected outcome and >= 2 probe effects.")


def run(ctx):
    binp = vlib.build_harness(ctx, "vmharness")
    ctx.assumptions += ["whether operands run at all when a call is rejected for its argument count is left open (only 'never twice' is asserted there)",
                        "go statements are checked for evaluation order under C16"]
    fams = [("c07-forms", progs.fam_c07()), ("c07-rand", progs.rand_programs(ctx.seed + 21, 300 if ctx.quick() else 5000)), ("c07-rand2", progs.rand2_programs(ctx.seed + 121, 400 if ctx.quick() else 6000))]
    for tag, fam in fams:
        corecheck.run_family(ctx, binp, fam, tag)
    return vlib.finish(ctx, RULE, exhaustive=True)


def replay(ctx, path):
    return corecheck.replay_one(ctx, vlib.build_harness(ctx, "vmharness"), path)
