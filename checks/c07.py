"""C07 -- operands are evaluated exactly once, left to right; skipped operands never run (spec/AnkoSem.tla)."""
import json, os
import vlib, corecheck, progs

LEVEL = "model_checking"
RULE = ("Every operand-bearing form (script functions with 0..6 parameters through the named, anonymous and deferred call paths, variadic and spread calls, "
        "fixed and variadic Go functions, list/map literals, binary operators, index, return lists, multi-assignment, &&, ||, ?:, ??) with probe calls as "
        "operands and, for each operand position, a variant in which that operand fails. The expected ordered probe log comes from AnkoSem via TLC. "
        "distinct_nontrivial = distinct programs with a definite expected outcome and >= 2 probe effects.")


def run(ctx):
    binp = vlib.build_harness(ctx, "vmharness")
    ctx.assumptions += ["whether operands run at all when a call is rejected for its argument count is left open (only 'never twice' is asserted there)",
                        "go statements: the pipeline programs of C16 (spec/AnkoChan.tla) whose go calls take probe calls as operands, on every call path"]
    fams = [("c07-forms", progs.fam_c07()), ("c07-rand", progs.rand_programs(ctx.seed + 21, 300 if ctx.quick() else 5000)), ("c07-rand2", progs.rand2_programs(ctx.seed + 121, 400 if ctx.quick() else 6000))]
    for tag, fam in fams:
        corecheck.run_family(ctx, binp, fam, tag)
    go_forms(ctx)
    return vlib.finish(ctx, RULE, exhaustive=True)


def go_forms(ctx):
    """go f(operands): evaluated exactly once, by the go statement, in source order, before the statement after it -- on the direct call path
    (<= 4 parameters) and on the reflect path (5 parameters, variadic).  The programs are C16's pipelines with probe operands."""
    binc = vlib.build_harness(ctx, "chanharness")
    cfgs = [{"ns": ns, "cap": cap, "items": [1, 2], "expected": [1 + 10 * ns, 2 + 10 * ns], "mode": "range", "elem": "int64", "goargs": True, "shape": sh}
            for ns in (1, 2, 3) for cap in (0, 1) for sh in ("", "fn5", "fnvar")]
    cp = os.path.join(ctx.work, "go_forms.ndjson")
    vlib.write_ndjson(cp, cfgs)
    rk = os.path.join(ctx.work, "go_forms.json")
    vlib.run_cmd(ctx, [binc, "pipe", cp, rk, "10" if ctx.quick() else "100", str(ctx.seed)], timeout=1800)
    r = json.load(open(rk))
    ctx.cov["evaluations"] += r["runs"]
    ctx.cov["distinct_nontrivial"] += len(cfgs)
    ctx.cov["traces_validated_against_impl"] += r["runs"]
    ctx.cov["go_forms"] = {"configurations": len(cfgs), "runs": r["runs"]}
    for m in (r.get("mismatches") or [])[:6]:
        vlib.violation(ctx, "go call %s: %s; expected %s, got %s" % (json.dumps(m["case"]), m["what"], m["expected"], m["got"]),
                       {"kind": "pipe", "case": m["case"], "src": m["src"], "expected": m["expected"], "got": m["got"], "what": m["what"]})


def replay(ctx, path):
    if json.load(open(path)).get("kind") == "pipe":
        import c16
        return c16.replay(ctx, path)
    return corecheck.replay_one(ctx, vlib.build_harness(ctx, "vmharness"), path)
