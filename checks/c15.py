"""C15 -- parsing is total, position-accurate and compositional (spec/AnkoLexer.tla, Trace_AnkoParse.tla)."""
import base64, json, os, random, itertools, concurrent.futures
import vlib, grammarcorpus, rawcorpus, progs
from vlib import Broken

LEVEL = "model_checking"
RULE = ("AnkoLexer (the scanner with its offset/lineHead/line bookkeeping over character classes) is checked by TLC against the declarative bookkeeping for every "
        "string of the bounded alphabets; every emitted token stream (kind, position, scanner state after each token, error or not) is replayed through the real "
        "Scanner.Scan. ParseSrc is then run on those strings as text, on the grammar corpus, on mutations (every truncation, deletions), random bytes and deep "
        "nestings, under a watchdog, twice and from 6 goroutines; TLC validates each observation (no panic/timeout, *parser.Error with line/column inside the input, "
        "identical results) and every ordered pair of a pool of valid programs is checked for composition with newline (positions shifted). "
        "distinct_nontrivial = distinct inputs of length >= 2.")

ALL = ["a", "e", "x", "1", "0", "q", "t", "k", "n", "s", "h", "/", "*", "=", "<", "-", ".", "+", "(", "$"]
RUNE = {"a": "a", "e": "e", "x": "x", "1": "7", "0": "0", "q": '"', "t": "`", "k": "\\", "n": "\n", "s": " ", "h": "#", "/": "/", "*": "*", "=": "=", "<": "<", "-": "-", ".": ".", "+": "+", "(": "(", "$": "$"}


def lexer_shards(ctx):
    q = ctx.quick()
    def cfg(name, alpha, lo, hi):
        return name, "SPECIFICATION Spec\nCONSTANTS\n  Alphabet = {%s}\n  MinLen = %d\n  MaxLen = %d\nCHECK_DEADLOCK FALSE\n" % (", ".join('"%s"' % a for a in alpha), lo, hi)
    sh = [cfg("all3", ALL, 0, 3), cfg("all4", ALL, 4, 4),
          cfg("strings", ["q", "t", "k", "n", "a", "s"], 4, 6 if q else 7),          # (bounds fitted so that one set of strings stays below TLC's 10^6 limit)
          cfg("comments", ["/", "*", "n", "a", "h", "s"], 4, 6 if q else 7),
          cfg("ops", ["=", "s", "<", "-", "a", "n", "."], 4, 6),
          cfg("numbers", ["1", "0", "x", "e", ".", "-", "a", "+"], 4, 5 if q else 6)]
    if not q:
        sh.append(cfg("all5a", ALL[:10] + ["=", "<", "-"], 5, 5))
        sh.append(cfg("all5b", ALL[8:], 5, 5))
    return sh


def lexer_part(ctx, binp):
    d = os.path.join(ctx.work, "cfg")
    os.makedirs(d, exist_ok=True)
    shards = lexer_shards(ctx)
    def one(s):
        name, text = s
        fn = "MC_AnkoLexer_%s.cfg" % name
        open(os.path.join(d, fn), "w").write(text)
        r = vlib.run_tlc(ctx, "MC_AnkoLexer", fn, workers=3, timeout=3000, want_lines=False, xss="256m", cfg_dir=d)
        return name, r
    with concurrent.futures.ThreadPoolExecutor(max_workers=6) as ex:
        results = list(ex.map(one, shards))
    for name, r in results:
        vlib.tlc_ok(ctx, r, "MC_AnkoLexer " + name)
        res = os.path.join(r.dir, "lex.json")
        p = vlib.run_cmd(ctx, [binp, os.path.join(r.dir, "tlc.out"), res], timeout=1800)
        s = json.load(open(res))
        os.remove(os.path.join(r.dir, "tlc.out"))
        ctx.cov["evaluations"] += s["cases"]
        ctx.cov["distinct_nontrivial"] += s["cases"]
        ctx.cov["traces_validated_against_impl"] += s["cases"]
        ctx.cov.setdefault("lexer_families", {})[name] = {"strings": s["cases"], "tokens": s["tokens"], "mismatches": s["n_mismatch"]}
        for c in (s.get("samples") or [])[:1]:
            ctx.sample({"family": name, "classes": c["src"], "token_stream": c["ts"]})
        for m in (s.get("mismatches") or [])[:5]:
            vlib.violation(ctx, "Scanner.Scan disagrees with AnkoLexer on %r at token %d (%s): expected %s, got %s" % (m["src"], m["token"], m["what"], m["expected"], m["got"]),
                           {"kind": "lex", "src": m["src"], "mismatch": m})


MULTILINE = ["x = `a\nb\nc`\ny = 2", "/* c\n d\n*/ y = 1\nz = 3", "s = \"a\"\n/* one */ /* two\nthree */\nt = 1", "a = `\n`\nb = `\n\n`\nc = 1", "# only a comment", "", "\n\n", "x = 1 // c\n/**/\ny = 2",
             "f(1,\n2,\n3)", "m = {\n\"a\": 1,\n\"b\": 2,\n}", "l = [\n1,\n2,\n]", "if a {\n} else if b {\n} else {\n}"]


def sources(ctx, rend):
    rng = random.Random(ctx.seed)
    out = []
    valid = grammarcorpus.sources() + rawcorpus.cases() + [{"id": "ml-%d" % i, "src": s} for i, s in enumerate(MULTILINE)]
    fam = progs.fam_closures() + progs.fam_c09()[:40] + progs.rand_programs(ctx.seed + 3, 30 if ctx.quick() else 400)
    pj = os.path.join(ctx.work, "fam.ndjson")
    vlib.write_ndjson(pj, [{"id": p["id"], "prog": p["prog"]} for p in fam])
    sj = os.path.join(ctx.work, "fam_src.ndjson")
    vlib.run_cmd(ctx, [rend, pj, sj])
    valid += vlib.read_ndjson(sj)
    out += valid
    # every truncation and single deletions of a sample of valid sources
    base = [v for v in valid if 3 <= len(v["src"]) <= 200]
    rng.shuffle(base)
    for v in base[:(60 if ctx.quick() else 500)]:
        s = v["src"]
        for k in range(1, len(s)):
            out.append({"id": "%s|trunc%d" % (v["id"], k), "src": s[:k]})
        for k in rng.sample(range(len(s)), min(len(s), 6)):
            out.append({"id": "%s|del%d" % (v["id"], k), "src": s[:k] + s[k + 1:]})
            out.append({"id": "%s|dup%d" % (v["id"], k), "src": s[:k] + s[k] + s[k:]})
    # all short strings over the concrete lexer alphabet
    runes = [RUNE[c] for c in ALL] + ["λ", ")", "{", "}", "[", "]", ",", ":", "'", "!", "?", ">", "|", "&", "%", "^", ";"]
    for n in (1, 2):
        for t in itertools.product(runes, repeat=n):
            out.append({"id": "short|%s" % "".join(t).encode("unicode_escape").decode(), "src": "".join(t)})
    for i in range(6000 if ctx.quick() else 80000):
        n = rng.randrange(3, 9)
        out.append({"id": "rnd|%d" % i, "src": "".join(rng.choice(runes) for _ in range(n))})
    # arbitrary bytes (invalid UTF-8 included)
    for i in range(300 if ctx.quick() else 5000):
        raw = bytes(rng.randrange(256) for _ in range(rng.randrange(1, 24)))
        out.append({"id": "bytes|%d" % i, "src": "", "b64": base64.b64encode(raw).decode()})
    # unbalanced / deeply nested brackets, unterminated strings and comments
    for d in (10, 200, 3000):
        for o, c in (("(", ")"), ("[", "]"), ("{", "}")):
            out.append({"id": "deep|%s%d" % (o, d), "src": "x = " + o * d + "1" + c * d})
            out.append({"id": "deep-open|%s%d" % (o, d), "src": "x = " + o * d})
            out.append({"id": "deep-close|%s%d" % (o, d), "src": "x = 1" + c * d})
        out.append({"id": "deep|fn%d" % d, "src": "func(){" * min(d, 500) + "}" * min(d, 500)})
        out.append({"id": "deep|neg%d" % d, "src": "x = " + "-" * d + "1"})
    for s in ('"abc', "'abc", "`abc", "/* abc", "x = \"a\nb\"", "1e", "1e+", "0x", "0xg", "1.2.3", "1a", "a = = <-", "a = <", "a = ", "a =", "...", "..", "a.b.", "9223372036854775808", "1e999"):
        out.append({"id": "edge|%s" % s.encode("unicode_escape").decode(), "src": s})
    # errors the grammar's ACTIONS raise (not the LALR driver): a missing right side, too many targets for a channel receive, a second else --
    # behind every kind of first target / condition, on the first and on a later line
    firsts = ["a", "a[0]", "a[0:1]", "a[1:]", "a.b", "<- c", "<-c", "{}", "{\"k\": 1}", "[1]", "(a)", "*a", "a[0][1:2]", "f()", "f()[0:1]", "a ? b : c", "make(chan int64)", "x[0:1:2]", "1", "\"s\"", "nil"]
    for f1 in firsts:
        for lead in ("", "x = 1\n", "\n\n", "# c\n  "):
            tag = lead.encode("unicode_escape").decode()
            for form in ("%s, b =", "%s, b, c = <- ch", "%s =", "%s, b = ", "var %s, b =", "%s, b, c = <-ch, 1", "if %s { } else { } else { }", "if %s { } else if 1 { } else { } else { }", "%s, b +=", "%s++ =", "%s <- "):
                out.append({"id": "acterr|%s|%s|%s" % (f1, form, tag), "src": lead + form % f1})
    ids = set()
    uniq = []
    for o in out:
        if o["id"] not in ids:
            ids.add(o["id"])
            uniq.append(o)
    return uniq, [v["id"] for v in valid]


def run(ctx):
    binl = vlib.build_harness(ctx, "lexharness")
    binp = vlib.build_harness(ctx, "parseharness")
    rend = vlib.build_harness(ctx, "render")
    ctx.assumptions += ["the goyacc-generated LALR driver is exercised, not modelled", "keywords are not distinguished from identifiers in the scanner model; one representative rune per character class",
                        "whether a tree accompanies an error and the error text are not asserted"]
    lexer_part(ctx, binl)
    srcs, valid_ids = sources(ctx, rend)
    rng = random.Random(ctx.seed + 1)
    pool = valid_ids[:]
    rng.shuffle(pool)
    pool = pool[:(110 if ctx.quick() else 400)] + [i for i in valid_ids if i.startswith("ml-")]
    pairs = [{"A": a, "B": b} for a in pool for b in pool]
    # and every valid source once in front of and once behind a few fixed partners (what ends a text matters: a look-ahead token may be needed)
    partners = pool[:3]
    sample = valid_ids if not ctx.quick() else [v for i, v in enumerate(sorted(valid_ids)) if i % 2 == ctx.seed % 2]
    pairs += [{"A": a, "B": b} for a in sample for b in partners[:2]] + [{"A": a, "B": b} for b in sample for a in partners[2:3]]
    # texts whose validity is the implementation's business (a byte order mark, blank / comment-only edges, CR LF, a leading ';'): IF one parses on
    # its own it must also compose, in front of and behind ordinary programs
    cands = [("cand|bom", "\ufeffb = 2"), ("cand|bom-only", "\ufeff"), ("cand|bom-mid", "a = 1\ufeff"), ("cand|lead-nl", "\n\nb = 2"), ("cand|trail-nl", "b = 2\n\n"), ("cand|lead-sp", "   b = 2"),
             ("cand|crlf", "b = 2\r\nc = 3\r\n"), ("cand|cr", "b = 2\rc = 3"), ("cand|lead-semi", "; b = 2"), ("cand|trail-semi", "b = 2;"), ("cand|comment-only", "# only"),
             ("cand|lead-comment", "# c\nb = 2"), ("cand|trail-comment", "b = 2 # c"), ("cand|block-comment", "/* x */ b = 2 /* y */"), ("cand|tab", "\tb = 2\t"), ("cand|nbsp", "\u00a0b = 2"),
             ("cand|ff", "\x0cb = 2"), ("cand|zwsp", "\u200bb = 2"), ("cand|shebang", "#!/usr/bin/anko\nb = 2"), ("cand|empty", ""),
             # bytes a text may carry anywhere a comment or a string allows them: NUL, other control characters, DEL, invalid UTF-8 is Go's business (U+FFFD)
             ("cand|nul-in-comment", "b = 2 # c\x00d"), ("cand|nul-end-comment", "b = 2 # c\x00"), ("cand|nul-in-string", "b = \"x\x00y\""), ("cand|nul-in-raw", "b = `x\x00y`"),
             ("cand|nul-in-block-comment", "/* \x00 */ b = 2"), ("cand|nul-line-comment", "// \x00\nb = 2"), ("cand|nul-bare", "b = 2\x00"), ("cand|nul-lead", "\x00b = 2"), ("cand|ctrl-in-comment", "b = 2 # \x01\x7f\x1b"),
             ("cand|ctrl-in-string", "b = \"\x01\x7f\""), ("cand|del-bare", "b = 2\x7f")]
    srcs += [{"id": i, "src": t} for i, t in cands]
    pairs += [{"A": a, "B": c} for a in partners for c, _ in cands] + [{"A": c, "B": b} for b in partners for c, _ in cands] + [{"A": c, "B": d} for c, _ in cands[:6] for d, _ in cands[:6]]
    # shard over processes
    n = 12
    def shard(k):
        sp = os.path.join(ctx.work, "psrc_%d.ndjson" % k)
        pp = os.path.join(ctx.work, "ppairs_%d.ndjson" % k)
        op = os.path.join(ctx.work, "pobs_%d.ndjson" % k)
        mine = [s for i, s in enumerate(srcs) if i % n == k]
        have = {s["id"] for s in mine}
        mypairs = [p for i, p in enumerate(pairs) if i % n == k]
        need = {x for p in mypairs for x in (p["A"], p["B"])} - have
        byid = {s["id"]: s for s in srcs}
        extra = [dict(byid[i], id="pairsrc|" + i) for i in need]
        # sources needed only for pairs are given under their own id too, but their parse observations are dropped later
        vlib.write_ndjson(sp, mine + [byid[i] for i in need])
        vlib.write_ndjson(pp, mypairs)
        p = vlib.run_cmd(ctx, [binp, sp, pp, op], timeout=2400, ok_codes=None)
        if p.returncode != 0:
            return None, p.stderr[-3000:], k
        obs = vlib.read_ndjson(op)
        return [o for o in obs if o["kind"] == "compose" or o["id"] in have], None, k
    with concurrent.futures.ThreadPoolExecutor(max_workers=n) as ex:
        parts = list(ex.map(shard, range(n)))
    obs = []
    for part, err, k in parts:
        if part is None:
            vlib.violation(ctx, "the process hosting ParseSrc died (fatal error / stack overflow): %s" % err[:400], {"kind": "parse-death", "shard": k, "stderr": err})
            continue
        obs += part
    bysrc = {s["id"]: s for s in srcs}
    op = os.path.join(ctx.work, "parse_obs.ndjson")
    keys = ("kind", "id", "nlines", "linelens", "outcome", "errtype_ok", "line", "col", "repeat_same", "conc_same", "comp_ok")
    vlib.write_ndjson(op, [{k: o[k] for k in keys} for o in obs])
    rej, total, r = vlib.validate_lines(ctx, "Trace_AnkoParse", "Trace_AnkoParse.cfg", [op], timeout=3000)
    nparse = sum(1 for o in obs if o["kind"] == "parse")
    ctx.cov["evaluations"] += total
    ctx.cov["distinct_nontrivial"] += sum(1 for o in obs if o["kind"] == "compose") + sum(1 for o in obs if o["kind"] == "parse" and o["nlines"] >= 1 and sum(o["linelens"]) >= 2)
    ctx.cov["traces_validated_against_impl"] += total - len(rej)
    ctx.cov["parse_inputs"] = nparse
    ctx.cov["composition_pairs"] = total - nparse
    ctx.cov["parse_outcomes"] = {k: sum(1 for o in obs if o["kind"] == "parse" and o["outcome"] == k) for k in ("ok", "err", "panic", "timeout")}
    e = [o for o in obs if o["kind"] == "parse" and o["outcome"] == "err" and o["nlines"] > 1][:1]
    if e:
        ctx.sample({"input": bysrc[e[0]["id"]].get("src"), "observation": {k: e[0][k] for k in ("outcome", "line", "col", "nlines", "linelens")}})
    seen = set()
    for ln in rej:
        o = obs[ln - 1]
        what = "composition" if o["kind"] == "compose" else ("outcome=%s errtype_ok=%s pos=%d:%d of %d lines repeat=%s conc=%s" % (o["outcome"], o["errtype_ok"], o["line"], o["col"], o["nlines"], o["repeat_same"], o["conc_same"]))
        key = what if o["kind"] == "parse" else "compose:" + (o.get("detail") or "")[:60]
        if key in seen or len(seen) >= 20:
            continue
        seen.add(key)
        payload = {"kind": o["kind"], "id": o["id"], "obs": o}
        if o["kind"] == "parse":
            payload["source"] = bysrc[o["id"]]
        else:
            a, b = o["id"].split(" + ")
            payload["a"], payload["b"] = bysrc[a], bysrc[b]
        vlib.violation(ctx, "ParseSrc observation rejected (%s) for %s: %s" % (what, o["id"][:80], (o.get("detail") or "")[:300]), payload)
    if not ctx.violations:
        bad = dict([o for o in obs if o["kind"] == "parse" and o["outcome"] == "err"][0])
        bad["line"] = bad["nlines"] + 1
        vlib.write_ndjson(op, [{k: bad[k] for k in keys}])
        rej, total, r = vlib.validate_lines(ctx, "Trace_AnkoParse", "Trace_AnkoParse.cfg", [op])
        ok = rej == [1]
        ctx.cov["controls"].append({"control": "error position beyond the last line must be rejected", "detected": ok})
        if not ok:
            raise Broken("corruption control failed")
    return vlib.finish(ctx, RULE, exhaustive=True)


def replay(ctx, path):
    p = json.load(open(path))
    binp = vlib.build_harness(ctx, "parseharness")
    if p["kind"] == "parse":
        srcs, pairs = [p["source"]], []
    elif p["kind"] == "compose":
        srcs, pairs = [p["a"], p["b"]], [{"A": p["a"]["id"], "B": p["b"]["id"]}]
    else:
        print("re-run bin/check C15")
        return 2
    sp, pp, op = [os.path.join(ctx.work, x) for x in ("s.ndjson", "p.ndjson", "parse_obs.ndjson")]
    vlib.write_ndjson(sp, srcs)
    vlib.write_ndjson(pp, pairs)
    r = vlib.run_cmd(ctx, [binp, sp, pp, op], ok_codes=None)
    if r.returncode != 0:
        print("VIOLATION property=%s replay=%s" % (ctx.id, path))
        return 1
    obs = [o for o in vlib.read_ndjson(op) if o["kind"] == p["kind"]]
    keys = ("kind", "id", "nlines", "linelens", "outcome", "errtype_ok", "line", "col", "repeat_same", "conc_same", "comp_ok")
    vlib.write_ndjson(op, [{k: o[k] for k in keys} for o in obs])
    rej, total, _ = vlib.validate_lines(ctx, "Trace_AnkoParse", "Trace_AnkoParse.cfg", [op])
    if rej:
        print("VIOLATION property=%s replay=%s" % (ctx.id, path))
    return 1 if rej else 0
