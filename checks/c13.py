"""C13 -- an environment is safe to share between goroutines (spec/AnkoEnvConc.tla)."""
import json, os, re, glob, subprocess, concurrent.futures
import vlib
from vlib import Broken

LEVEL = "model_checking"
RULE = ("(a) TLC: AnkoEnvConc (each API call as the micro-program of RWMutex operations the code performs; Go semantics incl. pending writer "
        "blocking new readers) checked for Linearizable / LockDiscipline / deadlock over all interleavings of all program tuples; "
        "(b) code->spec: the real package env, built with its mutex type swapped (go build -overlay) for a gate, is run under EVERY schedule "
        "(stateless DFS over lock-acquisition choices) for every program tuple; each distinct (programs, results, final tables) outcome is "
        "checked by TLC (Trace_AnkoEnvConc) to be an outcome of some sequential order computed from AnkoEnv; a schedule with no enabled "
        "goroutine is a deadlock; (c) -race build, real mutexes, thousands of rounds per tuple: race reports, outcomes checked the same way. "
        "distinct = distinct (program tuple, initial table, outcome) triples observed on the real code.")

ALPHA_FULL = [("Define", "x", 1), ("Set", "x", 2), ("Get", "x", 0), ("Delete", "x", 0), ("DeleteGlobal", "x", 0),
              ("Copy", "", 0), ("Symbols", "", 0), ("Addr", "x", 0), ("Get", "p", 0), ("Get", "ext", 0)]
ALPHA_CORE = ALPHA_FULL[:6]
ALPHA_W = [("Define", "x", 1), ("Set", "x", 2), ("Delete", "x", 0), ("DeleteGlobal", "x", 0), ("Copy", "", 0), ("Define", "y", 3)]
TABS = [{"k": [], "v": []}, {"k": ["x"], "v": [5]}]
# type definitions and lookups on the same scope (names beginning with "t" live in its type table; a scope without types has no type table yet)
# "tz" is an alias the scope's external lookup resolves by calling back into the scope for "tx" (a lookup that re-enters the scope it serves): to the
# specification the call is a lookup of tx
ALPHA_TZ = [("Define", "tx", 1), ("Define", "ty", 3), ("Get", "tz", 0), ("Get", "tx", 0), ("Copy", "", 0), ("Symbols", "t", 0)]
def unalias(progs): return [[dict(o, n="tx") if o["n"] == "tz" else o for o in pr] for pr in progs]
ALPHA_T = [("Define", "tx", 1), ("Define", "tx", 2), ("Define", "ty", 3), ("Get", "tx", 0), ("Copy", "", 0), ("Symbols", "t", 0)]     # (type names only: Symbols lists the type table)
TABS_T = [{"k": [], "v": []}, {"k": ["tx"], "v": [4]}]
PTAB = {"k": ["p"], "v": [9]}


def ops(a):
    return [{"op": o, "n": n, "v": v} for (o, n, v) in a]


def make_overlay(ctx):
    """Retype every sync.RWMutex in /repo/env/*.go (non-test) to verifRWMutex; add the wrapper type."""
    d = os.path.join(ctx.work, "overlay")
    os.makedirs(d, exist_ok=True)
    rep = {}
    n = 0
    for f in sorted(glob.glob(os.path.join(vlib.REPO, "env", "*.go"))):
        if f.endswith("_test.go"):
            continue
        s = open(f).read()
        if "sync.RWMutex" in s or "sync.Mutex" in s:
            k = s.count("sync.RWMutex") + s.count("sync.Mutex")
            n += k
            s2 = s.replace("sync.RWMutex", "verifRWMutex").replace("sync.Mutex", "verifRWMutex")
            s2 += "\nvar _ sync.Locker // keeps the import used after the verification rewrite\n"
            p = os.path.join(d, os.path.basename(f))
            open(p, "w").write(s2)
            rep[f] = p
    if n == 0:
        raise Broken("no sync.RWMutex found in /repo/env: the overlay rewrite does not apply any more")
    w = os.path.join(d, "verif_mutex.go")
    open(w, "w").write('''package env

import "sync"

// verifRWMutex replaces sync.RWMutex in verification builds (overlay only; never in the repository).
type verifRWMutex struct{ mu sync.RWMutex }

// VerifMutexHook, when it returns true, has performed the operation itself (gate scheduler).
var VerifMutexHook func(m interface{}, op string) bool

func (m *verifRWMutex) Lock() {
	if h := VerifMutexHook; h != nil && h(m, "Lock") {
		return
	}
	m.mu.Lock()
}
func (m *verifRWMutex) Unlock() {
	if h := VerifMutexHook; h != nil && h(m, "Unlock") {
		return
	}
	m.mu.Unlock()
}
func (m *verifRWMutex) RLock() {
	if h := VerifMutexHook; h != nil && h(m, "RLock") {
		return
	}
	m.mu.RLock()
}
func (m *verifRWMutex) RUnlock() {
	if h := VerifMutexHook; h != nil && h(m, "RUnlock") {
		return
	}
	m.mu.RUnlock()
}
''')
    rep[os.path.join(vlib.REPO, "env", "verif_mutex.go")] = w
    o = os.path.join(d, "overlay.json")
    json.dump({"Replace": rep}, open(o, "w"))
    ctx.cov["mutex_fields_rewritten"] = n
    return o


def tlc_models(ctx):
    cfgs = ["quick"] if ctx.quick() else ["quick", "thorough3", "thorough3p"]
    for c in cfgs:
        r = vlib.run_tlc(ctx, "MC_AnkoEnvConc", "MC_AnkoEnvConc_%s.cfg" % c, timeout=3000, want_lines=False, heap="24g")
        vlib.tlc_ok(ctx, r, "MC_AnkoEnvConc " + c)
    for c, expect in (("neg_SplitSet", "Linearizable"), ("neg_NestedCopy", None), ("neg_UnlockedDefine", "LockDiscipline")):
        r = vlib.run_tlc(ctx, "MC_AnkoEnvConc", "MC_AnkoEnvConc_%s.cfg" % c, timeout=900, want_lines=False)
        if expect is None:
            ok = r.deadlock and not r.error
            ctx.cov["controls"].append({"control": "spec mutant NestedCopy must deadlock", "detected": bool(ok)})
            if not ok:
                raise Broken("negative control NestedCopy: no deadlock found")
        else:
            vlib.tlc_must_fail(ctx, r, "spec mutant %s must violate %s" % (c[4:], expect), expect=expect)
    r = vlib.run_tlc(ctx, "MC_AnkoEnvConc", "MC_AnkoEnvConc_obs_WritableParent.cfg", timeout=600, want_lines=False)
    ctx.cov["observation_writable_parent"] = ("outside the quantifier (parent written): TLC result = %s" % (r.violation or "no violation"))


def run_shards(ctx, binp, mode, cfg, tag, env=None, nshards=None, timeout=1800):
    nshards = nshards or vlib.NCPU
    outs = []
    procs = []
    for s in range(nshards):
        c = dict(cfg, shard=s, nshards=nshards)
        cp = os.path.join(ctx.work, "%s_cfg_%d.json" % (tag, s))
        json.dump(c, open(cp, "w"))
        op = os.path.join(ctx.work, "%s_out_%d.ndjson" % (tag, s))
        e = vlib.goenv()
        if env:
            e.update(env)
        procs.append((subprocess.Popen([binp, mode, cp, op], env=e, stdout=subprocess.PIPE, stderr=subprocess.PIPE, text=True), op))
    lines = []
    race = None
    for p, op in procs:
        try:
            so, se = p.communicate(timeout=timeout)
        except subprocess.TimeoutExpired:
            p.kill()
            raise Broken("envconc %s timed out" % mode)
        if p.returncode == 66 or "WARNING: DATA RACE" in se:
            race = se[:6000]
        elif p.returncode != 0:
            raise Broken("envconc %s failed rc=%d: %s" % (mode, p.returncode, se[-2000:]))
        if os.path.exists(op):
            lines += vlib.read_ndjson(op)
    return lines, race


def check_outcomes(ctx, binp, lines, tag, gated):
    """Deadlocks -> violations; outcomes -> TLC linearizability check."""
    for l in lines:
        l["outcomes"] = l.get("outcomes") or []
    nsched = sum(l["schedules"] for l in lines)
    nout = sum(len(l["outcomes"]) for l in lines)
    ctx.cov["%s_program_tuples" % tag] = len(lines)
    ctx.cov["%s_schedules_executed" % tag] = nsched
    ctx.cov["%s_distinct_outcomes" % tag] = nout
    ctx.cov["evaluations"] += nsched
    ctx.cov["distinct_nontrivial"] += nout
    for l in lines:
        for dl in l.get("deadlocks") or []:
            payload = {"kind": "deadlock", "mode": tag, "progs": l["progs"], "tab0": l["tab0"], "parent_tab": PTAB, "sched": dl}
            if not gated or reproduce_sched(ctx, binp, payload) == "deadlock":
                vlib.violation(ctx, "deadlock inside env: programs %s from %s under schedule %s" % (json.dumps(l["progs"]), json.dumps(l["tab0"]), dl), payload)
            else:
                raise Broken("deadlock not reproduced: %s" % json.dumps(payload)[:400])
            break
    if ctx.violations:
        return
    path = os.path.join(ctx.work, "envconc_outcomes.ndjson")
    clean = [{"progs": unalias(l["progs"]), "tab0": l["tab0"], "outcomes": [{k: o[k] for k in ("c", "p", "res")} for o in l["outcomes"]]} for l in lines if l["outcomes"]]
    vlib.write_ndjson(path, [{"parent_tab": PTAB}] + clean)
    r = vlib.run_tlc(ctx, "Trace_AnkoEnvConc", "Trace_AnkoEnvConc.cfg", workers=1, timeout=3000, copy=[path], want_lines=False)
    if r.error:
        raise Broken("Trace_AnkoEnvConc: " + r.error + r.out[-1500:])
    m = re.findall(r'<<"REACHED", (\d+), (\d+)>>', r.out)
    if not m:
        raise Broken("Trace_AnkoEnvConc: no REACHED line\n" + r.out[-1500:])
    reached, total = int(m[-1][0]), int(m[-1][1])
    ctx.cov["states"] += r.distinct
    ctx.cov["transitions"] += r.generated
    if reached == total + 1:
        ctx.cov["traces_validated_against_impl"] += nout
        return
    bad = clean[reached - 2]
    srcline = [l for l in lines if unalias(l["progs"]) == bad["progs"] and l["tab0"] == bad["tab0"] and l["outcomes"]][0]
    # find the offending outcome(s): validate them one by one
    for o in srcline["outcomes"]:
        one = os.path.join(ctx.work, "envconc_outcomes.ndjson")
        vlib.write_ndjson(one, [{"parent_tab": PTAB}, {"progs": bad["progs"], "tab0": bad["tab0"], "outcomes": [{k: o[k] for k in ("c", "p", "res")}]}])
        r1 = vlib.run_tlc(ctx, "Trace_AnkoEnvConc", "Trace_AnkoEnvConc.cfg", workers=1, timeout=600, copy=[one], want_lines=False)
        m1 = re.findall(r'<<"REACHED", (\d+), (\d+)>>', r1.out)
        if m1 and int(m1[-1][0]) == int(m1[-1][1]) + 1:
            continue
        payload = {"kind": "nonlinearizable", "mode": tag, "progs": bad["progs"], "tab0": bad["tab0"], "parent_tab": PTAB,
                   "sched": o.get("sched"), "outcome": {k: o[k] for k in ("c", "p", "res")}}
        if gated:
            got = reproduce_sched(ctx, binp, payload)
            if got != payload["outcome"]:
                raise Broken("schedule replay gave a different outcome: %s vs %s" % (json.dumps(got)[:300], json.dumps(payload["outcome"])[:300]))
        vlib.violation(ctx, "non-linearizable outcome of concurrent env calls: programs %s from %s -> %s" % (json.dumps(bad["progs"]), json.dumps(bad["tab0"]), json.dumps(payload["outcome"])), payload)
        return
    raise Broken("TLC rejected line %d but every outcome alone is accepted" % reached)


def reproduce_sched(ctx, binp, payload):
    p = os.path.join(ctx.work, "sched_case.json")
    json.dump(payload, open(p, "w"))
    r = vlib.run_cmd(ctx, [binp, "sched", p], timeout=60)
    o = json.loads(r.stdout)
    if o["deadlock"]:
        return "deadlock"
    return {k: o["outcome"][k] for k in ("c", "p", "res")}


def corruption_control(ctx, lines):
    """An outcome with one result altered must be rejected by Trace_AnkoEnvConc."""
    for l in lines:
        if l["outcomes"] and any(r["k"] == "val" for pr in l["outcomes"][0]["res"] for r in pr):
            o = json.loads(json.dumps(l["outcomes"][0]))
            for pr in o["res"]:
                for r in pr:
                    if r["k"] == "val":
                        r["i"] += 40
            one = os.path.join(ctx.work, "envconc_outcomes.ndjson")
            vlib.write_ndjson(one, [{"parent_tab": PTAB}, {"progs": l["progs"], "tab0": l["tab0"], "outcomes": [{k: o[k] for k in ("c", "p", "res")}]}])
            r1 = vlib.run_tlc(ctx, "Trace_AnkoEnvConc", "Trace_AnkoEnvConc.cfg", workers=1, timeout=600, copy=[one], want_lines=False)
            ok = r1.postcondition_false and not r1.error
            ctx.cov["controls"].append({"control": "outcome with altered Get result must be rejected", "detected": bool(ok)})
            if not ok:
                raise Broken("corruption control not detected")
            return
    raise Broken("no outcome to corrupt")


def shapes(ctx, binp):
    """Model drift note: the lock-operation sequence of each call alone, compared with the micro-programs of AnkoEnvConc."""
    cp = os.path.join(ctx.work, "shapes_cfg.json")
    json.dump({"alphabet": ops(ALPHA_FULL), "init_tabs": TABS, "parent_tab": PTAB}, open(cp, "w"))
    r = vlib.run_cmd(ctx, [binp, "shapes", cp])
    got = json.loads(r.stdout)
    expect = {
        "Define(x)/0": "lockreq lockacq ul", "Define(x)/1": "lockreq lockacq ul",
        "Set(x)/1": "lockreq lockacq ul", "Set(x)/0": "lockreq lockacq ul lockreq lockacq ul",
        "Get(x)/1": "rlock ru", "Get(x)/0": "rlock ru rlock ru", "Get(p)/0": "rlock ru rlock ru", "Get(p)/1": "rlock ru rlock ru",
        "Delete(x)/0": "lockreq lockacq ul", "Delete(x)/1": "lockreq lockacq ul",
        "DeleteGlobal(x)/1": "rlock ru lockreq lockacq ul", "DeleteGlobal(x)/0": "rlock ru lockreq lockacq ul",
        "Copy()/0": "rlock ru", "Copy()/1": "rlock ru", "Symbols()/0": "rlock ru", "Symbols()/1": "rlock ru",
        "Addr(x)/1": "rlock ru", "Addr(x)/0": "rlock rlock ru ru",
    }
    drift = []
    for k, e in expect.items():
        g = " ".join(x.split(":")[1] for x in got.get(k, []) if not x.endswith(":start"))
        if g != e:
            drift.append({"call": k, "model": e, "code": g})
    ctx.cov["model_drift"] = len(drift)
    if drift:
        ctx.cov["model_drift_detail"] = drift[:10]
        ctx.notes.append("lock granularity of the code differs from AnkoEnvConc's micro-programs (not a violation by itself; the exhaustive schedule exploration of the real code still decides)")


def run(ctx):
    overlay = make_overlay(ctx)
    binp = vlib.build_harness(ctx, "envconc", overlay=overlay)
    binr = vlib.build_harness(ctx, "envconc", overlay=overlay, race=True)
    ctx.assumptions += ["Go's sync.RWMutex semantics as documented (a blocked Lock excludes new readers) are modelled, not verified",
                        "the gate intercepts every RWMutex operation of package env through a source rewrite applied at check time; memory accesses outside locks are only visible to the race detector",
                        "the parent scope is never written (the quantifier of C13); a writable-parent configuration is reported as an observation only",
                        "SetExternalLookup racing with reads is outside the property"]
    tlc_models(ctx)
    shapes(ctx, binp)
    # (b) exhaustive schedules on the real code
    if ctx.quick():
        cfgs = [("dfs2x2", dict(mode="all", procs=2, nops=2, alphabet=ops(ALPHA_FULL), init_tabs=TABS, parent_tab=PTAB, seed=ctx.seed)),
                ("dfs2x2types", dict(mode="all", procs=2, nops=2, alphabet=ops(ALPHA_T), init_tabs=TABS_T, parent_tab=PTAB, seed=ctx.seed)),
                ("dfs3x1types", dict(mode="all", procs=3, nops=1, alphabet=ops(ALPHA_T), init_tabs=TABS_T, parent_tab=PTAB, seed=ctx.seed)),
                ("dfs2x2alias", dict(mode="all", procs=2, nops=2, alphabet=ops(ALPHA_TZ), init_tabs=TABS_T, parent_tab=PTAB, seed=ctx.seed)),
                ("dfs3x1alias", dict(mode="all", procs=3, nops=1, alphabet=ops(ALPHA_TZ), init_tabs=TABS_T, parent_tab=PTAB, seed=ctx.seed))]
    else:
        cfgs = [("dfs2x2", dict(mode="all", procs=2, nops=2, alphabet=ops(ALPHA_FULL), init_tabs=TABS, parent_tab=PTAB, seed=ctx.seed)),
                ("dfs3x1", dict(mode="all", procs=3, nops=1, alphabet=ops(ALPHA_FULL), init_tabs=TABS, parent_tab=PTAB, seed=ctx.seed)),
                ("dfs2x2types", dict(mode="all", procs=2, nops=2, alphabet=ops(ALPHA_T), init_tabs=TABS_T, parent_tab=PTAB, seed=ctx.seed)),
                ("dfs3x1types", dict(mode="all", procs=3, nops=1, alphabet=ops(ALPHA_T), init_tabs=TABS_T, parent_tab=PTAB, seed=ctx.seed)),
                ("dfs2x2alias", dict(mode="all", procs=2, nops=2, alphabet=ops(ALPHA_TZ), init_tabs=TABS_T, parent_tab=PTAB, seed=ctx.seed)),
                ("dfs3x1alias", dict(mode="all", procs=3, nops=1, alphabet=ops(ALPHA_TZ), init_tabs=TABS_T, parent_tab=PTAB, seed=ctx.seed)),
                ("dfs2x3", dict(mode="sample", sample=1500, procs=2, nops=3, alphabet=ops(ALPHA_CORE), init_tabs=TABS, parent_tab=PTAB, seed=ctx.seed)),
                ("dfs3x2", dict(mode="sample", sample=400, procs=3, nops=2, alphabet=ops(ALPHA_W), init_tabs=TABS, parent_tab=PTAB, seed=ctx.seed, max_sched=20000))]
    first = None
    for tag, cfg in cfgs:
        lines, _ = run_shards(ctx, binp, "dfs", cfg, tag)
        ctx.log("%s: %d tuples, %d schedules" % (tag, len(lines), sum(l["schedules"] for l in lines)))
        if first is None:
            first = lines
            for x in lines:
                x["outcomes"] = x.get("outcomes") or []
            l = [x for x in first if len(x["outcomes"]) > 2][:1] or first[:1]
            ctx.sample({"kind": "program tuple explored under every schedule on the real code", "progs": l[0]["progs"], "tab0": l[0]["tab0"],
                        "schedules": l[0]["schedules"], "distinct_outcomes": [{k: o[k] for k in ("c", "res")} for o in l[0]["outcomes"]][:4]})
        check_outcomes(ctx, binp, lines, tag, gated=True)
        if ctx.violations:
            break
    if first and not ctx.violations:
        corruption_control(ctx, first)
    # (c) race detector, real scheduler
    if not ctx.violations:
        rounds = 150 if ctx.quick() else 1500
        cfg = dict(mode="sample", sample=(160 if ctx.quick() else 800), procs=3, nops=2, alphabet=ops(ALPHA_FULL), init_tabs=TABS, parent_tab=PTAB,
                   seed=ctx.seed, rounds=rounds)
        lines, race = run_shards(ctx, binr, "free", cfg, "race", env={"GORACE": "exitcode=66 halt_on_error=1"}, nshards=8)
        ctx.cov["race_detector_rounds"] = sum(l["schedules"] for l in lines)
        if race:
            payload = {"kind": "race", "report": race, "finding_key": race_key(race)}
            vlib.violation(ctx, "data race inside package env reported by the race detector: " + race_key(race), payload)
        else:
            check_outcomes(ctx, binr, lines, "race", gated=False)
    if not ctx.violations:
        # three scopes in a chain, all of them read and written at once (beyond the model's two scopes): race detector only
        n3 = 3000 if ctx.quick() else 40000
        e = vlib.goenv(); e.update({"GORACE": "exitcode=66 halt_on_error=1"})
        ps = [subprocess.Popen([binr, "chain3", str(n3 // 8)], env=e, stdout=subprocess.PIPE, stderr=subprocess.PIPE, text=True) for _ in range(8)]
        for p in ps:
            so, se = p.communicate(timeout=1800)
            if p.returncode == 66 or "WARNING: DATA RACE" in se:
                vlib.violation(ctx, "data race inside package env (three-scope chain) reported by the race detector: " + race_key(se), {"kind": "race", "report": se[:6000], "finding_key": race_key(se)})
                break
            if p.returncode != 0:
                if "concurrent map" in se:
                    vlib.violation(ctx, "the runtime detected unsynchronised access to a scope's table (three-scope chain): " + se[:200], {"kind": "race", "report": se[:6000]})
                    break
                raise Broken("envconc chain3 failed rc=%d: %s" % (p.returncode, se[-1500:]))
        ctx.cov["race_detector_chain3_rounds"] = n3
    if not ctx.violations:
        # Copy / DeepCopy of scopes with 5 .. 1000 symbols while a writer stores related values: every snapshot is the table of ONE instant
        nb = 2000 if ctx.quick() else 30000
        ps = [subprocess.Popen([b, "bigcopy", str(nb)], env=vlib.goenv(), stdout=subprocess.PIPE, stderr=subprocess.PIPE, text=True) for b in (binp, binp, binr)]
        for p in ps:
            so, se = p.communicate(timeout=1800)
            if p.returncode == 3 and "SNAPSHOT-TORN" in so:
                if not ctx.violations:
                    vlib.violation(ctx, "Copy is not one atomic read of the scope: " + so.strip()[:300], {"kind": "bigcopy", "report": so[:2000]})
            elif p.returncode == 66 or "WARNING: DATA RACE" in se:
                if not ctx.violations:
                    vlib.violation(ctx, "data race inside package env (copies of large scopes) reported by the race detector: " + race_key(se), {"kind": "race", "report": se[:6000], "finding_key": race_key(se)})
            elif p.returncode != 0:
                raise Broken("envconc bigcopy failed rc=%d: %s" % (p.returncode, se[-1500:]))
        ctx.cov["bigcopy_rounds"] = nb * 3 * 4
    return vlib.finish(ctx, RULE, exhaustive=True)


def race_key(report):
    fns = re.findall(r"github.com/mattn/anko/env\.\(\*Env\)\.(\w+)\(\)", report)
    return "race:" + ",".join(sorted(set(fns))[:4])


def replay(ctx, path):
    p = json.load(open(path))
    overlay = make_overlay(ctx)
    if p.get("kind") in ("race", "bigcopy"):
        print("race reports are re-obtained by re-running bin/check C13")
        return 2
    binp = vlib.build_harness(ctx, "envconc", overlay=overlay)
    got = reproduce_sched(ctx, binp, p)
    print(json.dumps(got))
    bad = (got == "deadlock") if p["kind"] == "deadlock" else (got == p["outcome"])
    if bad:
        print("VIOLATION property=%s replay=%s" % (ctx.id, path))
    return 1 if bad else 0
