"""C20 -- a value behaves the same wherever it came from (spec/AnkoProvenance.tla)."""
import json, os, concurrent.futures
import vlib
from vlib import Broken

LEVEL = "model_checking"
RULE = ("TLC enumerates operation template x operand value x provenance chain (all chains of length 1..2, thorough 1..3, over element / map entry / script call / "
        "Go call returning interface{} / parentheses / ternary / ??) and builds each script; the real interpreter evaluates it and the same template with the bare "
        "variable; TLC validates the law Outcome(T[c(v)]) = Outcome(T[v]) (canonical value, dynamic type, error-or-success) for every case. "
        "distinct_nontrivial = cases whose bare outcome is not an error (the operation is meaningful for that value).")

T = []
def t(i, pre, post): T.append({"id": i, "pre": pre, "post": post})

for op in ("-", "!", "^"):
    t("un" + op, op, "")
for op in ("+", "-", "*", "/", "%", "&", "|", "<<", ">>", "==", "!=", "<", "<=", ">", ">=", "&&", "||"):
    t("binL" + op, "", " %s 2" % op)
    t("binR" + op, "7 %s " % op, "")
for op in ("+", "-", "*", "|", "&", "%", "<<", "<", "==", "!=", "&&", "||"):
    t("binL" + op + "-then-store", "", " %s bump()" % op)       # the right operand overwrites the place the left one was read from
t("in-item-then-store", "", " in [bump(), 3, 1, \"ab\"]"); t("multi-assign-then-store", "q1, q2 = ", ", bump()\n[q1, q2]"); t("return-then-deferred-store", "func() {\n defer bump()\n return ", "\n}()")
t("var-then-store", "var q1, q2 = ", ", bump()\n[q1, q2]"); t("index-then-store", "[5, 6, 7, 8][", "] + bump()"); t("tern-then-store", "(true ? ", " : 0) + bump()")
t("delete-global-flag", "xg = 1\nfunc() {\n delete(\"xg\", ", ")\n}()\nxg ?? \"gone\""); t("eq-ptr", "vp == ", ""); t("eq-ptr-l", "", " == vp"); t("in-ptr-list", "", " in [vp, 1]"); t("in-list-ptr", "vp in [", "]")
t("switch-ptr-case", "func() {\n switch vp {\n case ", ":\n  return \"hit\"\n }\n return \"miss\"\n}()"); t("switch-ptr-subject", "func() {\n switch ", " {\n case vp:\n  return \"hit\"\n }\n return \"miss\"\n}()")
t("list-then-store", "[", ", bump()]"); t("args-then-store", "f2(", ", bump())"); t("map-then-store", "{\"a\": ", ", \"b\": bump()}")
t("args-go-then-store", "g2(", ", bump())"); t("args-go-variadic-then-store", "gl(", ", bump())"); t("args-go-variadic-mid-then-store", "gl(0, ", ", bump())"); t("args5-then-store", "f5(", ", bump(), 3, 4, 5)")
t("args-variadic-then-store", "fl(", ", bump())"); t("args-variadic-rest-then-store", "fl(0, ", ", bump())"); t("args-spread-then-store", "f2(", ", [bump()]...)"); t("args-anon-then-store", "(func(a, b) { return [a, b] })(", ", bump())")
t("mapkey-then-store", "{", ": bump()}"); t("typed-mapkey-then-store", "map[interface]interface{", ": bump()}"); t("switch-then-store", "func() {\n switch ", " {\n case bump():\n  return \"bumped\"\n case 3:\n  return \"three\"\n case \"ab\":\n  return \"str\"\n }\n return \"other\"\n}()")
t("defer-args-then-store", "r = []\nfunc() {\n defer (func(a, b) { r += [[a, b]] })(", ", bump())\n return 1\n}()\nr"); t("throw-then-store", "func() {\n try {\n  throw [", ", bump()][0]\n } catch e {\n  return \"caught\"\n }\n}()")
t("call-arg-go-stringer", "gs(", ")"); t("call-arg-go-error", "ge(", ")"); t("call-arg-go-stringer-variadic", "gsv(1, ", ")")
t("make-type", "make(type TT, ", ")\nmake(TT)"); t("make-type-kind", "make(type TT, ", ")\nx = make(TT)\ng1(x)"); t("assign-then-store", "q = ", "\nbump()\nq"); t("assign-module-then-store", "mo.x = ", "\nbump()\nmo.x")
t("unpack-then-store", "mo.x, q2 = [", ", 5]\nbump()\n[mo.x, q2]")
# what an assignment binds is a copy or a reference by the KIND of the value, wherever it came from (a module is copied; a later store through one name does not show through the other)
t("assign-copy-then-member-store", "q = ", "\nq.x = 2\n[vmo.x, q.x]"); t("var-copy-then-member-store", "var q = ", "\nq.x = 2\n[vmo.x, q.x]"); t("multi-copy-then-member-store", "q, q2 = ", ", 1\nq.x = 2\n[vmo.x, q.x]")
t("assign-then-field-store", "q = ", "\nq.A = 77\n[vmk.A, q.A]"); t("member-ptr-method-twice", "q = ", "\n[q.Ptr(), q.Ptr(), q.Val()]"); t("member-field-then-method", "q = ", "\n[q.A, q.Ptr()]")
t("plus-str-l", "", ' + "s"'); t("plus-str-r", '"s" + ', "")
t("plus-list-l", "", " + [9]"); t("plus-list-r", "[9] + ", "")
t("str-mul", '"ab" * ', ""); t("mul-str", "", " * 2")
t("eq-nil", "", " == nil"); t("eq-self", "vl == ", ""); t("eq-str", '"ab" == ', ""); t("eq-float", "1.5 == ", "")
t("index-base", "", "[0]"); t("index-base-str", "", '["k"]'); t("index-idx", "[5, 6, 7, 8][", "]"); t("index-mapkey", 'vm[', "]"); t("index-str-idx", '"hello"[', "]")
t("slice-base", "", "[0:1]"); t("slice-lo", "[5, 6, 7, 8][", ":3]"); t("slice-hi", "[5, 6, 7, 8][1:", "]"); t("slice-cap", "[5, 6, 7, 8][0:1:", "]"); t("slice-base3", "", "[0:1:2]")
t("len", "len(", ")"); t("in-item", "", " in [1, 3, \"ab\"]"); t("in-list", "2 in ", ""); t("in-list-self", "vl in ", "")
t("call-callee", "", "(4)"); t("call-callee-anon", "(", ")(4)"); t("call-arg-script", "f1(", ")"); t("call-arg-go-iface", "g1(", ")"); t("call-arg-go-int", "gi(", ")")
t("call-arg2", "f2(1, ", ")"); t("call-spread-script", "f2(", "...)"); t("call-spread-variadic", "fv(", "...)"); t("call-spread-go", "gv(", "...)"); t("call-variadic-arg", "fv(1, ", ")")
t("member", "", ".k"); t("member-field", "", ".A"); t("member-method", "", ".Val()"); t("member-ptr-method", "", ".Ptr()"); t("member-module", "", ".x")
t("deref", "*", ""); t("addr-deref", "*(&", ")"); t("typeof-like", "g1(", ")")
t("forin", "r = 0\nfor e in ", " {\n r += 1\n}\nr"); t("forin-list", "r = []\nfor e in [", "] {\n r += e\n}\nr")
t("switch-subject", "func() {\n switch ", " {\n case 3:\n  return \"three\"\n case \"ab\":\n  return \"str\"\n case nil:\n  return \"nil\"\n }\n return \"other\"\n}()")
t("switch-case", "func() {\n switch 3 {\n case ", ":\n  return \"hit\"\n }\n return \"miss\"\n}()")
t("if-cond", "func() {\n if ", " {\n  return 1\n }\n return 2\n}()"); t("loop-cond", "n = 0\nfor (", ") {\n n += 1\n if n > 2 {\n  break\n }\n}\nn")
t("tern-cond", "", " ? 1 : 2"); t("tern-then", "true ? ", " : 0"); t("tern-else", "false ? 0 : ", ""); t("nilco-left", "", " ?? 7"); t("nilco-right", "nil ?? ", "")
t("make-len", "len(make([]int64, ", "))"); t("make-cap", "len(make([]int64, 1, ", "))"); t("make-chan", "len(make(chan int64, ", "))")
t("chan-send", "", " <- 9\nlen(vc)"); t("chan-send-value", "vc <- ", "\nlen(vc)"); t("chan-recv", "<-", ""); t("chan-recv-stmt", "x, ok = <-", "\n[x, ok]"); t("chan-close", "close(", ")\nlen(vc)")
t("chan-range", "close(vc)\nr = 0\nfor e in ", " {\n r += 1\n}\nr")
t("delete-map", "delete(", ", \"k\")\nlen(vm)"); t("delete-key", "delete(vm, ", ")\nlen(vm)")
t("throw", "func() {\n try {\n  throw ", "\n } catch e {\n  return \"caught\"\n }\n return \"no\"\n}()")
t("assign-rhs", "x = ", "\nx"); t("assign-multi", "x, y = 1, ", "\n[x, y]"); t("assign-index-target-idx", "a = [1, 2, 3, 4]\na[", "] = 9\na"); t("assign-index-base", "", "[0] = 9\nvl")
t("addr-then-store", "p = &(", ")\n*p = 5\nq = {}\n[nil, q.nosuch, (func() { })()]");
t("assign-member", "", ".k = 9\nvm"); t("assign-deref", "*", " = 9\n*vp"); t("assign-map-value", "m = {}\nm.z = ", "\nm"); t("unpack", "x, y = (", ")\n[x, y]"); t("var-unpack", "var x, y = ", "\n[x, y]")
t("defer-callee", "func() {\n defer ", "(4)\n return 1\n}()"); t("defer-arg", "r = []\nfunc() {\n defer (func(a) { r += a })(", ")\n return 1\n}()\nr")
t("go-callee", "d = make(chan int64)\ngo ", "(4)\n1"); t("return-value", "func() { return ", " }()"); t("return-multi", "func() { return 1, ", " }()")
t("list-elem", "[", ", 2]"); t("map-value", '{"a": ', "}"); t("map-key", "{", ": 1}"); t("opassign", "x = 10\nx += ", "\nx"); t("incr-style", "x = ", "\nx++\nx")

# a string is a value: element assignment rewrites the VARIABLE, so the target must be assignable; through a call result or a
# conditional there is no variable to rewrite -- not a provenance effect on a value but the absence of an lvalue
# a nil slice / map grows by rewriting the variable that holds it, likewise
# vmk (a struct made by the script: ADDRESSABLE where it is bound) is judged in the templates about members, methods and what an assignment binds; that a struct is
# not a value in this interpreter is recorded (StructElementAlias, StructFieldStoreUnaddressable) and shows in every template that takes an address or stores through one
VMK_TEMPLATES = {"member", "member-field", "member-method", "member-ptr-method", "member-ptr-method-twice", "member-field-then-method", "assign-then-field-store", "assign-copy-then-member-store", "var-copy-then-member-store",
                 "multi-copy-then-member-store", "call-arg-go-iface", "typeof-like", "list-elem", "map-value", "return-value", "assign-rhs", "eq-nil", "len", "switch-subject", "if-cond", "nilco-left", "call-arg-script"}
EXCLUDE = {("assign-index-base", "vs"), ("assign-index-base", "vns"), ("assign-index-base", "vnm"), ("assign-member", "vnm")}

VARS = ["vi", "vz", "vf", "vs", "vb", "vn", "vl", "vm", "vp", "vc", "vfn", "vg", "vst", "vsp", "vtl", "vmo", "vns", "vnm", "vnp", "vdur", "verr", "vmk"]


def run(ctx):
    binp = vlib.build_harness(ctx, "provharness")
    ctx.assumptions += ["the outcome with the bare variable is the reference (the law is relational); which error message is not compared",
                        "canonical outcome = dynamic type + printed value with pointers followed, maps sorted, channels by length"]
    tp = os.path.join(ctx.work, "prov_templates.ndjson")
    vlib.write_ndjson(tp, T)
    maxchain = 2 if ctx.quick() else 3
    d = os.path.join(ctx.work, "cfg")
    os.makedirs(d, exist_ok=True)
    groups = [VARS[i::4] for i in range(4)] if ctx.quick() else [[v] for v in VARS]
    def one(k):
        fn = "MC_AnkoProvenance_%d.cfg" % k
        open(os.path.join(d, fn), "w").write("SPECIFICATION Spec\nCONSTANTS\n  MaxChain = %d\n  Vars = {%s}\nCHECK_DEADLOCK FALSE\n" % (maxchain, ", ".join('"%s"' % v for v in groups[k])))
        r = vlib.run_tlc(ctx, "MC_AnkoProvenance", fn, workers=2, timeout=3000, want_lines=False, copy=[tp], xss="256m", cfg_dir=d, heap="6g")
        if r.error or r.violation:
            return r, None
        op = os.path.join(r.dir, "prov_obs.ndjson")
        vlib.run_cmd(ctx, [binp, os.path.join(r.dir, "tlc.out"), op], timeout=3000)
        os.remove(os.path.join(r.dir, "tlc.out"))
        return r, op
    with concurrent.futures.ThreadPoolExecutor(max_workers=8) as ex:
        results = list(ex.map(one, range(len(groups))))
    reported = set()
    for r, op in results:
        vlib.tlc_ok(ctx, r, "MC_AnkoProvenance")
        # (x ?? nil) is the identity on every value except a nil of a concrete type, which it turns into the plain nil: not a hop for those
        # &x of an element of a TYPED list is a pointer of that element type: storing an int64 through it is a typed store (C10), not a provenance effect
        obs = [o for o in vlib.read_ndjson(op) if (o["t"], o["v"]) not in EXCLUDE and (o["v"] != "vmk" or o["t"] in VMK_TEMPLATES) and not (o["v"] in ("vns", "vnm", "vnp") and "nilco" in o["chain"])
               and not (o["t"] == "addr-then-store" and o["chain"] and o["chain"][0] == "ntelem")]
        slim = os.path.join(ctx.work, "prov_obs.ndjson")
        vlib.write_ndjson(slim, [{"got": o["got"], "base": o["base"]} for o in obs])
        rej, total, rr = vlib.validate_lines(ctx, "Trace_AnkoProvenance", "Trace_AnkoProvenance.cfg", [slim], timeout=3000)
        ctx.cov["evaluations"] += total
        ctx.cov["distinct_nontrivial"] += sum(1 for o in obs if o["base"] not in ("error", "panic"))
        ctx.cov["traces_validated_against_impl"] += total - len(rej)
        if obs:
            o = obs[len(obs) // 3]
            ctx.sample({"template": o["t"], "value": o["v"], "chain": o["chain"], "script": o["src"], "outcome": o["got"], "bare_outcome": o["base"]}, limit=3)
        for ln in rej:
            o = obs[ln - 1]
            g = ctx.cov.setdefault("failing_groups", {}).setdefault(o["t"], {})
            g[o["v"]] = g.get(o["v"], 0) + 1
        for ln in rej:
            o = obs[ln - 1]
            key = (o["t"], o["v"], o["chain"][-1] if o["chain"] else "", o["got"] == "panic")
            k2 = (o["t"], o["chain"][-1] if o["chain"] else "")
            known = o["v"] in ("vst", "vmk") and o["chain"] and o["chain"][0] == "ntelem" and ("-then-" in o["t"] and o["t"].endswith("store"))
            # second open finding: a field store into a struct that came out of an interface-typed place fails (exactly: this template, the made struct, outcome error)
            fstore = o["t"] == "assign-then-field-store" and o["v"] == "vmk" and o["got"] == "error" and not known
            if known or fstore:
                k2 = ("known",) + k2
            if k2 in reported or sum(1 for q in reported if q[0] != "known") >= 60:      # (the cap counts new violations only: known ones must not use it up)
                continue
            reported.add(k2)
            vlib.violation(ctx, "template %s with %s through %s: outcome %s, but %s with the bare variable\n%s" % (o["t"], o["v"], "/".join(o["chain"]), o["got"][:120], o["base"][:120], o["src"]),
                           dict({"kind": "prov", "obs": o}, **({"finding_key": "prov:struct-typed-elem-alias"} if known else ({"finding_key": "prov:struct-field-store-unaddressable"} if fstore else {}))))
    ctx.cov["templates"] = len(T)
    ctx.cov["values"] = len(VARS)
    if not ctx.violations:
        slim = os.path.join(ctx.work, "prov_obs.ndjson")
        vlib.write_ndjson(slim, [{"got": "int64:3", "base": "float64:3"}])
        rej, total, rr = vlib.validate_lines(ctx, "Trace_AnkoProvenance", "Trace_AnkoProvenance.cfg", [slim])
        ok = rej == [1]
        ctx.cov["controls"].append({"control": "an outcome whose dynamic type differs from the bare one must be rejected", "detected": ok})
        if not ok:
            raise Broken("corruption control failed")
    # a callee is an operand too: a call site evaluated again calls the function its name holds NOW, script or Go function alike, whatever it called
    # before (absolute expectations from the reference semantics AnkoSem -- the relational law cannot see a difference that hits every provenance)
    import corecheck, progs
    fam = [q for q in progs.fam_closures() if "callsite" in q["id"]]
    corecheck.run_family(ctx, vlib.build_harness(ctx, "vmharness"), fam, "c20-callsites", deviations=False)
    return vlib.finish(ctx, RULE, exhaustive=True)


def replay(ctx, path):
    p = json.load(open(path))
    if p.get("kind") in ("semantic", "panic"):
        import corecheck
        return corecheck.replay_one(ctx, vlib.build_harness(ctx, "vmharness"), path)
    binp = vlib.build_harness(ctx, "provharness")
    o = p["obs"]
    d = os.path.join(ctx.work, "one.out")
    open(d, "w").write(json.dumps(json.dumps({"t": o["t"], "v": o["v"], "chain": o["chain"], "src": o["src"], "basesrc": o["basesrc"]})) + "\n")
    op = os.path.join(ctx.work, "one.ndjson")
    vlib.run_cmd(ctx, [binp, d, op])
    got = vlib.read_ndjson(op)[0]
    print(json.dumps(got))
    bad = got["got"] != got["base"]
    if bad:
        print("VIOLATION property=%s replay=%s" % (ctx.id, path))
    return 1 if bad else 0
