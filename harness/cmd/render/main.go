// render turns JSON programs (spec form) into anko source:  render <progs.ndjson> <sources.ndjson>
package main

import (
	"bufio"
	"encoding/json"
	"fmt"
	"os"

	"verifharness/internal/astjson"
)

func main() {
	if len(os.Args) < 3 {
		fmt.Fprintln(os.Stderr, "usage: render <progs.ndjson> <sources.ndjson>")
		os.Exit(2)
	}
	f, err := os.Open(os.Args[1])
	if err != nil {
		fmt.Fprintln(os.Stderr, err)
		os.Exit(2)
	}
	out, _ := os.Create(os.Args[2])
	defer out.Close()
	w := bufio.NewWriter(out)
	defer w.Flush()
	enc := json.NewEncoder(w)
	sc := bufio.NewScanner(f)
	sc.Buffer(make([]byte, 1<<20), 1<<26)
	for sc.Scan() {
		var c struct {
			ID   string        `json:"id"`
			Prog []interface{} `json:"prog"`
		}
		if err := json.Unmarshal(sc.Bytes(), &c); err != nil {
			fmt.Fprintln(os.Stderr, err)
			os.Exit(2)
		}
		enc.Encode(map[string]string{"id": c.ID, "src": astjson.Render(c.Prog)})
	}
}
