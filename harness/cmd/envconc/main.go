// envconc explores concurrent use of one shared *env.Env (property C13).
//
// It must be built with the overlay produced by checks/c13.py, which retypes the env package's
// sync.RWMutex fields to verifRWMutex (a wrapper that reports every lock operation to VerifMutexHook).
//
//	envconc dfs   <cfg.json> <out.ndjson>   exhaustive DFS over all schedules at lock-acquisition granularity (gated mode)
//	envconc free  <cfg.json> <out.ndjson>   real mutexes, real scheduler, many rounds (run the -race build)
//	envconc sched <case.json>               re-run one recorded schedule and print its outcome
//	envconc shapes <out.json>               lock-operation sequence of every call in isolation
package main

import (
	"encoding/json"
	"fmt"
	"math/rand"
	"os"
	"reflect"
	"runtime"
	"sort"
	"strconv"
	"strings"
	"sync"
	"sync/atomic"
	"time"

	"github.com/mattn/anko/env"
)

type Op struct {
	Op string `json:"op"`
	N  string `json:"n"`
	V  int    `json:"v"`
}

type Res struct {
	K string   `json:"k"`
	I int      `json:"i"`
	S []string `json:"s"`
}

type Tab struct {
	K []string `json:"k"`
	V []int    `json:"v"`
}

type Outcome struct {
	C     Tab     `json:"c"`
	P     Tab     `json:"p"`
	Res   [][]Res `json:"res"`
	Sched []int   `json:"sched,omitempty"`
}

type Config struct {
	Mode      string   `json:"mode"` // "all" program tuples or "sample"
	Procs     int      `json:"procs"`
	NOps      int      `json:"nops"`
	Alphabet  []Op     `json:"alphabet"`
	InitTabs  []Tab    `json:"init_tabs"`
	ParentTab Tab      `json:"parent_tab"`
	Sample    int      `json:"sample"` // number of random program tuples (mode sample)
	Seed      int64    `json:"seed"`
	Shard     int      `json:"shard"`
	NShards   int      `json:"nshards"`
	MaxSched  int      `json:"max_sched"` // cap on schedules per program tuple (0 = exhaustive)
	Rounds    int      `json:"rounds"`    // free mode: rounds per program tuple
	Progs     [][][]Op `json:"progs"`     // explicit program tuples (optional)
}

type Line struct {
	Progs     [][]Op    `json:"progs"`
	Tab0      Tab       `json:"tab0"`
	Outcomes  []Outcome `json:"outcomes"`
	Schedules int       `json:"schedules"`
	Deadlocks [][]int   `json:"deadlocks,omitempty"`
	Truncated bool      `json:"truncated,omitempty"`
}

// ---------------------------------------------------------------- gate scheduler

type lockState struct {
	readers int
	writer  int // worker id or -1
	pending int
}

type event struct {
	w    int
	kind string // start, rlock, lockreq, lockacq, finish
	m    interface{}
}

type sched struct {
	active  bool
	cur     int
	locks   map[interface{}]*lockState
	yield   chan event
	resume  []chan struct{}
	trace   []string
	abandon bool
}

var S *sched

func (s *sched) ls(m interface{}) *lockState {
	l := s.locks[m]
	if l == nil {
		l = &lockState{writer: -1}
		s.locks[m] = l
	}
	return l
}

// hook runs on the goroutine that performs the lock operation.
func hook(m interface{}, op string) bool {
	s := S
	if s == nil || !s.active {
		return false
	}
	w := s.cur
	switch op {
	case "RLock":
		s.yield <- event{w, "rlock", m}
		<-s.resume[w]
	case "Lock":
		s.yield <- event{w, "lockreq", m}
		<-s.resume[w]
		s.yield <- event{w, "lockacq", m}
		<-s.resume[w]
	case "RUnlock":
		l := s.ls(m)
		l.readers--
		s.trace = append(s.trace, fmt.Sprintf("%d:ru", w))
	case "Unlock":
		l := s.ls(m)
		l.writer = -1
		s.trace = append(s.trace, fmt.Sprintf("%d:ul", w))
	}
	return true
}

func (s *sched) enabled(e event) bool {
	switch e.kind {
	case "start", "lockreq":
		return true
	case "rlock":
		l := s.ls(e.m)
		return l.writer == -1 && l.pending == 0
	case "lockacq":
		l := s.ls(e.m)
		return l.writer == -1 && l.readers == 0
	}
	return false
}

func (s *sched) grant(e event) {
	switch e.kind {
	case "rlock":
		s.ls(e.m).readers++
	case "lockreq":
		s.ls(e.m).pending++
	case "lockacq":
		l := s.ls(e.m)
		l.pending--
		l.writer = e.w
	}
}

type world struct {
	parent, child *env.Env
	copies        map[[2]int]*env.Env
	panics        int32
}

func setup(tab0, ptab Tab) *world {
	w := &world{copies: map[[2]int]*env.Env{}}
	w.parent = env.NewEnv()
	for i, k := range ptab.K {
		w.parent.Define(k, int64(ptab.V[i]))
	}
	w.child = w.parent.NewEnv()
	w.child.SetExternalLookup(extLookup{child: w.child}) // knows the value name "ext"; consulted after the scope's own table
	for i, k := range tab0.K {
		if isTypeName(k) {
			w.child.DefineType(k, typeFor(tab0.V[i]))
			continue
		}
		w.child.Define(k, int64(tab0.V[i]))
	}
	return w
}

// Names beginning with "t" live in the scope's TYPE table (DefineType / Type / GetTypeSymbols); the value v stands for a Go type.
// A scope without types has no type table yet: its first DefineType allocates it.
func isTypeName(n string) bool { return strings.HasPrefix(n, "t") }

var typeCodes = []interface{}{nil, int64(0), "", 1.5, true, []int64{}, map[string]int64{}, int8(0), uint16(0), float32(0)}

func typeFor(v int) interface{} { return typeCodes[v%len(typeCodes)] }
func codeOf(t reflect.Type) int {
	for i, x := range typeCodes {
		if x != nil && reflect.TypeOf(x) == t {
			return i
		}
	}
	return -98
}

type extLookup struct{ child *env.Env }

func (extLookup) Get(name string) (reflect.Value, error) {
	if name == "ext" {
		return reflect.ValueOf(int64(77)), nil
	}
	return reflect.Value{}, fmt.Errorf("unknown")
}

// Type resolves the alias "tz" by asking the scope itself for "tx": a lookup may call back into the scope it serves
// (the scope asks its lookup after it has let go of its own table)
func (x extLookup) Type(name string) (reflect.Type, error) {
	if name == "tz" && x.child != nil {
		return x.child.Type("tx")
	}
	return nil, fmt.Errorf("unknown")
}

func errRes(err error) Res {
	if err != nil {
		return Res{K: "err", S: []string{}}
	}
	return Res{K: "ok", S: []string{}}
}

func (w *world) call(g, i int, o Op, mu *sync.Mutex) Res {
	e := w.child
	switch o.Op {
	case "Define":
		if isTypeName(o.N) {
			return errRes(e.DefineType(o.N, typeFor(o.V)))
		}
		return errRes(e.Define(o.N, int64(o.V)))
	case "Set":
		return errRes(e.Set(o.N, int64(o.V)))
	case "Get":
		if isTypeName(o.N) {
			t, err := e.Type(o.N)
			if err != nil {
				return errRes(err)
			}
			return Res{K: "val", I: codeOf(t), S: []string{}}
		}
		v, err := e.Get(o.N)
		if err != nil {
			return errRes(err)
		}
		return Res{K: "val", I: int(v.(int64)), S: []string{}}
	case "Delete":
		e.Delete(o.N)
		return errRes(nil)
	case "DeleteGlobal":
		e.DeleteGlobal(o.N)
		return errRes(nil)
	case "Copy":
		c := e.Copy()
		if mu != nil {
			mu.Lock()
		}
		w.copies[[2]int{g, i}] = c
		if mu != nil {
			mu.Unlock()
		}
		return Res{K: "copy", S: []string{}}
	case "Symbols":
		if isTypeName(o.N) {
			s := e.GetTypeSymbols()
			sort.Strings(s)
			return Res{K: "syms", S: s}
		}
		s := e.GetValueSymbols()
		sort.Strings(s)
		return Res{K: "syms", S: s}
	case "Addr":
		p, err := e.Addr(o.N)
		if err != nil {
			return errRes(err)
		}
		return Res{K: "val", I: int(p.Elem().Interface().(int64)), S: []string{}}
	}
	return Res{K: "unknown"}
}

// safeCall runs one operation; a Go panic inside it becomes the result {k: "panic"} (false is returned).
func safeCall(w *world, res [][]Res, g, i int, o Op, mu *sync.Mutex) (ok bool) {
	defer func() {
		if r := recover(); r != nil {
			res[g][i] = Res{K: "panic", S: []string{fmt.Sprint(r)}}
			ok = false
		}
	}()
	res[g][i] = w.call(g, i, o, mu)
	return true
}

func fillRes(res [][]Res) [][]Res {
	for g := range res {
		for i := range res[g] {
			if res[g][i].K == "" {
				res[g][i] = Res{K: "notrun", S: []string{}}
			}
		}
	}
	return res
}

func tabOf(e *env.Env) Tab {
	t := Tab{K: []string{}, V: []int{}}
	ks := e.GetValueSymbols()
	sort.Strings(ks)
	for _, k := range ks {
		v, err := e.GetValue(k)
		if err != nil {
			continue
		}
		iv, ok := v.Interface().(int64)
		if !ok {
			iv = -99
		}
		t.K = append(t.K, k)
		t.V = append(t.V, int(iv))
	}
	tks := e.GetTypeSymbols()
	sort.Strings(tks)
	for _, k := range tks {
		if ty, err := e.Type(k); err == nil {
			t.K = append(t.K, k)
			t.V = append(t.V, codeOf(ty))
		}
	}
	return t
}

func (w *world) outcome(res [][]Res) Outcome {
	// snapshots are read out after the run
	for key, c := range w.copies {
		t := tabOf(c)
		s := []string{}
		for i, k := range t.K {
			s = append(s, fmt.Sprintf("%s=%d", k, t.V[i]))
		}
		res[key[0]][key[1]] = Res{K: "syms", S: s}
	}
	return Outcome{C: tabOf(w.child), P: tabOf(w.parent), Res: res}
}

// runGated executes one schedule; choices beyond the prefix default to 0. Returns outcome, branching factors, deadlock.
func runGated(progs [][]Op, tab0, ptab Tab, prefix []int) (out Outcome, taken []int, width []int, deadlock bool) {
	n := len(progs)
	w := setup(tab0, ptab)
	s := &sched{locks: map[interface{}]*lockState{}, yield: make(chan event), resume: make([]chan struct{}, n)}
	S = s
	res := make([][]Res, n)
	for g := 0; g < n; g++ {
		s.resume[g] = make(chan struct{})
		res[g] = make([]Res, len(progs[g]))
	}
	parked := make([]*event, n)
	finished := make([]bool, n)
	for g := 0; g < n; g++ {
		g := g
		parked[g] = &event{w: g, kind: "start"}
		go func() {
			<-s.resume[g]
			for i, o := range progs[g] {
				if !safeCall(w, res, g, i, o, nil) {
					// a Go panic inside the environment operation: recorded as this operation's result; the rest of this
					// goroutine's program is not run (a lock the operation held may have leaked -- then the others deadlock)
					atomic.AddInt32(&w.panics, 1)
					break
				}
			}
			s.yield <- event{g, "finish", nil}
		}()
	}
	s.active = true
	k := 0
	for {
		var en []int
		live := 0
		for g := 0; g < n; g++ {
			if finished[g] {
				continue
			}
			live++
			if s.enabled(*parked[g]) {
				en = append(en, g)
			}
		}
		if live == 0 {
			break
		}
		if len(en) == 0 {
			deadlock = true
			break
		}
		c := 0
		if len(en) > 1 {
			if k < len(prefix) {
				c = prefix[k]
			}
			taken = append(taken, c)
			width = append(width, len(en))
			k++
		}
		g := en[c]
		s.grant(*parked[g])
		s.trace = append(s.trace, fmt.Sprintf("%d:%s", g, parked[g].kind))
		s.cur = g
		s.resume[g] <- struct{}{}
		ev := <-s.yield
		if ev.kind == "finish" {
			finished[ev.w] = true
			parked[ev.w] = nil
		} else {
			parked[ev.w] = &ev
		}
	}
	s.active = false
	if deadlock {
		return Outcome{Sched: taken}, taken, width, true // the parked goroutines are abandoned
	}
	if atomic.LoadInt32(&w.panics) > 0 {
		// the tables are not read out (their lock may be held for ever); the panic result alone makes the outcome unexplainable
		return Outcome{C: Tab{K: []string{}, V: []int{}}, P: Tab{K: []string{}, V: []int{}}, Res: fillRes(res), Sched: taken}, taken, width, false
	}
	out = w.outcome(res)
	out.Sched = taken
	return out, taken, width, false
}

func key(o Outcome) string {
	o.Sched = nil
	b, _ := json.Marshal(o)
	return string(b)
}

func exploreDFS(progs [][]Op, tab0, ptab Tab, maxSched int, rng *rand.Rand) Line {
	line := Line{Progs: progs, Tab0: tab0}
	seen := map[string]bool{}
	prefix := []int{}
	for {
		out, taken, width, dl := runGated(progs, tab0, ptab, prefix)
		line.Schedules++
		if dl {
			if len(line.Deadlocks) < 3 {
				line.Deadlocks = append(line.Deadlocks, taken)
			}
		} else if k := key(out); !seen[k] {
			seen[k] = true
			line.Outcomes = append(line.Outcomes, out)
		}
		// next schedule in DFS order
		i := len(taken) - 1
		for i >= 0 && taken[i]+1 >= width[i] {
			i--
		}
		if i < 0 {
			break
		}
		prefix = append(append([]int{}, taken[:i]...), taken[i]+1)
		if maxSched > 0 && line.Schedules >= maxSched {
			line.Truncated = true
			break
		}
		if len(line.Deadlocks) >= 3 {
			line.Truncated = true
			break
		}
	}
	return line
}

func tuples(cfg Config) [][][]Op {
	if len(cfg.Progs) > 0 {
		return cfg.Progs
	}
	var all [][]Op // all programs of length NOps
	var rec func(p []Op)
	rec = func(p []Op) {
		if len(p) == cfg.NOps {
			all = append(all, append([]Op{}, p...))
			return
		}
		for _, o := range cfg.Alphabet {
			rec(append(p, o))
		}
	}
	rec(nil)
	var out [][][]Op
	if cfg.Mode == "sample" {
		rng := rand.New(rand.NewSource(cfg.Seed))
		for i := 0; i < cfg.Sample; i++ {
			t := make([][]Op, cfg.Procs)
			for g := range t {
				t[g] = all[rng.Intn(len(all))]
			}
			out = append(out, t)
		}
		return out
	}
	idx := make([]int, cfg.Procs)
	for {
		t := make([][]Op, cfg.Procs)
		for g := range t {
			t[g] = all[idx[g]]
		}
		out = append(out, t)
		g := cfg.Procs - 1
		for g >= 0 {
			idx[g]++
			if idx[g] < len(all) {
				break
			}
			idx[g] = 0
			g--
		}
		if g < 0 {
			break
		}
	}
	return out
}

func runFree(progs [][]Op, tab0, ptab Tab, rounds int) Line {
	line := Line{Progs: progs, Tab0: tab0}
	seen := map[string]bool{}
	n := len(progs)
	for r := 0; r < rounds; r++ {
		w := setup(tab0, ptab)
		res := make([][]Res, n)
		var wg sync.WaitGroup
		var mu sync.Mutex
		start := make(chan struct{})
		for g := 0; g < n; g++ {
			g := g
			res[g] = make([]Res, len(progs[g]))
			wg.Add(1)
			go func() {
				defer wg.Done()
				<-start
				for i, o := range progs[g] {
					if !safeCall(w, res, g, i, o, &mu) {
						atomic.AddInt32(&w.panics, 1)
						break
					}
					if r%3 == 0 {
						runtime.Gosched()
					}
				}
			}()
		}
		close(start)
		done := make(chan struct{})
		go func() { wg.Wait(); close(done) }()
		select {
		case <-done:
		case <-time.After(20 * time.Second):
			line.Deadlocks = append(line.Deadlocks, []int{r})
			line.Truncated = true
			return line
		}
		line.Schedules++
		var out Outcome
		if atomic.LoadInt32(&w.panics) > 0 {
			out = Outcome{C: Tab{K: []string{}, V: []int{}}, P: Tab{K: []string{}, V: []int{}}, Res: fillRes(res)}
		} else {
			out = w.outcome(res)
		}
		if k := key(out); !seen[k] {
			seen[k] = true
			line.Outcomes = append(line.Outcomes, out)
		}
	}
	return line
}

func main() {
	if len(os.Args) < 3 {
		fmt.Fprintln(os.Stderr, "usage: envconc dfs|free <cfg.json> <out.ndjson> | sched <case.json> | shapes <out.json>")
		os.Exit(2)
	}
	env.VerifMutexHook = hook
	switch os.Args[1] {
	case "dfs", "free":
		var cfg Config
		b, err := os.ReadFile(os.Args[2])
		if err == nil {
			err = json.Unmarshal(b, &cfg)
		}
		if err != nil {
			fmt.Fprintln(os.Stderr, err)
			os.Exit(2)
		}
		f, err := os.Create(os.Args[3])
		if err != nil {
			fmt.Fprintln(os.Stderr, err)
			os.Exit(2)
		}
		enc := json.NewEncoder(f)
		rng := rand.New(rand.NewSource(cfg.Seed + int64(cfg.Shard)))
		ts := tuples(cfg)
		for i, t := range ts {
			if cfg.NShards > 0 && i%cfg.NShards != cfg.Shard {
				continue
			}
			for _, t0 := range cfg.InitTabs {
				var l Line
				if os.Args[1] == "dfs" {
					l = exploreDFS(t, t0, cfg.ParentTab, cfg.MaxSched, rng)
				} else {
					l = runFree(t, t0, cfg.ParentTab, cfg.Rounds)
				}
				enc.Encode(l)
			}
		}
		f.Close()
	case "bigcopy":
		// Copy / DeepCopy are ONE read of the scope (AnkoEnvConc: a single critical section under the read lock), however many symbols it holds: a writer keeps
		// storing p then q (so q <= p <= q + 1 at every instant) and s[i] then s[i+1] for every filler pair, copiers check that relation in each snapshot.
		// A snapshot stitched together from several instants breaks it.  Prints SNAPSHOT-TORN and exits 3.
		rounds, _ := strconv.Atoi(os.Args[2])
		for _, nsym := range []int{3, 70, 200, 1000} {
			root := env.NewEnv()
			e := root.NewEnv()
			for i := 0; i < nsym; i++ {
				e.Define(fmt.Sprintf("s%04d", i), int64(0))
			}
			e.Define("p", int64(0))
			e.Define("q", int64(0))
			root.Define("rp", int64(0))
			root.Define("rq", int64(0))
			var stop int32
			var wg sync.WaitGroup
			wg.Add(1)
			go func() {
				defer wg.Done()
				for v := int64(1); atomic.LoadInt32(&stop) == 0; v++ {
					e.Set("p", v)
					e.Set("q", v)
					root.Set("rp", v)
					root.Set("rq", v)
					a, b := fmt.Sprintf("s%04d", int(v)%nsym), fmt.Sprintf("s%04d", (int(v)*7+nsym/2)%nsym)
					if a != b {
						e.Set(a, v)
						e.Set(b, v)
					}
				}
			}()
			torn := ""
			var mu sync.Mutex
			for g := 0; g < 3; g++ {
				wg.Add(1)
				go func(g int) {
					defer wg.Done()
					for r := 0; r < rounds && atomic.LoadInt32(&stop) == 0; r++ {
						var c *env.Env
						if g == 2 {
							c = e.DeepCopy()
						} else {
							c = e.Copy()
						}
						pv, _ := c.Get("p")
						qv, _ := c.Get("q")
						p, q := pv.(int64), qv.(int64)
						if !(q <= p && p <= q+1) {
							mu.Lock()
							torn = fmt.Sprintf("a copy of a scope with %d symbols holds p=%d q=%d (p is stored before q: q <= p <= q+1 at every instant)", nsym+2, p, q)
							mu.Unlock()
							atomic.StoreInt32(&stop, 1)
						}
						if g == 2 {
							rpv, _ := c.Get("rp")
							rqv, _ := c.Get("rq")
							if rp, rq := rpv.(int64), rqv.(int64); !(rq <= rp && rp <= rq+1) {
								mu.Lock()
								torn = fmt.Sprintf("a deep copy holds rp=%d rq=%d of the parent scope (rp is stored before rq)", rp, rq)
								mu.Unlock()
								atomic.StoreInt32(&stop, 1)
							}
						}
					}
				}(g)
			}
			time.Sleep(time.Duration(rounds/20+5) * time.Millisecond)
			atomic.StoreInt32(&stop, 1)
			wg.Wait()
			if torn != "" {
				fmt.Println("SNAPSHOT-TORN", torn)
				os.Exit(3)
			}
		}
	case "chain3":
		// race-detector stress beyond the two-scope model: a chain root <- mid <- leaf where every scope is read and written concurrently
		// through every operation that walks the chain (each scope's table must only ever be touched under that scope's own lock)
		rounds, _ := strconv.Atoi(os.Args[2])
		for r := 0; r < rounds; r++ {
			root := env.NewEnv()
			mid := root.NewEnv()
			leaf := mid.NewEnv()
			root.Define("r", int64(1))
			var wg sync.WaitGroup
			work := []func(){
				func() { leaf.DeleteGlobal("z"); leaf.DeleteGlobal("r") },
				func() { mid.Define("z", int64(r)); mid.Delete("z") },
				func() { leaf.Get("z"); leaf.Get("r") },
				func() { leaf.Set("z", int64(2)); leaf.Set("r", int64(3)) },
				func() { leaf.Addr("z"); leaf.GetValueSymbols(); mid.GetValueSymbols() },
				func() { root.Define("r", int64(4)); root.Define("q", int64(5)); root.Delete("q") },
				func() { leaf.DeepCopy(); mid.Copy() },
				func() { leaf.DefineGlobal("g", int64(6)); leaf.Get("g") },
				// the type tables and module lookups under the same regime
				func() { mid.DefineType("T", int64(0)); leaf.DefineType("U", ""); root.DefineGlobalType("G", 1.5) },
				func() { leaf.Type("T"); leaf.Type("G"); mid.GetTypeSymbols(); leaf.GetTypeSymbols() },
				func() { _ = leaf.String(); mid.Copy(); leaf.DeepCopy() }, // (String of a scope that holds a MODULE formats that module's tables without its lock: not an operation the statement lists)
				func() {
					mid.NewModule("mod")
					leaf.GetEnvFromPath([]string{"mod"})
					leaf.GetEnvFromPath([]string{"mod", "sub"})
				},
				func() {
					m, err := mid.GetEnvFromPath([]string{"mod"})
					if err == nil {
						m.Define("x", int64(1))
						m.NewModule("sub")
					}
				},
				func() { mid.Define("mod", int64(3)); mid.Delete("mod"); leaf.GetEnvFromPath([]string{"mod"}) },
			}
			for _, f := range work {
				f := f
				wg.Add(1)
				go func() { defer wg.Done(); f(); runtime.Gosched(); f() }()
			}
			wg.Wait()
		}
		fmt.Println("chain3 rounds", rounds)
	case "sched":
		var c struct {
			Progs [][]Op `json:"progs"`
			Tab0  Tab    `json:"tab0"`
			PTab  Tab    `json:"parent_tab"`
			Sched []int  `json:"sched"`
		}
		b, err := os.ReadFile(os.Args[2])
		if err == nil {
			err = json.Unmarshal(b, &c)
		}
		if err != nil {
			fmt.Fprintln(os.Stderr, err)
			os.Exit(2)
		}
		out, _, _, dl := runGated(c.Progs, c.Tab0, c.PTab, c.Sched)
		r := map[string]interface{}{"deadlock": dl, "outcome": out, "steps": S.trace}
		json.NewEncoder(os.Stdout).Encode(r)
	case "shapes":
		// every call alone: the sequence of lock operations it performs (model drift check)
		var cfg Config
		b, _ := os.ReadFile(os.Args[2])
		json.Unmarshal(b, &cfg)
		shapes := map[string][]string{}
		for _, t0 := range cfg.InitTabs {
			for _, o := range cfg.Alphabet {
				_, _, _, _ = runGated([][]Op{{o}}, t0, cfg.ParentTab, nil)
				k := fmt.Sprintf("%s(%s)/%d", o.Op, o.N, len(t0.K))
				shapes[k] = S.trace
			}
		}
		json.NewEncoder(os.Stdout).Encode(shapes)
	}
}
