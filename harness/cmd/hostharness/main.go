// hostharness runs source texts through parser.ParseSrc + vm.ExecuteContext in worker processes and records, per case,
// how the call ended from the host's point of view (property C01).
//
//	hostharness run <cases.ndjson> <obs.ndjson>      parent: starts workers, attributes a dead worker to the case it was running
//	hostharness worker <cases.ndjson> <out.ndjson>   worker: one result line per case ("value" | "error" | "panic")
//
// A case is {"id", "src"} or {"id", "b64"} (arbitrary bytes).  Debug is off.  The environment binds values a script could
// construct itself (numbers, strings, slices, maps, pointers, channels, modules, script and Go functions) plus core builtins.
package main

import (
	"bufio"
	"context"
	"encoding/base64"
	"encoding/json"
	"fmt"
	"os"
	"os/exec"
	"strings"
	"syscall"
	"time"

	"github.com/mattn/anko/core"
	"github.com/mattn/anko/env"
	_ "github.com/mattn/anko/packages"
	"github.com/mattn/anko/parser"
	"github.com/mattn/anko/vm"
)

type Case struct {
	ID  string `json:"id"`
	Src string `json:"src"`
	B64 string `json:"b64"`
}

type Obs struct {
	ID      string `json:"id"`
	Outcome string `json:"outcome"`
	Detail  string `json:"detail,omitempty"`
}

func newEnv() *env.Env {
	e := env.NewEnv()
	core.Import(e)
	e.Define("vi", int64(3))
	e.Define("vz", int64(0))
	e.Define("vbig", int64(1)<<62)
	e.Define("vneg", int64(-5))
	e.Define("vf", float64(1.5))
	e.Define("vu", uint64(7))       // numbers of the other kinds a script gets from make(uint64), make([]byte, n)[i], make(float32), ...
	e.Define("vby", []byte{1, 2})
	e.Define("vf32", float32(2.5))
	e.Define("vi8", int8(-3))
	e.Define("vs", "ab")
	e.Define("ve", "")
	e.Define("vsu", "\u00e9\u20ac")     // 2 characters, 5 bytes: an index can be inside the bytes and beyond the characters
	e.Define("vsb", "a\xff\xfe")        // not valid UTF-8
	e.Define("vb", true)
	e.Define("vn", nil)
	e.Define("vl", []interface{}{int64(1), int64(2), int64(3)})
	e.Define("vel", []interface{}{})
	e.Define("vll", []interface{}{[]interface{}{int64(1)}, nil, "x"})
	e.Define("vm", map[interface{}]interface{}{"k": int64(1), "j": int64(2)})
	c := make(chan int64, 4)
	c <- 1
	e.Define("vc", c)
	e.Define("vg", func(a int64) int64 { return a * 2 })
	e.Define("id", func(x interface{}) interface{} { return x })
	e.Define("ga3", func(a [3]int64) int64 { return a[0] + a[2] })
	e.Define("gpf", func(p *float64) bool { return p == nil })
	_, err := vm.Execute(e, nil, "vfn = func(a) { return a + 1 }\nvfv = func(a...) { return len(a) }\nmodule vmo { x = 1 }\nvp = new(int64)\nvnp = [new(int64)]\nvst = make(struct { A int64, B string })\nvtl = make([]int64, 2)\nvtm = make(map[string]int64)\nvcc = make(chan interface)\nvsi = make(struct { A interface })\nvsi.A = [1]\nvsf = make(struct { F interface })\nvsf.F = vfn\nvtmi = make(map[int64]string)\nvtmi[1] = \"a\"\nvtmf = make(map[float64]bool)\nvtls = make([]string, 1)\nvsm = make(struct { M map[string]int64, L []int64, P *int64 })\nvnilm = vsm.M\nvnill = vsm.L\nvps = &vst\nvnilp = vsm.P\nvtlp = make([]*int64, 1)\nvnl = [nil]\nvtfp = make([]*float64, 1)\nvcp = make(chan *int64, 2)\nvcp <- nil\nmake(type VF, vfn)\nvmf = make(VF)\nvnf = make([]VF, 1)[0]\nmake(type VFV, vfv)\nvmfv = make(VFV)\nmake(type VMO, vmo)\nvnmod = make([]VMO, 1)[0]\nverr0 = nil\ntry {\n throw \"x\"\n} catch e {\n verr0 = e\n}\nmake(type VER, verr0)\nvnerr = make([]VER, 1)[0]")
	if err != nil {
		panic(err)
	}
	return e
}

func one(c Case) (o Obs) {
	o.ID = c.ID
	src := c.Src
	if c.B64 != "" {
		b, _ := base64.StdEncoding.DecodeString(c.B64)
		src = string(b)
	}
	defer func() {
		if r := recover(); r != nil {
			o.Outcome = "panic"
			o.Detail = fmt.Sprint(r)
		}
	}()
	stmt, err := parser.ParseSrc(src)
	if err != nil {
		o.Outcome = "error"
		return
	}
	ctx, cancel := context.WithTimeout(context.Background(), 400*time.Millisecond)
	defer cancel()
	_, err = vm.RunContext(ctx, newEnv(), nil, stmt)
	if err != nil {
		o.Outcome = "error"
	} else {
		o.Outcome = "value"
	}
	return
}

func worker(in, out string) {
	lim := syscall.Rlimit{Cur: 4 << 30, Max: 4 << 30}
	syscall.Setrlimit(syscall.RLIMIT_AS, &lim)
	f, err := os.Open(in)
	if err != nil {
		os.Exit(2)
	}
	of, _ := os.Create(out)
	defer of.Close()
	sc := bufio.NewScanner(f)
	sc.Buffer(make([]byte, 1<<22), 1<<26)
	n := 0
	for sc.Scan() {
		var c Case
		if json.Unmarshal(sc.Bytes(), &c) != nil {
			os.Exit(2)
		}
		fmt.Fprintf(of, "{\"begin\":%q}\n", c.ID)
		of.Sync()
		o := one(c)
		if strings.Contains(c.Src, "go ") {
			time.Sleep(2 * time.Millisecond) // a goroutine started by the script gets a chance to fail while this case is current
		}
		b, _ := json.Marshal(o)
		of.Write(append(b, '\n'))
		n++
		if n%50 == 0 {
			of.Sync()
		}
	}
	time.Sleep(20 * time.Millisecond)
}

func run(in, out string) {
	var lines []string
	var ids []string
	f, _ := os.Open(in)
	sc := bufio.NewScanner(f)
	sc.Buffer(make([]byte, 1<<22), 1<<26)
	for sc.Scan() {
		var c Case
		json.Unmarshal(sc.Bytes(), &c)
		lines = append(lines, sc.Text())
		ids = append(ids, c.ID)
	}
	self, _ := os.Executable()
	of, _ := os.Create(out)
	defer of.Close()
	enc := json.NewEncoder(of)
	start := 0
	deaths := 0
	for start < len(lines) {
		win := out + ".in"
		wout := out + ".out"
		os.WriteFile(win, []byte(strings.Join(lines[start:], "\n")+"\n"), 0o644)
		os.Remove(wout)
		cmd := exec.Command(self, "worker", win, wout)
		var stderr strings.Builder
		cmd.Stderr = &stderr
		cmd.Start()
		done := make(chan error, 1)
		go func() { done <- cmd.Wait() }()
		answered := -1
		killed := false
	wait:
		for {
			select {
			case <-done:
				break wait
			case <-time.After(5 * time.Second):
				b, _ := os.ReadFile(wout)
				n := strings.Count(string(b), "\n")
				if n == answered {
					cmd.Process.Kill()
					<-done
					killed = true
					break wait
				}
				answered = n
			}
		}
		b, _ := os.ReadFile(wout)
		got := 0
		current := ""
		for _, ln := range strings.Split(string(b), "\n") {
			if strings.HasPrefix(ln, "{\"begin\":") {
				var x struct{ Begin string }
				json.Unmarshal([]byte(ln), &x)
				current = x.Begin
				continue
			}
			var o Obs
			if ln != "" && json.Unmarshal([]byte(ln), &o) == nil && o.ID != "" {
				enc.Encode(o)
				got++
				current = ""
			}
		}
		if start+got >= len(lines) {
			break
		}
		// the worker died (or hung) during `current` -- or right after the last answered case if a stray goroutine failed
		deaths++
		victim := ids[start+got]
		if current != "" {
			victim = current
		}
		why := "dead"
		if killed {
			why = "timeout"
		}
		se := stderr.String()
		if len(se) > 600 {
			se = se[:600]
		}
		enc.Encode(Obs{ID: victim, Outcome: why, Detail: se})
		start = start + got + 1
		if deaths > 200 {
			break
		}
	}
}

func main() {
	switch {
	case len(os.Args) >= 4 && os.Args[1] == "run":
		run(os.Args[2], os.Args[3])
	case len(os.Args) >= 4 && os.Args[1] == "worker":
		worker(os.Args[2], os.Args[3])
	default:
		fmt.Fprintln(os.Stderr, "usage: hostharness run|worker <cases.ndjson> <out.ndjson>")
		os.Exit(2)
	}
}
