// eqharness records, for every ordered pair of the C06 value pool, the six syntactic uses of equality as the
// real VM evaluates them (both operand orders), for validation by spec/Trace_AnkoEq.tla.
//
//	eqharness <eq_pool.ndjson> <eq_obs.ndjson>
package main

import (
	"bufio"
	"encoding/binary"
	"encoding/json"
	"fmt"
	"math"
	"os"
	"reflect"

	"github.com/mattn/anko/env"
	"github.com/mattn/anko/vm"
)

type Num struct {
	K string `json:"k"`
	L []int  `json:"l"`
}

type Val struct {
	T   string `json:"t"`
	L   []int  `json:"l"`
	S   string `json:"s"`
	Num Num    `json:"num"`
	Es  []Val  `json:"es"`
}

func u64(l []int) uint64 {
	b := make([]byte, 8)
	for i := 0; i < 8 && i < len(l); i++ {
		b[i] = byte(l[i])
	}
	return binary.LittleEndian.Uint64(b)
}

func (v Val) goValue() interface{} {
	switch v.T {
	case "nil":
		switch v.S { // nil values of concrete types, as Go hands them over (an unset field, a typed nil bound by the host): nil all the same
		case "chan":
			return (chan int64)(nil)
		case "func":
			return (func())(nil)
		case "slice":
			return []interface{}(nil)
		case "map":
			return map[interface{}]interface{}(nil)
		case "ptr":
			return (*int64)(nil)
		}
		return nil
	case "bool":
		return v.L[0] == 1
	case "cplx":
		return complex(float64(v.L[0]), float64(v.L[1]))
	case "int":
		return int64(u64(v.L))
	case "flt":
		return math.Float64frombits(u64(v.L))
	case "str":
		return v.S
	case "list":
		out := make([]interface{}, len(v.Es))
		for i, e := range v.Es {
			out[i] = e.goValue()
		}
		return out
	case "map":
		out := map[interface{}]interface{}{}
		for _, p := range v.Es {
			out[p.Es[0].goValue()] = p.Es[1].goValue()
		}
		return out
	}
	return nil
}

func den(v Val) (float64, bool) {
	switch v.T {
	case "int":
		return float64(int64(u64(v.L))), true
	case "flt":
		return math.Float64frombits(u64(v.L)), true
	case "str":
		switch v.Num.K {
		case "int":
			return float64(int64(u64(v.Num.L))), true
		case "flt", "big":
			return math.Float64frombits(u64(v.Num.L)), true
		}
	}
	return 0, false
}

var scripts = map[string]string{
	"eq":   "a == b",
	"ne":   "a != b",
	"inn":  "a in [b]",
	"sw":   "func() { switch a { case b: return true }; return false }()",
	"lege": "a <= b && a >= b",
}

// the same uses with one operand written as a LITERAL in the source (%[1]s the left operand, %[2]s the right one)
var scriptsLit = map[string]string{
	"eq":   "%[1]s == %[2]s",
	"ne":   "%[1]s != %[2]s",
	"inn":  "%[1]s in [%[2]s]",
	"sw":   "func() { switch %[1]s { case %[2]s: return true }; return false }()",
	"lege": "%[1]s <= %[2]s && %[1]s >= %[2]s",
}

// the same uses with the operands arriving as results of Go functions declared to return interface{} (not addressable, still wrapped)
var scriptsRet = map[string]string{
	"eq":   "ga() == gb()",
	"ne":   "ga() != gb()",
	"inn":  "ga() in [gb()]",
	"sw":   "func() { switch ga() { case gb(): return true }; return false }()",
	"lege": "ga() <= gb() && ga() >= gb()",
}

// ... as the value variable of a map range and a receive from a channel of interface{}
var scriptsRange = map[string]string{
	"eq":   "func() { for k, v in ma { for k2, w in mb { return v == w } } }()",
	"ne":   "func() { for k, v in ma { for k2, w in mb { return v != w } } }()",
	"inn":  "func() { for k, v in ma { return v in lb } }()",
	"sw":   "func() { for k, v in ma { switch v { case <-cb: return true }; return false } }()",
	"lege": "func() { for k, v in ma { for k2, w in mb { return v <= w && v >= w } } }()",
}

// literal spelling of a pool value, "" when it has none that every reader of the grammar agrees on
func (v Val) literal() string {
	switch v.T {
	case "nil":
		if v.S == "" {
			return "nil"
		}
	case "bool":
		if v.L[0] == 1 {
			return "true"
		}
		return "false"
	case "int":
		return fmt.Sprint(int64(u64(v.L)))
	case "flt":
		f := math.Float64frombits(u64(v.L))
		if f == math.Trunc(f) && math.Abs(f) < 1e15 && !(f == 0 && math.Signbit(f)) {
			return fmt.Sprintf("%.1f", f)
		}
		if f == 0.5 || f == 1.5 {
			return fmt.Sprint(f)
		}
	case "str":
		for _, r := range v.S {
			if r < 32 || r > 126 || r == '\\' || r == '"' {
				return ""
			}
		}
		return "\"" + v.S + "\""
	}
	return ""
}

// the same uses with both operands read out of containers (interface-typed slice elements), as values mostly are in real scripts
var scriptsElem = map[string]string{
	"eq":   "la[0] == lb[0]",
	"ne":   "la[0] != lb[0]",
	"inn":  "la[0] in lb",
	"sw":   "func() { switch la[0] { case lb[0]: return true }; return false }()",
	"lege": "la[0] <= lb[0] && la[0] >= lb[0]",
}

func eval(a, b interface{}, src string) (res bool, status string) {
	defer func() {
		if r := recover(); r != nil {
			status = fmt.Sprint("panic: ", r)
		}
	}()
	e := env.NewEnv()
	e.Define("a", a)
	e.Define("b", b)
	e.Define("la", []interface{}{a})
	e.Define("lb", []interface{}{b})
	e.Define("ga", func() interface{} { return a })
	e.Define("gb", func() interface{} { return b })
	e.Define("ma", map[string]interface{}{"k": a})
	e.Define("mb", map[string]interface{}{"k": b})
	cb := make(chan interface{}, 1)
	cb <- b
	e.Define("cb", cb)
	v, err := vm.Execute(e, nil, src)
	if err != nil {
		return false, "error: " + err.Error()
	}
	bv, ok := v.(bool)
	if !ok {
		return false, fmt.Sprintf("not a bool: %T", v)
	}
	return bv, ""
}

func main() {
	if len(os.Args) < 3 {
		fmt.Fprintln(os.Stderr, "usage: eqharness <pool> <obs>")
		os.Exit(2)
	}
	f, err := os.Open(os.Args[1])
	if err != nil {
		fmt.Fprintln(os.Stderr, err)
		os.Exit(2)
	}
	var pool []Val
	sc := bufio.NewScanner(f)
	sc.Buffer(make([]byte, 1<<20), 1<<24)
	for sc.Scan() {
		var v Val
		if err := json.Unmarshal(sc.Bytes(), &v); err != nil {
			fmt.Fprintln(os.Stderr, err)
			os.Exit(2)
		}
		pool = append(pool, v)
	}
	out, _ := os.Create(os.Args[2])
	defer out.Close()
	enc := json.NewEncoder(out)
	for i := range pool {
		for j := i; j < len(pool); j++ {
			a, b := pool[i].goValue(), pool[j].goValue()
			provs := []string{"plain", "elem", "ret", "range"}
			if pool[j].literal() != "" {
				provs = append(provs, "litb") // b written as a literal, a in a variable
			}
			if pool[i].literal() != "" {
				provs = append(provs, "lita")
			}
			// two views of ONE backing array: when a is a proper prefix of b, also compare b[:len(a)] with b
			if la, ok := a.([]interface{}); ok {
				if lb, ok := b.([]interface{}); ok && len(la) < len(lb) && reflect.DeepEqual(la, lb[:len(la)]) {
					provs = append(provs, "shared")
				}
			}
			// an integer is an integer whatever its Go kind: small non-negative integers also handed over as uintptr / int32 / uint16 / uint64
			ai, aok := a.(int64)
			bi, bok := b.(int64)
			small := func(x int64) bool { return x >= 0 && x < 60000 }
			if aok && bok && small(ai) && small(bi) {
				provs = append(provs, "uintptr", "mixedint", "uint64")
			}
			for _, prov := range provs {
				set := scripts
				if prov == "elem" {
					set = scriptsElem
				}
				if prov == "ret" {
					set = scriptsRet
				}
				if prov == "range" {
					set = scriptsRange
				}
				a, b := a, b
				if prov == "shared" {
					a = b.([]interface{})[:len(a.([]interface{}))]
				}
				switch prov {
				case "uintptr":
					a, b = uintptr(ai), uintptr(bi)
				case "mixedint":
					a, b = int32(ai), uint16(bi)
				case "uint64":
					a, b = uint64(ai), uint64(bi)
				}
				o := map[string]interface{}{"i": i + 1, "j": j + 1, "prov": prov, "problems": []string{}}
				var problems []string
				for k, src := range set {
					src2 := src // the use with the roles of a and b swapped
					switch prov {
					case "litb":
						src, src2 = fmt.Sprintf(scriptsLit[k], "a", pool[j].literal()), fmt.Sprintf(scriptsLit[k], pool[j].literal(), "b")
					case "lita":
						src, src2 = fmt.Sprintf(scriptsLit[k], pool[i].literal(), "b"), fmt.Sprintf(scriptsLit[k], "a", pool[i].literal())
					}
					r, st := eval(a, b, src)
					if st != "" {
						problems = append(problems, k+": "+st)
					}
					o[k] = r
					r2, st2 := eval(b, a, src2)
					if st2 != "" {
						problems = append(problems, "r"+k+": "+st2)
					}
					o["r"+k] = r2
				}
				x, okx := den(pool[i])
				y, oky := den(pool[j])
				o["feq"] = okx && oky && x == y
				if problems != nil {
					o["problems"] = problems
				}
				enc.Encode(o)
			}
		}
	}
}
