// eqharness records, for every ordered pair of the C06 value pool, the six syntactic uses of equality as the
// real VM evaluates them (both operand orders), for validation by spec/Trace_AnkoEq.tla.
//
//	eqharness <eq_pool.ndjson> <eq_obs.ndjson>
package main

import (
	"bufio"
	"encoding/binary"
	"encoding/json"
	"fmt"
	"math"
	"os"
	"reflect"

	"github.com/mattn/anko/env"
	"github.com/mattn/anko/vm"
)

type Num struct {
	K string `json:"k"`
	L []int  `json:"l"`
}

type Val struct {
	T   string `json:"t"`
	L   []int  `json:"l"`
	S   string `json:"s"`
	Num Num    `json:"num"`
	Es  []Val  `json:"es"`
}

func u64(l []int) uint64 {
	b := make([]byte, 8)
	for i := 0; i < 8 && i < len(l); i++ {
		b[i] = byte(l[i])
	}
	return binary.LittleEndian.Uint64(b)
}

func (v Val) goValue() interface{} {
	switch v.T {
	case "nil":
		return nil
	case "bool":
		return v.L[0] == 1
	case "int":
		return int64(u64(v.L))
	case "flt":
		return math.Float64frombits(u64(v.L))
	case "str":
		return v.S
	case "list":
		out := make([]interface{}, len(v.Es))
		for i, e := range v.Es {
			out[i] = e.goValue()
		}
		return out
	case "map":
		out := map[interface{}]interface{}{}
		for _, p := range v.Es {
			out[p.Es[0].goValue()] = p.Es[1].goValue()
		}
		return out
	}
	return nil
}

func den(v Val) (float64, bool) {
	switch v.T {
	case "int":
		return float64(int64(u64(v.L))), true
	case "flt":
		return math.Float64frombits(u64(v.L)), true
	case "str":
		switch v.Num.K {
		case "int":
			return float64(int64(u64(v.Num.L))), true
		case "flt", "big":
			return math.Float64frombits(u64(v.Num.L)), true
		}
	}
	return 0, false
}

var scripts = map[string]string{
	"eq":   "a == b",
	"ne":   "a != b",
	"inn":  "a in [b]",
	"sw":   "func() { switch a { case b: return true }; return false }()",
	"lege": "a <= b && a >= b",
}

// the same uses with both operands read out of containers (interface-typed slice elements), as values mostly are in real scripts
var scriptsElem = map[string]string{
	"eq":   "la[0] == lb[0]",
	"ne":   "la[0] != lb[0]",
	"inn":  "la[0] in lb",
	"sw":   "func() { switch la[0] { case lb[0]: return true }; return false }()",
	"lege": "la[0] <= lb[0] && la[0] >= lb[0]",
}

func eval(a, b interface{}, src string) (res bool, status string) {
	defer func() {
		if r := recover(); r != nil {
			status = fmt.Sprint("panic: ", r)
		}
	}()
	e := env.NewEnv()
	e.Define("a", a)
	e.Define("b", b)
	e.Define("la", []interface{}{a})
	e.Define("lb", []interface{}{b})
	v, err := vm.Execute(e, nil, src)
	if err != nil {
		return false, "error: " + err.Error()
	}
	bv, ok := v.(bool)
	if !ok {
		return false, fmt.Sprintf("not a bool: %T", v)
	}
	return bv, ""
}

func main() {
	if len(os.Args) < 3 {
		fmt.Fprintln(os.Stderr, "usage: eqharness <pool> <obs>")
		os.Exit(2)
	}
	f, err := os.Open(os.Args[1])
	if err != nil {
		fmt.Fprintln(os.Stderr, err)
		os.Exit(2)
	}
	var pool []Val
	sc := bufio.NewScanner(f)
	sc.Buffer(make([]byte, 1<<20), 1<<24)
	for sc.Scan() {
		var v Val
		if err := json.Unmarshal(sc.Bytes(), &v); err != nil {
			fmt.Fprintln(os.Stderr, err)
			os.Exit(2)
		}
		pool = append(pool, v)
	}
	out, _ := os.Create(os.Args[2])
	defer out.Close()
	enc := json.NewEncoder(out)
	for i := range pool {
		for j := i; j < len(pool); j++ {
			a, b := pool[i].goValue(), pool[j].goValue()
			provs := []string{"plain", "elem"}
			// two views of ONE backing array: when a is a proper prefix of b, also compare b[:len(a)] with b
			if la, ok := a.([]interface{}); ok {
				if lb, ok := b.([]interface{}); ok && len(la) < len(lb) && reflect.DeepEqual(la, lb[:len(la)]) {
					provs = append(provs, "shared")
				}
			}
			for _, prov := range provs {
				set := scripts
				if prov == "elem" {
					set = scriptsElem
				}
				a, b := a, b
				if prov == "shared" {
					a = b.([]interface{})[:len(a.([]interface{}))]
				}
				o := map[string]interface{}{"i": i + 1, "j": j + 1, "prov": prov, "problems": []string{}}
				var problems []string
				for k, src := range set {
					r, st := eval(a, b, src)
					if st != "" {
						problems = append(problems, k+": "+st)
					}
					o[k] = r
					r2, st2 := eval(b, a, src)
					if st2 != "" {
						problems = append(problems, "r"+k+": "+st2)
					}
					o["r"+k] = r2
				}
				x, okx := den(pool[i])
				y, oky := den(pool[j])
				o["feq"] = okx && oky && x == y
				if problems != nil {
					o["problems"] = problems
				}
				enc.Encode(o)
			}
		}
	}
}
