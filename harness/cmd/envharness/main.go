// envharness binds spec/AnkoEnv.tla to the real package env.
//
//	envharness replay <tlc.out> <result.json>   spec -> code: re-drive every emitted history through the public API
//	envharness random <seed> <ntraces> <len> <out.ndjson>   code -> spec: record random histories for Trace_AnkoEnv
package main

import (
	"encoding/json"
	"fmt"
	"math/rand"
	"os"
	"reflect"
	"sort"
	"strconv"

	"github.com/mattn/anko/env"
	"verifharness/internal/tlcout"
)

type Call struct {
	Op string   `json:"op"`
	H  int      `json:"h"`
	N  string   `json:"n"`
	V  int      `json:"v"`
	P  []string `json:"p"`
}

type Res struct {
	K string   `json:"k"`
	I int      `json:"i"`
	S []string `json:"s"`
}

type Step struct {
	C   Call `json:"c"`
	Res Res  `json:"res"`
}

type ScopeProj struct {
	V  map[string]int `json:"v"`
	T  map[string]int `json:"t"`
	LV map[string]int `json:"lv"`
	LT map[string]int `json:"lt"`
}

type Case struct {
	H    []Step      `json:"h"`
	Post []ScopeProj `json:"post"`
}

type Pool struct {
	Names   []string       `json:"names"`
	Dotted  []string       `json:"dotted"`
	ExtV    map[string]int `json:"extv"`
	ExtT    map[string]int `json:"extt"`
	Builtin map[string]int `json:"builtin"`
}

// ---- token <-> Go value mapping

type T1 struct{ A int }
type T2 struct{ B string }
type TX struct{ X bool }

var typeTok = map[int]reflect.Type{
	1: reflect.TypeOf(T1{}), 2: reflect.TypeOf(T2{}), 9: reflect.TypeOf(TX{}), 10: reflect.TypeOf(&TX{}),
	50: reflect.TypeOf(int64(0)), 51: reflect.TypeOf(""), 52: reflect.TypeOf(true), 53: reflect.TypeOf(float64(0)),
}

func tokOfType(t reflect.Type) int {
	for k, v := range typeTok {
		if v == t {
			return k
		}
	}
	return -2
}

type world struct {
	pool Pool
	hs   []*env.Env
	ext  *extLookup
}

type extLookup struct{ w *world }

func (x *extLookup) Get(s string) (reflect.Value, error) {
	if v, ok := x.w.pool.ExtV[s]; ok {
		return reflect.ValueOf(int64(v)), nil
	}
	return env.NilValue, fmt.Errorf("ext: no value %s", s)
}
func (x *extLookup) Type(s string) (reflect.Type, error) {
	if v, ok := x.w.pool.ExtT[s]; ok {
		return typeTok[v], nil
	}
	return env.NilType, fmt.Errorf("ext: no type %s", s)
}

func newWorld(p Pool) *world {
	w := &world{pool: p}
	w.ext = &extLookup{w}
	w.hs = []*env.Env{env.NewEnv()}
	return w
}

func (w *world) tokOfValue(v interface{}) int {
	switch x := v.(type) {
	case int64:
		return int(x)
	case *env.Env:
		for i, h := range w.hs {
			if h == x {
				return 100 + i + 1
			}
		}
		return -3
	case nil:
		return 90 // the nil value
	}
	return -2
}

func (w *world) valueOfTok(t int) reflect.Value {
	if t >= 100 {
		return reflect.ValueOf(w.hs[t-100-1])
	}
	if t == 90 { // the nil value, handed over as the reflect.Value of nil (the zero Value)
		return reflect.ValueOf(nil)
	}
	if t == 3 { // the addressable value
		p := reflect.New(reflect.TypeOf(int64(0))).Elem()
		p.SetInt(3)
		return p
	}
	return reflect.ValueOf(int64(t))
}

func errRes(err error) Res {
	if err != nil {
		return Res{K: "err", S: []string{}}
	}
	return Res{K: "ok", S: []string{}}
}

// do performs one API call on the real package; a panic is reported as result kind "panic".
func (w *world) do(c Call) (res Res) {
	defer func() {
		if r := recover(); r != nil {
			res = Res{K: "panic", S: []string{fmt.Sprint(r)}}
		}
	}()
	e := w.hs[c.H-1]
	switch c.Op {
	case "Define":
		if c.V == 90 && c.H%2 == 1 {
			return errRes(e.Define(c.N, nil))
		}
		if c.V == 3 || c.V == 90 || c.V >= 100 && c.V%2 == 0 {
			return errRes(e.DefineValue(c.N, w.valueOfTok(c.V)))
		}
		return errRes(e.Define(c.N, w.valueOfTok(c.V).Interface()))
	case "DefineGlobal":
		if c.V == 90 && c.H%2 == 1 {
			return errRes(e.DefineGlobal(c.N, nil))
		}
		if c.V == 3 || c.V == 90 || c.V >= 100 && c.V%2 == 0 {
			return errRes(e.DefineGlobalValue(c.N, w.valueOfTok(c.V)))
		}
		return errRes(e.DefineGlobal(c.N, w.valueOfTok(c.V).Interface()))
	case "Set":
		if c.V == 90 && c.H%2 == 1 {
			return errRes(e.Set(c.N, nil))
		}
		if c.V == 3 || c.V == 90 || c.V%2 == 0 {
			return errRes(e.SetValue(c.N, w.valueOfTok(c.V)))
		}
		return errRes(e.Set(c.N, w.valueOfTok(c.V).Interface()))
	case "Get":
		var v interface{}
		var err error
		if c.H%2 == 0 {
			var rv reflect.Value
			rv, err = e.GetValue(c.N)
			if err == nil {
				if !rv.IsValid() {
					return Res{K: "val", I: -5, S: []string{"GetValue returned the zero reflect.Value and no error"}}
				}
				v = rv.Interface()
			}
		} else {
			v, err = e.Get(c.N)
		}
		if err != nil {
			return errRes(err)
		}
		return Res{K: "val", I: w.tokOfValue(v), S: []string{}}
	case "Delete":
		e.Delete(c.N)
		return errRes(nil)
	case "DeleteGlobal":
		e.DeleteGlobal(c.N)
		return errRes(nil)
	case "DefineType":
		if c.V%2 == 0 {
			return errRes(e.DefineReflectType(c.N, typeTok[c.V]))
		}
		return errRes(e.DefineType(c.N, reflect.Zero(typeTok[c.V]).Interface()))
	case "DefineGlobalType":
		if c.V%2 == 0 {
			return errRes(e.DefineGlobalReflectType(c.N, typeTok[c.V]))
		}
		return errRes(e.DefineGlobalType(c.N, typeTok[c.V]))
	case "Type":
		t, err := e.Type(c.N)
		if err != nil {
			return errRes(err)
		}
		return Res{K: "val", I: tokOfType(t), S: []string{}}
	case "Addr":
		p, err := e.Addr(c.N)
		if err != nil {
			return errRes(err)
		}
		return Res{K: "val", I: w.tokOfValue(p.Elem().Interface()), S: []string{}}
	case "NewEnv":
		w.hs = append(w.hs, e.NewEnv())
		return Res{K: "env", I: len(w.hs), S: []string{}}
	case "NewModule":
		m, err := e.NewModule(c.N)
		if m == nil {
			return Res{K: "nilenv", S: []string{}}
		}
		w.hs = append(w.hs, m)
		if err != nil {
			return Res{K: "enverr", I: len(w.hs), S: []string{}}
		}
		return Res{K: "env", I: len(w.hs), S: []string{}}
	case "Path":
		p, err := e.GetEnvFromPath(c.P)
		if err != nil {
			return errRes(err)
		}
		return Res{K: "env", I: w.tokOfValue(p) - 100, S: []string{}}
	case "Copy":
		w.hs = append(w.hs, e.Copy())
		return Res{K: "env", I: len(w.hs), S: []string{}}
	case "DeepCopy":
		cp := e.DeepCopy()
		first := len(w.hs) + 1
		for x := cp; x != nil; x = x.VerifParent() {
			w.hs = append(w.hs, x)
		}
		return Res{K: "env", I: first, S: []string{}}
	case "Symbols":
		s := e.GetValueSymbols()
		sort.Strings(s)
		return Res{K: "syms", S: s}
	case "TypeSymbols":
		s := e.GetTypeSymbols()
		sort.Strings(s)
		return Res{K: "syms", S: s}
	case "SetExt":
		if c.V == 1 {
			e.SetExternalLookup(w.ext)
		} else {
			e.SetExternalLookup(nil)
		}
		return errRes(nil)
	}
	return Res{K: "unknown-op", S: []string{}}
}

// proj computes the observable projection of every scope through the public API only.
func (w *world) proj() (out []ScopeProj, perr string) {
	defer func() {
		if r := recover(); r != nil {
			perr = fmt.Sprint("panic in projection: ", r)
		}
	}()
	for _, e := range w.hs {
		sp := ScopeProj{V: map[string]int{}, T: map[string]int{}, LV: map[string]int{}, LT: map[string]int{}}
		own := map[string]bool{}
		for _, s := range e.GetValueSymbols() {
			own[s] = true
		}
		ownT := map[string]bool{}
		for _, s := range e.GetTypeSymbols() {
			ownT[s] = true
		}
		_ = e.String()
		for _, n := range w.pool.Names {
			v, err := e.Get(n)
			lv := -1
			if err == nil {
				lv = w.tokOfValue(v)
			}
			sp.LV[n] = lv
			if own[n] {
				sp.V[n] = lv
			} else {
				sp.V[n] = -1
			}
			t, err := e.Type(n)
			lt := -1
			if err == nil {
				lt = tokOfType(t)
			}
			sp.LT[n] = lt
			if ownT[n] {
				sp.T[n] = lt
			} else {
				sp.T[n] = -1
			}
		}
		// symbols outside the pool would be invisible above: count them
		for s := range own {
			if !inList(w.pool.Names, s) {
				sp.V["?"+s] = 0
			}
		}
		for s := range ownT {
			if !inList(w.pool.Names, s) {
				sp.T["?"+s] = 0
			}
		}
		out = append(out, sp)
	}
	return out, ""
}

func inList(l []string, s string) bool {
	for _, x := range l {
		if x == s {
			return true
		}
	}
	return false
}

func sameRes(a, b Res) bool {
	if a.K != b.K || a.I != b.I || len(a.S) != len(b.S) {
		return false
	}
	x := append([]string{}, a.S...)
	y := append([]string{}, b.S...)
	sort.Strings(x)
	sort.Strings(y)
	for i := range x {
		if x[i] != y[i] {
			return false
		}
	}
	return true
}

type Mismatch struct {
	Case     []Step      `json:"history"`
	Step     int         `json:"step"`
	What     string      `json:"what"`
	Expected interface{} `json:"expected"`
	Got      interface{} `json:"got"`
}

type Summary struct {
	Cases      int            `json:"cases"`
	Steps      int            `json:"steps"`
	Distinct   int            `json:"distinct_nontrivial"`
	Mismatches []Mismatch     `json:"mismatches"`
	NMismatch  int            `json:"n_mismatch"`
	Samples    []Case         `json:"samples"`
	OpCount    map[string]int `json:"op_count"`
}

func replay(path, outPath string) {
	var pool *Pool
	sum := Summary{OpCount: map[string]int{}}
	seen := map[string]bool{}
	err := tlcout.Each(path, func(raw []byte) error {
		if pool == nil {
			var p Pool
			if err := json.Unmarshal(raw, &p); err != nil || len(p.Names) == 0 {
				return fmt.Errorf("first emitted line is not the pool: %s", raw)
			}
			sort.Strings(p.Names)
			pool = &p
			return nil
		}
		var c Case
		if err := json.Unmarshal(raw, &c); err != nil {
			return fmt.Errorf("bad case %v: %s", err, raw)
		}
		sum.Cases++
		w := newWorld(*pool)
		for i, st := range c.H {
			got := w.do(st.C)
			sum.Steps++
			if !sameRes(got, st.Res) {
				sum.NMismatch++
				if len(sum.Mismatches) < 20 {
					sum.Mismatches = append(sum.Mismatches, Mismatch{Case: c.H[:i+1], Step: i, What: "result of " + st.C.Op, Expected: st.Res, Got: got})
				}
				return nil
			}
		}
		last := c.H[len(c.H)-1].C
		sum.OpCount[last.Op]++
		key := string(raw)
		if !seen[key] {
			seen[key] = true
			if len(c.H) >= 2 {
				sum.Distinct++
			}
		}
		got, perr := w.proj()
		if perr != "" || !reflect.DeepEqual(normProj(got), normProj(c.Post)) {
			sum.NMismatch++
			if len(sum.Mismatches) < 20 {
				var g interface{} = got
				if perr != "" {
					g = perr
				}
				sum.Mismatches = append(sum.Mismatches, Mismatch{Case: c.H, Step: len(c.H) - 1, What: "state after " + last.Op, Expected: c.Post, Got: g})
			}
		}
		if len(sum.Samples) < 3 && len(c.H) >= 3 && sum.Cases%97 == 0 {
			sum.Samples = append(sum.Samples, c)
		}
		return nil
	})
	if err != nil {
		fmt.Fprintln(os.Stderr, "envharness:", err)
		os.Exit(2)
	}
	b, _ := json.Marshal(sum)
	if err := os.WriteFile(outPath, b, 0o644); err != nil {
		fmt.Fprintln(os.Stderr, err)
		os.Exit(2)
	}
}

func normProj(p []ScopeProj) []ScopeProj {
	if p == nil {
		return []ScopeProj{}
	}
	return p
}

// ---- random histories (independent of the specification)

type TraceLine struct {
	Ev   string      `json:"ev"`
	C    *Call       `json:"c,omitempty"`
	Res  *Res        `json:"res,omitempty"`
	Post []ScopeProj `json:"post,omitempty"`
	// header fields
	Names   []string       `json:"names,omitempty"`
	Dotted  []string       `json:"dotted,omitempty"`
	ExtV    map[string]int `json:"extv,omitempty"`
	ExtT    map[string]int `json:"extt,omitempty"`
	Builtin map[string]int `json:"builtin,omitempty"`
}

func random(seed int64, ntraces, length int, outPath string) {
	pool := Pool{
		Names:   []string{"a", "b", "c", "m", "n", "x.y", "int64", "string"},
		Dotted:  []string{"x.y"},
		ExtV:    map[string]int{"a": 8, "c": 7, "n": 6},
		ExtT:    map[string]int{"int64": 10, "b": 9},
		Builtin: map[string]int{"int64": 50, "string": 51, "bool": 52, "float64": 53},
	}
	sort.Strings(pool.Names)
	rng := rand.New(rand.NewSource(seed))
	f, err := os.Create(outPath)
	if err != nil {
		fmt.Fprintln(os.Stderr, err)
		os.Exit(2)
	}
	defer f.Close()
	enc := json.NewEncoder(f)
	enc.Encode(TraceLine{Ev: "hdr", Names: pool.Names, Dotted: pool.Dotted, ExtV: pool.ExtV, ExtT: pool.ExtT, Builtin: pool.Builtin})
	ops := []string{"Define", "Define", "Define", "DefineGlobal", "Set", "Set", "Get", "Delete", "DeleteGlobal", "DefineType", "DefineGlobalType",
		"Type", "Addr", "NewEnv", "NewEnv", "NewModule", "NewModule", "Path", "Path", "Copy", "DeepCopy", "Symbols", "TypeSymbols", "SetExt"}
	tvals := []int{1, 2, 9, 10, 50}
	const maxScopes = 8
	for t := 0; t < ntraces; t++ {
		enc.Encode(TraceLine{Ev: "reset"})
		w := newWorld(pool)
		for i := 0; i < length; i++ {
			c := Call{Op: ops[rng.Intn(len(ops))], H: 1 + rng.Intn(len(w.hs)), N: pool.Names[rng.Intn(len(pool.Names))], P: []string{}}
			switch c.Op {
			case "Define", "DefineGlobal":
				if rng.Intn(4) == 0 {
					c.V = 100 + 1 + rng.Intn(len(w.hs))
				} else {
					c.V = 1 + rng.Intn(5)
				}
				if rng.Intn(8) == 0 {
					c.V = 90
				}
			case "Set":
				c.V = 1 + rng.Intn(5)
				if rng.Intn(8) == 0 {
					c.V = 90
				}
			case "DefineType", "DefineGlobalType":
				c.V = tvals[rng.Intn(len(tvals))]
			case "SetExt":
				c.V = rng.Intn(2)
				c.N = ""
			case "Path":
				n := rng.Intn(4)
				for j := 0; j < n; j++ {
					c.P = append(c.P, []string{"m", "n", "a"}[rng.Intn(3)])
				}
				c.N = ""
			case "NewEnv", "Copy", "NewModule":
				if len(w.hs) >= maxScopes {
					c.Op = "Get"
				}
				if c.Op == "NewModule" && rng.Intn(3) > 0 {
					c.N = []string{"m", "n"}[rng.Intn(2)]
				}
			case "DeepCopy":
				d := 0
				for x := w.hs[c.H-1]; x != nil; x = x.VerifParent() {
					d++
				}
				if len(w.hs)+d > maxScopes {
					c.Op = "Type"
				}
			}
			if c.Op == "Symbols" || c.Op == "TypeSymbols" || c.Op == "NewEnv" || c.Op == "Copy" || c.Op == "DeepCopy" {
				c.N = ""
			}
			res := w.do(c)
			if res.S == nil {
				res.S = []string{}
			}
			post, perr := w.proj()
			if perr != "" {
				res = Res{K: "panic", S: []string{perr}}
			}
			cc := c
			enc.Encode(TraceLine{Ev: "call", C: &cc, Res: &res, Post: post})
			if res.K == "panic" {
				break
			}
		}
	}
}

func main() {
	if len(os.Args) >= 4 && os.Args[1] == "replay" {
		replay(os.Args[2], os.Args[3])
		return
	}
	if len(os.Args) >= 6 && os.Args[1] == "random" {
		seed, _ := strconv.ParseInt(os.Args[2], 10, 64)
		n, _ := strconv.Atoi(os.Args[3])
		l, _ := strconv.Atoi(os.Args[4])
		random(seed, n, l, os.Args[5])
		return
	}
	fmt.Fprintln(os.Stderr, "usage: envharness replay <tlc.out> <result.json> | random <seed> <n> <len> <out>")
	os.Exit(2)
}
