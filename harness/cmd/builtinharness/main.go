// builtinharness observes the core builtins and package tables for property C19.
//
//	builtinharness cases <cases.ndjson> <tlc.out> <result.json>   range / toInt / toFloat against the TLC-computed expectation
//	builtinharness child <cases.ndjson> <out.ndjson>              (worker: evaluates the cases, one result line each, under a memory limit)
//	builtinharness native <result.json>                            the remaining builtins against the same computation done natively in Go
//	builtinharness packages <entries.ndjson>                       dump of env.Packages / env.PackageTypes for Trace_AnkoPackages
package main

import (
	"bufio"
	"encoding/binary"
	"encoding/json"
	"fmt"
	"math"
	"net"
	"os"
	"os/exec"
	"reflect"
	"runtime"
	"sort"
	"strconv"
	"strings"
	"syscall"
	"time"

	"github.com/mattn/anko/core"
	"github.com/mattn/anko/env"
	_ "github.com/mattn/anko/packages"
	"github.com/mattn/anko/vm"
	"verifharness/internal/tlcout"
)

type Num struct {
	K string `json:"k"`
	L []int  `json:"l"`
}
type Val struct {
	T   string `json:"t"`
	L   []int  `json:"l"`
	S   string `json:"s"`
	Num Num    `json:"num"`
	Es  []Val  `json:"es"`
}
type Case struct {
	ID   string  `json:"id"`
	Fn   string  `json:"fn"`
	Args [][]int `json:"args"`
	V    Val     `json:"v"`
}
type Exp struct {
	K   string  `json:"k"`
	L   []int   `json:"l"`
	X   string  `json:"x"`
	Seq [][]int `json:"seq"`
}

func i64(l []int) int64 {
	b := make([]byte, 8)
	for i := 0; i < 8 && i < len(l); i++ {
		b[i] = byte(l[i])
	}
	return int64(binary.LittleEndian.Uint64(b))
}
func f64(l []int) float64 { return math.Float64frombits(uint64(i64(l))) }

func (v Val) goValue() interface{} {
	switch v.T {
	case "nil":
		return nil
	case "bool":
		return v.L[0] == 1
	case "int":
		return i64(v.L)
	case "flt":
		return f64(v.L)
	case "str":
		return v.S
	case "list":
		out := make([]interface{}, len(v.Es))
		for i, e := range v.Es {
			out[i] = e.goValue()
		}
		return out
	case "map":
		out := map[interface{}]interface{}{}
		for _, p := range v.Es {
			out[p.Es[0].goValue()] = p.Es[1].goValue()
		}
		return out
	}
	return nil
}

func newEnv() *env.Env {
	e := env.NewEnv()
	core.Import(e)
	return e
}

func exec1(e *env.Env, src string) (res interface{}, err error) {
	defer func() {
		if r := recover(); r != nil {
			err = fmt.Errorf("PANIC %v", r)
		}
	}()
	return vm.Execute(e, nil, src)
}

type Out struct {
	ID  string      `json:"id"`
	Err string      `json:"err"`
	Res interface{} `json:"res"`
	T   string      `json:"t"`
}

func child(in, out string) {
	// a runaway builtin must not take the machine down: cap the address space of this worker
	lim := syscall.Rlimit{Cur: 3 << 30, Max: 3 << 30}
	syscall.Setrlimit(syscall.RLIMIT_AS, &lim)
	f, err := os.Open(in)
	if err != nil {
		os.Exit(2)
	}
	of, _ := os.Create(out)
	defer of.Close()
	sc := bufio.NewScanner(f)
	sc.Buffer(make([]byte, 1<<20), 1<<24)
	for sc.Scan() {
		var c Case
		if json.Unmarshal(sc.Bytes(), &c) != nil {
			os.Exit(2)
		}
		e := newEnv()
		var src string
		switch c.Fn {
		case "range":
			var names []string
			for i, a := range c.Args {
				n := fmt.Sprintf("a%d", i)
				e.Define(n, i64(a))
				names = append(names, n)
			}
			src = "range(" + strings.Join(names, ", ") + ")"
		default:
			e.Define("v", c.V.goValue())
			src = c.Fn + "(v)"
		}
		res, err := exec1(e, src)
		o := Out{ID: c.ID, T: fmt.Sprintf("%T", res)}
		if err != nil {
			o.Err = err.Error()
		} else {
			switch x := res.(type) {
			case []int64:
				l := make([]string, len(x))
				for i, v := range x {
					l[i] = strconv.FormatInt(v, 10)
				}
				o.Res = l
			case int64:
				o.Res = strconv.FormatInt(x, 10)
			case float64:
				o.Res = strconv.FormatUint(math.Float64bits(x), 10)
			default:
				o.Res = fmt.Sprint(res)
			}
		}
		b, _ := json.Marshal(o)
		of.Write(append(b, '\n'))
		of.Sync()
	}
}

type Mismatch struct {
	ID   string      `json:"id"`
	What string      `json:"what"`
	Case interface{} `json:"case"`
	Exp  interface{} `json:"expected"`
	Got  interface{} `json:"got"`
}
type Summary struct {
	Cases      int           `json:"cases"`
	Open       int           `json:"open"`
	NMismatch  int           `json:"n_mismatch"`
	Mismatches []Mismatch    `json:"mismatches"`
	Samples    []interface{} `json:"samples"`
	Deaths     int           `json:"worker_deaths"`
}

func cases(casesPath, tlcPath, outPath string) {
	exps := map[string]Exp{}
	err := tlcout.Each(tlcPath, func(raw []byte) error {
		var x struct {
			ID  string `json:"id"`
			Exp Exp    `json:"exp"`
		}
		if err := json.Unmarshal(raw, &x); err != nil {
			return err
		}
		exps[x.ID] = x.Exp
		return nil
	})
	if err != nil {
		fmt.Fprintln(os.Stderr, err)
		os.Exit(2)
	}
	var all []Case
	var lines []string
	f, _ := os.Open(casesPath)
	sc := bufio.NewScanner(f)
	sc.Buffer(make([]byte, 1<<20), 1<<24)
	for sc.Scan() {
		var c Case
		json.Unmarshal(sc.Bytes(), &c)
		all = append(all, c)
		lines = append(lines, sc.Text())
	}
	var sum Summary
	add := func(m Mismatch) {
		sum.NMismatch++
		if len(sum.Mismatches) < 40 {
			sum.Mismatches = append(sum.Mismatches, m)
		}
	}
	// run the cases in worker processes; a worker that dies or hangs is attributed to the first unanswered case
	self, _ := os.Executable()
	outs := map[string]Out{}
	start := 0
	for start < len(all) {
		in := outPath + ".in"
		ou := outPath + ".out"
		os.WriteFile(in, []byte(strings.Join(lines[start:], "\n")+"\n"), 0o644)
		os.Remove(ou)
		cmd := exec.Command(self, "child", in, ou)
		cmd.Start()
		done := make(chan error, 1)
		go func() { done <- cmd.Wait() }()
		// progress watchdog: the worker must answer at least one case every 4 s
		answered := 0
		dead := false
	wait:
		for {
			select {
			case <-done:
				break wait
			case <-time.After(4 * time.Second):
				b, _ := os.ReadFile(ou)
				n := strings.Count(string(b), "\n")
				if n == answered {
					cmd.Process.Kill()
					<-done
					dead = true
					break wait
				}
				answered = n
			}
		}
		b, _ := os.ReadFile(ou)
		n := 0
		for _, ln := range strings.Split(strings.TrimSpace(string(b)), "\n") {
			if ln == "" {
				continue
			}
			var o Out
			if json.Unmarshal([]byte(ln), &o) == nil {
				outs[o.ID] = o
				n++
			}
		}
		if start+n < len(all) {
			// the worker stopped (killed by the watchdog, out of memory, fatal error) while evaluating case start+n
			c := all[start+n]
			sum.Deaths++
			_ = dead
			outs[c.ID] = Out{ID: c.ID, Err: "WORKER-DIED (runaway loop, memory exhaustion or fatal error)"}
			start = start + n + 1
		} else {
			start = len(all)
		}
	}
	for _, c := range all {
		sum.Cases++
		e, ok := exps[c.ID]
		if !ok {
			fmt.Fprintln(os.Stderr, "no expectation for", c.ID)
			os.Exit(2)
		}
		o := outs[c.ID]
		if strings.HasPrefix(o.Err, "WORKER-DIED") || strings.HasPrefix(o.Err, "PANIC") {
			add(Mismatch{ID: c.ID, What: "the builtin did not return: " + o.Err, Case: c})
			continue
		}
		switch e.K {
		case "open", "long":
			sum.Open++
		case "err":
			if o.Err == "" {
				add(Mismatch{ID: c.ID, What: "expected an error", Case: c, Got: o.Res})
			}
		case "list":
			want := make([]string, len(e.Seq))
			for i, l := range e.Seq {
				want[i] = strconv.FormatInt(i64(l), 10)
			}
			got, _ := o.Res.([]interface{})
			gs := make([]string, len(got))
			for i, g := range got {
				gs[i] = fmt.Sprint(g)
			}
			if o.Err != "" || o.T != "[]int64" || strings.Join(gs, ",") != strings.Join(want, ",") {
				add(Mismatch{ID: c.ID, What: "range progression", Case: c, Exp: want, Got: fmt.Sprint(o.Res, o.Err)})
			}
		case "int", "zero", "prim":
			var want string
			v := c.V.goValue()
			switch {
			case e.K == "int":
				want = strconv.FormatInt(i64(e.L), 10)
			case e.K == "zero" && c.Fn == "toInt":
				want = "0"
			case e.K == "zero":
				want = strconv.FormatUint(math.Float64bits(0), 10)
			case e.X == "TruncFloat":
				want = strconv.FormatInt(int64(v.(float64)), 10)
			case e.X == "TruncParsedFloat":
				f, _ := strconv.ParseFloat(v.(string), 64)
				want = strconv.FormatInt(int64(f), 10)
			case e.X == "FloatOfInt":
				want = strconv.FormatUint(math.Float64bits(float64(v.(int64))), 10)
			case e.X == "Same":
				want = strconv.FormatUint(math.Float64bits(v.(float64)), 10)
			case e.X == "ParseFloat":
				f, _ := strconv.ParseFloat(v.(string), 64)
				want = strconv.FormatUint(math.Float64bits(f), 10)
			}
			wantT := "int64"
			if c.Fn == "toFloat" {
				wantT = "float64"
			}
			if o.Err != "" || o.T != wantT || fmt.Sprint(o.Res) != want {
				add(Mismatch{ID: c.ID, What: c.Fn + " result", Case: c, Exp: wantT + ":" + want, Got: fmt.Sprint(o.T, ":", o.Res, " ", o.Err)})
			}
		}
		if len(sum.Samples) < 3 && sum.Cases%401 == 9 {
			sum.Samples = append(sum.Samples, map[string]interface{}{"case": c, "expected": e, "observed": o})
		}
	}
	b, _ := json.Marshal(sum)
	os.WriteFile(outPath, b, 0o644)
}

// ---------------------------------------------------------------- native oracles for the remaining builtins
func native(outPath string) {
	var sum Summary
	add := func(id, what string, exp, got interface{}) {
		sum.NMismatch++
		sum.Mismatches = append(sum.Mismatches, Mismatch{ID: id, What: what, Exp: fmt.Sprintf("%T(%v)", exp, exp), Got: fmt.Sprintf("%T(%v)", got, got)})
	}
	universe := map[string]interface{}{"nil": nil, "true": true, "int": int64(42), "neg": int64(-7), "flt": 1.5, "whole": 3.0, "str": "héllo", "empty": "", "num": "12", "fnum": "1.5",
		"list": []interface{}{int64(1), "a", 2.5, nil}, "elist": []interface{}{}, "map": map[interface{}]interface{}{"a": int64(1), int64(2): "b", "c": nil}, "emap": map[interface{}]interface{}{},
		// keys of different types that print alike, and many keys
		"mixmap": map[interface{}]interface{}{int64(1): "a", "1": "b", 1.0: "c", true: "d", "true": "e", nil: "f", "<nil>": "g", int32(1): "h"},
		"bigmap": func() map[interface{}]interface{} {
			m := map[interface{}]interface{}{}
			for i := 0; i < 300; i++ {
				m[int64(i)] = i
				m[fmt.Sprint(i)] = i
			}
			return m
		}(),
		"tslice": []int64{1, 2}, "tmap": map[string]int64{"a": 1, "b": 2}, "bytes": []byte("ab"), "ptr": new(int64), "ch": make(chan int64, 2), "fn": func(int64) int64 { return 0 },
		"struct": struct{ A int }{1}, "i32": int32(5), "u8": uint8(200), "f32": float32(2.5),
		// named types keep Go's default formatting (their String method where they have one): only a plain []byte is text
		"ip": net.ParseIP("10.0.0.1"), "rawmsg": json.RawMessage("ab"), "dur": 1500 * time.Nanosecond, "hw": net.HardwareAddr{1, 2, 3, 4, 5, 6}, "namedstr": reflect.Kind(2),
		// typed nils are values of their types, not the untyped nil
		"nilslice": []string(nil), "nilmap": map[string]int64(nil), "nilptr": (*int64)(nil), "nilfn": (func(int64) int64)(nil), "nilch": (chan int64)(nil), "nilbytes": []byte(nil)}
	call := func(src string, v interface{}) (interface{}, error) {
		e := newEnv()
		e.Define("v", v)
		return exec1(e, src)
	}
	for n, v := range universe {
		sum.Cases++
		// typeOf / kindOf
		res, err := call("typeOf(v)", v)
		want := "nil"
		if v != nil {
			want = reflect.TypeOf(v).String()
		}
		if err != nil || res != want {
			add("typeOf-"+n, "typeOf", want, fmt.Sprint(res, err))
		}
		res, err = call("kindOf(v)", v)
		want = "nil"
		if v != nil {
			want = reflect.TypeOf(v).Kind().String()
		}
		if err != nil || res != want {
			add("kindOf-"+n, "kindOf", want, fmt.Sprint(res, err))
		}
		// toString: Go's default formatting
		res, err = call("toString(v)", v)
		ws := fmt.Sprint(v)
		if b, ok := v.([]byte); ok {
			ws = string(b)
		}
		if n != "ptr" && n != "ch" && n != "fn" && (err != nil || res != ws) {
			add("toString-"+n, "toString", ws, fmt.Sprint(res, err))
		}
		// len on what has a length, error (not a crash) otherwise
		res, err = call("len(v)", v)
		rv := reflect.ValueOf(v)
		if v != nil && (rv.Kind() == reflect.Slice || rv.Kind() == reflect.Map || rv.Kind() == reflect.String || rv.Kind() == reflect.Chan) {
			if err != nil || res != int64(rv.Len()) {
				add("len-"+n, "len", int64(rv.Len()), fmt.Sprint(res, err))
			}
		} else if err == nil || strings.HasPrefix(err.Error(), "PANIC") {
			add("len-"+n, "len of a value without length must be an error", "error", fmt.Sprint(res, err))
		}
		// keys: every key exactly once (maps), error otherwise
		res, err = call("keys(v)", v)
		if v != nil && rv.Kind() == reflect.Map {
			got, _ := res.([]interface{})
			seen := map[interface{}]int{}
			for _, k := range got {
				seen[k]++
			}
			ok := err == nil && len(got) == rv.Len()
			for _, k := range rv.MapKeys() {
				if seen[k.Interface()] != 1 {
					ok = false
				}
			}
			if !ok {
				add("keys-"+n, "keys", "every key once", fmt.Sprint(res, err))
			}
		} else if err == nil || strings.HasPrefix(err.Error(), "PANIC") {
			add("keys-"+n, "keys of a non-map must be an error", "error", fmt.Sprint(res, err))
		}
		// misuse: wrong argument counts are errors, never crashes
		for _, src := range []string{"keys()", "keys(v, v)", "typeOf()", "kindOf(v, v)", "toInt()", "toInt(v, v)", "toFloat()", "toString()", "toRune()", "toChar()", "toIntSlice()", "toIntSlice(v, v)",
			"range()", "range(1, 2, 3, 4)", "range(v)", "range(1, v)", "toRune(v)", "toChar(v)", "toByteSlice(v)", "toRuneSlice(v)", "toIntSlice(v)", "toStringSlice(v)", "toFloatSlice(v)", "toBoolSlice(v)", "toDuration(v)", "defined(v)"} {
			_, err := call(src, v)
			if err != nil && strings.HasPrefix(err.Error(), "PANIC") {
				add("misuse-"+n, "builtin misuse escaped as a Go panic: "+src, "error or value", err.Error())
			}
		}
	}
	// string conversions
	for _, s := range []string{"", "a", "héllo", "日本", "ab\x00c", "\xff", "a\xffb", "\xc3", "ab\xc3", "\xe6\x97", "x\xe6\x97y", "\x80\x81", "é\xff", "\xed\xa0\x80", "\xf4\x90\x80\x80", "ok\xfe\xff"} {
		sum.Cases++
		e := newEnv()
		e.Define("s", s)
		if res, err := exec1(e, "toByteSlice(s)"); err != nil || !reflect.DeepEqual(res, []byte(s)) {
			add("toByteSlice", "toByteSlice", []byte(s), fmt.Sprint(res, err))
		}
		if res, err := exec1(e, "toRuneSlice(s)"); err != nil || !reflect.DeepEqual(res, []rune(s)) {
			add("toRuneSlice", "toRuneSlice", []rune(s), fmt.Sprint(res, err))
		}
		// Go's []byte(s) / []rune(s) are fresh copies: storing into the result leaves the string (and another conversion of it) as it was
		if len(s) > 0 {
			hs := string(append([]byte(nil), s...)) // (on the heap: a write through a wrongly shared slice must show, not fault)
			e2 := newEnv()
			e2.Define("s", hs)
			for _, fn := range []string{"toByteSlice", "toRuneSlice"} {
				res, err := exec1(e2, "b = "+fn+"(s)\nb[0] = 120\nc = "+fn+"(s)\nb[0] = 121\n[s, c, len(b)]")
				want := []interface{}{s, []byte(s), int64(len(s))}
				if fn == "toRuneSlice" {
					want[1], want[2] = []rune(s), int64(len([]rune(s)))
				}
				if err != nil || !reflect.DeepEqual(res, want) || hs != s {
					add(fn+"-copy", fn+" must return a copy: a store into its result changed the string", want, fmt.Sprint(res, err, " host string now ", hs))
				}
			}
		}
		wr := rune(0)
		if len(s) > 0 {
			wr = []rune(s)[0]
		}
		if res, err := exec1(e, "toRune(s)"); err != nil || res != wr {
			add("toRune", "toRune", wr, fmt.Sprint(res, err))
		}
	}
	// every class of rune: ASCII, Latin-1, the edges of the planes, surrogates, beyond the last code point, negative (also as the low 32 bits of an int64)
	runes := []int64{65, 233, 26085, 0, -1, -2, -65, -(1 << 31), 1<<31 - 1, 0x7f, 0x80, 0xff, 0x100, 0x7ff, 0x800, 0xd7ff, 0xd800, 0xdfff, 0xe000, 0xfffd, 0xffff, 0x10000, 0x10ffff, 0x110000,
		1 << 31, 1<<32 - 1, 1 << 32, 1<<32 + 65, -(1 << 40), 1<<63 - 1, -(1 << 63)}
	for r := int64(1); r < 0x300; r += 7 {
		runes = append(runes, r)
	}
	for _, r := range runes {
		sum.Cases++
		e := newEnv()
		e.Define("r", r)
		if res, err := exec1(e, "toChar(r)"); err != nil || res != string(rune(r)) {
			add("toChar", "toChar", string(rune(r)), fmt.Sprint(res, err))
		}
	}
	// typed slice forms: element by element, zero value for unconvertible elements
	lists := [][]interface{}{{int64(1), "a", int64(3)}, {2.9, nil, int64(-1), true}, {"x", "y"}, {}, {int64(1), int64(2), "z", 4.5, nil, int64(6)}, {true, int64(0), "t"}}
	for i, l := range lists {
		sum.Cases++
		e := newEnv()
		e.Define("l", l)
		conv := func(t reflect.Type) interface{} {
			out := reflect.MakeSlice(reflect.SliceOf(t), len(l), len(l))
			for j, x := range l {
				v := reflect.ValueOf(x)
				if v.IsValid() && v.Type().ConvertibleTo(t) {
					out.Index(j).Set(v.Convert(t))
				}
			}
			return out.Interface()
		}
		for fn, t := range map[string]reflect.Type{"toIntSlice": reflect.TypeOf(int64(0)), "toFloatSlice": reflect.TypeOf(float64(0)), "toStringSlice": reflect.TypeOf(""), "toBoolSlice": reflect.TypeOf(true)} {
			res, err := exec1(e, fn+"(l)")
			if err != nil || !reflect.DeepEqual(res, conv(t)) {
				add(fmt.Sprintf("%s-%d", fn, i), fn+" element-wise with zero for unconvertible elements", conv(t), fmt.Sprint(res, err))
			}
		}
	}
	runtime.GC()
	b, _ := json.Marshal(sum)
	os.WriteFile(outPath, b, 0o644)
}

func packages(outPath string) {
	f, _ := os.Create(outPath)
	defer f.Close()
	enc := json.NewEncoder(f)
	var pkgs []string
	for p := range env.Packages {
		pkgs = append(pkgs, p)
	}
	sort.Strings(pkgs)
	for _, p := range pkgs {
		var names []string
		for n := range env.Packages[p] {
			names = append(names, n)
		}
		sort.Strings(names)
		// what `import` OFFERS is audited, not the table behind it: the module is obtained by a script, after another script has
		// written into a module of the same package that it received without a copy (function argument, literal element)
		poison := newEnv()
		for _, n := range names {
			exec1(poison, "(func(pk) { pk."+n+" = 5 })(import(\""+p+"\"))")
		}
		mod, merr := exec1(newEnv(), "import(\""+p+"\")")
		modEnv, _ := mod.(*env.Env)
		for _, n := range names {
			v := env.Packages[p][n]
			differs := ""
			if merr == nil && modEnv != nil {
				ov, gerr := modEnv.GetValue(n)
				switch {
				case gerr != nil:
					differs = fmt.Sprintf("import does not offer it: %v", gerr)
				case ov.Type() != v.Type():
					differs = "import offers a " + ov.Type().String()
				case v.Kind() == reflect.Func && !v.IsNil() && ov.Pointer() != v.Pointer():
					differs = "import offers another function"
				}
			}
			e := map[string]interface{}{"pkg": p, "name": n, "kind": "value", "sym": "", "type": v.Type().String()}
			if differs != "" {
				e["kind"], e["sym"] = "func", differs // (rejected by EntryOK: not the function it is listed under)
				enc.Encode(e)
				continue
			}
			if v.Kind() == reflect.Func && !v.IsNil() {
				e["kind"] = "func"
				if fn := runtime.FuncForPC(v.Pointer()); fn != nil {
					e["sym"] = fn.Name()
				}
			}
			enc.Encode(e)
		}
	}
	pkgs = pkgs[:0]
	for p := range env.PackageTypes {
		pkgs = append(pkgs, p)
	}
	sort.Strings(pkgs)
	for _, p := range pkgs {
		var names []string
		for n := range env.PackageTypes[p] {
			names = append(names, n)
		}
		sort.Strings(names)
		for _, n := range names {
			t := env.PackageTypes[p][n]
			for t.Kind() == reflect.Ptr && t.Name() == "" {
				t = t.Elem() // the tables list lock-bearing types through a pointer
			}
			enc.Encode(map[string]interface{}{"pkg": p, "name": n, "kind": "type", "sym": t.PkgPath() + "." + t.Name(), "type": t.String()})
		}
	}
}

func main() {
	switch {
	case len(os.Args) >= 5 && os.Args[1] == "cases":
		cases(os.Args[2], os.Args[3], os.Args[4])
	case len(os.Args) >= 4 && os.Args[1] == "child":
		child(os.Args[2], os.Args[3])
	case len(os.Args) >= 3 && os.Args[1] == "native":
		native(os.Args[2])
	case len(os.Args) >= 3 && os.Args[1] == "packages":
		packages(os.Args[2])
	default:
		fmt.Fprintln(os.Stderr, "usage: builtinharness cases|child|native|packages ...")
		os.Exit(2)
	}
}
