// arithharness binds spec/AnkoArith.tla (property C05) to the real interpreter.
//
//	arithharness replay <pool.ndjson> <treepool.ndjson> <tlc.out> <result.json>
//	    every case TLC emitted (operator x operands, expected result) is evaluated by vm.Execute with the operands
//	    supplied through four provenances (variable, computed, list element, literal); value AND dynamic type compared.
//	arithharness random <seed> <n> <out.ndjson>
//	    random int64 operands x integer operators evaluated on the real VM, recorded for Trace_AnkoArith.
package main

import (
	"encoding/binary"
	"encoding/json"
	"fmt"
	"math"
	"math/rand"
	"os"
	"strconv"
	"strings"

	"github.com/mattn/anko/env"
	"github.com/mattn/anko/vm"
	"verifharness/internal/tlcout"
)

type Val struct {
	T  string `json:"t"`
	L  []int  `json:"l"`
	S  string `json:"s"`
	Op string `json:"op,omitempty"`
	X  *Val   `json:"x,omitempty"`
	Y  *Val   `json:"y,omitempty"`
}

type CaseID struct {
	K   string `json:"k"`
	Op  string `json:"op"`
	I   int    `json:"i"`
	J   int    `json:"j"`
	Op2 string `json:"op2"`
	H   int    `json:"h"`
}

type Case struct {
	C   CaseID `json:"c"`
	Exp Val    `json:"exp"`
}

func bytesOf(l []int) []byte {
	b := make([]byte, 8)
	for i := 0; i < 8 && i < len(l); i++ {
		b[i] = byte(l[i])
	}
	return b
}

func (v Val) goValue() interface{} {
	switch v.T {
	case "int":
		return int64(binary.LittleEndian.Uint64(bytesOf(v.L)))
	case "flt":
		return math.Float64frombits(binary.LittleEndian.Uint64(bytesOf(v.L)))
	case "str":
		return v.S
	}
	return nil
}

func toF(v *Val) float64 {
	switch x := v.goValue().(type) {
	case int64:
		return float64(x)
	case float64:
		return x
	case string: // a decimal numeral of the pool
		f, err := strconv.ParseFloat(x, 64)
		if err == nil {
			return f
		}
	}
	return math.NaN()
}

func limbs(n int64) []int {
	b := make([]byte, 8)
	binary.LittleEndian.PutUint64(b, uint64(n))
	out := make([]int, 8)
	for i := range b {
		out[i] = int(b[i])
	}
	return out
}

// expected Go value of a result record; ok=false for open
func expected(e Val) (val interface{}, isErr bool, ok bool) {
	switch e.T {
	case "open":
		return nil, false, false
	case "err":
		return nil, true, true
	case "int":
		return e.goValue(), false, true
	case "str":
		return e.S, false, true
	case "bool":
		return len(e.L) > 0 && e.L[0] == 1, false, true
	case "prim":
		switch e.Op {
		case "FAdd":
			return toF(e.X) + toF(e.Y), false, true
		case "FSub":
			return toF(e.X) - toF(e.Y), false, true
		case "FMul":
			return toF(e.X) * toF(e.Y), false, true
		case "FDiv":
			return toF(e.X) / toF(e.Y), false, true
		case "FLt":
			return toF(e.X) < toF(e.Y), false, true
		case "FLe":
			return toF(e.X) <= toF(e.Y), false, true
		case "FNeg":
			return -toF(e.X), false, true
		case "ConcatSF":
			return e.X.S + fmt.Sprint(toF(e.Y)), false, true
		case "ConcatFS":
			return fmt.Sprint(toF(e.X)) + e.Y.S, false, true
		}
	}
	return nil, false, false
}

func same(exp, got interface{}) bool {
	switch e := exp.(type) {
	case float64:
		g, ok := got.(float64)
		if !ok {
			return false
		}
		if math.IsNaN(e) {
			return math.IsNaN(g)
		}
		return math.Float64bits(e) == math.Float64bits(g)
	case int64:
		g, ok := got.(int64)
		return ok && g == e
	case string:
		g, ok := got.(string)
		return ok && g == e
	case bool:
		g, ok := got.(bool)
		return ok && g == e
	}
	return false
}

func literal(v Val) (string, bool) {
	switch x := v.goValue().(type) {
	case int64:
		return strconv.FormatInt(x, 10), true
	case float64:
		if math.IsInf(x, 0) || math.IsNaN(x) || (x == 0 && math.Signbit(x)) {
			return "", false
		}
		s := strconv.FormatFloat(x, 'f', -1, 64)
		if len(s) > 40 {
			return "", false
		}
		if !strings.Contains(s, ".") {
			s += ".0"
		}
		return s, true
	case string:
		return strconv.Quote(x), true
	}
	return "", false
}

func computed(name string, v Val) string {
	switch v.T {
	case "int":
		return "(" + name + " + 0)"
	case "flt":
		return "(" + name + " * 1.0)"
	}
	return "(" + name + " + \"\")"
}

type variant struct {
	name string
	src  string
}

func variants(c Case, ops []Val) []variant {
	names := []string{"a", "b", "c"}
	build := func(f func(i int) (string, bool)) (string, bool) {
		var t [3]string
		for i := range ops {
			s, ok := f(i)
			if !ok {
				return "", false
			}
			t[i] = s
		}
		switch c.C.K {
		case "bin":
			return t[0] + " " + c.C.Op + " " + t[1], true
		case "un":
			return c.C.Op + t[0], true
		default:
			return "(" + t[0] + " " + c.C.Op + " " + t[1] + ") " + c.C.Op2 + " " + t[2], true
		}
	}
	var out []variant
	if s, ok := build(func(i int) (string, bool) { return names[i], true }); ok {
		out = append(out, variant{"variable", s})
	}
	if s, ok := build(func(i int) (string, bool) { return computed(names[i], ops[i]), true }); ok {
		out = append(out, variant{"computed", s})
	}
	if s, ok := build(func(i int) (string, bool) { return "[" + names[i] + "][0]", true }); ok {
		out = append(out, variant{"element", s})
	}
	if s, ok := build(func(i int) (string, bool) {
		l, ok := literal(ops[i])
		if ok && strings.HasPrefix(l, "-") {
			l = "(" + l + ")"
		}
		return l, ok
	}); ok {
		out = append(out, variant{"literal", s})
	}
	// a float is a float whatever its width: the same operation with the float operands handed over as float32 (values a float32 holds exactly)
	f32ops := map[string]bool{"+": true, "-": true, "*": true, "/": true, "<": true, "<=": true, ">": true, ">=": true}
	if (c.C.K == "bin" && f32ops[c.C.Op]) || (c.C.K == "un" && c.C.Op == "-") || (c.C.K == "tree" && f32ops[c.C.Op] && f32ops[c.C.Op2]) {
		any := false
		if s, ok := build(func(i int) (string, bool) {
			if x, isF := ops[i].goValue().(float64); isF {
				if float64(float32(x)) != x || math.IsInf(x, 0) || (c.C.K == "tree" && i < 2) {
					return "", c.C.K == "tree" && i < 2 && float64(float32(x)) == x // (the inner result of a tree must not be rounded: its operands stay float64)
				}
				any = true
				return "f" + names[i], true
			}
			if _, isS := ops[i].goValue().(string); isS {
				return "", false
			}
			return names[i], true
		}); ok && any {
			out = append(out, variant{"float32", s})
		}
	}
	return out
}

func run(src string, ops []Val) (res interface{}, err error) {
	defer func() {
		if r := recover(); r != nil {
			err = fmt.Errorf("PANIC: %v", r)
		}
	}()
	e := env.NewEnv()
	names := []string{"a", "b", "c"}
	for i, o := range ops {
		e.Define(names[i], o.goValue())
		if x, isF := o.goValue().(float64); isF {
			e.Define("f"+names[i], float32(x))
		}
	}
	return vm.Execute(e, nil, src)
}

type Mismatch struct {
	Case    Case        `json:"case"`
	Variant string      `json:"variant"`
	Src     string      `json:"src"`
	Ops     []string    `json:"operands"`
	Exp     string      `json:"expected"`
	Got     string      `json:"got"`
	Kind    string      `json:"kind"`
	Extra   interface{} `json:"extra,omitempty"`
}

type Summary struct {
	Cases      int            `json:"cases"`
	Open       int            `json:"open"`
	Evals      int            `json:"evaluations"`
	NMismatch  int            `json:"n_mismatch"`
	Mismatches []Mismatch     `json:"mismatches"`
	ByOp       map[string]int `json:"by_op"`
	Samples    []interface{}  `json:"samples"`
}

func readPool(path string) []Val {
	b, err := os.ReadFile(path)
	if err != nil {
		fmt.Fprintln(os.Stderr, err)
		os.Exit(2)
	}
	var out []Val
	for _, line := range strings.Split(strings.TrimSpace(string(b)), "\n") {
		if line == "" {
			continue
		}
		var v Val
		if err := json.Unmarshal([]byte(line), &v); err != nil {
			fmt.Fprintln(os.Stderr, err)
			os.Exit(2)
		}
		out = append(out, v)
	}
	return out
}

func show(x interface{}) string { return fmt.Sprintf("%T(%v)", x, x) }

// hostile runs a script that takes the address of every kind of computed small result (operator results, len, unary minus, literals, elements)
// and stores through it.  Results are values: nothing such a script does may change what an operation yields afterwards, in any
// environment of the process -- the comparisons that follow would show it ("no result depends on operand magnitude: small-value fast
// paths return the same values as the general path").
func hostile() {
	src := `
func smash(p) { try { *p = 7777 } catch e { } }
i = -3
for i < 300 {
  smash(&(i + 0)); smash(&(i - 0)); smash(&(i * 1)); smash(&(0 + i)); smash(&(i | 0)); smash(&(i & -1)); smash(&(i << 0)); smash(&(i >> 0)); smash(&(i % 100000))
  smash(&(-i)); smash(&(^i)); smash(&(i))
  j = i
  smash(&(j++)); smash(&(j += 1))
  i++
}
smash(&len([1, 2, 3])); smash(&len("ab")); smash(&len({})); smash(&1); smash(&0); smash(&(-1)); smash(&(1 + 2)); smash(&(2 * 2)); smash(&(7 / 1)); smash(&(1.5 + 1.5)); smash(&("a" + "b")); smash(&(true && true)); smash(&(1 == 1))
smash(&nil); smash(&true); smash(&false); smash(&""); smash(&"a"); smash(&0.0); smash(&1.0)
1
`
	e := env.NewEnv()
	vm.Execute(e, nil, src)
}

func replay(poolPath, treePath, tlcPath, outPath string) {
	pool, tree := readPool(poolPath), readPool(treePath)
	hostile()
	sum := Summary{ByOp: map[string]int{}}
	err := tlcout.Each(tlcPath, func(raw []byte) error {
		var c Case
		if err := json.Unmarshal(raw, &c); err != nil {
			return fmt.Errorf("bad case %v: %s", err, raw)
		}
		sum.Cases++
		var ops []Val
		switch c.C.K {
		case "bin":
			ops = []Val{pool[c.C.I-1], pool[c.C.J-1]}
		case "un":
			ops = []Val{pool[c.C.I-1]}
		case "tree":
			ops = []Val{tree[c.C.I-1], tree[c.C.J-1], tree[c.C.H-1]}
		}
		exp, wantErr, ok := expected(c.Exp)
		if !ok {
			sum.Open++
			return nil
		}
		sum.ByOp[c.C.K+c.C.Op]++
		var opstr []string
		for _, o := range ops {
			opstr = append(opstr, show(o.goValue()))
		}
		for _, v := range variants(c, ops) {
			got, err := run(v.src, ops)
			sum.Evals++
			bad := ""
			if err != nil && strings.HasPrefix(err.Error(), "PANIC") {
				bad = "panic"
			} else if wantErr {
				if err == nil {
					bad = "expected an error"
				}
			} else if err != nil {
				bad = "unexpected error: " + err.Error()
			} else if !same(exp, got) {
				bad = "value or dynamic type"
			}
			if bad != "" {
				sum.NMismatch++
				if len(sum.Mismatches) < 40 {
					es := show(exp)
					if wantErr {
						es = "error"
					}
					gs := show(got)
					if err != nil {
						gs = "error: " + err.Error()
					}
					sum.Mismatches = append(sum.Mismatches, Mismatch{Case: c, Variant: v.name, Src: v.src, Ops: opstr, Exp: es, Got: gs, Kind: bad})
				}
			}
		}
		if len(sum.Samples) < 4 && sum.Cases%1777 == 5 {
			sum.Samples = append(sum.Samples, map[string]interface{}{"op": c.C.Op, "operands": opstr, "expected": show(exp), "spec_result": c.Exp})
		}
		return nil
	})
	if err != nil {
		fmt.Fprintln(os.Stderr, "arithharness:", err)
		os.Exit(2)
	}
	b, _ := json.Marshal(sum)
	os.WriteFile(outPath, b, 0o644)
}

func random(seed int64, n int, outPath string) {
	hostile()
	rng := rand.New(rand.NewSource(seed))
	ops := []string{"+", "-", "*", "%", "&", "|", "<<", ">>", "<", "<=", ">", ">=", "==", "!="}
	f, _ := os.Create(outPath)
	defer f.Close()
	enc := json.NewEncoder(f)
	draw := func() int64 {
		switch rng.Intn(6) {
		case 0:
			return int64(rng.Intn(9000)) - 3
		case 1:
			return int64(rng.Uint64())
		case 2:
			return int64(1)<<uint(rng.Intn(63)) + int64(rng.Intn(3)) - 1
		case 3:
			return -(int64(1)<<uint(rng.Intn(63)) + int64(rng.Intn(3)) - 1)
		case 4:
			return int64(rng.Intn(70))
		}
		return math.MaxInt64 - int64(rng.Intn(3))
	}
	for i := 0; i < n; i++ {
		op := ops[rng.Intn(len(ops))]
		a, b := draw(), draw()
		opsv := []Val{{T: "int", L: limbs(a)}, {T: "int", L: limbs(b)}}
		src := "a " + op + " b"
		if rng.Intn(2) == 0 {
			src = "(a + 0) " + op + " [b][0]"
		}
		got, err := run(src, opsv)
		g := Val{T: "other", L: []int{}, S: fmt.Sprintf("%T", got)}
		switch x := got.(type) {
		case int64:
			g = Val{T: "int", L: limbs(x)}
		case bool:
			g = Val{T: "bool", L: []int{0}}
			if x {
				g.L[0] = 1
			}
		}
		if err != nil {
			g = Val{T: "err", L: []int{}}
			if strings.HasPrefix(err.Error(), "PANIC") {
				g.T = "panic"
			}
		}
		enc.Encode(map[string]interface{}{"op": op, "a": opsv[0], "b": opsv[1], "got": g, "src": src})
	}
}

func main() {
	if len(os.Args) >= 6 && os.Args[1] == "replay" {
		replay(os.Args[2], os.Args[3], os.Args[4], os.Args[5])
		return
	}
	if len(os.Args) >= 5 && os.Args[1] == "random" {
		seed, _ := strconv.ParseInt(os.Args[2], 10, 64)
		n, _ := strconv.Atoi(os.Args[3])
		random(seed, n, os.Args[4])
		return
	}
	fmt.Fprintln(os.Stderr, "usage: arithharness replay <pool> <treepool> <tlc.out> <result.json> | random <seed> <n> <out>")
	os.Exit(2)
}
