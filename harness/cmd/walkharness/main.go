// walkharness records walks of astutil.Walk over parsed programs for spec/Trace_AnkoWalker.tla (property C17).
//
//	walkharness <sources.ndjson> <walks.ndjson>
//
// Per source: parse; enumerate every statement/expression/operator node by generic reflection (with parent links);
// walk once without failure and with the callback failing at the 1st, a middle and the last call; record the
// sequence of presented nodes (0 = a value that is not a node of the tree).
package main

import (
	"bufio"
	"encoding/json"
	"errors"
	"fmt"
	"os"
	"reflect"
	"sync"

	"github.com/mattn/anko/ast"
	"github.com/mattn/anko/ast/astutil"
	"github.com/mattn/anko/parser"
)

type Src struct {
	ID  string `json:"id"`
	Src string `json:"src"`
}

type Walk struct {
	ID     string   `json:"id"`
	Par    []int    `json:"par"`
	Kinds  []string `json:"kinds"`
	Visits []int    `json:"visits"`
	FailAt int      `json:"failat"`
	Err    string   `json:"err"`
	ErrMsg string   `json:"errmsg"`
}

var (
	stmtT = reflect.TypeOf((*ast.Stmt)(nil)).Elem()
	exprT = reflect.TypeOf((*ast.Expr)(nil)).Elem()
	opT   = reflect.TypeOf((*ast.Operator)(nil)).Elem()
	rvT   = reflect.TypeOf(reflect.Value{})
)

type enum struct {
	ids   map[interface{}]int
	par   []int
	kinds []string
}

func isNodePtr(v reflect.Value) bool {
	if v.Kind() != reflect.Ptr || v.IsNil() || v.Elem().Kind() != reflect.Struct {
		return false
	}
	t := v.Type()
	return t.Implements(stmtT) || t.Implements(exprT) || t.Implements(opT)
}

// collect visits every field reachable from v; parent = id of the nearest enclosing node
func (e *enum) collect(v reflect.Value, parent int) {
	if !v.IsValid() {
		return
	}
	if v.Type() == rvT {
		return
	}
	switch v.Kind() {
	case reflect.Interface:
		if !v.IsNil() {
			e.collect(v.Elem(), parent)
		}
	case reflect.Ptr:
		if v.IsNil() {
			return
		}
		if isNodePtr(v) {
			if _, tn := v.Interface().(*ast.TypeStruct); tn {
				return
			}
			key := v.Interface()
			if _, seen := e.ids[key]; seen {
				return
			}
			id := len(e.par) + 1
			e.ids[key] = id
			e.par = append(e.par, parent)
			e.kinds = append(e.kinds, v.Elem().Type().Name())
			e.collect(v.Elem(), id)
			return
		}
		e.collect(v.Elem(), parent)
	case reflect.Struct:
		for i := 0; i < v.NumField(); i++ {
			if v.Type().Field(i).PkgPath != "" {
				continue
			}
			e.collect(v.Field(i), parent)
		}
	case reflect.Slice, reflect.Array:
		for i := 0; i < v.Len(); i++ {
			e.collect(v.Index(i), parent)
		}
	}
}

// fill puts a fresh marker node into every EMPTY child slot of every node of the tree: a nil field of type ast.Expr / ast.Stmt, an empty []ast.Expr /
// []ast.Stmt.  The walk of the filled tree must present every marker (under its parent): the walker knows every child slot of every node type, not only the
// ones the corpus happens to fill.  Returns the number of markers placed.
func fill(root reflect.Value) int {
	n := 0
	seen := map[interface{}]bool{}
	marker := func(t reflect.Type) reflect.Value {
		n++
		id := &ast.IdentExpr{Lit: fmt.Sprintf("zzmark%d", n)}
		if t == stmtT {
			return reflect.ValueOf(&ast.ExprStmt{Expr: id})
		}
		return reflect.ValueOf(id)
	}
	var rec func(v reflect.Value, inNode bool)
	rec = func(v reflect.Value, inNode bool) {
		if !v.IsValid() || v.Type() == rvT {
			return
		}
		switch v.Kind() {
		case reflect.Interface:
			if v.IsNil() {
				if inNode && v.CanSet() && (v.Type() == stmtT || v.Type() == exprT) {
					v.Set(marker(v.Type()))
				}
				return
			}
			rec(v.Elem(), false)
		case reflect.Ptr:
			if v.IsNil() {
				return
			}
			if _, tn := v.Interface().(*ast.TypeStruct); tn {
				return
			}
			if isNodePtr(v) {
				if seen[v.Interface()] {
					return
				}
				seen[v.Interface()] = true
				rec(v.Elem(), true)
				return
			}
			rec(v.Elem(), false)
		case reflect.Struct:
			for i := 0; i < v.NumField(); i++ {
				if v.Type().Field(i).PkgPath != "" {
					continue
				}
				rec(v.Field(i), inNode)
			}
		case reflect.Slice:
			if v.Len() == 0 && inNode && v.CanSet() && (v.Type().Elem() == stmtT || v.Type().Elem() == exprT) {
				sl := reflect.MakeSlice(v.Type(), 1, 1)
				sl.Index(0).Set(marker(v.Type().Elem()))
				v.Set(sl)
				return
			}
			for i := 0; i < v.Len(); i++ {
				rec(v.Index(i), false)
			}
		}
	}
	rec(root, false)
	return n
}

var errInjected = errors.New("injected by the callback")

// a second program, walked from inside the callback of another walk (walks must not share state)
var libStmt, _ = parser.ParseSrc("f()(1)\ng.h(2)(3, 4)\nfunc(a) { return a }(5)\nm = {\"k\": [1, 2]}")
var nestedWalk bool

func walk(stmt ast.Stmt, e *enum, failat int) (visits []int, errc, msg string) {
	n := 0
	nested := nestedWalk
	defer func() {
		if r := recover(); r != nil {
			errc, msg = "panic", fmt.Sprint(r)
		}
	}()
	err := astutil.Walk(stmt, func(x interface{}) error {
		n++
		id := 0
		if x != nil {
			if k, ok := e.ids[x]; ok {
				id = k
			}
		}
		visits = append(visits, id)
		if nested {
			astutil.Walk(libStmt, func(interface{}) error { return nil })
		}
		if n == failat {
			return errInjected
		}
		return nil
	})
	switch {
	case err == nil:
		return visits, "nil", ""
	case err == errInjected:
		return visits, "cb", ""
	}
	return visits, "other", err.Error()
}

func main() {
	if len(os.Args) < 3 {
		fmt.Fprintln(os.Stderr, "usage: walkharness <sources.ndjson> <walks.ndjson>")
		os.Exit(2)
	}
	f, err := os.Open(os.Args[1])
	if err != nil {
		fmt.Fprintln(os.Stderr, err)
		os.Exit(2)
	}
	out, _ := os.Create(os.Args[2])
	defer out.Close()
	w := bufio.NewWriter(out)
	defer w.Flush()
	enc := json.NewEncoder(w)
	sc := bufio.NewScanner(f)
	sc.Buffer(make([]byte, 1<<20), 1<<26)
	nwalks := 0
	for sc.Scan() {
		var s Src
		if err := json.Unmarshal(sc.Bytes(), &s); err != nil {
			fmt.Fprintln(os.Stderr, err)
			os.Exit(2)
		}
		stmt, perr := parser.ParseSrc(s.Src)
		if perr != nil {
			enc.Encode(Walk{ID: s.ID, Err: "parse", ErrMsg: perr.Error(), Par: []int{}, Kinds: []string{}, Visits: []int{}})
			continue
		}
		e := &enum{ids: map[interface{}]int{}}
		e.collect(reflect.ValueOf(&stmt).Elem(), 0)
		if e.par == nil {
			e.par, e.kinds = []int{}, []string{}
		}
		full, errc, msg := walk(stmt, e, 0)
		if full == nil {
			full = []int{}
		}
		enc.Encode(Walk{ID: s.ID, Par: e.par, Kinds: e.kinds, Visits: full, FailAt: 0, Err: errc, ErrMsg: msg})
		// the same walk with another walk running inside every callback, and several walks of the tree at once: each presents what a walk alone presents
		nestedWalk = true
		nv, nerrc, nmsg := walk(stmt, e, 0)
		nestedWalk = false
		if nv == nil {
			nv = []int{}
		}
		enc.Encode(Walk{ID: s.ID + "|nested", Par: e.par, Kinds: e.kinds, Visits: nv, FailAt: 0, Err: nerrc, ErrMsg: nmsg})
		nwalks++
		if nwalks%7 == 0 {
			type res struct {
				v         []int
				errc, msg string
			}
			rs := make([]res, 4)
			var wg sync.WaitGroup
			for g := range rs {
				wg.Add(1)
				go func(g int) {
					defer wg.Done()
					rs[g].v, rs[g].errc, rs[g].msg = walk(stmt, e, 0)
				}(g)
			}
			wg.Wait()
			for g, r := range rs {
				if r.v == nil {
					r.v = []int{}
				}
				enc.Encode(Walk{ID: fmt.Sprintf("%s|conc%d", s.ID, g), Par: e.par, Kinds: e.kinds, Visits: r.v, FailAt: 0, Err: r.errc, ErrMsg: r.msg})
			}
		}
		seen := map[int]bool{}
		for _, k := range []int{1, (len(full) + 1) / 2, len(full)} {
			if k < 1 || k > len(full) || seen[k] {
				continue
			}
			seen[k] = true
			v, errc, msg := walk(stmt, e, k)
			enc.Encode(Walk{ID: s.ID, Par: e.par, Kinds: e.kinds, Visits: v, FailAt: k, Err: errc, ErrMsg: msg})
		}
		// last (it changes the tree): every empty child slot filled with a marker node
		if fill(reflect.ValueOf(&stmt).Elem()) > 0 {
			fe := &enum{ids: map[interface{}]int{}}
			fe.collect(reflect.ValueOf(&stmt).Elem(), 0)
			fv, ferrc, fmsg := walk(stmt, fe, 0)
			if fv == nil {
				fv = []int{}
			}
			enc.Encode(Walk{ID: s.ID + "|filled", Par: fe.par, Kinds: fe.kinds, Visits: fv, FailAt: 0, Err: ferrc, ErrMsg: fmsg})
		}
	}
}
