// parseharness observes parser.ParseSrc for property C15: totality (terminates, no panic), error type and position
// range, determinism (repetition, concurrency) and compositionality with newline.  Output lines are validated by
// spec/Trace_AnkoParse.tla.
//
//	parseharness <sources.ndjson> <pairs.ndjson> <obs.ndjson>
package main

import (
	"bufio"
	"encoding/json"
	"fmt"
	"os"
	"reflect"
	"strings"
	"sync"
	"sync/atomic"
	"time"

	"github.com/mattn/anko/ast"
	"github.com/mattn/anko/parser"
)

type Src struct {
	ID  string `json:"id"`
	Src string `json:"src"`
	B64 string `json:"b64,omitempty"`
}

type Obs struct {
	Kind     string `json:"kind"` // parse | compose
	ID       string `json:"id"`
	NLines   int    `json:"nlines"`
	LineLens []int  `json:"linelens"`
	Outcome  string `json:"outcome"` // ok | err | panic | timeout
	ErrType  bool   `json:"errtype_ok"`
	Line     int    `json:"line"`
	Col      int    `json:"col"`
	Repeat   bool   `json:"repeat_same"`
	Conc     bool   `json:"conc_same"`
	CompOK   bool   `json:"comp_ok"`
	Detail   string `json:"detail,omitempty"`
}

var rvT = reflect.TypeOf(reflect.Value{})
var posT = reflect.TypeOf(ast.Position{})

// dump writes a structural dump of the tree with positions shifted by `shift` lines.
func dump(v reflect.Value, b *strings.Builder, shift int, d int) {
	if !v.IsValid() || d > 3000 {
		b.WriteString("<nil>")
		return
	}
	if v.Type() == rvT {
		if v.CanInterface() {
			in := v.Interface().(reflect.Value)
			if in.IsValid() {
				fmt.Fprintf(b, "rv(%s:%v)", in.Type(), in)
			} else {
				b.WriteString("rv(invalid)")
			}
		}
		return
	}
	if v.Type() == posT {
		line := v.Field(0).Int()
		if line > 0 { // a node whose position was never set stays at 0:0
			line += int64(shift)
		}
		fmt.Fprintf(b, "@%d:%d", line, v.Field(1).Int())
		return
	}
	switch v.Kind() {
	case reflect.Ptr, reflect.Interface:
		if v.IsNil() {
			b.WriteString("<nil>")
			return
		}
		b.WriteString(v.Elem().Type().String())
		b.WriteString("{")
		dump(v.Elem(), b, shift, d+1)
		b.WriteString("}")
	case reflect.Struct:
		for i := 0; i < v.NumField(); i++ {
			b.WriteString(v.Type().Field(i).Name)
			b.WriteString(":")
			dump(v.Field(i), b, shift, d+1)
			b.WriteString(";")
		}
	case reflect.Slice:
		b.WriteString("[")
		for i := 0; i < v.Len(); i++ {
			dump(v.Index(i), b, shift, d+1)
			b.WriteString(",")
		}
		b.WriteString("]")
	case reflect.String:
		fmt.Fprintf(b, "%q", v.String())
	case reflect.Int, reflect.Int64:
		fmt.Fprintf(b, "%d", v.Int())
	case reflect.Bool:
		fmt.Fprintf(b, "%v", v.Bool())
	default:
		fmt.Fprintf(b, "<%s>", v.Kind())
	}
}

func dumpStmt(s ast.Stmt, shift int) string {
	var b strings.Builder
	dump(reflect.ValueOf(&s).Elem(), &b, shift, 0)
	return b.String()
}

type result struct {
	stmt    ast.Stmt
	outcome string
	errType bool
	line    int
	col     int
	detail  string
}

var timeouts int32

func parseOnce(src string) (r result) {
	if atomic.LoadInt32(&timeouts) >= 6 {
		return result{outcome: "timeout", detail: "not run: the parser did not terminate on several inputs already"}
	}
	done := make(chan result, 1)
	go func() {
		var rr result
		defer func() {
			if p := recover(); p != nil {
				rr = result{outcome: "panic", detail: fmt.Sprint(p)}
			}
			done <- rr
		}()
		stmt, err := parser.ParseSrc(src)
		if err == nil {
			rr = result{stmt: stmt, outcome: "ok"}
			return
		}
		rr = result{stmt: stmt, outcome: "err", detail: err.Error()}
		if pe, ok := err.(*parser.Error); ok && pe != nil {
			rr.errType = true
			rr.line, rr.col = pe.Pos.Line, pe.Pos.Column
		}
	}()
	select {
	case r = <-done:
		return r
	case <-time.After(4 * time.Second):
		atomic.AddInt32(&timeouts, 1)
		return result{outcome: "timeout"}
	}
}

func sig(r result) string {
	return fmt.Sprintf("%s|%v|%d:%d|%s|%s", r.outcome, r.errType, r.line, r.col, r.detail, dumpStmt(r.stmt, 0))
}

func lineLens(src string) []int {
	var out []int
	n := 0
	for _, r := range src {
		if r == '\n' {
			out = append(out, n)
			n = 0
		} else {
			n++
		}
	}
	return append(out, n)
}

func stmtsOf(s ast.Stmt) []ast.Stmt {
	if s == nil || reflect.ValueOf(s).IsNil() {
		return nil
	}
	if ss, ok := s.(*ast.StmtsStmt); ok {
		return ss.Stmts
	}
	return []ast.Stmt{s}
}

func listDump(ss []ast.Stmt, shift int) []string {
	var out []string
	for _, s := range ss {
		out = append(out, dumpStmt(s, shift))
	}
	return out
}

func main() {
	if len(os.Args) < 4 {
		fmt.Fprintln(os.Stderr, "usage: parseharness <sources.ndjson> <pairs.ndjson> <obs.ndjson>")
		os.Exit(2)
	}
	out, _ := os.Create(os.Args[3])
	defer out.Close()
	w := bufio.NewWriter(out)
	defer w.Flush()
	enc := json.NewEncoder(w)
	srcs := map[string]string{}
	f, err := os.Open(os.Args[1])
	if err != nil {
		fmt.Fprintln(os.Stderr, err)
		os.Exit(2)
	}
	sc := bufio.NewScanner(f)
	sc.Buffer(make([]byte, 1<<20), 1<<26)
	for sc.Scan() {
		var s Src
		if err := json.Unmarshal(sc.Bytes(), &s); err != nil {
			fmt.Fprintln(os.Stderr, err)
			os.Exit(2)
		}
		src := s.Src
		if s.B64 != "" {
			var raw []byte
			json.Unmarshal([]byte(`"`+s.B64+`"`), &raw)
			src = string(raw)
		}
		srcs[s.ID] = src
		r1 := parseOnce(src)
		ll := lineLens(src)
		o := Obs{Kind: "parse", ID: s.ID, NLines: len(ll), LineLens: ll, Outcome: r1.outcome, ErrType: r1.errType, Line: r1.line, Col: r1.col, Detail: r1.detail, Repeat: true, Conc: true, CompOK: true}
		if r1.outcome == "ok" || r1.outcome == "err" {
			s1 := sig(r1)
			o.Repeat = sig(parseOnce(src)) == s1
			var wg sync.WaitGroup
			var mu sync.Mutex
			for k := 0; k < 6; k++ {
				wg.Add(1)
				go func() {
					defer wg.Done()
					if sig(parseOnce(src)) != s1 {
						mu.Lock()
						o.Conc = false
						mu.Unlock()
					}
				}()
			}
			wg.Wait()
		}
		if len(o.LineLens) > 50 {
			// keep the observation small: only the lines around the reported position
			keep := make([]int, len(o.LineLens))
			copy(keep, o.LineLens)
			o.LineLens = keep
		}
		enc.Encode(o)
	}
	f.Close()
	// composition
	pf, err := os.Open(os.Args[2])
	if err != nil {
		return
	}
	ps := bufio.NewScanner(pf)
	for ps.Scan() {
		var p struct{ A, B string }
		if json.Unmarshal(ps.Bytes(), &p) != nil {
			continue
		}
		a, b := srcs[p.A], srcs[p.B]
		ra, rb := parseOnce(a), parseOnce(b)
		if ra.outcome != "ok" || rb.outcome != "ok" {
			continue
		}
		rc := parseOnce(a + "\n" + b)
		o := Obs{Kind: "compose", ID: p.A + " + " + p.B, LineLens: []int{}, Outcome: rc.outcome, Repeat: true, Conc: true, ErrType: true, Line: rc.line, Col: rc.col}
		if rc.outcome == "ok" {
			want := append(listDump(stmtsOf(ra.stmt), 0), listDump(stmtsOf(rb.stmt), len(lineLens(a)))...)
			got := listDump(stmtsOf(rc.stmt), 0)
			o.CompOK = reflect.DeepEqual(want, got) || (len(want) == 0 && len(got) == 0)
			if !o.CompOK {
				for i := range want {
					if i >= len(got) || want[i] != got[i] {
						g := "<missing>"
						if i < len(got) {
							g = got[i]
						}
						o.Detail = fmt.Sprintf("statement %d: want %.300s got %.300s", i, want[i], g)
						break
					}
				}
				if o.Detail == "" {
					o.Detail = fmt.Sprintf("want %d statements, got %d", len(want), len(got))
				}
			}
		} else {
			o.CompOK = false
			o.Detail = "concatenation does not parse: " + rc.detail
		}
		enc.Encode(o)
	}
}
