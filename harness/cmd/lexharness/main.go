// lexharness replays the token streams computed by spec/AnkoLexer.tla through the real parser.Scanner (property C15):
// token kind, reported position and the scanner's (offset, lineHead, line) after every token must agree.
//
//	lexharness <tlc.out> <result.json>
package main

import (
	"encoding/json"
	"fmt"
	"os"
	"time"

	"github.com/mattn/anko/parser"
	"verifharness/internal/tlcout"
)

type Tok struct {
	Tok  string `json:"tok"`
	Line int    `json:"line"`
	Col  int    `json:"col"`
	O    int    `json:"o"`
	LH   int    `json:"lh"`
	LN   int    `json:"ln"`
	Err  bool   `json:"err"`
}

type Case struct {
	Src []string `json:"src"`
	Ts  []Tok    `json:"ts"`
}

var runeOf = map[string]rune{"a": 'a', "e": 'e', "x": 'x', "1": '7', "0": '0', "q": '"', "t": '`', "k": '\\', "n": '\n', "s": ' ', "h": '#',
	"/": '/', "*": '*', "=": '=', "<": '<', "-": '-', ".": '.', "+": '+', "(": '(', "$": '$', "u": 'λ'}

var tokOf = map[string]int{"IDENT": parser.IDENT, "NUMBER": parser.NUMBER, "STRING": parser.STRING, "EOF": parser.EOF, "DIVEQ": parser.DIVEQ, "EQEQ": parser.EQEQ,
	"EQOPCHAN": parser.EQOPCHAN, "OPCHAN": parser.OPCHAN, "LE": parser.LE, "SHIFTLEFT": parser.SHIFTLEFT, "MINUSMINUS": parser.MINUSMINUS, "MINUSEQ": parser.MINUSEQ,
	"PLUSPLUS": parser.PLUSPLUS, "PLUSEQ": parser.PLUSEQ, "MULEQ": parser.MULEQ, "VARARG": parser.VARARG,
	"/": '/', "=": '=', "<": '<', "-": '-', "+": '+', "*": '*', ".": '.', "n": '\n', "(": '('}

type Mismatch struct {
	Src  string `json:"src"`
	At   int    `json:"token"`
	What string `json:"what"`
	Exp  Tok    `json:"expected"`
	Got  string `json:"got"`
}

type Summary struct {
	Cases      int        `json:"cases"`
	Tokens     int        `json:"tokens"`
	NMismatch  int        `json:"n_mismatch"`
	Mismatches []Mismatch `json:"mismatches"`
	Samples    []Case     `json:"samples"`
}

func check(c Case, sum *Summary) (m *Mismatch) {
	rs := make([]rune, len(c.Src))
	for i, k := range c.Src {
		rs[i] = runeOf[k]
	}
	src := string(rs)
	defer func() {
		if r := recover(); r != nil {
			m = &Mismatch{Src: src, What: fmt.Sprint("PANIC in Scanner.Scan: ", r)}
		}
	}()
	s := &parser.Scanner{}
	s.Init(src)
	for i, e := range c.Ts {
		tok, _, pos, err := s.Scan()
		sum.Tokens++
		o, lh, ln := s.VerifState()
		got := fmt.Sprintf("tok=%d pos=%d:%d state=(%d,%d,%d) err=%v", tok, pos.Line, pos.Column, o, lh, ln, err)
		if (err != nil) != e.Err {
			return &Mismatch{Src: src, At: i, What: "error or not", Exp: e, Got: got}
		}
		if !e.Err && tok != tokOf[e.Tok] {
			return &Mismatch{Src: src, At: i, What: "token kind", Exp: e, Got: got}
		}
		if pos.Line != e.Line || pos.Column != e.Col {
			return &Mismatch{Src: src, At: i, What: "position", Exp: e, Got: got}
		}
		if o != e.O || lh != e.LH || ln != e.LN {
			return &Mismatch{Src: src, At: i, What: "scanner state", Exp: e, Got: got}
		}
	}
	return nil
}

func main() {
	if len(os.Args) < 3 {
		fmt.Fprintln(os.Stderr, "usage: lexharness <tlc.out> <result.json>")
		os.Exit(2)
	}
	var sum Summary
	hangs := 0
	err := tlcout.Each(os.Args[1], func(raw []byte) error {
		var c Case
		if err := json.Unmarshal(raw, &c); err != nil {
			return err
		}
		sum.Cases++
		if hangs >= 5 {
			return nil // the scanner does not terminate on several inputs already: the rest of this shard is not run (each hang keeps a core busy)
		}
		var m *Mismatch
		done := make(chan *Mismatch, 1)
		var local Summary
		go func() { done <- check(c, &local) }()
		select {
		case m = <-done:
			sum.Tokens += local.Tokens
		case <-time.After(3 * time.Second):
			hangs++
			m = &Mismatch{Src: fmt.Sprint(c.Src), What: "Scanner.Scan did not return within 3 s (the scanner must terminate on every input)"}
		}
		if m != nil {
			sum.NMismatch++
			if len(sum.Mismatches) < 30 {
				sum.Mismatches = append(sum.Mismatches, *m)
			}
		}
		if len(sum.Samples) < 3 && sum.Cases%3001 == 17 {
			sum.Samples = append(sum.Samples, c)
		}
		return nil
	})
	if err != nil {
		fmt.Fprintln(os.Stderr, err)
		os.Exit(2)
	}
	b, _ := json.Marshal(sum)
	os.WriteFile(os.Args[2], b, 0o644)
}
