// provharness evaluates the scripts TLC built for property C20 (operation template x value x provenance chain) on the real
// interpreter and records, per case, the canonical outcome with the chain and with the bare variable.
//
//	provharness <tlc.out> <obs.ndjson>
package main

import (
	"bufio"
	"context"
	"encoding/json"
	"errors"
	"fmt"
	"os"
	"reflect"
	"regexp"
	"sort"
	"strings"
	"time"

	"github.com/mattn/anko/env"
	"github.com/mattn/anko/vm"
	"verifharness/internal/tlcout"
)

type ST struct {
	A int64
	B string
}

func (s ST) Val() int64  { return s.A + 1 }
func (s *ST) Ptr() int64 { return s.A + 2 }

func newEnv() *env.Env {
	e := env.NewEnv()
	e.Define("vi", int64(3))
	e.Define("vz", int64(0))
	e.Define("vf", float64(1.5))
	e.Define("vs", "ab")
	e.Define("vb", true)
	e.Define("vn", nil)
	e.Define("vl", []interface{}{int64(1), int64(2), int64(3)})
	e.Define("vm", map[interface{}]interface{}{"k": int64(1), "j": int64(2)})
	x := int64(7)
	e.Define("vp", &x)
	c := make(chan int64, 4)
	c <- 1
	c <- 2
	e.Define("vc", c)
	e.Define("vg", func(a int64) int64 { return a * 2 })
	e.DefineType("ST", ST{})                 // vmk = make(ST): a struct value that is addressable where it is bound, unlike one handed over by the host
	e.Define("vst", ST{A: 5, B: "b"})
	e.Define("vsp", &ST{A: 6, B: "c"})
	e.Define("vtl", []int64{4, 5, 6})
	e.Define("vns", []int64(nil))          // nil values of concrete types
	e.Define("vnm", map[string]int64(nil))
	e.Define("vnp", (*ST)(nil))
	e.Define("vdur", time.Duration(5)) // values with methods: a fmt.Stringer, an error
	e.Define("verr", errors.New("boom"))
	e.Define("id2", func(x interface{}) (interface{}, error) { return x, nil })
	e.Define("g2", func(a, b interface{}) []interface{} { return []interface{}{a, b} })
	e.Define("gl", func(xs ...interface{}) []interface{} { return append([]interface{}{}, xs...) })
	e.Define("gs", func(x fmt.Stringer) string { return "stringer:" + x.String() })
	e.Define("ge", func(x error) string { return "error:" + x.Error() })
	e.Define("gsv", func(n int64, xs ...fmt.Stringer) string { return fmt.Sprint(n, len(xs), xs[0].String()) })
	e.Define("id", func(x interface{}) interface{} { return x })
	e.Define("g1", func(a interface{}) interface{} { return fmt.Sprintf("%T", a) })
	e.Define("gi", func(a int64) int64 { return a + 100 })
	e.Define("gv", func(xs ...interface{}) int64 { return int64(len(xs)) })
	_, err := vm.Execute(e, nil, "vfn = func(a) { return a + 1 }\nf1 = func(a) { return a }\nf2 = func(a, b) { return [a, b] }\nfv = func(a...) { return len(a) }\nf5 = func(a, b, c, d, e) { return [a, b, e] }\nfl = func(a...) { return a }\nmod1 = nil\nmodule mo { x = 1 }\nvmo = mo\nvmk = make(ST)\nvmk.A = 8")
	if err != nil {
		panic(err)
	}
	// every value also sits in a named list and a named map that stay reachable; bump() overwrites all those places and returns 1:
	// an operand that was read from one of them before bump() ran keeps the value it was read as
	var typed []reflect.Value
	var lists [][]interface{}
	var maps []map[interface{}]interface{}
	for _, n := range e.GetValueSymbols() {
		if !strings.HasPrefix(n, "v") {
			continue
		}
		v, _ := e.Get(n)
		l := []interface{}{v}
		m := map[interface{}]interface{}{"k": v}
		lists, maps = append(lists, l), append(maps, m)
		e.Define("hl_"+n, l)
		e.Define("hm_"+n, m)
		if v != nil {
			t := reflect.MakeSlice(reflect.SliceOf(reflect.TypeOf(v)), 1, 1)
			t.Index(0).Set(reflect.ValueOf(v))
			typed = append(typed, t)
			e.DefineValue("ht_"+n, t)
		} else {
			e.Define("ht_"+n, []interface{}{nil})
		}
	}
	e.Define("bump", func() int64 {
		for _, l := range lists {
			l[0] = int64(99)
		}
		for _, m := range maps {
			m["k"] = int64(99)
		}
		for _, t := range typed {
			t.Index(0).Set(reflect.Zero(t.Type().Elem())) // the slot gets the zero value of its type
		}
		return 1
	})
	return e
}

func canon(v reflect.Value, b *strings.Builder, d int) {
	if !v.IsValid() {
		b.WriteString("nil")
		return
	}
	if d > 8 {
		b.WriteString("...")
		return
	}
	switch v.Kind() {
	case reflect.Interface:
		if v.IsNil() {
			b.WriteString("nil")
			return
		}
		canon(v.Elem(), b, d+1)
	case reflect.Ptr:
		if v.IsNil() {
			b.WriteString("nilptr:" + v.Type().String())
			return
		}
		if _, ok := v.Interface().(*env.Env); ok {
			b.WriteString("module")
			return
		}
		b.WriteString("ptr(" + v.Type().String() + ")->")
		canon(v.Elem(), b, d+1)
	case reflect.Slice, reflect.Array:
		b.WriteString(v.Type().String() + "[")
		for i := 0; i < v.Len(); i++ {
			canon(v.Index(i), b, d+1)
			b.WriteString(",")
		}
		b.WriteString("]")
	case reflect.Map:
		var parts []string
		for _, k := range v.MapKeys() {
			var kb strings.Builder
			canon(k, &kb, d+1)
			kb.WriteString(":")
			canon(v.MapIndex(k), &kb, d+1)
			parts = append(parts, kb.String())
		}
		sort.Strings(parts)
		b.WriteString(v.Type().String() + "{" + strings.Join(parts, ",") + "}")
	case reflect.Func:
		b.WriteString("func")
	case reflect.Chan:
		fmt.Fprintf(b, "chan(len=%d)", v.Len())
	case reflect.Struct:
		fmt.Fprintf(b, "%s%v", v.Type().String(), v)
	default:
		fmt.Fprintf(b, "%s:%v", v.Type().String(), v)
	}
}

func outcome(src string) string {
	e := newEnv()
	var res interface{}
	var err error
	func() {
		defer func() {
			if r := recover(); r != nil {
				err = fmt.Errorf("PANIC %v", r)
			}
		}()
		ctx, cancel := context.WithTimeout(context.Background(), 300*time.Millisecond)
		defer cancel()
		res, err = vm.ExecuteContext(ctx, e, nil, src) // a template that blocks is interrupted: outcome "error" for every chain alike
	}()
	if err != nil {
		if strings.HasPrefix(err.Error(), "PANIC") {
			return "panic"
		}
		return "error"
	}
	var b strings.Builder
	canon(reflect.ValueOf(res), &b, 0)
	return addrRE.ReplaceAllString(b.String(), "0xADDR") // a formatted channel/function/module shows its address
}

var addrRE = regexp.MustCompile(`0x[0-9a-f]{6,}`)

func main() {
	if len(os.Args) < 3 {
		fmt.Fprintln(os.Stderr, "usage: provharness <tlc.out> <obs.ndjson>")
		os.Exit(2)
	}
	out, _ := os.Create(os.Args[2])
	defer out.Close()
	w := bufio.NewWriter(out)
	defer w.Flush()
	enc := json.NewEncoder(w)
	baseCache := map[string]string{}
	err := tlcout.Each(os.Args[1], func(raw []byte) error {
		var c struct {
			T       string   `json:"t"`
			V       string   `json:"v"`
			Chain   []string `json:"chain"`
			Src     string   `json:"src"`
			BaseSrc string   `json:"basesrc"`
		}
		if err := json.Unmarshal(raw, &c); err != nil {
			return err
		}
		base, ok := baseCache[c.BaseSrc]
		if !ok {
			base = outcome(c.BaseSrc)
			baseCache[c.BaseSrc] = base
		}
		enc.Encode(map[string]interface{}{"t": c.T, "v": c.V, "chain": c.Chain, "src": c.Src, "basesrc": c.BaseSrc, "got": outcome(c.Src), "base": base})
		return nil
	})
	if err != nil {
		fmt.Fprintln(os.Stderr, err)
		os.Exit(2)
	}
}
