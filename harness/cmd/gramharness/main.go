// gramharness binds spec/AnkoGrammar.tla (property C03) to the real parser: for every tree TLC emitted with its
// minimally and fully parenthesised token strings, both spellings are parsed by parser.ParseSrc, the real trees
// (parentheses and positions dropped) must equal the TLC tree, both spellings must evaluate to the same value, and
// both must build the same tree inside every statement position that accepts an expression.
//
//	gramharness trees <tlc.out> <result.json>
//	gramharness literals <tlc.out> <result.json>
package main

import (
	"encoding/binary"
	"encoding/json"
	"fmt"
	"math"
	"os"
	"reflect"
	"strconv"
	"strings"

	"github.com/mattn/anko/ast"
	"github.com/mattn/anko/env"
	"github.com/mattn/anko/parser"
	"github.com/mattn/anko/vm"
	"verifharness/internal/tlcout"
)

type N = map[string]interface{}

func enc(e ast.Expr) N {
	switch x := e.(type) {
	case *ast.ParenExpr:
		return enc(x.SubExpr)
	case *ast.IdentExpr:
		return N{"k": "leaf", "n": x.Lit}
	case *ast.LiteralExpr:
		// atoms of the other lexical classes; a negative number is the literal the grammar folds `- NUMBER` into
		v := x.Literal
		if !v.IsValid() || (v.Kind() == reflect.Interface && v.IsNil()) {
			return N{"k": "leaf", "n": "nil"}
		}
		switch v.Kind() {
		case reflect.Int64:
			if v.Int() < 0 {
				return N{"k": "un", "op": "-", "e": N{"k": "leaf", "n": strconv.FormatInt(-v.Int(), 10)}}
			}
			return N{"k": "leaf", "n": strconv.FormatInt(v.Int(), 10)}
		case reflect.Bool:
			return N{"k": "leaf", "n": strconv.FormatBool(v.Bool())}
		case reflect.String:
			return N{"k": "leaf", "n": strconv.Quote(v.String())}
		}
		return N{"k": "leaf", "n": fmt.Sprint(v.Interface())}
	case *ast.OpExpr:
		switch o := x.Op.(type) {
		case *ast.BinaryOperator:
			return N{"k": "bin", "op": o.Operator, "l": enc(o.LHS), "r": enc(o.RHS)}
		case *ast.ComparisonOperator:
			return N{"k": "bin", "op": o.Operator, "l": enc(o.LHS), "r": enc(o.RHS)}
		case *ast.AddOperator:
			return N{"k": "bin", "op": o.Operator, "l": enc(o.LHS), "r": enc(o.RHS)}
		case *ast.MultiplyOperator:
			return N{"k": "bin", "op": o.Operator, "l": enc(o.LHS), "r": enc(o.RHS)}
		}
	case *ast.IncludeExpr:
		return N{"k": "bin", "op": "in", "l": enc(x.ItemExpr), "r": enc(x.ListExpr)}
	case *ast.UnaryExpr:
		return N{"k": "un", "op": x.Operator, "e": enc(x.Expr)}
	case *ast.AddrExpr:
		return N{"k": "un", "op": "&", "e": enc(x.Expr)}
	case *ast.DerefExpr:
		return N{"k": "un", "op": "*", "e": enc(x.Expr)}
	case *ast.TernaryOpExpr:
		return N{"k": "tern", "c": enc(x.Expr), "a": enc(x.LHS), "b": enc(x.RHS)}
	case *ast.NilCoalescingOpExpr:
		return N{"k": "nilco", "l": enc(x.LHS), "r": enc(x.RHS)}
	case *ast.ItemExpr:
		return N{"k": "idx", "e": enc(x.Item), "i": enc(x.Index)}
	case *ast.MemberExpr:
		return N{"k": "member", "e": enc(x.Expr), "n": x.Name}
	case *ast.SliceExpr:
		if x.Begin != nil && x.End != nil && x.Cap == nil {
			return N{"k": "slice", "e": enc(x.Item), "lo": enc(x.Begin), "hi": enc(x.End)}
		}
		if x.Begin != nil && x.End != nil && x.Cap != nil {
			return N{"k": "slice3", "e": enc(x.Item), "lo": enc(x.Begin), "hi": enc(x.End), "c": enc(x.Cap)}
		}
		if x.Begin != nil && x.End == nil && x.Cap == nil {
			return N{"k": "slicelo", "e": enc(x.Item), "lo": enc(x.Begin)}
		}
		if x.Begin == nil && x.End != nil && x.Cap == nil {
			return N{"k": "slicehi", "e": enc(x.Item), "hi": enc(x.End)}
		}
	case *ast.ArrayExpr:
		if len(x.Exprs) == 0 && x.TypeData == nil {
			return N{"k": "elist"}
		}
	case *ast.CallExpr:
		if len(x.SubExprs) == 0 && !x.VarArg {
			return N{"k": "call0", "e": N{"k": "leaf", "n": x.Name}}
		}
		if len(x.SubExprs) == 1 && !x.VarArg {
			return N{"k": "call", "e": N{"k": "leaf", "n": x.Name}, "a": enc(x.SubExprs[0])}
		}
	case *ast.AnonCallExpr:
		if len(x.SubExprs) == 0 && !x.VarArg {
			return N{"k": "call0", "e": enc(x.Expr)}
		}
		if len(x.SubExprs) == 1 && !x.VarArg {
			return N{"k": "call", "e": enc(x.Expr), "a": enc(x.SubExprs[0])}
		}
	}
	return N{"k": "other", "type": fmt.Sprintf("%T", e)}
}

func parseExpr(src string) (N, error) {
	stmt, err := parser.ParseSrc(src)
	if err != nil {
		return nil, err
	}
	ss, ok := stmt.(*ast.StmtsStmt)
	if !ok || len(ss.Stmts) != 1 {
		return nil, fmt.Errorf("not a single statement")
	}
	es, ok := ss.Stmts[0].(*ast.ExprStmt)
	if !ok {
		return nil, fmt.Errorf("not an expression statement: %T", ss.Stmts[0])
	}
	return enc(es.Expr), nil
}

var rvT = reflect.TypeOf(reflect.Value{})
var posT = reflect.TypeOf(ast.Position{})

// shape dumps a tree without positions and without parenthesis nodes
func shape(v reflect.Value, b *strings.Builder, d int) {
	if !v.IsValid() || d > 2000 {
		b.WriteString("<nil>")
		return
	}
	if v.Type() == posT {
		return
	}
	if v.Type() == rvT {
		if v.CanInterface() {
			in := v.Interface().(reflect.Value)
			if in.IsValid() {
				fmt.Fprintf(b, "rv(%s:%v)", in.Type(), in)
			}
		}
		return
	}
	switch v.Kind() {
	case reflect.Ptr, reflect.Interface:
		if v.IsNil() {
			b.WriteString("<nil>")
			return
		}
		if v.Kind() == reflect.Ptr {
			if p, ok := v.Interface().(*ast.ParenExpr); ok {
				for {
					q, again := p.SubExpr.(*ast.ParenExpr)
					if !again {
						break
					}
					p = q
				}
				shape(reflect.ValueOf(p.SubExpr), b, d+1)
				return
			}
		}
		if v.Kind() == reflect.Ptr {
			b.WriteString(v.Elem().Type().Name())
		}
		b.WriteString("{")
		shape(v.Elem(), b, d+1)
		b.WriteString("}")
	case reflect.Struct:
		for i := 0; i < v.NumField(); i++ {
			if v.Type().Field(i).PkgPath != "" {
				continue
			}
			b.WriteString(v.Type().Field(i).Name)
			b.WriteString(":")
			shape(v.Field(i), b, d+1)
			b.WriteString(";")
		}
	case reflect.Slice:
		b.WriteString("[")
		for i := 0; i < v.Len(); i++ {
			shape(v.Index(i), b, d+1)
			b.WriteString(",")
		}
		b.WriteString("]")
	case reflect.String:
		fmt.Fprintf(b, "%q", v.String())
	case reflect.Int, reflect.Int64:
		fmt.Fprintf(b, "%d", v.Int())
	case reflect.Bool:
		fmt.Fprintf(b, "%v", v.Bool())
	}
}

func shapeOf(src string) (string, error) {
	stmt, err := parser.ParseSrc(src)
	if err != nil {
		return "", err
	}
	var b strings.Builder
	shape(reflect.ValueOf(&stmt).Elem(), &b, 0)
	return b.String(), nil
}

var positions = []string{"x = %s", "var x = %s", "if %s { }", "for %s { break }", "return %s", "f(%s)", "f(1, %s)", "[%s]", "{\"k\": %s}", "switch %s { case 1: }",
	"switch 1 { case %s: }", "throw %s", "c[%s]", "x = (%s)", "defer f(%s)", "for i = 0; %s; i++ { }", "x, y = 1, %s", "len(%s)"}

var contexts = []string{"q = 0\ng(1, 2)", "w = [1, 2]\nz = {\"k\": 1}\nh(3)", "if a {\n f(1, 2, 3)\n}", "func hh(u, v) {\n return u, v\n}", "x = g(1)(2)\ny = [[1], [2, 3]]"}

// lastShapeOf: the shape of the last top-level statement of src
func lastShapeOf(src string) (string, error) {
	stmt, err := parser.ParseSrc(src)
	if err != nil {
		return "", err
	}
	if ss, ok := stmt.(*ast.StmtsStmt); ok && len(ss.Stmts) > 0 {
		var b strings.Builder
		last := ss.Stmts[len(ss.Stmts)-1]
		shape(reflect.ValueOf(&last).Elem(), &b, 0)
		return b.String(), nil
	}
	return "", fmt.Errorf("no statements")
}

func eval(src string) string {
	defer func() { recover() }()
	e := env.NewEnv()
	e.Define("a", int64(6))
	e.Define("b", int64(3))
	e.Define("c", []interface{}{int64(2), int64(6), int64(3), int64(1)})
	e.Define("m", int64(1))
	v, err := vm.Execute(e, nil, src)
	if err != nil {
		return "error"
	}
	var b strings.Builder
	canonVal(reflect.ValueOf(v), &b, 0)
	return b.String()
}

// canonVal prints a value without addresses (pointers are followed)
func canonVal(v reflect.Value, b *strings.Builder, d int) {
	if !v.IsValid() {
		b.WriteString("nil")
		return
	}
	if d > 10 {
		b.WriteString("...")
		return
	}
	switch v.Kind() {
	case reflect.Ptr, reflect.Interface:
		if v.IsNil() {
			b.WriteString("nil")
			return
		}
		if v.Kind() == reflect.Ptr {
			b.WriteString("ptr->")
		}
		canonVal(v.Elem(), b, d+1)
	case reflect.Slice, reflect.Array:
		b.WriteString("[")
		for i := 0; i < v.Len(); i++ {
			canonVal(v.Index(i), b, d+1)
			b.WriteString(",")
		}
		b.WriteString("]")
	case reflect.Func:
		b.WriteString("func")
	default:
		fmt.Fprintf(b, "%s:%v", v.Type(), v)
	}
}

type Mismatch struct {
	Kind string      `json:"kind"`
	Min  string      `json:"min"`
	Full string      `json:"full"`
	Exp  interface{} `json:"expected"`
	Got  interface{} `json:"got"`
	What string      `json:"what"`
}

type Summary struct {
	Cases      int           `json:"cases"`
	Parses     int           `json:"parses"`
	NMismatch  int           `json:"n_mismatch"`
	Mismatches []Mismatch    `json:"mismatches"`
	Samples    []interface{} `json:"samples"`
}

func canon(x interface{}) string {
	b, _ := json.Marshal(x)
	return string(b)
}

func wordy(t string) bool {
	c := t[0]
	return c == '_' || c == '"' || (c >= '0' && c <= '9') || (c >= 'a' && c <= 'z') || (c >= 'A' && c <= 'Z')
}

func bracket(t string) bool { return strings.ContainsAny(t, "()[]") && len(t) == 1 }

// joinTight writes a token sequence with as few blanks as keep the tokens apart: none between a word and an operator or bracket, one between
// two words and between two operators (`< -`, `- -`, `& &` would run into other tokens).  lead: additionally one blank BEFORE every operator.
func joinTight(ts []string, lead bool) string {
	var b strings.Builder
	for i, t := range ts {
		if i > 0 {
			p := ts[i-1]
			op, pop := !wordy(t) && !bracket(t), !wordy(p) && !bracket(p)
			switch {
			case wordy(p) && wordy(t), op && pop:
				b.WriteByte(' ')
			case lead && op && p != "(" && p != "[":
				b.WriteByte(' ')
			case p == "]" && (t == "[" || t == "{"), t == "." || p == ".":
				if t != "." && p != "." {
					b.WriteByte(' ')
				}
			}
		}
		b.WriteString(t)
	}
	return b.String()
}

func trees(in, out string) {
	var sum Summary
	add := func(m Mismatch) {
		sum.NMismatch++
		if len(sum.Mismatches) < 40 {
			sum.Mismatches = append(sum.Mismatches, m)
		}
	}
	err := tlcout.Each(in, func(raw []byte) error {
		var c struct {
			T    N        `json:"t"`
			Min  []string `json:"min"`
			Full []string `json:"full"`
		}
		if err := json.Unmarshal(raw, &c); err != nil {
			return err
		}
		sum.Cases++
		min, full := strings.Join(c.Min, " "), strings.Join(c.Full, " ")
		want := canon(c.T)
		for _, sp := range []struct{ name, src string }{{"min", min}, {"full", full}} {
			got, err := parseExpr(sp.src)
			sum.Parses++
			if err != nil {
				add(Mismatch{Kind: "tree", Min: min, Full: full, Exp: c.T, Got: err.Error(), What: sp.name + " spelling does not parse as one expression"})
				return nil
			}
			if canon(got) != want {
				add(Mismatch{Kind: "tree", Min: min, Full: full, Exp: c.T, Got: got, What: "tree of the " + sp.name + " spelling"})
				return nil
			}
		}
		// blanks decide nothing: the same tokens written without blanks (where two tokens would not run into one), and with a blank
		// only BEFORE every operator (`a -b`, `true -1`), build the same tree
		for _, sp := range []struct{ name, src string }{{"min spelling without blanks", joinTight(c.Min, false)}, {"min spelling with blanks only before operators", joinTight(c.Min, true)}} {
			got, err := parseExpr(sp.src)
			sum.Parses++
			if err != nil {
				add(Mismatch{Kind: "tree", Min: sp.src, Full: full, Exp: c.T, Got: err.Error(), What: sp.name + " does not parse as one expression"})
				return nil
			}
			if canon(got) != want {
				add(Mismatch{Kind: "tree", Min: sp.src, Full: full, Exp: c.T, Got: got, What: "tree of the " + sp.name})
				return nil
			}
		}
		if a, b := eval(min), eval(full); a != b {
			add(Mismatch{Kind: "value", Min: min, Full: full, Exp: b, Got: a, What: "the two spellings evaluate differently"})
		}
		for _, p := range positions {
			if strings.HasPrefix(p, "for %s") && len(c.Min) >= 2 && c.Min[1] == "in" {
				continue // `for x in ...` is the for-in statement, not a loop over the expression `x in ...`
			}
			a, ea := shapeOf(fmt.Sprintf(p, min))
			b, eb := shapeOf(fmt.Sprintf(p, full))
			sum.Parses += 2
			if (ea != nil) != (eb != nil) || a != b {
				add(Mismatch{Kind: "position", Min: fmt.Sprintf(p, min), Full: fmt.Sprintf(p, full), What: "the two spellings build different trees in this statement position", Exp: b, Got: a})
				break
			}
		}
		// after other statements the expression statement builds the tree it builds alone (nothing left over from what was parsed before)
		alone, ea := lastShapeOf(min)
		for _, pre := range contexts {
			got, eg := lastShapeOf(pre + "\n" + min)
			sum.Parses++
			if (ea != nil) != (eg != nil) || got != alone {
				add(Mismatch{Kind: "position", Min: pre + "\n" + min, Full: min, What: "the expression parsed after other statements builds another tree than alone", Exp: alone, Got: got})
				break
			}
		}
		if len(sum.Samples) < 3 && sum.Cases%1999 == 7 {
			sum.Samples = append(sum.Samples, N{"tree": c.T, "min": min, "full": full})
		}
		return nil
	})
	if err != nil {
		fmt.Fprintln(os.Stderr, err)
		os.Exit(2)
	}
	b, _ := json.Marshal(sum)
	os.WriteFile(out, b, 0o644)
}

// ---- literals: {src, exp: {t: int|flt|str|reject, l: bytes, cs: char codes}}
func literals(in, out string) {
	var sum Summary
	add := func(m Mismatch) {
		sum.NMismatch++
		if len(sum.Mismatches) < 40 {
			sum.Mismatches = append(sum.Mismatches, m)
		}
	}
	err := tlcout.Each(in, func(raw []byte) error {
		var c struct {
			Src string `json:"src"`
			Exp struct {
				T  string `json:"t"`
				L  []int  `json:"l"`
				Cs []int  `json:"cs"`
			} `json:"exp"`
		}
		if err := json.Unmarshal(raw, &c); err != nil {
			return err
		}
		sum.Cases++
		v, err := func() (v interface{}, err error) {
			defer func() {
				if r := recover(); r != nil {
					err = fmt.Errorf("PANIC %v", r)
				}
			}()
			stmt, err := parser.ParseSrc("x = " + c.Src)
			if err != nil {
				return nil, err
			}
			e := env.NewEnv()
			_, err = vm.Run(e, nil, stmt)
			if err != nil {
				return nil, fmt.Errorf("run: %v", err)
			}
			return e.Get("x")
		}()
		sum.Parses++
		got := fmt.Sprintf("%T(%v)", v, v)
		if err != nil {
			got = "rejected: " + err.Error()
		}
		ok := false
		switch c.Exp.T {
		case "reject":
			_, isPE := err.(*parser.Error)
			ok = err != nil && isPE
		case "int":
			b := make([]byte, 8)
			for i := range b {
				b[i] = byte(c.Exp.L[i])
			}
			x, isInt := v.(int64)
			ok = err == nil && isInt && x == int64(binary.LittleEndian.Uint64(b))
		case "flt": // primitive: Go's own strconv.ParseFloat of the spelling, value carried as IEEE bytes by the generator
			b := make([]byte, 8)
			for i := range b {
				b[i] = byte(c.Exp.L[i])
			}
			x, isF := v.(float64)
			ok = err == nil && isF && math.Float64bits(x) == binary.LittleEndian.Uint64(b)
		case "str":
			rs := make([]rune, len(c.Exp.Cs))
			for i, k := range c.Exp.Cs {
				rs[i] = rune(k)
			}
			x, isS := v.(string)
			ok = err == nil && isS && x == string(rs)
		}
		if !ok {
			add(Mismatch{Kind: "literal", Min: c.Src, Exp: c.Exp, Got: got, What: "literal denotation"})
		}
		if len(sum.Samples) < 4 && sum.Cases%23 == 5 {
			sum.Samples = append(sum.Samples, N{"literal": c.Src, "expected": c.Exp, "got": got})
		}
		return nil
	})
	if err != nil {
		fmt.Fprintln(os.Stderr, err)
		os.Exit(2)
	}
	b, _ := json.Marshal(sum)
	os.WriteFile(out, b, 0o644)
}

func main() {
	if len(os.Args) >= 4 && os.Args[1] == "trees" {
		trees(os.Args[2], os.Args[3])
		return
	}
	if len(os.Args) >= 4 && os.Args[1] == "literals" {
		literals(os.Args[2], os.Args[3])
		return
	}
	fmt.Fprintln(os.Stderr, "usage: gramharness trees|literals <tlc.out> <result.json>")
	os.Exit(2)
}
