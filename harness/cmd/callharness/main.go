// callharness binds spec/AnkoCall.tla (property C11) to the real interpreter: for every signature x argument tuple x
// call shape TLC enumerated, a host function of that signature is built with reflect.MakeFunc, bound into a fresh
// environment, called from a script with the script-constructed arguments, and the arguments it RECEIVES are
// compared with what the tables demand (identity, Go conversion, zero, element-wise, callback).
//
//	callharness table <tlc.out> <result.json>
//	callharness scenarios <result.json>        round trips, members, methods, callbacks, results
package main

import (
	"context"
	"encoding/json"
	"errors"
	"fmt"
	"os"
	"reflect"
	"strings"
	"sync"
	"sync/atomic"
	"time"

	"github.com/mattn/anko/env"
	"github.com/mattn/anko/vm"
	"verifharness/internal/tlcout"
)

type Conv struct {
	C  string `json:"c"`
	Es []Conv `json:"es"`
}

type Case struct {
	C struct {
		Fixed  []string `json:"fixed"`
		VType  string   `json:"vtype"`
		Args   []string `json:"args"`
		Spread bool     `json:"spread"`
	} `json:"c"`
	Out struct {
		O    string `json:"o"`
		Cs   []Conv `json:"cs"`
		Tail []Conv `json:"tail"`
	} `json:"out"`
	Fails bool `json:"fails"`
	Open  bool `json:"open"`
}

var typeOf = map[string]reflect.Type{
	"int64": reflect.TypeOf(int64(0)), "int": reflect.TypeOf(int(0)), "int32": reflect.TypeOf(int32(0)), "uint8": reflect.TypeOf(uint8(0)),
	"float64": reflect.TypeOf(float64(0)), "float32": reflect.TypeOf(float32(0)), "string": reflect.TypeOf(""), "bool": reflect.TypeOf(true),
	"iface": reflect.TypeOf((*interface{})(nil)).Elem(), "[]int64": reflect.TypeOf([]int64{}), "[]string": reflect.TypeOf([]string{}),
	"[]iface": reflect.TypeOf([]interface{}{}), "[]float64": reflect.TypeOf([]float64{}), "map[string]int64": reflect.TypeOf(map[string]int64{}),
	"func(int64)string": reflect.TypeOf(func(int64) string { return "" }),
}

// script source and Go value of each argument kind
var srcOf = map[string]string{"int5": "5", "int300": "300", "intneg": "-7", "flt": "1.9", "str": "\"ab\"", "str1": "\"a\"", "bool": "true", "nil": "nil",
	"list_i": "[5, 300]", "list_s": "[\"ab\", \"ab\"]", "list_mixed": "[5, \"ab\"]", "list_empty": "[]", "list_nil": "[5, nil]", "map_si": "{\"a\": 1}",
	"fn": "func(x) { return \"cb\" + x }"}
var goOf = map[string]interface{}{"int5": int64(5), "int300": int64(300), "intneg": int64(-7), "flt": float64(1.9), "str": "ab", "str1": "a", "bool": true, "nil": nil,
	"list_i": []interface{}{int64(5), int64(300)}, "list_s": []interface{}{"ab", "ab"}, "list_mixed": []interface{}{int64(5), "ab"}, "list_empty": []interface{}{},
	"list_nil": []interface{}{int64(5), nil}, "map_si": map[interface{}]interface{}{"a": int64(1)}}
var elemsOf = map[string][]string{"list_i": {"int5", "int300"}, "list_s": {"str", "str"}, "list_mixed": {"int5", "str"}, "list_empty": {}, "list_nil": {"int5", "nil"}}

// expected Go value received for script value kind v under conversion tree c to type T; ok=false when not checkable here
func expected(v string, c Conv, T reflect.Type) (interface{}, bool) {
	switch c.C {
	case "id":
		return goOf[v], v != "fn"
	case "zero":
		return reflect.Zero(T).Interface(), true
	case "goconv":
		return reflect.ValueOf(goOf[v]).Convert(T).Interface(), true // the primitive: Go's own conversion
	case "elems":
		out := reflect.MakeSlice(T, len(c.Es), len(c.Es))
		for i, e := range c.Es {
			x, ok := expected(elemsOf[v][i], e, T.Elem())
			if !ok {
				return nil, false
			}
			if x == nil {
				out.Index(i).Set(reflect.Zero(T.Elem()))
			} else {
				out.Index(i).Set(reflect.ValueOf(x))
			}
		}
		return out.Interface(), true
	case "mapconv":
		return map[string]int64{"a": 1}, true
	}
	return nil, false
}

type Mismatch struct {
	Case Case        `json:"case"`
	Src  string      `json:"src"`
	What string      `json:"what"`
	Exp  interface{} `json:"expected"`
	Got  interface{} `json:"got"`
}

type Summary struct {
	Cases      int           `json:"cases"`
	Open       int           `json:"open"`
	Calls      int           `json:"calls_delivered"`
	NMismatch  int           `json:"n_mismatch"`
	Mismatches []Mismatch    `json:"mismatches"`
	Samples    []interface{} `json:"samples"`
}

func show(x interface{}) string { return fmt.Sprintf("%T(%v)", x, x) }

func table(in, out string) {
	var sum Summary
	add := func(m Mismatch) {
		sum.NMismatch++
		if len(sum.Mismatches) < 40 {
			sum.Mismatches = append(sum.Mismatches, m)
		}
	}
	err := tlcout.Each(in, func(raw []byte) error {
		var c Case
		if err := json.Unmarshal(raw, &c); err != nil {
			return err
		}
		sum.Cases++
		if c.Open {
			sum.Open++
			return nil
		}
		// the host function
		var ins []reflect.Type
		for _, t := range c.C.Fixed {
			ins = append(ins, typeOf[t])
		}
		variadic := c.C.VType != ""
		if variadic {
			ins = append(ins, reflect.SliceOf(typeOf[c.C.VType]))
		}
		ft := reflect.FuncOf(ins, []reflect.Type{reflect.TypeOf("")}, variadic)
		var got []interface{}
		called := 0
		var cbResult string
		h := reflect.MakeFunc(ft, func(in []reflect.Value) []reflect.Value {
			called++
			got = nil
			for i, v := range in {
				if v.Kind() == reflect.Func && !v.IsNil() && i < len(c.C.Fixed) && c.C.Fixed[i] == "func(int64)string" {
					// a script function arrived as a Go func: call it back
					res := v.Call([]reflect.Value{reflect.ValueOf(int64(3))})
					cbResult = res[0].String()
					got = append(got, "callback:"+cbResult)
					continue
				}
				got = append(got, v.Interface())
			}
			return []reflect.Value{reflect.ValueOf("done")}
		})
		e := env.NewEnv()
		e.DefineValue("h", h)
		var names []string
		var src strings.Builder
		for i, a := range c.C.Args {
			n := fmt.Sprintf("x%d", i)
			fmt.Fprintf(&src, "%s = %s\n", n, srcOf[a])
			names = append(names, n)
		}
		src.WriteString("h(" + strings.Join(names, ", "))
		if c.C.Spread {
			src.WriteString("...")
		}
		src.WriteString(")")
		var res interface{}
		var err error
		func() {
			defer func() {
				if r := recover(); r != nil {
					err = fmt.Errorf("PANIC %v", r)
				}
			}()
			res, err = vm.Execute(e, nil, src.String())
		}()
		if err != nil && strings.HasPrefix(err.Error(), "PANIC") {
			add(Mismatch{Case: c, Src: src.String(), What: "panic crossing the boundary", Got: err.Error()})
			return nil
		}
		if c.Fails {
			if err == nil || called > 0 {
				add(Mismatch{Case: c, Src: src.String(), What: "the call should fail without reaching the Go function", Exp: "error", Got: fmt.Sprintf("err=%v called=%d", err, called)})
			}
			return nil
		}
		if err != nil {
			add(Mismatch{Case: c, Src: src.String(), What: "the call should be delivered", Exp: "call", Got: err.Error()})
			return nil
		}
		if called != 1 || res != "done" {
			add(Mismatch{Case: c, Src: src.String(), What: "the Go function must be called exactly once and its result returned", Exp: "1 call, \"done\"", Got: fmt.Sprintf("called=%d res=%v", called, res)})
			return nil
		}
		sum.Calls++
		// received arguments
		nf := len(c.C.Fixed)
		checkOne := func(i int, v string, cv Conv, T reflect.Type, g interface{}) bool {
			if cv.C == "callback" {
				if g != "callback:cb3" {
					add(Mismatch{Case: c, Src: src.String(), What: fmt.Sprintf("argument %d: the script function handed over as a callback must be callable with Go arguments and return its converted result", i), Exp: "callback:cb3", Got: g})
					return false
				}
				return true
			}
			exp, ok := expected(v, cv, T)
			if !ok {
				return true
			}
			if !reflect.DeepEqual(exp, g) || fmt.Sprintf("%T", exp) != fmt.Sprintf("%T", g) {
				add(Mismatch{Case: c, Src: src.String(), What: fmt.Sprintf("argument %d received (%s)", i, cv.C), Exp: show(exp), Got: show(g)})
				return false
			}
			return true
		}
		if len(got) != len(ins) {
			add(Mismatch{Case: c, Src: src.String(), What: "number of received parameters", Exp: len(ins), Got: len(got)})
			return nil
		}
		// which script value feeds fixed parameter i (spread into a fixed function distributes the list)
		argKind := func(i int) string {
			na := len(c.C.Args)
			if c.C.Spread && !variadic && i >= na-1 {
				return elemsOf[c.C.Args[na-1]][i-(na-1)]
			}
			return c.C.Args[i]
		}
		for i := 0; i < nf; i++ {
			if !checkOne(i, argKind(i), c.Out.Cs[i], typeOf[c.C.Fixed[i]], got[i]) {
				return nil
			}
		}
		if variadic {
			tail := reflect.ValueOf(got[nf])
			if tail.Len() != len(c.Out.Tail) {
				add(Mismatch{Case: c, Src: src.String(), What: "number of values delivered to the variadic parameter", Exp: len(c.Out.Tail), Got: tail.Len()})
				return nil
			}
			for j := range c.Out.Tail {
				var v string
				if c.C.Spread {
					v = elemsOf[c.C.Args[len(c.C.Args)-1]][j]
				} else {
					v = c.C.Args[nf+j]
				}
				if !checkOne(nf+j, v, c.Out.Tail[j], typeOf[c.C.VType], tail.Index(j).Interface()) {
					return nil
				}
			}
		}
		if len(sum.Samples) < 3 && sum.Cases%701 == 11 {
			sum.Samples = append(sum.Samples, map[string]interface{}{"signature": ft.String(), "script": src.String(), "expected_conversions": c.Out, "received": fmt.Sprint(got)})
		}
		return nil
	})
	if err != nil {
		fmt.Fprintln(os.Stderr, err)
		os.Exit(2)
	}
	b, _ := json.Marshal(sum)
	os.WriteFile(out, b, 0o644)
}

// ---------------------------------------------------------------- results table (MC_AnkoCall, Shard = "results")

type named struct{ X int64 }

var resVal = map[string]reflect.Value{
	"int64": reflect.ValueOf(int64(7)), "string": reflect.ValueOf("s"), "float64": reflect.ValueOf(2.5), "slice": reflect.ValueOf([]string{"a"}),
	"nilslice": reflect.ValueOf([]string(nil)), "nilmap": reflect.ValueOf(map[string]int64(nil)), "nilptr": reflect.ValueOf((*named)(nil)), "ptr": reflect.ValueOf(&named{3}),
	"nilerr": reflect.Zero(reflect.TypeOf((*error)(nil)).Elem()), "err": reflect.ValueOf(errors.New("e")).Convert(reflect.TypeOf((*error)(nil)).Elem()),
	"ifacenil": reflect.Zero(reflect.TypeOf((*interface{})(nil)).Elem()), "ifaceint": reflect.ValueOf(int64(7)).Convert(reflect.TypeOf((*interface{})(nil)).Elem()),
}

func dyn(x interface{}) string {
	if x == nil {
		return "nil"
	}
	rv := reflect.ValueOf(x)
	switch x.(type) {
	case int64:
		return "int64"
	case string:
		return "string"
	case float64:
		return "float64"
	case []string:
		if rv.IsNil() {
			return "nilslice"
		}
		return "slice"
	case map[string]int64:
		if rv.IsNil() {
			return "nilmap"
		}
		return "map"
	case *named:
		if rv.IsNil() {
			return "nilptr"
		}
		return "ptr"
	case error:
		return "err"
	}
	return fmt.Sprintf("other:%T", x)
}

type ResCase struct {
	C struct {
		Results []string `json:"results"`
	} `json:"c"`
	Res struct {
		Shape string   `json:"shape"`
		Es    []string `json:"es"`
	} `json:"res"`
}

func results(in, out string) {
	var sum Summary
	add := func(m Mismatch) {
		sum.NMismatch++
		if len(sum.Mismatches) < 40 {
			sum.Mismatches = append(sum.Mismatches, m)
		}
	}
	err := tlcout.Each(in, func(raw []byte) error {
		var c ResCase
		if err := json.Unmarshal(raw, &c); err != nil {
			return err
		}
		sum.Cases++
		var outs []reflect.Type
		var vals []reflect.Value
		for _, k := range c.C.Results {
			outs = append(outs, resVal[k].Type())
			vals = append(vals, resVal[k])
		}
		h := reflect.MakeFunc(reflect.FuncOf(nil, outs, false), func([]reflect.Value) []reflect.Value { return vals })
		for _, src := range []string{"h()", "r = h()\nr", "(func() { return h() })()"} {
			e := env.NewEnv()
			e.DefineValue("h", h)
			var res interface{}
			var err error
			func() {
				defer func() {
					if r := recover(); r != nil {
						err = fmt.Errorf("PANIC %v", r)
					}
				}()
				res, err = vm.Execute(e, nil, src)
			}()
			what := fmt.Sprintf("results %v of a Go function, read by %q", c.C.Results, src)
			if err != nil {
				add(Mismatch{Src: src, What: what + ": the call failed", Exp: c.Res, Got: err.Error()})
				continue
			}
			var got []string
			switch c.Res.Shape {
			case "nil":
				if res != nil {
					add(Mismatch{Src: src, What: what, Exp: "nil", Got: show(res)})
				}
				continue
			case "single":
				got = []string{dyn(res)}
			default:
				l, ok := res.([]interface{})
				if !ok {
					add(Mismatch{Src: src, What: what + ": several results must come back as a list", Exp: c.Res.Es, Got: show(res)})
					continue
				}
				for _, x := range l {
					got = append(got, dyn(x))
				}
			}
			if fmt.Sprint(got) != fmt.Sprint(c.Res.Es) {
				add(Mismatch{Src: src, What: what + ": every result arrives with its own dynamic type", Exp: c.Res.Es, Got: got})
			}
		}
		return nil
	})
	if err != nil {
		fmt.Fprintln(os.Stderr, err)
		os.Exit(2)
	}
	b, _ := json.Marshal(sum)
	os.WriteFile(out, b, 0o644)
}

// ---------------------------------------------------------------- callbacks table (MC_AnkoCall, Shard = "callbacks")

type CbCase struct {
	C struct {
		Gfix   int  `json:"gfix"`
		Gvar   bool `json:"gvar"`
		Gextra int  `json:"gextra"`
		Sfix   int  `json:"sfix"`
		Svar   bool `json:"svar"`
		Gres   int  `json:"gres"`
		Sret   int  `json:"sret"`
	} `json:"c"`
	Sees struct {
		O  string `json:"o"`
		Ps []struct {
			K  string  `json:"k"`
			Vs []int64 `json:"vs"`
		} `json:"ps"`
	} `json:"sees"`
	Returns struct {
		O  string  `json:"o"`
		Rs []int64 `json:"rs"`
	} `json:"returns"`
}

// elems renders a value the script function received as the list of int64 it holds ("val" -> one element)
func cbElems(x interface{}) (kind string, vs []int64, ok bool) {
	switch v := x.(type) {
	case int64:
		return "val", []int64{v}, true
	case []int64:
		return "slice", append([]int64{}, v...), true
	case []interface{}:
		out := []int64{}
		for _, e := range v {
			i, isInt := e.(int64)
			if !isInt {
				return "list", nil, false
			}
			out = append(out, i)
		}
		return "list", out, true
	}
	return fmt.Sprintf("%T", x), nil, false
}

func callbacks(in, out string) {
	var sum Summary
	add := func(m Mismatch) {
		sum.NMismatch++
		if len(sum.Mismatches) < 40 {
			sum.Mismatches = append(sum.Mismatches, m)
		}
	}
	i64 := reflect.TypeOf(int64(0))
	err := tlcout.Each(in, func(raw []byte) error {
		var c CbCase
		if err := json.Unmarshal(raw, &c); err != nil {
			return err
		}
		sum.Cases++
		if !c.C.Gvar {
			c.C.Gextra = 0
		}
		// the Go side: host(cb func(int64 x gfix [, ...int64]) (int64 x gres)) calls cb with 11, 12, .. [21, 22, ..] and returns what cb returned
		var ins, outs []reflect.Type
		for i := 0; i < c.C.Gfix; i++ {
			ins = append(ins, i64)
		}
		if c.C.Gvar {
			ins = append(ins, reflect.SliceOf(i64))
		}
		for i := 0; i < c.C.Gres; i++ {
			outs = append(outs, i64)
		}
		cbT := reflect.FuncOf(ins, outs, c.C.Gvar)
		called := 0
		host := reflect.MakeFunc(reflect.FuncOf([]reflect.Type{cbT}, outs, false), func(a []reflect.Value) []reflect.Value {
			var vals []reflect.Value
			for i := 0; i < c.C.Gfix; i++ {
				vals = append(vals, reflect.ValueOf(int64(11+i)))
			}
			for i := 0; i < c.C.Gextra; i++ {
				vals = append(vals, reflect.ValueOf(int64(21+i)))
			}
			called++
			return a[0].Call(vals)
		})
		// the script side
		var params, names []string
		for i := 0; i < c.C.Sfix; i++ {
			params = append(params, fmt.Sprintf("p%d", i+1))
			names = append(names, fmt.Sprintf("p%d", i+1))
		}
		if c.C.Svar {
			params = append(params, "v...")
			names = append(names, "v")
		}
		var rets []string
		for i := 0; i < c.C.Sret; i++ {
			rets = append(rets, fmt.Sprint(101+i))
		}
		src := "host(func(" + strings.Join(params, ", ") + ") {\n  rec(" + strings.Join(names, ", ") + ")\n  return " + strings.Join(rets, ", ") + "\n})"
		var seen [][]interface{}
		e := env.NewEnv()
		e.DefineValue("host", host)
		e.Define("rec", func(xs ...interface{}) { seen = append(seen, append([]interface{}{}, xs...)) })
		var res interface{}
		var rerr error
		func() {
			defer func() {
				if r := recover(); r != nil {
					rerr = fmt.Errorf("PANIC %v", r)
				}
			}()
			res, rerr = vm.Execute(e, nil, src)
		}()
		what := fmt.Sprintf("callback of Go type %s called with %d fixed + %d variadic values", cbT, c.C.Gfix, c.C.Gextra)
		if rerr != nil && strings.HasPrefix(rerr.Error(), "PANIC") {
			add(Mismatch{Src: src, What: what + ": a Go panic escaped", Got: rerr.Error()})
			return nil
		}
		if c.Sees.O == "open" || c.Returns.O == "open" {
			sum.Open++
			return nil
		}
		if c.Sees.O == "error" || c.Returns.O == "error" {
			if rerr == nil {
				add(Mismatch{Src: src, What: what + ": the mismatch must surface as an error of the enclosing call", Exp: "an error", Got: show(res)})
			}
			return nil
		}
		if rerr != nil {
			add(Mismatch{Src: src, What: what + ": the call failed", Exp: c.Sees, Got: rerr.Error()})
			return nil
		}
		sum.Calls++
		if called != 1 || len(seen) != 1 {
			add(Mismatch{Src: src, What: what + ": the script function must run exactly once per Go invocation", Exp: 1, Got: len(seen)})
			return nil
		}
		got := seen[0]
		bad := len(got) != len(c.Sees.Ps)
		var gotDesc []string
		for i, g := range got {
			k, vs, ok := cbElems(g)
			gotDesc = append(gotDesc, fmt.Sprintf("%s%v", k, g))
			if bad || i >= len(c.Sees.Ps) {
				continue
			}
			want := c.Sees.Ps[i]
			// Go's variadic parameter may arrive as the typed slice or as a list of the same elements
			kindOK := k == want.K || (want.K == "slice" && k == "list")
			if !ok || !kindOK || fmt.Sprint(vs) != fmt.Sprint(append([]int64{}, want.Vs...)) {
				bad = true
			}
		}
		if bad {
			add(Mismatch{Src: src, What: what + ": the script function must be invoked with the arguments Go passes", Exp: c.Sees.Ps, Got: gotDesc})
		}
		// the result(s) converted to the declared return types
		var want interface{}
		switch len(c.Returns.Rs) {
		case 0:
			want = nil
		case 1:
			want = c.Returns.Rs[0]
		default:
			l := []interface{}{}
			for _, r := range c.Returns.Rs {
				l = append(l, r)
			}
			want = l
		}
		if !reflect.DeepEqual(res, want) {
			add(Mismatch{Src: src, What: what + ": Go must get back the callback's results converted to the declared types", Exp: show(want), Got: show(res)})
		}
		return nil
	})
	if err != nil {
		fmt.Fprintln(os.Stderr, err)
		os.Exit(2)
	}
	b, _ := json.Marshal(sum)
	os.WriteFile(out, b, 0o644)
}

// ---------------------------------------------------------------- methods table (MC_AnkoCall, Shard = "methods")

type RStruct struct{ N int64 }
type RInt int64
type RMap map[string]int64
type RSlice []int64

func (r RStruct) V0() int64            { return r.N + 100 }
func (r RStruct) V1(a int64) int64     { return r.N + a }
func (r RStruct) V2(a, b int64) int64  { return r.N + a + b }
func (r *RStruct) P0() int64           { r.N++; return r.N }
func (r *RStruct) P1(a int64) int64    { r.N += a; return r.N }
func (r *RStruct) P2(a, b int64) int64 { r.N += a + b; return r.N }
func (r RInt) V0() int64               { return int64(r) + 100 }
func (r RInt) V1(a int64) int64        { return int64(r) + a }
func (r RInt) V2(a, b int64) int64     { return int64(r) + a + b }
func (r *RInt) P0() int64              { *r++; return int64(*r) }
func (r *RInt) P1(a int64) int64       { *r += RInt(a); return int64(*r) }
func (r *RInt) P2(a, b int64) int64    { *r += RInt(a + b); return int64(*r) }
func (r RMap) V0() int64               { return r["n"] + 100 }
func (r RMap) V1(a int64) int64        { return r["n"] + a }
func (r RMap) V2(a, b int64) int64     { return r["n"] + a + b }
func (r *RMap) P0() int64              { (*r)["n"]++; return (*r)["n"] }
func (r *RMap) P1(a int64) int64       { (*r)["n"] += a; return (*r)["n"] }
func (r *RMap) P2(a, b int64) int64    { (*r)["n"] += a + b; return (*r)["n"] }
func (r RSlice) V0() int64             { return r[0] + 100 }
func (r RSlice) V1(a int64) int64      { return r[0] + a }
func (r RSlice) V2(a, b int64) int64   { return r[0] + a + b }
func (r *RSlice) P0() int64            { (*r)[0]++; return (*r)[0] }
func (r *RSlice) P1(a int64) int64     { (*r)[0] += a; return (*r)[0] }
func (r *RSlice) P2(a, b int64) int64  { (*r)[0] += a + b; return (*r)[0] }

type MethCase struct {
	C struct {
		Shape string `json:"shape"`
		Recv  string `json:"recv"`
		NArgs int    `json:"nargs"`
	} `json:"c"`
	Reachable string `json:"reachable"`
	Mutation  string `json:"mutation"`
}

func methods(in, out string) {
	var sum Summary
	add := func(m Mismatch) {
		sum.NMismatch++
		if len(sum.Mismatches) < 40 {
			sum.Mismatches = append(sum.Mismatches, m)
		}
	}
	err := tlcout.Each(in, func(raw []byte) error {
		var c MethCase
		if err := json.Unmarshal(raw, &c); err != nil {
			return err
		}
		sum.Cases++
		// the receiver value (state 5 in every shape)
		rs, ri, rm, rl := RStruct{5}, RInt(5), RMap{"n": 5}, RSlice{5}
		var obj interface{}
		read := func() int64 { return 0 }
		switch c.C.Shape {
		case "struct":
			obj = rs
		case "ptrstruct":
			obj, read = &rs, func() int64 { return rs.N }
		case "namedint":
			obj = ri
		case "ptrnamedint":
			obj, read = &ri, func() int64 { return int64(ri) }
		case "namedmap":
			obj = rm
		case "ptrnamedmap":
			obj, read = &rm, func() int64 { return rm["n"] }
		case "namedslice":
			obj = rl
		case "ptrnamedslice":
			obj, read = &rl, func() int64 { return rl[0] }
		}
		name := map[string]string{"value": "V", "pointer": "P"}[c.C.Recv] + fmt.Sprint(c.C.NArgs)
		args := []string{"", "2", "2, 3"}[c.C.NArgs]
		sumArgs := []int64{0, 2, 5}[c.C.NArgs]
		src := "obj." + name + "(" + args + ")"
		e := env.NewEnv()
		e.Define("obj", obj)
		var res interface{}
		var err error
		func() {
			defer func() {
				if r := recover(); r != nil {
					err = fmt.Errorf("PANIC %v", r)
				}
			}()
			res, err = vm.Execute(e, nil, src)
		}()
		what := fmt.Sprintf("%s-receiver method with %d arguments on a %s value", c.C.Recv, c.C.NArgs, c.C.Shape)
		if c.Reachable != "yes" {
			sum.Open++
			return nil
		}
		if err != nil {
			if c.Reachable == "yes" {
				add(Mismatch{Src: src, What: what + ": must be callable with member syntax", Exp: "a call", Got: err.Error()})
			}
			return nil
		}
		want := int64(5) + sumArgs
		if c.C.Recv == "value" && c.C.NArgs == 0 {
			want = 105
		}
		if c.C.Recv == "pointer" && c.C.NArgs == 0 {
			want = 6
		}
		if res != want {
			add(Mismatch{Src: src, What: what + ": called with exactly the supplied arguments, its result comes back", Exp: show(want), Got: show(res)})
			return nil
		}
		if c.Mutation == "yes" && read() != want {
			add(Mismatch{Src: src, What: what + ": through a pointer the method acts on the Go value itself", Exp: want, Got: read()})
		}
		return nil
	})
	if err != nil {
		fmt.Fprintln(os.Stderr, err)
		os.Exit(2)
	}
	b, _ := json.Marshal(sum)
	os.WriteFile(out, b, 0o644)
}

// ---------------------------------------------------------------- scenarios

type Host struct {
	A   int64
	B   string
	L   []int64
	M   map[string]int64
	Sub *Host
	hid int
}

func (h Host) Val(x int64) int64                     { return h.A + x }
func (h *Host) Ptr(x int64) int64                    { h.A += x; return h.A }
func (h Host) Two() (int64, string)                  { return h.A, h.B }
func (h Host) Err() (int64, error)                   { return 0, errors.New("host failure") }
func (h Host) Var(xs ...int64) int                   { return len(xs) }
func (h Host) VarCh(c chan interface{}, xs ...int64) { c <- len(xs) }

type Op func(int64) int64
type Labels map[string]string
type Counter *int64
type IntList []int64

type scen struct {
	name, src string
	setup     func(e *env.Env)
	want      func(res interface{}, err error, e *env.Env) string // "" = ok
}

func scenarios(out string) {
	hp := &Host{A: 1, B: "b", L: []int64{1, 2}, M: map[string]int64{"k": 1}}
	ch := make(chan int64, 1)
	fn := func(x int64) int64 { return x + 1 }
	var seen []interface{}
	take := func(x interface{}) interface{} { seen = append(seen, x); return x }
	eqT := func(a, b interface{}) bool {
		return reflect.DeepEqual(a, b) && fmt.Sprintf("%T", a) == fmt.Sprintf("%T", b)
	}
	vals := map[string]interface{}{"i8": int8(3), "u16": uint16(4), "f32": float32(1.5), "i": int(7), "s": "x", "b": true, "sl": []int64{1, 2}, "ss": []string{"a"}, "m": map[string]int64{"a": 1},
		"p": hp, "st": Host{A: 2, B: "v"}, "ch": ch, "fn": fn, "err": errors.New("e"), "by": []byte("ab"), "r": 'x', "i64": int64(9), "f64": 2.5, "nilp": (*Host)(nil), "nilm": map[string]int64(nil)}
	var ss []scen
	// identity round trips: bound value -> script read -> container -> Go identity -> Get
	for n, v := range vals {
		n, v := n, v
		ss = append(ss, scen{"roundtrip-" + n, "a = [" + n + "]\nm = {\"k\": a[0]}\nr = id(m.k)\nr2 = (func(z) { return z })(r)\nr2",
			func(e *env.Env) { e.Define(n, v) },
			func(res interface{}, err error, e *env.Env) string {
				if err != nil {
					return "error " + err.Error()
				}
				same := eqT(res, v)
				if reflect.ValueOf(v).Kind() == reflect.Func {
					same = reflect.ValueOf(res).Kind() == reflect.Func && reflect.ValueOf(res).Pointer() == reflect.ValueOf(v).Pointer()
				}
				if reflect.ValueOf(v).Kind() == reflect.Ptr || reflect.ValueOf(v).Kind() == reflect.Chan || reflect.ValueOf(v).Kind() == reflect.Map {
					same = same && (reflect.ValueOf(v).IsNil() || reflect.ValueOf(res).Pointer() == reflect.ValueOf(v).Pointer())
				}
				if !same {
					return fmt.Sprintf("came back as %s, bound %s", show(res), show(v))
				}
				got, gerr := e.Get("r2")
				if gerr != nil || fmt.Sprintf("%T", got) != fmt.Sprintf("%T", v) {
					return fmt.Sprintf("env.Get gives %s", show(got))
				}
				if len(seen) == 0 || fmt.Sprintf("%T", seen[len(seen)-1]) != fmt.Sprintf("%T", v) {
					return "the Go identity function did not receive the same dynamic type"
				}
				return ""
			}})
	}
	fld := func(name, src string, chk func(res interface{}, err error) string) {
		ss = append(ss, scen{name, src, nil, func(res interface{}, err error, e *env.Env) string { return chk(res, err) }})
	}
	wantV := func(w interface{}) func(interface{}, error) string {
		return func(res interface{}, err error) string {
			if err != nil {
				return "error " + err.Error()
			}
			if !eqT(res, w) {
				return fmt.Sprintf("got %s, want %s", show(res), show(w))
			}
			return ""
		}
	}
	wantErr := func(res interface{}, err error) string {
		if err == nil {
			return fmt.Sprintf("expected an error, got %s", show(res))
		}
		return ""
	}
	fld("field-read-ptr", "hp.A", wantV(int64(1)))
	fld("field-read-value", "hv.B", wantV("v"))
	fld("field-read-slice", "hp.L[1]", wantV(int64(2)))
	fld("field-read-map", "hp.M.k", wantV(int64(1)))
	fld("field-write-ptr", "hp.A = 5\nhp.A", wantV(int64(5)))
	fld("field-write-ptr-converts", "hp.A = 2.9\nhp.A", wantV(int64(2)))
	fld("field-write-ptr-illtyped", "hp.A = \"s\"", wantErr)
	fld("field-unknown", "hp.Nope", wantErr)
	// the same Go value reached through a list element, a map entry or a Go identity function (an interface in between)
	fld("field-read-ptr-in-list", "a = [hp]\na[0].A", wantV(int64(1)))
	fld("field-write-ptr-in-list", "a = [hp]\na[0].A = 7\nhp.A", wantV(int64(7)))
	fld("field-write-ptr-in-map", "m = {\"k\": hp}\nm.k.B = \"w\"\nhp.B", wantV("w"))
	fld("field-write-ptr-through-id", "id(hp).A = 8\nhp.A", wantV(int64(8)))
	fld("field-write-ptr-through-script-fn", "f = func() { return hp }\nf().A = 9\nhp.A", wantV(int64(9)))
	fld("method-ptr-recv-in-list", "a = [hp]\na[0].Ptr(1)\nhp.A", wantV(int64(2)))
	fld("method-value-recv-through-id", "id(hv).Val(10)", wantV(int64(12)))
	fld("field-write-sub-ptr", "hp.Sub = hp2\nhp.Sub.A = 5\nhp2.A", wantV(int64(5)))
	// Go slices of concrete types spread into variadic Go functions: every element arrives, converted element-wise
	fld("spread-typed-slice-into-iface-variadic", "cnt(ss...)", wantV(int64(2)))
	fld("spread-typed-slice-into-iface-variadic-values", "col(ss...)", wantV([]interface{}{"a", "b"}))
	fld("spread-int-slice-into-iface-variadic", "col(sl...)", wantV([]interface{}{int64(1), int64(2)}))
	fld("spread-int-slice-into-int-variadic", "sum(sl...)", wantV(int64(3)))
	fld("spread-script-list-into-int-variadic", "sum([1, 2, 4]...)", wantV(int64(7)))
	fld("spread-typed-after-fixed", "joinp(\"p\", ss...)", wantV("p:a,b"))
	// &x.Field / &list[i] on Go values hand Go the address of the field / element itself
	fld("addr-of-field-to-go", "incr(&hp.A)\nhp.A", wantV(int64(2)))
	fld("addr-of-string-field-to-go", "setname(&hp.B)\nhp.B", wantV("renamed"))
	fld("addr-of-typed-element-to-go", "incr(&sl[1])\nsl[1]", wantV(int64(3)))
	fld("addr-of-field-is-the-field", "sameaddr(&hp.A)", wantV(true))
	// a Go function is called with the values its argument expressions had when they were evaluated, also when a later argument stores into the place
	fld("args-are-values-typed-element", "func bump() { sl[0] = 99; return 5 }\ncol(sl[0], bump())", wantV([]interface{}{int64(1), int64(5)}))
	fld("args-are-values-typed-element-fixed", "func bump() { sl[0] = 99; return 5 }\npair2(sl[0], bump())", wantV([]int64{1, 5}))
	fld("args-are-values-field", "func bump() { hp.A = 99; return 5 }\ncol(hp.A, bump(), hp.A)", wantV([]interface{}{int64(1), int64(5), int64(99)}))
	fld("args-are-values-string-field", "func bump() { hp2.B = \"new\"; return \"x\" }\ncol(hp2.B, bump())", wantV([]interface{}{"sub", "x"}))
	fld("args-are-values-list-element", "a = [1, 2]\nfunc bump() { a[0] = 99; return 5 }\npair2(a[0], bump())", wantV([]int64{1, 5}))
	fld("args-are-values-deref", "p = &hp.A\nfunc bump() { hp.A = 99; return 5 }\ncol(*p, bump())", wantV([]interface{}{int64(1), int64(5)}))
	fld("args-are-values-method", "func bump() { sl[0] = 99; return 5 }\nhv.Var(sl[0], bump())", wantV(int(2)))
	fld("args-are-values-spread-last", "func bump() { sl[0] = 99; return [5] }\npair2(sl[0], bump()...)", wantV([]int64{1, 5}))
	// parameters of DEFINED types with the underlying type of the value handed over: Go's conversion keeps the map, the pointer target and the function
	fld("defined-func-type-param", "applyop(gfn, 3)", wantV(int64(4)))
	fld("defined-map-type-param-same-map", "setlabel(gms)\ngms.k", wantV("v"))
	fld("defined-ptr-type-param-same-target", "bumpc(gpc)\n*gpc", wantV(int64(8)))
	fld("defined-slice-type-param-same-storage", "setfirst(gsl)\ngsl[0]", wantV(int64(77)))
	fld("defined-int-type-param", "dur(gd)", wantV("1.5s"))
	// go statements reach Go functions with exactly the supplied arguments too: variadic callees, spread calls, methods
	fld("go-variadic-go-callee", "go colch(gch, 1, 2, 3)\n<-gch", wantV([]interface{}{int64(1), int64(2), int64(3)}))
	fld("go-spread-variadic-go-callee", "go colch(gch, [1, 2, 3]...)\n<-gch", wantV([]interface{}{int64(1), int64(2), int64(3)}))
	fld("go-spread-typed-variadic-go-callee", "go sumch(gch, [1, 2, 4]...)\n<-gch", wantV(int64(7)))
	fld("go-spread-typed-slice-go-callee", "go sumch(gch, sl...)\n<-gch", wantV(int64(3)))
	fld("go-fixed-go-callee", "go sendch(gch, 5)\n<-gch", wantV(int64(5)))
	fld("go-method-variadic-spread", "go hv.VarCh(gch, [1, 2]...)\n<-gch", wantV(int(2)))
	fld("defer-spread-variadic-go-callee", "func() { defer colch(gch, [1, 2, 3]...) }()\n<-gch", wantV([]interface{}{int64(1), int64(2), int64(3)}))
	fld("method-value-recv", "hv.Val(10)", wantV(int64(12)))
	fld("method-value-recv-on-ptr", "hp.Val(10)", wantV(int64(11)))
	fld("method-ptr-recv-on-ptr", "hp.Ptr(1)\nhp.A", wantV(int64(2)))
	fld("method-ptr-recv-on-value", "hv.Ptr(1)", wantV(int64(3)))
	fld("method-two-results", "hv.Two()", wantV([]interface{}{int64(2), "v"}))
	fld("method-error-result", "r = hv.Err()\nr[1] != nil", wantV(true))
	fld("method-variadic", "hv.Var(1, 2, 3)", wantV(int(3)))
	fld("method-variadic-spread", "xs = [1, 2]\nhv.Var(xs...)", wantV(int(2)))
	fld("method-arg-converted", "hv.Val(2.9)", wantV(int64(4)))
	fld("method-arg-illtyped", "hv.Val(\"s\")", wantErr)
	fld("results-none", "none()", wantV(nil))
	fld("results-three", "three()", wantV([]interface{}{int64(1), "two", 3.0}))
	fld("callback-args-result", "apply(func(x) { return \"<\" + x + \">\" }, 7)", wantV("<7>"))
	fld("callback-result-converted", "applyi(func(x) { return x * 2.6 }, 2)", wantV(int64(5)))
	fld("callback-error-surfaces", "apply(func(x) { throw \"inside\" }, 7)", wantErr)
	fld("callback-runtime-error-surfaces", "apply(func(x) { return zz }, 7)", wantErr)
	fld("callback-noresult-error-surfaces", "each(func(x) { throw \"inside\" })", wantErr)
	fld("callback-noresult-ok", "n = 0\neach(func(x) { n += x })\nn", wantV(int64(6)))
	fld("callback-wrong-result-type", "applyi(func(x) { return \"s\" }, 2)", wantErr)
	fld("typednil-identity", "id(nilp) == nil", wantV(true))
	fld("typednil-keeps-type", "tn(nilp)", wantV("*main.Host"))
	fld("typednil-map-to-int", "gi(nilm)", wantErr)
	var sum Summary
	// ONE converted script function invoked by the host from many goroutines at once (a handler, a worker pool): every invocation sees its own arguments
	for _, sh := range []struct{ name, src string }{{"fixed", "par(func(x) { return x }, 8, 400)"}, {"two-params", "par2(func(x, y) { return x * 1000 + y }, 8, 400)"}, {"variadic", "par(func(x...) { return x[0] }, 8, 400)"},
		{"closure", "k = 1\npar(func(x) { return x * k }, 8, 400)"}, {"named", "func echo(x) { return x }\npar(echo, 8, 400)"}} {
		sh := sh
		ss = append(ss, scen{"callback-concurrent-" + sh.name, sh.src, func(e *env.Env) {
			e.Define("par", func(cb func(int64) int64, g, n int64) int64 {
				var bad int64
				var wg sync.WaitGroup
				for w := int64(0); w < g; w++ {
					wg.Add(1)
					go func(w int64) {
						defer wg.Done()
						for i := int64(0); i < n; i++ {
							if v := w*1000000 + i; cb(v) != v {
								atomic.AddInt64(&bad, 1)
							}
						}
					}(w)
				}
				wg.Wait()
				return bad
			})
			e.Define("par2", func(cb func(int64, int64) int64, g, n int64) int64 {
				var bad int64
				var wg sync.WaitGroup
				for w := int64(0); w < g; w++ {
					wg.Add(1)
					go func(w int64) {
						defer wg.Done()
						for i := int64(0); i < n; i++ {
							if cb(w, i%1000) != w*1000+i%1000 {
								atomic.AddInt64(&bad, 1)
							}
						}
					}(w)
				}
				wg.Wait()
				return bad
			})
		}, func(res interface{}, err error, e *env.Env) string {
			if err != nil {
				return "error " + err.Error()
			}
			if res != int64(0) {
				return fmt.Sprintf("%v invocations of the callback saw arguments of another invocation", res)
			}
			return ""
		}})
	}
	// two DIFFERENT Go struct types that print the same name (two packages of one name, function-local types) with other field layouts: member syntax reads and
	// writes the value's OWN fields, in either order of first use
	type sameName struct {
		Sensor string
		Value  int64
	}
	mkOther := func() interface{} {
		type sameName struct {
			Value  int64
			Sensor string
		}
		return &sameName{Value: 2, Sensor: "new"}
	}
	for _, order := range []string{"ab", "ba"} {
		order := order
		src := "ra = [a.Value, a.Sensor]\nrb = [b.Value, b.Sensor]\nb.Value = 65\na.Value = 66\n[ra, rb, a.Value, b.Value, a.Sensor, b.Sensor]"
		if order == "ba" {
			src = "rb = [b.Value, b.Sensor]\nra = [a.Value, a.Sensor]\na.Value = 66\nb.Value = 65\n[ra, rb, a.Value, b.Value, a.Sensor, b.Sensor]"
		}
		ss = append(ss, scen{"same-type-name-" + order, src, func(e *env.Env) {
			e.Define("a", &sameName{Sensor: "old", Value: 1})
			e.Define("b", mkOther())
		}, func(res interface{}, err error, e *env.Env) string {
			if err != nil {
				return "error " + err.Error()
			}
			want := []interface{}{[]interface{}{int64(1), "old"}, []interface{}{int64(2), "new"}, int64(66), int64(65), "old", "new"}
			if !reflect.DeepEqual(res, want) {
				return fmt.Sprintf("got %v, want %v", res, want)
			}
			return ""
		}})
	}
	for _, s := range ss {
		e := env.NewEnv()
		seen = nil
		hp.A = 1
		e.Define("id", take)
		e.Define("hp", hp)
		e.Define("hv", Host{A: 2, B: "v"})
		e.Define("nilp", (*Host)(nil))
		e.Define("nilm", map[string]int64(nil))
		e.Define("none", func() {})
		e.Define("three", func() (int64, string, float64) { return 1, "two", 3 })
		e.Define("apply", func(cb func(int64) string, x int64) string { return cb(x) })
		e.Define("applyi", func(cb func(int64) int64, x int64) int64 { return cb(x) })
		e.Define("each", func(cb func(int64)) {
			for _, x := range []int64{1, 2, 3} {
				cb(x)
			}
		})
		e.Define("tn", func(x interface{}) string { return fmt.Sprintf("%T", x) })
		e.Define("hp2", &Host{A: 0, B: "sub"})
		hp.Sub = nil
		e.Define("ss", []string{"a", "b"})
		e.Define("sl", []int64{1, 2})
		e.Define("cnt", func(xs ...interface{}) int64 { return int64(len(xs)) })
		e.Define("col", func(xs ...interface{}) []interface{} { return append([]interface{}{}, xs...) })
		e.Define("sum", func(xs ...int64) int64 {
			var t int64
			for _, x := range xs {
				t += x
			}
			return t
		})
		e.Define("joinp", func(p string, xs ...interface{}) string {
			var parts []string
			for _, x := range xs {
				parts = append(parts, fmt.Sprint(x))
			}
			return p + ":" + strings.Join(parts, ",")
		})
		e.Define("gi", func(x int64) int64 { return x })
		e.Define("pair2", func(a, b int64) []int64 { return []int64{a, b} })
		e.Define("incr", func(p *int64) { *p++ })
		gch := make(chan interface{}, 4)
		e.Define("gch", gch)
		e.Define("colch", func(c chan interface{}, xs ...interface{}) { c <- append([]interface{}{}, xs...) })
		e.Define("sumch", func(c chan interface{}, xs ...int64) {
			var t int64
			for _, x := range xs {
				t += x
			}
			c <- t
		})
		e.Define("sendch", func(c chan interface{}, x int64) { c <- x })
		e.Define("gfn", func(x int64) int64 { return x + 1 })
		e.Define("applyop", func(op Op, x int64) int64 { return op(x) })
		e.Define("gms", map[string]string{"a": "b"})
		e.Define("setlabel", func(l Labels) { l["k"] = "v" })
		gc := int64(7)
		e.Define("gpc", &gc)
		e.Define("bumpc", func(c Counter) { *c++ })
		e.Define("gsl", []int64{1, 2})
		e.Define("setfirst", func(l IntList) { l[0] = 77 })
		e.Define("gd", int64(1500000000))
		e.Define("dur", func(d time.Duration) string { return d.String() })
		e.Define("setname", func(p *string) { *p = "renamed" })
		e.Define("sameaddr", func(p *int64) bool { return p == &hp.A })
		if s.setup != nil {
			s.setup(e)
		}
		var res interface{}
		var err error
		func() {
			defer func() {
				if r := recover(); r != nil {
					err = fmt.Errorf("PANIC %v", r)
				}
			}()
			// (under a deadline: a scenario that waits for a Go call that never happens is a wrong outcome, not a dead harness)
			ctx, cancel := context.WithTimeout(context.Background(), 10*time.Second)
			defer cancel()
			res, err = vm.ExecuteContext(ctx, e, nil, s.src)
		}()
		sum.Cases++
		msg := ""
		if err != nil && strings.HasPrefix(err.Error(), "PANIC") {
			msg = err.Error()
		} else {
			msg = s.want(res, err, e)
		}
		if msg != "" {
			sum.NMismatch++
			sum.Mismatches = append(sum.Mismatches, Mismatch{Src: s.src, What: s.name + ": " + msg})
		}
	}
	b, _ := json.Marshal(sum)
	os.WriteFile(out, b, 0o644)
}

func main() {
	if len(os.Args) >= 4 && os.Args[1] == "table" {
		table(os.Args[2], os.Args[3])
		return
	}
	if len(os.Args) >= 4 && os.Args[1] == "results" {
		results(os.Args[2], os.Args[3])
		return
	}
	if len(os.Args) >= 4 && os.Args[1] == "callbacks" {
		callbacks(os.Args[2], os.Args[3])
		return
	}
	if len(os.Args) >= 4 && os.Args[1] == "methods" {
		methods(os.Args[2], os.Args[3])
		return
	}
	if len(os.Args) >= 3 && os.Args[1] == "scenarios" {
		scenarios(os.Args[2])
		return
	}
	fmt.Fprintln(os.Stderr, "usage: callharness table <tlc.out> <result.json> | scenarios <result.json>")
	os.Exit(2)
}
