// contharness records histories of container statements executed on the real interpreter (one persistent environment
// per history) for spec/Trace_AnkoContainers.tla (property C10).
//
//	contharness random <seed> <ntraces> <len> <out.ndjson>
//	contharness pairs  <out.ndjson>          a fixed prelude followed by every ordered pair of operations
//	contharness ops    <ops.ndjson> <out.ndjson>   replay explicit operation lists (one JSON array per line)
package main

import (
	"bufio"
	"context"
	"encoding/json"
	"fmt"
	"github.com/mattn/anko/core"
	"math/rand"
	"os"
	"reflect"
	"regexp"
	"sort"
	"strconv"
	"strings"
	"time"
	"unsafe"

	"github.com/mattn/anko/env"
	"github.com/mattn/anko/vm"
)

type V struct {
	T   string `json:"t"`
	I   int64  `json:"i"`
	S   string `json:"s"`
	R   int    `json:"r"`
	Off int    `json:"off"`
	Len int    `json:"len"`
	Cap int    `json:"cap"`
}

type Op struct {
	Op  string   `json:"op"`
	X   string   `json:"x"`
	Y   string   `json:"y"`
	I   V        `json:"i"`
	J   V        `json:"j"`
	K   V        `json:"k"`
	V   V        `json:"v"`
	S   string   `json:"s"`
	Cap int      `json:"cap"`
	Cs  []string `json:"cs"`
	P   bool     `json:"p,omitempty"` // opslast mode: record the projection after this statement although it is not the last one
}

type Res struct {
	K string `json:"k"`
	V V      `json:"v"`
}

type PV struct {
	T     string `json:"t"`
	Len   int    `json:"len"`
	Cap   int    `json:"cap"`
	Elems []V    `json:"elems"`
}

type Share struct {
	N    string `json:"n"`
	M    string `json:"m"`
	Same bool   `json:"same"`
	D    int    `json:"d"`
}

type Line struct {
	Ev     string           `json:"ev"`
	O      *Op              `json:"o,omitempty"`
	Res    *Res             `json:"res,omitempty"`
	Post   map[string]PV    `json:"post,omitempty"`
	Share  []Share          `json:"share"`
	Maps   map[string][][]V `json:"maps,omitempty"`
	Fields map[string]V     `json:"fields,omitempty"`
	Src    string           `json:"src,omitempty"`
	NoPost bool             `json:"nopost,omitempty"`
}

var vars = []string{"a", "b", "c", "m", "n", "ta", "st", "s", "t", "tm", "sv", "su"}
var sliceVars = []string{"a", "b", "c", "ta"}
var nilV = V{T: "nil"}

func intV(n int64) V  { return V{T: "int", I: n} }
func strV(s string) V { return V{T: "str", S: s} }

// byteTok names one byte of a string as the specification does: itself when ASCII, "xHH" otherwise
func byteTok(b byte) string {
	if b < 0x80 {
		return string(rune(b))
	}
	return fmt.Sprintf("x%02x", b)
}

func lit(v V) string {
	switch v.T {
	case "int":
		return strconv.FormatInt(v.I, 10)
	case "str":
		return strconv.Quote(v.S)
	case "nil":
		return "nil"
	case "flt":
		return v.S
	case "bool":
		if v.I == 1 {
			return "true"
		}
		return "false"
	case "maplit0":
		return "{}"
	case "maplit1":
		return "{\"k\": 7}"
	case "listlit":
		return "[1]"
	case "listelem": // an unhashable key that arrives wrapped in an interface (an element of a list of lists)
		return "kk[0]"
	case "mapelem":
		return "km.k"
	}
	return "nil"
}

func src(o Op) string {
	switch o.Op {
	case "lit3":
		return o.X + " = [0, 1, 2]"
	case "litmix":
		return o.X + " = [7, \"s\"]"
	case "make":
		return fmt.Sprintf("%s = make([]interface, %d, %d)", o.X, o.I.I, o.J.I)
	case "tmake":
		return fmt.Sprintf("%s = make([]int64, %d)", o.X, o.I.I)
	case "alias":
		return o.X + " = " + o.Y
	case "read", "mapget":
		return o.X + "[" + lit(o.I) + "]"
	case "write", "mapset":
		return o.X + "[" + lit(o.I) + "] = " + lit(o.V)
	case "append":
		return o.X + " += " + lit(o.V)
	case "slice2":
		return o.X + " = " + o.Y + "[" + lit(o.I) + ":" + lit(o.J) + "]"
	case "slice3":
		return o.X + " = " + o.Y + "[" + lit(o.I) + ":" + lit(o.J) + ":" + lit(o.K) + "]"
	case "len":
		return "len(" + o.X + ")"
	case "in":
		return lit(o.V) + " in " + o.X
	case "callwrite":
		return "wr(" + o.X + ")"
	case "mapnew":
		return o.X + " = {}"
	case "tmapnew":
		return o.X + " = make(map[string]int64)"
	case "strlit":
		t := []byte{}
		for _, c := range o.Cs {
			if len(c) == 3 && c[0] == 'x' {
				if b, err := strconv.ParseUint(c[1:], 16, 8); err == nil { // "xHH": the byte HH of a multi-byte character
					t = append(t, byte(b))
					continue
				}
			}
			t = append(t, c...)
		}
		return o.X + " = \"" + string(t) + "\""
	case "mapdel":
		return "delete(" + o.X + ", " + lit(o.I) + ")"
	case "structnew":
		return o.X + " = make(T)"
	case "fieldset":
		return o.X + "." + o.S + " = " + lit(o.V)
	case "fieldget":
		return o.X + "." + o.S
	case "bindelem":
		return o.Y + " = " + o.X + "[" + lit(o.I) + "]"
	case "bindfield":
		return o.Y + " = " + o.X + "." + o.S
	case "getvar":
		return o.X
	case "callget":
		return "rdA(" + o.X + ")"
	case "structnew2":
		return o.X + " = make(U)"
	case "concat":
		return o.X + " = " + o.Y + " + " + o.K.S
	case "aliasfield":
		return o.Y + " = " + o.X + ".M"
	case "fieldmapget":
		return o.X + ".M[" + lit(o.I) + "]"
	case "fieldmapset":
		return o.X + ".M[" + lit(o.I) + "] = " + lit(o.V)
	}
	return "nil"
}

func proj(x interface{}) V {
	rv := reflect.ValueOf(x)
	for rv.IsValid() && rv.Kind() == reflect.Interface {
		if rv.IsNil() {
			return nilV
		}
		rv = rv.Elem()
	}
	if !rv.IsValid() {
		return nilV
	}
	switch rv.Kind() {
	case reflect.Int64, reflect.Int:
		return intV(rv.Int())
	case reflect.String:
		if r := []rune(rv.String()); len(r) == 1 && r[0] >= 0x80 && r[0] <= 0xff {
			return strV(byteTok(byte(r[0]))) // the element s[i] of a string is handed out as string(rune(byte))
		}
		return strV(rv.String())
	case reflect.Bool:
		if rv.Bool() {
			return V{T: "bool", I: 1}
		}
		return V{T: "bool"}
	case reflect.Float64:
		return V{T: "flt", S: strconv.FormatFloat(rv.Float(), 'g', -1, 64), I: int64(rv.Float())}
	}
	return V{T: "other", S: rv.Type().String()}
}

type world struct {
	e *env.Env
}

func newWorld() *world {
	e := env.NewEnv()
	for _, n := range vars {
		e.Define(n, nil)
	}
	if _, err := vm.Execute(e, nil, "wr = func(s) { s[0] = 7 }\nkk = [[1]]\nkm = {\"k\": {\"z\": 1}}\nmake(type T, make(struct { A int64, B string, M map[string]int64 }))\nmake(type U, make(struct { M map[string]int64, B string, A int64 }))\nrdA = func(v) { return v.A }"); err != nil {
		panic(err)
	}
	return &world{e}
}

func (w *world) get(n string) reflect.Value {
	rv, err := w.e.GetValue(n)
	if err != nil {
		return reflect.Value{}
	}
	for rv.IsValid() && rv.Kind() == reflect.Interface && !rv.IsNil() {
		rv = rv.Elem()
	}
	return rv
}

func (w *world) observe(l *Line) {
	l.Post = map[string]PV{}
	l.Maps = map[string][][]V{}
	l.Fields = map[string]V{"A": nilV, "B": nilV, "M": nilV}
	l.Maps["stM"] = [][]V{}
	l.Share = []Share{}
	type win struct {
		ptr  uintptr
		cap  int
		size uintptr
		ok   bool
	}
	wins := map[string]win{}
	for _, n := range vars {
		rv := w.get(n)
		p := PV{T: "nil", Elems: []V{}}
		if rv.IsValid() {
			switch rv.Kind() {
			case reflect.Slice:
				p.T = "slice"
				if rv.Type().Elem().Kind() == reflect.Int64 {
					p.T = "tslice"
				}
				p.Len, p.Cap = rv.Len(), rv.Cap()
				for i := 0; i < rv.Len(); i++ {
					p.Elems = append(p.Elems, proj(rv.Index(i).Interface()))
				}
				if rv.Cap() > 0 {
					wins[n] = win{rv.Pointer(), rv.Cap(), rv.Type().Elem().Size(), true}
				}
			case reflect.Map:
				p.T = "map"
				if rv.Type().Elem().Kind() == reflect.Int64 {
					p.T = "tmap"
				}
				p.Len = rv.Len()
				var pairs [][]V
				for _, k := range rv.MapKeys() {
					pairs = append(pairs, []V{proj(k.Interface()), proj(rv.MapIndex(k).Interface())})
				}
				sort.Slice(pairs, func(i, j int) bool { return fmt.Sprint(pairs[i][0]) < fmt.Sprint(pairs[j][0]) })
				if pairs == nil {
					pairs = [][]V{}
				}
				l.Maps[n] = pairs
			case reflect.Struct:
				p.T = "struct"
				if n != "st" { // the recorded fields are those of st; su is observed through reads
					break
				}
				l.Fields["A"] = proj(rv.FieldByName("A").Interface())
				l.Fields["B"] = proj(rv.FieldByName("B").Interface())
				if mf := rv.FieldByName("M"); mf.IsValid() && mf.Kind() == reflect.Map && !mf.IsNil() {
					l.Fields["M"] = V{T: "tmap"}
					pairs := [][]V{}
					for _, k := range mf.MapKeys() {
						pairs = append(pairs, []V{proj(k.Interface()), proj(mf.MapIndex(k).Interface())})
					}
					l.Maps["stM"] = pairs
				}
			case reflect.String:
				p.T = "str"
				if n == "sv" { // a scalar read into a variable: its value is observed by reading the variable
					break
				}
				str := rv.String()
				p.Len = len(str)
				for i := 0; i < len(str); i++ {
					p.Elems = append(p.Elems, strV(byteTok(str[i])))
				}
			case reflect.Interface, reflect.Ptr:
				p.T = "nil"
			default:
				p.T = proj(rv.Interface()).T
			}
		}
		l.Post[n] = p
	}
	for _, n := range []string{"m", "n", "tm"} {
		if _, ok := l.Maps[n]; !ok {
			l.Maps[n] = [][]V{}
		}
	}
	for _, n := range sliceVars {
		for _, m := range sliceVars {
			if n == m {
				continue
			}
			a, b := wins[n], wins[m]
			s := Share{N: n, M: m}
			if a.ok && b.ok && a.size == b.size {
				aend := a.ptr + uintptr(a.cap)*a.size
				bend := b.ptr + uintptr(b.cap)*b.size
				if a.ptr < bend && b.ptr < aend {
					s.Same = true
					s.D = int((int64(b.ptr) - int64(a.ptr)) / int64(a.size))
				}
			}
			l.Share = append(l.Share, s)
		}
	}
	_ = unsafe.Sizeof(0)
}

func (w *world) do(o Op) Line {
	if o.Cs == nil {
		o.Cs = []string{}
	}
	s := src(o)
	l := Line{Ev: "op", Src: s}
	var res interface{}
	var err error
	func() {
		defer func() {
			if r := recover(); r != nil {
				err = fmt.Errorf("PANIC %v", r)
			}
		}()
		res, err = vm.Execute(w.e, nil, s)
	}()
	r := Res{K: "ok", V: nilV}
	switch {
	case err != nil && len(err.Error()) > 5 && err.Error()[:5] == "PANIC":
		r.K = "panic"
	case err != nil:
		r.K = "err"
	case o.Op == "read" || o.Op == "mapget" || o.Op == "len" || o.Op == "in" || o.Op == "fieldget" || o.Op == "fieldmapget" || o.Op == "getvar" || o.Op == "callget":
		r.K = "val"
		r.V = proj(res)
	}
	l.Res = &r
	w.observe(&l)
	// the capacity a growing append chose is part of the log
	if o.Op == "append" || o.Op == "write" || o.Op == "concat" {
		o.Cap = l.Post[o.X].Cap
	}
	oo := o
	l.O = &oo
	return l
}

// ---- operation pools
func opPool(rng *rand.Rand, w *world) Op {
	sv := []string{"a", "b", "c"}
	vals := []V{intV(0), intV(7), strV("s"), nilV}
	idx := func(x string) V {
		n := 0
		if rv := w.get(x); rv.IsValid() && rv.Kind() == reflect.Slice {
			n = rv.Len()
		}
		c := []V{intV(-1), intV(0), intV(0), intV(1), intV(1), intV(int64(n - 1)), intV(int64(n)), intV(int64(n)), intV(int64(n + 1)), strV("x"), nilV, intV(2), intV(2), intV(3)}
		return c[rng.Intn(len(c))]
	}
	x := sv[rng.Intn(3)]
	y := sv[rng.Intn(3)]
	isSlice := func(n string) bool { rv := w.get(n); return rv.IsValid() && rv.Kind() == reflect.Slice }
	isMap := func(n string) bool { rv := w.get(n); return rv.IsValid() && rv.Kind() == reflect.Map }
	// operations are applied to variables that currently hold a container of the right kind (the others are created first)
	var have []string
	for _, n := range sv {
		if isSlice(n) {
			have = append(have, n)
		}
	}
	if len(have) == 0 {
		return Op{Op: "lit3", X: x}
	}
	y = have[rng.Intn(len(have))]
	isStr := func(n string) bool { rv := w.get(n); return rv.IsValid() && rv.Kind() == reflect.String }
	if rng.Intn(5) == 0 { // strings and typed maps
		lits := [][]string{{"a", "b", "c"}, {}, {"x"}, {"a", "b"}, {"a", "xc3", "xa9"}, {"xc3", "xa9", "z"}}
		if !isStr("s") || rng.Intn(12) == 0 {
			return Op{Op: "strlit", X: "s", Cs: lits[rng.Intn(len(lits))]}
		}
		sx := "s"
		if isStr("t") && rng.Intn(3) == 0 {
			sx = "t"
		}
		sidx := func() V {
			n := len(w.get(sx).String())
			c := []V{intV(-1), intV(0), intV(1), intV(int64(n - 1)), intV(int64(n)), intV(int64(n + 1)), strV("x"), nilV, intV(2)}
			return c[rng.Intn(len(c))]
		}
		svals := []V{strV("x"), strV("z"), strV("k"), intV(7), nilV, strV("s")}
		switch rng.Intn(14) {
		case 0, 1:
			return Op{Op: "read", X: sx, I: sidx()}
		case 2, 3:
			return Op{Op: "write", X: sx, I: sidx(), V: svals[rng.Intn(len(svals))]}
		case 4:
			return Op{Op: "append", X: sx, V: svals[rng.Intn(len(svals))]}
		case 5, 6:
			return Op{Op: "slice2", X: []string{"s", "t"}[rng.Intn(2)], Y: sx, I: sidx(), J: sidx()}
		case 7:
			if rng.Intn(3) == 0 {
				return Op{Op: "slice3", X: "t", Y: sx, I: sidx(), J: sidx(), K: sidx()}
			}
			return Op{Op: "alias", X: "t", Y: "s"}
		case 8:
			return Op{Op: "len", X: sx}
		case 9:
			if rng.Intn(2) == 0 {
				return Op{Op: "in", X: sx, V: strV("x")}
			}
			return Op{Op: "callwrite", X: sx}
		default:
			if !isMap("tm") || rng.Intn(10) == 0 {
				return Op{Op: "tmapnew", X: "tm"}
			}
			keys := []V{strV("k"), strV("s"), strV("x"), {T: "listlit"}, {T: "listelem"}, intV(1), nilV}
			tv := []V{intV(5), intV(0), {T: "flt", S: "1.9", I: 1}, strV("s"), nilV}
			switch rng.Intn(5) {
			case 0:
				return Op{Op: "mapget", X: "tm", I: keys[rng.Intn(len(keys))]}
			case 1:
				return Op{Op: "mapdel", X: "tm", I: keys[rng.Intn(len(keys))]}
			case 2:
				return Op{Op: "len", X: "tm"}
			}
			return Op{Op: "mapset", X: "tm", I: keys[rng.Intn(len(keys))], V: tv[rng.Intn(len(tv))]}
		}
	}
	k := rng.Intn(26)
	if k >= 4 && k <= 18 && k != 12 && k != 13 && k != 14 && k != 15 {
		x = have[rng.Intn(len(have))]
	}
	if k >= 20 && k <= 21 && !isMap("m") {
		return Op{Op: "mapnew", X: "m"}
	}
	if k == 22 && !isSlice("ta") {
		return Op{Op: "tmake", X: "ta", I: intV(int64(1 + rng.Intn(2)))}
	}
	if k >= 24 && !(w.get("st").IsValid() && w.get("st").Kind() == reflect.Struct) {
		return Op{Op: "structnew", X: "st"}
	}
	switch k {
	case 0:
		return Op{Op: "lit3", X: x}
	case 1:
		l := rng.Intn(3)
		return Op{Op: "make", X: x, I: intV(int64(l)), J: intV(int64(l + rng.Intn(3)))}
	case 2, 3:
		return Op{Op: "alias", X: x, Y: y}
	case 4, 5:
		return Op{Op: "read", X: x, I: idx(x)}
	case 6, 7, 8:
		return Op{Op: "write", X: x, I: idx(x), V: vals[rng.Intn(len(vals))]}
	case 9, 10, 11:
		return Op{Op: "append", X: x, V: vals[rng.Intn(len(vals))]}
	case 12, 13, 14:
		return Op{Op: "slice2", X: x, Y: y, I: idx(y), J: idx(y)}
	case 15:
		return Op{Op: "slice3", X: x, Y: y, I: idx(y), J: idx(y), K: idx(y)}
	case 16:
		if isMap("m") && rng.Intn(3) == 0 {
			return Op{Op: "len", X: "m"}
		}
		return Op{Op: "len", X: x}
	case 17:
		return Op{Op: "in", X: x, V: vals[rng.Intn(len(vals))]}
	case 18:
		return Op{Op: "callwrite", X: x}
	case 19:
		return Op{Op: "mapnew", X: []string{"m", "n"}[rng.Intn(2)]}
	case 20, 21:
		keys := []V{intV(1), strV("k"), strV("s"), nilV, {T: "listlit"}, {T: "listelem"}, {T: "mapelem"}, intV(7)}
		mv := "m"
		if isMap("n") && rng.Intn(2) == 0 {
			mv = "n"
		}
		switch rng.Intn(4) {
		case 0:
			return Op{Op: "mapget", X: mv, I: keys[rng.Intn(len(keys))]}
		case 1:
			return Op{Op: "mapdel", X: mv, I: keys[rng.Intn(len(keys))]}
		case 2:
			return Op{Op: "alias", X: "n", Y: "m"}
		}
		return Op{Op: "mapset", X: mv, I: keys[rng.Intn(len(keys))], V: vals[rng.Intn(len(vals))]}
	case 22:
		if rng.Intn(2) == 0 {
			return Op{Op: "tmake", X: "ta", I: intV(int64(rng.Intn(3)))}
		}
		tv := []V{intV(5), {T: "flt", S: "1.9", I: 1}, strV("s"), nilV}
		if rng.Intn(4) == 0 {
			return Op{Op: "in", X: "ta", V: append(tv, intV(1), intV(0))[rng.Intn(len(tv)+2)]}
		}
		if rng.Intn(2) == 0 {
			return Op{Op: "append", X: "ta", V: tv[rng.Intn(len(tv))]}
		}
		return Op{Op: "write", X: "ta", I: idx("ta"), V: tv[rng.Intn(len(tv))]}
	case 23:
		return Op{Op: "structnew", X: "st"}
	case 24:
		switch rng.Intn(11) {
		case 5:
			if rng.Intn(2) == 0 {
				return Op{Op: "structnew2", X: "su"}
			}
			return Op{Op: "callget", X: []string{"st", "su"}[rng.Intn(2)]}
		case 6:
			return Op{Op: "fieldset", X: "su", S: []string{"A", "B"}[rng.Intn(2)], V: []V{intV(5), strV("z")}[rng.Intn(2)]}
		case 7:
			if rng.Intn(4) == 0 {
				return Op{Op: "litmix", X: []string{"a", "b"}[rng.Intn(2)]}
			}
			return Op{Op: "concat", X: "c", Y: []string{"a", "b", "ta"}[rng.Intn(3)], K: strV([]string{"ta", "a", "b"}[rng.Intn(3)])}
		case 8:
			return Op{Op: "bindfield", X: "st", Y: "sv", S: []string{"A", "B"}[rng.Intn(2)]}
		case 9:
			return Op{Op: "bindelem", X: []string{"ta", "a"}[rng.Intn(2)], Y: "sv", I: intV(int64(rng.Intn(2)))}
		case 10:
			return Op{Op: "getvar", X: "sv"}
		case 0:
			return Op{Op: "fieldset", X: "st", S: "M", V: []V{{T: "maplit0"}, {T: "maplit1"}, intV(5)}[rng.Intn(3)]}
		case 1:
			return Op{Op: "aliasfield", X: "st", Y: "tm"}
		case 2:
			return Op{Op: "fieldmapget", X: "st", I: []V{strV("k"), strV("x")}[rng.Intn(2)]}
		case 3:
			return Op{Op: "fieldmapset", X: "st", I: []V{strV("k"), strV("x")}[rng.Intn(2)], V: []V{intV(5), strV("s"), intV(0)}[rng.Intn(3)]}
		case 4:
			return Op{Op: "mapset", X: "tm", I: strV("k"), V: intV(9)}
		}
		fv := []V{intV(5), strV("z"), {T: "flt", S: "2.5", I: 2}}
		return Op{Op: "fieldset", X: "st", S: []string{"A", "B", "Z"}[rng.Intn(3)], V: fv[rng.Intn(len(fv))]}
	}
	return Op{Op: "fieldget", X: "st", S: []string{"A", "B", "Z"}[rng.Intn(3)]}
}

func main() {
	if len(os.Args) < 3 {
		fmt.Fprintln(os.Stderr, "usage: contharness random <seed> <n> <len> <out> | ops <ops.ndjson> <out>")
		os.Exit(2)
	}
	switch os.Args[1] {
	case "keylaw":
		// contharness keylaw <out>: one key, one entry -- the three operations that take a key (store, read, delete) agree on which entry a key expression
		// addresses, for every key type of a typed map and every kind of key operand (the key is converted to the key type the same way in all three).
		f, _ := os.Create(os.Args[2])
		defer f.Close()
		enc := json.NewEncoder(f)
		keyTypes := []string{"int64", "float64", "string", "bool", "interface", "int32", "uint8"}
		keys := []string{"1", "2", "0", "-1", "1.5", "2.5", "0.5", "-0.5", "7 / 2", "1.0", "\"1\"", "\"a\"", "\"1.5\"", "true", "false", "nil", "300", "1e3", "toInt(3)", "toFloat(2)", "len(\"ab\")", "[1][0]", "[1.5][0]"}
		forms := []struct{ name, store, read string }{{"index", "m[k] = 41", "m[k]"}, {"plus-assign", "m[k] = 40\nm[k] += 1", "m[k]"}, {"through-var", "j = k\nm[j] = 41", "m[k]"}, {"read-var", "m[k] = 41\nj = k", "m[j]"}}
		for _, kt := range keyTypes {
			for _, k := range keys {
				for _, fm := range forms {
					pre := "m = make(map[" + kt + "]int64)\nk = " + k + "\n"
					e := env.NewEnv()
					core.Import(e)
					o := map[string]interface{}{"kt": kt, "key": k, "form": fm.name, "stored": false, "read_ok": false, "len1": false, "deleted_ok": false, "panicked": false}
					func() {
						defer func() {
							if r := recover(); r != nil {
								o["panicked"] = true
							}
						}()
						if _, err := vm.Execute(e, nil, pre+fm.store); err != nil {
							return
						}
						o["stored"] = true
						if v, err := vm.Execute(e, nil, fm.read); err == nil && v == int64(41) {
							o["read_ok"] = true
						}
						if v, err := vm.Execute(e, nil, "len(m)"); err == nil && v == int64(1) {
							o["len1"] = true
						}
						if v, err := vm.Execute(e, nil, "delete(m, k)\n[len(m), m[k] == nil]"); err == nil && reflect.DeepEqual(v, []interface{}{int64(0), true}) {
							o["deleted_ok"] = true
						}
					}()
					enc.Encode(o)
				}
			}
		}
	case "random":
		seed, _ := strconv.ParseInt(os.Args[2], 10, 64)
		n, _ := strconv.Atoi(os.Args[3])
		length, _ := strconv.Atoi(os.Args[4])
		f, _ := os.Create(os.Args[5])
		defer f.Close()
		bw := bufio.NewWriter(f)
		defer bw.Flush()
		enc := json.NewEncoder(bw)
		rng := rand.New(rand.NewSource(seed))
		for t := 0; t < n; t++ {
			enc.Encode(Line{Ev: "reset", Share: []Share{}})
			w := newWorld()
			// a short prelude makes most histories start from interesting containers
			for _, o := range []Op{{Op: "lit3", X: "a"}, {Op: "mapnew", X: "m"}} {
				if rng.Intn(3) > 0 {
					enc.Encode(w.do(o))
				}
			}
			for i := 0; i < length; i++ {
				enc.Encode(w.do(opPool(rng, w)))
			}
		}
	case "law":
		law(os.Args[2])
	case "refs":
		refs(os.Args[2])
	case "ops", "opslast":
		lastOnly := os.Args[1] == "opslast"
		in, err := os.Open(os.Args[2])
		if err != nil {
			fmt.Fprintln(os.Stderr, err)
			os.Exit(2)
		}
		f, _ := os.Create(os.Args[3])
		defer f.Close()
		bw := bufio.NewWriter(f)
		defer bw.Flush()
		enc := json.NewEncoder(bw)
		sc := bufio.NewScanner(in)
		sc.Buffer(make([]byte, 1<<20), 1<<24)
		for sc.Scan() {
			var ops []Op
			if err := json.Unmarshal(sc.Bytes(), &ops); err != nil {
				fmt.Fprintln(os.Stderr, err)
				os.Exit(2)
			}
			enc.Encode(Line{Ev: "reset", Share: []Share{}})
			w := newWorld()
			for i, o := range ops {
				l := w.do(o)
				if lastOnly && i < len(ops)-1 && !o.P {
					// every proper prefix of a transition-cover history is a history of its own: only the last step carries the projection
					l = Line{Ev: "op", O: l.O, Res: l.Res, Share: []Share{}, Src: l.Src, NoPost: true}
				}
				enc.Encode(l)
			}
		}
	}
}

// ---------------------------------------------------------------- ErrUnchanged on statements whose target is an EXPRESSION
//
// The design property ErrUnchanged of MC_AnkoContainers ("a statement that fails leaves every container as it was") holds for every statement,
// also for those the bounded machine does not enumerate: stores whose target is reached through a slice expression, a call result, parentheses,
// an index path -- with every kind of index and value.  Statement = target x operator x value; the law is judged on the real interpreter.

func lawSetup() (*env.Env, error) {
	e := env.NewEnv()
	e.Define("harr", [3]int64{1, 2, 3})
	e.Define("nm", map[string]int64(nil)) // nil containers of concrete types: a store that fails leaves them nil
	e.Define("nl", []int64(nil))
	_, err := vm.Execute(e, nil, `a = [1, 2, 3]
tlm = make([]map[string]int64, 1)
tll = make([][]int64, 1)
ta = make([]int64, 3)
ta[0] = 1
ta[1] = 2
m = {"k": 1, "l": [1, 2]}
tm = make(map[string]int64)
tm.k = 1
s = "abc"
st = make(struct { A int64, B string, L []int64 })
st.L = [1, 2]
b = a[0:2]
tb = ta[0:2]
ll = [[1, 2], [3]]
tl = make([][]int64, 1)
tl[0] = [1, 2, 3]
func fa() { return a[0:1] }
func fta() { return ta[0:1] }
func fm() { return m }
func fl() { return ll }
`)
	return e, err
}

const lawObs = "[a, ta, m, tm, s, st.A, st.B, st.L, b, tb, ll, tl, len(a), len(ta), len(b), len(tb), len(ll[0]), len(tl[0]), nm == nil, nl == nil, tlm[0] == nil, tll[0] == nil, len(nm), len(nl), len(tlm), len(tll)]"

func law(out string) {
	targets := []string{"a[0:1][1]", "a[0:2][2]", "fa()[1]", "(a[0:1])[1]", "a[0:1][0:1][1]", "ta[0:1][1]", "fta()[1]", "tb[2]", "b[2]", "b[5]", "a[-1]", "a[9]", "a[3]", "ta[3]", "ta[9]", "ta[0]", "a[\"x\"]", "ta[nil]",
		"m[[1]]", "m[{}]", "m.l[5]", "m.l[2]", "fm().l[9]", "fm().z", "tm.k", "tm[1]", "tm[[1]]", "s[9]", "s[0]", "s[3]", "st.Nope", "st.A", "st.B", "st.L[5]", "st.L[2]", "st.L[0:1][1]", "ll[0][5]", "ll[5][0]", "ll[0][2]", "ll[1][1]",
		"fl()[0][5]", "fl()[0][2]", "tl[0][9]", "tl[0][3]", "tl[0][0:1][1]", "tl[1]", "tl[0]", "harr[0]", "harr[5]", "*a", "a.x", "ta.x", "s.x", "a[0:1]", "ta[0:1]", "a[0][0]", "m.k.z", "nosuch[0]", "nosuch.x",
		"nm.k", "nm[\"k\"]", "nm[[1]]", "nm[1]", "nm[nil]", "tlm[0].k", "tlm[0][\"k\"]", "tlm[0][[1]]", "tlm[0][2]", "tlm[1].k", "nl[0]", "nl[1]", "nl[-1]", "tll[0][0]", "tll[0][1]", "tll[1][0]", "nm.k.z", "tlm[0].k.z"}
	values := []string{"9", "\"x\"", "nil", "[7]", "1.5", "{}", "true", "ta", "tb"}
	ops := []string{"=", "+=", "-=", "*="}
	var sum struct {
		Cases      int           `json:"cases"`
		Failing    int           `json:"failing_statements"`
		NMismatch  int           `json:"n_mismatch"`
		Mismatches []interface{} `json:"mismatches"`
	}
	for _, t := range targets {
		for _, op := range ops {
			for _, v := range values {
				for _, form := range []string{"%s %s %s", "func() { %s %s %s }()", "x, %s = 1, %s", "%s, x = %s, 1"} {
					if op != "=" && strings.HasSuffix(t, ":1]") {
						continue // t op= v on a slice EXPRESSION: evaluating t op v appends into shared storage as Go's append does, before the assignment is refused
					}
					stmt := fmt.Sprintf(form, t, op, v)
					if strings.HasPrefix(form, "x,") || strings.HasSuffix(form, "1") {
						if op != "=" {
							continue
						}
						stmt = fmt.Sprintf(form, t, v)
					}
					e, err := lawSetup()
					if err != nil {
						fmt.Fprintln(os.Stderr, "law setup:", err)
						os.Exit(2)
					}
					beforeV, _ := vm.Execute(e, nil, lawObs)
					before := fmt.Sprintf("%#v", beforeV) // (printed now: the observed containers alias the live ones)
					var serr error
					func() {
						defer func() {
							if r := recover(); r != nil {
								serr = fmt.Errorf("PANIC %v", r)
							}
						}()
						_, serr = vm.Execute(e, nil, stmt)
					}()
					sum.Cases++
					if serr == nil {
						continue
					}
					sum.Failing++
					afterV, _ := vm.Execute(e, nil, lawObs)
					after := fmt.Sprintf("%#v", afterV)
					if before != after || strings.HasPrefix(serr.Error(), "PANIC") {
						sum.NMismatch++
						if len(sum.Mismatches) < 400 {
							sum.Mismatches = append(sum.Mismatches, map[string]interface{}{"stmt": stmt, "target": t, "error": serr.Error(), "before": before, "after": after})
						}
					}
				}
			}
		}
	}
	b, _ := json.Marshal(sum)
	os.WriteFile(out, b, 0o644)
}

// ---------------------------------------------------------------- "slices and maps are reference values when assigned or passed"
//
// Every way a container can travel (assignment, parameter of a script function on the direct and the reflect path, spread into a variadic script or Go
// function, Go function parameter, result, list element, map entry, channel, closure) hands over the container itself: a store made through the
// far end is seen through the near end.  The expected outcome is what the same program does in Go on []interface{} / []int64 / map.

func refs(out string) {
	travel := map[string]string{
		"assign":          "y = x\nSTORE(y)",
		"param":           "func w(c) { STORE(c) }\nw(x)",
		"param5":          "func w(c, p2, p3, p4, p5) { STORE(c) }\nw(x, 2, 3, 4, 5)",
		"variadic-elem":   "func w(cs...) { STORE(cs[0]) }\nw(x)",
		"anon":            "(func(c) { STORE(c) })(x)",
		"result":          "func g() { return x }\nSTORE(g())",
		"list-elem":       "l = [x]\nSTORE(l[0])",
		"map-entry":       "mm = {\"e\": x}\nSTORE(mm.e)",
		"channel":         "cc = make(chan interface, 1)\ncc <- x\ny = <-cc\nSTORE(y)",
		"closure":         "f = func() { STORE(x) }\nf()",
		"go-identity":     "STORE(gid(x))",
		"go-param":        "GOSTORE",
		"defer":           "func w(c) { STORE(c) }\nfunc d() { defer w(x) }\nd()",
		"goroutine":       "dd = make(chan int64)\ngo func(c) { STORE(c); dd <- 1 }(x)\n<-dd",
		"spread-variadic": "SPREAD",
	}
	kinds := map[string][3]string{ // setup, store through the far end (STORE(c)), observation
		"list":  {"x = [1, 2, 3]", "%s[0] = 9", "[x[0], len(x)]"},
		"typed": {"x = make([]int64, 3)\nx[0] = 1", "%s[0] = 9", "[x[0], len(x)]"},
		"map":   {"x = {\"k\": 1}", "%s.k = 9", "[x.k, len(x)]"},
		"tmap":  {"x = make(map[string]int64)\nx.k = 1", "%s[\"k\"] = 9", "[x.k, len(x)]"},
		"view":  {"base = [1, 2, 3]\nx = base[0:2]", "%s[0] = 9", "[base[0], x[0], len(x)]"},
	}
	want := map[string][]interface{}{"list": {int64(9), int64(3)}, "typed": {int64(9), int64(3)}, "map": {int64(9), int64(1)}, "tmap": {int64(9), int64(1)}, "view": {int64(9), int64(9), int64(2)}}
	var sum struct {
		Cases      int           `json:"cases"`
		NMismatch  int           `json:"n_mismatch"`
		Mismatches []interface{} `json:"mismatches"`
	}
	re := regexp.MustCompile(`STORE\(([^()]*(\([^()]*\))?[^()]*)\)`)
	for tn, tsrc := range travel {
		for kn, k := range kinds {
			body := tsrc
			switch body {
			case "GOSTORE":
				if kn == "map" || kn == "tmap" {
					body = "gsetk(x)"
				} else {
					body = "gset0(x)"
				}
			case "SPREAD":
				if kn == "map" || kn == "tmap" {
					continue
				}
				// the spread list IS the variadic parameter: for a script function, a Go function over interface{} and a Go function over int64
				body = "func w(cs...) { cs[0] = 9 }\nw(x...)"
				if kn == "typed" {
					body = "gsetv64(x...)"
				}
			default:
				body = re.ReplaceAllStringFunc(body, func(m string) string { return fmt.Sprintf(k[1], re.FindStringSubmatch(m)[1]) })
			}
			src := k[0] + "\n" + body + "\n" + k[2]
			e := env.NewEnv()
			e.Define("gid", func(v interface{}) interface{} { return v })
			e.Define("gset0", func(v interface{}) {
				rv := reflect.ValueOf(v)
				rv.Index(0).Set(reflect.ValueOf(int64(9)).Convert(rv.Type().Elem()))
			})
			e.Define("gsetk", func(v interface{}) {
				rv := reflect.ValueOf(v)
				rv.SetMapIndex(reflect.ValueOf("k").Convert(rv.Type().Key()), reflect.ValueOf(int64(9)).Convert(rv.Type().Elem()))
			})
			e.Define("gsetv64", func(xs ...int64) { xs[0] = 9 })
			var got interface{}
			var err error
			func() {
				defer func() {
					if r := recover(); r != nil {
						err = fmt.Errorf("PANIC %v", r)
					}
				}()
				ctx, cancel := context.WithTimeout(context.Background(), 5*time.Second)
				defer cancel()
				got, err = vm.ExecuteContext(ctx, e, nil, src)
			}()
			sum.Cases++
			if err != nil || fmt.Sprint(got) != fmt.Sprint(want[kn]) {
				sum.NMismatch++
				g := fmt.Sprint(got)
				if err != nil {
					g = "error: " + err.Error()
				}
				sum.Mismatches = append(sum.Mismatches, map[string]interface{}{"travel": tn, "kind": kn, "src": src, "want": fmt.Sprint(want[kn]), "got": g})
			}
		}
	}
	b, _ := json.Marshal(sum)
	os.WriteFile(out, b, 0o644)
}
