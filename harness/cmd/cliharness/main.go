// cliharness observes the built ./anko command next to the library verdict for the same source (property C18).
//
//	cliharness run <anko-binary> <scenarios.ndjson> <obs.ndjson>
//	cliharness lib <source-file> [args...]     (child mode: vm.Execute in an environment prepared like the command's;
//	                                            exit 0 ok / 10 parse error / 11 run error; stdout = what the script prints)
package main

import (
	"bufio"
	"bytes"
	"encoding/json"
	"fmt"
	"os"
	"os/exec"
	"path/filepath"
	"regexp"
	"strings"
	"time"

	"github.com/mattn/anko/core"
	"github.com/mattn/anko/env"
	_ "github.com/mattn/anko/packages"
	"github.com/mattn/anko/parser"
	"github.com/mattn/anko/vm"
)

var addrRE = regexp.MustCompile(`0x[0-9a-f]{5,}`)

type Scenario struct {
	ID       string   `json:"id"`
	Mode     string   `json:"mode"` // file | e
	Src      string   `json:"src"`
	Args     []string `json:"args"`
	Readable bool     `json:"readable"`
	Rel      string   `json:"rel"`    // "" | "sub": the file is named by a relative path with a directory part (sub/x.ank), the command started in its parent | "dot": ./x.ank
	Unread   string   `json:"unread"` // how the file argument is unreadable: "" / "missing" (no such file) | "dir" (a directory) | "perm" (no read permission)
}

type Obs struct {
	ID         string `json:"id"`
	Mode       string `json:"mode"`
	Readable   bool   `json:"readable"`
	Exit       int    `json:"exit"`
	Lib        string `json:"lib"` // ok | parse | run | none | crash
	PrefixOK   bool   `json:"prefix_ok"`
	ExtraLines int    `json:"extra_lines"`
	Stdout     string `json:"stdout"`
	LibStdout  string `json:"lib_stdout"`
	TimedOut   bool   `json:"timed_out"`
}

func libMain(args []string) {
	src, err := os.ReadFile(args[0])
	if err != nil {
		os.Exit(12)
	}
	e := env.NewEnv()
	e.Define("args", args[1:])
	core.Import(e)
	_, err = vm.Execute(e, nil, string(src))
	if err == nil {
		os.Exit(0)
	}
	if _, ok := err.(*parser.Error); ok {
		os.Exit(10)
	}
	os.Exit(11)
}

func runCmd(name string, args ...string) (stdout string, code int, timedOut bool) {
	return runCmdIn("", name, args...)
}

func runCmdIn(wd, name string, args ...string) (stdout string, code int, timedOut bool) {
	cmd := exec.Command(name, args...)
	cmd.Dir = wd
	var out bytes.Buffer
	cmd.Stdout = &out
	cmd.Stdin = strings.NewReader("")
	done := make(chan error, 1)
	if err := cmd.Start(); err != nil {
		return "", -1, false
	}
	go func() { done <- cmd.Wait() }()
	select {
	case err := <-done:
		if err != nil {
			if ee, ok := err.(*exec.ExitError); ok {
				return out.String(), ee.ExitCode(), false
			}
			return out.String(), -1, false
		}
		return out.String(), 0, false
	case <-time.After(20 * time.Second):
		cmd.Process.Kill()
		return out.String(), -2, true
	}
}

func main() {
	if len(os.Args) >= 3 && os.Args[1] == "lib" {
		libMain(os.Args[2:])
		return
	}
	if len(os.Args) < 5 || os.Args[1] != "run" {
		fmt.Fprintln(os.Stderr, "usage: cliharness run <anko> <scenarios> <obs> | lib <file> args...")
		os.Exit(2)
	}
	anko := os.Args[2]
	self, _ := os.Executable()
	f, err := os.Open(os.Args[3])
	if err != nil {
		fmt.Fprintln(os.Stderr, err)
		os.Exit(2)
	}
	out, _ := os.Create(os.Args[4])
	defer out.Close()
	enc := json.NewEncoder(out)
	dir, _ := os.MkdirTemp(filepath.Dir(os.Args[4]), "cli")
	defer os.RemoveAll(dir)
	sc := bufio.NewScanner(f)
	sc.Buffer(make([]byte, 1<<20), 1<<26)
	n := 0
	for sc.Scan() {
		var s Scenario
		if err := json.Unmarshal(sc.Bytes(), &s); err != nil {
			fmt.Fprintln(os.Stderr, err)
			os.Exit(2)
		}
		n++
		path := filepath.Join(dir, fmt.Sprintf("s%d.ank", n))
		os.WriteFile(path, []byte(s.Src), 0o644)
		o := Obs{ID: s.ID, Mode: s.Mode, Readable: s.Readable, Lib: "none"}
		var cargs []string
		if s.Mode == "e" {
			cargs = append([]string{"-e", s.Src}, s.Args...)
		} else {
			p := path
			if !s.Readable {
				switch s.Unread {
				case "empty": // a file argument that is there but empty: no such file
					p = ""
				case "dir":
					p = filepath.Join(dir, fmt.Sprintf("d%d.ank", n))
					os.Mkdir(p, 0o755)
				case "perm":
					os.Chmod(path, 0)
					if os.Geteuid() == 0 { // root reads anything: fall back to a missing file
						p = filepath.Join(dir, "does-not-exist", "nope.ank")
					}
				default:
					p = filepath.Join(dir, "does-not-exist", "nope.ank")
				}
			}
			cargs = append([]string{p}, s.Args...)
		}
		wd := ""
		if s.Mode != "e" && s.Readable && s.Rel != "" {
			wd = dir
			rel := filepath.Base(path)
			if s.Rel == "sub" {
				os.MkdirAll(filepath.Join(dir, "sub"), 0o755)
				os.WriteFile(filepath.Join(dir, "sub", rel), []byte(s.Src), 0o644)
				rel = filepath.Join("sub", rel)
			} else {
				rel = "." + string(filepath.Separator) + rel
			}
			cargs[0] = rel
		}
		o.Stdout, o.Exit, o.TimedOut = runCmdIn(wd, anko, cargs...)
		if s.Readable || s.Mode == "e" {
			lo, lc, lt := runCmd(self, append([]string{"lib", path}, s.Args...)...)
			o.LibStdout = lo
			switch lc {
			case 0:
				o.Lib = "ok"
			case 10:
				o.Lib = "parse"
			case 11:
				o.Lib = "run"
			default:
				o.Lib = "crash"
			}
			if lt {
				o.Lib = "timeout"
			}
		}
		// a value printed as a Go address (a function, a channel, a pointer) differs between the two processes by construction: addresses are made equal before comparing
		cmpOut, cmpLib := addrRE.ReplaceAllString(o.Stdout, "0xADDR"), addrRE.ReplaceAllString(o.LibStdout, "0xADDR")
		o.PrefixOK = strings.HasPrefix(cmpOut, cmpLib)
		if o.PrefixOK {
			rest := cmpOut[len(cmpLib):]
			o.ExtraLines = strings.Count(rest, "\n")
			if rest != "" && !strings.HasSuffix(rest, "\n") {
				o.ExtraLines += 100 // not a LINE: the diagnostic must be terminated
			}
		}
		enc.Encode(o)
	}
}
