// cancelharness delivers the cancellation of the context at every gate (statement entry, loop/channel poll, function
// entry -- the verif hooks) of non-terminating or blocked programs and observes property C02.
//
//	cancelharness <programs.ndjson> <obs.ndjson> <maxgate>
//
// Per program and per k = 0..maxgate: ExecuteContext is started; the hook cancels the context when the k-th gate event
// of the run occurs (k = -1: cancel from outside after 30 ms, i.e. while spinning/blocked).  Observed: returned or not
// within the limit, latency, error text, and how many probe effects happened after the cancellation instant.
package main

import (
	"bufio"
	"context"
	"encoding/json"
	"fmt"
	"os"
	"strconv"
	"sync"
	"sync/atomic"
	"time"

	"github.com/mattn/anko/env"
	_ "github.com/mattn/anko/packages"
	"github.com/mattn/anko/vm"
)

type Prog struct {
	ID      string `json:"id"`
	Src     string `json:"src"`
	Pre     string `json:"pre"`     // run to completion first, in the same environment, by a plain vm.Execute (another run, another context)
	Copies  int    `json:"copies"`  // > 1: that many calls of the same source, each in its own environment, under ONE context, sharing the host channel "cq" (capacity 1)
	Feed    string `json:"feed"`    // with copies: the host "drain"s or "fill"s the shared channel for a few milliseconds, then stops; then the context is cancelled
	Threads int    `json:"threads"` // script goroutines that may log one more effect before they observe
	Crowd   int    `json:"crowd"`   // > 0: another run of the process, never cancelled, keeps that many script goroutines parked on a channel meanwhile
	DelayMs int    `json:"delay_ms"` // the external cancellation (gate -1) arrives after that many milliseconds instead of 30 (deep recursion)
}

// crowd starts a run that is never cancelled and parks n script goroutines on a channel; the returned function lets them go.
func crowd(n int) func() {
	e := env.NewEnv()
	park := make(chan int64)
	started := make(chan int64, n)
	e.Define("park", park)
	e.Define("started", started)
	e.Define("n", int64(n))
	// the crowd's own run is bounded: if a changed interpreter makes it wait (a cap on goroutines, say) the wait for it is given up after 1 s; whatever is parked by then stays parked until the observed run is over
	ctx, stop := context.WithCancel(context.Background())
	go func() {
		defer func() { recover() }()
		vm.ExecuteContext(ctx, e, nil, "for i = 0; i < n; i++ {\n go func() {\n  started <- 1\n  <-park\n }()\n}")
	}()
	deadline := time.After(time.Second)
wait:
	for i := 0; i < n; i++ {
		select {
		case <-started:
		case <-deadline:
			break wait
		}
	}
	return func() { close(park); stop() }
}

type Obs struct {
	ID        string  `json:"id"`
	Gate      int     `json:"gate"`
	Delivered bool    `json:"delivered"` // the k-th gate was reached and the cancellation delivered
	Returned  bool    `json:"returned"`
	LatencyMs float64 `json:"latency_ms"`
	Err       string  `json:"err"`
	ErrOK     bool    `json:"err_ok"`
	Late      int     `json:"late_effects"`
	Allowed   int     `json:"allowed_late"`
	GateKind  string  `json:"gate_kind"`
	Evs       []Ev    `json:"evs"` // deferred host calls: reg(tag) at the defer statement (its argument), rel(id) when the deferred call runs
}

// Ev is one observable event of the defer discipline (AnkoDefer.tla): depth = the invocation depth the program text gave the tag (tag / 10).
type Ev struct {
	Ev    string `json:"ev"`
	ID    int64  `json:"id"`
	Depth int64  `json:"depth"`
}

const limit = 5 * time.Second

type run struct {
	k        int64
	n        int64
	cancel   context.CancelFunc
	effects  int64
	atCancel int64
	done     int32
	kind     atomic.Value
	t0       atomic.Value
	mu       sync.Mutex
	evs      []Ev
	nreg     int64
}

var cur atomic.Value // *run

func hook(ev vm.VerifEvent) {
	if ev.Kind != "StmtEnter" && ev.Kind != "Poll" && ev.Kind != "FuncEnter" {
		return
	}
	r, _ := cur.Load().(*run)
	if r == nil {
		return
	}
	n := atomic.AddInt64(&r.n, 1) - 1
	if n == r.k && atomic.CompareAndSwapInt32(&r.done, 0, 1) {
		atomic.StoreInt64(&r.atCancel, atomic.LoadInt64(&r.effects))
		r.kind.Store(ev.Kind + ":" + ev.Site)
		r.t0.Store(time.Now())
		r.cancel()
	}
}

func bigSlice() []interface{} {
	s := make([]interface{}, 300000)
	for i := range s {
		s[i] = int64(i)
	}
	return s
}

var big = bigSlice()
var bigMap = func() map[interface{}]interface{} {
	m := map[interface{}]interface{}{}
	for i := 0; i < 100000; i++ {
		m[int64(i)] = int64(i)
	}
	return m
}()

// shared: several calls under one context contending for one buffered host channel; every one of them must return.
func shared(p Prog, k int) Obs {
	ctx, cancel := context.WithCancel(context.Background())
	defer cancel()
	cq := make(chan int64, 1)
	done := make(chan error, p.Copies)
	for i := 0; i < p.Copies; i++ {
		e := env.NewEnv()
		e.Define("cq", cq)
		go func() {
			defer func() {
				if x := recover(); x != nil {
					done <- fmt.Errorf("PANIC: %v", x)
				}
			}()
			_, err := vm.ExecuteContext(ctx, e, nil, p.Src)
			done <- err
		}()
	}
	stop := time.After(time.Duration(2+k%3) * time.Millisecond)
feed:
	for {
		if p.Feed == "drain" {
			select {
			case <-cq:
			case <-stop:
				break feed
			}
		} else {
			select {
			case cq <- 1:
			case <-stop:
				break feed
			}
		}
	}
	time.Sleep(time.Millisecond)
	t0 := time.Now()
	cancel()
	o := Obs{ID: p.ID, Gate: k, Delivered: true, Returned: true, ErrOK: true, GateKind: "external-shared", Allowed: p.Copies}
	deadline := time.After(limit)
	for i := 0; i < p.Copies; i++ {
		select {
		case err := <-done:
			if err == nil || err.Error() != "execution interrupted" {
				o.ErrOK = false
				o.Err = fmt.Sprint(err)
			}
		case <-deadline:
			o.Returned = false
			o.Err = fmt.Sprintf("%d of %d calls sharing the context did not return", p.Copies-i, p.Copies)
			return o
		}
	}
	o.LatencyMs = float64(time.Since(t0).Microseconds()) / 1000
	return o
}

func one(p Prog, k int) Obs {
	if p.Copies > 1 {
		return shared(p, k)
	}
	if p.Crowd > 0 {
		defer crowd(p.Crowd)()
	}
	ctx, cancel := context.WithCancel(context.Background())
	r := &run{k: int64(k), cancel: cancel}
	if k < 0 {
		r.k = 1 << 60
	}
	e := env.NewEnv()
	e.Define("p", func(x interface{}) interface{} { atomic.AddInt64(&r.effects, 1); return x })
	e.Define("p2", func(a, b interface{}) interface{} { atomic.AddInt64(&r.effects, 1); return b })
	// reg(tag): evaluated as the ARGUMENT of a defer statement, i.e. when the call is registered; gives the registration a unique id.
	// rel(id): the deferred host call itself (what defer is for: unlock, close, release).  Neither counts as a script effect.
	e.Define("reg", func(tag int64) int64 {
		r.mu.Lock()
		defer r.mu.Unlock()
		r.nreg++
		id := r.nreg*100 + tag
		r.evs = append(r.evs, Ev{"reg", id, tag / 10})
		return id
	})
	e.Define("rel", func(id int64) {
		r.mu.Lock()
		defer r.mu.Unlock()
		r.evs = append(r.evs, Ev{"rel", id, (id % 100) / 10})
	})
	e.Define("cancelnow", func() { // the host cancels from inside a call the script makes (e.g. a deferred one)
		if atomic.CompareAndSwapInt32(&r.done, 0, 1) {
			atomic.StoreInt64(&r.atCancel, atomic.LoadInt64(&r.effects))
			r.kind.Store("hostcall")
			r.t0.Store(time.Now())
		}
		cancel()
	})
	e.Define("big", big)
	e.Define("bigmap", bigMap)
	if p.Pre != "" {
		if _, err := vm.Execute(e, nil, p.Pre); err != nil {
			return Obs{ID: p.ID, Gate: k, Err: "PRELUDE: " + err.Error()}
		}
	}
	cur.Store(r)
	type res struct {
		v   interface{}
		err error
	}
	ch := make(chan res, 1)
	var wg sync.WaitGroup
	wg.Add(1)
	go func() {
		defer wg.Done()
		defer func() {
			if x := recover(); x != nil {
				ch <- res{nil, fmt.Errorf("PANIC: %v", x)}
			}
		}()
		v, err := vm.ExecuteContext(ctx, e, nil, p.Src)
		ch <- res{v, err}
	}()
	o := Obs{ID: p.ID, Gate: k, Allowed: p.Threads}
	if k < 0 {
		if p.DelayMs > 0 {
			time.Sleep(time.Duration(p.DelayMs) * time.Millisecond)
		} else {
			time.Sleep(30 * time.Millisecond)
		}
		if atomic.CompareAndSwapInt32(&r.done, 0, 1) {
			r.kind.Store("external")
			r.t0.Store(time.Now())
			cancel()
			atomic.StoreInt64(&r.atCancel, atomic.LoadInt64(&r.effects)) // after cancel() returned: every later poll sees it
		}
		o.Allowed = p.Threads + 1 // the cancellation is not synchronised with a gate: one effect may be in flight
	}
	var x res
	got := false
	select {
	case x = <-ch:
		got = true
	case <-time.After(400 * time.Millisecond):
		// blocked (or spinning) without having reached gate k: this instant does not exist for this program;
		// cancel from outside so that the run ends, and record it as an external cancellation
		if atomic.CompareAndSwapInt32(&r.done, 0, 1) {
			r.kind.Store("external-blocked")
			r.t0.Store(time.Now())
			cancel()
			atomic.StoreInt64(&r.atCancel, atomic.LoadInt64(&r.effects))
			o.Allowed = p.Threads + 1
		}
	}
	if !got {
		select {
		case x = <-ch:
			got = true
		case <-time.After(limit + 2*time.Second):
		}
	}
	switch {
	case got:
		o.Returned = true
		if atomic.LoadInt32(&r.done) == 1 {
			o.Delivered = true
			o.LatencyMs = float64(time.Since(r.t0.Load().(time.Time)).Microseconds()) / 1000
			o.GateKind, _ = r.kind.Load().(string)
		}
		if x.err != nil {
			o.Err = x.err.Error()
		}
		o.ErrOK = x.err != nil && x.err.Error() == "execution interrupted"
	default:
		o.Returned = false
		o.Delivered = atomic.LoadInt32(&r.done) == 1
		o.GateKind, _ = r.kind.Load().(string)
		cancel()
	}
	time.Sleep(200 * time.Microsecond) // stray goroutines of this run get a chance to observe
	o.Late = int(atomic.LoadInt64(&r.effects) - atomic.LoadInt64(&r.atCancel))
	if !o.Delivered {
		o.Late = 0
	}
	cancel()
	cur.Store((*run)(nil))
	r.mu.Lock()
	o.Evs = append([]Ev{}, r.evs...)
	r.mu.Unlock()
	return o
}

func main() {
	if len(os.Args) < 4 {
		fmt.Fprintln(os.Stderr, "usage: cancelharness <programs.ndjson> <obs.ndjson> <maxgate>")
		os.Exit(2)
	}
	maxGate, _ := strconv.Atoi(os.Args[3])
	vm.VerifHook = hook
	f, err := os.Open(os.Args[1])
	if err != nil {
		fmt.Fprintln(os.Stderr, err)
		os.Exit(2)
	}
	out, _ := os.Create(os.Args[2])
	defer out.Close()
	w := bufio.NewWriter(out)
	defer w.Flush()
	enc := json.NewEncoder(w)
	sc := bufio.NewScanner(f)
	sc.Buffer(make([]byte, 1<<20), 1<<24)
	for sc.Scan() {
		var p Prog
		if err := json.Unmarshal(sc.Bytes(), &p); err != nil {
			fmt.Fprintln(os.Stderr, err)
			os.Exit(2)
		}
		for k := -1; k <= maxGate; k++ {
			o := one(p, k)
			enc.Encode(o)
			w.Flush()
			if !o.Returned {
				break // a hung run leaves a spinning goroutine behind: do not pile them up
			}
			if o.GateKind == "external-blocked" {
				break // the program blocks before its k-th gate: there are no later instants either
			}
		}
	}
}
