// vmharness replays programs whose outcome was computed by the TLA+ reference semantics (AnkoSem)
// on the real parser and interpreter, and checks run isolation (C14) on every program on the way.
//
//	vmharness run <cases.ndjson> <result.json> [nconc]
//
// A case is {"id", "prog": [...], "exp": {cls, v, log, top, open}, "unordered": bool}.
// Per case: render -> ParseSrc -> re-encode and compare with prog (renderer self-check) -> digest ->
// 2 sequential runs + nconc concurrent runs of the SAME tree on fresh environments -> digest again ->
// run 1 against exp; runs 2.. against run 1.
package main

import (
	"bufio"
	"context"
	"encoding/json"
	"fmt"
	"os"
	"reflect"
	"sort"
	"strconv"
	"sync"

	"github.com/mattn/anko/ast"
	"github.com/mattn/anko/core"
	"github.com/mattn/anko/env"
	"github.com/mattn/anko/parser"
	"github.com/mattn/anko/vm"
	"verifharness/internal/astjson"
	"verifharness/internal/vmrun"
)

// extLookup is the host's external lookup of the "ext" cases: the listed names are 99, nothing else is known.
type extLookup struct{ names map[string]bool }

func (x *extLookup) Get(n string) (reflect.Value, error) {
	if x.names[n] {
		return reflect.ValueOf(int64(99)), nil
	}
	return reflect.Value{}, fmt.Errorf("undefined symbol '%s'", n)
}
func (x *extLookup) Type(n string) (reflect.Type, error) {
	return nil, fmt.Errorf("undefined type '%s'", n)
}

type innerKey struct{}

func init() {
	vmrun.InnerScope = func(ctx context.Context, e *env.Env) *env.Env {
		x, _ := ctx.Value(innerKey{}).(*extLookup)
		if x == nil {
			return nil
		}
		for n := range x.names {
			e.Define(n, int64(50))
		}
		in := e.NewEnv()
		in.SetExternalLookup(x)
		return in
	}
}

func extLookupOf(names []string) *extLookup {
	x := &extLookup{names: map[string]bool{}}
	for _, n := range names {
		x.names[n] = true
	}
	return x
}

// extCtx / extSetup prepare a run of case c: the lookup on the outermost scope (setup), or on a nested scope the script runs in (context)
func extCtx(c *Case) context.Context {
	if c.ExtInner && len(c.Ext) > 0 {
		return context.WithValue(context.Background(), innerKey{}, extLookupOf(c.Ext))
	}
	return context.Background()
}

func extSetup(c *Case) vmrun.Setup {
	if c.Core {
		return func(e *env.Env) { core.Import(e) }
	}
	if len(c.Ext) == 0 || c.ExtInner {
		return nil
	}
	x := extLookupOf(c.Ext)
	return func(e *env.Env) { e.SetExternalLookup(x) }
}

type Case struct {
	ID        string        `json:"id"`
	Src       string        `json:"src"` // raw source instead of prog (isolation-only cases)
	Prog      []interface{} `json:"prog"`
	Exp       *vmrun.Obs    `json:"exp"`
	Unordered bool          `json:"unordered"`
	// names resolved (each to int64 99) by an external lookup the host installs on the outermost scope
	Ext []string `json:"ext"`
	// the lookup sits on a scope NESTED in the host's (where the host also binds the names, to 50) and the script runs in that nested scope
	ExtInner bool `json:"extinner"`
	// the core builtins are imported into the run's environment
	Core bool `json:"core"`
	// the concurrent runs come BEFORE the sequential ones: whatever the interpreter builds on first use is then first used concurrently
	ConcFirst bool `json:"concfirst"`
	// environments that differ in what the type name "num" means: the same tree is run in each of them
	Variants []string `json:"variants"`
	// a copy of an environment is independent: Src (= B) in the base after S0, with and without A having run in a copy of the base
	Pair *struct {
		S0   string `json:"s0"`
		A    string `json:"a"`
		How  string `json:"how"`  // Copy | DeepCopy | Fresh (A runs in a brand-new environment)
		Core bool   `json:"core"` // the core builtins are imported into every environment involved
	} `json:"pair"`
	// outcomes under recorded deviations of the code from the intended design (KNOWN_FINDINGS.json)
	Alt []struct {
		Key string     `json:"key"`
		Exp *vmrun.Obs `json:"exp"`
	} `json:"alt"`
}

type Mismatch struct {
	ID   string      `json:"id"`
	Kind string      `json:"kind"` // semantic | isolation | machinery | panic
	What string      `json:"what"`
	Src  string      `json:"src"`
	Exp  interface{} `json:"exp,omitempty"`
	Got  interface{} `json:"got,omitempty"`
}

type Summary struct {
	Cases      int               `json:"cases"`
	Compared   int               `json:"compared"`
	OpenCases  int               `json:"open_cases"`
	Runs       int               `json:"runs"`
	Mismatches []Mismatch        `json:"mismatches"`
	NMismatch  map[string]int    `json:"n_mismatch"`
	Known      map[string]int    `json:"known"`
	KnownIDs   map[string]string `json:"known_ids"`
	Samples    []interface{}     `json:"samples"`
}

func sortedLog(l []vmrun.V) []vmrun.V {
	out := append([]vmrun.V{}, l...)
	sort.Slice(out, func(i, j int) bool {
		a, _ := json.Marshal(out[i])
		b, _ := json.Marshal(out[j])
		return string(a) < string(b)
	})
	return out
}

func compareExp(c *Case, got vmrun.Obs) string {
	exp := c.Exp
	if exp.Cls != got.Cls {
		return fmt.Sprintf("outcome class: expected %s, got %s (%s)", exp.Cls, got.Cls, got.V.S)
	}
	el, gl := exp.Log, got.Log
	if c.Unordered {
		el, gl = sortedLog(el), sortedLog(gl)
	}
	if len(el) != len(gl) {
		return fmt.Sprintf("probe log length: expected %d, got %d", len(el), len(gl))
	}
	for i := range el {
		if !vmrun.Match(el[i], gl[i]) {
			return fmt.Sprintf("probe log entry %d", i)
		}
	}
	if !vmrun.Match(exp.V, got.V) {
		return "result value"
	}
	if len(exp.Top) != len(got.Top) {
		return fmt.Sprintf("top-level bindings: expected %d names, got %d", len(exp.Top), len(got.Top))
	}
	for k, ev := range exp.Top {
		gv, ok := got.Top[k]
		if !ok || !vmrun.Match(ev, gv) {
			return "top-level binding " + k
		}
	}
	return ""
}

var variantType = map[string]reflect.Type{"int64": reflect.TypeOf(int64(0)), "float64": reflect.TypeOf(float64(0)), "string": reflect.TypeOf(""), "bool": reflect.TypeOf(true)}

// runVariants: one shared tree executed in environments that bind the type name "num" differently.  The result a variant
// yields alone is the result of its first-ever run on a freshly parsed tree; the tree is parsed twice and the variants are
// run in opposite orders (then all at once), so every variant is first on one of the trees.
func runVariants(c Case, src string, stmt ast.Stmt, nconc int, sum *Summary, add func(Mismatch)) {
	setup := func(v string) vmrun.Setup {
		return func(e *env.Env) { e.DefineType("num", variantType[v]) }
	}
	stmt2, err := parser.ParseSrc(src)
	if err != nil {
		add(Mismatch{ID: c.ID, Kind: "machinery", What: err.Error(), Src: src})
		return
	}
	n := len(c.Variants)
	first := map[string]vmrun.Obs{}
	check := func(v string, o vmrun.Obs, where string) {
		if f, ok := first[v+"|alone"]; ok && !vmrun.SameObs(f, o, c.Unordered) {
			add(Mismatch{ID: c.ID, Kind: "isolation", What: fmt.Sprintf("in the environment where num = %s the shared tree yields something else %s than it yields alone", v, where), Src: src, Exp: f, Got: o})
		}
	}
	// alone: variant 0 first on tree 1, variant n-1 first on tree 2
	o, _ := vmrun.Run(context.Background(), stmt, setup(c.Variants[0]))
	first[c.Variants[0]+"|alone"] = o
	o, _ = vmrun.Run(context.Background(), stmt2, setup(c.Variants[n-1]))
	first[c.Variants[n-1]+"|alone"] = o
	sum.Runs += 2
	for i := 1; i < n; i++ {
		v := c.Variants[i]
		o, _ := vmrun.Run(context.Background(), stmt, setup(v))
		sum.Runs++
		if _, ok := first[v+"|alone"]; !ok {
			// a middle variant: its alone result comes from a third fresh tree
			st3, _ := parser.ParseSrc(src)
			a, _ := vmrun.Run(context.Background(), st3, setup(v))
			first[v+"|alone"] = a
		}
		check(v, o, "after runs in other environments")
	}
	for i := n - 2; i >= 0; i-- {
		o, _ := vmrun.Run(context.Background(), stmt2, setup(c.Variants[i]))
		sum.Runs++
		check(c.Variants[i], o, "after runs in other environments")
	}
	var wg sync.WaitGroup
	res := make([]vmrun.Obs, nconc)
	for k := 0; k < nconc; k++ {
		wg.Add(1)
		go func(k int) {
			defer wg.Done()
			res[k], _ = vmrun.Run(context.Background(), stmt, setup(c.Variants[k%n]))
		}(k)
	}
	wg.Wait()
	sum.Runs += nconc
	for k := 0; k < nconc; k++ {
		check(c.Variants[k%n], res[k], "concurrently with runs in other environments")
	}
	sum.Compared++
}

// runPair: B in the base alone versus B in the base after A ran in a copy of it (both directions of visibility are B's business:
// B reads what A wrote).  The copy is made by the host, as an embedder would.
func runPair(c Case, src string, sum *Summary, add func(Mismatch)) {
	run := func(withA bool) vmrun.Obs {
		var base *env.Env
		o, _ := vmrun.RunSrc(func(e *env.Env) {
			base = e
			if c.Pair.Core {
				core.Import(e)
			}
		}, c.Pair.S0)
		if o.Cls != "ok" && c.Pair.S0 != "" {
			return o
		}
		if withA {
			var cp *env.Env
			switch c.Pair.How {
			case "Copy":
				cp = base.Copy()
			case "Fresh":
				cp = env.NewEnv()
				if c.Pair.Core {
					core.Import(cp)
				}
			case "NestedDeepCopy":
				// a scope nested in the base is deep-copied; the host then binds globals through the copy: they belong to the copy's chain
				cp = base.NewEnv().DeepCopy()
				cp.DefineGlobal("hostg", int64(41))
				cp.DefineGlobalType("HostT", int64(0))
				cp.NewEnv().DefineGlobal("hostg2", int64(42))
			default:
				cp = base.DeepCopy()
			}
			vmrun.RunIn(cp, c.Pair.A)
		}
		return vmrun.RunIn(base, src)
	}
	alone, after := run(false), run(true)
	sum.Runs += 4
	sum.Compared++
	if !vmrun.SameObs(alone, after, false) {
		add(Mismatch{ID: c.ID, Kind: "isolation", What: fmt.Sprintf("a run in %s (%q) changed what the environment itself yields afterwards", map[string]string{"Copy": "a Copy of the environment", "DeepCopy": "a DeepCopy of the environment", "Fresh": "another, brand-new environment", "NestedDeepCopy": "a DeepCopy of a scope nested in the environment, with host-defined globals"}[c.Pair.How], c.Pair.A), Src: c.Pair.S0 + " ;; " + src, Exp: alone, Got: after})
	}
}

func main() {
	if len(os.Args) < 4 || os.Args[1] != "run" {
		fmt.Fprintln(os.Stderr, "usage: vmharness run <cases.ndjson> <result.json> [nconc]")
		os.Exit(2)
	}
	if tp := os.Getenv("VERIF_TRACE"); tp != "" {
		if err := vm.VerifTraceTo(tp); err != nil {
			fmt.Fprintln(os.Stderr, err)
			os.Exit(2)
		}
		defer vm.VerifTraceTo("")
	}
	nconc := 3
	if len(os.Args) > 4 {
		nconc, _ = strconv.Atoi(os.Args[4])
	}
	f, err := os.Open(os.Args[2])
	if err != nil {
		fmt.Fprintln(os.Stderr, err)
		os.Exit(2)
	}
	defer f.Close()
	sum := Summary{NMismatch: map[string]int{}, Known: map[string]int{}, KnownIDs: map[string]string{}}
	add := func(m Mismatch) {
		sum.NMismatch[m.Kind]++
		if sum.NMismatch[m.Kind] <= 40 { // per kind: a flood of one kind (judged by another property) must not hide the others
			sum.Mismatches = append(sum.Mismatches, m)
		}
	}
	prog, _ := os.Create(os.Args[3] + ".progress")
	pk0 := vmrun.PackagesDigest()
	rd := bufio.NewReaderSize(f, 1<<20)
	dec := json.NewDecoder(rd)
	for dec.More() {
		var c Case
		if err := dec.Decode(&c); err != nil {
			fmt.Fprintln(os.Stderr, "bad case:", err)
			os.Exit(2)
		}
		sum.Cases++
		if prog != nil {
			fmt.Fprintf(prog, "BEGIN %s\n", c.ID)
		}
		src := c.Src
		if src == "" {
			src = astjson.Render(c.Prog)
		}
		stmt, perr := parser.ParseSrc(src)
		if perr != nil {
			add(Mismatch{ID: c.ID, Kind: "machinery", What: "rendered program does not parse: " + perr.Error(), Src: src})
			continue
		}
		// (C14 judges what RUNNING a tree does, whatever shape the parser gave it: the self-check of the renderer is then left to the checks that own the tree)
		if c.Src == "" && os.Getenv("VERIF_TREECHECK") != "off" {
			enc, eerr := astjson.EncodeStmts(stmt)
			if eerr != nil {
				add(Mismatch{ID: c.ID, Kind: "machinery", What: eerr.Error(), Src: src})
				continue
			}
			if a, b := astjson.Canon(enc), astjson.Canon(interface{}(c.Prog)); !reflect.DeepEqual(a, b) {
				ja, _ := json.Marshal(a)
				jb, _ := json.Marshal(b)
				add(Mismatch{ID: c.ID, Kind: "machinery", What: "tree built by the real parser differs from the program", Src: src, Exp: string(jb), Got: string(ja)})
				continue
			}
		}
		if len(c.Variants) > 0 {
			runVariants(c, src, stmt, nconc, &sum, add)
			continue
		}
		if c.Pair != nil {
			runPair(c, src, &sum, add)
			continue
		}
		d0 := vmrun.Digest(stmt)
		obs := make([]vmrun.Obs, 2+nconc)
		sequential := func() {
			for k := 0; k < 2; k++ {
				obs[k], _ = vmrun.Run(extCtx(&c), stmt, extSetup(&c))
				sum.Runs++
				if d := vmrun.Digest(stmt); d != d0 {
					add(Mismatch{ID: c.ID, Kind: "isolation", What: fmt.Sprintf("tree digest changed by run %d", k+1), Src: src})
					d0 = d
				}
			}
		}
		concurrent := func() {
			var wg sync.WaitGroup
			for k := 0; k < nconc; k++ {
				wg.Add(1)
				go func(k int, s ast.Stmt) {
					defer wg.Done()
					obs[2+k], _ = vmrun.Run(extCtx(&c), s, extSetup(&c))
				}(k, stmt)
			}
			wg.Wait()
			sum.Runs += nconc
			if d := vmrun.Digest(stmt); d != d0 {
				add(Mismatch{ID: c.ID, Kind: "isolation", What: "tree digest changed by concurrent runs", Src: src})
				d0 = d
			}
		}
		if c.ConcFirst {
			concurrent()
			sequential()
		} else {
			sequential()
			concurrent()
		}
		if obs[0].Cls == "panic" {
			add(Mismatch{ID: c.ID, Kind: "panic", What: obs[0].V.S, Src: src})
			continue
		}
		for k := 1; k < len(obs); k++ {
			if !vmrun.SameObs(obs[0], obs[k], c.Unordered) {
				add(Mismatch{ID: c.ID, Kind: "isolation", What: fmt.Sprintf("run %d of the same tree differs from run 1", k+1), Src: src, Exp: obs[0], Got: obs[k]})
				break
			}
		}
		if c.Exp == nil {
			continue
		}
		if c.Exp.Open {
			sum.OpenCases++
			continue
		}
		sum.Compared++
		if w := compareExp(&c, obs[0]); w != "" {
			explained := false
			for _, a := range c.Alt {
				c2 := c
				c2.Exp = a.Exp
				if a.Exp != nil && (a.Exp.Cls == "fuel" || a.Exp.Open) {
					// the specification with the recorded deviation ran out of fuel, or passed a point the statements leave
					// open (e.g. finally on a control transfer): this case cannot be decided
					sum.Known["undecided:"+a.Key]++
					explained = true
					break
				}
				if a.Exp != nil && !a.Exp.Open && compareExp(&c2, obs[0]) == "" {
					sum.Known[a.Key]++
					if _, ok := sum.KnownIDs[a.Key]; !ok {
						sum.KnownIDs[a.Key] = c.ID
					}
					explained = true
					break
				}
			}
			if !explained {
				add(Mismatch{ID: c.ID, Kind: "semantic", What: w, Src: src, Exp: c.Exp, Got: obs[0]})
			}
		}
		if len(sum.Samples) < 3 && sum.Cases%211 == 7 {
			sum.Samples = append(sum.Samples, map[string]interface{}{"id": c.ID, "src": src, "expected": c.Exp})
		}
	}
	if pk1 := vmrun.PackagesDigest(); pk1 != pk0 {
		add(Mismatch{ID: "(all)", Kind: "isolation", What: "the process-wide package tables (env.Packages / env.PackageTypes) changed during the runs"})
	}
	vm.VerifTraceFlush()
	b, _ := json.Marshal(sum)
	if err := os.WriteFile(os.Args[3], b, 0o644); err != nil {
		fmt.Fprintln(os.Stderr, err)
		os.Exit(2)
	}
}
