// chanharness binds spec/AnkoChan.tla and spec/AnkoChanSeq.tla (property C16) to the real interpreter.
//
//	chanharness seq <tlc.out> <result.json>          one-goroutine channel programs: every observation compared
//	chanharness pipe <configs.ndjson> <result.json> <reps> <seed>   pipelines run repeatedly under perturbed schedules
package main

import (
	"bufio"
	"context"
	"encoding/json"
	"fmt"
	"math/rand"
	"os"
	"reflect"
	"runtime"
	"sort"
	"strconv"
	"strings"
	"sync"
	"sync/atomic"
	"time"

	"github.com/mattn/anko/core"
	"github.com/mattn/anko/env"
	_ "github.com/mattn/anko/packages"
	"github.com/mattn/anko/vm"
	"verifharness/internal/tlcout"
)

type Obs struct {
	K string `json:"k"`
	A int    `json:"a"`
	B int    `json:"b"`
}

type SeqCase struct {
	Cap    int      `json:"cap"`
	Ops    []string `json:"ops"`
	Blocks bool     `json:"blocks"`
	Obs    []Obs    `json:"obs"`
}

type Mismatch struct {
	What string      `json:"what"`
	Src  string      `json:"src"`
	Exp  interface{} `json:"expected"`
	Got  interface{} `json:"got"`
	Case interface{} `json:"case"`
}

type Summary struct {
	Cases      int           `json:"cases"`
	Runs       int           `json:"runs"`
	Skipped    int           `json:"skipped_blocking"`
	NMismatch  int           `json:"n_mismatch"`
	Mismatches []Mismatch    `json:"mismatches"`
	Samples    []interface{} `json:"samples"`
}

func seqScript(c SeqCase) string {
	var b strings.Builder
	fmt.Fprintf(&b, "c = make(chan int64, %d)\nd = make(chan int64, 16)\nr = []\nv = 77\nok = nil\n", c.Cap)
	for _, o := range c.Ops {
		switch o {
		case "s1", "s2":
			fmt.Fprintf(&b, "try {\n c <- %s\n r += \"send-ok\"\n} catch e {\n r += \"send-err\"\n}\n", o[1:])
		case "c":
			b.WriteString("try {\n close(c)\n r += \"close-ok\"\n} catch e {\n r += \"close-err\"\n}\n")
		case "r":
			b.WriteString("x = (<-c)\nr += [[\"recv\", x]]\n")
		case "rk":
			b.WriteString("v, ok = <-c\nr += [[\"recvok\", v, ok]]\n")
		case "sw":
			b.WriteString("switch <-c {\ncase 5:\n r += [[\"switch\", 5]]\ncase 2:\n r += [[\"switch\", 2]]\ncase 1:\n r += [[\"switch\", 1]]\ncase nil:\n r += [[\"switch\", nil]]\ndefault:\n r += [[\"switch\", \"other\"]]\n}\n")
		case "rl":
			b.WriteString("d <- c\nr += \"relay\"\n")
		case "dl":
			b.WriteString("r += [[\"dlen\", len(d)]]\n")
		}
	}
	b.WriteString("return r\n")
	return b.String()
}

func seqExpected(c SeqCase) []interface{} {
	var out []interface{}
	for _, o := range c.Obs {
		switch o.K {
		case "send":
			if o.A == 1 {
				out = append(out, "send-ok")
			} else {
				out = append(out, "send-err")
			}
		case "close":
			if o.A == 1 {
				out = append(out, "close-ok")
			} else {
				out = append(out, "close-err")
			}
		case "recv":
			if o.B == 1 {
				out = append(out, []interface{}{"recv", int64(o.A)})
			} else {
				out = append(out, []interface{}{"recv", nil})
			}
		case "switch":
			if o.B == 1 {
				out = append(out, []interface{}{"switch", int64(o.A)})
			} else {
				out = append(out, []interface{}{"switch", nil})
			}
		case "recvok":
			out = append(out, []interface{}{"recvok", int64(o.A), o.B == 1})
		case "relay":
			out = append(out, "relay")
		case "dlen":
			out = append(out, []interface{}{"dlen", int64(o.A)})
		}
	}
	return out
}

func execute(ctx context.Context, src string, setup func(*env.Env)) (res interface{}, err error) {
	defer func() {
		if r := recover(); r != nil {
			err = fmt.Errorf("PANIC: %v", r)
		}
	}()
	e := env.NewEnv()
	if setup != nil {
		setup(e)
	}
	return vm.ExecuteContext(ctx, e, nil, src)
}

func seq(in, out string) {
	var sum Summary
	err := tlcout.Each(in, func(raw []byte) error {
		var c SeqCase
		if err := json.Unmarshal(raw, &c); err != nil {
			return err
		}
		sum.Cases++
		if c.Blocks {
			sum.Skipped++
			return nil
		}
		if sum.NMismatch >= 30 {
			return nil // enough witnesses: under a changed interpreter every further program may cost a full deadline
		}
		src := seqScript(c)
		exp := seqExpected(c)
		// once under a cancellable context (vm.ExecuteContext) and once without (vm.Execute): the program cannot block
		for _, how := range []string{"ExecuteContext", "Execute"} {
			ctx, cancel := context.WithTimeout(context.Background(), 10*time.Second)
			var got interface{}
			var err error
			if how == "Execute" {
				// without a cancellable context; a watchdog turns a run that never returns into a wrong outcome instead of a hung check
				cancel()
				cancel = func() {}
				type res struct {
					v   interface{}
					err error
				}
				done := make(chan res, 1)
				go func() { v, e := execute(context.Background(), src, nil); done <- res{v, e} }()
				select {
				case r := <-done:
					got, err = r.v, r.err
				case <-time.After(10 * time.Second):
					err = fmt.Errorf("did not return within 10 s")
				}
			} else {
				got, err = execute(ctx, src, nil)
			}
			cancel()
			sum.Runs++
			if err != nil || !reflect.DeepEqual(norm(got), norm(exp)) {
				sum.NMismatch++
				if len(sum.Mismatches) < 30 {
					g := got
					if err != nil {
						g = "error: " + err.Error()
					}
					sum.Mismatches = append(sum.Mismatches, Mismatch{What: "observations of a one-goroutine channel program run with vm." + how, Src: src, Exp: exp, Got: g, Case: c})
				}
				break
			}
		}
		if len(sum.Samples) < 2 && sum.Cases%977 == 3 {
			sum.Samples = append(sum.Samples, map[string]interface{}{"ops": c.Ops, "cap": c.Cap, "expected": exp})
		}
		return nil
	})
	if err != nil {
		fmt.Fprintln(os.Stderr, err)
		os.Exit(2)
	}
	// the capacity law of AnkoChanSeq (CapacityLaw, checked by TLC for small capacities) at scale: n sends without a receiver, close, drain in order
	for _, n := range []int{3, 1000, 65535, 65536, 65537, 70000, 300000} {
		for _, elem := range []string{"int64", "interface"} {
			src := fmt.Sprintf("c = make(chan %s, %d)\nfor i = 0; i < %d; i++ {\n c <- i\n}\nl = len(c)\nclose(c)\nk = 0\nbad = 0\nfor v in c {\n if v != k {\n  bad++\n }\n k++\n}\nreturn [l, k, bad]\n", elem, n, n)
			ctx, cancel := context.WithTimeout(context.Background(), 20*time.Second)
			got, err := execute(ctx, src, nil)
			cancel()
			sum.Cases++
			sum.Runs++
			exp := []interface{}{int64(n), int64(n), int64(0)}
			if err != nil || !reflect.DeepEqual(norm(got), norm(exp)) {
				sum.NMismatch++
				g := got
				if err != nil {
					g = "error: " + err.Error()
				}
				sum.Mismatches = append(sum.Mismatches, Mismatch{What: fmt.Sprintf("capacity law at scale: a channel made with capacity %d takes %d sends without a receiver and hands them out in order", n, n), Src: src, Exp: exp, Got: g,
					Case: SeqCase{Cap: n, Ops: []string{"scale"}}})
			}
		}
	}
	// FIFO per channel (AnkoChan's invariant) when ONE invocation works on several channels at once: a loop over one channel whose body receives from /
	// sends to others; and "converted to the channel's element type" for element types that are DEFINED scalar types
	two := []struct {
		name, src string
		exp       interface{}
	}{
		{"range-a-recv-b", "for v in a {\n w = <-b\n got += v * 100 + w\n}\ngot", []interface{}{int64(110), int64(220), int64(330)}},
		{"range-a-recvok-b", "for v in a {\n w, ok = <-b\n got += v * 100 + w\n}\ngot", []interface{}{int64(110), int64(220), int64(330)}},
		{"range-a-range-b1", "for v in a {\n for x in b1 {\n  got += x\n }\n got += v\n}\ngot", []interface{}{int64(7), int64(1), int64(2), int64(3)}},
		{"range-a-send-d-recv-b", "for v in a {\n d <- v\n w = <-b\n got += (<-d) * 100 + w\n}\ngot", []interface{}{int64(110), int64(220), int64(330)}},
		{"range-a-relay", "for v in a {\n d <- b\n got += v * 100 + (<-d)\n}\ngot", []interface{}{int64(110), int64(220), int64(330)}},
		{"recv-both-in-expr", "got += (<-a) * 100 + (<-b)\ngot += (<-b) * 100 + (<-a)\ngot", []interface{}{int64(110), int64(2002)}},
		{"range-in-func", "func f() {\n for v in a {\n  w = <-b\n  got += v * 100 + w\n }\n}\nf()\ngot", []interface{}{int64(110), int64(220), int64(330)}},
		{"switch-a-recv-b", "for i = 0; i < 3; i++ {\n switch <-a {\n case 1:\n  got += <-b\n case 2:\n  got += (<-b) + 1\n default:\n  got += -1\n }\n}\ngot", []interface{}{int64(10), int64(21), int64(-1)}},
		{"defined-elem-send-plain", "c = make(chan Level, 2)\nc <- 5\nc <- lv\nx = <-c\ny = <-c\n[levelName(x), levelName(y)]", []interface{}{"Level(5)", "Level(7)"}},
		{"defined-elem-range", "c = make(chan Level, 2)\nc <- 1\nc <- 2\nclose(c)\nfor v in c {\n got += levelName(v)\n}\ngot", []interface{}{"Level(1)", "Level(2)"}},
		{"defined-string-elem", "c = make(chan Tag, 1)\nc <- \"x\"\ntagName(<-c)", "Tag(x)"},
		{"plain-elem-send-defined", "c = make(chan int64, 1)\nc <- lv\nx = <-c\ntypeOf(x)", "int64"},
		{"defined-elem-goroutine", "c = make(chan Level)\ngo func() {\n for i = 0; i < 3; i++ {\n  c <- i\n }\n close(c)\n}()\nfor v in c {\n got += levelName(v)\n}\ngot", []interface{}{"Level(0)", "Level(1)", "Level(2)"}},
		{"duration-elem", "time = import(\"time\")\nc = make(chan time.Duration, 1)\nc <- 1500000000\ntoString(<-c)", "1.5s"},
		// channels held in struct fields, maps and lists: two values made from ONE type hold two channels; each pipeline delivers its own items
		{"struct-fields-two-values", "make(type PC, make(struct { C chan int64 }))\nx = make(PC)\ny = make(PC)\ngo func() {\n for i = 0; i < 3; i++ {\n  x.C <- i\n }\n close(x.C)\n}()\ngo func() {\n for i = 10; i < 13; i++ {\n  y.C <- i\n }\n close(y.C)\n}()\nga = []\nfor v in x.C {\n ga += v\n}\ngb = []\nfor v in y.C {\n gb += v\n}\n[ga, gb]",
			[]interface{}{[]interface{}{int64(0), int64(1), int64(2)}, []interface{}{int64(10), int64(11), int64(12)}}},
		{"struct-literal-type-twice", "x = make(struct { C chan int64 })\ny = make(struct { C chan int64 })\nz = make(struct { C chan int64 })\nx.C = make(chan int64, 1)\ny.C = make(chan int64, 1)\nz.C = make(chan int64, 1)\nx.C <- 1\ny.C <- 2\nz.C <- 3\n[<-z.C, <-y.C, <-x.C]", []interface{}{int64(3), int64(2), int64(1)}},
		{"struct-new-twice", "make(type PD, make(struct { C chan int64, N int64 }))\nx = new(PD)\ny = new(PD)\nx.C = make(chan int64, 2)\ny.C = make(chan int64, 2)\nx.C <- 1\ny.C <- 2\nx.C <- 3\nclose(x.C)\nfor v in x.C {\n got += v\n}\ngot += <-y.C\ngot", []interface{}{int64(1), int64(3), int64(2)}},
		{"chans-in-map", "m = {}\nm.p = make(chan int64, 2)\nm.q = make(chan int64, 2)\nm.p <- 1\nm.q <- 2\nm.p <- 3\n[<-m.p, <-m.q, <-m.p]", []interface{}{int64(1), int64(2), int64(3)}},
		{"chans-in-typed-slice", "cs = make([]chan int64, 0)\ncs += make(chan int64, 1)\ncs += make(chan int64, 1)\ncs[0] <- 5\ncs[1] <- 6\n[<-cs[1], <-cs[0]]", []interface{}{int64(6), int64(5)}},
	}
	for _, t := range two {
		pre := "a = make(chan int64, 3)\na <- 1\na <- 2\na <- 3\nclose(a)\nb = make(chan int64, 3)\nb <- 10\nb <- 20\nb <- 30\nb1 = make(chan int64, 1)\nb1 <- 7\nclose(b1)\nd = make(chan int64, 3)\ngot = []\n"
		ctx, cancel := context.WithTimeout(context.Background(), 10*time.Second)
		got, err := execute(ctx, pre+t.src, func(e *env.Env) {
			e.DefineType("Level", Level(0))
			e.DefineType("Tag", Tag(""))
			e.Define("lv", Level(7))
			e.Define("levelName", func(l Level) string { return fmt.Sprintf("Level(%d)", int64(l)) })
			e.Define("tagName", func(t Tag) string { return "Tag(" + string(t) + ")" })
			core.Import(e)
		})
		cancel()
		sum.Cases++
		sum.Runs++
		if err != nil || !reflect.DeepEqual(norm(got), norm(t.exp)) {
			sum.NMismatch++
			g := got
			if err != nil {
				g = "error: " + err.Error()
			}
			sum.Mismatches = append(sum.Mismatches, Mismatch{What: "one invocation working on several channels / channels of defined element types (" + t.name + ")", Src: pre + t.src, Exp: t.exp, Got: g, Case: SeqCase{Cap: 3, Ops: []string{"two:" + t.name}}})
		}
	}
	detached(&sum)
	b, _ := json.Marshal(sum)
	os.WriteFile(out, b, 0o644)
}

// detached: goroutines a script started run concurrently with their caller -- also when the caller is THROUGH: the host consumes (or feeds) afterwards, the
// way an embedding program does that asks a script for a channel, or a REPL that executes one line at a time.
func detached(sum *Summary) {
	type sc struct {
		name string
		srcs []string // executed one after the other on one environment (plain vm.Execute)
		feed []int64  // sent by the host on "inq" after the last source returned, then closed
		exp  []interface{}
	}
	scs := []sc{
		{"producer-outlives-its-caller", []string{"outq = make(chan int64)\ngo func() {\n for i = 0; i < 5; i++ {\n  outq <- i * 10\n }\n close(outq)\n}()\n1"}, nil, []interface{}{int64(0), int64(10), int64(20), int64(30), int64(40)}},
		{"pipeline-left-running", []string{"mid = make(chan int64)\noutq = make(chan int64)\ngo func() {\n for i = 1; i <= 4; i++ {\n  mid <- i\n }\n close(mid)\n}()\ngo func() {\n for v in mid {\n  outq <- v * v\n }\n close(outq)\n}()\n\"started\""}, nil,
			[]interface{}{int64(1), int64(4), int64(9), int64(16)}},
		{"consumer-fed-after-return", []string{"outq = make(chan int64)\ngo func() {\n for v in inq {\n  outq <- v * 2\n }\n close(outq)\n}()"}, []int64{1, 2, 3}, []interface{}{int64(2), int64(4), int64(6)}},
		{"one-line-at-a-time", []string{"outq = make(chan int64)", "func prod(n) {\n for i = 0; i < n; i++ {\n  outq <- i\n }\n close(outq)\n}", "go prod(3)", "x = 1"}, nil, []interface{}{int64(0), int64(1), int64(2)}},
		{"started-in-function", []string{"outq = make(chan int64, 1)\nfunc start() {\n go func() {\n  for i = 0; i < 3; i++ {\n   outq <- i + 100\n  }\n  close(outq)\n }()\n return 0\n}\nstart()"}, nil, []interface{}{int64(100), int64(101), int64(102)}},
	}
	for _, c := range scs {
		e := env.NewEnv()
		core.Import(e)
		inq := make(chan int64)
		e.Define("inq", inq)
		var err error
		for _, src := range c.srcs {
			if _, err = vm.Execute(e, nil, src); err != nil {
				break
			}
		}
		sum.Cases++
		sum.Runs++
		var got []interface{}
		what := ""
		if err != nil {
			what = "error: " + err.Error()
		} else {
			time.Sleep(2 * time.Millisecond) // the caller has been through for a while
			if c.feed != nil {
				go func() {
					for _, v := range c.feed {
						select {
						case inq <- v:
						case <-time.After(3 * time.Second):
							return
						}
					}
					close(inq)
				}()
			}
			o, _ := e.Get("outq")
			outq, _ := o.(chan int64)
			deadline := time.After(5 * time.Second)
		recv:
			for outq != nil {
				select {
				case v, ok := <-outq:
					if !ok {
						break recv
					}
					got = append(got, v)
				case <-deadline:
					what = "the goroutines the script started stopped delivering after their caller had returned"
					break recv
				}
			}
		}
		if what != "" || !reflect.DeepEqual(norm(got), norm(c.exp)) {
			sum.NMismatch++
			var g interface{} = got
			if what != "" {
				g = fmt.Sprintf("%v (%s)", got, what)
			}
			sum.Mismatches = append(sum.Mismatches, Mismatch{What: "goroutines that outlive the call that started them (" + c.name + ")", Src: strings.Join(c.srcs, "\n---\n"), Exp: c.exp, Got: g, Case: SeqCase{Cap: 0, Ops: []string{"detached:" + c.name}}})
		}
	}
}

// defined scalar types as channel element types
type Level int64
type Tag string

func norm(x interface{}) interface{} {
	b, _ := json.Marshal(x)
	var y interface{}
	json.Unmarshal(b, &y)
	return y
}

// ---------------------------------------------------------------- pipelines

type PipeCfg struct {
	NS       int    `json:"ns"`
	Cap      int    `json:"cap"`
	Items    []int  `json:"items"`
	Expected []int  `json:"expected"`
	Mode     string `json:"mode"`   // range | recvexpr | recvok
	Elem     string `json:"elem"`   // int64 | float64 | interface | string
	GoArgs   bool   `json:"goargs"` // stage input channel handed over as a go-call argument evaluated from a channel receive
	Shape    string `json:"shape"`  // how the shared stage function takes its arguments: "" (3 parameters) | "fn5" (5 parameters) | "fnvar" (variadic)
}

// fanScript: NS workers range over one shared input channel (spec/AnkoChanFan.tla)
func fanScript(c PipeCfg) string {
	var b strings.Builder
	items := make([]string, len(c.Items))
	for i, v := range c.Items {
		items[i] = strconv.Itoa(v)
	}
	fmt.Fprintf(&b, "cin = make(chan %s, %d)\ncout = make(chan %s, %d)\ndone = make(chan int64, %d)\n", c.Elem, c.Cap, c.Elem, c.Cap, c.NS)
	b.WriteString("worker = func() {\n for v in cin {\n  cout <- v + 10\n }\n done <- 1\n}\n")
	fmt.Fprintf(&b, "for i = 0; i < %d; i++ {\n go worker()\n}\n", c.NS)
	fmt.Fprintf(&b, "go func() {\n for v in [%s] {\n  cin <- v\n }\n close(cin)\n}()\n", strings.Join(items, ", "))
	fmt.Fprintf(&b, "go func() {\n for i = 0; i < %d; i++ {\n  <-done\n }\n close(cout)\n}()\n", c.NS)
	b.WriteString("res = []\nfor v in cout {\n res += v\n}\nreturn res\n")
	return b.String()
}

func pipeScript(c PipeCfg) string {
	if c.Shape == "fan" {
		return fanScript(c)
	}
	var b strings.Builder
	for k := 0; k <= c.NS; k++ {
		fmt.Fprintf(&b, "c%d = make(chan %s, %d)\n", k, c.Elem, c.Cap)
	}
	items := make([]string, len(c.Items))
	for i, v := range c.Items {
		items[i] = strconv.Itoa(v)
	}
	fmt.Fprintf(&b, "producer = func() {\n for v in [%s] {\n  c0 <- v\n }\n close(c0)\n}\n", strings.Join(items, ", "))
	switch c.Shape {
	case "fn4spread":
		// the arguments are a list spread over the four parameters at the go statement; the spawner overwrites the list's elements afterwards
		b.WriteString("stage = func(inch, outch, incv, tag) {\n for v in inch {\n  outch <- v + incv\n }\n close(outch)\n}\n")
	case "fn4elem":
		// the increment is read from a list element at the go statement; the spawner overwrites that element afterwards
		b.WriteString("inc = [10]\nstage = func(inch, outch, incv, tag) {\n for v in inch {\n  outch <- v + incv\n }\n close(outch)\n}\n")
	case "goanon":
		// the stage is a function literal started by a go statement inside a helper: every call of the helper starts ITS closure
		b.WriteString("spawn = func(inch, outch) {\n go func() {\n  for v in inch {\n   outch <- v + 10\n  }\n  close(outch)\n }()\n}\n")
	case "fnvarspread":
		b.WriteString("stage = func(tag, rest...) {\n for v in rest[0] {\n  rest[1] <- v + rest[2]\n }\n close(rest[1])\n}\n")
	case "fn5":
		b.WriteString("stage = func(tag, inch, outch, inc, zero) {\n for v in inch {\n  outch <- v + inc + zero\n }\n close(outch)\n}\n")
	case "fnvar":
		b.WriteString("stage = func(tag, rest...) {\n for v in rest[0] {\n  rest[1] <- v + rest[2]\n }\n close(rest[1])\n}\n")
	default:
		b.WriteString("stage = func(tag, inch, outch) {\n for v in inch {\n  outch <- v + 10\n }\n close(outch)\n}\n")
	}
	if c.Shape == "fn4elem" {
		for k := 1; k <= c.NS; k++ {
			fmt.Fprintf(&b, "go stage(c%d, c%d, inc[0], %d)\n", k-1, k, k)
		}
		b.WriteString("inc[0] = -1000\n")
	} else if c.Shape == "fn4spread" {
		for k := 1; k <= c.NS; k++ {
			fmt.Fprintf(&b, "a%d = [c%d, c%d, 10, %d]\ngo stage(a%d...)\na%d[2] = -1000\na%d[1] = nil\n", k, k-1, k, k, k, k, k)
		}
	} else if c.Shape == "fnvarspread" {
		// go on a variadic function with a spread list: every element arrives as its own argument
		for k := 1; k <= c.NS; k++ {
			fmt.Fprintf(&b, "go stage(%d, [c%d, c%d, 10]...)\n", k, k-1, k)
		}
	} else if c.Shape == "goanon" {
		for k := 1; k <= c.NS; k++ {
			fmt.Fprintf(&b, "spawn(c%d, c%d)\n", k-1, k)
		}
	} else if c.Shape == "fn5" || c.Shape == "fnvar" {
		for k := 1; k <= c.NS; k++ {
			tag := strconv.Itoa(k)
			if c.GoArgs {
				// operands of a go call on the reflect call path (5 parameters / variadic): evaluated once, by the go statement, in order
				tag = fmt.Sprintf("pv(%d, %d)", 100+k, k)
			}
			if c.Shape == "fn5" {
				fmt.Fprintf(&b, "go stage(%s, c%d, c%d, 10, 0)\n", tag, k-1, k)
			} else {
				fmt.Fprintf(&b, "go stage(%s, c%d, c%d, 10)\n", tag, k-1, k)
			}
		}
		if c.GoArgs {
			b.WriteString("p(200)\n")
		}
	} else if c.GoArgs {
		// the go call's arguments come from probe calls: they must be evaluated exactly once, before the goroutine starts
		for k := 1; k <= c.NS; k++ {
			fmt.Fprintf(&b, "go stage(pv(%d, %d), c%d, c%d)\n", 100+k, k, k-1, k)
		}
		b.WriteString("p(200)\n")
	} else {
		for k := 1; k <= c.NS; k++ {
			fmt.Fprintf(&b, "go stage(%d, c%d, c%d)\n", k, k-1, k)
		}
	}
	b.WriteString("go producer()\nres = []\n")
	last := fmt.Sprintf("c%d", c.NS)
	switch c.Mode {
	case "range":
		fmt.Fprintf(&b, "for v in %s {\n res += v\n}\n", last)
	case "recvexpr":
		fmt.Fprintf(&b, "for {\n v = (<-%s)\n if v == nil {\n  break\n }\n res += v\n}\n", last)
	case "recvokout":
		// the two-value receive sits in a function literal and a nested block; its targets live in the enclosing scope: they are UPDATED there
		// (after the channel is closed and drained: ok false, the value variable untouched)
		fmt.Fprintf(&b, "v = nil\nok = true\ndrain = func() {\n for {\n  if true {\n   v, ok = <-%s\n  }\n  if !ok {\n   break\n  }\n  res += v\n }\n}\ndrain()\nres += [v ?? -1, ok]\n", last)
	case "recvok":
		fmt.Fprintf(&b, "v = nil\nfor {\n v, ok = <-%s\n if !ok {\n  break\n }\n res += v\n}\n", last)
	}
	b.WriteString("return res\n")
	return b.String()
}

func conv(elem string, v int) interface{} {
	switch elem {
	case "float64":
		return float64(v)
	}
	return int64(v)
}

var perturb int64 // seed-derived counter driving the schedule perturbation in the hook

func pipe(in, out string, reps int, seed int64) {
	var sum Summary
	rng := rand.New(rand.NewSource(seed))
	var hookN uint64
	vm.VerifHook = func(ev vm.VerifEvent) {
		if ev.Kind != "Poll" && ev.Kind != "Spawn" && ev.Kind != "FuncEnter" {
			return
		}
		n := atomic.AddUint64(&hookN, 1)
		x := (n*2654435761 + uint64(atomic.LoadInt64(&perturb))) % 16
		switch {
		case x < 5:
			runtime.Gosched()
		case x == 5:
			time.Sleep(time.Microsecond * 50)
		}
	}
	f, err := os.Open(in)
	if err != nil {
		fmt.Fprintln(os.Stderr, err)
		os.Exit(2)
	}
	sc := bufio.NewScanner(f)
	sc.Buffer(make([]byte, 1<<20), 1<<24)
	procs := []int{1, 2, 4, 16}
	for sc.Scan() {
		var c PipeCfg
		if err := json.Unmarshal(sc.Bytes(), &c); err != nil {
			fmt.Fprintln(os.Stderr, err)
			os.Exit(2)
		}
		sum.Cases++
		src := pipeScript(c)
		exp := make([]interface{}, len(c.Expected))
		for i, v := range c.Expected {
			exp[i] = conv(c.Elem, v)
		}
		if c.Mode == "recvokout" {
			if len(exp) > 0 {
				exp = append(exp, exp[len(exp)-1], false)
			} else {
				exp = append(exp, int64(-1), false)
			}
		}
		var expLog []interface{}
		if c.GoArgs {
			for k := 1; k <= c.NS; k++ {
				expLog = append(expLog, int64(100+k))
			}
			expLog = append(expLog, int64(200))
		}
		bad := false
		for r := 0; r < reps && !bad; r++ {
			runtime.GOMAXPROCS(procs[(r+sum.Cases)%len(procs)])
			atomic.StoreInt64(&perturb, rng.Int63())
			var mu sync.Mutex
			var log []interface{}
			setup := func(e *env.Env) {
				e.Define("p", func(x interface{}) interface{} { mu.Lock(); log = append(log, x); mu.Unlock(); return x })
				e.Define("pv", func(id, v interface{}) interface{} { mu.Lock(); log = append(log, id); mu.Unlock(); return v })
			}
			ctx, cancel := context.WithTimeout(context.Background(), 15*time.Second)
			got, err := execute(ctx, src, setup)
			cancel()
			sum.Runs++
			what := ""
			switch {
			case err != nil && strings.Contains(err.Error(), "interrupted"):
				what = "pipeline did not finish within 15 s (deadlock or lost message)"
			case err != nil:
				what = "pipeline failed: " + err.Error()
			case c.Shape == "fan" && sameBag(got, exp):
				// several workers: any order, but every item exactly once
			case !reflect.DeepEqual(norm(got), norm(exp)) || fmt.Sprintf("%T", firstOf(got)) != fmt.Sprintf("%T", firstOf(exp)):
				what = "collected sequence"
			default:
				mu.Lock()
				if c.GoArgs && !reflect.DeepEqual(norm(log), norm(expLog)) {
					what = "go call arguments were not evaluated exactly once, in order, before the goroutines ran"
					got = log
				}
				mu.Unlock()
			}
			if what != "" {
				bad = true
				sum.NMismatch++
				if len(sum.Mismatches) < 30 {
					g := got
					if err != nil {
						g = "error: " + err.Error()
					}
					sum.Mismatches = append(sum.Mismatches, Mismatch{What: what, Src: src, Exp: map[string]interface{}{"result": exp, "log": expLog}, Got: g, Case: c})
				}
			}
		}
		if len(sum.Samples) < 2 && sum.Cases%37 == 5 {
			sum.Samples = append(sum.Samples, map[string]interface{}{"config": c, "script": src, "expected": exp})
		}
	}
	runtime.GOMAXPROCS(runtime.NumCPU())
	b, _ := json.Marshal(sum)
	os.WriteFile(out, b, 0o644)
}

func sameBag(got interface{}, exp []interface{}) bool {
	l, ok := got.([]interface{})
	if !ok || len(l) != len(exp) {
		return false
	}
	a, b := []string{}, []string{}
	for i := range l {
		a = append(a, fmt.Sprintf("%T:%v", l[i], l[i]))
		b = append(b, fmt.Sprintf("%T:%v", exp[i], exp[i]))
	}
	sort.Strings(a)
	sort.Strings(b)
	return reflect.DeepEqual(a, b)
}

func firstOf(x interface{}) interface{} {
	if l, ok := x.([]interface{}); ok && len(l) > 0 {
		return l[0]
	}
	return nil
}

func main() {
	if len(os.Args) >= 4 && os.Args[1] == "seq" {
		seq(os.Args[2], os.Args[3])
		return
	}
	if len(os.Args) >= 6 && os.Args[1] == "pipe" {
		reps, _ := strconv.Atoi(os.Args[4])
		seed, _ := strconv.ParseInt(os.Args[5], 10, 64)
		pipe(os.Args[2], os.Args[3], reps, seed)
		return
	}
	fmt.Fprintln(os.Stderr, "usage: chanharness seq <tlc.out> <result.json> | pipe <configs.ndjson> <result.json> <reps> <seed>")
	os.Exit(2)
}
