// Package vmrun executes programs on the real interpreter and projects what the properties observe:
// outcome class, result value, probe log, top-level bindings, and a structural digest of the tree.
package vmrun

import (
	"context"
	"encoding/json"
	"fmt"
	"hash/fnv"
	"io"
	"reflect"
	"sort"
	"strconv"
	"sync"
	"time"

	"github.com/mattn/anko/ast"
	"github.com/mattn/anko/env"
	_ "github.com/mattn/anko/packages"
	"github.com/mattn/anko/parser"
	"github.com/mattn/anko/vm"
)

// V is the uniformly shaped value record of spec/AnkoSem.tla.
type V struct {
	T string `json:"t"`
	I int64  `json:"i"`
	S string `json:"s"`
	L []V    `json:"l"`
}

type Obs struct {
	Cls  string       `json:"cls"`
	V    V            `json:"v"`
	Log  []V          `json:"log"`
	Top  map[string]V `json:"top"`
	Open bool         `json:"open,omitempty"`
}

func Proj(x interface{}) V {
	return projDepth(reflect.ValueOf(x), 0)
}

func projDepth(rv reflect.Value, d int) V {
	if !rv.IsValid() {
		return V{T: "nil", L: []V{}}
	}
	for rv.Kind() == reflect.Interface {
		if rv.IsNil() {
			return V{T: "nil", L: []V{}}
		}
		rv = rv.Elem()
	}
	if d > 8 {
		return V{T: "deep", L: []V{}}
	}
	switch rv.Kind() {
	case reflect.Int64, reflect.Int, reflect.Int32, reflect.Int16, reflect.Int8:
		t := "int"
		if rv.Kind() != reflect.Int64 {
			t = rv.Kind().String()
		}
		return V{T: t, I: rv.Int(), L: []V{}}
	case reflect.Float64:
		return V{T: "flt", S: strconv.FormatFloat(rv.Float(), 'g', -1, 64), L: []V{}}
	case reflect.String:
		return V{T: "str", S: rv.String(), L: []V{}}
	case reflect.Bool:
		if rv.Bool() {
			return V{T: "bool", I: 1, L: []V{}}
		}
		return V{T: "bool", L: []V{}}
	case reflect.Slice, reflect.Array:
		if rv.Kind() == reflect.Slice && rv.Type() != reflect.TypeOf([]interface{}{}) && rv.Type() != reflect.TypeOf([]int64{}) {
			return V{T: "typedslice", S: rv.Type().String(), L: []V{}}
		}
		l := make([]V, rv.Len())
		for i := range l {
			l[i] = projDepth(rv.Index(i), d+1)
		}
		return V{T: "list", L: l}
	case reflect.Map:
		// the typed literals of the reference semantics ([]int64, map[string]int64, map[string]interface{}) are lists / maps of their elements
		if rv.Type() != reflect.TypeOf(map[interface{}]interface{}{}) && rv.Type() != reflect.TypeOf(map[string]int64{}) && rv.Type() != reflect.TypeOf(map[string]interface{}{}) {
			return V{T: "typedmap", S: rv.Type().String(), L: []V{}}
		}
		l := []V{}
		for _, k := range rv.MapKeys() {
			l = append(l, V{T: "list", L: []V{projDepth(k, d+1), projDepth(rv.MapIndex(k), d+1)}})
		}
		sortVs(l)
		return V{T: "map", L: l}
	case reflect.Func:
		return V{T: "func", L: []V{}}
	case reflect.Ptr:
		if e, ok := rv.Interface().(*env.Env); ok && e != nil {
			return V{T: "mod", L: []V{}}
		}
		if e, ok := rv.Interface().(*vm.Error); ok && e != nil {
			return V{T: "err", S: e.Message, L: []V{}}
		}
		if rv.IsNil() {
			return V{T: "nil", L: []V{}}
		}
		if e, ok := rv.Interface().(error); ok {
			return V{T: "err", S: e.Error(), L: []V{}}
		}
		return V{T: "ptr", S: rv.Type().String(), L: []V{}}
	}
	if e, ok := rv.Interface().(error); ok {
		return V{T: "err", S: e.Error(), L: []V{}}
	}
	return V{T: "other", S: rv.Type().String(), L: []V{}}
}

func sortVs(l []V) {
	sort.Slice(l, func(i, j int) bool {
		a, _ := json.Marshal(l[i])
		b, _ := json.Marshal(l[j])
		return string(a) < string(b)
	})
}

// Match reports whether the observed value is what the specification demands (exp may contain open parts).
func Match(exp, got V) bool {
	switch exp.T {
	case "open":
		return true
	case "err":
		if got.T != "err" {
			return false
		}
		if exp.I == 1 { // runtime error: class only
			return true
		}
		return exp.S == got.S
	case "func", "mod", "host":
		return got.T == "func" && exp.T != "mod" || got.T == "mod" && exp.T == "mod"
	case "map":
		if got.T != "map" || len(exp.L) != len(got.L) {
			return false
		}
		e := append([]V{}, exp.L...)
		sortVs(e)
		for i := range e {
			if !Match(e[i], got.L[i]) {
				return false
			}
		}
		return true
	}
	if exp.T != got.T || exp.I != got.I || exp.S != got.S || len(exp.L) != len(got.L) {
		return false
	}
	for i := range exp.L {
		if !Match(exp.L[i], got.L[i]) {
			return false
		}
	}
	return true
}

type ctxKey struct{}

// RunID returns the run identifier stored in ctx by Run (0 if none).
func RunID(ctx context.Context) int64 {
	if ctx == nil {
		return 0
	}
	id, _ := ctx.Value(ctxKey{}).(int64)
	return id
}

var (
	runSeq   int64
	runSeqMu sync.Mutex
)

func nextRunID() int64 {
	runSeqMu.Lock()
	defer runSeqMu.Unlock()
	runSeq++
	return runSeq
}

// Setup is called with the fresh environment before the run (to bind extra host values).
type Setup func(e *env.Env)

// InnerScope, when set, may return the scope (a descendant of the prepared environment) the run is to take place in.
var InnerScope func(ctx context.Context, e *env.Env) *env.Env

// Run executes a parsed tree once on a fresh environment with the host probes p, pv, pn bound.
func Run(ctx context.Context, stmt ast.Stmt, setup Setup) (obs Obs, id int64) {
	id = nextRunID()
	ctx = context.WithValue(ctx, ctxKey{}, id)
	// the programs of the families terminate; under a changed interpreter one may not: it is then interrupted and shows as a wrong outcome
	ctx, cancelRun := context.WithTimeout(ctx, 10*time.Second)
	defer cancelRun()
	e := env.NewEnv()
	var mu sync.Mutex
	log := []V{}
	add := func(x interface{}) {
		v := Proj(x)
		mu.Lock()
		log = append(log, v)
		mu.Unlock()
	}
	e.Define("p", func(x interface{}) interface{} { add(x); return x })
	e.Define("pv", func(id, v interface{}) interface{} { add(id); return v })
	e.Define("pn", func(xs ...interface{}) interface{} {
		l := make([]interface{}, len(xs))
		copy(l, xs)
		add(l)
		return nil
	})
	e.Define("pp", func(x interface{}) interface{} { add(x); panic("host function panics") })
	e.Define("pt", func(a int64, b interface{}, c int64) interface{} { add([]interface{}{a, b, c}); return nil }) // typed parameters: arguments are converted
	e.Define("pa", func(ptr interface{}) interface{} { add(int64(77)); return nil })
	e.Define("ch", func(xs []interface{}) interface{} { // a closed, buffered channel holding the elements of a list
		c := make(chan interface{}, len(xs)+1)
		for _, x := range xs {
			c <- x
		}
		close(c)
		return c
	})
	e.Define("pe", func(cb func(int64)) { cb(1); cb(2) }) // a callback type without results
	e.Define("harr", [3]int64{1, 2, 3})                   // an unaddressable Go array: slicing it panics inside reflect
	e.Define("hnm", map[string]int64(nil))                // nil containers of concrete Go types: an empty map and an empty list to a script
	e.Define("hnl", []int64(nil))
	if setup != nil {
		setup(e)
	}
	if InnerScope != nil {
		// the script runs in a scope NESTED in the one the host bound its values in (and prepared by the hook, e.g. with an external lookup)
		if in := InnerScope(ctx, e); in != nil {
			e = in
		}
	}
	res, err := runRecover(ctx, e, stmt)
	obs = Obs{Top: map[string]V{}}
	switch {
	case err == nil:
		obs.Cls = "ok"
		obs.V = Proj(res)
	case err == vm.ErrBreak || err == vm.ErrContinue:
		obs.Cls = "strayloopctl"
		obs.V = V{T: "open", L: []V{}}
	default:
		obs.Cls = "err"
		if pe, ok := err.(*panicErr); ok {
			obs.Cls = "panic"
			obs.V = V{T: "err", S: pe.Error(), L: []V{}}
		} else {
			obs.V = V{T: "err", S: err.Error(), L: []V{}}
		}
	}
	mu.Lock()
	obs.Log = log
	mu.Unlock()
	for _, s := range e.GetValueSymbols() {
		if s == "p" || s == "pv" || s == "pn" || s == "pa" || s == "pp" || s == "ch" || s == "pe" || s == "pt" || s == "harr" || s == "hnm" || s == "hnl" {
			continue
		}
		v, gerr := e.Get(s)
		if gerr == nil {
			obs.Top[s] = Proj(v)
		}
	}
	return obs, id
}

type panicErr struct{ v interface{} }

func (p *panicErr) Error() string { return fmt.Sprint("PANIC: ", p.v) }

func runRecover(ctx context.Context, e *env.Env, stmt ast.Stmt) (res interface{}, err error) {
	defer func() {
		if r := recover(); r != nil {
			err = &panicErr{r}
		}
	}()
	return vm.RunContext(ctx, e, sharedOptions, stmt)
}

// every run of the process is handed the SAME non-nil options value (all defaults, i.e. what nil means): options are configuration, not a place
// where runs meet
var sharedOptions = &vm.Options{}

// SameObs compares two observations of the same program (run k versus run 1).
func SameObs(a, b Obs, unordered bool) bool {
	if a.Cls != b.Cls {
		return false
	}
	x, _ := json.Marshal(a.V)
	y, _ := json.Marshal(b.V)
	if string(x) != string(y) && a.V.T != "err" {
		return false
	}
	la, lb := a.Log, b.Log
	if unordered {
		la, lb = append([]V{}, la...), append([]V{}, lb...)
		sortVs(la)
		sortVs(lb)
	}
	x, _ = json.Marshal(la)
	y, _ = json.Marshal(lb)
	if string(x) != string(y) {
		return false
	}
	x, _ = json.Marshal(a.Top)
	y, _ = json.Marshal(b.Top)
	return string(x) == string(y)
}

// ---------------------------------------------------------------- structural digest of a tree

// Digest hashes every field of every node reachable from the statement, including the run-time
// slots stored in the tree (reflect.Value payloads of call and literal nodes).
func Digest(s ast.Stmt) uint64 {
	h := fnv.New64a()
	dig(reflect.ValueOf(s), h, 0)
	return h.Sum64()
}

var rvType = reflect.TypeOf(reflect.Value{})

func dig(v reflect.Value, w io.Writer, d int) {
	if d > 200 {
		io.WriteString(w, "<deep>")
		return
	}
	if !v.IsValid() {
		io.WriteString(w, "<invalid>")
		return
	}
	if v.Type() == rvType {
		if v.CanInterface() {
			inner := v.Interface().(reflect.Value)
			digPayload(inner, w)
		} else {
			io.WriteString(w, "<rv:unexported>")
		}
		return
	}
	switch v.Kind() {
	case reflect.Ptr, reflect.Interface:
		if v.IsNil() {
			io.WriteString(w, "<nil>")
			return
		}
		io.WriteString(w, v.Elem().Type().String()+"{")
		dig(v.Elem(), w, d+1)
		io.WriteString(w, "}")
	case reflect.Struct:
		for i := 0; i < v.NumField(); i++ {
			io.WriteString(w, v.Type().Field(i).Name+":")
			dig(v.Field(i), w, d+1)
			io.WriteString(w, ";")
		}
	case reflect.Slice, reflect.Array:
		if v.Kind() == reflect.Slice && v.IsNil() {
			io.WriteString(w, "<nilslice>")
			return
		}
		fmt.Fprintf(w, "[%d:", v.Len())
		for i := 0; i < v.Len(); i++ {
			dig(v.Index(i), w, d+1)
			io.WriteString(w, ",")
		}
		io.WriteString(w, "]")
		if v.Kind() == reflect.Slice && v.Cap() > v.Len() && v.CanInterface() {
			// the spare capacity belongs to the tree as well: an append onto a slice of the tree lands there
			full := v.Slice3(0, v.Cap(), v.Cap())
			io.WriteString(w, "+spare[")
			for i := v.Len(); i < full.Len(); i++ {
				dig(full.Index(i), w, d+1)
				io.WriteString(w, ",")
			}
			io.WriteString(w, "]")
		}
	case reflect.String:
		fmt.Fprintf(w, "%q", v.String())
	case reflect.Int, reflect.Int8, reflect.Int16, reflect.Int32, reflect.Int64:
		fmt.Fprintf(w, "%d", v.Int())
	case reflect.Uint, reflect.Uint8, reflect.Uint16, reflect.Uint32, reflect.Uint64:
		fmt.Fprintf(w, "%d", v.Uint())
	case reflect.Bool:
		fmt.Fprintf(w, "%v", v.Bool())
	case reflect.Float64, reflect.Float32:
		fmt.Fprintf(w, "%b", v.Float())
	case reflect.Map:
		fmt.Fprintf(w, "map[%d]", v.Len())
	case reflect.Func:
		if v.IsNil() {
			io.WriteString(w, "<nilfunc>")
		} else {
			fmt.Fprintf(w, "func@%x", v.Pointer())
		}
	default:
		io.WriteString(w, "<"+v.Kind().String()+">")
	}
}

func digPayload(v reflect.Value, w io.Writer) {
	if !v.IsValid() {
		io.WriteString(w, "rv<invalid>")
		return
	}
	fmt.Fprintf(w, "rv<%s:", v.Type().String())
	x := v
	for x.Kind() == reflect.Interface && !x.IsNil() {
		x = x.Elem()
	}
	switch x.Kind() {
	case reflect.Int64, reflect.Int:
		fmt.Fprintf(w, "%d", x.Int())
	case reflect.Float64:
		fmt.Fprintf(w, "%b", x.Float())
	case reflect.String:
		fmt.Fprintf(w, "%q", x.String())
	case reflect.Bool:
		fmt.Fprintf(w, "%v", x.Bool())
	case reflect.Func:
		if x.IsNil() {
			io.WriteString(w, "nilfunc")
		} else {
			fmt.Fprintf(w, "func@%x", x.Pointer())
		}
	case reflect.Interface:
		io.WriteString(w, "nil")
	default:
		io.WriteString(w, x.Kind().String())
	}
	if v.CanAddr() {
		io.WriteString(w, ":addressable")
	}
	io.WriteString(w, ">")
}

// PackagesDigest hashes the process-wide package tables that `import` copies from.
func PackagesDigest() uint64 {
	h := fnv.New64a()
	var pk []string
	for p := range env.Packages {
		pk = append(pk, p)
	}
	sort.Strings(pk)
	for _, p := range pk {
		var ns []string
		for n := range env.Packages[p] {
			ns = append(ns, n)
		}
		sort.Strings(ns)
		for _, n := range ns {
			v := env.Packages[p][n]
			fmt.Fprintf(h, "%s.%s:%s", p, n, v.Type().String())
			if v.Kind() == reflect.Func {
				fmt.Fprintf(h, "@%x", v.Pointer())
			}
		}
	}
	pk = pk[:0]
	for p := range env.PackageTypes {
		pk = append(pk, p)
	}
	sort.Strings(pk)
	for _, p := range pk {
		var ns []string
		for n := range env.PackageTypes[p] {
			ns = append(ns, n)
		}
		sort.Strings(ns)
		for _, n := range ns {
			fmt.Fprintf(h, "%s.%s:%s", p, n, env.PackageTypes[p][n].String())
		}
	}
	return h.Sum64()
}

// RunSrc parses and runs src in a fresh environment (with the host probes); grab receives that environment.
func RunSrc(grab func(e *env.Env), src string) (Obs, error) {
	var o Obs
	if src == "" {
		src = "nil"
	}
	stmt, err := parser.ParseSrc(src)
	if err != nil {
		return Obs{Cls: "parse", V: V{T: "err", S: err.Error(), L: []V{}}, Top: map[string]V{}}, err
	}
	o, _ = Run(context.Background(), stmt, func(e *env.Env) { grab(e) })
	return o, nil
}

// RunIn parses and runs src in the given environment; only class and value are observed.
func RunIn(e *env.Env, src string) Obs {
	o := Obs{Top: map[string]V{}, Log: []V{}}
	stmt, err := parser.ParseSrc(src)
	if err != nil {
		o.Cls, o.V = "parse", V{T: "err", S: err.Error(), L: []V{}}
		return o
	}
	ctx, cancelRun := context.WithTimeout(context.Background(), 10*time.Second)
	defer cancelRun()
	res, err := runRecover(ctx, e, stmt)
	if err != nil {
		o.Cls, o.V = "err", V{T: "err", S: err.Error(), L: []V{}}
		return o
	}
	o.Cls, o.V = "ok", Proj(res)
	return o
}
