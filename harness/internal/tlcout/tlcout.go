// Package tlcout reads the JSON payloads TLC prints with PrintT(ToJson(x)):
// each is one line holding a JSON-quoted string whose content is JSON again.
package tlcout

import (
	"bufio"
	"encoding/json"
	"io"
	"os"
)

// Each calls f with the decoded inner JSON text of every emitted line of the file.
func Each(path string, f func(raw []byte) error) error {
	fh, err := os.Open(path)
	if err != nil {
		return err
	}
	defer fh.Close()
	rd := bufio.NewReaderSize(fh, 1<<20)
	for {
		line, err := rd.ReadBytes('\n')
		if len(line) > 1 && line[0] == '"' && (line[1] == '{' || line[1] == '[') {
			var inner string
			if e := json.Unmarshal(trim(line), &inner); e == nil {
				if e := f([]byte(inner)); e != nil {
					return e
				}
			}
		}
		if err == io.EOF {
			return nil
		}
		if err != nil {
			return err
		}
	}
}

func trim(b []byte) []byte {
	for len(b) > 0 && (b[len(b)-1] == '\n' || b[len(b)-1] == '\r') {
		b = b[:len(b)-1]
	}
	return b
}
