// Package astjson converts between the JSON program form shared with the TLA+ specification
// (spec/AnkoSem.tla: records with a kind field "k") and anko source / the real parser's tree.
//
// Render is the only place concrete syntax is produced.  Encode re-derives the JSON form from the
// tree the real parser built for that source, so every case self-checks the renderer:
// Encode(Parse(Render(p))) must equal p (parentheses dropped).
package astjson

import (
	"fmt"
	"reflect"
	"strconv"
	"strings"

	"github.com/mattn/anko/ast"
)

type N = map[string]interface{}

func str(n N, k string) string {
	s, _ := n[k].(string)
	return s
}
func num(n N, k string) int64 {
	switch x := n[k].(type) {
	case float64:
		return int64(x)
	case int64:
		return x
	case int:
		return int64(x)
	}
	return 0
}
func boolean(n N, k string) bool {
	b, _ := n[k].(bool)
	return b
}
func list(n N, k string) []interface{} {
	l, _ := n[k].([]interface{})
	return l
}
func node(x interface{}) N {
	m, _ := x.(map[string]interface{})
	return m
}

// ---------------------------------------------------------------- render

type renderer struct {
	b   strings.Builder
	ind int
}

func Render(prog []interface{}) string {
	r := &renderer{}
	r.stmts(prog)
	return r.b.String()
}

func (r *renderer) line(s string) {
	r.b.WriteString(strings.Repeat("  ", r.ind))
	r.b.WriteString(s)
	r.b.WriteString("\n")
}

func (r *renderer) stmts(ss []interface{}) {
	for _, s := range ss {
		r.stmt(node(s))
	}
}

func (r *renderer) block(head string, ss []interface{}) {
	r.line(head + " {")
	r.ind++
	r.stmts(ss)
	r.ind--
}

func exprs(es []interface{}) string {
	var p []string
	for _, e := range es {
		p = append(p, Expr(node(e)))
	}
	return strings.Join(p, ", ")
}

func (r *renderer) stmt(n N) {
	switch str(n, "k") {
	case "expr":
		e := node(n["e"])
		if str(e, "k") == "fn" {
			r.fn(e, "")
			return
		}
		r.line(Expr(e))
	case "break":
		r.line("break")
	case "continue":
		r.line("continue")
	case "return":
		if len(list(n, "es")) == 0 {
			r.line("return")
		} else {
			r.line("return " + exprs(list(n, "es")))
		}
	case "throw":
		r.line("throw " + Expr(node(n["e"])))
	case "let":
		r.line(exprs(list(n, "lhs")) + " = " + exprs(list(n, "rhs")))
	case "letmi":
		r.line(exprs(list(n, "lhs")) + " = " + Expr(node(n["rhs"])))
	case "var":
		var names []string
		for _, x := range list(n, "names") {
			names = append(names, x.(string))
		}
		r.line("var " + strings.Join(names, ", ") + " = " + exprs(list(n, "rhs")))
	case "if":
		r.block("if "+cond(node(n["c"])), list(n, "then"))
		for _, ei := range list(n, "elifs") {
			e := node(ei)
			r.block("} else if "+cond(node(e["c"])), list(e, "b"))
		}
		if els := list(n, "els"); len(els) == 1 {
			r.block("} else", els[0].([]interface{}))
		}
		r.line("}")
	case "loop":
		r.block("for", list(n, "b"))
		r.line("}")
	case "while":
		r.block("for "+cond(node(n["c"])), list(n, "b"))
		r.line("}")
	case "cfor":
		h := "for "
		if in := list(n, "init"); len(in) == 1 {
			h += stmtInline(node(in[0]))
		}
		h += "; "
		if c := list(n, "c"); len(c) == 1 {
			h += cond(node(c[0]))
		}
		h += "; "
		if p := list(n, "post"); len(p) == 1 {
			h += Expr(node(p[0]))
		}
		r.block(strings.TrimRight(h, " "), list(n, "b"))
		r.line("}")
	case "forin":
		var vs []string
		for _, x := range list(n, "vs") {
			vs = append(vs, x.(string))
		}
		r.block("for "+strings.Join(vs, ", ")+" in "+Expr(node(n["e"])), list(n, "b"))
		r.line("}")
	case "switch":
		r.line("switch " + cond(node(n["e"])) + " {")
		for _, ci := range list(n, "cases") {
			c := node(ci)
			r.line("case " + exprs(list(c, "es")) + ":")
			r.ind++
			r.stmts(list(c, "b"))
			r.ind--
		}
		if d := list(n, "d"); len(d) == 1 {
			r.line("default:")
			r.ind++
			r.stmts(d[0].([]interface{}))
			r.ind--
		}
		r.line("}")
	case "try":
		r.block("try", list(n, "b"))
		h := "} catch"
		if cv := str(n, "cv"); cv != "" {
			h += " " + cv
		}
		r.block(h, list(n, "c"))
		if f := list(n, "f"); len(f) == 1 {
			r.block("} finally", f[0].([]interface{}))
		}
		r.line("}")
	case "module":
		r.block("module "+str(n, "n"), list(n, "b"))
		r.line("}")
	case "defer":
		r.line("defer " + Expr(node(n["e"])))
	case "go":
		r.line("go " + Expr(node(n["e"])))
	case "delete":
		if k := list(n, "key"); len(k) == 1 {
			r.line("delete(" + Expr(node(n["e"])) + ", " + Expr(node(k[0])) + ")")
		} else {
			r.line("delete(" + Expr(node(n["e"])) + ")")
		}
	case "raw":
		r.line(str(n, "src"))
	default:
		r.line("/* unknown stmt kind " + str(n, "k") + " */")
	}
}

// cond renders an expression in a position that is followed by '{' (a map literal there needs parentheses).
func cond(n N) string {
	if k := str(n, "k"); k == "map" || k == "fn" || (k == "bin" && str(n, "op") == "in") {
		return "(" + Expr(n) + ")" // (a map literal / `a in b` directly after for, if, switch reads as something else)
	}
	return Expr(n)
}

func stmtInline(n N) string {
	r := &renderer{}
	r.stmt(n)
	return strings.TrimSpace(r.b.String())
}

func (r *renderer) fn(e N, prefix string) {
	// multi-line function literal as a statement
	r.b.WriteString(strings.Repeat("  ", r.ind))
	r.b.WriteString(prefix + fnText(e, r.ind))
	r.b.WriteString("\n")
}

func fnText(e N, ind int) string {
	var ps []string
	for _, x := range list(e, "ps") {
		ps = append(ps, x.(string))
	}
	h := "func"
	if nm := str(e, "n"); nm != "" {
		h += " " + nm
	}
	h += "(" + strings.Join(ps, ", ")
	if boolean(e, "va") {
		h += "..."
	}
	h += ") {\n"
	r := &renderer{ind: ind + 1}
	r.stmts(list(e, "b"))
	return h + r.b.String() + strings.Repeat("  ", ind) + "}"
}

func atomic(n N) bool {
	switch str(n, "k") {
	case "int":
		return num(n, "i") >= 0
	case "str", "bool", "nil", "flt", "id", "call", "list", "len", "idx", "member", "paren", "map", "acall", "hpanic", "slice":
		return true
	}
	return false
}

func sub(n N) string {
	if atomic(n) {
		return Expr(n)
	}
	return "(" + Expr(n) + ")"
}

func Expr(n N) string {
	switch str(n, "k") {
	case "int":
		return strconv.FormatInt(num(n, "i"), 10)
	case "str":
		return strconv.Quote(str(n, "s"))
	case "bool":
		if num(n, "i") == 1 {
			return "true"
		}
		return "false"
	case "nil":
		return "nil"
	case "flt":
		return str(n, "src")
	case "id":
		return str(n, "n")
	case "paren":
		return "(" + Expr(node(n["e"])) + ")"
	case "addr":
		return "&" + sub(node(n["e"]))
	case "bin":
		// np ("no parentheses"): the left operand is itself a binary expression whose operator binds at least as tightly: the chain is
		// written as the grammar groups it anyway, `a + b + c` (the generator only sets np where that holds; the tree self-check confirms it)
		if l := node(n["l"]); n["np"] == true && str(l, "k") == "bin" {
			return Expr(l) + " " + str(n, "op") + " " + sub(node(n["r"]))
		}
		return sub(node(n["l"])) + " " + str(n, "op") + " " + sub(node(n["r"]))
	case "un":
		return str(n, "op") + sub(node(n["e"]))
	case "tern":
		return sub(node(n["c"])) + " ? " + sub(node(n["a"])) + " : " + sub(node(n["b"]))
	case "nilco":
		return sub(node(n["l"])) + " ?? " + sub(node(n["r"]))
	case "list":
		if ty := str(n, "ty"); ty != "" {
			return ty + "{" + exprs(list(n, "es")) + "}"
		}
		return "[" + exprs(list(n, "es")) + "]"
	case "map":
		var p []string
		ks, vs := list(n, "ks"), list(n, "vs")
		for i := range ks {
			p = append(p, Expr(node(ks[i]))+": "+Expr(node(vs[i])))
		}
		return str(n, "ty") + "{" + strings.Join(p, ", ") + "}"
	case "idx":
		return sub(node(n["e"])) + "[" + Expr(node(n["i"])) + "]"
	case "slice":
		o := func(k string) string {
			if l := list(n, k); len(l) == 1 {
				return Expr(node(l[0]))
			}
			return ""
		}
		t := sub(node(n["e"])) + "[" + o("lo") + ":" + o("hi")
		if len(list(n, "cap")) == 1 {
			t += ":" + o("cap")
		}
		return t + "]"
	case "opasg":
		return sub(node(n["t"])) + " " + str(n, "op") + "= " + sub(node(n["e"]))
	case "len":
		return "len(" + Expr(node(n["e"])) + ")"
	case "member":
		return sub(node(n["e"])) + "." + str(n, "n")
	case "inc":
		return str(n, "n") + "++"
	case "fn":
		return fnText(n, 0)
	case "call":
		a := exprs(list(n, "args"))
		if boolean(n, "spread") {
			a += "..."
		}
		return str(n, "n") + "(" + a + ")"
	case "acall":
		a := exprs(list(n, "args"))
		if boolean(n, "spread") {
			a += "..."
		}
		return "(" + Expr(node(n["f"])) + ")(" + a + ")"
	case "hpanic":
		return "harr[0:1]"
	case "raw":
		return str(n, "src")
	}
	return "/* unknown expr kind " + str(n, "k") + " */"
}

// ---------------------------------------------------------------- encode (real tree -> JSON form)

type Unsupported struct{ What string }

func (u *Unsupported) Error() string { return "outside the modelled subset: " + u.What }

func EncodeStmts(s ast.Stmt) (out []interface{}, err error) {
	defer func() {
		if r := recover(); r != nil {
			if u, ok := r.(*Unsupported); ok {
				err = u
				return
			}
			panic(r)
		}
	}()
	return encStmts(s), nil
}

func unsupported(x interface{}) {
	panic(&Unsupported{fmt.Sprintf("%T", x)})
}

func encStmts(s ast.Stmt) []interface{} {
	out := []interface{}{}
	if s == nil || reflect.ValueOf(s).IsNil() {
		return out
	}
	ss, ok := s.(*ast.StmtsStmt)
	if !ok {
		return append(out, encStmt(s))
	}
	for _, x := range ss.Stmts {
		out = append(out, encStmt(x))
	}
	return out
}

func opt(x []interface{}, present bool) []interface{} {
	if !present {
		return []interface{}{}
	}
	return []interface{}{x}
}

func encExprs(es []ast.Expr) []interface{} {
	out := []interface{}{}
	for _, e := range es {
		out = append(out, encExpr(e))
	}
	return out
}

func strs(ss []string) []interface{} {
	out := []interface{}{}
	for _, s := range ss {
		out = append(out, s)
	}
	return out
}

func encStmt(s ast.Stmt) N {
	switch x := s.(type) {
	case *ast.ExprStmt:
		return N{"k": "expr", "e": encExpr(x.Expr)}
	case *ast.BreakStmt:
		return N{"k": "break"}
	case *ast.ContinueStmt:
		return N{"k": "continue"}
	case *ast.ReturnStmt:
		return N{"k": "return", "es": encExprs(x.Exprs)}
	case *ast.ThrowStmt:
		return N{"k": "throw", "e": encExpr(x.Expr)}
	case *ast.LetsStmt:
		return N{"k": "let", "lhs": encExprs(x.LHSS), "rhs": encExprs(x.RHSS)}
	case *ast.LetMapItemStmt:
		return N{"k": "letmi", "lhs": encExprs(x.LHSS), "rhs": encExpr(x.RHS)}
	case *ast.VarStmt:
		return N{"k": "var", "names": strs(x.Names), "rhs": encExprs(x.Exprs)}
	case *ast.IfStmt:
		elifs := []interface{}{}
		for _, e := range x.ElseIf {
			ei := e.(*ast.IfStmt)
			elifs = append(elifs, N{"c": encExpr(ei.If), "b": encStmts(ei.Then)})
		}
		return N{"k": "if", "c": encExpr(x.If), "then": encStmts(x.Then), "elifs": elifs, "els": opt(encStmts(x.Else), x.Else != nil)}
	case *ast.LoopStmt:
		if x.Expr == nil {
			return N{"k": "loop", "b": encStmts(x.Stmt)}
		}
		return N{"k": "while", "c": encExpr(x.Expr), "b": encStmts(x.Stmt)}
	case *ast.CForStmt:
		n := N{"k": "cfor", "init": []interface{}{}, "c": []interface{}{}, "post": []interface{}{}, "b": encStmts(x.Stmt)}
		if x.Stmt1 != nil {
			n["init"] = []interface{}{encStmt(x.Stmt1)}
		}
		if x.Expr2 != nil {
			n["c"] = []interface{}{encExpr(x.Expr2)}
		}
		if x.Expr3 != nil {
			n["post"] = []interface{}{encExpr(x.Expr3)}
		}
		return n
	case *ast.ForStmt:
		return N{"k": "forin", "vs": strs(x.Vars), "e": encExpr(x.Value), "b": encStmts(x.Stmt)}
	case *ast.SwitchStmt:
		cases := []interface{}{}
		for _, c := range x.Cases {
			cs := c.(*ast.SwitchCaseStmt)
			cases = append(cases, N{"es": encExprs(cs.Exprs), "b": encStmts(cs.Stmt)})
		}
		return N{"k": "switch", "e": encExpr(x.Expr), "cases": cases, "d": opt(encStmts(x.Default), x.Default != nil)}
	case *ast.TryStmt:
		return N{"k": "try", "b": encStmts(x.Try), "cv": x.Var, "c": encStmts(x.Catch), "f": opt(encStmts(x.Finally), x.Finally != nil)}
	case *ast.ModuleStmt:
		return N{"k": "module", "n": x.Name, "b": encStmts(x.Stmt)}
	case *ast.DeferStmt:
		return N{"k": "defer", "e": encExpr(x.Expr)}
	case *ast.GoroutineStmt:
		return N{"k": "go", "e": encExpr(x.Expr)}
	case *ast.DeleteStmt:
		if x.Key == nil {
			return N{"k": "delete", "e": encExpr(x.Item), "key": []interface{}{}}
		}
		return N{"k": "delete", "e": encExpr(x.Item), "key": []interface{}{encExpr(x.Key)}}
	}
	unsupported(s)
	return nil
}

func encExpr(e ast.Expr) N {
	switch x := e.(type) {
	case *ast.ParenExpr:
		return encExpr(x.SubExpr)
	case *ast.IdentExpr:
		return N{"k": "id", "n": x.Lit}
	case *ast.LiteralExpr:
		v := x.Literal
		if v.Kind() == reflect.Interface {
			if v.IsNil() {
				return N{"k": "nil"}
			}
			v = v.Elem()
		}
		switch v.Kind() {
		case reflect.Int64:
			return N{"k": "int", "i": v.Int()}
		case reflect.Float64:
			return N{"k": "flt", "s": strconv.FormatFloat(v.Float(), 'g', -1, 64)}
		case reflect.String:
			return N{"k": "str", "s": v.String()}
		case reflect.Bool:
			if v.Bool() {
				return N{"k": "bool", "i": int64(1)}
			}
			return N{"k": "bool", "i": int64(0)}
		}
		unsupported(v.Kind().String())
	case *ast.OpExpr:
		switch o := x.Op.(type) {
		case *ast.BinaryOperator:
			return N{"k": "bin", "op": o.Operator, "l": encExpr(o.LHS), "r": encExpr(o.RHS)}
		case *ast.ComparisonOperator:
			return N{"k": "bin", "op": o.Operator, "l": encExpr(o.LHS), "r": encExpr(o.RHS)}
		case *ast.AddOperator:
			return N{"k": "bin", "op": o.Operator, "l": encExpr(o.LHS), "r": encExpr(o.RHS)}
		case *ast.MultiplyOperator:
			return N{"k": "bin", "op": o.Operator, "l": encExpr(o.LHS), "r": encExpr(o.RHS)}
		}
		unsupported(x.Op)
	case *ast.UnaryExpr:
		return N{"k": "un", "op": x.Operator, "e": encExpr(x.Expr)}
	case *ast.TernaryOpExpr:
		return N{"k": "tern", "c": encExpr(x.Expr), "a": encExpr(x.LHS), "b": encExpr(x.RHS)}
	case *ast.AddrExpr:
		return N{"k": "addr", "e": encExpr(x.Expr)}
	case *ast.NilCoalescingOpExpr:
		return N{"k": "nilco", "l": encExpr(x.LHS), "r": encExpr(x.RHS)}
	case *ast.ArrayExpr:
		if x.TypeData != nil {
			return N{"k": "list", "es": encExprs(x.Exprs), "ty": typeText(x.TypeData)}
		}
		return N{"k": "list", "es": encExprs(x.Exprs)}
	case *ast.MapExpr:
		if x.TypeData != nil {
			return N{"k": "map", "ks": encExprs(x.Keys), "vs": encExprs(x.Values), "ty": typeText(x.TypeData)}
		}
		return N{"k": "map", "ks": encExprs(x.Keys), "vs": encExprs(x.Values)}
	case *ast.ItemExpr:
		return N{"k": "idx", "e": encExpr(x.Item), "i": encExpr(x.Index)}
	case *ast.LenExpr:
		return N{"k": "len", "e": encExpr(x.Expr)}
	case *ast.MemberExpr:
		return N{"k": "member", "e": encExpr(x.Expr), "n": x.Name}
	case *ast.FuncExpr:
		return N{"k": "fn", "n": x.Name, "ps": strs(x.Params), "va": x.VarArg, "b": encStmts(x.Stmt)}
	case *ast.CallExpr:
		return N{"k": "call", "n": x.Name, "args": encExprs(x.SubExprs), "spread": x.VarArg}
	case *ast.AnonCallExpr:
		return N{"k": "acall", "f": encExpr(x.Expr), "args": encExprs(x.SubExprs), "spread": x.VarArg}
	case *ast.SliceExpr:
		if id, ok := x.Item.(*ast.IdentExpr); ok && id.Lit == "harr" {
			return N{"k": "hpanic"}
		}
		o := func(e ast.Expr) []interface{} {
			if e == nil || reflect.ValueOf(e).IsNil() {
				return []interface{}{}
			}
			return []interface{}{encExpr(e)}
		}
		return N{"k": "slice", "e": encExpr(x.Item), "lo": o(x.Begin), "hi": o(x.End), "cap": o(x.Cap)}
	case *ast.IncludeExpr:
		return N{"k": "bin", "op": "in", "l": encExpr(x.ItemExpr), "r": encExpr(x.ListExpr)}
	case *ast.LetsExpr:
		// x++  ==  x = x + 1
		if len(x.LHSS) == 1 && len(x.RHSS) == 1 {
			if id, ok := x.LHSS[0].(*ast.IdentExpr); ok {
				if op, ok := x.RHSS[0].(*ast.OpExpr); ok {
					if add, ok := op.Op.(*ast.AddOperator); ok && add.Operator == "+" {
						if l, ok := add.LHS.(*ast.IdentExpr); ok && l.Lit == id.Lit {
							if lit, ok := add.RHS.(*ast.LiteralExpr); ok && lit.Literal.Kind() == reflect.Int64 && lit.Literal.Int() == 1 {
								return N{"k": "inc", "n": id.Lit}
							}
						}
					}
				}
			}
		}
		// t op= e  ==  t = t op e  (the parser uses the SAME target node on both sides)
		if len(x.LHSS) == 1 && len(x.RHSS) == 1 {
			if op, ok := x.RHSS[0].(*ast.OpExpr); ok {
				switch o := op.Op.(type) {
				case *ast.AddOperator:
					if o.LHS == x.LHSS[0] {
						return N{"k": "opasg", "t": encExpr(x.LHSS[0]), "op": o.Operator, "e": encExpr(o.RHS)}
					}
				case *ast.MultiplyOperator:
					if o.LHS == x.LHSS[0] {
						return N{"k": "opasg", "t": encExpr(x.LHSS[0]), "op": o.Operator, "e": encExpr(o.RHS)}
					}
				}
			}
		}
		unsupported("LetsExpr form")
	}
	unsupported(e)
	return nil
}

// Canon strips parentheses and representation-only fields so that programs compare structurally.
func Canon(x interface{}) interface{} {
	switch v := x.(type) {
	case map[string]interface{}:
		if str(v, "k") == "paren" {
			return Canon(v["e"])
		}
		out := N{}
		for k, e := range v {
			if k == "src" || k == "np" {
				continue
			}
			out[k] = Canon(e)
		}
		return out
	case []interface{}:
		out := make([]interface{}, len(v))
		for i, e := range v {
			out[i] = Canon(e)
		}
		return out
	case float64:
		return int64(v)
	case int:
		return int64(v)
	}
	return x
}

// typeText spells the simple type expressions the families use ([]T, map[K]T over named types).
func typeText(t *ast.TypeStruct) string {
	if t == nil {
		return ""
	}
	switch t.Kind {
	case ast.TypeDefault:
		if len(t.Env) == 0 {
			return t.Name
		}
	case ast.TypeSlice:
		if t.Dimensions == 1 {
			return "[]" + typeText(t.SubType)
		}
	case ast.TypeMap:
		return "map[" + typeText(t.Key) + "]" + typeText(t.SubType)
	}
	unsupported("type expression")
	return ""
}
