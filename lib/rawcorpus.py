"""Raw-source scripts outside the subset modelled by AnkoSem, used where the oracle is relational
(C14: run k of a shared tree = run 1 = solo run; C01: the call returns).  Emphasis on constructs that touch
run-time slots stored in the tree or process-wide state: ++/--, calls by name, anonymous calls, deferred calls,
small-integer results, pointers, typed makes, import."""

RAW = [
 ("incdec", "a = 1; a++; a++; b = 5; b--; p(a); p(b); return a + b"),
 ("opassign", "a = 2; a += 3; a *= 2; a -= 1; p(a); s = \"x\"; s += \"y\"; p(s); return a"),
 ("smallints", "a = 2 + 3; b = a * 1000; c = b - 4999; p(a); p(b); p(c); return 4095 + 1"),
 ("ptr-write", "a = 2 + 3; q = &a; *q = 400; b = 4 + 1; p(a); p(b); return 5 + 0"),
 ("ptr-write2", "x = 0 - 1; y = &x; *y = 77; z = 0 - 1; p(z); p(2 - 3); return 1 - 2"),
 ("ptr-read", "a = 7; q = &a; p(*q); a = 8; p(*q); return *q"),
 ("new-int", "q = new(int64); *q = 4000 + 95; p(*q); r = new(int64); p(*r); return *q - *r"),
 ("call-by-name", "func h(x) { return x + 1 }; p(h(1)); p(h(h(2))); return h(3)"),
 ("defer-by-name", "func h(x) { p(x) }; func f() { defer h(1); defer h(2); return 3 }; p(f()); return 0"),
 ("defer-top-by-name", "func h(x) { p(x) }; defer h(10); p(1); return 2"),
 ("anon-call", "p(func(a, b) { return a * b }(3, 4)); f = func() { return 9 }; p(f()); return f()"),
 ("go-less-closure", "mk = func() { n = 0; return func() { n++; return n } }; c = mk(); c(); c(); p(c()); return c()"),
 ("slices", "a = [1, 2, 3]; a[0] = 9; a += 4; b = a[1:3]; b[0] = 7; p(a); p(b); p(len(a)); return a"),
 ("maps", "m = {\"a\": 1}; m[\"b\"] = 2; m.c = 3; delete(m, \"a\"); p(len(m)); p(m.b); p(m[\"zz\"]); return m.c"),
 ("typed", "a = make([]int64, 2); a[0] = 5; a += 6; p(a); m = make(map[string]int64); m[\"k\"] = 2; p(m); return len(a) + len(m)"),
 ("struct", "make(type T, make(struct { A int64, B string })); v = make(T); v.A = 5; v.B = \"x\"; p(v.A); p(v.B); return v.A"),
 ("strings", "s = \"hello\"; p(s[1]); p(s[1:3]); p(len(s)); p(s + 1); p(s * 2); return s[0:2]"),
 ("in", "p(1 in [1, 2]); p(\"a\" in [\"b\"]); p(nil in [nil]); return 3 in [1, 2, 3]"),
 ("switch", "f = func(x) { switch x { case 1: return \"one\"  case 2, 3: return \"few\"  default: return \"many\" } }; p(f(1)); p(f(3)); return f(9)"),
 ("module", "module m { x = 1; func inc() { x++; return x } }; p(m.inc()); p(m.inc()); p(m.x); return m.x"),
 ("module-copy", "module m { x = 1 }; n = m; n.x = 5; p(m.x); p(n.x); return m.x"),
 ("import-strings", "s = import(\"strings\"); p(s.ToUpper(\"ab\")); p(s.Join([\"a\", \"b\"], \"-\")); return s.Contains(\"abc\", \"b\")"),
 ("import-rebind", "s = import(\"strings\"); s.ToLower = 5; t = import(\"strings\"); p(t.ToLower(\"X\")); p(s.ToLower); return t.ToLower(\"Y\")"),
 ("import-assign-through", "r = import(\"strings\").ToUpper(\"x\"); import(\"strings\").ToUpper = 7; f = func(pk) { pk.ToLower = 8 }; f(import(\"strings\")); p(r); return import(\"strings\").ToLower(\"Y\")"),
 ("addr-of-computed", "p1 = &(1 + 2); *p1 = 40; q = 1 + 2; p(q); x = 5; p2 = &(x * 2); *p2 = 41; p(x * 2); return 1 + 2"),
 ("addr-of-len", "a = [1, 2, 3]; p3 = &len(a); *p3 = 77; p(len(a)); p(len([4, 5, 6])); return 3"),
 ("struct-map-field-fresh", "make(type S, make(struct { M map[string]int64, L []int64, C chan int64 })); a = make(S); n = len(a.M); a.M[\"k\"] = n; b = make(S); p(n); return [n, len(b.M), len(a.M)]"),
 ("struct-nested-map-fresh", "make(type S2, make(struct { In struct { M map[string]int64 } })); a = make(S2); n = len(a.In.M); a.In.M[\"k\"] = 1; b = make(S2); return [n, len(b.In.M)]"),
 ("addr-nil-literal", "p(nil); q9 = &nil; *q9 = 5; x9 = nil; return 1"),
 ("addr-true-literal", "p(true); q8 = &true; *q8 = false; p(true); return true"),
 ("switch-3-default-nomatch", "f = func(x) { switch x { case 1: return \"a\"  case 2: return \"b\"  case 3: return \"c\"  default: return \"d\" } }; p(f(9)); p(f(2)); return f(7)"),
 ("switch-5-default-nomatch", "f = func(x) { switch x { case 1: return 1  case 2: return 2  case 3: return 3  case 4: return 4  case 5: return 5  default: return 0 } }; p(f(9)); return f(8)"),
 ("switch-7-default-nomatch", "f = func(x) { switch x { case 1: return 1  case 2: return 2  case 3: return 3  case 4: return 4  case 5: return 5  case 6: return 6  case 7: return 7  default: return x * 2 } }; p(f(9)); return f(8)"),
 ("switch-6-multi-default", "r = []; for x in [0, 9, 3] { switch x { case 1, 2: r += 1  case 3: r += 3  case 4: r += 4  case 5: r += 5  case 6: r += 6  case 7: r += 7  default: r += x } }; return r"),
 ("import-delete", "s = import(\"strings\"); t = import(\"strings\"); p(t.ToUpper(\"x\")); return s.ToUpper(\"y\")"),
 ("import-sort", "sort = import(\"sort\"); a = [3, 1, 2]; sort.Slice(a, func(i, j) { return a[i] < a[j] }); p(a); return a[0]"),
 ("varargs", "f = func(a, b...) { return len(b) + a }; p(f(1)); p(f(1, 2, 3)); x = [5, 6]; p(f(1, x...)); return f(0)"),
 ("five-params", "f = func(a, b, c, d, e) { return a + b + c + d + e }; p(f(1, 2, 3, 4, 5)); return f(1, 1, 1, 1, 1)"),
 ("ternary-nilco", "a = nil; p(a ?? 5); p(true ? 1 : 2); p(zz ?? \"undef\"); return a ?? (false ? 3 : 4)"),
 ("for-forms", "s = 0; for i = 0; i < 5; i++ { s += i }; for x in [1, 2] { s += x }; n = 0; for n < 3 { n++ }; for { break }; p(s); p(n); return s"),
 ("try-throw", "f = func() { throw \"bad\" }; try { f() } catch e { p(e) } finally { p(1) }; try { zz } catch { p(2) }; return 3"),
 ("runtime-error", "a = [1]; p(1); a[5]"),
 ("let-map-item", "m = {\"a\": 1}; v, ok = m[\"a\"]; p(v); p(ok); v, ok = m[\"b\"]; p(v); p(ok); return ok"),
 ("chan-buffered", "c = make(chan int64, 2); c <- 1; c <- 2; p(<-c); p(<-c); close(c); p(<-c); return len(c)"),
 ("nested-fn-defs", "func a() { func b() { func c() { return 1 }; return c() + 1 }; return b() + 1 }; p(a()); return a()"),
 ("recursion", "func fib(n) { if n < 2 { return n }; return fib(n - 1) + fib(n - 2) }; p(fib(10)); return fib(12)"),
 ("bigint", "a = 9223372036854775807; b = a + 1; p(b); p(4096 * 4096); p(-2 - 1); return a"),
 ("floats", "p(1 / 2); p(1.5 + 1); p(2 * 1.5); p(7 % 3); p(1.0 == 1); return 0.1 + 0.2"),
]


# one tree, environments that differ in what the type name `num` means (DefineType before the run)
VARIANT = [
 ("vt-map", "m = make(map[string]num); m[\"a\"] = 2.9; p(m[\"a\"]); return m[\"a\"]"),
 ("vt-struct", "s = make(struct { X num, Y string }); s.X = 2.9; p(s.X); return s.X"),
 ("vt-slice", "a = make([]num, 1); a[0] = 2.9; p(a[0]); return a[0]"),
 ("vt-map-literal", "m = map[string]num{\"a\": 2.9}; return m[\"a\"]"),
 ("vt-slice-literal", "a = []num{2.9, 1}; return a[0]"),
 ("vt-nested", "m = make(map[string][]num); m[\"a\"] = [2.9]; return m[\"a\"][0]"),
 ("vt-chan", "c = make(chan num, 1); c <- 2.9; return <-c"),
 ("vt-in-func", "f = func() { m = make(map[string]num); m[\"k\"] = 2.9; return m[\"k\"] }; p(f()); return f()"),
 ("vt-make-scalar", "x = make(num); return x"),
]


# a copy of an environment is independent of it: (S0, A, B) -- B run in the base after S0 must not notice that A ran in a copy of the base
ENVPAIRS = [
 ("types", "make(type T, 1)", "make(type U, 2.5); x = 5; var y = 1", "r = 0; try { r = make(U) } catch e { r = \"undefined\" }; return [r, x ?? \"nox\", y ?? \"noy\", make(T)]"),
 ("values", "x = 1; f = func() { return x }", "x = 9; z = 1; f = func() { return 7 }", "return [x, z ?? \"noz\", f()]"),
 ("redefine-type", "make(type T, 1)", "make(type T, \"s\")", "return make(T)"),
 ("delete", "x = 1; y = 2", "delete(\"x\"); delete(\"y\", true)", "return [x ?? \"nox\", y ?? \"noy\"]"),
 ("module", "module m { a = 1 }", "module m2 { b = 2 }; m = 3", "return [m.a, m2 ?? \"nom2\"]"),     # (a module VALUE is shared by reference, like a map: only bindings are independent)
 ("empty-base", "", "make(type U, 2.5); x = 5", "r = 0; try { r = make(U) } catch e { r = \"undefined\" }; return [r, x ?? \"nox\"]"),
 ("after-empty", "x = 1; delete(\"x\")", "x = 5; make(type U, 1)", "r = 0; try { r = make(U) } catch e { r = \"undefined\" }; return [r, x ?? \"nox\"]"),
]


# two unrelated environments (core builtins imported into both): what runs in one is invisible in the other
FRESHPAIRS = [
 ("defined", "x = 1", "y = 2", "return [defined(\"x\"), defined(\"y\"), defined(\"zz\")]"),
 ("defined-in-fn", "x = 1; f = func() { return defined(\"x\") }", "x2 = 1", "return [f(), defined(\"x2\")]"),
 ("keys-typeof", "m = {\"a\": 1}", "m = 5", "return [len(keys(m)), typeOf(m), kindOf(m)]"),
 ("values", "x = 1", "x = 2; q = 3", "return [x, q ?? \"noq\"]"),
 ("types", "make(type T, 1)", "make(type T, \"s\"); make(type U, 1.5)", "r = 0; try { r = make(U) } catch e { r = \"undefined\" }; return [make(T), r]"),
 ("println-rebind", "", "println = 5; range = 6", "return [typeOf(println), len(range(3))]"),
]


# function literals of shapes no other case uses (more than 4 parameters / variadic: the interpreter builds a Go func type for each on first use); these
# cases are run concurrently FIRST, on separate environments
def _fresh(n):
    ps = ", ".join("a%d" % j for j in range(n))
    args = ", ".join(str(j) for j in range(n))
    return ("f = func(%s) { return a%d }\ng = func(%s, r...) { return len(r) }\nh = func(%s, r...) { return a0 }\n[f(%s), g(%s, 1, 2), h(%s)]"
            % (ps, n - 1, ps, ", ".join("a%d" % j for j in range(n + 60)), args, args, ", ".join(str(j) for j in range(n + 60))))
FRESH = [("fresh-shape-%d" % n, _fresh(n)) for n in range(40, 60)]


# goroutines started on the reflect call path (variadic / more than 4 parameters) keep the arguments they were started with, whatever calls follow
GOARGS = [("go-variadic-sum", "out = make(chan interface, 64)\nsend = func(c, v, r...) {\n c <- v\n}\nfor i = 0; i < 64; i++ {\n go send(out, i)\n}\ns = 0\nfor i = 0; i < 64; i++ {\n s += <-out\n}\ns"),
          ("go-fn5-sum", "out = make(chan interface, 64)\nsend = func(c, v, a, b, d) {\n c <- v + a + b + d\n}\nfor i = 0; i < 64; i++ {\n go send(out, i, 0, 0, 0)\n}\nnop = func(a, b, c, d, e) { return 0 }\nnop(9, 9, 9, 9, 9)\ns = 0\nfor i = 0; i < 64; i++ {\n s += <-out\n}\ns"),
          ("go-variadic-then-calls", "out = make(chan interface, 8)\nsend = func(c, v, r...) {\n c <- v\n}\nother = func(x, r...) { return x }\ngo send(out, \"A\")\nother(\"B\")\nother(\"C\", 1, 2)\n<-out")]


# the address of a nil that was never bound to a variable is not the address of THE nil
RAW += [("addr-nil-noresult", "func nothing() { }\np = &nothing()\n*p = 1\n[nothing(), nil]"), ("addr-nil-missing-key", "m = {}\np = &m[\"zz\"]\n*p = 2\n[m[\"zz\"], m.q, nil]"),
        ("addr-nil-ternary", "p = &(true ? nil : 0)\n*p = 3\nq = {}\n[nil, q.k]"), ("addr-nil-paren-call", "f = func() { return }\np = &(f())\n*p = 4\n[f(), nil]")]


# globals the host defines through a deep copy of a nested scope (hostg, hostg2, type HostT) stay in the copy's chain
HOSTGLOBAL = [("", "x = 1", "return [hostg ?? \"none\", hostg2 ?? \"none\"]"), ("x = 1", "x = hostg", "r = 0; try { r = make(HostT) } catch e { r = \"undefined\" }; return [x, r, hostg ?? \"none\"]"),
              ("func f() { return hostg ?? \"none\" }", "hostg = 5", "return f()")]


# what a builtin hands out is a fresh value: storing into it changes nothing for the next call, run or environment (read before write: a rerun shows it)
BUILTIN_RESULTS = [("range1", "r = range(3)\nx = r[2]\nr[2] = x + 5\n[x, range(3), range(2)]"), ("range2", "r = range(1, 4)\nx = r[0]\nr[0] = x + 5\n[x, range(1, 4)]"),
                   ("range-big", "r = range(1000)\nx = r[999]\nr[999] = x + 1\nr2 = range(1024)\n[x, r2[999], len(r2)]"), ("range-zero", "r = range(0)\nr += 1\n[len(range(0)), r]"),
                   ("keys", "m = {\"a\": 1}\nk = keys(m)\nx = k[0]\nk[0] = x + \"!\"\n[x, keys(m)]"), ("tobyteslice", "b = toByteSlice(\"abc\")\nx = b[0]\nb[0] = x + 1\n[x, toString(toByteSlice(\"abc\"))]"),
                   ("torunes", "b = toRuneSlice(\"abc\")\nx = b[0]\nb[0] = x + 1\n[x, toString(toRuneSlice(\"abc\"))]"), ("tointslice", "src = [1, 2]\nb = toIntSlice(src)\nx = b[0]\nb[0] = x + 5\n[x, src, toIntSlice(src)]"),
                   ("tostringslice", "b = toStringSlice([\"a\"])\nx = b[0]\nb[0] = x + \"!\"\n[x, toStringSlice([\"a\"])]"), ("typeof", "t = typeOf(1)\nu = kindOf(1)\n[t, u, typeOf(t)]"),
                   ("sort-range", "sort = import(\"sort\")\nr = range(5)\nsort.Slice(r, func(i, j) { return r[i] > r[j] })\n[r, range(5)]"), ("strings-split", "strings = import(\"strings\")\np = strings.Split(\"a,b\", \",\")\nx = p[0]\np[0] = x + \"!\"\n[x, strings.Split(\"a,b\", \",\")]")]


# resource-hungry runs next to each other: each has what it has alone (the harness hands ONE non-nil *vm.Options to every run of the process, as a host does that keeps its options in a variable)
HUNGRY = [("deep-recursion-%d" % d, "func r(n) {\n if n == 0 {\n  return 0\n }\n return r(n - 1) + 1\n}\nr(%d)" % d) for d in (3000, 6000, 9000)] + \
         [("deep-mutual-6000", "func ra(n) {\n if n == 0 {\n  return 0\n }\n return rb(n - 1) + 1\n}\nfunc rb(n) {\n return ra(n)\n}\nra(6000)"),
          ("many-calls", "func inc(x) {\n return x + 1\n}\nn = 0\nfor i = 0; i < 30000; i++ {\n n = inc(n)\n}\nn"), ("big-list-build", "a = []\nfor i = 0; i < 20000; i++ {\n a += i\n}\nlen(a)")]


def cases():
    return ([{"id": "raw-hungry-" + n, "src": s, "concfirst": True} for n, s in HUNGRY] + [{"id": "raw-builtin-" + n, "src": s, "core": True} for n, s in BUILTIN_RESULTS] + [{"id": "raw-" + n, "src": s, "concfirst": True} for n, s in FRESH] + [{"id": "raw-" + n, "src": s} for n, s in GOARGS] +
            [{"id": "raw-" + n, "src": s} for n, s in RAW] +
            [{"id": "raw-" + n, "src": s, "variants": ["int64", "float64", "string"]} for n, s in VARIANT] +
            [{"id": "raw-envpair-%s-%s" % (n, how), "src": b, "pair": {"s0": s0, "a": a, "how": how}} for n, s0, a, b in ENVPAIRS for how in ("Copy", "DeepCopy", "NestedDeepCopy")] +
            [{"id": "raw-envpair-hostglobal-%d" % k, "src": b, "pair": {"s0": s0, "a": a, "how": "NestedDeepCopy"}} for k, (s0, a, b) in enumerate(HOSTGLOBAL)] +
            [{"id": "raw-envfresh-%s" % n, "src": b, "pair": {"s0": s0, "a": a, "how": "Fresh", "core": True}} for n, s0, a, b in FRESHPAIRS])
