"""Trace validation of hook traces against spec/AnkoFrames.tla (shared by C04, C08, C09)."""
import json, os, random, re
import vlib
from vlib import Broken

RULE_PROPERTY = {
    "scope-not-restored": "C04", "scope-not-restored-at-invocation-end": "C04",
    "loop-leaks-break-continue": "C08", "control-signal-not-passed-through": "C08", "not-innermost": "C08", "exit-without-enter": "C08", "invocation-ends-with-open-statements": "C08",
    "defer-list-shrank": "C09", "defer-order": "C09", "defers-not-all-run": "C09", "defer-runs-before-body-ended": "C09",
}


def sample_frames(path, max_events, seed):
    """Keep complete frames (all events of a frame id) up to about max_events lines; -> list of json lines"""
    by = {}
    order = []
    with open(path, errors="replace") as f:
        for line in f:
            m = re.search(r'"f":(\d+)', line)
            if not m or not line.endswith("}\n"):
                continue
            k = int(m.group(1))
            if k not in by:
                by[k] = []
                order.append(k)
            by[k].append(line)
    rng = random.Random(seed)
    ids = order[:]
    total = sum(len(v) for v in by.values())
    if total > max_events:
        rng.shuffle(ids)
    keep, n = set(), 0
    for k in ids:
        if n + len(by[k]) > max_events and n > 0:
            continue
        # only complete frames (begin .. end) are judged
        ev0 = by[k][0]
        evn = by[k][-1]
        if not ('"ev":"RunBegin"' in ev0 or '"ev":"FuncEnter"' in ev0) or not ('"ev":"RunEnd"' in evn or '"ev":"FuncExit"' in evn):
            continue
        keep.add(k)
        n += len(by[k])
    out = []
    for k in order:
        if k in keep:
            out += by[k]
    return out, len(order), total


def validate(ctx, lines, tag):
    """-> list of (rule, event dict) rejected; updates coverage"""
    p = os.path.join(ctx.work, "frames_trace.ndjson")
    open(p, "w").write("".join(lines))
    r = vlib.run_tlc(ctx, "Trace_AnkoFrames", "Trace_AnkoFrames.cfg", workers=1, timeout=3000, copy=[p], want_lines=False, xss="256m", heap="12g")
    if r.error or r.violation:
        raise Broken("Trace_AnkoFrames: %s\n%s" % (r.error or r.violation, r.out[-1500:]))
    full = open(os.path.join(r.dir, "tlc.out"), errors="replace").read()
    m = re.findall(r'<<"REACHED", (\d+), (\d+)>>', full)
    if not m or int(m[-1][0]) != int(m[-1][1]) + 1:
        raise Broken("Trace_AnkoFrames did not consume the trace: %s" % (m[-1:] or r.out[-800:]))
    rej = re.findall(r'<<"REJECT", (\d+), "([^"]+)">>', full)
    ctx.cov["states"] += r.distinct
    ctx.cov["transitions"] += r.generated
    ctx.cov.setdefault("frame_traces", {})[tag] = {"events": len(lines), "rejected": len(rej)}
    os.remove(os.path.join(r.dir, "tlc.out"))
    return [(why, json.loads(lines[int(ln) - 1]), int(ln)) for ln, why in rej]


def repo_test_trace(ctx):
    """Run the repository's own vm tests (unmodified) with the file tracer on; -> trace path"""
    path = os.path.join(ctx.work, "vmtests_trace.ndjson")
    if os.path.exists(path):
        os.remove(path)
    p = vlib.run_cmd(ctx, ["go", "test", "-tags", "verif", "-vet=off", "-count=1", "./vm/"], cwd=vlib.REPO, env={"ANKO_VERIF_TRACE": path}, timeout=1200, ok_codes=None)
    if not os.path.exists(path):
        raise Broken("the repository's vm tests produced no trace: " + p.stdout[-800:] + p.stderr[-800:])
    return path, p.returncode


def control(ctx, lines):
    """corruption control: a frame whose statement exit reports a different scope / a shrunken defer list must be rejected"""
    ids = [json.loads(l)["f"] for l in lines[:2000]]
    f = ids[0]
    fl = [l for l in lines[:5000] if '"f":%d,' % f in l]
    idx = [i for i, l in enumerate(fl) if '"ev":"StmtExit"' in l]
    if len(idx) < 2 or '"ev":"RunEnd"' not in fl[-1] and '"ev":"FuncExit"' not in fl[-1]:
        return
    e = json.loads(fl[idx[0]])
    e["same"] = False
    bad = fl[:idx[0]] + [json.dumps(e) + "\n"] + fl[idx[0] + 1:]
    rej = validate(ctx, bad, "control")
    ok = any(why == "scope-not-restored" for why, _, _ in rej)
    ctx.cov["controls"].append({"control": "hook trace with one statement exit reporting a different scope must be rejected", "detected": ok})
    del ctx.cov["frame_traces"]["control"]
    if not ok:
        raise Broken("frames corruption control failed")


def check(ctx, prop, trace_paths, max_events):
    """Validate traces; report rejections whose rule belongs to `prop`."""
    for tag, path in trace_paths:
        lines, nframes, total = sample_frames(path, max_events, ctx.seed)
        if not lines:
            raise Broken("empty hook trace " + tag)
        rej = validate(ctx, lines, tag)
        ctx.cov["evaluations"] += len(lines)
        ctx.cov["traces_validated_against_impl"] += len({json.loads(l)["f"] for l in lines[:200000]})
        ctx.cov["frame_traces"][tag].update({"frames_in_trace": nframes, "events_in_trace": total})
        if tag == trace_paths[0][0] and not rej:
            control(ctx, lines)
        seen = set()
        for why, ev, ln in rej:
            if RULE_PROPERTY.get(why) != prop or why in seen:
                continue
            seen.add(why)
            # the events of that frame up to the rejected one
            hist = [l for l in lines[:ln] if '"f":%d,' % ev["f"] in l][-12:]
            vlib.violation(ctx, "hook trace (%s) rejected by AnkoFrames: %s at %s" % (tag, why, json.dumps(ev)), {"kind": "frames", "rule": why, "event": ev, "frame_history": hist, "trace": tag})
