"""Shared pipeline of the language-core checks (C04 C07 C08 C09 C14):
   family of programs -> TLC evaluates spec/AnkoSem.tla on each -> Go harness replays on the real interpreter."""
import json, os
import vlib
from vlib import Broken


def write_progs(path, progs):
    with open(path, "w") as f:
        for p in progs:
            f.write(json.dumps(dict({"id": p["id"], "prog": p["prog"]}, **({"ext": p["ext"], "extinner": bool(p.get("extinner"))} if p.get("ext") else {})), separators=(",", ":")) + "\n")


def fix_exp(e):
    if isinstance(e.get("top"), list):
        e["top"] = {}
    return e


def evaluate(ctx, progs, cfg="MC_AnkoSem.cfg", timeout=1800):
    """-> {id: exp} computed by TLC from AnkoSem.  (TLC with many workers is several times slower than with two on this
    evaluation-heavy specification: the family is split over parallel TLC processes of two workers each.)"""
    import concurrent.futures
    out = {}
    chunk = 800
    parts = [progs[k:k + chunk] for k in range(0, len(progs), chunk)] or [[]]
    def one(k):
        d = os.path.join(ctx.work, "eval_%d_%d" % (ctx.ntlc, k))
        os.makedirs(d, exist_ok=True)
        p = os.path.join(d, "progs.ndjson")
        write_progs(p, parts[k])
        got = {}
        def cb(v):
            got[v["id"]] = fix_exp(v["exp"])
        r = vlib.run_tlc(ctx, "MC_AnkoSem", cfg, workers=2, timeout=timeout, copy=[p], line_cb=cb, xss="512m")
        vlib.tlc_ok(ctx, r, "MC_AnkoSem (%d programs)" % len(parts[k]))
        if len(got) != len(parts[k]):
            raise Broken("AnkoSem produced %d outcomes for %d programs\n%s" % (len(got), len(parts[k]), r.out[-1500:]))
        return got
    with concurrent.futures.ThreadPoolExecutor(max_workers=6) as ex:
        for got in ex.map(one, range(len(parts))):
            out.update(got)
    if len(out) != len(progs):
        raise Broken("AnkoSem produced %d outcomes for %d programs" % (len(out), len(progs)))
    return out


def replay(ctx, binp, progs, exps, tag, nconc=3, timeout=1800, env=None, alts=None):
    cases = os.path.join(ctx.work, "cases_%s.ndjson" % tag)
    with open(cases, "w") as f:
        for p in progs:
            e = exps[p["id"]]
            if e["cls"] == "fuel":
                continue
            c = {"id": p["id"], "prog": p["prog"], "exp": e, "unordered": bool(p.get("unordered"))}
            if p.get("ext"):
                c["ext"], c["extinner"] = p["ext"], bool(p.get("extinner"))
            if alts:
                c["alt"] = [{"key": k, "exp": ax[p["id"]]} for k, ax in alts.items() if ax[p["id"]] != e]
            f.write(json.dumps(c, separators=(",", ":")) + "\n")
    res = os.path.join(ctx.work, "result_%s.json" % tag)
    s, info = run_cases(ctx, binp, cases, res, nconc, env=env, timeout=timeout)
    if info:
        died(ctx, binp, cases, res, nconc, info, env=env)
        return {"cases": 0, "compared": 0, "runs": 0, "mismatches": [], "samples": [], "n_mismatch": {"process-death": 1}, "known": {}}
    return s


def run_cases(ctx, binp, cases, res, nconc, env=None, timeout=1800):
    """Run the harness on a case file.  -> (summary, None) or (None, id of the case during which the process died)."""
    for f in (res, res + ".progress"):
        if os.path.exists(f):
            os.remove(f)
    p = vlib.run_cmd(ctx, [binp, "run", cases, res, str(nconc)], timeout=timeout, env=env, ok_codes=None)
    if p.returncode == 0 and os.path.exists(res):
        s = json.load(open(res))
        s["mismatches"] = s.get("mismatches") or []
        s["samples"] = s.get("samples") or []
        return s, None
    if p.returncode == 66 or "WARNING: DATA RACE" in p.stderr:
        return {"race": p.stderr[:6000]}, None
    last = None
    if os.path.exists(res + ".progress"):
        for line in open(res + ".progress"):
            if line.startswith("BEGIN "):
                last = line[6:].strip()
    if last is None:
        raise Broken("harness failed before the first case rc=%d: %s" % (p.returncode, p.stderr[-1500:]))
    return None, {"id": last, "rc": p.returncode, "stderr_head": p.stderr[:1500]}


def died(ctx, binp, cases, res, nconc, info, env=None):
    """The process hosting the interpreter died during case info['id'].  Reproduce; decide what it means."""
    # reproduce: the same case file again (a death that depends on the interleaving of concurrent runs may strike during another case;
    # any second death of the process counts, none in three more runs does not)
    info2 = None
    for _ in range(3):
        s2, info2 = run_cases(ctx, binp, cases, res, nconc, env=env)
        if info2 is not None:
            break
    if info2 is None:
        raise Broken("harness process death during %s not reproduced" % info["id"])
    if info2["id"] != info["id"]:
        info = dict(info2, first_death_during=info["id"])
    # the same case alone in a fresh process
    lines = [l for l in open(cases) if json.loads(l)["id"] == info["id"]]
    one = os.path.join(ctx.work, "died_one.ndjson")
    open(one, "w").write(lines[0])
    s3, info3 = run_cases(ctx, binp, one, os.path.join(ctx.work, "died_one.json"), nconc, env=env)
    alone = "dies alone too" if info3 else "returns normally when run alone in a fresh process"
    upto = []
    for l in open(cases):
        upto.append(json.loads(l))
        if upto[-1]["id"] == info["id"]:
            break
    payload = {"kind": "process-death", "id": info["id"], "alone": alone, "cases": upto[-40:], "stderr": info["stderr_head"], "nconc": nconc}
    vlib.violation(ctx, "the process hosting the interpreter died while running %s after %d earlier cases in the same process (%s): %s"
                   % (info["id"], len(upto) - 1, alone, info["stderr_head"][:200]), payload)


def single(ctx, binp, case, nconc=3, env=None):
    """Re-run one case in a fresh process -> its mismatches"""
    d = os.path.join(ctx.work, "single")
    os.makedirs(d, exist_ok=True)
    cp = os.path.join(d, "case.ndjson")
    with open(cp, "w") as f:
        f.write(json.dumps(case) + "\n")
    rp = os.path.join(d, "res.json")
    vlib.run_cmd(ctx, [binp, "run", cp, rp, str(nconc)], env=env)
    s = json.load(open(rp))
    s["mismatches"] = s.get("mismatches") or []
    return s


# recorded deviations of the code from the intended design (KNOWN_FINDINGS.json): key, configuration of AnkoSem with that deviation switched on
# "allowed:" keys are not deviations but the other reading of a point the statements leave open (both readings are accepted, nothing is reported)
DEVIATIONS = [("dev:TrySwallowsReturn", "MC_AnkoSem_dev.cfg"), ("dev:LhsIndexReevaluated", "MC_AnkoSem_dev2.cfg"), ("dev:SpreadSurplusDropped", "MC_AnkoSem_dev3.cfg"), ("allowed:FinallyOnJump", "MC_AnkoSem_opt1.cfg")]


def dev_applies(key, prog):
    """the programs a deviation can matter for (the others are not evaluated a second time)"""
    js = json.dumps(prog)
    if key == "dev:TrySwallowsReturn":
        return '"k": "try"' in js and '"k": "return"' in js       # a return inside a try
    if key == "dev:SpreadSurplusDropped":
        return '"spread": true' in js
    if key == "allowed:FinallyOnJump":
        return '"k": "try"' in js and ('"k": "break"' in js or '"k": "continue"' in js)
    return '"lhs": [{"k": "idx", "e": {"k": "idx"' in js or '{"k": "idx", "e": {"k": "idx"' in js and '"k": "let"' in js    # an index path of two or more steps as a target


def run_family(ctx, binp, progs, tag, kinds=("semantic", "panic"), nconc=2, deviations=True, env=None, prop_filter=None):
    """Evaluate + replay one family.  `kinds`: the mismatch kinds this property judges (others are left to the
    property that owns them, e.g. isolation -> C14).  Returns the harness summary."""
    byid = {p["id"]: p for p in progs}
    if len(byid) != len(progs):
        raise Broken("duplicate program ids in family " + tag)
    exps = evaluate(ctx, progs)
    nfuel = sum(1 for e in exps.values() if e["cls"] == "fuel")
    nopen = sum(1 for e in exps.values() if e.get("open") and e["cls"] != "fuel")
    alts = None
    if deviations and vlib.open_findings(ctx, ctx.id):
        alts = {}
        for key, cfg in DEVIATIONS:
            cand = [p for p in progs if dev_applies(key, p["prog"])]
            dev = evaluate(ctx, cand, cfg=cfg) if cand else {}
            alts[key] = {p["id"]: dev.get(p["id"], exps[p["id"]]) for p in progs}
    s = replay(ctx, binp, progs, exps, tag, nconc=nconc, env=env, alts=alts)
    for key, n in (s.get("known") or {}).items():
        for f in vlib.open_findings(ctx, ctx.id):
            if key in f.get("keys", []):
                line = "KNOWN-FINDING: property=%s %s" % (ctx.id, f["what"])
                if line not in ctx.known:
                    ctx.known.append(line)
                ctx.cov.setdefault("known_finding_cases", {})
                ctx.cov["known_finding_cases"][key] = ctx.cov["known_finding_cases"].get(key, 0) + n
    ctx.cov["evaluations"] += s["cases"]
    ctx.cov["distinct_nontrivial"] += len({vlib.chash(p["prog"]) for p in progs if exps[p["id"]]["cls"] != "fuel" and not exps[p["id"]].get("open") and len(exps[p["id"]]["log"]) >= 2})
    ctx.cov["traces_validated_against_impl"] += s["compared"]
    ctx.cov["skipped_out_of_subset"] += nfuel
    ctx.cov.setdefault("open_by_statement", 0)
    ctx.cov["open_by_statement"] += nopen
    ctx.cov.setdefault("real_runs", 0)
    ctx.cov["real_runs"] += s["runs"]
    ctx.cov.setdefault("families", {})[tag] = {"programs": len(progs), "compared": s["compared"], "open": nopen, "out_of_fuel": nfuel, "mismatches": s["n_mismatch"]}
    for smp in (s.get("samples") or [])[:1]:
        ctx.sample({"family": tag, "id": smp["id"], "source": smp["src"], "expected": {k: smp["expected"][k] for k in ("cls", "v", "log")}})
    if s["n_mismatch"].get("machinery"):
        m = [x for x in s["mismatches"] if x["kind"] == "machinery"][0]
        raise Broken("harness/renderer problem on %s: %s\n%s\nexp %s\ngot %s" % (m["id"], m["what"], m["src"], m.get("exp"), m.get("got")))
    total = sum(s["n_mismatch"].get(k, 0) for k in kinds)
    if total > len([m for m in s["mismatches"] if m["kind"] in kinds]):
        ctx.notes.append("%s: %d mismatching programs, first %d examined" % (tag, total, len(s["mismatches"])))
    for m in s["mismatches"]:
        if m["kind"] not in kinds:
            continue
        p = byid[m["id"]]
        if prop_filter and not prop_filter(p, m):
            continue
        case = {"id": p["id"], "prog": p["prog"], "exp": exps[p["id"]], "unordered": bool(p.get("unordered"))}
        if p.get("ext"):
            case["ext"], case["extinner"] = p["ext"], bool(p.get("extinner"))
        again = single(ctx, binp, case, nconc=nconc, env=env)
        if not any(x["kind"] == m["kind"] for x in again["mismatches"] or []):
            raise Broken("mismatch on %s not reproduced in a fresh process: %s" % (m["id"], m["what"]))
        payload = {"kind": m["kind"], "id": p["id"], "source": m["src"], "prog": p["prog"], "expected": exps[p["id"]], "observed": m.get("got"),
                   "what_differs": m["what"], "unordered": bool(p.get("unordered")), "ext": p.get("ext") or [], "extinner": bool(p.get("extinner"))}
        vlib.violation(ctx, "%s: %s on program %s:\n%s" % (m["kind"], m["what"], p["id"], m["src"][:500]), payload)
    return s


def replay_one(ctx, binp, path, nconc=3, env=None):
    p = json.load(open(path))
    case = {"id": p["id"], "prog": p["prog"], "exp": p["expected"], "unordered": p.get("unordered", False)}
    if p.get("ext"):
        case["ext"], case["extinner"] = p["ext"], bool(p.get("extinner"))
    if vlib.open_findings(ctx, ctx.id):
        for key, cfg in DEVIATIONS:
            if dev_applies(key, p["prog"]):
                dev = evaluate(ctx, [{"id": p["id"], "prog": p["prog"], "ext": p.get("ext"), "extinner": p.get("extinner")}], cfg=cfg)
                if dev.get(p["id"]) and dev[p["id"]] != p["expected"]:
                    case.setdefault("alt", []).append({"key": key, "exp": dev[p["id"]]})
    r = single(ctx, binp, case, nconc=nconc, env=env)
    for key in (r.get("known") or {}):
        for f in vlib.open_findings(ctx, ctx.id):
            if key in f.get("keys", []) or key.startswith("undecided:") and key[len("undecided:"):] in f.get("keys", []):
                print("KNOWN-FINDING: property=%s %s%s" % (ctx.id, f["what"], " (this case passes a point the statements leave open under that deviation: not decided)" if key.startswith("undecided:") else ""))
    bad = any(x["kind"] == p["kind"] for x in r["mismatches"] or [])
    for x in r["mismatches"] or []:
        print(x["kind"], x["what"])
    if bad:
        print("VIOLATION property=%s replay=%s" % (ctx.id, path))
    return 1 if bad else 0
