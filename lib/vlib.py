"""Shared machinery for the anko TLA+ model-based checks.

Exit codes of a check:  0 = property held on everything explored,
                        1 = VIOLATION reproduced on the real code,
                        2 = machinery broken (TLC error, driver death, timeout) -- never a verdict.
"""
import json, os, re, shutil, subprocess, sys, time, hashlib, glob

VERIF = os.path.dirname(os.path.dirname(os.path.abspath(__file__)))
REPO = os.environ.get("VERIF_REPO", "/repo")
SPEC = os.path.join(VERIF, "spec")
HARNESS = os.path.join(VERIF, "harness")
TLA_CP = "/opt/veriftools/tla/tla2tools.jar:/opt/veriftools/tla/CommunityModules-deps.jar"
NCPU = os.cpu_count() or 4


class Broken(Exception):
    """The machinery (not anko) failed: exit 2."""


def goenv():
    e = dict(os.environ)
    e.update(GOFLAGS="-mod=mod", GOPROXY="off", GOSUMDB="off", GOTOOLCHAIN="local", GONOSUMDB="*", GONOSUMCHECK="1")
    return e


class Ctx:
    def __init__(self, pid, tier, seed, level):
        self.id = pid
        self.tier = tier
        self.seed = seed
        self.level = level
        self.t0 = time.time()
        self.work = os.path.join(VERIF, ".work", "%s.%d" % (pid, os.getpid()))
        shutil.rmtree(self.work, ignore_errors=True)
        os.makedirs(self.work)
        self.ntlc = 0
        self.cov = {"states": 0, "transitions": 0, "traces_validated_against_impl": 0, "evaluations": 0,
                    "distinct_nontrivial": 0, "samples": [], "tlc_runs": [], "controls": [], "model_drift": 0,
                    "skipped_out_of_subset": 0}
        self.assumptions = []
        self.violations = []      # (text, replay path)
        self.known = []           # KNOWN-FINDING lines
        self.notes = []
        self.findings = load_findings()

    def quick(self):
        return self.tier == "quick"

    def log(self, *a):
        print("[%s %6.1fs]" % (self.id, time.time() - self.t0), *a, file=sys.stderr, flush=True)

    def sample(self, obj, limit=4):
        if len(self.cov["samples"]) < limit:
            self.cov["samples"].append(obj)

    def cleanup(self):
        shutil.rmtree(self.work, ignore_errors=True)


# ---------------------------------------------------------------- known findings

def load_findings():
    p = os.path.join(VERIF, "KNOWN_FINDINGS.json")
    try:
        return json.load(open(p)).get("findings", [])
    except FileNotFoundError:
        return []


def open_findings(ctx, prop=None):
    return [f for f in ctx.findings if f.get("status") == "open" and (prop is None or prop in f.get("properties", [f.get("property")]))]


# ---------------------------------------------------------------- TLC

class TLCResult:
    def __init__(self):
        self.out = ""
        self.rc = None
        self.generated = 0
        self.distinct = 0
        self.lines = []       # decoded PrintT(ToJson(..)) payloads
        self.violation = None  # name of violated invariant/property, if any
        self.error = None      # TLC evaluation error text
        self.wall = 0.0
        self.postcondition_false = False
        self.deadlock = False


import threading
_TLC_LOCK = threading.Lock()
_JSONLINE = re.compile(r'^"(\{|\[)')


def run_tlc(ctx, module, cfg, workers=None, simulate=None, depth=None, timeout=600, files=None, deque=False,
            extra=None, want_lines=True, copy=None, xss="64m", heap=None, line_cb=None, coverage=False, cfg_dir=None, rename=None):
    """Run TLC on spec/<module>.tla with spec/<cfg> in a scratch directory.  `copy`: extra files (abs paths)
    to place next to the spec (trace files).  Returns TLCResult; raises Broken on timeouts/crashes."""
    with _TLC_LOCK:
        ctx.ntlc += 1
        d = os.path.join(ctx.work, "tlc%d" % ctx.ntlc)
    os.makedirs(d)
    for f in glob.glob(os.path.join(SPEC, "*.tla")):
        shutil.copy(f, d)
    shutil.copy(os.path.join(cfg_dir or SPEC, cfg), os.path.join(d, cfg))
    for f in (copy or []):
        shutil.copy(f, os.path.join(d, (rename or {}).get(os.path.basename(f), os.path.basename(f))))
    tmp = os.path.join(d, "tmp")
    os.makedirs(tmp)
    jopts = ["-Djava.io.tmpdir=" + tmp, "-Xss" + xss, "-XX:+UseParallelGC"]
    if heap:
        jopts.append("-Xmx" + heap)
    if deque:
        jopts.append("-Dtlc2.tool.queue.IStateQueue=StateDeque")
    cmd = ["java"] + jopts + ["-cp", TLA_CP, "tlc2.TLC", "-config", cfg, "-metadir", os.path.join(d, "meta"),
                               "-workers", str(workers or NCPU), "-nowarning"]
    if simulate:
        cmd += ["-simulate", simulate]
    if depth:
        cmd += ["-depth", str(depth)]
    if coverage:
        cmd += ["-coverage", "1"]
    cmd += (extra or [])
    cmd += [module]
    env = dict(os.environ)
    env.pop("JAVA_TOOL_OPTIONS", None)
    r = TLCResult()
    t0 = time.time()
    outp = os.path.join(d, "tlc.out")
    with open(outp, "w") as fo:
        try:
            p = subprocess.run(cmd, cwd=d, env=env, stdout=fo, stderr=subprocess.STDOUT, timeout=timeout)
        except subprocess.TimeoutExpired:
            raise Broken("TLC timeout after %ss: %s %s" % (timeout, module, cfg))
    r.rc = p.returncode
    r.wall = time.time() - t0
    keep = []
    with open(outp, errors="replace") as fi:
        for line in fi:
            if _JSONLINE.match(line):
                if want_lines:
                    try:
                        v = json.loads(json.loads(line))
                    except Exception:
                        keep.append(line)
                        continue
                    if line_cb:
                        line_cb(v)
                    else:
                        r.lines.append(v)
                continue
            keep.append(line)
    r.out = "".join(keep[-400:]) if len(keep) > 400 else "".join(keep)
    full = "".join(keep)
    m = re.findall(r"(\d+) states generated, (\d+) distinct states found", full)
    if m:
        r.generated, r.distinct = int(m[-1][0]), int(m[-1][1])
    m = re.search(r"Invariant (\S+) is violated", full)
    if m:
        r.violation = m.group(1)
    m = re.search(r"(?:Temporal|Action) propert(?:y|ies) (\S+)? ?(?:was|were) violated", full)
    if m:
        r.violation = m.group(1) or "temporal"
    if "Temporal properties were violated" in full:
        r.violation = r.violation or "temporal"
    m = re.search(r"Action property (\S+) is violated", full)
    if m:
        r.violation = m.group(1)
    if "Deadlock reached" in full:
        r.deadlock = True
    if re.search(r"Postcondition .* is false", full):
        r.postcondition_false = True
    m = re.search(r"(Error: .*?(?:\n.*){0,12})", full)
    if m and not r.violation and not r.deadlock and not r.postcondition_false:
        if p.returncode != 0:
            r.error = m.group(1)
    if p.returncode != 0 and not (r.violation or r.deadlock or r.postcondition_false or r.error):
        r.error = "TLC exit %d\n%s" % (p.returncode, full[-3000:])
    ctx.cov["tlc_runs"].append({"module": module, "cfg": cfg, "generated": r.generated, "distinct": r.distinct,
                                "wall_s": round(r.wall, 1), "simulate": simulate or "",
                                "result": r.violation or ("deadlock" if r.deadlock else ("postcondition-false" if r.postcondition_false else ("error" if r.error else "ok")))})
    r.dir = d
    return r


def tlc_ok(ctx, r, what):
    """Model checking of the specification itself must succeed; otherwise the machinery is broken."""
    if r.error or r.violation or r.deadlock or r.postcondition_false:
        raise Broken("%s: TLC did not succeed (%s)\n%s" % (what, r.violation or r.error or "deadlock/postcondition", r.out[-3000:]))
    ctx.cov["states"] += r.distinct
    ctx.cov["transitions"] += r.generated


def tlc_must_fail(ctx, r, what, expect=None):
    """Negative control: the run must report a violation (non-vacuity of the property/trace spec)."""
    bad = r.violation or r.postcondition_false or r.deadlock
    exps = expect if isinstance(expect, (tuple, list, set)) else (expect,)
    ok = bool(bad) and not r.error and (expect is None or r.violation in exps or "postcondition" in exps and r.postcondition_false)
    ctx.cov["controls"].append({"control": what, "detected": bool(ok)})
    if not ok:
        raise Broken("negative control not detected: %s (got %s)\n%s" % (what, r.violation or r.error, r.out[-2000:]))


# ---------------------------------------------------------------- Go harness

def build_harness(ctx, pkg, name=None, race=False, tags="verif", overlay=None, test=False):
    """Build harness/cmd/<pkg> against /repo's current working tree."""
    name = name or pkg
    out = os.path.join(ctx.work, "bin", name + ("-race" if race else ""))
    os.makedirs(os.path.dirname(out), exist_ok=True)
    sync_gosum()
    cmd = ["go", "build"] if not test else ["go", "test", "-c", "-vet=off"]
    cmd += ["-tags", tags, "-o", out]
    if race:
        cmd.append("-race")
    if overlay:
        cmd += ["-overlay", overlay]
    if REPO != "/repo":
        # development only (bin/seedmatrix runs seeded changes in parallel scratch clones): same harness, other replace target
        md = os.path.join(ctx.work, "altmod")
        os.makedirs(md, exist_ok=True)
        open(os.path.join(md, "go.mod"), "w").write(open(os.path.join(HARNESS, "go.mod")).read().replace("=> /repo", "=> " + REPO))
        for gs in (os.path.join(REPO, "go.sum"), os.path.join(HARNESS, "go.sum")):
            if os.path.exists(gs):
                shutil.copy(gs, os.path.join(md, "go.sum"))
                break
        cmd += ["-modfile", os.path.join(md, "go.mod")]
    cmd.append("./cmd/" + pkg)
    t0 = time.time()
    p = subprocess.run(cmd, cwd=HARNESS, env=goenv(), stdout=subprocess.PIPE, stderr=subprocess.STDOUT, text=True)
    if p.returncode != 0:
        raise Broken("harness build failed (%s):\n%s" % (" ".join(cmd), p.stdout[-4000:]))
    ctx.log("built %s in %.1fs" % (name, time.time() - t0))
    return out


def sync_gosum():
    src = os.path.join(REPO, "go.sum")
    dst = os.path.join(HARNESS, "go.sum")
    if os.path.exists(src) and not os.path.exists(dst):
        shutil.copy(src, dst)


def run_cmd(ctx, cmd, timeout=600, stdin=None, env=None, cwd=None, ok_codes=(0,)):
    e = goenv()
    if env:
        e.update(env)
    try:
        p = subprocess.run(cmd, cwd=cwd or ctx.work, env=e, input=stdin, stdout=subprocess.PIPE, stderr=subprocess.PIPE,
                           text=True, timeout=timeout)
    except subprocess.TimeoutExpired:
        raise Broken("timeout after %ss: %s" % (timeout, " ".join(cmd)[:300]))
    if ok_codes is not None and p.returncode not in ok_codes:
        raise Broken("command failed rc=%d: %s\nstdout: %s\nstderr: %s" % (p.returncode, " ".join(cmd)[:300], p.stdout[-3000:], p.stderr[-3000:]))
    return p


def write_ndjson(path, items):
    with open(path, "w") as f:
        for it in items:
            f.write(json.dumps(it, separators=(",", ":")) + "\n")


def read_ndjson(path):
    out = []
    with open(path) as f:
        for line in f:
            line = line.strip()
            if line:
                out.append(json.loads(line))
    return out


def chash(obj):
    return hashlib.sha1(json.dumps(obj, sort_keys=True, separators=(",", ":")).encode()).hexdigest()[:12]


# ---------------------------------------------------------------- verdicts

def replay_file(ctx, payload):
    d = os.path.join(VERIF, "replays")
    os.makedirs(d, exist_ok=True)
    p = os.path.join(d, "%s-%s.json" % (ctx.id, chash(payload)))
    payload = dict(payload)
    payload["property"] = ctx.id
    payload["rerun"] = "bin/check %s --replay %s" % (ctx.id, p)
    with open(p, "w") as f:
        json.dump(payload, f, indent=1, sort_keys=True)
    return p


def run_tlapm(ctx, module, subst=None, timeout=900):
    """Check the proofs of spec/<module>.tla with the TLA+ proof system in a scratch copy of spec/ (tlapm leaves a cache behind).
    subst: (old, new) applied to the module text (negative controls).  -> (all proved, number of obligations, number failed, output tail)"""
    ctx.ntlc += 1
    d = os.path.join(ctx.work, "tlapm%d_%s" % (ctx.ntlc, module))
    os.makedirs(d)
    for f in os.listdir(SPEC):
        if f.endswith(".tla"):
            shutil.copy(os.path.join(SPEC, f), d)
    if subst:
        t = open(os.path.join(d, module + ".tla")).read()
        if subst[0] not in t:
            raise Broken("tlapm control: text to replace not found in " + module)
        open(os.path.join(d, module + ".tla"), "w").write(t.replace(subst[0], subst[1]))
    t0 = time.time()
    try:
        p = subprocess.run(["tlapm", "--threads", str(max(2, NCPU // 2)), module + ".tla"], cwd=d, stdout=subprocess.PIPE, stderr=subprocess.STDOUT, text=True, timeout=timeout)
        out = p.stdout
    except subprocess.TimeoutExpired as e:
        raise Broken("tlapm timed out on " + module)
    m = re.search(r"All (\d+) obligations? proved", out)
    f = re.search(r"(\d+)/(\d+) obligations? failed", out)
    ctx.cov["tlc_runs"].append({"module": module, "cfg": "tlapm" + (" (control: %s -> %s)" % subst if subst else ""), "generated": int(m.group(1)) if m else (int(f.group(2)) if f else 0),
                                "distinct": 0, "wall_s": round(time.time() - t0, 1), "simulate": "", "result": "proved" if m else ("%s obligations failed" % f.group(1) if f else "error")})
    if not m and not f:
        raise Broken("tlapm gave no verdict on %s:\n%s" % (module, out[-1500:]))
    return bool(m), int(m.group(1)) if m else int(f.group(2)), 0 if m else int(f.group(1)), out[-800:]


def violation(ctx, what, payload):
    """Record a violation reproduced on the real code, unless an open known finding names it."""
    key = payload.get("finding_key")
    for f in open_findings(ctx, ctx.id):
        if key and key in f.get("keys", []):
            line = "KNOWN-FINDING: property=%s %s" % (ctx.id, f["what"])
            if line not in ctx.known:
                ctx.known.append(line)
            f.setdefault("_hits", 0)
            f["_hits"] += 1
            return False
    p = replay_file(ctx, dict(payload, what=what))
    if len(ctx.violations) < 25:
        ctx.violations.append((what, p))
    else:
        ctx.violations.append((what, p))
    return True


def finish(ctx, rule, exhaustive=False, explanation=None):
    cov = ctx.cov
    cov["rule"] = rule
    cov["exhaustive"] = bool(exhaustive)
    if explanation:
        cov["explanation"] = explanation
    if not cov["samples"]:
        cov["samples"] = [{"kind": "violation", "what": w[:300]} for w, _ in ctx.violations[:2]] or [{"kind": "tlc run", "run": x} for x in cov["tlc_runs"][:1]]
    cov["checker_cmd"] = "bin/check %s --tier %s" % (ctx.id, ctx.tier)
    cov["known_findings_reported"] = list(ctx.known)
    if ctx.notes:
        cov["notes"] = ctx.notes
    ev = {"property_id": ctx.id, "tier": ctx.tier, "seed": ctx.seed, "level": ctx.level, "coverage": cov,
          "assumptions": ctx.assumptions, "wall_s": round(time.time() - ctx.t0, 1), "violations": len(ctx.violations)}
    evdir = os.environ.get("VERIF_EVIDENCE_DIR") or os.path.join(VERIF, "evidence")   # seeded-change runs write elsewhere
    os.makedirs(evdir, exist_ok=True)
    with open(os.path.join(evdir, ctx.id + ".json"), "w") as f:
        json.dump(ev, f, indent=1)
        f.write("\n")
    for k in ctx.known:
        print(k)
    seen = set()
    for what, p in ctx.violations[:20]:
        if p in seen:
            continue
        seen.add(p)
        print("VIOLATION property=%s replay=%s" % (ctx.id, p))
        print("  " + what[:600], file=sys.stderr)
    ctx.cleanup()
    return 1 if ctx.violations else 0


def validate_lines(ctx, module, cfg, copy, timeout=3000, xss="256m"):
    """Run a one-pass trace spec whose lines are independent: every line is judged, rejected line numbers are printed.
    -> (sorted rejected 1-based line numbers, number of lines, TLCResult)"""
    r = run_tlc(ctx, module, cfg, workers=1, timeout=timeout, copy=copy, want_lines=False, xss=xss)
    if r.error or r.violation:
        raise Broken("%s: %s\n%s" % (module, r.error or r.violation, r.out[-2000:]))
    full = open(os.path.join(r.dir, "tlc.out"), errors="replace").read()
    m = re.findall(r'<<"REACHED", (\d+), (\d+)>>', full)
    if not m:
        raise Broken("%s: no REACHED line\n%s" % (module, r.out[-1500:]))
    reached, total = int(m[-1][0]), int(m[-1][1])
    if reached != total + 1:
        raise Broken("%s stopped at line %d of %d" % (module, reached, total))
    rej = sorted({int(x) for x in re.findall(r'<<"REJECT", (\d+)>>', full)})
    ctx.cov["states"] += r.distinct
    ctx.cov["transitions"] += r.generated
    return rej, total, r
