"""Program families for the language-core properties (C04 C07 C08 C09 C14), as JSON trees in the form
shared by spec/AnkoSem.tla and harness/internal/astjson.  Families are enumerated exhaustively over small
pools (the 'bounded grammar' of the checks); rand_* generators draw wider programs from VERIF_SEED."""
import itertools, json, random


# ---- constructors
def I(i): return {"k": "int", "i": i}
def S(s): return {"k": "str", "s": s}
def B(b): return {"k": "bool", "i": 1 if b else 0}
NIL = {"k": "nil"}
def F(s, src): return {"k": "flt", "s": s, "src": src}
def Id(n): return {"k": "id", "n": n}
def Bin(op, l, r): return {"k": "bin", "op": op, "l": l, "r": r}
def Un(op, e): return {"k": "un", "op": op, "e": e}
def Tern(c, a, b): return {"k": "tern", "c": c, "a": a, "b": b}
def Nilco(l, r): return {"k": "nilco", "l": l, "r": r}
def L(*es): return {"k": "list", "es": list(es)}
def M(*kv): return {"k": "map", "ks": [k for k, _ in kv], "vs": [v for _, v in kv]}
def TL(ty, *es): return {"k": "list", "es": list(es), "ty": ty}                 # []int64{...}
def TM(ty, *kv): return {"k": "map", "ks": [k for k, _ in kv], "vs": [v for _, v in kv], "ty": ty}   # map[string]int64{...}
def Idx(e, i): return {"k": "idx", "e": e, "i": i}
def Addr(e): return {"k": "addr", "e": e}
def Len_(e): return {"k": "len", "e": e}
def Member(e, n): return {"k": "member", "e": e, "n": n}
def Call(n, *args, spread=False): return {"k": "call", "n": n, "args": list(args), "spread": spread}
def ACall(f, *args, spread=False): return {"k": "acall", "f": f, "args": list(args), "spread": spread}
def Fn(ps, body, name="", va=False): return {"k": "fn", "n": name, "ps": list(ps), "va": va, "b": list(body)}
def Inc(n): return {"k": "inc", "n": n}
def Slice(e, lo=None, hi=None, cap=None): return {"k": "slice", "e": e, "lo": [] if lo is None else [lo], "hi": [] if hi is None else [hi], "cap": [] if cap is None else [cap]}
def OpAsg(t, op, e): return {"k": "opasg", "t": t, "op": op, "e": e}       # t op= e
def In(l, r): return Bin("in", l, r)
def Delete(e, key=None): return {"k": "delete", "e": e, "key": [] if key is None else [key]}

def E(e): return {"k": "expr", "e": e}
def P(x): return E(Call("p", x if isinstance(x, dict) else I(x)))
def PV(i, v): return Call("pv", I(i), v)
BRK = {"k": "break"}
CNT = {"k": "continue"}
def Ret(*es): return {"k": "return", "es": list(es)}
def Throw(e): return {"k": "throw", "e": e}
def Let(lhs, rhs):
    lhs = lhs if isinstance(lhs, list) else [lhs]
    rhs = rhs if isinstance(rhs, list) else [rhs]
    return {"k": "let", "lhs": [Id(x) if isinstance(x, str) else x for x in lhs], "rhs": rhs}
def LetMI(a, b, rhs): return {"k": "letmi", "lhs": [Id(a), Id(b)], "rhs": rhs}      # a, b = m[k]


def Var(names, rhs):
    names = names if isinstance(names, list) else [names]
    rhs = rhs if isinstance(rhs, list) else [rhs]
    return {"k": "var", "names": names, "rhs": rhs}
def If(c, then, elifs=(), els=None): return {"k": "if", "c": c, "then": list(then), "elifs": [{"c": c2, "b": list(b2)} for c2, b2 in elifs], "els": [] if els is None else [list(els)]}
def Loop(b): return {"k": "loop", "b": list(b)}
def While(c, b): return {"k": "while", "c": c, "b": list(b)}
def CFor(init, c, post, b): return {"k": "cfor", "init": [init] if init else [], "c": [c] if c else [], "post": [post] if post else [], "b": list(b)}
def ForIn(vs, e, b): return {"k": "forin", "vs": vs if isinstance(vs, list) else [vs], "e": e, "b": list(b)}
def Switch(e, cases, d=None): return {"k": "switch", "e": e, "cases": [{"es": list(es), "b": list(b)} for es, b in cases], "d": [] if d is None else [list(d)]}
def Try(b, cv, c, f=None): return {"k": "try", "b": list(b), "cv": cv, "c": list(c), "f": [] if f is None else [list(f)]}
def Module(n, b): return {"k": "module", "n": n, "b": list(b)}
def Defer(e): return {"k": "defer", "e": e}
def FnStmt(name, ps, body, va=False): return E(Fn(ps, body, name=name, va=va))


class Ctr:
    def __init__(self, start=1): self.n = start - 1
    def __call__(self):
        self.n += 1
        return self.n


# ---------------------------------------------------------------- wrappers: run `body` inside one control construct
# each wrapper returns a list of statements; ctr supplies fresh probe ids; every wrapper puts a probe before and
# after the body inside its block, and one after the construct.

def w_if_then(body, c): return [If(B(True), [P(c())] + body + [P(c())], els=[P(c())]), P(c())]
def w_if_else(body, c): return [If(I(0), [P(c())], els=[P(c())] + body + [P(c())]), P(c())]
def w_elseif(body, c): return [If(NIL, [P(c())], elifs=[(S(""), [P(c())]), (I(1), [P(c())] + body + [P(c())])], els=[P(c())]), P(c())]
def w_forin(body, c): return [ForIn("i", L(I(1), I(2), I(3)), [P(c())] + body + [P(c())]), P(c())]
def w_forchan(body, c): return [ForIn("i", Call("ch", L(I(1), I(2), I(3))), [P(c())] + body + [P(c())]), P(c())]
def w_cfor(body, c): return [CFor(Let("i", I(0)), Bin("<", Id("i"), I(3)), Inc("i"), [P(c())] + body + [P(c())]), P(Id("i")), P(c())]
def w_while(body, c): return [Let("n", I(0)), While(Bin("<", Id("n"), I(3)), [Let("n", Bin("+", Id("n"), I(1))), P(c())] + body + [P(c())]), P(c())]
def w_loop(body, c): return [Let("m", I(0)), Loop([Let("m", Bin("+", Id("m"), I(1))), If(Bin(">", Id("m"), I(3)), [BRK]), P(c())] + body + [P(c())]), P(c())]
def w_switch_case(body, c): return [Switch(I(1), [([I(0)], [P(c())]), ([I(2), I(1)], [P(c())] + body + [P(c())]), ([I(1)], [P(c())])], d=[P(c())]), P(c())]
def w_switch_default(body, c): return [Switch(S("z"), [([S("a")], [P(c())])], d=[P(c())] + body + [P(c())]), P(c())]
def w_try(body, c): return [Try([P(c())] + body + [P(c())], "e", [P(c()), P(Id("e"))]), P(c())]
def w_catch(body, c): return [Try([P(c()), Throw(S("t"))], "e", [P(c())] + body + [P(c())]), P(c())]
def w_func(body, c):
    name = "f%d" % c()
    return [FnStmt(name, [], [P(c())] + body + [P(c()), Ret(I(5))]), Let("r", Call(name)), P(Id("r")), P(c())]
def w_func_arg(body, c):
    name = "g%d" % c()
    return [FnStmt(name, ["x"], [P(Id("x"))] + body + [P(c()), Ret(Bin("+", Id("x"), I(1)))]), P(Call(name, I(c()))), P(c())]
def w_module(body, c): return [Module("md", [P(c())] + body + [P(c())]), P(c())]

WRAP_BRANCH = [w_if_then, w_if_else, w_elseif, w_switch_case, w_switch_default]
WRAP_LOOP = [w_forin, w_forchan, w_cfor, w_while, w_loop]
WRAP_OTHER = [w_try, w_catch, w_func, w_func_arg]
WRAPS = WRAP_BRANCH + WRAP_LOOP + WRAP_OTHER


def leaves(c):
    return [("none", []), ("brk", [BRK]), ("cnt", [CNT]), ("ret", [Ret(I(c()))]), ("retn", [Ret()]), ("ret2", [Ret(I(7), S("s"))]),
            ("thr", [Throw(S("boom"))]), ("rterr", [E(Id("zz"))])]


def fam_c08(depth=2, wraps=None):
    """every nesting of `depth` wrappers with every control leaf at the innermost position"""
    wraps = wraps or WRAPS
    out = []
    for d in range(1, depth + 1):
        for combo in itertools.product(wraps, repeat=d):
            # avoid name clashes of helper variables: at most one of each counting loop wrapper
            if sum(1 for w in combo if w is w_cfor) > 1 or sum(1 for w in combo if w is w_while) > 1 or sum(1 for w in combo if w is w_loop) > 1:
                continue
            c0 = Ctr(10)
            for lname, _ in leaves(c0):
                c = Ctr(10)
                leaf = dict(leaves(c))[lname]
                body = leaf
                for w in reversed(combo):
                    body = w(body, c)
                prog = [P(c())] + body + [Ret(I(99))]
                out.append({"id": "c08-%s-%s" % ("_".join(w.__name__[2:] for w in combo), lname), "prog": prog})
    return out


TRUTH_POOL = [("nil", NIL), ("true", B(True)), ("false", B(False)), ("0", I(0)), ("1", I(1)), ("-1", I(-1)),
              ("0.0", F("0", "0.0")), ("0.5", F("0.5", "0.5")), ("empty", S("")), ("x", S("x")),
              ("[]", L()), ("[0]", L(I(0))), ("{}", M()), ("{k}", M((S("k"), I(1)))),
              # strings that are numerals: zero however it is written is false, anything else true
              ("s-0", S("-0")), ("s+0", S("+0")), ("s00", S("00")), ("s0.00", S("0.00")), ("s.0", S(".0")), ("s0.", S("0.")), ("s-0.0", S("-0.0")), ("s+0.0", S("+0.0")), ("s0e0", S("0e0")), ("s-.0", S("-.0")),
              ("s0", S("0")), ("s0.0", S("0.0")), ("sfalse", S("false")), ("sF", S("F")), ("s-1", S("-1")), ("s+1", S("+1")), ("s0.1", S("0.1")), ("s-0.1", S("-0.1")), ("s.5", S(".5")), ("s00x", S("00x")),
              ("s-", S("-")), ("s0 ", S("0 ")), ("strue", S("true")), ("sT", S("T")), ("sno", S("no"))]


def fam_truth():
    out = []
    for name, v in TRUTH_POOL:
        prog = [If(v, [P(1)], els=[P(2)]),
                If(B(False), [P(3)], elifs=[(v, [P(4)])], els=[P(5)]),
                Let("k", I(0)), While(v, [P(6), Let("k", Bin("+", Id("k"), I(1))), If(Bin(">=", Id("k"), I(2)), [BRK])]),
                CFor(Let("j", I(0)), v, Inc("j"), [P(7), If(Bin(">=", Id("j"), I(1)), [BRK])]),
                P(Tern(v, I(8), I(9))),
                P(Un("!", v)),
                P(Bin("&&", v, PV(10, B(True)))),
                P(Bin("||", v, PV(11, B(False)))),
                Ret(I(0))]
        out.append({"id": "c08-truth-" + name, "prog": prog})
    # if / else-if chains: every truth pattern of four conditions (probed, so that a condition evaluated after the taken branch shows),
    # with and without else; exactly the first truthy branch runs and no later condition is evaluated
    for bits in itertools.product((False, True), repeat=4):
        for els in (False, True):
            conds = [PV(11 + j, B(b)) for j, b in enumerate(bits)]
            prog = [If(conds[0], [P(21)], elifs=[(conds[1], [P(22)]), (conds[2], [P(23)]), (conds[3], [P(24)])], els=[P(25)] if els else None), P(26), Ret(I(0))]
            out.append({"id": "c08-elif-%s-%s" % ("".join("T" if b else "F" for b in bits), "else" if els else "noelse"), "prog": prog})
    # the same with truthy / falsy values of other kinds
    for name, v in TRUTH_POOL:
        prog = [If(B(False), [P(21)], elifs=[(v, [P(22)]), (v, [P(23)]), (B(True), [P(24)])], els=[P(25)]), P(26), Ret(I(0))]
        out.append({"id": "c08-elif-kind-" + name, "prog": prog})
    return out


def fam_switch():
    out = []
    subj = [I(0), I(1), I(2), S("a"), NIL]
    for si, s in enumerate(subj):
        for dpos in (None, "first", "last"):
            cases = [([PV(1, I(1))], [P(21)]), ([PV(2, I(0)), PV(3, I(2))], [P(22)]), ([PV(4, I(2))], [P(23)])]
            if s.get("k") == "str":
                cases = [([PV(1, S("b"))], [P(21)]), ([PV(2, S("a")), PV(3, S("a"))], [P(22)]), ([PV(4, S("a"))], [P(23)])]
            if s.get("k") == "nil":
                cases = [([PV(1, NIL)], [P(21)]), ([PV(2, NIL)], [P(22)])]
            d = [P(29)] if dpos else None
            prog = [Switch(s, cases, d=d), P(30), Ret(I(0))]
            out.append({"id": "c08-switch-%d-%s" % (si, dpos), "prog": prog})
    # a case without statements that matches: nothing runs (not the default, not the next case)
    for sv in (0, 1, 2, 5):
        for empty in (0, 1, 2):
            cases = [([I(0)], [P(21)]), ([I(1), PV(2, I(5))], [P(22)]), ([I(2)], [P(23)])]
            cases[empty] = (cases[empty][0], [])
            for d in (None, [P(29)]):         # (an empty default clause is no default clause in the tree)
                out.append({"id": "c08-switch-empty-%d-%d-%s" % (sv, empty, "nod" if d is None else "d"), "prog": [Switch(I(sv), cases, d=d), P(30), Ret(I(0))]})
    # break / continue leaving a try (or its catch block) that has a finally clause still act on the loop
    for leaf, nm in ((BRK, "brk"), (CNT, "cnt")):
        for where in ("try", "catch"):
            body = [P(1), leaf, P(2)] if where == "try" else [P(1), Throw(S("t")), P(2)]
            catch = [P(3)] if where == "try" else [P(3), leaf, P(4)]
            prog = [ForIn("i", L(I(1), I(2), I(3)), [P(Id("i")), Try(body, "e", catch, f=[P(5)]), P(6)]), P(7), Ret(I(0))]
            out.append({"id": "c08-jump-through-finally-%s-%s" % (nm, where), "prog": prog})
            prog = [Let("n", I(0)), Loop([Let("n", Bin("+", Id("n"), I(1))), If(Bin(">", Id("n"), I(3)), [BRK]), Try(body, "e", catch, f=[P(5)]), P(6)]), P(7), Ret(I(0))]
            out.append({"id": "c08-jump-through-finally-loop-%s-%s" % (nm, where), "prog": prog})
    # nil is equal only to nil: a nil case never matches another subject, another case never a nil subject, wherever the clause stands
    for sv, sn in ((I(0), "zero"), (I(1), "one"), (S(""), "empty"), (B(False), "false"), (L(), "list"), (NIL, "nil")):
        for order in ("nil-first", "nil-last", "nil-mid"):
            own = ([sv], [P(22)])
            nilc = ([NIL], [P(21)])
            other = ([I(7)], [P(23)])
            cases = {"nil-first": [nilc, own, other], "nil-last": [other, own, nilc], "nil-mid": [other, nilc, own]}[order]
            out.append({"id": "c08-switch-nilcase-%s-%s" % (sn, order), "prog": [Let("x", sv), Switch(Id("x"), cases, d=[P(29)]), Switch(sv, [c for c in cases if c is not own], d=[P(28)]), P(30), Ret(I(0))]})
    # C-style loops of every shape (each of init / condition / post present or not, the condition a literal or a comparison) with break and continue:
    # continue goes on with the post expression (when there is one) and the next test of the condition
    for init in (None, "init"):
        for cond in (None, "lit", "cmp"):
            for post in (None, "inc"):
                for jump in ("none", "cnt", "cnt-first"):
                    body = [Let("n", Bin("+", Id("n"), I(1))), If(Bin(">", Id("n"), I(4)), [BRK]), P(Id("n"))]
                    if jump == "cnt":
                        body += [If(Bin("==", Id("n"), I(2)), [CNT]), P(50)]
                    if jump == "cnt-first":
                        body = [Let("lit", I(5)), Let("n", Bin("+", Id("n"), I(1))), If(Bin(">", Id("n"), I(4)), [BRK]), If(Bin("<", Id("n"), I(3)), [CNT]), P(Id("n"))]
                    c = None if cond is None else (B(True) if cond == "lit" else Bin("<", Id("n"), I(9)))
                    loop = CFor(Let("i", I(0)) if init else None, c, Inc("i") if post else None, body)
                    out.append({"id": "c08-cfor-shape-%s-%s-%s-%s" % (init, cond, post, jump), "prog": [Let("n", I(0)), Let("i", I(0)), loop, P(Id("i")), P(60), Ret(I(0))]})
                    # ... inside an enclosing loop, whose remaining body and iterations must still run, and inside a function
                    out.append({"id": "c08-cfor-shape-nested-%s-%s-%s-%s" % (init, cond, post, jump),
                                "prog": [Let("i", I(0)), ForIn("o", L(I(1), I(2)), [Let("n", I(0)), loop, P(Id("o"))]), P(60), Ret(I(0))]})
                    out.append({"id": "c08-cfor-shape-func-%s-%s-%s-%s" % (init, cond, post, jump),
                                "prog": [Let("i", I(0)), FnStmt("f", [], [Let("n", I(0)), loop, Ret(Id("n"))]), P(Call("f")), P(60), Ret(I(0))]})
    # break inside switch inside loop acts on the loop
    for leaf, nm in ((BRK, "brk"), (CNT, "cnt")):
        prog = [ForIn("i", L(I(1), I(2), I(3)), [P(Id("i")), Switch(Id("i"), [([I(2)], [P(40), leaf, P(41)])], d=[P(42)]), P(43)]), P(44), Ret(I(0))]
        out.append({"id": "c08-switch-loop-" + nm, "prog": prog})
    return out


def fam_forin():
    out = []
    subjects = [("list", L(I(5), I(6), I(7))), ("empty", L()), ("nested", L(L(I(1)), L(I(2), I(3)))), ("strs", L(S("a"), S("b")))]
    for nm, e in subjects:
        out.append({"id": "c08-forin-" + nm, "prog": [ForIn("v", e, [P(Id("v"))]), P(9), Ret(I(0))]})
    out.append({"id": "c08-forin-map", "unordered": True,
                "prog": [ForIn(["k", "v"], M((S("a"), I(1)), (S("b"), I(2)), (S("c"), I(3))), [P(Id("k")), P(Id("v"))]), P(9), Ret(I(0))]})
    out.append({"id": "c08-forin-map1", "unordered": True,
                "prog": [ForIn(["k"], M((S("a"), I(1)), (S("b"), I(2))), [P(Id("k"))]), P(9), Ret(I(0))]})
    # every entry once -- whatever its value is: nil, false, zero, empty containers
    for nm, vals in (("nilvals", [NIL, I(1), NIL]), ("falsy", [B(False), I(0), S("")]), ("empties", [L(), M(), NIL]), ("allnil", [NIL, NIL])):
        m = M(*[(S("k%d" % j), v) for j, v in enumerate(vals)])
        out.append({"id": "c08-forin-map2-" + nm, "unordered": True, "prog": [Let("n", I(0)), ForIn(["k", "v"], m, [P(Id("k")), Let("n", Bin("+", Id("n"), I(1)))]), P(9), Ret(Id("n"))]})
        out.append({"id": "c08-forin-map1-" + nm, "unordered": True, "prog": [Let("n", I(0)), ForIn(["k"], m, [P(Id("k")), Let("n", Bin("+", Id("n"), I(1)))]), P(9), Ret(Id("n"))]})
        out.append({"id": "c08-forin-list-" + nm, "prog": [Let("n", I(0)), ForIn(["v"], L(*vals), [P(Id("v")), Let("n", Bin("+", Id("n"), I(1)))]), P(9), Ret(Id("n"))]})
    # break / continue / return in a loop over a MAP (counters: independent of the order of the entries), alone and nested in / around other loops
    m3 = M((S("a"), I(1)), (S("b"), I(2)), (S("c"), I(3)))
    for vs in (["k"], ["k", "v"]):
        vn = "kv" if len(vs) == 2 else "k"
        cnt = Let("n", Bin("+", Id("n"), I(1)))
        out.append({"id": "c08-formap-brk-" + vn, "prog": [Let("n", I(0)), ForIn(vs, m3, [cnt, BRK, P(8)]), P(Id("n")), Ret(I(0))]})
        out.append({"id": "c08-formap-brk-if-" + vn, "prog": [Let("n", I(0)), ForIn(vs, m3, [cnt, If(Bin("==", Id("n"), I(2)), [BRK])]), P(Id("n")), Ret(I(0))]})
        out.append({"id": "c08-formap-cnt-" + vn, "prog": [Let("n", I(0)), Let("q", I(0)), ForIn(vs, m3, [cnt, CNT, Let("q", I(9))]), P(Id("n")), P(Id("q")), Ret(I(0))]})
        out.append({"id": "c08-formap-ret-" + vn, "prog": [Let("n", I(0)), FnStmt("f", [], [ForIn(vs, m3, [cnt, Ret(I(5))]), Ret(I(6))]), P(Call("f")), P(Id("n")), Ret(I(0))]})
        out.append({"id": "c08-formap-thr-" + vn, "prog": [Let("n", I(0)), Try([ForIn(vs, m3, [cnt, Throw(S("t"))])], "e", [P(Id("e"))]), P(Id("n")), Ret(I(0))]})
        out.append({"id": "c08-formap-brk-nested-in-list-" + vn, "prog": [Let("n", I(0)), ForIn("i", L(I(1), I(2), I(3), I(4)), [ForIn(vs, m3, [cnt, BRK])]), P(Id("n")), Ret(I(0))]})
        out.append({"id": "c08-formap-brk-nested-in-map-" + vn, "prog": [Let("n", I(0)), ForIn(["j"], m3, [ForIn(vs, m3, [cnt, BRK])]), P(Id("n")), Ret(I(0))]})
        out.append({"id": "c08-formap-inner-list-brk-" + vn, "prog": [Let("n", I(0)), ForIn(vs, m3, [ForIn("i", L(I(1), I(2)), [cnt, BRK])]), P(Id("n")), Ret(I(0))]})
        out.append({"id": "c08-formap-brk-in-switch-" + vn, "prog": [Let("n", I(0)), ForIn(vs, m3, [cnt, Switch(I(1), [([I(1)], [BRK])]), P(8)]), P(Id("n")), Ret(I(0))]})
        out.append({"id": "c08-formap-brk-in-try-" + vn, "prog": [Let("n", I(0)), ForIn(vs, m3, [cnt, Try([BRK], "e", [P(60)])]), P(Id("n")), Ret(I(0))]})
        out.append({"id": "c08-formap-brk-while-" + vn, "prog": [Let("n", I(0)), Let("w", I(0)), While(Bin("<", Id("w"), I(2)), [Let("w", Bin("+", Id("w"), I(1))), ForIn(vs, m3, [cnt, BRK])]), P(Id("n")), Ret(I(0))]})
    # loop conditions of every truthiness class, negative numbers included (anything but zero is true)
    for nm, c, truthy in (("neg", I(-1), True), ("negbig", I(-4096), True), ("negflt", F("-0.5", "-0.5"), True), ("zero", I(0), False), ("pos", I(2), True)):
        out.append({"id": "c08-loopcond-while-" + nm, "prog": [Let("n", I(0)), While(c, [P(1), Let("n", Bin("+", Id("n"), I(1))), If(Bin(">=", Id("n"), I(2)), [BRK])]), P(9), Ret(Id("n"))]})
        out.append({"id": "c08-loopcond-cfor-" + nm, "prog": [CFor(Let("j", I(0)), c, Inc("j"), [P(2), If(Bin(">=", Id("j"), I(1)), [BRK])]), P(9), Ret(I(0))]})
        out.append({"id": "c08-loopcond-if-" + nm, "prog": [If(c, [P(3)], els=[P(4)]), P(Tern(c, I(5), I(6))), Ret(I(0))]})
    # long lists (beyond any chunking an implementation might use): break / continue / return / an error end or skip exactly where they stand
    big = L(*[I(k) for k in range(300)])
    for nm, leaf in (("brk", [BRK]), ("ret", [Ret(I(5))]), ("thr", [Throw(S("t"))]), ("cnt", [CNT])):
        for at in (10, 255, 256, 257):
            body = [Let("n", Bin("+", Id("n"), I(1))), If(Bin("==", Id("x"), I(at)), leaf), If(Bin(">", Id("x"), I(at + 2)), [BRK])]
            loop = ForIn(["x"], big, body)
            if nm == "ret":
                prog = [Let("n", I(0)), FnStmt("f", [], [loop, Ret(I(0))]), P(Call("f")), P(Id("n")), Ret(I(0))]
            elif nm == "thr":
                prog = [Let("n", I(0)), Try([loop], "e", [P(Id("e"))]), P(Id("n")), Ret(I(0))]
            else:
                prog = [Let("n", I(0)), loop, P(Id("n")), Ret(I(0))]
            out.append({"id": "c08-forin-long-%s-%d" % (nm, at), "prog": prog})
    out.append({"id": "c08-forin-bad", "prog": [P(1), ForIn("v", I(3), [P(2)]), P(3), Ret(I(0))]})
    # return value forms
    for nm, r in (("none", Ret()), ("one", Ret(I(4))), ("two", Ret(I(4), S("x"))), ("list", Ret(L(I(1), I(2)))), ("nil", Ret(NIL))):
        out.append({"id": "c08-retform-" + nm, "prog": [FnStmt("f", [], [P(1), r]), Let("r", Call("f")), P(Id("r")), Ret(Id("r"))]})
        out.append({"id": "c08-retdeep-" + nm, "prog": [FnStmt("f", [], [ForIn("i", L(I(1), I(2)), [While(B(True), [If(B(True), [Switch(I(1), [([I(1)], [P(1), r])])])])]), P(2), Ret(I(77))]),
                                                         Let("r", Call("f")), P(Id("r")), Ret(Id("r"))]})
    return out


# ---------------------------------------------------------------- C04: scope
def rd(n): return P(Nilco(Id(n), S("undef")))


def s_if(body, c): return [If(B(True), body)]
def s_else(body, c): return [If(B(False), [P(c())], els=body)]
def s_elseif(body, c): return [If(B(False), [P(c())], elifs=[(B(True), body)])]
def s_forin(body, c): return [ForIn("i", L(I(1), I(2)), body)]
def s_cfor(body, c): return [CFor(Let("q", I(0)), Bin("<", Id("q"), I(2)), Inc("q"), body)]
def s_while(body, c): return [Let("w", I(0)), While(Bin("<", Id("w"), I(2)), [Let("w", Bin("+", Id("w"), I(1)))] + body)]
def s_switch(body, c): return [Switch(I(1), [([I(1)], body)])]
def s_default(body, c): return [Switch(I(1), [([I(0)], [P(c())])], d=body)]
def s_try(body, c): return [Try(body, "e", [P(c())])]
def s_catch(body, c): return [Try([Throw(S("t"))], "e", body)]
def s_finally(body, c): return [Try([P(c())], "e", [P(c())], f=body)]
def s_func(body, c):
    n = "h%d" % c()
    return [FnStmt(n, [], body + [Ret(I(0))]), E(Call(n))]
def s_anon(body, c): return [E(ACall(Fn([], body + [Ret(I(0))])))]
def s_module(body, c): return [Module("mo%d" % c(), body)]

SCOPE_WRAPS = [s_if, s_else, s_elseif, s_forin, s_cfor, s_while, s_switch, s_default, s_try, s_catch, s_finally, s_func, s_anon, s_module]
EXITS = {"normal": [], "brk": [BRK], "cnt": [CNT], "ret": [Ret(I(3))], "thr": [Throw(S("x"))]}


def fam_c04(depth=2):
    out = []
    acts = {"none": lambda n, v: [], "set": lambda n, v: [Let(n, I(v))], "var": lambda n, v: [Var(n, I(v))]}
    for d in range(1, depth + 1):
        for combo in itertools.product(SCOPE_WRAPS, repeat=d):
            if d == 2 and (combo[0] in (s_cfor, s_while) and combo[1] is combo[0]):
                continue
            inner_try = combo[-1] is s_try
            for pre, a1, a2 in itertools.product(acts, repeat=3):
                if d == 1 and a2 != "none":
                    continue
                for ex in (EXITS if d == 1 else ("normal", "brk", "ret", "thr")):
                    if inner_try and a1 == "var" and d == 1:
                        pass
                    c = Ctr(50)
                    # innermost block
                    lvl = d
                    body = acts[a1]("a", lvl * 10) + [rd("a"), rd("b"), Let("b", I(lvl))] + EXITS[ex] + [rd("a")]
                    if d == 2:
                        inner = combo[1](body, c)
                        body = acts[a2]("a", 5) + [rd("a")] + inner + [rd("a"), rd("b")]
                    stmts = combo[0](body, c)
                    core = acts[pre]("a", 1) + stmts + [rd("a"), rd("b")]
                    if ex == "thr":
                        core = acts[pre]("a", 1) + [Try(stmts, "e", [P(Id("e"))])] + [rd("a"), rd("b")]
                    if ex == "ret":
                        # run inside a function so that execution continues after the statement's function returns
                        prog = [FnStmt("outer", [], core + [Ret(I(1))]), P(Call("outer")), rd("a"), rd("b"), Ret(I(0))]
                    elif ex in ("brk", "cnt"):
                        prog = acts[pre]("a", 1) + [ForIn("z", L(I(1), I(2)), stmts + [rd("a")])] + [rd("a"), rd("b"), Ret(I(0))]
                    else:
                        prog = core + [Ret(I(0))]
                    out.append({"id": "c04-%s-%s%s%s-%s" % ("_".join(w.__name__[2:] for w in combo), pre[0], a1[0], a2[0], ex), "prog": prog})
    return out


def fam_c04_deep(seed, n):
    """depth-3 nestings sampled from the full product (thorough tier)"""
    r = random.Random(seed)
    acts = {"none": lambda nm, v: [], "set": lambda nm, v: [Let(nm, I(v))], "var": lambda nm, v: [Var(nm, I(v))]}
    out = []
    for k in range(n):
        combo = [r.choice(SCOPE_WRAPS) for _ in range(3)]
        if len(set(w for w in combo if w in (s_cfor, s_while))) < len([w for w in combo if w in (s_cfor, s_while)]):
            continue
        a = [r.choice(list(acts)) for _ in range(4)]
        ex = r.choice(["normal", "normal", "thr", "ret"])
        c = Ctr(50)
        body = acts[a[0]]("a", 30) + [rd("a"), rd("b"), Let("b", I(3))] + EXITS[ex] + [rd("a")]
        body = acts[a[1]]("a", 20) + [rd("a")] + combo[2](body, c) + [rd("a"), rd("b")]
        body = acts[a[2]]("a", 10) + [rd("a")] + combo[1](body, c) + [rd("a"), rd("b")]
        stmts = combo[0](body, c)
        if ex == "thr":
            core = acts[a[3]]("a", 1) + [Try(stmts, "e", [P(Id("e"))])] + [rd("a"), rd("b")]
            prog = core + [Ret(I(0))]
        elif ex == "ret":
            core = acts[a[3]]("a", 1) + stmts + [rd("a"), rd("b")]
            prog = [FnStmt("outer", [], core + [Ret(I(1))]), P(Call("outer")), rd("a"), rd("b"), Ret(I(0))]
        else:
            prog = acts[a[3]]("a", 1) + stmts + [rd("a"), rd("b"), Ret(I(0))]
        out.append({"id": "c04-d3-%d" % k, "prog": prog})
    return out


def fam_c04_delete(step=1):
    """delete("name") unbinds the name in the CURRENT block only, delete("name", true) the nearest binding: inside every block kind, with the
    name bound outside, inside, or both; reads after every block."""
    out = []
    acts = {"del": lambda: [Delete(S("a"))], "delg": lambda: [Delete(S("a"), B(True))], "vardel": lambda: [Var("a", I(7)), rd("a"), Delete(S("a"))],
            "vardelg": lambda: [Var("a", I(7)), rd("a"), Delete(S("a"), B(True))], "delgdelg": lambda: [Var("a", I(7)), Delete(S("a"), B(True)), rd("a"), Delete(S("a"), B(True))]}
    pres = {"set": [Let("a", I(1))], "none": []}
    nseen = [0]
    for d in (1, 2):
        for combo in itertools.product(SCOPE_WRAPS, repeat=d):
            if d == 2 and (combo[0] in (s_cfor, s_while) and combo[1] is combo[0]):
                continue
            for pre in pres:
                for a1 in acts:
                    for a2 in (("none",) if d == 1 else ("none", "var")):
                        if d == 2 and pre == "none" and a2 == "none":
                            continue
                        c = Ctr(50)
                        body = acts[a1]() + [rd("a"), Let("b", I(d))]
                        if d == 2:
                            body = ([Var("a", I(5))] if a2 == "var" else []) + [rd("a")] + combo[1](body, c) + [rd("a"), rd("b")]
                        prog = pres[pre] + combo[0](body, c) + [rd("a"), rd("b"), Ret(I(0))]
                        nseen[0] += 1
                        if d == 2 and nseen[0] % step:
                            continue                       # (quick tier: every step-th of the depth-2 nestings)
                        out.append({"id": "c04-del-%s-%s-%s-%s" % ("_".join(w.__name__[2:] for w in combo), pre, a1, a2), "prog": prog})
    def add(n, prog): out.append({"id": "c04-del-" + n, "prog": prog})
    add("param", [FnStmt("f", ["a"], [Delete(S("a")), Ret(Nilco(Id("a"), S("undef")))]), P(Call("f", I(4))), Let("a", I(1)), P(Call("f", I(4))), rd("a"), Ret(I(0))])
    add("param-global", [Let("a", I(1)), FnStmt("f", ["a"], [Delete(S("a"), B(True)), rd("a"), Delete(S("a"), B(True)), rd("a"), Ret(I(0))]), E(Call("f", I(4))), rd("a"), Ret(I(0))])
    add("captured", [FnStmt("mk", [], [Var("n", I(5)), Ret(L(Fn([], [Delete(S("n"), B(True)), Ret(I(0))]), Fn([], [Ret(Nilco(Id("n"), S("undef")))])))]),
                     Let("fs", Call("mk")), P(ACall(Idx(Id("fs"), I(1)))), E(ACall(Idx(Id("fs"), I(0)))), P(ACall(Idx(Id("fs"), I(1)))), rd("n"), Ret(I(0))])
    add("captured-local-only", [FnStmt("mk", [], [Var("n", I(5)), Ret(L(Fn([], [Delete(S("n")), Ret(I(0))]), Fn([], [Ret(Nilco(Id("n"), S("undef")))])))]),
                                Let("fs", Call("mk")), E(ACall(Idx(Id("fs"), I(0)))), P(ACall(Idx(Id("fs"), I(1)))), Ret(I(0))])
    add("module", [Module("mo", [Let("x", I(1)), FnStmt("d", [], [Delete(S("x"), B(True)), Ret(I(0))]), FnStmt("g", [], [Ret(Nilco(Id("x"), S("undef")))])]),
                   P(ACall(Member(Id("mo"), "g"))), E(ACall(Member(Id("mo"), "d"))), P(ACall(Member(Id("mo"), "g"))), P(Nilco(Member(Id("mo"), "x"), S("undef"))), rd("x"), Ret(I(0))])
    add("module-outer-untouched", [Let("x", I(9)), Module("mo", [Let("x", I(1)), Delete(S("x")), rd("x")]), rd("x"), Ret(I(0))])
    add("rebind-after", [Let("a", I(1)), If(B(True), [Delete(S("a"), B(True)), Let("a", I(2)), rd("a")]), rd("a"), Ret(I(0))])
    add("loop-var", [ForIn("i", L(I(1), I(2)), [Delete(S("i")), rd("i")]), rd("i"), Ret(I(0))])
    add("catch-var", [Try([Throw(S("t"))], "e", [rd("e"), Delete(S("e")), rd("e")]), rd("e"), Ret(I(0))])
    add("function-name", [FnStmt("f", [], [Ret(I(1))]), Delete(S("f")), P(Nilco(Call("f"), S("gone"))), Ret(I(0))])
    return out


def fam_c04_ext(step=13):
    """The host has installed an external lookup on the outermost scope that resolves the names a and b (to 99): a name the script binds in any
    enclosing scope still wins everywhere -- in blocks, functions and modules -- and only an unbound name reaches the lookup."""
    out = []
    k = 0
    for p in fam_c04(2):
        d1 = p["id"].count("_") == 0
        k += 1
        if d1 or k % step == 0:
            out.append({"id": p["id"].replace("c04-", "c04-ext-", 1), "prog": p["prog"], "ext": ["a", "b"]})
    def add(n, prog, ext=("a", "b")): out.append({"id": "c04-ext-" + n, "prog": prog, "ext": list(ext)})
    for pre in ("set", "none"):
        setup = [Let("a", I(10))] if pre == "set" else []
        add("module-body-%s" % pre, setup + [Module("mo", [rd("a"), If(B(True), [rd("a")]), Let("c", Id("a")), rd("c")]), rd("a"), Ret(I(0))])
        add("module-func-%s" % pre, setup + [Module("mo", [FnStmt("g", [], [Ret(Id("a"))]), FnStmt("inc", [], [Let("a", Bin("+", Id("a"), I(1))), Ret(Id("a"))])]),
                                            P(ACall(Member(Id("mo"), "g"))), P(ACall(Member(Id("mo"), "inc"))), P(ACall(Member(Id("mo"), "g"))), rd("a"), Ret(I(0))])
        add("module-nested-%s" % pre, setup + [Module("mo", [Module("mi", [FnStmt("g", [], [Ret(Id("a"))])]), FnStmt("h", [], [Ret(ACall(Member(Id("mi"), "g")))])]),
                                              P(ACall(Member(Id("mo"), "h"))), Ret(I(0))])
        add("module-in-func-%s" % pre, setup + [FnStmt("mk", [], [Var("a", I(20)), Module("mo", [FnStmt("g", [], [Ret(Id("a"))])]), Ret(ACall(Member(Id("mo"), "g")))]), P(Call("mk")), rd("a"), Ret(I(0))])
        add("closure-%s" % pre, setup + [FnStmt("mk", [], [Ret(Fn([], [Ret(Id("a"))]))]), Let("f", Call("mk")), P(ACall(Id("f"))), Let("a", I(30)), P(ACall(Id("f"))), Ret(I(0))])
        add("delete-%s" % pre, setup + [rd("a"), Delete(S("a")), rd("a"), Let("a", I(5)), rd("a"), Delete(S("a"), B(True)), rd("a"), Ret(I(0))])
        add("opasg-%s" % pre, setup + [If(B(True), [E(OpAsg(Id("a"), "+", I(2))), rd("a")]), rd("a"), Ret(I(0))])
    add("call-unbound", [P(Nilco(Call("a", I(1)), S("notfunc"))), Ret(I(0))])
    add("shadow-param", [FnStmt("f", ["a"], [Ret(Id("a"))]), P(Call("f", I(1))), FnStmt("g", ["x"], [Ret(Id("a"))]), P(Call("g", I(1))), Ret(I(0))])
    add("forin-var", [ForIn("a", L(I(1), I(2)), [rd("a")]), rd("a"), Ret(I(0))])
    add("catch-var", [Try([Throw(S("t"))], "a", [rd("a")]), rd("a"), Ret(I(0))])
    # the same programs with the lookup on a scope nested in the host's (which binds a and b itself): the lookup is asked before the enclosing scope
    out += [dict(p, id=p["id"].replace("c04-ext-", "c04-extinner-", 1), extinner=True) for p in out]
    return out


def fam_c04_hostnil():
    """A nil map / nil list of a concrete Go type bound by the host grows by being stored back into the binding that holds it -- the NEAREST one,
    from whatever block the store is made (plain assignment semantics), never a new binding in the current block."""
    out = []
    stores = {"member": lambda: [Let([Member(Id("hnm"), "k")], [I(1)])], "item": lambda: [Let([Idx(Id("hnm"), S("k"))], [I(1)])], "append": lambda: [E(OpAsg(Id("hnl"), "+", I(7)))],
              "index-len": lambda: [Let([Idx(Id("hnl"), I(0))], [I(7)])], "member-twice": lambda: [Let([Member(Id("hnm"), "k")], [I(1)]), Let([Member(Id("hnm"), "j")], [I(2)])],
              "opasg-item": lambda: [Let([Idx(Id("hnm"), S("k"))], [I(1)]), E(OpAsg(Idx(Id("hnm"), S("k")), "+", I(4)))]}
    obs = [P(Id("hnm")), P(Id("hnl")), P(Len_(Id("hnm"))), P(Len_(Id("hnl")))]
    for d in (1, 2):
        for combo in itertools.product(SCOPE_WRAPS, repeat=d):
            if d == 2 and ((combo[0] in (s_cfor, s_while) and combo[1] is combo[0]) or (SCOPE_WRAPS.index(combo[0]) + SCOPE_WRAPS.index(combo[1])) % 3):
                continue
            for sn, st in stores.items():
                c = Ctr(50)
                body = st() + obs
                if d == 2:
                    body = combo[1](body, c) + obs
                prog = combo[0](body, c) + obs + [Ret(I(0))]
                out.append({"id": "c04-hostnil-%s-%s" % ("_".join(w.__name__[2:] for w in combo), sn), "prog": prog})
    out.append({"id": "c04-hostnil-closure", "prog": [Let("f", Fn([], [Let([Member(Id("hnm"), "k")], [I(1)]), Ret(Id("hnm"))])), P(ACall(Id("f")))] + obs + [Ret(I(0))]})
    out.append({"id": "c04-hostnil-shadowed", "prog": [If(B(True), [Var("hnm", M()), Let([Member(Id("hnm"), "k")], [I(1)]), P(Id("hnm"))])] + obs + [Ret(I(0))]})
    out.append({"id": "c04-hostnil-param", "prog": [FnStmt("g", ["q"], [Let([Member(Id("q"), "k")], [I(1)]), Ret(Id("q"))]), P(Call("g", Id("hnm")))] + obs + [Ret(I(0))]})
    return out


def fam_closures():
    out = []
    def add(n, prog): out.append({"id": "c04-clo-" + n, "prog": prog})
    add("byref", [Let("a", I(1)), Let("f", Fn([], [Ret(Id("a"))])), Let("a", I(2)), P(ACall(Id("f"))), Ret(I(0))])
    add("counter", [FnStmt("mk", [], [Var("n", I(0)), Ret(Fn([], [Let("n", Bin("+", Id("n"), I(1))), Ret(Id("n"))]))]),
                    Let("c1", Call("mk")), Let("c2", Call("mk")), P(ACall(Id("c1"))), P(ACall(Id("c1"))), P(ACall(Id("c2"))), P(ACall(Id("c1"))), Ret(I(0))])
    add("escape", [Let("g", NIL), If(B(True), [Var("x", I(10)), Let("g", Fn([], [Let("x", Bin("+", Id("x"), I(1))), Ret(Id("x"))]))]),
                   rd("x"), P(ACall(Id("g"))), P(ACall(Id("g"))), rd("x"), Ret(I(0))])
    add("param-shadow", [Let("x", I(1)), FnStmt("f", ["x"], [Let("x", Bin("+", Id("x"), I(10))), P(Id("x")), Ret(Id("x"))]), P(Call("f", I(5))), P(Id("x")), Ret(I(0))])
    add("local-assign-creates-local", [FnStmt("f", [], [Let("y", I(3)), P(Id("y")), Ret(I(0))]), E(Call("f")), rd("y"), Ret(I(0))])
    add("assign-updates-outer", [Let("y", I(1)), FnStmt("f", [], [Let("y", I(3)), Ret(I(0))]), E(Call("f")), P(Id("y")), Ret(I(0))])
    add("var-shadows-outer", [Let("y", I(1)), FnStmt("f", [], [Var("y", I(3)), P(Id("y")), Ret(I(0))]), E(Call("f")), P(Id("y")), Ret(I(0))])
    add("recursion-locals", [FnStmt("f", ["n"], [Var("x", Id("n")), If(Bin(">", Id("n"), I(0)), [E(Call("f", Bin("-", Id("n"), I(1))))]), P(Id("x")), Ret(Id("x"))]),
                             P(Call("f", I(3))), Ret(I(0))])
    add("fact", [FnStmt("fact", ["n"], [If(Bin("<=", Id("n"), I(1)), [Ret(I(1))]), Var("r", Bin("*", Id("n"), Call("fact", Bin("-", Id("n"), I(1))))), Ret(Id("r"))]),
                 P(Call("fact", I(5))), Ret(I(0))])
    add("reentrant", [FnStmt("f", ["n", "g"], [Var("loc", Id("n")), If(Bin("!=", Id("g"), NIL), [E(ACall(Id("g"), I(99), NIL))]), P(Id("loc")), Ret(Id("loc"))]),
                      P(Call("f", I(1), Id("f"))), Ret(I(0))])
    add("loopvar-after", [ForIn("i", L(I(1), I(2)), [Let("t", Id("i"))]), rd("i"), rd("t"), Ret(I(0))])
    add("catchvar-after", [Try([Throw(S("q"))], "e", [P(Id("e"))]), rd("e"), Ret(I(0))])
    add("module-private", [Module("m", [Let("x", I(1)), FnStmt("get", [], [Ret(Id("x"))])]), rd("x"), P(Member(Id("m"), "x")), P(ACall(Member(Id("m"), "get"))),
                           Let([Member(Id("m"), "x")], [I(5)]), P(ACall(Member(Id("m"), "get"))), rd("x"), Ret(I(0))])
    add("module-outer", [Let("o", I(1)), Module("m", [Let("o", I(2)), Let("z", I(3))]), P(Id("o")), rd("z"), P(Member(Id("m"), "z")), Ret(I(0))])
    add("func-in-block", [If(B(True), [FnStmt("inner", [], [Ret(I(1))]), P(Call("inner"))]), P(Nilco(Call("inner"), S("undef"))), Ret(I(0))])
    add("var-multi", [Let("a", I(1)), Let("b", I(1)), If(B(True), [Var(["a", "b"], [I(2), I(3)]), P(Id("a")), P(Id("b"))]), P(Id("a")), P(Id("b")), Ret(I(0))])
    add("var-unpack", [Let("a", I(1)), Let("b", I(1)), If(B(True), [Var(["a", "b"], [L(I(2), I(3))]), P(Id("a")), P(Id("b"))]), P(Id("a")), P(Id("b")), Ret(I(0))])
    add("var-unpack-fn", [Let("a", I(1)), Let("b", I(1)), FnStmt("two", [], [Ret(I(8), I(9))]), FnStmt("f", [], [Var(["a", "b"], [Call("two")]), P(Id("a")), P(Id("b")), Ret(I(0))]), E(Call("f")), P(Id("a")), P(Id("b")), Ret(I(0))])
    add("let-unpack", [Let("a", I(1)), If(B(True), [Let(["a", "c"], [L(I(2), I(3))]), P(Id("a")), P(Id("c"))]), P(Id("a")), rd("c"), Ret(I(0))])
    add("let-multi", [Let(["a", "b"], [I(1), I(2)]), Let(["a", "b"], [Id("b"), Id("a")]), P(Id("a")), P(Id("b")), Ret(I(0))])
    add("module-error-scope", [Let("x", I(1)), Try([Module("m", [Let("x", I(2)), Var("priv", I(7)), Throw(S("in module"))])], "e", [P(Id("e")), rd("priv"), P(Id("x"))]), rd("priv"), P(Id("x")), Ret(I(0))])
    add("func-error-scope", [Let("x", I(1)), FnStmt("f", [], [Var("loc", I(7)), Throw(S("in f"))]), Try([E(Call("f"))], "e", [P(Id("e")), rd("loc")]), rd("loc"), Ret(I(0))])
    # every invocation has its own scope: a closure leaked by one invocation never sees what a LATER invocation of the same function binds
    add("invocation-scopes-distinct", [Let("g", NIL), Let("c", I(0)),
        FnStmt("f", [], [Let("c", Bin("+", Id("c"), I(1))), If(Bin("==", Id("c"), I(1)), [Let("g", Fn([], [Ret(Nilco(Id("x"), S("undef")))]))], els=[Var("x", I(7)), P(Id("x"))]), Ret(I(0))]),
        E(Call("f")), P(ACall(Id("g"))), E(Call("f")), P(ACall(Id("g"))), E(Call("f")), P(ACall(Id("g"))), rd("x"), Ret(I(0))])
    add("invocation-scopes-distinct-set", [Let("g", NIL), Let("c", I(0)),
        FnStmt("f", [], [Let("c", Bin("+", Id("c"), I(1))), If(Bin("==", Id("c"), I(1)), [Let("g", Fn([], [Let("y", Bin("+", Nilco(Id("y"), I(100)), I(1))), Ret(Id("y"))]))]), If(Bin(">", Id("c"), I(1)), [Let("y", I(5)), P(Id("y"))]), Ret(I(0))]),
        E(Call("f")), E(Call("f")), P(ACall(Id("g"))), E(Call("f")), P(ACall(Id("g"))), rd("y"), Ret(I(0))])
    for outer in (False, True):
        add("invocation-scopes-early-return-%s" % ("outer" if outer else "noouter"), ([Let("t", I(1))] if outer else []) + [Let("n", I(0)),
            FnStmt("mk", [], [Let("n", Bin("+", Id("n"), I(1))), If(Bin("==", Id("n"), I(1)), [Ret(Fn([], [Ret(Nilco(Id("t"), S("undef")))]))]), Var("t", Bin("*", Id("n"), I(7))), P(Id("t")), Ret(NIL)]),
            Let("k", Call("mk")), P(ACall(Id("k"))), E(Call("mk")), P(ACall(Id("k"))), E(Call("mk")), P(ACall(Id("k"))), Ret(I(0))])
        add("invocation-scopes-early-return-assign-%s" % ("outer" if outer else "noouter"), ([Let("t", I(1))] if outer else []) + [Let("n", I(0)),
            FnStmt("mk", [], [Let("n", Bin("+", Id("n"), I(1))), If(Bin("==", Id("n"), I(1)), [Ret(Fn([], [Let("t", Bin("+", Nilco(Id("t"), I(100)), I(1))), Ret(Id("t"))]))]), Var("t", I(50)), P(Id("t")), Ret(NIL)]),
            Let("k", Call("mk")), E(Call("mk")), P(ACall(Id("k"))), P(ACall(Id("k"))), rd("t"), Ret(I(0))])
    add("invocation-scopes-anon", [Let("gs", L()), Let("mk", Fn([], [Let("gs", Bin("+", Id("gs"), L(Fn([], [Ret(Nilco(Id("z"), S("undef")))])))), If(Bin(">", Len_(Id("gs")), I(1)), [Var("z", Len_(Id("gs")))]), Ret(I(0))])),
        E(ACall(Id("mk"))), E(ACall(Id("mk"))), E(ACall(Id("mk"))), P(ACall(Idx(Id("gs"), I(0)))), P(ACall(Idx(Id("gs"), I(1)))), P(ACall(Idx(Id("gs"), I(2)))), Ret(I(0))])
    # a name is looked up every time the call site runs: the same site calls whatever the name is bound to NOW
    add("callsite-higher-order", [FnStmt("ap", ["f"], [Ret(Call("f", I(1)))]), P(Call("ap", Fn(["a"], [Ret(Bin("+", Id("a"), I(10)))]))), P(Call("ap", Fn(["a"], [Ret(Bin("+", Id("a"), I(20)))]))), P(Call("ap", Fn(["a"], [Ret(S("s"))]))), Ret(I(0))])
    add("callsite-rebound", [Let("h", Fn([], [Ret(S("old"))])), FnStmt("w", [], [Ret(Call("h"))]), P(Call("w")), Let("h", Fn([], [Ret(S("new"))])), P(Call("w")), Ret(I(0))])
    add("callsite-loop-shadow", [FnStmt("k", [], [Ret(I(1))]), Let("r", L()), ForIn("i", L(I(1), I(2), I(3)), [Let("r", Bin("+", Id("r"), L(Call("k")))), If(Bin("==", Id("i"), I(1)), [Var("k", Fn([], [Ret(I(2))]))])]), P(Id("r")), P(Call("k")), Ret(I(0))])
    add("callsite-param-vs-global", [FnStmt("t", [], [Ret(S("global"))]), FnStmt("u", ["t"], [Ret(Call("t"))]), P(Call("u", Fn([], [Ret(S("param1"))]))), P(Call("t")), P(Call("u", Fn([], [Ret(S("param2"))]))), Ret(I(0))])
    # the same with GO functions bound to the name: a call site evaluated again calls what the name holds NOW
    add("callsite-go-param", [FnStmt("via", ["f", "x"], [Ret(Call("f", Id("x")))]), P(Call("via", Id("p"), I(1))), P(Call("via", Id("pa"), I(2))), P(Call("via", Id("p"), I(3))),
                              P(Call("via", Fn(["a"], [Ret(Bin("+", Id("a"), I(10)))]), I(4))), P(Call("via", Id("pa"), I(5))), Ret(I(0))])
    add("callsite-go-loop", [Let("r", L()), ForIn("f", L(Id("p"), Id("pa"), Id("p")), [Let("r", Bin("+", Id("r"), L(Call("f", I(5)))))]), P(Id("r")), Ret(I(0))])
    add("callsite-go-rebound", [Let("h", Id("p")), FnStmt("w", [], [Ret(Call("h", I(7)))]), P(Call("w")), Let("h", Id("pa")), P(Call("w")), Let("h", Fn(["a"], [Ret(S("script"))])), P(Call("w")), Let("h", Id("p")), P(Call("w")), Ret(I(0))])
    add("callsite-go-then-script", [FnStmt("via", ["f"], [Ret(Call("f", I(1)))]), P(Call("via", Id("p"))), P(Call("via", Fn(["a"], [Ret(S("s"))]))), P(Call("via", Id("p"))), Ret(I(0))])
    add("callsite-go-variadic", [FnStmt("via", ["f"], [Ret(Call("f", I(1), I(2)))]), P(Call("via", Id("pn"))), P(Call("via", Id("pv"))), P(Call("via", Id("pn"))), Ret(I(0))])
    add("callsite-go-defer", [FnStmt("run", ["cb"], [Defer(Call("cb", I(9))), P(0), Ret(I(0))]), E(Call("run", Id("p"))), E(Call("run", Id("pa"))), E(Call("run", Id("p"))), Ret(I(0))])
    add("callsite-defer-name", [FnStmt("d1", [], [P(1), Ret(I(0))]), FnStmt("d2", [], [P(2), Ret(I(0))]), FnStmt("run", ["cb"], [Defer(Call("cb")), P(0), Ret(I(0))]), E(Call("run", Id("d1"))), E(Call("run", Id("d2"))), E(Call("run", Id("d1"))), Ret(I(0))])
    # a closure made in a nested block of an invocation that has bound nothing yet escapes the block; the invocation binds a name
    # afterwards; the closure must see (and assign) that binding: scopes are linked by position, not by what they hold at the time
    for w in SCOPE_WRAPS:
        for bind in ("var", "set"):
            for act in ("read", "assign"):
                for esc in ("global", "list", "map"):
                    for depth in (1, 2):
                        c = Ctr(70)
                        clo = Fn([], [Ret(Nilco(Id("x"), S("undef")))]) if act == "read" else Fn([], [Let("x", Bin("+", Nilco(Id("x"), I(100)), I(1))), Ret(Id("x"))])
                        store = {"global": [Let("g", clo)], "list": [Let([Idx(Id("hl"), I(0))], [clo])], "map": [Let([Member(Id("hm"), "f")], [clo])]}[esc]
                        fetch = {"global": Id("g"), "list": Idx(Id("hl"), I(0)), "map": Member(Id("hm"), "f")}[esc]
                        inner = w(store, c)
                        if depth == 2:
                            inner = s_if(inner, c)
                        binding = [Var("x", I(5))] if bind == "var" else [Let("x", I(5))]
                        body = inner + binding + [P(ACall(fetch)), P(Id("x")), P(ACall(fetch)), Ret(I(0))]
                        prog = [Let("g", NIL), Let("hl", L(NIL)), Let("hm", M((S("f"), NIL))), FnStmt("f", [], body), E(Call("f")), rd("x"), Ret(I(0))]
                        if w in (s_func, s_anon, s_module) and depth == 2:
                            continue
                        add("late-%s-%s-%s-%s-%d" % (w.__name__[2:], bind, act, esc, depth), prog)
    # a named function and its OWN name: the name is an ordinary binding of the scope the definition ran in -- an invocation does not bind it again
    rec = lambda nm, callee: FnStmt(nm, ["n"], [If(Bin("==", Id("n"), I(0)), [Ret(I(0))]), Ret(Bin("+", Call(callee, Bin("-", Id("n"), I(1))), I(1)))])
    add("selfname-alias-rebound", [rec("f", "f"), Let("g", Id("f")), FnStmt("f", ["n"], [Ret(I(100))]), P(Call("g", I(3))), P(Call("f", I(3))), Ret(I(0))])
    add("selfname-alias-rebound-value", [rec("f", "f"), Let("g", Id("f")), Let("f", Fn(["n"], [Ret(I(50))])), P(Call("g", I(2))), Ret(I(0))])
    add("selfname-self-replacing", [FnStmt("f", [], [Let("f", Fn([], [Ret(I(2))])), Ret(I(1))]), P(Call("f")), P(Call("f")), P(Call("f")), Ret(I(0))])
    add("selfname-self-replacing-nested", [FnStmt("mk", [], [FnStmt("h", [], [Let("h", I(7)), Ret(I(1))]), P(Call("h")), P(Nilco(Id("h"), S("undef"))), Ret(I(0))]), E(Call("mk")), P(Nilco(Id("h"), S("undef"))), Ret(I(0))])
    add("selfname-assign-in-body", [FnStmt("f", ["n"], [Let("f", I(5)), Ret(Id("n"))]), P(Call("f", I(1))), P(Nilco(Id("f"), S("undef"))), Ret(I(0))])
    add("selfname-var-in-body", [FnStmt("f", ["n"], [Var(["f"], [I(5)]), Ret(Bin("+", Id("f"), Id("n")))]), P(Call("f", I(1))), P(Call("f", I(2))), Ret(I(0))])
    add("selfname-deleted", [rec("f", "f"), Let("g", Id("f")), Delete(S("f")), Try([P(Call("g", I(2)))], "e", [P(60)]), P(Call("g", I(0))), Ret(I(0))])
    add("selfname-param-shadows", [FnStmt("f", ["f"], [Ret(Id("f"))]), P(Call("f", I(4))), P(Call("f", I(5))), Ret(I(0))])
    add("selfname-in-module", [Module("mo", [rec("f", "f")]), Let("g", Member(Id("mo"), "f")), FnStmt("f", ["n"], [Ret(I(100))]), P(Call("g", I(2))), P(Nilco(Call("f", I(2)), S("x"))), Ret(I(0))])
    add("selfname-mutual-rebound", [rec("ev", "od"), rec("od", "ev"), Let("g", Id("ev")), FnStmt("od", ["n"], [Ret(I(100))]), P(Call("g", I(3))), Ret(I(0))])
    add("selfname-closure-counter", [FnStmt("f", [], [Let("c", Bin("+", Nilco(Id("c"), I(0)), I(1))), Ret(Id("c"))]), P(Call("f")), P(Call("f")), P(Nilco(Id("c"), S("undef"))), Ret(I(0))])
    # a name is bound when ITS statement runs, not earlier: uses before a later `func` statement of the same list see the enclosing binding (or none)
    add("nohoist-call-before-def", [Try([P(Call("late", I(1)))], "e", [P(60)]), FnStmt("late", ["a"], [Ret(Id("a"))]), P(Call("late", I(2))), Ret(I(0))])
    add("nohoist-inner-after-assign", [Let("x", I(10)), FnStmt("k", [], [Let("x", I(20)), FnStmt("x", [], [Ret(I(0))]), Ret(I(1))]), E(Call("k")), P(Id("x")), Ret(I(0))])
    add("nohoist-read-outer-before-inner-def", [FnStmt("h", [], [Ret(I(1))]), FnStmt("k", [], [P(Call("h")), FnStmt("h", [], [Ret(I(2))]), P(Call("h")), Ret(I(0))]), E(Call("k")), P(Call("h")), Ret(I(0))])
    # (function values are never printed: they print as addresses)
    add("nohoist-in-branch", [If(B(True), [Try([P(Call("bf"))], "e", [P(60)]), FnStmt("bf", [], [Ret(I(1))]), P(Call("bf"))]), Try([P(Call("bf"))], "e", [P(61)]), Ret(I(0))])
    add("nohoist-in-loop", [ForIn("i", L(I(1), I(2)), [Try([P(Call("lf"))], "e", [P(60)]), FnStmt("lf", [], [Ret(Id("i"))])]), Ret(I(0))])
    return out


# ---------------------------------------------------------------- C09: errors and defers
def fam_c09():
    out = []
    def add(n, prog): out.append({"id": "c09-" + n, "prog": prog})
    terms = {"normal": [], "ret": [Ret(I(7))], "throw": [Throw(S("boom"))], "rterr": [E(Id("zz"))], "idx": [E(Idx(L(I(1)), I(5)))]}
    # a function with k defers, a terminator at every position, called under try
    for k in range(0, 4):
        for pos in range(0, k + 1):
            for tn, t in terms.items():
                body = []
                for j in range(k):
                    if j == pos:
                        body += t
                    body += [Defer(Call("p", I(100 + j))), P(10 + j)]
                if pos == k:
                    body += t
                body += [P(19), Ret(I(1))]
                prog = [FnStmt("f", [], body), Try([Let("r", Call("f")), P(Id("r"))], "e", [P(Id("e"))], f=[P(60)]), P(61), Ret(I(0))]
                add("fn-k%d-p%d-%s" % (k, pos, tn), prog)
                if k <= 2:
                    # same at top level (no enclosing try: the error reaches the host)
                    top = [s for s in body[:-2]] + [P(19), Ret(I(1))]
                    add("top-k%d-p%d-%s" % (k, pos, tn), top)
    # defer argument evaluation time, LIFO, defers in loops and branches
    add("args-at-defer", [FnStmt("f", [], [Let("i", I(1)), Defer(Call("p", Id("i"))), Let("i", I(2)), Defer(Call("p", Bin("+", Id("i"), I(10)))), Let("i", I(3)), P(Id("i")), Ret(Id("i"))]), P(Call("f")), Ret(I(0))])
    add("in-loop", [FnStmt("f", [], [ForIn("i", L(I(1), I(2), I(3)), [Defer(Call("p", Id("i")))]), P(0), Ret(I(9))]), P(Call("f")), Ret(I(0))])
    add("in-branch", [FnStmt("f", ["c"], [If(Id("c"), [Defer(Call("p", I(1)))], els=[Defer(Call("p", I(2)))]), Defer(Call("p", I(3))), Ret(I(9))]), P(Call("f", B(True))), P(Call("f", B(False))), Ret(I(0))])
    add("anon-callee", [FnStmt("f", [], [Defer(ACall(Fn(["x"], [P(Id("x")), Ret(I(0))]), PV(1, I(5)))), P(2), Ret(I(9))]), P(Call("f")), Ret(I(0))])
    add("result-kept", [FnStmt("f", [], [Defer(ACall(Fn([], [Ret(I(555))]))), Ret(I(9))]), P(Call("f")), Ret(I(0))])
    add("defer-throws-after-return", [FnStmt("f", [], [Defer(ACall(Fn([], [P(1), Throw(S("late"))]))), P(2), Ret(I(9))]), Try([P(Call("f"))], "e", [P(Id("e"))]), Ret(I(0))])
    add("defer-throws-after-normal", [FnStmt("f", [], [Defer(ACall(Fn([], [P(1), Throw(S("late"))]))), P(2)]), Try([E(Call("f")), P(3)], "e", [P(Id("e"))]), Ret(I(0))])
    add("defer-throws-body-failed", [FnStmt("f", [], [Defer(ACall(Fn([], [P(1), Throw(S("late"))]))), P(2), Throw(S("first"))]), Try([P(Call("f"))], "e", [P(Id("e"))]), Ret(I(0))])
    add("defer-after-failed-defer", [FnStmt("f", [], [Defer(Call("p", I(1))), Defer(ACall(Fn([], [Throw(S("mid"))]))), Defer(Call("p", I(3))), Ret(I(9))]), Try([P(Call("f"))], "e", [P(Id("e"))]), Ret(I(0))])
    add("top-defer-throw", [Defer(Call("p", I(1))), P(2), Throw(S("top"))])
    add("top-defer-rterr", [Defer(Call("p", I(1))), Defer(Call("p", I(2))), P(3), E(Id("zz")), P(4)])
    add("top-defer-after-fn-error", [FnStmt("f", [], [Throw(S("inner"))]), Defer(Call("p", I(1))), E(Call("f")), P(4)])
    add("top-defer-throws-after-return", [Defer(ACall(Fn([], [P(1), Throw(S("late"))]))), P(2), Ret(I(1))])
    add("nested-defers", [FnStmt("g", [], [Defer(Call("p", I(20))), P(21), Ret(I(2))]), FnStmt("f", [], [Defer(Call("p", I(10))), P(Call("g")), Defer(Call("p", I(11))), Ret(I(1))]), P(Call("f")), Ret(I(0))])
    add("defer-in-deferred", [FnStmt("f", [], [Defer(ACall(Fn([], [Defer(Call("p", I(30))), P(31), Ret(I(0))]))), P(32), Ret(I(1))]), P(Call("f")), Ret(I(0))])
    add("defer-undefined-callee", [FnStmt("f", [], [P(1), Defer(Call("nosuch", I(1))), P(2), Ret(I(1))]), Try([P(Call("f"))], "e", [P(3)]), Ret(I(0))])
    add("defer-arg-fails", [FnStmt("f", [], [P(1), Defer(Call("p", Id("zz"))), P(2), Ret(I(1))]), Try([P(Call("f"))], "e", [P(3)]), Ret(I(0))])
    # a deferred (or called) Go function that panics is an error of that call only: the other deferred calls still run, the body's error wins
    for bodyend, bn in (([Ret(I(9))], "ret"), ([Throw(S("first"))], "throw"), ([], "normal")):
        for order in ((1, "pp", 3), ("pp", 2, 3), (1, 2, "pp"), ("pp", 2, "pp")):
            ds = [Defer(Call("pp", I(40 + j))) if o == "pp" else Defer(Call("p", I(40 + j))) for j, o in enumerate(order)]
            add("defer-hostpanic-%s-%s" % (bn, "".join("X" if o == "pp" else "o" for o in order)), [FnStmt("f", [], ds + [P(2)] + bodyend), Try([P(Call("f")), P(3)], "e", [P(60)]), P(61), Ret(I(0))])
    add("top-defer-hostpanic", [Defer(Call("p", I(1))), Defer(Call("pp", I(2))), Defer(Call("p", I(3))), P(4), Ret(I(5))])
    add("top-defer-hostpanic-body-failed", [Defer(Call("p", I(1))), Defer(Call("pp", I(2))), P(4), Throw(S("body"))])
    # a script function called back by a Go function through a func type WITHOUT results: an error inside it is an error of the Go call
    def cb(*body): return Fn(["x"], [P(Id("x"))] + list(body) + [Ret(I(0))])
    add("callback-ok", [E(Call("pe", cb())), P(9), Ret(I(0))])
    add("callback-throw", [Try([E(Call("pe", cb(Throw(S("in"))))), P(2)], "e", [P(60)]), P(61), Ret(I(0))])
    add("callback-throw-second", [Try([E(Call("pe", cb(If(Bin("==", Id("x"), I(2)), [Throw(S("in"))])))), P(2)], "e", [P(60)]), P(61), Ret(I(0))])
    add("callback-rterr", [Try([E(Call("pe", cb(E(Id("zz"))))), P(2)], "e", [P(60)]), P(61), Ret(I(0))])
    add("callback-throw-uncaught", [E(Call("pe", cb(Throw(S("in"))))), P(2), Ret(I(0))])
    add("callback-throw-defers", [FnStmt("f", [], [Defer(Call("p", I(40))), E(Call("pe", cb(Defer(Call("p", I(41))), Throw(S("in"))))), P(2), Ret(I(1))]), Try([P(Call("f"))], "e", [P(60)]), P(61), Ret(I(0))])
    add("callback-throw-nilco", [P(Nilco(Call("pe", cb(Throw(S("in")))), I(7))), P(61), Ret(I(0))])
    add("callback-throw-in-loop", [ForIn("i", L(I(1), I(2)), [Try([E(Call("pe", cb(Throw(S("in")))))], "e", [P(60)]), P(62)]), P(61), Ret(I(0))])
    add("hostpanic-in-try", [Try([P(1), E(Call("pp", I(2))), P(3)], "e", [P(4)], f=[P(5)]), P(6), Ret(I(0))])
    add("hostpanic-in-fn", [FnStmt("f", [], [Defer(Call("p", I(1))), E(Call("pp", I(2))), P(3), Ret(I(4))]), Try([P(Call("f"))], "e", [P(5)]), Ret(I(0))])
    # an error raised by the catch block itself is uncaught: nothing after the failing point runs -- not the finally block either
    add("catch-throws-finally", [Try([Try([P(1), Throw(S("a"))], "e", [P(Id("e")), Throw(S("b")), P(9)], f=[P(3)]), P(8)], "e2", [P(Id("e2"))]), P(4), Ret(I(0))])
    add("catch-rterr-finally", [Try([Try([P(1), Throw(S("a"))], "e", [P(2), E(Id("zz")), P(9)], f=[P(3)]), P(8)], "e2", [P(5)]), P(4), Ret(I(0))])
    add("catch-throws-finally-in-fn", [FnStmt("f", [], [Defer(Call("p", I(7))), Try([Throw(S("a"))], "e", [P(2), Throw(S("b"))], f=[P(3)]), P(8), Ret(I(1))]), Try([P(Call("f"))], "e2", [P(Id("e2"))]), Ret(I(0))])
    add("catch-throws-finally-top", [Try([P(1), Throw(S("a"))], "e", [P(2), Throw(S("b"))], f=[P(3)]), P(4)])
    # several invocations of one function alive at once (recursion), after an earlier completed call: each has its own deferred calls
    add("defer-recursion", [FnStmt("f", ["n"], [Defer(Call("p", Bin("+", I(100), Id("n")))), P(Id("n")), If(Bin(">", Id("n"), I(0)), [E(Call("f", Bin("-", Id("n"), I(1))))]), Defer(Call("p", Bin("+", I(200), Id("n")))), Ret(Id("n"))]),
                            P(Call("f", I(0))), P(Call("f", I(2))), P(Call("f", I(1))), Ret(I(0))])
    add("defer-recursion-throw", [FnStmt("f", ["n"], [Defer(Call("p", Bin("+", I(100), Id("n")))), If(Bin(">", Id("n"), I(0)), [E(Call("f", Bin("-", Id("n"), I(1))))], els=[Throw(S("bottom"))]), P(Id("n")), Ret(Id("n"))]),
                                  E(Call("f", I(0))) if False else Try([E(Call("f", I(0)))], "e", [P(Id("e"))]), Try([P(Call("f", I(2)))], "e", [P(Id("e"))]), Ret(I(0))])
    add("defer-mutual", [FnStmt("g", ["n"], [Defer(Call("p", Bin("+", I(300), Id("n")))), If(Bin(">", Id("n"), I(0)), [E(Call("f", Bin("-", Id("n"), I(1))))]), Ret(I(0))]),
                         FnStmt("f", ["n"], [Defer(Call("p", Bin("+", I(100), Id("n")))), E(Call("g", Id("n"))), Defer(Call("p", Bin("+", I(200), Id("n")))), Ret(I(0))]),
                         E(Call("f", I(0))), E(Call("f", I(2))), Ret(I(0))])
    add("defer-reentrant-via-callback", [FnStmt("f", ["n", "cb"], [Defer(Call("p", Bin("+", I(100), Id("n")))), If(Bin("!=", Id("cb"), NIL), [E(ACall(Id("cb"), I(7), NIL))]), Defer(Call("p", Bin("+", I(200), Id("n")))), Ret(Id("n"))]),
                                         E(Call("f", I(1), NIL)), P(Call("f", I(2), Id("f"))), Ret(I(0))])
    # a failing value in a multi-value return ends the statement there: later values are not evaluated and the error is not lost
    for bad in (0, 1):
        vals = [Id("zz") if j == bad else PV(j + 1, I(j + 1)) for j in range(3)]
        add("return-multi-bad%d" % bad, [FnStmt("f", [], [Defer(Call("p", I(9))), P(0), Ret(*vals)]), Try([P(Call("f")), P(50)], "e", [P(60)], f=[P(61)]), P(62), Ret(I(0))])
        add("return-multi-bad%d-top" % bad, [P(0), Ret(*vals)])
    # `defer name(...)`: the callee is whatever the name is bound to when THAT defer statement runs, every time it runs
    add("defer-name-per-invocation", [FnStmt("d1", [], [P(1), Ret(I(0))]), FnStmt("d2", [], [P(2), Ret(I(0))]), FnStmt("run", ["cb"], [Defer(Call("cb")), P(0), Ret(I(0))]),
                                      E(Call("run", Id("d1"))), E(Call("run", Id("d2"))), E(Call("run", Id("d1"))), Ret(I(0))])
    add("defer-name-rebound-in-loop", [FnStmt("d1", [], [P(1), Ret(I(0))]), FnStmt("d2", [], [P(2), Ret(I(0))]),
                                       FnStmt("f", [], [Let("h", Id("d1")), ForIn("i", L(I(1), I(2), I(3)), [Defer(Call("h")), Let("h", Id("d2"))]), P(0), Ret(I(0))]), E(Call("f")), Ret(I(0))])
    add("defer-name-closure-per-call", [FnStmt("mk", ["n"], [Ret(Fn([], [P(Id("n")), Ret(I(0))]))]), FnStmt("g", ["n"], [Let("cl", Call("mk", Id("n"))), Defer(Call("cl")), P(0), Ret(I(0))]),
                                        E(Call("g", I(5))), E(Call("g", I(6))), E(Call("g", I(7))), Ret(I(0))])
    add("defer-name-args-per-invocation", [FnStmt("g", ["n"], [Defer(Call("p", Bin("+", Id("n"), I(100)))), Ret(I(0))]), E(Call("g", I(1))), E(Call("g", I(2))), Ret(I(0))])
    # try nesting
    add("nearest-try", [Try([P(1), Try([P(2), Throw(S("in")), P(3)], "e", [P(Id("e")), P(4)]), P(5)], "e2", [P(6)]), P(7), Ret(I(0))])
    add("rethrow", [Try([Try([Throw(S("a"))], "e", [P(Id("e")), Throw(S("b"))]), P(1)], "e2", [P(Id("e2"))]), P(2), Ret(I(0))])
    add("finally-after-success", [Try([P(1)], "e", [P(2)], f=[P(3)]), P(4), Ret(I(0))])
    add("finally-after-caught", [Try([P(1), Throw(S("x")), P(9)], "e", [P(2)], f=[P(3)]), P(4), Ret(I(0))])
    add("finally-throws", [Try([Try([P(1)], "e", [P(2)], f=[Throw(S("fin"))]), P(8)], "e2", [P(Id("e2"))]), P(4), Ret(I(0))])
    add("uncaught-from-fn", [FnStmt("f", [], [P(1), Throw(S("deep")), P(2)]), FnStmt("g", [], [P(3), E(Call("f")), P(4)]), P(5), E(Call("g")), P(6)])
    add("catch-no-var", [Try([Throw(I(5))], "", [P(1)]), P(2), Ret(I(0))])
    # throw always throws: whatever the value is (an empty string, nil, false, zero, an empty list)
    for nm, v in (("empty-string", S("")), ("nil", NIL), ("false", B(False)), ("zero", I(0)), ("empty-list", L())):
        add("throw-%s" % nm, [Try([P(1), Throw(v), P(9)], "e", [P(2)], f=[P(3)]), P(4), Ret(I(0))])
        add("throw-%s-in-fn" % nm, [FnStmt("f", [], [Defer(Call("p", I(7))), P(1), Throw(v), P(9), Ret(I(1))]), Try([P(Call("f")), P(8)], "e", [P(2)]), Ret(I(0))])
        if nm != "empty-list":          # (how a thrown container is spelled in the message is not asserted)
            add("throw-%s-top" % nm, [P(1), Throw(v), P(9)])
    add("throw-int", [Try([Throw(I(5))], "e", [P(Id("e"))]), Ret(I(0))])
    add("catch-in-fn-of-callee-defers", [FnStmt("g", [], [Defer(Call("p", I(1))), Throw(S("g"))]), FnStmt("f", [], [Try([E(Call("g"))], "e", [P(Id("e"))]), P(2), Ret(I(3))]), P(Call("f")), Ret(I(0))])
    add("try-in-deferred", [FnStmt("f", [], [Defer(ACall(Fn([], [Try([Throw(S("d"))], "e", [P(Id("e"))]), Ret(I(0))]))), P(1), Ret(I(2))]), P(Call("f")), Ret(I(0))])
    add("error-in-loop-stops", [Try([ForIn("i", L(I(1), I(2), I(3)), [P(Id("i")), If(Bin("==", Id("i"), I(2)), [Throw(S("stop"))])])], "e", [P(Id("e"))]), P(9), Ret(I(0))])
    # control transfers through try (no finally: asserted; with finally: left open by the statement)
    add("return-in-try", [FnStmt("f", [], [Try([P(1), Ret(I(1))], "e", [P(2), Ret(I(2))]), P(3), Ret(I(3))]), P(Call("f")), Ret(I(0))])
    add("break-in-try", [ForIn("i", L(I(1), I(2), I(3)), [Try([If(Bin("==", Id("i"), I(2)), [BRK])], "e", [P(50)]), P(Id("i"))]), P(9), Ret(I(0))])
    add("continue-in-try", [ForIn("i", L(I(1), I(2), I(3)), [Try([If(Bin("==", Id("i"), I(2)), [CNT])], "e", [P(50)]), P(Id("i"))]), P(9), Ret(I(0))])
    add("return-in-catch", [FnStmt("f", [], [Try([Throw(S("x"))], "e", [P(2), Ret(I(2))]), P(3), Ret(I(3))]), P(Call("f")), Ret(I(0))])
    # a spread call deferred: a variadic callee receives the elements, not the list
    vdef = FnStmt("v", ["rest"], [P(Id("rest")), Ret(Len_(Id("rest")))], va=True)
    v1def = FnStmt("v1", ["a", "rest"], [P(Id("a")), P(Id("rest")), Ret(I(0))], va=True)
    add("defer-spread-variadic", [vdef, FnStmt("d", [], [Defer(Call("v", PV(1, L(I(7), I(8))), spread=True)), P(40), Ret(I(0))]), E(Call("d")), P(41), Ret(I(0))])
    add("defer-spread-variadic-fixed", [v1def, FnStmt("d", [], [Defer(Call("v1", PV(1, I(1)), PV(2, L(I(7), I(8))), spread=True)), P(40), Ret(I(0))]), E(Call("d")), P(41), Ret(I(0))])
    add("defer-spread-variadic-empty", [vdef, FnStmt("d", [], [Defer(Call("v", PV(1, L()), spread=True)), P(40), Ret(I(0))]), E(Call("d")), Ret(I(0))])
    add("defer-spread-go-variadic", [FnStmt("d", [], [Defer(Call("pn", PV(1, I(1)), PV(2, L(I(7), I(8))), spread=True)), P(40), Ret(I(0))]), E(Call("d")), Ret(I(0))])
    add("defer-spread-fixed", [FnStmt("f2", ["a", "b"], [P(Id("a")), P(Id("b")), Ret(I(0))]), FnStmt("d", [], [Defer(Call("f2", PV(1, L(I(7), I(8))), spread=True)), P(40), Ret(I(0))]), E(Call("d")), Ret(I(0))])
    add("defer-spread-anon-variadic", [FnStmt("d", [], [Defer(ACall(Fn(["rest"], [P(Id("rest")), Ret(I(0))], va=True), PV(1, L(I(7), I(8))), spread=True)), P(40), Ret(I(0))]), E(Call("d")), Ret(I(0))])
    add("defer-spread-toplevel", [vdef, Defer(Call("v", PV(1, L(I(7), I(8))), spread=True)), P(40), Ret(I(0))])
    # the result is the value `return` computed: deferred calls that later store into the place it was read from do not change it
    rpre = [Let("la", L(S("a"), S("b"))), Let("ma", M((S("k"), I(10)))), Let("xa", I(10))]
    for nm, place, store in (("item", Idx(Id("la"), I(0)), Let([Idx(Id("la"), I(0))], [NIL])), ("member", Member(Id("ma"), "k"), Let([Member(Id("ma"), "k")], [I(100)])),
                             ("mapitem", Idx(Id("ma"), S("k")), Let([Idx(Id("ma"), S("k"))], [I(100)])), ("var", Id("xa"), Let("xa", I(100)))):
        add("return-then-deferred-store-" + nm, rpre + [FnStmt("pop", [], [Defer(ACall(Fn([], [store, Ret(I(0))]))), Ret(place)]), P(Call("pop")), P(place), Ret(I(0))])
        add("return2-then-deferred-store-" + nm, rpre + [FnStmt("pop", [], [Defer(ACall(Fn([], [store, Ret(I(0))]))), Ret(place, I(1))]), P(Call("pop")), P(place), Ret(I(0))])
        add("return-then-deferred-store-toplevel-" + nm, rpre + [Defer(ACall(Fn([], [store, P(50), Ret(I(0))]))), P(40), Ret(place)])
        add("return-then-deferred-store-five-" + nm, rpre + [FnStmt("pop", ["a", "b", "c", "d", "e"], [Defer(ACall(Fn([], [store, Ret(I(0))]))), Ret(place)]), P(Call("pop", I(1), I(2), I(3), I(4), I(5))), P(place), Ret(I(0))])
        add("return-then-deferred-store-named-" + nm, rpre + [FnStmt("st", [], [store, Ret(I(0))]), FnStmt("pop", [], [Defer(Call("st")), Ret(place)]), P(Call("pop")), P(place), Ret(I(0))])
    # a defer statement inside a block that is not a function body (module, try / catch / finally, loop, branch, switch case): the call belongs to the INVOCATION
    # the block is part of and runs when that invocation ends
    blocks = {"module": lambda b: [Module("md", b)], "try": lambda b: [Try(b, "e", [P(60)])], "catch": lambda b: [Try([Throw(S("t"))], "e", b)], "finally": lambda b: [Try([P(58)], "e", [P(60)], f=b)],
              "forin": lambda b: [ForIn("i", L(I(1), I(2)), b)], "cfor": lambda b: [CFor(Let("i", I(0)), Bin("<", Id("i"), I(2)), Inc("i"), b)], "if": lambda b: [If(B(True), b)], "else": lambda b: [If(B(False), [P(59)], els=b)],
              "switch": lambda b: [Switch(I(1), [([I(1)], b)])], "default": lambda b: [Switch(I(1), [([I(0)], [P(59)])], d=b)], "module-in-module": lambda b: [Module("mo", [Module("mi", b)])]}
    for bn, mk in blocks.items():
        inner = [Defer(Call("p", I(71))), P(72)]
        add("defer-in-%s-top" % bn, mk(inner) + [P(73), Ret(I(0))])
        add("defer-in-%s-fn" % bn, [FnStmt("f", [], [Defer(Call("p", I(70)))] + mk(inner) + [P(73), Ret(I(4))]), P(Call("f")), P(74), Ret(I(0))])
        add("defer-in-%s-fn-throw" % bn, [FnStmt("f", [], mk(inner + [Throw(S("x"))]) + [P(73), Ret(I(4))]), Try([P(Call("f"))], "e2", [P(61)]), P(74), Ret(I(0))])
        add("defer-in-%s-fn-noreturn" % bn, [FnStmt("f", [], mk(inner) + [P(73)]), E(Call("f")), P(74), Ret(I(0))])
    # an error raised by the HEADER of a construct (condition, subject, case value, iterable, init / post of a C-style loop): none of the construct's blocks runs --
    # not the else block, not a later case, not the default -- and nothing after the construct either
    fails = {"rterr": Id("zz"), "thr": Call("boom"), "idx": Idx(L(I(1)), I(5)), "thrarg": Bin("+", PV(30, I(1)), Call("boom"))}
    def sites(fe):
        return {
            "if": [If(fe, [P(1)], elifs=[(B(True), [P(2)])], els=[P(3)])],
            "if-noelse": [If(fe, [P(1)])],
            "elif-else": [If(B(False), [P(1)], elifs=[(fe, [P(2)])], els=[P(3)])],
            "elif-noelse": [If(B(False), [P(1)], elifs=[(fe, [P(2)])])],
            "elif2-else": [If(B(False), [P(1)], elifs=[(I(0), [P(2)]), (fe, [P(4)])], els=[P(3)])],
            "elif1of2-else": [If(NIL, [P(1)], elifs=[(fe, [P(2)]), (B(True), [P(4)])], els=[P(3), P(5)])],
            "elif-else-call": [If(B(False), [P(1)], elifs=[(fe, [P(2)])], els=[E(Call("p", Id("q9"))), P(3)])],
            "elif-else-let": [If(B(False), [P(1)], elifs=[(fe, [P(2)])], els=[Let("y9", Id("q9")), P(Id("y9"))])],
            "while": [While(fe, [P(1), BRK])],
            "cfor-init": [CFor(Let("i", fe), Bin("<", Id("i"), I(2)), Inc("i"), [P(1)])],
            "cfor-cond": [CFor(Let("i", I(0)), Bin("<", Id("i"), fe), Inc("i"), [P(1)])],
            "cfor-post": [CFor(Let("i", I(0)), Bin("<", Id("i"), I(2)), fe, [P(1)])],
            "forin": [ForIn("v", fe, [P(1)])],
            "switch-subject": [Switch(fe, [([I(1)], [P(1)])], d=[P(2)])],
            "switch-case1": [Switch(I(1), [([fe], [P(1)]), ([I(1)], [P(2)])], d=[P(3)])],
            "switch-case2": [Switch(I(1), [([I(0)], [P(1)]), ([fe, I(1)], [P(2)])], d=[P(3)])],
            "switch-case-nodefault": [Switch(I(1), [([I(0)], [P(1)]), ([fe], [P(2)]), ([I(1)], [P(4)])])],
            "tern": [P(Tern(fe, I(1), I(2)))],
            "tern-in-cond": [If(Tern(fe, B(True), B(False)), [P(1)], els=[P(3)])],
        }
    boom = FnStmt("boom", [], [P(90), Throw(S("boom"))])
    for fnm, fe in fails.items():
        for snm, st in sites(fe).items():
            pre = [boom, Let("q9", I(9))]
            add("header-%s-%s-top" % (snm, fnm), pre + st + [P(50), Ret(I(0))])
            add("header-%s-%s-try" % (snm, fnm), pre + [Try(st + [P(50)], "e", [P(60)], f=[P(61)]), P(62), Ret(I(0))])
            add("header-%s-%s-fn" % (snm, fnm), pre + [FnStmt("f", [], [Defer(Call("p", I(70)))] + st + [P(50), Ret(I(1))]), Try([P(Call("f")), P(51)], "e", [P(60)]), P(62), Ret(I(0))])
            add("header-%s-%s-loop" % (snm, fnm), pre + [Try([ForIn("w", L(I(1), I(2)), [P(Id("w"))] + st + [P(50)])], "e", [P(60)]), P(62), Ret(I(0))])
    return out


# ---------------------------------------------------------------- C07: evaluation order
def fam_c07():
    out = []
    def add(n, prog): out.append({"id": "c07-" + n, "prog": prog})
    BAD = Id("zz")                                     # an operand that fails
    def ops(n, bad=None):                              # n probe operands; operand `bad` (0-based) fails
        return [BAD if j == bad else PV(j + 1, I(j + 1)) for j in range(n)]
    # script functions with 0..6 parameters (direct path <= 4, reflect path >= 5), every failing position
    for n in range(0, 7):
        ps = ["a%d" % j for j in range(n)]
        fdef = FnStmt("f", ps, [P(50), Ret(I(n))])
        for bad in [None] + list(range(n)):
            tag = "fn%d-%s" % (n, "ok" if bad is None else "bad%d" % bad)
            add(tag, [fdef, Try([P(Call("f", *ops(n, bad)))], "e", [P(60)]), Ret(I(0))])
            add("anon-" + tag, [Let("g", Fn(ps, [P(50), Ret(I(n))])), Try([P(ACall(Id("g"), *ops(n, bad)))], "e", [P(60)]), Ret(I(0))])
            if n >= 1:
                add("defer-" + tag, [fdef, FnStmt("d", [], [Defer(Call("f", *ops(n, bad))), P(40), Ret(I(0))]), Try([E(Call("d"))], "e", [P(60)]), P(61), Ret(I(0))])
    # indexing a value that has no elements: both operands are evaluated (item, then index), then the operation fails
    for nm, item in (("int", I(3)), ("nil", NIL), ("bool", B(True)), ("func", Fn([], [Ret(I(1))])), ("intvar", Id("xa")), ("nilvar", Id("nv"))):
        pre = [Let("xa", I(3)), Let("nv", NIL)]
        add("index-noelems-%s" % nm, pre + [Try([P(Idx(PV(1, item) if nm in ("int", "nil", "bool") else item, PV(2, I(0))))], "e", [P(60)]), P(61), Ret(I(0))])
        add("index-noelems-nilco-%s" % nm, pre + [P(Nilco(Idx(PV(1, item) if nm in ("int", "nil", "bool") else item, PV(2, I(0))), I(7))), P(61), Ret(I(0))])
    # a wrong argument count is rejected (constant operands: nothing else to observe), whatever the number of parameters and the call form
    for n in range(0, 7):
        ps = ["a%d" % j for j in range(n)]
        fdef = FnStmt("f", ps, [P(50), Ret(I(n))])
        for k in (n - 1, n + 1, n + 2):
            if k < 0:
                continue
            args = [I(j + 1) for j in range(k)]
            add("arity-fn%d-args%d" % (n, k), [fdef, Try([P(Call("f", *args))], "e", [P(60)]), P(61), Ret(I(0))])
            add("arity-anon-fn%d-args%d" % (n, k), [Let("g", Fn(ps, [P(50), Ret(I(n))])), Try([P(ACall(Id("g"), *args))], "e", [P(60)]), P(61), Ret(I(0))])
            add("arity-lit-fn%d-args%d" % (n, k), [Try([P(ACall(Fn(ps, [P(50), Ret(I(n))]), *args))], "e", [P(60)]), P(61), Ret(I(0))])
            add("arity-defer-fn%d-args%d" % (n, k), [fdef, FnStmt("d", [], [Defer(Call("f", *args)), P(40), Ret(I(0))]), Try([E(Call("d"))], "e", [P(60)]), P(61), Ret(I(0))])
    for k in (0, 1, 3):
        add("arity-go-fixed-args%d" % k, [Try([P(Call("pv", *[I(j + 1) for j in range(k)]))], "e", [P(60)]), P(61), Ret(I(0))])
    # index targets: the right-hand side first, then the root, then every index expression once, left to right, then the store
    def LetT(targets, rhs): return {"k": "let", "lhs": targets, "rhs": rhs if isinstance(rhs, list) else [rhs]}
    fin = Ret(L(Nilco(Id("la"), S("undef")), Nilco(Id("ll"), S("undef")), Nilco(Id("ma"), S("undef")), Nilco(Id("ml"), S("undef")), Nilco(Id("lm"), S("undef"))))
    def lt(name, setup, stmts): add("letitem-" + name, setup + [Try(stmts, "e", [P(60)]), P(61), fin])
    LA = [Let("la", L(I(5), I(6), I(7)))]
    LL = [Let("ll", L(L(I(1), I(2)), L(I(3))))]
    MA = [Let("ma", M((S("k"), I(1))))]
    ML = [Let("ml", M((S("a"), L(I(1)))))]
    LM = [Let("lm", L(M((S("a"), I(1)))))]
    LLL = [Let("ll", L(L(L(I(1)), L(I(2), I(3)))))]
    for ix in (0, 2, 3, 4, -1):
        lt("list-%d" % ix, LA, [LetT([Idx(Id("la"), PV(1, I(ix)))], PV(2, I(9)))])
    lt("list-badindex", LA, [LetT([Idx(Id("la"), BAD)], PV(2, I(9)))])
    lt("list-badrhs", LA, [LetT([Idx(Id("la"), PV(1, I(0)))], BAD)])
    lt("list-undefined-root", [], [LetT([Idx(Id("nosuch"), PV(1, I(0)))], PV(2, I(9)))])
    lt("list-two-targets", LA, [LetT([Idx(Id("la"), PV(1, I(0))), Idx(Id("la"), PV(2, I(1)))], [PV(3, I(8)), PV(4, I(9))])])
    lt("list-target-and-name", LA, [LetT([Idx(Id("la"), PV(1, I(3))), Id("zq")], [PV(3, I(8)), PV(4, I(9))]), P(Id("zq"))])
    for i, j in ((0, 0), (0, 1), (1, 0), (0, 2), (1, 1), (2, 0), (0, 5)):
        lt("nested-%d-%d" % (i, j), LL, [LetT([Idx(Idx(Id("ll"), PV(1, I(i))), PV(2, I(j)))], PV(3, I(9)))])
    for i, j, k in ((0, 0, 0), (0, 1, 1), (0, 1, 2), (0, 0, 1), (0, 2, 0)):
        lt("nested3-%d-%d-%d" % (i, j, k), LLL, [LetT([Idx(Idx(Idx(Id("ll"), PV(1, I(i))), PV(2, I(j))), PV(3, I(k)))], PV(4, I(9)))])
    for key in ("k", "new"):
        lt("map-%s" % key, MA, [LetT([Idx(Id("ma"), PV(1, S(key)))], PV(2, I(5)))])
    for key, j in (("a", 0), ("a", 1), ("a", 3), ("zz", 0)):
        lt("list-in-map-%s-%d" % (key, j), ML, [LetT([Idx(Idx(Id("ml"), PV(1, S(key))), PV(2, I(j)))], PV(3, I(7)))])
    for i, key in ((0, "a"), (0, "b"), (1, "a")):
        lt("map-in-list-%d-%s" % (i, key), LM, [LetT([Idx(Idx(Id("lm"), PV(1, I(i))), PV(2, S(key)))], PV(3, I(3)))])
    # a Go panic inside the callee (slicing an unaddressable host array): arguments still evaluated once
    for n in range(0, 7):
        ps = ["a%d" % j for j in range(n)]
        add("panic-in-callee-%d" % n, [FnStmt("f", ps, [P(50), Let("x", {"k": "hpanic"}), P(51), Ret(I(0))]), Try([P(Call("f", *ops(n)))], "e", [P(60)]), P(61), Ret(I(0))])
        add("panic-in-anon-callee-%d" % n, [Try([P(ACall(Fn(ps, [P(50), Let("x", {"k": "hpanic"}), P(51), Ret(I(0))]), *ops(n)))], "e", [P(60)]), P(61), Ret(I(0))])
    # variadic script functions
    for nfix in (0, 1, 2):
        ps = ["a%d" % j for j in range(nfix)] + ["rest"]
        fdef = FnStmt("v", ps, [P(Id("rest")), Ret(Len_(Id("rest")))], va=True)
        for n in range(nfix, nfix + 3):
            for bad in [None] + list(range(n)):
                add("var%d-n%d-%s" % (nfix, n, "ok" if bad is None else "bad%d" % bad), [fdef, Try([P(Call("v", *ops(n, bad)))], "e", [P(60)]), Ret(I(0))])
        # spread call: last operand is a list
        add("var%d-spread" % nfix, [fdef, Try([P(Call("v", *(ops(nfix) + [PV(9, L(I(7), I(8)))]), spread=True))], "e", [P(60)]), Ret(I(0))])
    # fixed function, spread call
    add("fix2-spread", [FnStmt("f", ["a", "b"], [P(Id("a")), P(Id("b")), Ret(I(0))]), Try([E(Call("f", PV(1, L(I(7), I(8))), spread=True))], "e", [P(60)]), Ret(I(0))])
    add("fix3-spread-1", [FnStmt("f", ["a", "b", "c"], [P(Id("a")), P(Id("b")), P(Id("c")), Ret(I(0))]), Try([E(Call("f", PV(1, I(6)), PV(2, L(I(7), I(8))), spread=True))], "e", [P(60)]), Ret(I(0))])
    # a spread list with more elements than parameters is a wrong argument count (after the operands have run); so is any spread into a function without parameters
    f0, f1, f2d = FnStmt("f0", [], [P(50), Ret(I(0))]), FnStmt("f1", ["a"], [P(Id("a")), Ret(I(1))]), FnStmt("f2", ["a", "b"], [P(Id("a")), P(Id("b")), Ret(I(2))])
    add("spread-surplus-fn1", [f1, Try([P(Call("f1", PV(1, L(I(7), I(8))), spread=True))], "e", [P(60)]), P(61), Ret(I(0))])
    add("spread-surplus-fn2", [f2d, Try([P(Call("f2", PV(1, L(I(7), I(8), I(9))), spread=True))], "e", [P(60)]), P(61), Ret(I(0))])
    add("spread-surplus-fn2-fixed", [f2d, Try([P(Call("f2", PV(1, I(6)), PV(2, L(I(7), I(8))), spread=True))], "e", [P(60)]), P(61), Ret(I(0))])
    add("spread-into-fn0", [f0, Try([P(Call("f0", PV(1, L(I(7))), spread=True))], "e", [P(60)]), P(61), Ret(I(0))])
    add("spread-empty-into-fn0", [f0, Try([P(Call("f0", PV(1, L()), spread=True))], "e", [P(60)]), P(61), Ret(I(0))])
    add("spread-surplus-go", [Try([P(Call("pv", PV(1, L(I(7), I(8), I(9))), spread=True))], "e", [P(60)]), P(61), Ret(I(0))])
    add("spread-surplus-anon", [Try([P(ACall(Fn(["a"], [P(Id("a")), Ret(I(1))]), PV(1, L(I(7), I(8))), spread=True))], "e", [P(60)]), P(61), Ret(I(0))])
    add("spread-surplus-defer", [f1, FnStmt("d", [], [Defer(Call("f1", PV(1, L(I(7), I(8))), spread=True)), P(40), Ret(I(0))]), Try([E(Call("d"))], "e", [P(60)]), P(61), Ret(I(0))])
    add("spread-exact-fn2", [f2d, Try([P(Call("f2", PV(1, L(I(7), I(8))), spread=True))], "e", [P(60)]), P(61), Ret(I(0))])
    # a Go function with typed parameters: an operand that cannot be converted for its parameter ends the evaluation of the operands after it
    for badpos in (None, 0, 2):
        for badval in ((S("x"), "str"), (L(I(1)), "list")):
            if badpos is None and badval[1] != "str":
                continue
            args = [PV(j + 1, badval[0] if j == badpos else I(j + 1)) for j in range(3)]
            tag = "ok" if badpos is None else "%s%d" % (badval[1], badpos)
            add("go-typed-" + tag, [Try([E(Call("pt", *args))], "e", [P(60)]), P(61), Ret(I(0))])
            add("go-typed-anon-" + tag, [Try([E(ACall(Id("pt"), *args))], "e", [P(60)]), P(61), Ret(I(0))])
            add("go-typed-defer-" + tag, [FnStmt("d", [], [Defer(Call("pt", *args)), P(40), Ret(I(0))]), Try([E(Call("d"))], "e", [P(60)]), P(61), Ret(I(0))])
            add("go-typed-nested-" + tag, [Try([P(L(PV(7, I(7)), Call("pt", *args), PV(8, I(8))))], "e", [P(60)]), P(61), Ret(I(0))])
    add("go-typed-bad-then-bad", [Try([E(Call("pt", PV(1, S("x")), PV(2, I(2)), BAD))], "e", [P(60)]), P(61), Ret(I(0))])
    add("go-typed-undefined-then-bad", [Try([E(Call("pt", BAD, PV(2, I(2)), PV(3, S("x"))))], "e", [P(60)]), P(61), Ret(I(0))])
    # anonymous calls nested in the operands of anonymous calls (function values, map members, Go functions), on every call path
    apre = [Let("fl", Fn(["a"], [Ret(Id("a"))], va=True)), Let("f5", Fn(["a", "b", "c", "d", "e"], [Ret(L(Id("a"), Id("b"), Id("e")))])), Let("f2", Fn(["a", "b"], [Ret(L(Id("a"), Id("b")))])),
            Let("mf", M((S("first"), Fn(["a"], [Ret(Idx(Id("a"), I(0)))], va=True)), (S("list"), Fn(["a"], [Ret(Id("a"))], va=True)), (S("two"), Fn(["a", "b"], [Ret(L(Id("a"), Id("b")))]))))]
    add("anon-nested-variadic", apre + [P(ACall(Id("fl"), ACall(Id("fl"), PV(1, I(1)), PV(2, I(2))), PV(3, I(3)))), Ret(I(0))])
    add("anon-nested-variadic-short-inner", apre + [P(ACall(Id("fl"), ACall(Id("fl"), PV(1, I(1))), PV(2, I(2)), PV(3, I(3)))), Ret(I(0))])
    add("anon-nested-five", apre + [P(ACall(Id("f5"), ACall(Id("f2"), PV(1, I(1)), PV(2, I(2))), PV(3, I(3)), PV(4, I(4)), ACall(Id("fl"), PV(5, I(5))), PV(6, I(6)))), Ret(I(0))])
    add("anon-nested-member", apre + [P(ACall(Member(Id("mf"), "list"), ACall(Member(Id("mf"), "first"), PV(1, S("a")), PV(2, S("b"))), PV(3, S("c")))), Ret(I(0))])
    add("anon-nested-member-two", apre + [P(ACall(Member(Id("mf"), "two"), ACall(Member(Id("mf"), "two"), PV(1, I(1)), PV(2, I(2))), ACall(Member(Id("mf"), "list"), PV(3, I(3))))), Ret(I(0))])
    add("anon-nested-go", apre + [E(ACall(Id("pn"), ACall(Id("pv"), PV(1, I(1)), PV(2, I(2))), PV(3, I(3)), ACall(Id("fl"), PV(4, I(4)), PV(5, I(5))))), Ret(I(0))])
    add("anon-nested-spread", apre + [P(ACall(Id("fl"), ACall(Id("fl"), PV(1, I(1)), PV(2, I(2))), PV(3, L(I(3), I(4))), spread=True)), Ret(I(0))])
    add("anon-nested-deep", apre + [P(ACall(Id("fl"), ACall(Id("fl"), ACall(Id("fl"), PV(1, I(1)), PV(2, I(2))), PV(3, I(3))), PV(4, I(4)))), Ret(I(0))])
    add("anon-nested-named-mix", apre + [FnStmt("nv", ["a"], [Ret(Id("a"))], va=True), P(Call("nv", ACall(Id("fl"), PV(1, I(1)), PV(2, I(2))), PV(3, I(3)))), P(ACall(Id("fl"), Call("nv", PV(4, I(4)), PV(5, I(5))), PV(6, I(6)))), Ret(I(0))])
    add("anon-nested-defer", apre + [FnStmt("d", [], [Defer(ACall(Id("pn"), ACall(Id("fl"), PV(1, I(1)), PV(2, I(2))), PV(3, I(3)))), P(40), Ret(I(0))]), E(Call("d")), Ret(I(0))])
    # Go functions: fixed (pv), variadic (pn)
    for bad in (None, 0, 1):
        add("go-fixed-%s" % bad, [Try([P(Call("pv", *[BAD if j == bad else PV(j + 1, I(j + 1)) for j in range(2)]))], "e", [P(60)]), Ret(I(0))])
    for n in range(0, 4):
        for bad in [None] + list(range(n)):
            add("go-variadic-n%d-%s" % (n, bad), [Try([E(Call("pn", *ops(n, bad)))], "e", [P(60)]), Ret(I(0))])
    add("go-variadic-spread", [Try([E(Call("pn", PV(1, I(1)), PV(2, L(I(7), I(8))), spread=True))], "e", [P(60)]), Ret(I(0))])
    add("defer-go-fixed", [FnStmt("d", [], [Defer(Call("pv", PV(1, I(1)), PV(2, I(2)))), P(40), Ret(I(0))]), E(Call("d")), Ret(I(0))])
    add("defer-go-variadic", [FnStmt("d", [], [Defer(Call("pn", PV(1, I(1)), PV(2, I(2)), PV(3, I(3)))), P(40), Ret(I(0))]), E(Call("d")), Ret(I(0))])
    # pointer arguments to a Go function: the operands inside &a[i] / &m.k are evaluated once, in order, before the call
    pre = [Let("la", L(I(5), I(6), I(7))), Let("ma", M((S("k"), I(1)))), Let("xa", I(3)), FnStmt("mk", [], [P(30), Ret(Id("ma"))])]
    add("addr-ident", pre + [Try([E(Call("pa", Addr(Id("xa")))), P(Id("xa"))], "e", [P(60)]), Ret(I(0))])
    add("addr-item", pre + [Try([E(Call("pa", Addr(Idx(Id("la"), PV(1, I(1)))))), P(Id("la"))], "e", [P(60)]), Ret(I(0))])
    add("addr-item-expr", pre + [Try([E(Call("pa", Addr(Idx(PV(1, Id("la")), PV(2, I(0)))))), P(Id("la"))], "e", [P(60)]), Ret(I(0))])
    add("addr-mapitem", pre + [Try([E(Call("pa", Addr(Idx(Id("ma"), PV(1, S("k")))))), P(Id("ma"))], "e", [P(60)]), Ret(I(0))])
    add("addr-member", pre + [Try([E(Call("pa", Addr(Member(PV(1, Id("ma")), "k")))), P(Id("ma"))], "e", [P(60)]), Ret(I(0))])
    add("addr-member-call", pre + [Try([E(Call("pa", Addr(Member(Call("mk"), "k")))), P(Id("ma"))], "e", [P(60)]), Ret(I(0))])
    add("addr-item-bad", pre + [Try([E(Call("pa", Addr(Idx(Id("la"), BAD))))], "e", [P(60)]), Ret(I(0))])
    add("addr-two", pre + [Try([P(L(Call("pa", Addr(Idx(Id("la"), PV(1, I(1))))), Call("pa", Addr(Idx(Id("la"), PV(2, I(2)))))))], "e", [P(60)]), Ret(I(0))])
    # v, ok = m[k]: the map and key operands are evaluated once, whether the key is there, missing, or stored with nil
    mpre = [Let("mm", M((S("k"), I(1)), (S("n"), NIL))), FnStmt("gm", [], [P(30), Ret(Id("mm"))])]
    for key in ("k", "n", "zz"):
        add("mapitem-ok-%s" % key, mpre + [Try([LetMI("v", "ok", Idx(PV(1, Id("mm")), PV(2, S(key)))), P(Id("v")), P(Id("ok"))], "e", [P(60)]), Ret(I(0))])
        add("mapitem-ok-call-%s" % key, mpre + [Try([LetMI("v", "ok", Idx(Call("gm"), PV(2, S(key)))), P(Id("v")), P(Id("ok"))], "e", [P(60)]), Ret(I(0))])
    add("mapitem-ok-badkey", mpre + [Try([LetMI("v", "ok", Idx(PV(1, Id("mm")), BAD)), P(Id("v"))], "e", [P(60)]), Ret(I(0))])
    # the left operand is the VALUE read before the right operand runs: a right operand that stores into the place it was read from does not change it
    spre = [Let("la", L(I(10), I(20))), Let("ma", M((S("k"), I(10)))), Let("xa", I(10)),
            FnStmt("bl", [], [Let([Idx(Id("la"), I(0))], [I(100)]), Ret(I(1))]), FnStmt("bm", [], [Let([Member(Id("ma"), "k")], [I(100)]), Ret(I(1))]), FnStmt("bx", [], [Let("xa", I(100)), Ret(I(1))])]
    for op in ("+", "-", "*", "|", "&", "<", "==", "%", "<<"):
        add("snapshot-item%s" % op, spre + [P(Bin(op, Idx(Id("la"), I(0)), Call("bl"))), P(Id("la")), Ret(I(0))])
        add("snapshot-member%s" % op, spre + [P(Bin(op, Member(Id("ma"), "k"), Call("bm"))), P(Id("ma")), Ret(I(0))])
        add("snapshot-var%s" % op, spre + [P(Bin(op, Id("xa"), Call("bx"))), P(Id("xa")), Ret(I(0))])
        add("snapshot-paren-item%s" % op, spre + [P(Bin(op, {"k": "paren", "e": Idx(Id("la"), I(0))}, Call("bl"))), Ret(I(0))])
    # ... also when the call goes through the reflect path (variadic, five parameters, spread), a deferred call, or to a Go function
    shapes = [FnStmt("tv", ["a", "rest"], [P(Id("a")), Ret(Id("a"), Id("rest"))], va=True), FnStmt("t5", ["a", "b", "c", "d", "e"], [P(Id("a")), Ret(L(Id("a"), Id("b"), Id("e")))]),
              FnStmt("two", ["a", "b"], [P(Id("a")), Ret(Id("a"), Id("b"))])]
    for nm, place, bump in (("item", Idx(Id("la"), I(0)), "bl"), ("member", Member(Id("ma"), "k"), "bm"), ("var", Id("xa"), "bx")):
        add("snapshot-args-variadic-" + nm, spre + shapes + [P(Call("tv", place, Call(bump))), Ret(I(0))])
        add("snapshot-args-variadic-rest-" + nm, spre + shapes + [P(Call("tv", I(0), place, Call(bump))), Ret(I(0))])
        add("snapshot-args-five-" + nm, spre + shapes + [P(Call("t5", place, Call(bump), I(3), I(4), place)), Ret(I(0))])
        add("snapshot-args-spread-" + nm, spre + shapes + [P(Call("two", place, L(Call(bump)), spread=True)), Ret(I(0))])
        add("snapshot-args-spread-variadic-" + nm, spre + shapes + [P(Call("tv", place, L(Call(bump), I(5)), spread=True)), Ret(I(0))])
        add("snapshot-args-anon-" + nm, spre + shapes + [P(ACall(Id("tv"), place, Call(bump))), P(ACall(Fn(["a", "b", "c", "d", "e"], [Ret(Id("a"))]), place, Call(bump), I(3), I(4), I(5))), Ret(I(0))])
        add("snapshot-args-defer-" + nm, spre + shapes + [FnStmt("d", [], [Defer(Call("tv", place, Call(bump))), Defer(Call("two", place, Call(bump))), P(40), Ret(I(0))]), E(Call("d")), Ret(I(0))])
        add("snapshot-args-go-fixed-" + nm, spre + [P(Call("pv", place, Call(bump))), Ret(I(0))])
        add("snapshot-args-go-variadic-" + nm, spre + [E(Call("pn", place, Call(bump), place)), Ret(I(0))])
        add("snapshot-args-go-defer-" + nm, spre + [FnStmt("d", [], [Defer(Call("pn", place, Call(bump))), P(40), Ret(I(0))]), E(Call("d")), Ret(I(0))])
        add("snapshot-mapkey-" + nm, spre + [P(M((place, Call(bump)), (S("z"), place))), Ret(I(0))])
        add("snapshot-index-" + nm, spre + [Let("big", L(I(0), I(1), I(2), I(3), I(4), I(5), I(6), I(7), I(8), I(9), I(10))), P(Idx(Id("big"), Bin("-", place, Call(bump)))), Ret(I(0))])
    # the base of an index / slice expression is the value read before the index operands run
    bpre = [Let("ll", L(L(I(1), I(2), I(3)), L(I(4)))), Let("ml", M((S("k"), L(I(1), I(2), I(3))))),
            FnStmt("bll", [], [Let([Idx(Id("ll"), I(0))], [L(I(7), I(8), I(9))]), Ret(I(0))]), FnStmt("bml", [], [Let([Member(Id("ml"), "k")], [L(I(7), I(8), I(9))]), Ret(I(0))]),
            FnStmt("bsh", [], [Let([Idx(Id("ll"), I(0))], [L()]), Ret(I(0))])]
    add("snapshot-index-base-item", bpre + [P(Idx(Idx(Id("ll"), I(0)), Call("bll"))), P(Id("ll")), Ret(I(0))])
    add("snapshot-index-base-member", bpre + [P(Idx(Member(Id("ml"), "k"), Call("bml"))), Ret(I(0))])
    add("snapshot-index-base-shrunk", bpre + [Try([P(Idx(Idx(Id("ll"), I(0)), Call("bsh")))], "e", [P(60)]), Ret(I(0))])
    add("snapshot-slice-base-item", bpre + [P(Slice(Idx(Id("ll"), I(0)), Call("bll"), I(2))), Ret(I(0))])
    add("snapshot-slice-base-hi", bpre + [P(Slice(Idx(Id("ll"), I(0)), I(0), Bin("+", Call("bll"), I(2)))), Ret(I(0))])
    add("snapshot-slice-base-open-end", bpre + [Try([P(Slice(Idx(Id("ll"), I(0)), Call("bsh")))], "e", [P(60)]), Ret(I(0))])
    add("snapshot-slice-base-member", bpre + [P(Slice(Member(Id("ml"), "k"), Call("bml"), I(3))), Ret(I(0))])
    add("snapshot-len", bpre + [P(Bin("+", Len_(Idx(Id("ll"), I(0))), Call("bsh"))), Ret(I(0))])
    add("snapshot-in-list", bpre + [P(In(I(7), Bin("+", Idx(Id("ll"), I(0)), L(Call("bll"))))), Ret(I(0))])
    # an operator with a literal on one side: the other operand still runs once, whatever kind of value it yields
    for nm, v in (("str", S("a")), ("list", L(I(1))), ("int", I(3)), ("neg", I(-3))):
        for op in ("+", "-", "*", "==", "<"):
            for lit_nm, lit in (("int", I(1)), ("str", S("z")), ("zero", I(0))):
                add("binlit-r-%s%s%s" % (nm, op, lit_nm), [Try([P(Bin(op, PV(1, v), lit))], "e", [P(60)]), P(61), Ret(I(0))])
                add("binlit-l-%s%s%s" % (nm, op, lit_nm), [Try([P(Bin(op, lit, PV(1, v)))], "e", [P(60)]), P(61), Ret(I(0))])
        add("binlit-chain-%s" % nm, [Try([P(L(PV(1, I(0)), Bin("+", PV(2, v), I(1)), PV(3, I(0))))], "e", [P(60)]), P(61), Ret(I(0))])
        add("binlit-opasg-%s" % nm, [Let("x", v), Try([E(OpAsg(Id("x"), "+", I(2))), P(Id("x"))], "e", [P(60)]), P(61), Ret(I(0))])
    add("snapshot-list", spre + [P(L(Idx(Id("la"), I(0)), Call("bl"), Idx(Id("la"), I(0)))), Ret(I(0))])
    add("snapshot-args", spre + [FnStmt("two", ["a", "b"], [Ret(Id("a"), Id("b"))]), P(Call("two", Idx(Id("la"), I(0)), Call("bl"))), Ret(I(0))])
    add("snapshot-tern", spre + [P(Bin("+", Tern(B(True), Idx(Id("la"), I(0)), I(0)), Call("bl"))), Ret(I(0))])
    add("snapshot-nilco", spre + [P(Bin("+", Nilco(Idx(Id("la"), I(0)), I(0)), Call("bl"))), Ret(I(0))])
    # literals, operators, index, return list, multi-assignment
    for bad in (None, 0, 1, 2):
        o = ops(3, bad)
        add("list-%s" % bad, [Try([P(L(*o))], "e", [P(60)]), Ret(I(0))])
        add("ret-%s" % bad, [FnStmt("f", [], [Ret(*o)]), Try([P(Call("f"))], "e", [P(60)]), Ret(I(0))])
        add("multi-assign-%s" % bad, [Try([Let(["x", "y", "z"], o), P(Id("x")), P(Id("y")), P(Id("z"))], "e", [P(60)]), Ret(I(0))])
        add("var-multi-%s" % bad, [Try([Var(["x", "y", "z"], o), P(Id("x"))], "e", [P(60)]), Ret(I(0))])
    # more right-hand values than targets: every one of them is still evaluated, once, in order (and a failing one ends the statement)
    for bad in (None, 2, 3):
        o = ops(4, bad)
        add("multi-assign-surplus-%s" % bad, [Try([Let(["x", "y"], o), P(Id("x")), P(Id("y"))], "e", [P(60)]), Ret(I(0))])
        add("var-multi-surplus-%s" % bad, [Try([Var(["x", "y"], o), P(Id("x")), P(Id("y"))], "e", [P(60)]), Ret(I(0))])
    for bad in (None, 0, 1):
        o = ops(2, bad)
        add("map-%s" % bad, [Try([P(M((S("k1"), o[0]), (S("k2"), o[1])))], "e", [P(60)]), Ret(I(0))])
        for op in ("+", "-", "*", "<", "==", "!=", ">=", "%"):
            add("bin%s-%s" % (op, bad), [Try([P(Bin(op, o[0], o[1]))], "e", [P(60)]), Ret(I(0))])
        add("idx-%s" % bad, [Try([P(Idx(BAD if bad == 0 else PV(1, L(I(5), I(6), I(7))), BAD if bad == 1 else PV(2, I(1))))], "e", [P(60)]), Ret(I(0))])
        for ty in ("map[string]int64", "map[string]interface"):
            add("tmap-%s-%s" % (ty[11:], bad), [Try([P(Len_(TM(ty, (BAD if bad == 0 else PV(1, S("a")), PV(2, I(1))), (PV(3, S("b")), BAD if bad == 1 else PV(4, I(2))))))], "e", [P(60)]), Ret(I(0))])
        # a key / a value that cannot be converted fails where it stands: nothing after it is evaluated
        add("tmap-badkey-%s" % bad, [Try([P(Len_(TM("map[string]int64", (PV(1, S("a")), PV(2, I(1))), (PV(3, L(I(9))), PV(4, I(2))), (PV(5, S("c")), PV(6, I(3))))))], "e", [P(60)]), Ret(I(0))])
        add("tmap-badval-%s" % bad, [Try([P(Len_(TM("map[string]int64", (PV(1, S("a")), PV(2, S("x"))), (PV(3, S("b")), PV(4, I(2))))))], "e", [P(60)]), Ret(I(0))])
        for ty in ("[]int64", "[]interface"):
            add("tlist-%s-%s" % (ty[2:], bad), [Try([P(Len_(TL(ty, BAD if bad == 0 else PV(1, I(1)), BAD if bad == 1 else PV(2, I(2)), PV(3, I(3)))))], "e", [P(60)]), Ret(I(0))])
        add("tlist-badval-%s" % bad, [Try([P(Len_(TL("[]int64", PV(1, I(1)), PV(2, S("x")), PV(3, I(3)))))], "e", [P(60)]), Ret(I(0))])
        add("mapkeys-%s" % bad, [Try([P(M((BAD if bad == 0 else PV(1, S("a")), PV(2, I(1))), (PV(3, S("b")), BAD if bad == 1 else PV(4, I(2)))))], "e", [P(60)]), Ret(I(0))])
    # slice expressions: the sliced operand, then every bound that is written, once each, left to right; a failing or unacceptable bound ends it
    base = L(I(5), I(6), I(7), I(8))
    def sl(name, e): add("slice-" + name, [Let("la", base), Try([P(e)], "e", [P(60)]), P(61), Ret(I(0))])
    for lo in (None, 0, 1):
        for hi in (None, 2, 4):
            for cap in (None, 4):
                if (cap is not None and hi is None) or (lo is None and hi is None):
                    continue                                   # a[:] and a[lo::cap] are not in the grammar
                nm = "%s-%s-%s" % (lo, hi, cap)
                sl("lit-" + nm, Slice(PV(1, base), None if lo is None else PV(2, I(lo)), None if hi is None else PV(3, I(hi)), None if cap is None else PV(4, I(cap))))
                sl("var-" + nm, Slice(Id("la"), None if lo is None else PV(2, I(lo)), None if hi is None else PV(3, I(hi)), None if cap is None else PV(4, I(cap))))
    for bad in range(4):
        o = [BAD if j == bad else PV(j + 1, v) for j, v in enumerate((base, I(1), I(3), I(4)))]
        sl("bad%d" % bad, Slice(o[0], o[1], o[2], o[3]))
        if bad < 3:
            sl("bad%d-nocap" % bad, Slice(o[0], o[1], o[2]))
    for nm, lo, hi, cap in (("neg-lo", -1, 2, None), ("hi-beyond", 0, 5, None), ("lo-above-hi", 3, 2, None), ("cap-below-hi", 0, 3, 2), ("lo-at-len", 4, 4, None), ("empty", 2, 2, None),
                            ("cap-at-hi", 1, 2, 2)):
        sl("range-" + nm, Slice(PV(1, base), I(lo), I(hi), None if cap is None else I(cap)))            # constant bounds: the rejection is decided
        sl("range-probe-" + nm, Slice(PV(1, base), PV(2, I(lo)), PV(3, I(hi)), None if cap is None else PV(4, I(cap))))
    for nm, item in (("int", I(3)), ("nil", NIL), ("bool", B(False)), ("map", M((S("k"), I(1))))):
        sl("noelems-" + nm, Slice(PV(1, item), I(0), I(1)))
    sl("of-slice", Slice(Slice(PV(1, base), PV(2, I(1)), PV(3, I(4))), PV(4, I(1)), PV(5, I(2))))
    sl("of-call", Slice(Call("pv", PV(1, I(9)), PV(2, base)), PV(3, I(0)), PV(4, I(2))))
    sl("index-of-slice", Idx(Slice(PV(1, base), PV(2, I(1)), PV(3, I(3))), PV(4, I(1))))
    sl("as-args", Call("pn", Slice(PV(1, base), PV(2, I(0)), PV(3, I(1))), Slice(Id("la"), PV(4, I(2)))))
    sl("bounds-from-len", Slice(Id("la"), PV(1, Bin("-", Len_(Id("la")), I(2))), PV(2, Len_(Id("la")))))
    # t op= e stands for t = t op e: the operands inside t run for the read (before e) and again for the store (after it) -- exactly twice
    opre = [Let("xa", I(10)), Let("la", L(I(5), I(6), I(7))), Let("ma", M((S("k"), I(3)))), Let("ll", L(L(I(1), I(2)), L(I(3)))), Let("lst", L(I(1)))]
    ofin = Ret(L(Id("xa"), Id("la"), Id("ma"), Id("ll"), Id("lst")))
    def oa(name, stmts): add("opasg-" + name, opre + [Try(stmts, "e", [P(60)]), P(61), ofin])
    for op in ("+", "-", "*"):
        oa("var%s" % op, [E(OpAsg(Id("xa"), op, PV(1, I(3))))])
        oa("item%s" % op, [E(OpAsg(Idx(Id("la"), PV(1, I(1))), op, PV(2, I(3))))])
        oa("mapitem%s" % op, [E(OpAsg(Idx(Id("ma"), PV(1, S("k"))), op, PV(2, I(3))))])
        oa("member%s" % op, [E(OpAsg(Member(Id("ma"), "k"), op, PV(1, I(3))))])
        oa("nested%s" % op, [E(OpAsg(Idx(Idx(Id("ll"), PV(1, I(0))), PV(2, I(1))), op, PV(3, I(4))))])
    oa("item-badindex", [E(OpAsg(Idx(Id("la"), BAD), "+", PV(2, I(3))))])
    oa("item-badrhs", [E(OpAsg(Idx(Id("la"), PV(1, I(1))), "+", BAD))])
    oa("item-range", [E(OpAsg(Idx(Id("la"), PV(1, I(3))), "+", PV(2, I(3))))])           # the READ fails: e is never evaluated
    oa("item-negative", [E(OpAsg(Idx(Id("la"), PV(1, I(-1))), "+", PV(2, I(3))))])
    oa("nested-range", [E(OpAsg(Idx(Idx(Id("ll"), PV(1, I(1))), PV(2, I(1))), "+", PV(3, I(4))))])
    oa("undefined", [E(OpAsg(Id("nosuch"), "+", PV(1, I(3))))])
    oa("var-badrhs", [E(OpAsg(Id("xa"), "-", BAD))])
    oa("append-value", [E(OpAsg(Id("lst"), "+", PV(1, I(9)))), E(OpAsg(Id("lst"), "+", PV(2, I(8))))])
    oa("append-list", [E(OpAsg(Id("lst"), "+", PV(1, L(I(9), I(8)))))])
    oa("append-nested", [E(OpAsg(Idx(Id("ll"), PV(1, I(1))), "+", PV(2, I(9))))])
    oa("mod-zero", [E(OpAsg(Id("xa"), "-", PV(1, I(10)))), E(OpAsg(Idx(Id("la"), PV(2, I(0))), "*", Id("xa")))])
    oa("string", [Let("sx", S("a")), E(OpAsg(Id("sx"), "+", PV(1, S("b")))), E(OpAsg(Id("sx"), "+", PV(2, I(7)))), P(Id("sx"))])
    oa("twice", [E(OpAsg(Idx(Id("la"), PV(1, I(0))), "+", PV(2, I(1)))), E(OpAsg(Idx(Id("la"), PV(3, I(0))), "+", PV(4, I(1))))])
    oa("cfor-post", [CFor(Let("i", I(0)), Bin("<", Id("i"), I(6)), OpAsg(Id("i"), "+", PV(1, I(2))), [P(Id("i"))])])
    oa("in-function", [FnStmt("f", ["v"], [E(OpAsg(Id("v"), "+", PV(1, I(1)))), E(OpAsg(Id("xa"), "+", Id("v"))), Ret(Id("v"))]), P(Call("f", PV(2, I(4))))])
    # membership: item, then list, each once; a right operand without elements fails after both have run
    def im(name, e): add("in-" + name, [Let("la", L(I(1), I(2), I(3))), Try([P(e)], "e", [P(60)]), P(61), Ret(I(0))])
    for v in (2, 5):
        im("lit-%d" % v, In(PV(1, I(v)), PV(2, L(I(1), I(2), I(3)))))
        im("var-%d" % v, In(PV(1, I(v)), Id("la")))
    im("bad-item", In(BAD, PV(2, L(I(1)))))
    im("bad-list", In(PV(1, I(1)), BAD))
    for nm, r in (("int", I(3)), ("nil", NIL), ("str", S("abc")), ("map", M((S("k"), I(1))))):
        im("noelems-" + nm, In(PV(1, I(1)), PV(2, r)))
    im("empty", In(PV(1, I(1)), PV(2, L())))
    im("nil-in", In(PV(1, NIL), PV(2, L(NIL))))
    im("list-in", In(PV(1, L(I(1))), PV(2, L(L(I(2)), L(I(1))))))
    im("str-in", In(PV(1, S("b")), PV(2, L(S("a"), S("b")))))
    im("nested-operands", In(Bin("+", PV(1, I(1)), PV(2, I(1))), Bin("+", PV(3, L(I(1))), PV(4, L(I(2))))))
    im("in-cond", Tern(In(PV(1, I(2)), Id("la")), PV(2, I(7)), PV(3, I(8))))
    add("in-if", [Let("la", L(I(1), I(2))), If(In(PV(1, I(2)), PV(2, Id("la"))), [P(50)], els=[P(51)]), While(In(PV(3, I(2)), Id("la")), [Let("la", L()), P(52)]), Ret(I(0))])
    add("in-switch", [Let("la", L(I(1), I(2))), Switch(In(PV(1, I(1)), Id("la")), [([B(False)], [P(50)]), ([B(True)], [P(51)])]), Ret(I(0))])
    # delete(m, k): the map, then the key, each once
    dpre = [Let("ma", M((S("k"), I(1)), (S("j"), I(2)), (I(3), I(4)))), Let("xa", I(3))]
    def dl(name, stmts): add("delete-" + name, dpre + [Try(stmts, "e", [P(60)]), P(61), Ret(L(Nilco(Id("ma"), S("undef")), Nilco(Id("xa"), S("undef"))))])
    for key in (S("k"), S("zz"), I(3), NIL):
        dl("key-%s" % json.dumps(key.get("s", key.get("i", "nil"))).strip('"'), [Delete(Id("ma"), PV(1, key)), P(Len_(Id("ma")))])
    dl("badkey", [Delete(Id("ma"), BAD)])
    dl("baditem", [Delete(BAD, PV(1, S("k")))])
    dl("unhashable", [Delete(Id("ma"), PV(1, L(I(1))))])
    dl("nokey", [Delete(Id("ma"))])
    dl("of-int", [Delete(PV(1, I(3)), PV(2, I(1)))])
    dl("of-nil", [Delete(PV(1, NIL), PV(2, I(1)))])
    dl("of-list", [Delete(PV(1, L(I(1))), PV(2, I(0)))])
    dl("name", [Delete(PV(1, S("xa")))])
    dl("name-flag", [Delete(PV(1, S("xa")), PV(2, B(True)))])
    dl("name-flag-false", [Delete(PV(1, S("xa")), PV(2, B(False)))])
    dl("name-unbound", [Delete(PV(1, S("nosuch")))])
    dl("twice", [Delete(Id("ma"), PV(1, S("k"))), Delete(Id("ma"), PV(2, S("k"))), Delete(Id("ma"), PV(3, S("j")))])
    # nested trees: left-to-right through nesting
    add("nested", [P(Bin("+", Bin("*", PV(1, I(2)), PV(2, I(3))), Call("pv", PV(3, I(3)), Bin("-", PV(4, I(9)), PV(5, I(1)))))), Ret(I(0))])
    add("nested-calls", [FnStmt("f", ["a", "b"], [Ret(Bin("+", Id("a"), Id("b")))]), P(Call("f", Call("f", PV(1, I(1)), PV(2, I(2))), Call("f", PV(3, I(3)), PV(4, I(4))))), Ret(I(0))])
    # short-circuit forms
    tv = [("T", B(True)), ("F", B(False)), ("1", I(1)), ("0", I(0)), ("s", S("x")), ("e", S("")), ("nil", NIL), ("l", L(I(1))), ("el", L())]
    for n, v in tv:
        add("and-" + n, [P(Bin("&&", PV(1, v), PV(2, B(True)))), Ret(I(0))])
        add("or-" + n, [P(Bin("||", PV(1, v), PV(2, B(True)))), Ret(I(0))])
        add("tern-" + n, [P(Tern(PV(1, v), PV(2, I(2)), PV(3, I(3)))), Ret(I(0))])
        add("nilco-" + n, [P(Nilco(PV(1, v), PV(2, I(2)))), Ret(I(0))])
    add("nilco-fail", [P(Nilco(Idx(L(I(1)), PV(1, I(5))), PV(2, I(2)))), Ret(I(0))])
    add("nilco-fail-undefined", [P(Nilco(BAD, PV(2, I(2)))), Ret(I(0))])
    add("nilco-chain", [P(Nilco(Nilco(PV(1, NIL), PV(2, NIL)), PV(3, I(3)))), Ret(I(0))])
    add("and-or-mix", [P(Bin("||", Bin("&&", PV(1, B(True)), PV(2, B(False))), Bin("&&", PV(3, B(True)), PV(4, B(True))))), Ret(I(0))])
    # chains of binary operators in which an OPERATION fails on its values (scalar + list, x % 0) before the end of the chain: the operands to its right never run
    cvals = {"i": I(1), "l": L(I(2)), "s": S("s"), "z": I(0)}
    n9 = 0
    for ops in (("+", "+"), ("+", "-"), ("-", "+"), ("+", "*"), ("%", "+"), ("+", "%"), ("+", "=="), ("+", "+", "+")):
        import itertools as _it
        for ks in _it.product("ilsz", repeat=len(ops) + 1):
            if "l" not in ks and "%" not in ops:
                continue
            e = PV(1, cvals[ks[0]])
            lvl = {"==": 4, "+": 5, "-": 5, "*": 6, "%": 6}
            for q, op in enumerate(ops):
                e = Bin(op, e, PV(q + 2, cvals[ks[q + 1]]))
                if q > 0 and lvl[ops[q - 1]] >= lvl[op]:
                    e["np"] = True          # written without parentheses: a + b + c, a % b + c, a + b == c
            nm = "chainfail-%s-%s" % ("".join({"+": "a", "-": "s", "*": "m", "%": "r", "==": "e"}[o] for o in ops), "".join(ks))
            n9 += 1
            if len(ops) == 3 and n9 % 5:
                continue
            add(nm, [Try([P(e), P(50)], "e", [P(60)]), P(61), Ret(I(0))])
            if n9 % 3 == 0:
                add(nm + "-arg", [FnStmt("f3", ["x", "y"], [Ret(I(0))]), Try([E(Call("f3", e, PV(9, I(9)))), P(50)], "e", [P(60)]), Ret(I(0))])
                add(nm + "-top", [Let("r", e), P(50)])
    return out


# ---------------------------------------------------------------- random programs (code -> spec direction)
class Rand:
    def __init__(self, seed, names=("a", "b", "c"), maxdepth=4):
        self.r = random.Random(seed)
        self.names = names
        self.maxdepth = maxdepth
        self.pid = 0
        self.fn = 0

    def probe(self):
        self.pid += 1
        return P(self.pid)

    def expr(self, d=0):
        r = self.r
        k = r.randrange(10 if d < 2 else 5)
        if k == 0: return I(r.randrange(4))
        if k == 1: return Nilco(Id(r.choice(self.names)), I(r.randrange(3)))
        if k == 2: return B(r.random() < 0.5)
        if k == 3: return S(r.choice(["", "x", "yy"]))
        if k == 4: self.pid += 1; return PV(self.pid, I(r.randrange(3)))
        if k == 5: return Bin(r.choice(["+", "-", "*", "<", "==", "!=", ">"]), self.iexpr(d + 1), self.iexpr(d + 1))
        if k == 6: return Bin(r.choice(["&&", "||"]), self.expr(d + 1), self.expr(d + 1))
        if k == 7: return Tern(self.expr(d + 1), self.expr(d + 1), self.expr(d + 1))
        if k == 8: return Un("!", self.expr(d + 1))
        return L(*[self.iexpr(d + 1) for _ in range(r.randrange(3))])

    def iexpr(self, d=0):
        r = self.r
        k = r.randrange(6 if d < 2 else 3)
        if k == 0: return I(r.randrange(4))
        if k == 1: return Nilco(Id(r.choice(self.names)), I(r.randrange(3)))
        if k == 2: self.pid += 1; return PV(self.pid, I(r.randrange(3)))
        return Bin(r.choice(["+", "-", "*"]), self.iexpr(d + 1), self.iexpr(d + 1))

    def block(self, d, inloop, infn, n=None):
        n = n if n is not None else self.r.randrange(1, 4)
        out = []
        for _ in range(n):
            out += self.stmt(d, inloop, infn)
        return out

    def stmt(self, d, inloop, infn):
        r = self.r
        deep = d >= self.maxdepth
        k = r.randrange(22)
        nm = r.choice(self.names)
        if k <= 2 or deep and k > 12: return [self.probe()]
        if k == 3: return [Let(nm, self.iexpr())]
        if k == 4: return [Var(nm, self.iexpr())]
        if k == 5: return [P(Nilco(Id(nm), S("undef")))]
        if k == 6 and inloop: return [If(self.expr(), [r.choice([BRK, CNT])])]
        if k == 7 and infn: return [If(self.expr(), [Ret(self.iexpr())])]
        if k == 8: return [If(self.expr(), [Throw(S("t%d" % r.randrange(3)))])]
        if k == 9: return [Defer(Call("p", self.iexpr()))] if infn or d == 0 else [self.probe()]
        if deep: return [self.probe()]
        if k == 10: return [If(self.expr(), self.block(d + 1, inloop, infn), els=self.block(d + 1, inloop, infn) if r.random() < 0.5 else None)]
        if k == 11: return [If(self.expr(), self.block(d + 1, inloop, infn), elifs=[(self.expr(), self.block(d + 1, inloop, infn))], els=self.block(d + 1, inloop, infn))]
        if k == 12: return [ForIn("i%d" % d, L(*[I(j) for j in range(r.randrange(4))]), self.block(d + 1, True, infn))]
        if k == 13:
            v = "q%d" % d
            return [CFor(Let(v, I(0)), Bin("<", Id(v), I(r.randrange(1, 4))), Inc(v), self.block(d + 1, True, infn))]
        if k == 14:
            v = "w%d" % d
            return [Let(v, I(0)), While(Bin("<", Id(v), I(r.randrange(1, 4))), [Let(v, Bin("+", Id(v), I(1)))] + self.block(d + 1, True, infn))]
        if k == 15: return [Switch(self.iexpr(), [([I(0)], self.block(d + 1, inloop, infn)), ([I(1), I(2)], self.block(d + 1, inloop, infn))], d=self.block(d + 1, inloop, infn) if r.random() < 0.6 else None)]
        if k == 16: return [Try(self.block(d + 1, inloop, infn), r.choice(["e", ""]), self.block(d + 1, inloop, infn), f=None)]
        if k == 17:
            self.fn += 1
            name = "fn%d" % self.fn
            ps = ["x", "y"][:r.randrange(3)]
            return [FnStmt(name, ps, self.block(d + 1, False, True) + [Ret(self.iexpr())]),
                    Try([P(Call(name, *[self.iexpr() for _ in ps]))], "e", [P(Id("e"))])]
        if k == 18:
            return [Try([E(ACall(Fn([], self.block(d + 1, False, True) + [Ret(I(0))])))], "e", [P(Id("e"))])]
        if k == 19:
            v = "l%d" % d
            return [Let(v, I(0)), Loop([Let(v, Bin("+", Id(v), I(1))), If(Bin(">", Id(v), I(r.randrange(1, 3))), [BRK])] + self.block(d + 1, True, infn))]
        if k == 20: return [Try(self.block(d + 1, inloop, infn), "e", [P(Id("e"))], f=[self.probe()])]
        return [Module("m%d" % d, self.block(d + 1, False, infn))]

    def next_id(self):
        self.pid += 1
        return self.pid

    def program(self):
        self.pid = 0
        self.fn = 0
        return self.block(0, False, False, n=self.r.randrange(3, 7)) + [Ret(L(*[Nilco(Id(n), S("undef")) for n in self.names]))]


def rand_programs(seed, n, maxdepth=4):
    g = Rand(seed, maxdepth=maxdepth)
    return [{"id": "rand-%d-%d" % (seed, i), "prog": g.program()} for i in range(n)]


# ---------------------------------------------------------------- random programs over the WHOLE language of AnkoSem (typed by name, so that
# every run stays inside the decided fragment: ints i*, strings s*, lists of ints l*, maps string->int m*, functions f* of recorded arity)
class Rand2:
    INTS = ["i1", "i2", "i3"]
    STRS = ["s1", "s2"]
    LISTS = ["l1", "l2"]
    MAPS = ["m1"]

    def __init__(self, seed, maxdepth=3):
        self.r = random.Random(seed)
        self.maxdepth = maxdepth

    # ---- bookkeeping: lexical scopes (name -> kind), functions (name -> (nfix, va, ret))
    def reset(self):
        self.pid = 0
        self.nfn = 0
        self.nmod = 0
        self.scopes = [{}]
        self.mods = {}          # module name -> {"vars": [...], "fns": {name: sig}}
        self.nocall = False     # set while a rebinding body is built: no calls there, so that no call cycle can arise

    def push(self): self.scopes.append({})
    def pop(self): self.scopes.pop()
    def define(self, n, kind): self.scopes[-1][n] = kind
    def known(self, kind):
        out = []
        for sc in self.scopes:
            for n, k in sc.items():
                if (k == kind or (kind == "fn" and isinstance(k, tuple))) and n not in out:
                    out.append(n)
        return out
    def sig(self, n):
        for sc in reversed(self.scopes):
            if n in sc:
                return sc[n]
        return None
    def pidn(self):
        self.pid += 1
        return self.pid
    def probe(self): return P(self.pidn())
    def peek(self):
        # what a name means here: the nearest binding or none (scope leaks show up as a different answer)
        n = self.r.choice(self.INTS + self.STRS + self.LISTS + ["mv", "loc", "cnt", "x", "y", "e", "gv"])
        return P(Nilco(Id(n), S("undef")))

    # ---- expressions
    def lit(self): return I(self.r.randrange(4))
    def pv(self): return PV(self.pidn(), self.lit())

    def ivar(self):
        ks = self.known("int")
        if ks and self.r.random() < 0.85:
            return Id(self.r.choice(ks))
        return Nilco(Id(self.r.choice(self.INTS)), self.lit())

    def iatom(self, d):
        r = self.r
        if r.random() < 0.07:
            return Nilco(Idx(Id("la"), self.small()), self.lit()) if r.random() < 0.6 else Len_(Id(r.choice(["la", "ll", "ma"])))
        k = r.randrange(12)
        if k <= 1: return self.lit()
        if k <= 3: return self.pv()
        if k <= 5: return self.ivar()
        if k == 6:
            ls = self.known("list")
            return Len_(Id(r.choice(ls))) if ls else Len_(self.llit(d + 1))
        if k == 7:
            ls = self.known("list")
            base = Id(r.choice(ls)) if ls else self.llit(d + 1, typed=False, minlen=1)
            return Nilco(Idx(base, self.lit() if r.random() < 0.7 else self.pv()), self.lit())
        if k == 8:
            ms = self.known("map")
            if ms:
                key = S(r.choice(["a", "b", "z"]))
                m = Id(r.choice(ms))
                return Nilco(Idx(m, key) if r.random() < 0.5 else Member(m, key["s"]), self.lit())
            return self.lit()
        if k == 9 and d < 2:
            c = self.call_int(d)
            if c is not None:
                return c
        if k == 10 and d < 2: return Tern(self.bexpr(d + 1), self.iatom(d + 1), self.iatom(d + 1))
        if k == 11 and d < 2: return I(-self.r.randrange(1, 3)) if self.r.random() < 0.5 else Un("-", self.ivar())
        return self.lit()

    def small(self):
        return self.lit() if self.r.random() < 0.6 else self.pv()

    def iexpr(self, d=0):
        r = self.r
        k = r.randrange(8)
        if k <= 2 or d >= 2: return self.iatom(d)
        if k <= 4:   # at most one growing operand: values stay linear in the number of steps
            a, b = self.iatom(d + 1), self.small()
            if r.random() < 0.5: a, b = b, a
            return Bin(r.choice(["+", "-"]), a, b)
        if k == 5: return Bin("*", self.small(), self.small())
        if k == 6: return Bin("%", self.small(), I(r.randrange(1, 4)) if r.random() < 0.9 else I(0))
        return self.iatom(d)

    def bexpr(self, d=0):
        r = self.r
        k = r.randrange(10 if d < 2 else 4)
        if k == 0: return B(r.random() < 0.5)
        if k <= 3: return Bin(r.choice(["<", "<=", ">", ">=", "==", "!="]), self.iexpr(d + 1), self.iexpr(d + 1))
        if k == 4: return Bin(r.choice(["&&", "||"]), self.cond(d + 1), self.cond(d + 1))
        if k == 5: return Un("!", self.cond(d + 1))
        if k == 6: return Bin(r.choice(["==", "!="]), self.sexpr(d + 1), self.sexpr(d + 1))
        if k == 7: return Bin(r.choice(["==", "!="]), self.ivar(), NIL)
        if k == 8: return Tern(self.cond(d + 1), self.bexpr(d + 1), self.bexpr(d + 1))
        return Bin("&&", self.bexpr(d + 1), self.bexpr(d + 1))

    def cond(self, d=0):
        # any value used for its truthiness
        r = self.r
        k = r.randrange(8)
        if k <= 3: return self.bexpr(d)
        if k == 4: return self.iexpr(d + 1)
        if k == 5: return self.sexpr(d + 1)
        if k == 6:
            ls = self.known("list")
            return Id(r.choice(ls)) if ls else self.llit(d + 1, typed=False)
        return NIL if r.random() < 0.3 else self.pv()

    def sexpr(self, d=0):
        r = self.r
        k = r.randrange(6)
        ss = self.known("str")
        if k <= 1 or d >= 2: return S(r.choice(["", "x", "yy", "0", "false"]))
        if k == 2 and ss: return Id(r.choice(ss))
        if k == 3: return Bin("+", S(r.choice(["a", "b"])), self.small())
        if k == 4 and ss: return Bin("+", Id(r.choice(ss)), S(r.choice(["x", "", "q"])))
        return Bin("+", S(r.choice(["a", ""])), S(r.choice(["b", "c"])))

    def llit(self, d=0, typed=True, minlen=0):
        r = self.r
        es = [self.small() if r.random() < 0.7 else self.iexpr(d + 1) for _ in range(r.randrange(minlen, 4))]
        if typed and r.random() < 0.2: return TL(r.choice(["[]int64", "[]interface"]), *es)
        return L(*es)

    def lexpr(self, d=0, typed=True):
        r = self.r
        k = r.randrange(7)
        ls = self.known("list")
        if not typed:
            # statement headers (if / for ... in): a composite literal there is ambiguous with the block
            if ls and r.random() < 0.5: return Id(r.choice(ls))
            return self.llit(d, typed=False)
        if k <= 2 or d >= 2: return self.llit(d)
        if k == 3 and ls: return Id(r.choice(ls))
        if k == 4 and ls: return Bin("+", Id(r.choice(ls)), self.llit(d + 1) if r.random() < 0.5 else self.small())
        if k == 5:
            c = self.call_kind("list", d)
            if c is not None:
                return c
        return self.llit(d)

    def mlit(self, d=0):
        r = self.r
        kv = [(S(r.choice(["a", "b", "c"])), self.small() if r.random() < 0.7 else self.iexpr(d + 1)) for _ in range(r.randrange(3))]
        if r.random() < 0.2: return TM(r.choice(["map[string]int64", "map[string]interface"]), *kv)
        return M(*kv)

    def args_for(self, sig, d):
        nfix, va, _ = sig
        r = self.r
        args = [self.iexpr(d + 1) for _ in range(nfix)]
        spread = False
        if va:
            if r.random() < 0.35:
                ls = self.known("list")     # (an operator expression before "..." would need parentheses: `l1 + 1...` does not scan)
                args.append(Id(r.choice(ls)) if ls and r.random() < 0.6 else self.llit(d + 1))
                spread = True
            else:
                args += [self.small() for _ in range(r.randrange(3))]
        elif nfix >= 1 and r.random() < 0.12:
            # a list of exactly the right length spread over the fixed parameters
            keep = r.randrange(nfix)
            args = args[:keep] + [L(*[self.small() for _ in range(nfix - keep)])]
            spread = True
        return args, spread

    def callee(self, name):
        return name

    def call_kind(self, ret, d):
        r = self.r
        if self.nocall:
            return None
        cands = [n for n in self.known("fn") if self.sig(n)[2] == ret]
        mods = [(m, f) for m, info in self.mods.items() if self.sig(m) == "mod" for f, sg in info["fns"].items() if sg[2] == ret]
        if not cands and not mods:
            return None
        if mods and (not cands or r.random() < 0.3):
            m, f = r.choice(mods)
            args, spread = self.args_for(self.mods[m]["fns"][f], d)
            return ACall(Member(Id(m), f), *args, spread=spread)
        n = r.choice(cands)
        args, spread = self.args_for(self.sig(n), d)
        if r.random() < 0.15:
            return ACall(Id(n), *args, spread=spread)
        return Call(n, *args, spread=spread)

    def call_int(self, d): return self.call_kind("int", d)

    # ---- statements
    def block(self, d, inloop, infn, n=None, scope=True):
        if scope: self.push()
        n = n if n is not None else self.r.randrange(1, 4)
        out = []
        for _ in range(n):
            out += self.stmt(d, inloop, infn)
        if scope: self.pop()
        return out

    def assign_target(self, kind, pool):
        n = self.r.choice(pool)
        if self.sig(n) is None:
            self.define(n, kind)
        return n

    def fn_body(self, d, ps, ret, va=False):
        # parameters: ints (the variadic one a list); the body ends with a return of the declared kind
        self.push()
        for p in ps[:-1] if va else ps:
            self.define(p, "int")
        if va:
            self.define(ps[-1], "list")
        body = self.block(d + 1, False, True, scope=False)
        if ret == "int":
            tail = Ret(self.iexpr(1))
        elif ret == "list":
            tail = Ret(self.small(), self.small()) if self.r.random() < 0.6 else Ret(self.lexpr(1))
        else:
            tail = Ret(self.iexpr(1))
        self.pop()
        return body + [tail]

    def def_fn(self, d):
        r = self.r
        self.nfn += 1
        name = "f%d" % self.nfn
        nfix = r.randrange(3)
        va = r.random() < 0.25
        ret = "list" if r.random() < 0.2 else "int"
        ps = ["x", "y"][:nfix] + (["zs"] if va else [])
        kind = r.randrange(4)
        if kind == 0 and nfix >= 1 and ret == "int" and not va:
            # bounded recursion on the first parameter
            self.define(name, (nfix, va, ret))
            args = [Bin("-", Id("x"), I(1))] + [self.small() for _ in range(nfix - 1)]
            body = [If(Bin("<=", Id("x"), I(0)), [Ret(self.small())]), self.probe(), Ret(Bin("+", Call(name, *args), I(1)))]
            return [FnStmt(name, ps, body)], name
        self.define(name, (nfix, va, ret))     # visible to its own body too (no self call is generated there: call_kind may pick it; keep it out while building)
        saved = self.scopes[-1].pop(name)
        body = self.fn_body(d, ps, ret, va)
        self.scopes[-1][name] = saved
        if kind == 1:
            return [Let(name, Fn(ps, body, va=va))], name
        return [FnStmt(name, ps, body, va=va)], name

    def stmt(self, d, inloop, infn):
        out = self.stmt0(d, inloop, infn)
        if len(out) >= 1 and out[0]["k"] not in ("expr", "let", "var", "defer", "letmi") and self.r.random() < 0.2 and not self.holds_jump(out):
            # the same statements inside a try: an error raised in them is caught and execution goes on in the enclosing scope
            return [Try(out, "e", [P(Id("e")), self.peek(), self.peek()])] if all(x["k"] != "expr" or x["e"].get("k") != "fn" for x in out) else out
        if len(out) >= 1 and out[-1]["k"] in ("if", "forin", "cfor", "while", "loop", "switch", "try", "module") and self.r.random() < 0.3:
            return out + [self.peek()]
        return out

    def holds_jump(self, stmts):
        # break / continue / return somewhere inside (they would leave the try: kept out of the wrapper)
        txt = json.dumps(stmts)
        return '"k": "break"' in txt or '"k": "continue"' in txt or '"k": "return"' in txt

    def stmt0(self, d, inloop, infn):
        r = self.r
        deep = d >= self.maxdepth
        k = r.randrange(46)
        if k <= 2: return [self.probe()]
        if k <= 5:
            e = self.iexpr()
            return [Let(self.assign_target("int", self.INTS), e)]
        if k == 6:
            e = self.iexpr()
            n = r.choice(self.INTS); self.define(n, "int")
            return [Var(n, e)]
        if k == 7:
            e = self.sexpr()
            return [Let(self.assign_target("str", self.STRS), e)]
        if k == 8:
            e = self.lexpr()
            return [Let(self.assign_target("list", self.LISTS), e)]
        if k == 9:
            e = self.mlit()
            return [Let(self.assign_target("map", self.MAPS), e)]
        if k == 10:
            # several targets, several values (equal counts, or surplus values)
            es = [self.iexpr(1) if r.random() < 0.5 else self.pv() for _ in range(r.choice([2, 2, 3, 4, 5]))]
            a, b = r.sample(self.INTS, 2)
            for n in (a, b):
                if self.sig(n) is None: self.define(n, "int")
            return [Let([a, b], es)]
        if k == 11:
            # destructuring a list of at least two ints
            src = L(self.small(), self.small(), *[self.small() for _ in range(r.randrange(2))])
            c = self.call_kind("list", 1)
            a, b = r.sample(self.INTS, 2)
            if c is not None and c["k"] == "call" and r.random() < 0.5 and False:
                src = c
            if r.random() < 0.5:
                for n in (a, b):
                    if self.sig(n) is None: self.define(n, "int")
                return [Let([a, b], src)]
            self.define(a, "int"); self.define(b, "int")
            return [Var([a, b], [src])]
        if k == 12:
            ms = self.known("map")
            if ms:
                key = S(r.choice(["a", "b", "z"]))
                return [LetMI("gv", "ok", Idx(Id(r.choice(ms)), PV(self.pidn(), key) if r.random() < 0.5 else key)), P(Nilco(Id("gv"), S("none"))), P(Id("ok"))]
            return [self.probe()]
        if k == 13: return [P(self.iexpr())]
        if k == 14: return [P(r.choice([self.sexpr, self.lexpr, self.bexpr])())]
        if k == 15 and inloop: return [If(self.cond(), [r.choice([BRK, CNT])])]
        if k == 16 and infn: return [If(self.cond(), [Ret(self.iexpr())])]
        if k == 17: return [If(self.cond(), [Throw(S("t%d" % r.randrange(3)) if r.random() < 0.8 else self.small())])]
        if k == 18:
            if not (infn or d == 0): return [self.probe()]
            c = self.call_kind("int", 1)
            if c is not None and r.random() < 0.5: return [Defer(c)]
            if r.random() < 0.3:
                self.push(); body = self.block(d + 1, False, True, scope=False) + [Ret(I(0))]; self.pop()
                return [Defer(ACall(Fn([], body)))]
            return [Defer(Call("p", self.iexpr()))]
        if k == 19:
            ks = self.known("int")
            if ks: return [E(Inc(r.choice(ks)))]
            return [self.probe()]
        if k == 20:
            c = self.call_kind(r.choice(["int", "list"]), 0)
            if c is not None: return [P(c)]
            return [self.probe()]
        if k == 21:
            # rebinding a function name to another function of the same shape
            fs = [n for n in self.known("fn") if not self.sig(n)[1]]
            if fs and not deep:
                n = r.choice(fs)
                nfix, va, ret = self.sig(n)
                ps = ["x", "y"][:nfix]
                self.nocall = True
                body = self.fn_body(self.maxdepth, ps, ret)
                self.nocall = False
                return [Let(n, Fn(ps, body))]
            return [self.probe()]
        if deep: return [self.probe()]
        if k == 22: return [If(self.cond(), self.block(d + 1, inloop, infn), els=self.block(d + 1, inloop, infn) if r.random() < 0.5 else None)]
        if k == 23:
            elifs = [(self.cond(), self.block(d + 1, inloop, infn)) for _ in range(r.randrange(1, 3))]
            return [If(self.cond(), self.block(d + 1, inloop, infn), elifs=elifs, els=self.block(d + 1, inloop, infn) if r.random() < 0.6 else None)]
        if k == 24:
            v = "e%d" % d
            self.push(); self.define(v, "int")
            body = self.block(d + 1, True, infn, scope=False); self.pop()
            return [ForIn(v, self.lexpr(1, typed=False), body)]
        if k == 25:
            self.push(); self.define("k%d" % d, "str"); self.define("v%d" % d, "int")
            body = self.block(d + 1, True, infn, scope=False); self.pop()
            kv = [(S(r.choice(["a", "b"])), self.small())] if r.random() < 0.8 else []
            return [ForIn(["k%d" % d, "v%d" % d], M(*kv), body)]
        if k == 26:
            v = "q%d" % d
            self.push(); self.define(v, "int")
            body = self.block(d + 1, True, infn, scope=False); self.pop()
            return [CFor(Let(v, I(0)), Bin("<", Id(v), I(r.randrange(1, 4))), Inc(v), body)]
        if k == 27:
            v = "w%d" % d
            self.define(v, "int")
            return [Let(v, I(0)), While(Bin("<", Id(v), I(r.randrange(1, 4))), [Let(v, Bin("+", Id(v), I(1)))] + self.block(d + 1, True, infn))]
        if k == 28:
            v = "n%d" % d
            self.define(v, "int")
            return [Let(v, I(0)), Loop([Let(v, Bin("+", Id(v), I(1))), If(Bin(">", Id(v), I(r.randrange(1, 3))), [BRK])] + self.block(d + 1, True, infn))]
        if k == 29:
            cases = []
            for _ in range(r.randrange(1, 4)):
                es = [self.small() for _ in range(r.randrange(1, 3))]
                cases.append((es, self.block(d + 1, inloop, infn)))
            return [Switch(self.iexpr(1), cases, d=self.block(d + 1, inloop, infn) if r.random() < 0.6 else None)]
        if k == 30:
            cases = [([S(x)], self.block(d + 1, inloop, infn)) for x in r.sample(["", "x", "yy", "a"], r.randrange(1, 3))]
            return [Switch(self.sexpr(1), cases, d=self.block(d + 1, inloop, infn) if r.random() < 0.5 else None)]
        if k == 31:
            self.push(); b = self.block(d + 1, inloop, infn, scope=False)
            cv = r.choice(["e", "e", ""])
            c = ([P(Id("e")), self.peek()] if cv and r.random() < 0.7 else []) + self.block(d + 1, inloop, infn, scope=False)
            self.pop()
            return [Try(b, cv, c)]
        if k == 32:
            # with finally: no control transfer out of the try or catch block (left open by the statements)
            self.push(); b = self.block(d + 1, False, False, scope=False)
            c = [P(Id("e"))] + self.block(d + 1, False, False, scope=False)
            f = [self.probe(), self.peek()] + self.block(d + 1, False, False, scope=False)
            self.pop()
            return [Try(b, "e", c, f=f)]
        if k in (33, 34, 35):
            stmts, name = self.def_fn(d)
            sg = self.sig(name)
            args, spread = self.args_for(sg, 1)
            use = P(Call(name, *args, spread=spread))
            if r.random() < 0.5:
                return stmts + [Try([use], "e", [P(Id("e"))])]
            return stmts + [use]
        if k == 36:
            self.push(); body = self.block(d + 1, False, True, scope=False) + [Ret(self.iexpr(1))]; self.pop()
            return [Try([P(ACall(Fn([], body)))], "e", [P(Id("e"))])]
        if k == 37:
            # a counter closure: captures a variable of the enclosing invocation by reference
            self.nfn += 1
            mk, c = "mk%d" % self.nfn, "c%d" % self.nfn
            step = r.randrange(1, 3)
            inner = Fn([], [Let("cnt", Bin("+", Id("cnt"), I(step))), self.probe(), Ret(Id("cnt"))])
            self.define(mk, "other"); self.define(c, (0, False, "int"))
            out = [FnStmt(mk, ["cnt"], [Ret(inner)]), Let(c, Call(mk, self.small()))]
            out += [P(Call(c)) for _ in range(r.randrange(1, 3))]
            if r.random() < 0.4:
                c2 = c + "b"
                self.define(c2, (0, False, "int"))
                out += [Let(c2, Call(mk, self.small())), P(Call(c2)), P(Call(c))]
            return out
        if k == 38:
            self.nmod += 1
            m = "md%d" % self.nmod
            self.push()
            self.define("mv", "int")
            fn1 = "g%d" % self.nmod
            body = [Let("mv", self.small())]
            self.define(fn1, (1, False, "int"))
            saved = self.scopes[-1].pop(fn1)
            fb = self.fn_body(d, ["x"], "int")
            self.scopes[-1][fn1] = saved
            body += [FnStmt(fn1, ["x"], fb[:-1] + [Ret(Bin("+", Id("x"), Id("mv")))])] + self.block(d + 1, False, infn, n=r.randrange(2), scope=False)
            self.pop()
            self.define(m, "mod")
            self.mods[m] = {"fns": {fn1: (1, False, "int")}}
            out = [Module(m, body), P(ACall(Member(Id(m), fn1), self.small())), P(Member(Id(m), "mv"))]
            if r.random() < 0.5:
                out += [{"k": "let", "lhs": [Member(Id(m), "mv")], "rhs": [self.small()]}, P(ACall(Member(Id(m), fn1), self.small()))]
            return out
        if k == 43:
            # stores through index paths into containers that are never aliased (la, ll, ma are only ever read by index, len or as a whole)
            kind = r.randrange(5)
            if kind == 0: st = {"k": "let", "lhs": [Idx(Id("la"), self.small())], "rhs": [self.iexpr(1)]}
            elif kind == 1: st = {"k": "let", "lhs": [Idx(Idx(Id("ll"), self.small()), self.small())], "rhs": [self.iexpr(1)]}
            elif kind == 2: st = {"k": "let", "lhs": [Idx(Id("ma"), S(r.choice(["a", "b", "n"])))], "rhs": [self.iexpr(1)]}
            elif kind == 3: st = {"k": "let", "lhs": [Idx(Id("la"), self.small()), Id(self.assign_target("int", self.INTS))], "rhs": [self.small(), self.small()]}
            else: st = {"k": "let", "lhs": [Idx(Idx(Id("ll"), I(r.randrange(3))), I(r.randrange(3)))], "rhs": [self.pv()]}
            out = [st, P(Id(r.choice(["la", "ll", "ma"])))]
            return [Try(out, "e", [P(Id("e"))])] if r.random() < 0.6 else out
        if k == 44:
            # a channel loop: every value once, in order
            v = "c%dv" % d
            self.push(); self.define(v, "int")
            body = self.block(d + 1, True, infn, scope=False); self.pop()
            return [ForIn(v, Call("ch", self.llit(1, typed=False)), body)]
        if k == 45:
            # a script function called back by Go through a func type without results
            self.push(); self.define("x", "int")
            body = [P(Id("x"))] + self.block(d + 1, False, True, scope=False) + [Ret(I(0))]; self.pop()
            return [Try([E(Call("pe", Fn(["x"], body))), self.probe()], "e", [P(Id("e"))])]
        if k == 39:
            # a Go function that panics: an ordinary error of the call, also when deferred
            if (infn or d == 0) and r.random() < 0.5:
                return [Defer(Call("pp", self.small())), self.probe()]
            return [Try([self.probe(), E(Call("pp", self.small())), self.probe()], "e", [P(Id("e"))], f=[self.probe()] if r.random() < 0.5 else None)]
        if k == 40:
            # defer <name>(...) in a function that runs several times while <name> is rebound in between
            fs = [n for n in self.known("fn") if self.sig(n) == (1, False, "int")]
            if fs:
                fb = r.choice(fs)
                self.nfn += 1
                fa = "h%d" % self.nfn
                self.define(fa, (0, False, "int"))
                self.nocall = True
                nb = self.fn_body(self.maxdepth, ["x"], "int")
                self.nocall = False
                return [FnStmt(fa, [], [Defer(Call(fb, self.small())), self.probe(), Ret(self.small())]), P(Call(fa)),
                        Let(fb, Fn(["x"], nb)), P(Call(fa)), P(Call(fa))]
            return [self.probe()]
        if k == 41:
            # a function made inside an invocation outlives it; invocations do not share their scopes
            self.nfn += 1
            mk, g1, g2 = "mk%d" % self.nfn, "g%da" % self.nfn, "g%db" % self.nfn
            self.define(mk, "other"); self.define(g1, (0, False, "int")); self.define(g2, (0, False, "int"))
            inner = Fn([], [Let("loc", Bin("+", Nilco(Id("loc"), I(0)), I(1))), self.probe(), Ret(Id("loc"))])
            pre = [Var("loc", self.small())] if r.random() < 0.5 else []
            return [FnStmt(mk, [], pre + [Ret(inner)]), Let(g1, Call(mk)), P(Call(g1)), Let(g2, Call(mk)), P(Call(g2)), P(Call(g1)), P(Nilco(Id("loc"), S("undef")))]
        if k == 42:
            # a module whose body fails: the error is caught outside and execution continues in the scope that was current before
            self.nmod += 1
            m = "mx%d" % self.nmod
            return [Try([Module(m, [Let("mv", self.small()), self.probe(), Throw(S("m")), self.probe()])], "e", [P(Id("e")), P(Nilco(Id("mv"), S("undef"))), self.peek()],
                        f=[P(Nilco(Id("mv"), S("undef")))] if r.random() < 0.5 else None),
                    P(Nilco(Id("mv"), S("undef"))), Let(self.assign_target("int", self.INTS), self.small())]
        return [self.probe()]

    def program(self):
        self.reset()
        r = self.r
        pre = []
        for n in self.INTS:
            if r.random() < 0.6: pre.append(Let(n, self.lit())); self.define(n, "int")
        for n in self.STRS:
            if r.random() < 0.5: pre.append(Let(n, S(r.choice(["", "x", "ab"])))); self.define(n, "str")
        for n in self.LISTS:
            if r.random() < 0.6: pre.append(Let(n, L(*[self.lit() for _ in range(r.randrange(4))]))); self.define(n, "list")
        if r.random() < 0.6: pre.append(Let("m1", M((S("a"), self.lit()), (S("b"), self.lit())))); self.define("m1", "map")
        pre += [Let("la", L(*[self.lit() for _ in range(r.randrange(4))])), Let("ll", L(*[L(*[self.lit() for _ in range(r.randrange(3))]) for _ in range(r.randrange(1, 4))])),
                Let("ma", M(*[(S(x), self.lit()) for x in r.sample(["a", "b", "c"], r.randrange(3))]))]
        body = self.block(0, False, False, n=r.randrange(4, 9), scope=False)
        names = self.INTS + self.STRS + self.LISTS + self.MAPS
        # la, ll, ma are stored INTO (references in the interpreter, values in the reference semantics): they are logged, never returned, so that
        # a deferred store cannot reach the result through a shared list
        return pre + body + [P(Id("la")), P(Id("ll")), P(Id("ma")), Ret(L(*[Nilco(Id(n), S("undef")) for n in names]))]


def rand2_programs(seed, n, maxdepth=3):
    g = Rand2(seed, maxdepth=maxdepth)
    return [{"id": "rand2-%d-%d" % (seed, i), "prog": g.program()} for i in range(n)]
